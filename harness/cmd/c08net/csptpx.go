// csptpx: COMPLETE CSPTP exchanges between the real client (child process) and a scripted
// responder on 319/320 in the parent. Used by
//
//   - property C18 (env C08NET_PART=c18): the value the client RETURNS for a complete
//     Sync/Follow_Up pair is compared with the exact offset / mean-path-delay formulas evaluated
//     (math/big) on the timestamps, correction fields and UTC offset the responder chose, and the
//     recorded exchange (the two response datagrams + the client's own kernel timestamps) is
//     re-evaluated by the Lean model of the client (Model/CsptpClient.lean, evaluateDatagrams);
//   - property C08 (default part): a handful of the same exchanges as liveness ops
//     (`cli.csptpx …` => `ok alive`), so that the evaluation path is executed at all.
package main

import (
	"bufio"
	"context"
	"encoding/binary"
	"fmt"
	"log/slog"
	"math/big"
	"net/netip"
	"os"
	"strconv"
	"strings"
	"sync"
	"time"

	"example.com/scion-time/core/client"
	"example.com/scion-time/core/timebase"
	"example.com/scion-time/driver/clocks"
	"example.com/scion-time/net/csptp"

	"verifharness/lib"
)

// ---------------------------------------------------------------- child

// evalCapture keeps the attributes of the client's "evaluated response" debug record.
type evalCapture struct {
	mu   sync.Mutex
	vals map[string]int64
	n    int
}

func (h *evalCapture) Enabled(context.Context, slog.Level) bool { return true }
func (h *evalCapture) WithAttrs([]slog.Attr) slog.Handler       { return h }
func (h *evalCapture) WithGroup(string) slog.Handler            { return h }
func (h *evalCapture) Handle(_ context.Context, r slog.Record) error {
	if r.Message != "evaluated response" {
		return nil
	}
	h.mu.Lock()
	defer h.mu.Unlock()
	h.n++
	h.vals = map[string]int64{}
	r.Attrs(func(a slog.Attr) bool {
		if a.Value.Kind() == slog.KindDuration {
			h.vals[a.Key] = int64(a.Value.Duration())
		}
		return true
	})
	return nil
}

// childClientCSPTPX: one measurement per input line; prints what the client returned and logged.
func childClientCSPTPX() {
	ctx := context.Background()
	timebase.RegisterClock(clocks.NewSystemClock(discard, clocks.UnknownDrift))
	out := bufio.NewWriter(os.Stdout)
	fmt.Fprintln(out, "READY")
	out.Flush()
	in := bufio.NewScanner(os.Stdin)
	h := &evalCapture{}
	csc := &client.CSPTPClientIP{Log: slog.New(h)}
	for in.Scan() {
		h.mu.Lock()
		h.n, h.vals = 0, nil
		h.mu.Unlock()
		cctx, cancel := context.WithTimeout(ctx, 400*time.Millisecond)
		ts, off, err := csc.MeasureClockOffset(cctx, netip.MustParseAddr("127.0.0.1"), netip.MustParseAddr("127.0.0.1"))
		cancel()
		if err != nil {
			fmt.Fprintln(out, "DONE err")
		} else {
			h.mu.Lock()
			v, n := h.vals, h.n
			h.mu.Unlock()
			get := func(k string) string {
				x, ok := v[k]
				if !ok {
					return "?"
				}
				return strconv.FormatInt(x, 10)
			}
			fmt.Fprintf(out, "DONE ok ts=%d off=%d c2s=%s s2c=%s loff=%s mpd=%s recs=%d\n", ts.UnixNano(), int64(off),
				get("C2S delay"), get("S2C delay"), get("clock offset"), get("mean path delay"), n)
		}
		out.Flush()
	}
}

// ---------------------------------------------------------------- parent: scripted responder

type xparams struct {
	th   int64  // server clock minus client clock, ns
	t1c  int64  // TLV RequestCorrectionField (2^-16 ns)
	c0   int64  // Sync correctionField
	c1   int64  // Follow_Up correctionField
	fl   uint16 // Follow_Up FlagField
	utc  int16  // TLV UTCOffset
	tf   uint32 // TLV FlagField (bit 0: ServerStateDS present)
	nn1  int    // whole seconds moved from the seconds into the nanoseconds field of t1 (0..3)
	nn2  int    // same for t2
	swap bool   // Follow_Up sent before Sync
}

func parseX(t []string) (p xparams, ok bool) {
	p.fl = csptp.FlagUnicast
	for _, s := range t {
		k, v, found := strings.Cut(s, "=")
		if !found {
			return p, false
		}
		x, err := strconv.ParseInt(v, 10, 64)
		if err != nil {
			return p, false
		}
		switch k {
		case "th":
			p.th = x
		case "t1c":
			p.t1c = x
		case "c0":
			p.c0 = x
		case "c1":
			p.c1 = x
		case "fl":
			p.fl = uint16(x)
		case "utc":
			p.utc = int16(x)
		case "tf":
			p.tf = uint32(x)
		case "nn1":
			p.nn1 = int(x) & 3
		case "nn2":
			p.nn2 = int(x) & 3
		case "swap":
			p.swap = x != 0
		default:
			return p, false
		}
	}
	return p, true
}

func (p xparams) String() string {
	sw := 0
	if p.swap {
		sw = 1
	}
	return fmt.Sprintf("th=%d t1c=%d c0=%d c1=%d fl=%d utc=%d tf=%d nn1=%d nn2=%d swap=%d", p.th, p.t1c, p.c0, p.c1, p.fl, p.utc, p.tf, p.nn1, p.nn2, sw)
}

// denorm moves k whole seconds from the seconds field into the nanoseconds field (the wire
// format admits nanoseconds up to 2^32-1; the client must normalise).
func denorm(ts csptp.Timestamp, k int) csptp.Timestamp {
	s := uint64(0)
	for _, b := range ts.Seconds {
		s = s<<8 | uint64(b)
	}
	if k <= 0 || s < uint64(k) || uint64(ts.Nanoseconds)+uint64(k)*1e9 > 1<<32-1 {
		return ts
	}
	s -= uint64(k)
	for i := 5; i >= 0; i-- {
		ts.Seconds[i] = uint8(s)
		s >>= 8
	}
	ts.Nanoseconds += uint32(k) * 1e9
	return ts
}

type xresult struct {
	tGo, rx    time.Time // responder's own clock readings around the client's transmission
	t1, t2     time.Time // what the responder put into the TLV / the Follow_Up
	seq        uint16
	sync, fu   []byte
	ts         int64 // returned timestamp (cRxTime0)
	off        int64 // returned offset
	c2s, s2c   int64
	loff, mpd  int64
	recs       int
	t0         int64 // recovered: the client's TX timestamp
	clientLine string
}

var cliCSPTPX *child

// csptpExchange runs one complete exchange. status: "" (complete), "incomplete", "dead",
// "stalled", "skip …".
func csptpExchange(p xparams) (r xresult, status string) {
	if !ensurePeers("csptp") {
		return r, "skip csptp-peer-ports-unavailable"
	}
	if cliCSPTPX == nil || !cliCSPTPX.alive() {
		c, err := startChild("clientx-csptp")
		if err != nil {
			return r, "skip " + strings.ReplaceAll(err.Error(), " ", "_")
		}
		cliCSPTPX = c
	}
	c := cliCSPTPX
	buf := make([]byte, 2048)
	// stale datagrams of an earlier, abandoned attempt
	for _, s := range []interface {
		SetReadDeadline(time.Time) error
		Read([]byte) (int, error)
	}{peerEv, peerGen} {
		for {
			s.SetReadDeadline(time.Now().Add(200 * time.Microsecond))
			if _, err := s.Read(buf); err != nil {
				break
			}
		}
	}
	for len(c.lines) > 0 {
		<-c.lines
	}
	r.tGo = time.Now()
	fmt.Fprintln(c.in, "go")
	finish := func(st string) (xresult, string) {
		// the client gives up after its 400 ms deadline: wait for its line so that the next
		// attempt starts clean
		select {
		case <-c.lines:
		case <-c.dead:
			return r, "dead"
		case <-time.After(1500 * time.Millisecond):
			c.kill()
			return r, "stalled"
		}
		return r, st
	}
	peerEv.SetReadDeadline(time.Now().Add(300 * time.Millisecond))
	n, caddr, err := peerEv.ReadFromUDP(buf)
	r.rx = time.Now()
	if err != nil || n < csptp.MinMessageLength {
		return finish("incomplete")
	}
	r.seq = binary.BigEndian.Uint16(buf[30:32])
	peerGen.SetReadDeadline(time.Now().Add(300 * time.Millisecond))
	if _, _, err := peerGen.ReadFromUDP(buf); err != nil {
		return finish("incomplete")
	}
	r.t1 = r.rx.Add(time.Duration(p.th))
	m0 := csptp.Message{
		SdoIDMessageType: csptp.MessageTypeSync, PTPVersion: csptp.PTPVersion, MessageLength: csptp.MinMessageLength,
		DomainNumber: csptp.DomainNumber, MinorSdoID: csptp.MinorSdoID, FlagField: csptp.FlagTwoStep | csptp.FlagUnicast,
		CorrectionField: p.c0, SourcePortIdentity: csptp.PortID{ClockID: 1, Port: 1}, SequenceID: r.seq,
		ControlField: csptp.ControlSync, LogMessageInterval: csptp.LogMessageInterval,
	}
	r.sync = make([]byte, csptp.MinMessageLength)
	csptp.EncodeMessage(r.sync, &m0)
	tlv := csptp.ResponseTLV{
		Type:                    csptp.TLVTypeOrganizationExtension,
		OrganizationID:          [3]uint8{csptp.OrganizationIDMeinberg0, csptp.OrganizationIDMeinberg1, csptp.OrganizationIDMeinberg2},
		OrganizationSubType:     [3]uint8{csptp.OrganizationSubTypeResponse0, csptp.OrganizationSubTypeResponse1, csptp.OrganizationSubTypeResponse2},
		FlagField:               p.tf,
		RequestIngressTimestamp: denorm(csptp.TimestampFromTime(r.t1), p.nn1),
		RequestCorrectionField:  p.t1c,
		UTCOffset:               p.utc,
		ServerStateDS:           csptp.ServerStateDS{GMPriority1: 128, GMClockClass: 6, GMClockID: 0x1122334455667788, TimeSource: 0x20},
	}
	tlv.Length = uint16(csptp.EncodedResponseTLVLength(&tlv))
	r.t2 = time.Now().Add(time.Duration(p.th))
	m1 := csptp.Message{
		SdoIDMessageType: csptp.MessageTypeFollowUp, PTPVersion: csptp.PTPVersion,
		MessageLength: uint16(csptp.MinMessageLength + csptp.EncodedResponseTLVLength(&tlv)),
		DomainNumber:  csptp.DomainNumber, MinorSdoID: csptp.MinorSdoID, FlagField: p.fl,
		CorrectionField: p.c1, SourcePortIdentity: csptp.PortID{ClockID: 1, Port: 1}, SequenceID: r.seq,
		ControlField: csptp.ControlFollowUp, LogMessageInterval: csptp.LogMessageInterval,
		Timestamp: denorm(csptp.TimestampFromTime(r.t2), p.nn2),
	}
	r.fu = make([]byte, m1.MessageLength)
	csptp.EncodeMessage(r.fu[:csptp.MinMessageLength], &m1)
	csptp.EncodeResponseTLV(r.fu[csptp.MinMessageLength:], &tlv)
	if p.swap {
		peerGen.WriteToUDP(r.fu, caddr)
		peerEv.WriteToUDP(r.sync, caddr)
	} else {
		peerEv.WriteToUDP(r.sync, caddr)
		peerGen.WriteToUDP(r.fu, caddr)
	}
	var line string
	select {
	case line = <-c.lines:
	case <-c.dead:
		return r, "dead"
	case <-time.After(1500 * time.Millisecond):
		c.kill()
		return r, "stalled"
	}
	r.clientLine = line
	f := strings.Fields(line)
	if len(f) < 2 || f[0] != "DONE" || f[1] != "ok" {
		return r, "incomplete"
	}
	for _, kv := range f[2:] {
		k, v, _ := strings.Cut(kv, "=")
		x, err := strconv.ParseInt(v, 10, 64)
		if err != nil {
			return r, "incomplete"
		}
		switch k {
		case "ts":
			r.ts = x
		case "off":
			r.off = x
		case "c2s":
			r.c2s = x
		case "s2c":
			r.s2c = x
		case "loff":
			r.loff = x
		case "mpd":
			r.mpd = x
		case "recs":
			r.recs = int(x)
		}
	}
	if r.recs != 1 {
		return r, "incomplete"
	}
	return r, ""
}

// ---------------------------------------------------------------- direct oracle

func floorDiv65536(x int64) *big.Int {
	return new(big.Int).Div(big.NewInt(x), big.NewInt(65536)) // big.Int.Div is Euclidean: floor for a positive divisor
}

type expect struct {
	off, mpd, c2s, s2c *big.Int
	t0                 *big.Int
	utc                *big.Int
}

// expected recomputes, from the values the responder chose and the client's two own timestamps,
// what the exact formulas give. t3 is the returned timestamp; t0 (the client's TX timestamp) is not
// observable from outside and is recovered from the logged client-to-server delay.
func expected(p xparams, r xresult) expect {
	c1 := floorDiv65536(p.t1c)
	c3 := new(big.Int).Add(floorDiv65536(p.c0), floorDiv65536(p.c1))
	utc := big.NewInt(0)
	if p.fl&csptp.FlagCurrentUTCOffsetValid != 0 {
		utc.Mul(big.NewInt(int64(p.utc)), big.NewInt(1e9))
	}
	t1 := big.NewInt(r.t1.UnixNano())
	t2 := big.NewInt(r.t2.UnixNano())
	t3 := big.NewInt(r.ts)
	// c2s = (t1 - t0 - c1) - utc  =>  t0 = t1 - c1 - utc - c2s
	t0 := new(big.Int).Sub(t1, c1)
	t0.Sub(t0, utc)
	t0.Sub(t0, big.NewInt(r.c2s))
	a := new(big.Int).Sub(t1, t0)
	a.Sub(a, c1)
	b := new(big.Int).Sub(t3, t2)
	b.Sub(b, c3)
	two := big.NewInt(2)
	return expect{
		off: new(big.Int).Quo(new(big.Int).Sub(a, b), two), // Quo truncates like Go's /
		mpd: new(big.Int).Quo(new(big.Int).Add(a, b), two),
		c2s: new(big.Int).Sub(a, utc),
		s2c: new(big.Int).Add(b, utc),
		t0:  t0, utc: utc,
	}
}

// runAnswer is the canonical answer of `csptpcli.run`: the deviations of what the client
// returned / logged from the exact formulas (all zero on a correct client).
func runAnswer(p xparams, r xresult) string {
	e := expected(p, r)
	d := func(got int64, want *big.Int) string { return new(big.Int).Sub(big.NewInt(got), want).String() }
	return fmt.Sprintf("ok doff=%s dmpd=%s ds2c=%s dlog=%d", d(r.off, e.off), d(r.mpd, e.mpd), d(r.s2c, e.s2c), r.loff-r.off)
}

const runOK = "ok doff=0 dmpd=0 ds2c=0 dlog=0"

// ---------------------------------------------------------------- generator (part c18)

func genParams(r *lib.Rand) xparams {
	corr := func() int64 {
		switch r.Intn(8) {
		case 0:
			return 0
		case 1:
			return r.Pick64([]int64{65536, -65536, 1, -1, 65535, -65535, -65537, 65537, 40<<16 | 0x8000, -(40<<16 | 0x8000)})
		case 2:
			return r.Range(-1<<40, 1<<40)
		case 3:
			return r.Pick64([]int64{1 << 55, -(1 << 55), 1<<55 + 12345, -(1 << 55) - 54321})
		default:
			return r.Range(-5000000, 5000000) // up to +-76 ns
		}
	}
	var p xparams
	switch r.Intn(8) {
	case 0:
		p.th = 0
	case 1:
		p.th = r.Pick64([]int64{1, -1, 37e9, -37e9, 12345677, -999999999, 1e15 + 1, -1e15 - 3, 999, -1001})
	case 2:
		p.th = r.Range(-1e12, 1e12)
	case 3:
		p.th = r.Range(-1e15, 1e15)
	default:
		p.th = r.Range(-5e6, 5e6)
	}
	p.t1c, p.c0, p.c1 = corr(), corr(), corr()
	p.fl = csptp.FlagUnicast
	if r.Bool() {
		p.fl |= csptp.FlagCurrentUTCOffsetValid
	}
	if r.Chance(30) {
		p.fl |= csptp.FlagPTPTimescale
	}
	if r.Chance(10) {
		p.fl = uint16(r.U64())
	}
	switch r.Intn(5) {
	case 0:
		p.utc = 0
	case 1:
		p.utc = 37
	case 2:
		p.utc = int16(r.Pick64([]int64{-37, 1, -1, 32767, -32768, 18}))
	case 3:
		p.utc = int16(r.U64())
	default:
		p.utc = int16(r.Range(-40, 40))
	}
	if r.Bool() {
		p.tf = csptp.TLVFlagServerStateDS
	}
	if r.Chance(25) {
		p.nn1 = r.Intn(4)
	}
	if r.Chance(25) {
		p.nn2 = r.Intn(4)
	}
	p.swap = r.Chance(20)
	return p
}

func genC18(c *lib.Ctx) {
	r := c.Rand.Fork("csptpx")
	if !ensurePeers("csptp") {
		c.NotExecuted("CSPTP client exchanges: ports 319/320 unavailable")
		return
	}
	defer func() { cliCSPTPX.kill() }()
	c.Comment("CSPTP client: complete exchanges with a scripted responder (correction fields, UTC offset valid/invalid)")
	var ps []xparams
	// corpus: the shapes the clause talks about
	for _, fl := range []uint16{csptp.FlagUnicast, csptp.FlagUnicast | csptp.FlagCurrentUTCOffsetValid} {
		for _, utc := range []int16{0, 37, -37, 32767, -32768} {
			for _, th := range []int64{0, 3000001, -37e9, 1e12 + 7} {
				ps = append(ps, xparams{th: th, t1c: 40<<16 | 0x8000, c0: -1, c1: 18 << 16, fl: fl, utc: utc, tf: uint32(utc) & 1})
			}
		}
	}
	n := c.Scale(160, 4000)
	for i := 0; i < n; i++ {
		ps = append(ps, genParams(r))
	}
	incomplete, done := 0, 0
	for _, p := range ps {
		op := "csptpcli.run " + p.String()
		var res xresult
		var st string
		for try := 0; try < 3; try++ {
			res, st = csptpExchange(p)
			if st == "" || strings.HasPrefix(st, "skip") {
				break
			}
			c.Count("exchange:retry:" + st)
		}
		if st != "" {
			incomplete++
			if incomplete > 20 && done == 0 {
				c.NotExecuted("CSPTP client exchanges do not complete on this machine: " + st)
				return
			}
			continue
		}
		done++
		ans := runAnswer(p, res)
		e := expected(p, res)
		// plausibility of the recovered t0: between the responder's two own clock readings
		lo, hi := res.tGo.UnixNano()-5e6, res.rx.UnixNano()+5e6
		inWindow := e.t0.IsInt64() && e.t0.Int64() >= lo && e.t0.Int64() <= hi
		if ans != runOK || !inWindow {
			// once more, alone: a verdict only if it repeats
			res2, st2 := csptpExchange(p)
			if st2 == "" {
				e2 := expected(p, res2)
				in2 := e2.t0.IsInt64() && e2.t0.Int64() >= res2.tGo.UnixNano()-5e6 && e2.t0.Int64() <= res2.rx.UnixNano()+5e6
				if ans2 := runAnswer(p, res2); ans2 != runOK {
					c.Fail("C18:csptp-client-offset", "what the CSPTP client returns (offset) or logs (mean path delay, one-way delays) for a complete exchange is not the exact formula on the exchange's timestamps and corrections; deviations in ns, the offset must not depend on the announced UTC offset (t0 is recovered from the logged C2S delay: a wrong C2S delay shows as equal deviations of offset and mean path delay)",
						[]string{op}, map[string]any{"answer": ans2, "first": ans, "utc_valid": p.fl&csptp.FlagCurrentUTCOffsetValid != 0, "utc_offset_s": p.utc,
							"returned_offset": res2.off, "expected_offset": e2.off.String(), "client": res2.clientLine})
				} else if !in2 && !inWindow {
					c.Fail("C18:csptp-client-c2s", "the client-to-server delay the CSPTP client logs does not place its transmission between the responder's own clock readings (it is not t1 - t0 - t1Corr - utcCorr)",
						[]string{op}, map[string]any{"recovered_t0": e2.t0.String(), "window": []int64{res2.tGo.UnixNano(), res2.rx.UnixNano()}, "client": res2.clientLine})
				} else {
					c.Count("exchange:deviation-not-reproduced")
				}
				res, ans = res2, runAnswer(p, res2)
			}
		}
		c.Emit(op, ans)
		c.Emit(fmt.Sprintf("csptpcli.eval t0=%s t3=%d seq=%d sync=%s fu=%s", e.t0.String(), res.ts, res.seq, lib.Hex(res.sync), lib.Hex(res.fu)),
			fmt.Sprintf("ok ts=%d off=%d c2s=%d s2c=%d mpd=%d", res.ts, res.off, res.c2s, res.s2c, res.mpd))
		if p.fl&csptp.FlagCurrentUTCOffsetValid != 0 {
			if p.utc != 0 {
				c.Count("utc:valid-nonzero")
			} else {
				c.Count("utc:valid-zero")
			}
		} else if p.utc != 0 {
			c.Count("utc:invalid-nonzero")
		} else {
			c.Count("utc:invalid-zero")
		}
		if p.swap {
			c.Count("order:follow-up-first")
		}
		if p.nn1 > 0 || p.nn2 > 0 {
			c.Count("timestamp:nanoseconds>=1e9")
		}
		if p.t1c%65536 != 0 && p.t1c < 0 || p.c0%65536 != 0 && p.c0 < 0 || p.c1%65536 != 0 && p.c1 < 0 {
			c.Count("correction:negative-non-multiple-of-2^16")
		}
		if abs64(p.th) > 1e6 {
			c.Count("offset:larger-than-path-delay")
		}
		if res.off%2 != 0 || res.mpd%2 != 0 {
			c.Count("result:odd-ns")
		}
	}
	c.Counters["exchange:complete"] = done
	c.Counters["exchange:incomplete"] = incomplete
	if done == 0 {
		c.NotExecuted("CSPTP client exchanges: none completed")
	}
}

func abs64(x int64) int64 {
	if x < 0 {
		return -x
	}
	return x
}
