// c08net: socket-level support run for property C08 — the real listeners (NTP over IP with
// NTS, NTS-KE over TLS, CSPTP) and the real clients (NTP/IP, CSPTP) run in a CHILD process on
// loopback, the parent feeds them crafted datagrams / byte streams and after each batch
// requires a well-formed sentinel request to be answered (servers) or the client loop to
// report an outcome and keep going (clients). A dead child or an unanswered sentinel is a
// direct-oracle failure ("input X crashes or stalls the listener").
//
// The model side of the op lines is trivial on purpose (the model's claim for every input
// is "alive"); what Lean proves about these inputs is the totality of the project's own
// decoders (Props/C08*.lean). This command exercises the glue around them and the
// third-party parsers, which no theorem covers.
//
// Isolation: the whole command re-executes itself in a private network namespace
// (CLONE_NEWNET, loopback brought up by ioctl), so the fixed ports the listeners insist on
// (4460, 319, 320) never collide with another check. If the namespace cannot be created
// the run falls back to the host loopback under a file lock; ports in use => not executed.
package main

import (
	"bufio"
	"context"
	"crypto/ecdsa"
	"crypto/elliptic"
	"crypto/rand"
	"crypto/tls"
	"crypto/x509"
	"crypto/x509/pkix"
	"encoding/binary"
	"fmt"
	"io"
	"log/slog"
	"math/big"
	"net"
	"net/netip"
	"os"
	"os/exec"
	"strconv"
	"strings"
	"syscall"
	"time"

	"golang.org/x/sys/unix"

	"example.com/scion-time/core/client"
	"example.com/scion-time/core/server"
	"example.com/scion-time/core/timebase"
	"example.com/scion-time/driver/clocks"
	"example.com/scion-time/net/csptp"
	"example.com/scion-time/net/ntp"
	"example.com/scion-time/net/nts"
	"example.com/scion-time/net/ntske"

	"verifharness/cmd/c08nts/authx"
	"verifharness/lib"
)

const ntpPort = 10123

var discard = slog.New(slog.DiscardHandler)

// ---------------------------------------------------------------- child: servers

func selfSigned() tls.Certificate {
	key, _ := ecdsa.GenerateKey(elliptic.P256(), rand.Reader)
	tmpl := &x509.Certificate{SerialNumber: big.NewInt(1), Subject: pkix.Name{CommonName: "localhost"},
		NotBefore: time.Now().Add(-time.Hour), NotAfter: time.Now().Add(24 * time.Hour),
		IPAddresses: []net.IP{net.ParseIP("127.0.0.1")}, DNSNames: []string{"localhost"}}
	der, err := x509.CreateCertificate(rand.Reader, tmpl, tmpl, &key.PublicKey, key)
	if err != nil {
		panic(err)
	}
	return tls.Certificate{Certificate: [][]byte{der}, PrivateKey: key}
}

func childServers() {
	ctx := context.Background()
	timebase.RegisterClock(clocks.NewSystemClock(discard, clocks.UnknownDrift))
	provider := ntske.NewProvider()
	cert := selfSigned()
	cfg := &tls.Config{ServerName: "localhost", NextProtos: []string{"ntske/1"}, Certificates: []tls.Certificate{cert}, MinVersion: tls.VersionTLS13}
	ip := net.ParseIP("127.0.0.1")
	server.StartNTSKEServerIP(ctx, discard, ip, ntpPort, cfg, provider)
	server.StartIPServer(ctx, discard, &net.UDPAddr{IP: ip, Port: ntpPort}, 0, provider)
	server.StartCSPTPServerIP(ctx, discard, &net.UDPAddr{IP: ip, Port: 0}, 0)
	fmt.Println("READY")
	select {}
}

// ---------------------------------------------------------------- child: clients

// childClients measures in a loop against the scripted peer in the parent and prints one
// line per attempt; the parent counts lines (progress) and watches for the process dying.
func childClients(kind string, peerPort int) {
	ctx := context.Background()
	timebase.RegisterClock(clocks.NewSystemClock(discard, clocks.UnknownDrift))
	out := bufio.NewWriter(os.Stdout)
	fmt.Fprintln(out, "READY")
	out.Flush()
	in := bufio.NewScanner(os.Stdin)
	ipc := &client.IPClient{Log: discard, InterleavedMode: true}
	csc := &client.CSPTPClientIP{Log: discard}
	for in.Scan() { // one line = one attempt
		cctx, cancel := context.WithTimeout(ctx, 150*time.Millisecond)
		var err error
		switch kind {
		case "ntp":
			_, _, err = client.MeasureClockOffsetIP(cctx, discard, ipc,
				&net.UDPAddr{IP: net.ParseIP("127.0.0.1")}, &net.UDPAddr{IP: net.ParseIP("127.0.0.1"), Port: peerPort})
		case "csptp":
			_, _, err = csc.MeasureClockOffset(cctx, netip.MustParseAddr("127.0.0.1"), netip.MustParseAddr("127.0.0.1"))
		}
		cancel()
		if err != nil {
			fmt.Fprintln(out, "DONE err")
		} else {
			fmt.Fprintln(out, "DONE ok")
		}
		out.Flush()
	}
}

// ---------------------------------------------------------------- parent side

type child struct {
	cmd   *exec.Cmd
	out   *bufio.Reader
	in    io.WriteCloser
	lines chan string
	dead  chan struct{}
}

func startChild(role string, extra ...string) (*child, error) {
	self, _ := os.Executable()
	// address-space limit: a listener stuck in an allocating loop must not eat the machine
	sh := fmt.Sprintf("ulimit -v 12000000; exec %q", self)
	cmd := exec.Command("/bin/sh", "-c", sh)
	cmd.Env = append(os.Environ(), "C08NET_ROLE="+role, "C08NET_ARGS="+strings.Join(extra, " "), "GOMEMLIMIT=2GiB")
	cmd.Stderr = nil
	stdout, _ := cmd.StdoutPipe()
	stdin, _ := cmd.StdinPipe()
	if err := cmd.Start(); err != nil {
		return nil, err
	}
	c := &child{cmd: cmd, out: bufio.NewReader(stdout), in: stdin, lines: make(chan string, 1024), dead: make(chan struct{})}
	go func() {
		for {
			l, err := c.out.ReadString('\n')
			if err != nil {
				break
			}
			c.lines <- strings.TrimSpace(l)
		}
		cmd.Wait()
		close(c.dead)
	}()
	select {
	case l := <-c.lines:
		if l != "READY" {
			return nil, fmt.Errorf("child said %q", l)
		}
	case <-c.dead:
		return nil, fmt.Errorf("child died during start-up")
	case <-time.After(20 * time.Second):
		cmd.Process.Kill()
		return nil, fmt.Errorf("child start-up timeout")
	}
	return c, nil
}

func (c *child) alive() bool {
	select {
	case <-c.dead:
		return false
	default:
		return true
	}
}

func (c *child) kill() {
	if c != nil && c.cmd.Process != nil {
		c.cmd.Process.Kill()
		<-c.dead
	}
}

var (
	srv      *child
	srvErr   error
	cliNTP   *child
	cliCSPTP *child
	peerNTP  *net.UDPConn // scripted NTP server the NTP client talks to
	peerEv   *net.UDPConn // scripted CSPTP event port 319 (only when the real listener is not running)
	peerGen  *net.UDPConn
	ntsData  *ntske.Data
)

func ensureServers() error {
	if srv != nil && srv.alive() {
		return nil
	}
	if srv != nil {
		srv.kill()
	}
	srv, srvErr = startChild("servers")
	ntsData = nil
	return srvErr
}

func validRequest(origin uint64) []byte {
	var p ntp.Packet
	p.SetVersion(4)
	p.SetMode(ntp.ModeClient)
	p.TransmitTime = ntp.Time64{Seconds: uint32(origin >> 32), Fraction: uint32(origin)}
	var b []byte
	ntp.EncodePacket(&b, &p)
	return b
}

// sentinelNTP sends a well-formed request from a fresh socket and waits for its reply.
func sentinelNTP() bool {
	for try := 0; try < 3; try++ {
		c, err := net.DialUDP("udp", nil, &net.UDPAddr{IP: net.ParseIP("127.0.0.1"), Port: ntpPort})
		if err != nil {
			return false
		}
		origin := uint64(time.Now().UnixNano()) | 1
		c.Write(validRequest(origin))
		c.SetReadDeadline(time.Now().Add(700 * time.Millisecond))
		buf := make([]byte, 2048)
		n, err := c.Read(buf)
		c.Close()
		if err == nil && n >= 48 && binary.BigEndian.Uint64(buf[24:32]) == origin {
			return true
		}
	}
	return false
}

// sprayNTP sends payload from many source ports so that every SO_REUSEPORT socket of the
// listener group sees it at least once with high probability.
func sprayNTP(payload []byte, n int) {
	for i := 0; i < n; i++ {
		c, err := net.DialUDP("udp", nil, &net.UDPAddr{IP: net.ParseIP("127.0.0.1"), Port: ntpPort})
		if err != nil {
			continue
		}
		c.Write(payload)
		c.Close()
	}
}

func fetchNTS() (*ntske.Data, error) {
	var f ntske.Fetcher
	f.Log = discard
	f.TLSConfig = tls.Config{ServerName: "127.0.0.1", InsecureSkipVerify: true, MinVersion: tls.VersionTLS13}
	f.Port = strconv.Itoa(ntske.ServerPortIP)
	ctx, cancel := context.WithTimeout(context.Background(), 5*time.Second)
	defer cancel()
	d, err := f.FetchData(ctx)
	if err != nil {
		return nil, err
	}
	return &d, nil
}

func sentinelNTSKE() bool {
	_, err := fetchNTS()
	return err == nil
}

// sentinelCSPTP: the CSPTP listener never replies at the pinned commit (work in progress),
// so liveness is observed through the process being alive and the sockets still bound.
func unhex(s string) []byte {
	if s == "-" {
		return nil
	}
	b := make([]byte, len(s)/2)
	for i := range b {
		v, err := strconv.ParseUint(s[2*i:2*i+2], 16, 8)
		if err != nil {
			panic("bad-op")
		}
		b[i] = byte(v)
	}
	return b
}

func exec1(t []string) string {
	switch t[0] {
	case "net.ntp": // datagram to the NTP/NTS listener
		if err := ensureServers(); err != nil {
			return "skip " + strings.ReplaceAll(err.Error(), " ", "_")
		}
		sprayNTP(unhex(t[1]), 24)
		if !srv.alive() {
			return "dead"
		}
		if !sentinelNTP() {
			if !srv.alive() {
				return "dead"
			}
			srv.kill()
			return "stalled"
		}
		return "ok alive"
	case "net.ntsreq": // NTS request built from a real cookie, then mutated: "net.ntsreq <mutation spec>"
		if err := ensureServers(); err != nil {
			return "skip " + strings.ReplaceAll(err.Error(), " ", "_")
		}
		if ntsData == nil || len(ntsData.Cookie) < 2 {
			d, err := fetchNTS()
			if err != nil {
				if !srv.alive() {
					return "dead"
				}
				return "skip nts-ke-failed"
			}
			ntsData = d
		}
		d := *ntsData
		ntsData.Cookie = ntsData.Cookie[1:]
		pkt, _ := nts.NewRequestPacket(d)
		buf := validRequest(uint64(time.Now().UnixNano()))
		mutateNTS(&pkt, t[1:])
		func() {
			defer func() { recover() }() // an unencodable mutant is simply not sent
			nts.EncodePacket(&buf, &pkt)
			buf = mutateBytes(buf, t[1:])
			sprayNTP(buf, 24)
		}()
		if !srv.alive() {
			return "dead"
		}
		if !sentinelNTP() {
			if !srv.alive() {
				return "dead"
			}
			srv.kill()
			return "stalled"
		}
		return "ok alive"
	case "net.ke": // byte stream to the NTS-KE server over TLS
		if err := ensureServers(); err != nil {
			return "skip " + strings.ReplaceAll(err.Error(), " ", "_")
		}
		conn, err := tls.DialWithDialer(&net.Dialer{Timeout: 2 * time.Second}, "tcp", "127.0.0.1:4460",
			&tls.Config{InsecureSkipVerify: true, NextProtos: []string{t[1]}, MinVersion: tls.VersionTLS13})
		if err == nil {
			conn.Write(unhex(t[2]))
			if len(t) > 3 && t[3] == "close" {
				conn.CloseWrite()
			}
			conn.SetReadDeadline(time.Now().Add(60 * time.Millisecond))
			io.Copy(io.Discard, conn)
			conn.Close()
		}
		if !srv.alive() {
			return "dead"
		}
		if !sentinelNTSKE() {
			if !srv.alive() {
				return "dead"
			}
			return "stalled"
		}
		return "ok alive"
	case "net.keidle": // "net.keidle <n> <tls|tcp>": n connections that stay open and silent, then a genuine client must still be served
		if err := ensureServers(); err != nil {
			return "skip " + strings.ReplaceAll(err.Error(), " ", "_")
		}
		n, _ := strconv.Atoi(t[1])
		var held []net.Conn
		for i := 0; i < n; i++ {
			if t[2] == "tls" {
				c, err := tls.DialWithDialer(&net.Dialer{Timeout: 2 * time.Second}, "tcp", "127.0.0.1:4460",
					&tls.Config{InsecureSkipVerify: true, NextProtos: []string{"ntske/1"}, MinVersion: tls.VersionTLS13})
				if err == nil {
					held = append(held, c)
				}
			} else {
				c, err := net.DialTimeout("tcp", "127.0.0.1:4460", 2*time.Second)
				if err == nil {
					held = append(held, c)
				}
			}
		}
		ok := sentinelNTSKE()
		for _, c := range held {
			c.Close()
		}
		if !srv.alive() {
			return "dead"
		}
		if !ok {
			return "stalled"
		}
		return "ok alive"
	case "net.csptp": // datagram to the CSPTP listener: "net.csptp <319|320> <hex>"
		if err := ensureServers(); err != nil {
			return "skip " + strings.ReplaceAll(err.Error(), " ", "_")
		}
		port, _ := strconv.Atoi(t[1])
		for i := 0; i < 24; i++ {
			c, err := net.DialUDP("udp", nil, &net.UDPAddr{IP: net.ParseIP("127.0.0.1"), Port: port})
			if err == nil {
				c.Write(unhex(t[2]))
				c.Close()
			}
		}
		time.Sleep(2 * time.Millisecond)
		if !srv.alive() || !sentinelNTP() {
			if !srv.alive() {
				return "dead"
			}
			return "stalled"
		}
		return "ok alive"
	case "cli.ntp": // crafted reply(ies) to the NTP client: "cli.ntp <mode> <hex>" mode: raw | echo (copy origin from the request)
		return clientAttempt(&cliNTP, "ntp", t[1], unhex(t[2]))
	case "cli.csptp": // "cli.csptp <319|320> <hex>": datagram sent to the CSPTP client from that port after its request
		return clientAttempt(&cliCSPTP, "csptp", t[1], unhex(t[2]))
	case "cli.csptpx": // "cli.csptpx <k=v>…": a COMPLETE exchange with the scripted responder (csptpx.go); liveness only
		p, ok := parseX(t[1:])
		if !ok {
			return "bad-op"
		}
		_, st := csptpExchange(p)
		switch {
		case strings.HasPrefix(st, "skip"), st == "dead", st == "stalled":
			return st
		}
		return "ok alive" // complete or not: the client reported an outcome and is still there
	case "csptpcli.run": // property C18: deviations of the returned values from the exact formulas
		p, ok := parseX(t[1:])
		if !ok {
			return "bad-op"
		}
		for try := 0; ; try++ {
			r, st := csptpExchange(p)
			if st == "" {
				return runAnswer(p, r)
			}
			if strings.HasPrefix(st, "skip") || try == 2 {
				return "skip " + strings.TrimPrefix(st, "skip ")
			}
		}
	case "csptpcli.eval": // a recorded live exchange (kernel timestamps): not re-executable
		return "live-only"
	}
	return "bad-op"
}

func mutateNTS(p *nts.Packet, spec []string) {
	for _, s := range spec {
		k, v, _ := strings.Cut(s, "=")
		switch k {
		case "uidlen":
			n, _ := strconv.Atoi(v)
			if n <= len(p.UniqueID.ID) {
				p.UniqueID.ID = p.UniqueID.ID[:n]
			} else {
				p.UniqueID.ID = append(p.UniqueID.ID, make([]byte, n-len(p.UniqueID.ID))...)
			}
		case "placeholders":
			n, _ := strconv.Atoi(v)
			ph := nts.CookiePlaceholder{}
			if len(p.Cookies) > 0 {
				ph.Cookie = make([]byte, len(p.Cookies[0].Cookie))
			}
			p.CookiePlaceholders = nil
			for i := 0; i < n; i++ {
				p.CookiePlaceholders = append(p.CookiePlaceholders, ph)
			}
		case "cookietrunc":
			n, _ := strconv.Atoi(v)
			if len(p.Cookies) > 0 && n <= len(p.Cookies[0].Cookie) {
				p.Cookies[0].Cookie = p.Cookies[0].Cookie[:n]
			}
		case "cookiebyte": // cookiebyte=<off>:<xor>
			a, b, _ := strings.Cut(v, ":")
			off, _ := strconv.Atoi(a)
			x, _ := strconv.Atoi(b)
			if len(p.Cookies) > 0 && off < len(p.Cookies[0].Cookie) {
				c := append([]byte(nil), p.Cookies[0].Cookie...)
				c[off] ^= byte(x)
				p.Cookies[0].Cookie = c
			}
		}
	}
}

func mutateBytes(b []byte, spec []string) []byte {
	for _, s := range spec {
		k, v, _ := strings.Cut(s, "=")
		switch k {
		case "byte": // byte=<off>:<xor> on the encoded datagram
			a, x, _ := strings.Cut(v, ":")
			off, _ := strconv.Atoi(a)
			xv, _ := strconv.Atoi(x)
			if off < len(b) {
				b[off] ^= byte(xv)
			}
		case "trunc":
			n, _ := strconv.Atoi(v)
			if n < len(b) {
				b = b[:n]
			}
		case "set16": // set16=<off>:<value> big endian
			a, x, _ := strings.Cut(v, ":")
			off, _ := strconv.Atoi(a)
			xv, _ := strconv.Atoi(x)
			if off+1 < len(b) {
				binary.BigEndian.PutUint16(b[off:], uint16(xv))
			}
		}
	}
	return b
}

// ensurePeers lazily binds the scripted peers' sockets (so that -replay of a single op works).
func ensurePeers(kind string) bool {
	if peerNTP == nil {
		peerNTP, _ = net.ListenUDP("udp", &net.UDPAddr{IP: net.ParseIP("127.0.0.1")})
	}
	if kind != "csptp" {
		return peerNTP != nil
	}
	if srv != nil && srv.alive() {
		srv.kill() // the real CSPTP listener holds 319/320
	}
	for try := 0; try < 20 && (peerEv == nil || peerGen == nil); try++ {
		if peerEv == nil {
			peerEv, _ = net.ListenUDP("udp", &net.UDPAddr{IP: net.ParseIP("127.0.0.1"), Port: 319})
		}
		if peerGen == nil {
			peerGen, _ = net.ListenUDP("udp", &net.UDPAddr{IP: net.ParseIP("127.0.0.1"), Port: 320})
		}
		if peerEv == nil || peerGen == nil {
			time.Sleep(50 * time.Millisecond)
		}
	}
	return peerNTP != nil && peerEv != nil && peerGen != nil
}

func clientAttempt(cp **child, kind, mode string, payload []byte) string {
	if !ensurePeers(kind) {
		return "skip " + kind + "-peer-ports-unavailable"
	}
	if *cp == nil || !(*cp).alive() {
		c, err := startChild("client-"+kind, strconv.Itoa(peerNTP.LocalAddr().(*net.UDPAddr).Port))
		if err != nil {
			return "skip " + strings.ReplaceAll(err.Error(), " ", "_")
		}
		*cp = c
	}
	c := *cp
	fmt.Fprintln(c.in, "go")
	// act as the server: wait for the request(s), answer with the crafted bytes
	deadline := time.Now().Add(1500 * time.Millisecond)
	buf := make([]byte, 2048)
	switch kind {
	case "ntp":
		peerNTP.SetReadDeadline(time.Now().Add(300 * time.Millisecond))
		for {
			n, addr, err := peerNTP.ReadFromUDP(buf)
			if err != nil {
				break
			}
			out := append([]byte(nil), payload...)
			if mode == "echo" && n >= 48 && len(out) >= 48 {
				copy(out[24:32], buf[40:48]) // origin := request's transmit timestamp
			}
			peerNTP.WriteToUDP(out, addr)
			peerNTP.SetReadDeadline(time.Now().Add(60 * time.Millisecond))
		}
	case "csptp":
		from := peerEv
		if mode == "320" {
			from = peerGen
		}
		var caddr *net.UDPAddr
		peerGen.SetReadDeadline(time.Now().Add(300 * time.Millisecond))
		if _, a, err := peerGen.ReadFromUDP(buf); err == nil {
			caddr = a
		}
		peerEv.SetReadDeadline(time.Now().Add(20 * time.Millisecond))
		if _, a, err := peerEv.ReadFromUDP(buf); err == nil && caddr == nil {
			caddr = a
		}
		if caddr != nil {
			from.WriteToUDP(payload, caddr)
		}
	}
	for {
		select {
		case l := <-c.lines:
			if strings.HasPrefix(l, "DONE") {
				return "ok alive"
			}
		case <-c.dead:
			return "dead"
		case <-time.After(time.Until(deadline)):
			c.kill()
			return "stalled"
		}
	}
}

// ---------------------------------------------------------------- generator

func hexs(b []byte) string { return lib.Hex(b) }

func gen(c *lib.Ctx) {
	r := c.Rand
	if os.Getenv("C08NET_PART") == "c18" {
		genC18(c)
		return
	}
	if !ensurePeers("ntp") {
		c.NotExecuted("socket-level run: cannot bind loopback UDP")
		return
	}
	if e := ensureServers(); e != nil {
		c.NotExecuted("socket-level run: listeners did not start: " + e.Error())
		return
	}
	defer func() {
		srv.kill()
		cliNTP.kill()
		cliCSPTP.kill()
		cliCSPTPX.kill()
	}()
	_ = r
	skipped := map[string]bool{}
	run := func(op string) string {
		ans := lib.Try(func() string { return exec1(strings.Fields(op)) })
		if strings.HasPrefix(ans, "skip") {
			// sandbox trouble (ports, start-up): not executed, never a verdict
			if !skipped[ans] {
				skipped[ans] = true
				c.NotExecuted("socket-level sub-run skipped: " + ans)
			}
			c.Count("skipped")
			return ans
		}
		c.Emit(op, ans)
		return ans
	}
	do := func(sig, op string) {
		ans := run(op)
		c.Count(strings.Fields(op)[0] + ":" + strings.Fields(ans)[0])
		if ans == "dead" || ans == "stalled" {
			// confirm in isolation: fresh child, same single input
			ans2 := run(op)
			if ans2 == "dead" || ans2 == "stalled" {
				c.Fail("C08:net:"+sig+":"+ans2, "a single crafted input terminates or stalls the process that received it",
					[]string{op}, map[string]any{"first": ans, "isolated_rerun": ans2})
			} else {
				c.Count("flaky-not-reproduced")
			}
		}
	}
	n := c.Scale(12, 300)

	// --- NTP/NTS listener: raw datagrams
	c.Comment("NTP listener: lengths, first bytes, extension-field shapes")
	base := validRequest(0x1122334455667788)
	for _, l := range []int{0, 1, 47, 48, 49, 52, 76, 1024, 2047} {
		b := make([]byte, l)
		copy(b, base)
		do("ntp-len", "net.ntp "+hexs(b))
	}
	ext := func(typ, length uint16, body []byte) []byte {
		b := make([]byte, 4+len(body))
		binary.BigEndian.PutUint16(b, typ)
		binary.BigEndian.PutUint16(b[2:], length)
		copy(b[4:], body)
		return b
	}
	types := []uint16{0x104, 0x204, 0x304, 0x404, 0x0000, 0xffff}
	for _, typ := range types {
		for _, l := range []uint16{0, 1, 3, 4, 5, 8, 28, 36, 1000, 0xffff} {
			for _, bodyLen := range []int{0, 4, 28, 64} {
				do("ntp-ext", "net.ntp "+hexs(append(append([]byte(nil), base...), ext(typ, l, r.Bytes(bodyLen))...)))
			}
		}
	}
	// cookie field carrying malformed encrypted-cookie TLVs
	tlv := func(typ, length uint16, body []byte) []byte { return ext(typ, length, body) }
	for _, spec := range [][3]int{{0x401, 2, 2}, {0x401, 2, 0}, {0x501, 16, 16}, {0x501, 16, 3}, {0x501, 15, 15}, {0x501, 17, 17}, {0x601, 64, 64}, {0x601, 0xffff, 8}} {
		var ck []byte
		ck = append(ck, tlv(0x401, 2, []byte{0, 1})...)
		ck = append(ck, tlv(uint16(spec[0]), uint16(spec[1]), r.Bytes(spec[2]))...)
		ck = append(ck, tlv(0x601, 48, r.Bytes(48))...)
		for len(ck)%4 != 0 {
			ck = append(ck, 0)
		}
		pkt := append(append([]byte(nil), base...), ext(0x104, 36, r.Bytes(32))...)
		pkt = append(pkt, ext(0x204, uint16(4+len(ck)), ck)...)
		pkt = append(pkt, ext(0x404, 4+4+16+16, append([]byte{0, 16, 0, 16}, r.Bytes(32)...))...)
		do("ntp-cookie", "net.ntp "+hexs(pkt))
	}
	for i := 0; i < n; i++ {
		b := r.Bytes(48 + r.Intn(200))
		b[0] = base[0]
		do("ntp-rand", "net.ntp "+hexs(b))
	}
	// boundary stream of the NTS authenticator field (harness/cmd/c08nts/authx): inner lengths whose
	// sum wraps 2^16 or sits at the edges of the value / field / datagram, fields of length 4..7
	// (shorter than their own two inner length fields) with bytes following; with and without a
	// cookie field. Quick: the subset marked Live; thorough: all.
	c.Comment("NTP listener: boundary stream of the NTS authenticator extension field")
	{
		var ck []byte
		ck = append(ck, tlv(0x401, 2, []byte{0, 1})...)
		ck = append(ck, tlv(0x501, 16, r.Bytes(16))...)
		ck = append(ck, tlv(0x601, 88, r.Bytes(88))...)
		for len(ck)%4 != 0 {
			ck = append(ck, 0)
		}
		for _, a := range authx.Cases(base, ext(0x104, 36, r.Bytes(32)), ext(0x204, uint16(4+len(ck)), ck), r.Bytes) {
			if a.Live || c.Thorough() {
				do("ntp-auth", "net.ntp "+hexs(a.B))
			}
		}
	}

	// --- NTS requests with a genuine cookie, mutated
	c.Comment("NTS requests built from a real key exchange, then mutated")
	do("nts", "net.ntsreq none")
	for _, s := range []string{"uidlen=0", "uidlen=4", "uidlen=31", "uidlen=28", "uidlen=64", "placeholders=1", "placeholders=7", "placeholders=8",
		"cookietrunc=0", "cookietrunc=4", "cookietrunc=100", "trunc=60", "trunc=100", "set16=50:0", "set16=50:3", "set16=50:65535"} {
		do("nts-mut", "net.ntsreq "+s)
	}
	for i := 0; i < n; i++ {
		switch r.Intn(4) {
		case 0:
			do("nts-mut", fmt.Sprintf("net.ntsreq cookiebyte=%d:%d", r.Intn(124), 1+r.Intn(255)))
		case 1:
			do("nts-mut", fmt.Sprintf("net.ntsreq byte=%d:%d", 48+r.Intn(250), 1+r.Intn(255)))
		case 2:
			do("nts-mut", fmt.Sprintf("net.ntsreq set16=%d:%d", 48+2*r.Intn(120), r.Intn(1<<16)))
		default:
			do("nts-mut", fmt.Sprintf("net.ntsreq uidlen=%d placeholders=%d", r.Intn(70), r.Intn(9)))
		}
	}

	// --- NTS-KE server
	c.Comment("NTS-KE server: record streams")
	rec := func(typ uint16, body []byte) []byte { return ext(typ, uint16(len(body)), body) }
	good := append(append(rec(0x8001, []byte{0, 0}), rec(0x8004, []byte{0, 15})...), rec(0x8000, nil)...)
	do("ke", "net.ke ntske/1 "+hexs(good))
	for cut := 0; cut <= len(good); cut += c.Scale(3, 1) {
		do("ke-trunc", "net.ke ntske/1 "+hexs(good[:cut])+" close")
	}
	for _, kind := range []string{"tcp", "tls"} { // silent peers must not block other clients
		for _, k := range []int{1, 3} {
			do("ke-idle", fmt.Sprintf("net.keidle %d %s", k, kind))
		}
	}
	for _, alpn := range []string{"h2", "ntske/2"} {
		do("ke-alpn", "net.ke "+alpn+" "+hexs(good))
	}
	for i := 0; i < n; i++ {
		var b []byte
		for k := 0; k < 1+r.Intn(5); k++ {
			typ := uint16(r.Intn(9))
			if r.Bool() {
				typ |= 0x8000
			}
			l := r.Intn(12)
			body := r.Bytes(l)
			h := ext(typ, uint16(l), body)
			if r.Chance(20) {
				binary.BigEndian.PutUint16(h[2:], uint16(r.Intn(1<<16)))
			}
			b = append(b, h...)
		}
		if r.Bool() {
			b = append(b, rec(0x8000, nil)...)
		}
		do("ke-rand", "net.ke ntske/1 "+hexs(b)+" close")
	}

	// --- CSPTP listener
	c.Comment("CSPTP listener")
	var m csptp.Message
	m.SdoIDMessageType = csptp.MessageTypeSync
	m.PTPVersion = csptp.PTPVersion
	m.MessageLength = csptp.MinMessageLength
	sync := make([]byte, csptp.MinMessageLength)
	csptp.EncodeMessage(sync, &m)
	for _, port := range []int{319, 320} {
		for l := 0; l <= 100; l += 1 + l/c.Scale(4, 10) {
			b := make([]byte, l)
			copy(b, sync)
			if l >= 4 {
				binary.BigEndian.PutUint16(b[2:], uint16(l))
			}
			do("csptp-len", fmt.Sprintf("net.csptp %d %s", port, hexs(b)))
		}
		for _, typ := range []byte{csptp.MessageTypeSync, csptp.MessageTypeFollowUp, 0xff} {
			for i := 0; i < n/5+3; i++ {
				l := 44 + r.Intn(56)
				b := r.Bytes(l)
				b[0] = typ
				binary.BigEndian.PutUint16(b[2:], uint16(l))
				do("csptp-rand", fmt.Sprintf("net.csptp %d %s", port, hexs(b)))
			}
		}
	}

	// --- NTP client against a scripted peer
	c.Comment("NTP client: crafted replies")
	reply := func() []byte {
		var p ntp.Packet
		p.SetVersion(4)
		p.SetMode(ntp.ModeServer)
		p.Stratum = 1
		now := ntp.Time64FromTime(time.Now())
		p.ReceiveTime, p.TransmitTime = now, now
		var b []byte
		ntp.EncodePacket(&b, &p)
		return b
	}
	do("cli-ntp", "cli.ntp echo "+hexs(reply()))
	for _, l := range []int{0, 1, 47, 49, 100, 1500} {
		b := make([]byte, l)
		copy(b, reply())
		do("cli-ntp-len", "cli.ntp echo "+hexs(b))
	}
	for i := 0; i < n; i++ {
		b := reply()
		switch r.Intn(4) {
		case 0:
			b[r.Intn(48)] ^= byte(1 + r.Intn(255))
		case 1:
			b = append(b, r.Bytes(r.Intn(80))...)
		case 2: // transmit before receive, zero timestamps, far future
			binary.BigEndian.PutUint64(b[40:], r.U64())
			binary.BigEndian.PutUint64(b[32:], r.U64())
		default:
			b = r.Bytes(48 + r.Intn(30))
		}
		do("cli-ntp-mut", "cli.ntp echo "+hexs(b))
	}

	// --- CSPTP client against a scripted peer on 319/320
	c.Comment("CSPTP client: crafted datagrams")
	if !ensurePeers("csptp") {
		c.NotExecuted("CSPTP client run: ports 319/320 unavailable")
	} else {
		for _, port := range []string{"319", "320"} {
			for l := 0; l <= 98; l += 1 + l/c.Scale(3, 12) {
				b := make([]byte, l)
				if l >= 4 {
					binary.BigEndian.PutUint16(b[2:], uint16(l))
				}
				do("cli-csptp-len", "cli.csptp "+port+" "+hexs(b))
				// F17 shape: short datagram whose only content is a plausible length prefix
				if l >= 1 && l < 44 {
					b2 := make([]byte, l)
					b2[0] = csptp.MessageTypeFollowUp
					if l >= 4 {
						binary.BigEndian.PutUint16(b2[2:], uint16(l)) // length field equal to the datagram's length
					}
					do("cli-csptp-short", "cli.csptp "+port+" "+hexs(b2))
				}
			}
			for i := 0; i < n/3+3; i++ {
				l := 1 + r.Intn(98)
				b := r.Bytes(l)
				if l >= 4 {
					binary.BigEndian.PutUint16(b[2:], uint16(l))
				}
				if r.Bool() {
					b[0] = csptp.MessageTypeFollowUp
				}
				do("cli-csptp-rand", "cli.csptp "+port+" "+hexs(b))
			}
		}
		// complete, well-formed exchanges (the evaluation after the loop runs at all): correction
		// fields, UTC offset valid / not valid, non-normalised nanoseconds, either order
		c.Comment("CSPTP client: complete exchanges")
		rx := c.Rand.Fork("csptpx")
		for i := 0; i < c.Scale(12, 200); i++ {
			do("cli-csptp-complete", "cli.csptpx "+genParams(rx).String())
		}
	}
}

// ---------------------------------------------------------------- process roles

func loopbackUp() error {
	fd, err := unix.Socket(unix.AF_INET, unix.SOCK_DGRAM, 0)
	if err != nil {
		return err
	}
	defer unix.Close(fd)
	ifr, err := unix.NewIfreq("lo")
	if err != nil {
		return err
	}
	if err := unix.IoctlIfreq(fd, unix.SIOCGIFFLAGS, ifr); err != nil {
		return err
	}
	ifr.SetUint16(ifr.Uint16() | unix.IFF_UP)
	return unix.IoctlIfreq(fd, unix.SIOCSIFFLAGS, ifr)
}

func main() {
	switch role := os.Getenv("C08NET_ROLE"); {
	case role == "servers":
		childServers()
	case role == "clientx-csptp":
		childClientCSPTPX()
	case strings.HasPrefix(role, "client-"):
		port, _ := strconv.Atoi(os.Getenv("C08NET_ARGS"))
		childClients(strings.TrimPrefix(role, "client-"), port)
	case role == "inner":
		if os.Getenv("C08NET_NETNS") == "1" {
			if err := loopbackUp(); err != nil {
				fmt.Fprintln(os.Stderr, "loopback up:", err)
			}
		}
		lib.Main(exec1, gen)
	default:
		// outer: re-exec in a private network namespace; fall back to the host loopback under a lock
		self, _ := os.Executable()
		cmd := exec.Command(self, os.Args[1:]...)
		cmd.Stdout, cmd.Stderr, cmd.Stdin = os.Stdout, os.Stderr, os.Stdin
		cmd.Env = append(os.Environ(), "C08NET_ROLE=inner", "C08NET_NETNS=1")
		cmd.SysProcAttr = &syscall.SysProcAttr{Unshareflags: syscall.CLONE_NEWNET}
		err := cmd.Run()
		if err != nil {
			if _, isExit := err.(*exec.ExitError); !isExit {
				// could not create the namespace: host loopback, serialised by a lock file
				lock, lerr := os.OpenFile("/tmp/verif-c08net.lock", os.O_CREATE|os.O_RDWR, 0o644)
				if lerr == nil {
					syscall.Flock(int(lock.Fd()), syscall.LOCK_EX)
					defer lock.Close()
				}
				cmd = exec.Command(self, os.Args[1:]...)
				cmd.Stdout, cmd.Stderr, cmd.Stdin = os.Stdout, os.Stderr, os.Stdin
				cmd.Env = append(os.Environ(), "C08NET_ROLE=inner", "C08NET_NETNS=0")
				err = cmd.Run()
			}
		}
		if ee, ok := err.(*exec.ExitError); ok {
			os.Exit(ee.ExitCode())
		} else if err != nil {
			fmt.Fprintln(os.Stderr, err)
			os.Exit(2)
		}
	}
}
