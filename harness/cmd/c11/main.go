// c11: NTS cookie lifecycle. Exchange simulator over the real fetcher pool (FetchData /
// StoreCookie), request builder (NewRequestPacket / EncodePacket), the listeners' NTS branch
// (transcribed over the real functions) and ProcessResponse, along histories of successful and
// lost exchanges down to an empty pool, re-keying and server key rotations.
// Direct oracle: no cookie bytes sent twice, pool within [0,8] and never shrunk by a successful
// exchange, full pool stays full, request <= 1024 bytes with exactly one cookie field and the
// missing ones as placeholder fields, reply well-formed, authenticated, one fresh cookie per field.
package main

import (
	"fmt"

	"verifharness/cmd/c10/ntsx"
	"verifharness/lib"
)

const maxLen = 1024

func level(ans string) int {
	var l int
	fmt.Sscan(ntsx.Field(ans, "level"), &l)
	return l
}

func history(c *lib.Ctx, r *lib.Rand, hi int, steps int, lossPct int) {
	c.Comment(fmt.Sprintf("history %d", hi))
	var hist []string
	do := func(op string) string {
		a := ntsx.Do(c, op)
		hist = append(hist, op)
		return a
	}
	fail := func(sig, what string, detail map[string]any) {
		ops := hist
		if len(ops) > 60 {
			ops = ops[len(ops)-60:]
		}
		c.Fail(sig, what, append([]string(nil), ops...), detail)
	}
	keys := map[int][]byte{1: r.Bytes(32)}
	curID := 1
	var s ntsx.Session
	var prevResp []byte
	sent := map[string]bool{}
	rekey := func() {
		s = ntsx.NewSession(r)
		prevResp = nil
		var pool [][]byte
		for i := 0; i < 8; i++ {
			pool = append(pool, ntsx.IssueCookie(c, r, s, keys[curID], curID))
		}
		do(fmt.Sprintf("cl.init %s %s %s", ntsx.HexList(pool), lib.Hex(s.C2S), lib.Hex(s.S2C)))
		c.Count("history:rekey")
	}
	rekey()
	burst := 0
	for st := 0; st < steps; st++ {
		lv := level(do("cl.level"))
		if lv == 0 {
			c.Count("history:pool-empty")
			rekey()
			lv = 8
		}
		if r.Chance(8) { // server key rotation; keys older than three generations expire
			curID++
			keys[curID] = r.Bytes(32)
			delete(keys, curID-3)
			c.Count("history:key-rotation")
		}
		ans := do(fmt.Sprintf("cl.request %s rand=%s", lib.Hex(ntsx.Header(r)), lib.Hex(r.Bytes(48))))
		c.Count(fmt.Sprintf("request:level%d", lv))
		req, ok := ntsx.OkHex(ans)
		if !ok {
			fail(fmt.Sprintf("fits:level%d", lv), fmt.Sprintf("the request at pool level %d cannot be encoded: %s", lv, ans), map[string]any{"level": lv, "answer": ans})
			return
		}
		if len(req) > maxLen {
			fail("fits:len", "request longer than MaxPacketLen", map[string]any{"len": len(req)})
		}
		if level(ans) != lv-1 {
			fail("pool:pop", "a request did not take exactly one cookie from the pool", map[string]any{"before": lv, "after": level(ans)})
		}
		// wire shape
		fs := ntsx.Walk(req)
		nc, np, other := 0, 0, 0
		var cookie []byte
		for i, f := range fs {
			switch {
			case i == 0 && f.Type == 0x104:
			case i == len(fs)-1 && f.Type == 0x404:
			case f.Type == 0x204:
				nc++
				cookie = req[f.Off+4 : f.Off+f.Len]
			case f.Type == 0x304:
				np++
			default:
				other++
			}
		}
		wantP := 8 - lv
		for wantP > 0 && 48+36+40+(1+wantP)*(4+len(cookie)) > maxLen {
			wantP-- // as many as fit
		}
		if nc != 1 || np != wantP || other != 0 {
			fail("shape", fmt.Sprintf("request at pool level %d carries %d cookie and %d placeholder fields (want 1 and %d)", lv, nc, np, wantP),
				map[string]any{"level": lv, "cookies": nc, "placeholders": np})
		}
		if sent[string(cookie)] {
			fail("single-use", "the same cookie was sent in two requests", nil)
		}
		sent[string(cookie)] = true

		lose := r.Chance(lossPct)
		if burst > 0 {
			lose = true
			burst--
		} else if r.Chance(4) {
			burst = int(r.Range(2, 9))
		}
		if lose {
			c.Count("exchange:request-lost")
			continue
		}
		rans := ntsx.Reply(c, r, req, keys, curID, len(fs)+1)
		hist = append(hist, "# srv.reply")
		resp, ok := ntsx.OkHex(rans)
		if !ok {
			if rans == "err no-key" {
				c.Count("exchange:cookie-key-expired")
				continue
			}
			fail("reply:none", "the server branch does not answer an authentic request: "+rans, map[string]any{"level": lv})
			continue
		}
		if len(resp) > maxLen || len(resp)%4 != 0 {
			fail("reply:len", "reply longer than MaxPacketLen or not aligned", map[string]any{"len": len(resp)})
		}
		if r.Chance(lossPct / 2) {
			c.Count("exchange:response-lost")
			continue
		}
		// what the requester gets out of it (stateless twin of cl.response)
		uid := req[52:84]
		chk := ntsx.Do(c, fmt.Sprintf("nts.resp %s %s %s", lib.Hex(resp), lib.Hex(s.S2C), lib.Hex(uid)))
		if !ntsx.IsOK(chk) {
			fail("reply:auth", "the requester cannot authenticate the server's reply: "+chk, map[string]any{"level": lv, "reqlen": len(req), "resplen": len(resp)})
		} else {
			cs := ntsx.ParseHexList(chk[3:])
			if len(cs) != nc+np {
				fail("reply:count", fmt.Sprintf("reply carries %d cookies for %d requested fields", len(cs), nc+np), nil)
			}
			want := fmt.Sprintf("ok %d %s %s", s.Algo, lib.Hex(s.S2C), lib.Hex(s.C2S))
			seen := map[string]bool{}
			for _, ck := range cs {
				if seen[string(ck)] || sent[string(ck)] {
					fail("reply:fresh", "the reply repeats a cookie", nil)
				}
				seen[string(ck)] = true
				if a := ntsx.Do(c, fmt.Sprintf("ck.decrypt %s %s", lib.Hex(ck), lib.Hex(keys[curID]))); a != want {
					fail("reply:cookie", "a fresh cookie does not open under the current server key to the session keys: "+a, nil)
				}
			}
		}
		if prevResp != nil && r.Chance(15) { // a stale response (to an earlier request) arrives first
			c.Count("exchange:stale-response")
			if a := do("cl.response " + lib.Hex(prevResp)); ntsx.IsOK(a) || level(do("cl.level")) != lv-1 {
				fail("pool:stale", "a response to an earlier request was accepted or changed the pool: "+a, nil)
			}
		}
		if r.Chance(20) { // an off-path forgery: right identifier, a cookie field, no valid authenticator
			c.Count("exchange:forged-response")
			forged := ntsx.ForeignPacket(ntsx.Header(r), [][]byte{ntsx.RawField(0x104, uid), ntsx.RawField(0x204, r.Bytes(124))}, r.Bytes(32), r.Bytes(16), nil)
			if a := do("cl.response " + lib.Hex(forged)); ntsx.IsOK(a) || level(do("cl.level")) != lv-1 {
				fail("pool:forged", "a forged response was accepted or changed the pool: "+a, nil)
			}
		}
		ans = do("cl.response " + lib.Hex(resp))
		if !ntsx.IsOK(ans) {
			fail("reply:auth", "the client rejects the server's reply: "+ans, map[string]any{"level": lv})
			continue
		}
		c.Count("exchange:success")
		after := level(ans)
		if after < lv || after > 8 {
			fail("pool:bounds", fmt.Sprintf("a successful exchange took the pool from %d to %d", lv, after), map[string]any{"before": lv, "after": after})
		}
		if lv == 8 && after != 8 {
			fail("pool:lossfree", "a successful exchange from a full pool did not leave it full", map[string]any{"after": after})
		}
		prevResp = resp
	}
}

func gen(c *lib.Ctx) {
	r := c.Rand
	n := c.Scale(40, 1500)
	for i := 0; i < n; i++ {
		loss := []int{0, 10, 30, 60, 85}[i%5]
		history(c, r, i, int(r.Range(10, 40)), loss)
	}
	// a client without the 1024-byte limit asks for eight cookies (one cookie + seven placeholders)
	for i := 0; i < c.Scale(3, 30); i++ {
		s := ntsx.NewSession(r)
		key := r.Bytes(32)
		ck := ntsx.IssueCookie(c, r, s, key, 1)
		for _, nph := range []int{5, 6, 7, 8, 12} {
			uid := r.Bytes(32)
			fields := [][]byte{ntsx.RawField(0x104, uid), ntsx.RawField(0x204, ck)}
			for j := 0; j < nph; j++ {
				fields = append(fields, ntsx.RawField(0x304, make([]byte, len(ck))))
			}
			req := ntsx.ForeignPacket(ntsx.Header(r), fields, s.C2S, r.Bytes(16), nil)
			c.Count(fmt.Sprintf("foreign:fields%d", 1+nph))
			rans := ntsx.Reply(c, r, req, map[int][]byte{1: key}, 1, nph+3)
			resp, ok := ntsx.OkHex(rans)
			if !ok {
				c.Fail("reply:none", "the server branch does not answer an authentic request: "+rans, nil, map[string]any{"fields": 1 + nph})
				continue
			}
			chk := ntsx.Do(c, fmt.Sprintf("nts.resp %s %s %s", lib.Hex(resp), lib.Hex(s.S2C), lib.Hex(uid)))
			if len(resp) > maxLen || !ntsx.IsOK(chk) {
				c.Fail("reply:auth", fmt.Sprintf("the reply to a request with %d cookie/placeholder fields is %d bytes and the requester's verdict is: %.30s", 1+nph, len(resp), chk),
					nil, map[string]any{"fields": 1 + nph, "request": lib.Hex(req)})
				continue
			}
			want := 1 + nph
			for 48+36+40+want*(4+len(ck)) > maxLen {
				want-- // as many as fit
			}
			if got := len(ntsx.ParseHexList(chk[3:])); got != want {
				c.Fail("reply:count", fmt.Sprintf("reply carries %d cookies for %d requested fields (%d fit)", got, 1+nph, want), nil, nil)
			}
		}
	}

	// requests of a foreign client with unique identifiers of every length a request may carry
	// (RFC 8915: at least 32 octets; the listener refuses what leaves no room for a cookie) x
	// every number of requested cookies x cookie lengths (session keys of 32 / 64 bytes)
	foreignUIDs(c, r)

	// every level 1..8 directly
	for lv := 1; lv <= 8; lv++ {
		s := ntsx.NewSession(r)
		key := r.Bytes(32)
		var pool [][]byte
		for i := 0; i < lv; i++ {
			pool = append(pool, ntsx.IssueCookie(c, r, s, key, 1))
		}
		c.Comment(fmt.Sprintf("history level-%d", lv))
		ntsx.Do(c, fmt.Sprintf("cl.init %s %s %s", ntsx.HexList(pool), lib.Hex(s.C2S), lib.Hex(s.S2C)))
		op := fmt.Sprintf("cl.request %s rand=%s", lib.Hex(ntsx.Header(r)), lib.Hex(r.Bytes(48)))
		ans := ntsx.Do(c, op)
		c.Count(fmt.Sprintf("direct:level%d", lv))
		if b, ok := ntsx.OkHex(ans); !ok || len(b) > maxLen {
			c.Fail(fmt.Sprintf("fits:level%d", lv), fmt.Sprintf("the request at pool level %d cannot be encoded within MaxPacketLen: %.40s", lv, ans),
				[]string{fmt.Sprintf("cl.init %s %s %s", ntsx.HexList(pool), lib.Hex(s.C2S), lib.Hex(s.S2C)), op}, map[string]any{"level": lv})
		}
	}
}

func pad4(n int) int { return (n + 3) &^ 3 }

// fits is the property's own arithmetic, independent of net/nts: the largest number of cookie
// extension fields of cookieLen bytes that an NTS reply of at most maxLen bytes can carry inside
// its authenticator next to the 48-byte header and the echoed unique identifier
// (authenticator = 4 header + 4 lengths + 16 nonce + ciphertext, ciphertext = plaintext + 16).
func fits(uidLen, cookieLen int) int {
	n := 0
	for 48+4+pad4(uidLen)+4+4+16+pad4((n+1)*(4+pad4(cookieLen))+16) <= maxLen {
		n++
	}
	return n
}

// uidLengths: every threshold of the cookie budget (for 124- and 188-byte cookies) at, just
// below and just above, unaligned lengths, the minimum, and lengths beyond the last one that
// leaves room for a cookie.
func uidLengths(r *lib.Rand, nrand int) []int {
	seen := map[int]bool{}
	var out []int
	add := func(u int) {
		if u >= 32 && u <= 1100 && !seen[u] {
			seen[u] = true
			out = append(out, u)
		}
	}
	for _, u := range []int{32, 33, 34, 35, 36, 37, 38, 39, 40, 44, 48, 64, 100, 128, 200, 256, 500, 512, 900, 968, 972, 1000, 1100} {
		add(u)
	}
	for _, cl := range []int{124, 188, 156} {
		for k := 0; k <= 8; k++ { // the longest identifier next to which k+1 cookies still fit, and around it
			u := 32
			for u < 1100 && fits(u+4, cl) > k {
				u += 4
			}
			for _, d := range []int{-4, -1, 0, 1, 3, 4, 5, 8} {
				add(u + d)
			}
		}
	}
	for i := 0; i < nrand; i++ {
		add(int(r.Range(32, 1000)))
	}
	return out
}

func replyOp(r *lib.Rand, req []byte, key []byte, keyID int, nrand int) string {
	return fmt.Sprintf("srv.reply %s %s keys=[%d:%s] cur=%d:%s rand=%s", lib.Hex(req), lib.Hex(ntsx.Header(r)), keyID, lib.Hex(key), keyID,
		lib.Hex(key), lib.Hex(r.Bytes(16*nrand)))
}

// foreignUIDs: the listeners' NTS branch on authentic requests whose unique identifier has any
// admissible length. Oracle (the property's server clause, evaluated on the real code's reply):
// the reply is at most MaxPacketLen bytes, 4-byte aligned, decodes, authenticates under the S2C
// key and the identifier as the server saw it, and carries min(requested, what fits) pairwise
// distinct fresh cookies, each opening under the current server key to the session keys; when not
// even one cookie fits the request is refused (no reply), never answered with a broken datagram.
func foreignUIDs(c *lib.Ctx, r *lib.Rand) {
	type sess struct {
		s   ntsx.Session
		key []byte
		ck  []byte
	}
	mk := func(c2s, s2c int) sess {
		s := ntsx.Session{Algo: 15, C2S: r.Bytes(c2s), S2C: r.Bytes(s2c)}
		key := r.Bytes(32)
		return sess{s, key, ntsx.IssueCookie(c, r, s, key, 7)}
	}
	sessions := []sess{mk(32, 32), mk(64, 64), mk(32, 64)}
	uids := uidLengths(r, c.Scale(6, 120))
	for ui, ul := range uids {
		for si, se := range sessions {
			if si > 0 && !c.Thorough() && ui%4 != si {
				continue // the longer cookies for a quarter of the lengths each in the quick tier
			}
			fit := fits(ul, len(se.ck))
			reqs := []int{1, 2, 3, 4, 5, 6, 7, 8, 9, 13}
			if !c.Thorough() { // quick: the budget itself, one below / above it, the maximum a client of this project asks for, one more
				reqs = nil
				for _, n := range []int{1, fit - 1, fit, fit + 1, 7, 8, int(r.Range(1, 9))} {
					dup := n < 1
					for _, m := range reqs {
						dup = dup || m == n
					}
					if !dup {
						reqs = append(reqs, n)
					}
				}
			}
			for _, want := range reqs {
				uid := r.Bytes(ul)
				fields := [][]byte{ntsx.RawField(0x104, uid), ntsx.RawField(0x204, se.ck)}
				phLen := len(se.ck)
				if 48+4+pad4(ul)+want*(4+pad4(phLen))+40+pad4(16) > 2040 {
					phLen = 4 // a sender limited by the listener's 2048-byte receive buffer: short placeholders
				}
				for j := 1; j < want; j++ {
					fields = append(fields, ntsx.RawField(0x304, make([]byte, phLen)))
				}
				req := ntsx.ForeignPacket(ntsx.Header(r), fields, se.s.C2S, r.Bytes(16), nil)
				if len(req) > 2048 {
					c.Count("foreign-uid:skipped-over-2048")
					continue
				}
				op := replyOp(r, req, se.key, 7, want+2)
				rans := ntsx.Do(c, op)
				detail := map[string]any{"uid_len": ul, "requested": want, "cookie_len": len(se.ck), "fit": fit, "request_len": len(req)}
				bucket := "fit"
				if want > fit {
					bucket = "capped"
				}
				if fit == 0 {
					bucket = "no-room"
				}
				c.Count(fmt.Sprintf("foreign-uid:%s:cookie%d", bucket, len(se.ck)))
				resp, ok := ntsx.OkHex(rans)
				if fit == 0 {
					if ok || ntsx.IsCrash(rans) {
						detail["answer_len"] = len(resp)
						c.Fail("reply:no-room", fmt.Sprintf("a request with a %d-byte unique identifier leaves no room for a cookie in a reply of MaxPacketLen bytes, yet the server branch did not refuse it: %.40s", ul, rans),
							[]string{op}, detail)
					}
					continue
				}
				if !ok {
					c.Fail("reply:none", fmt.Sprintf("the server branch does not answer an authentic request with a %d-byte unique identifier asking for %d cookies: %s", ul, want, rans),
						[]string{op}, detail)
					continue
				}
				detail["reply_len"] = len(resp)
				if len(resp) > maxLen || len(resp)%4 != 0 {
					c.Fail("reply:len", fmt.Sprintf("the reply to a request with a %d-byte unique identifier asking for %d cookies has %d bytes (MaxPacketLen %d, 4-byte alignment)", ul, want, len(resp), maxLen),
						[]string{op}, detail)
				}
				seenUID := append(append([]byte(nil), uid...), make([]byte, pad4(ul)-ul)...) // the identifier field as the server decodes it
				chkOp := fmt.Sprintf("nts.resp %s %s %s", lib.Hex(resp), lib.Hex(se.s.S2C), lib.Hex(seenUID))
				chk := ntsx.Do(c, chkOp)
				if !ntsx.IsOK(chk) {
					detail["requester"] = chk
					c.Fail("reply:auth", fmt.Sprintf("the reply (%d bytes) to a request with a %d-byte unique identifier asking for %d cookies (%d fit) cannot be decoded and authenticated by the requester: %s", len(resp), ul, want, fit, chk),
						[]string{op, chkOp}, detail)
					continue
				}
				cs := ntsx.ParseHexList(chk[3:])
				wantN := want
				if fit < wantN {
					wantN = fit
				}
				if len(cs) != wantN {
					detail["cookies"] = len(cs)
					c.Fail("reply:count", fmt.Sprintf("the reply to a request with a %d-byte unique identifier carries %d cookies for %d requested (%d fit)", ul, len(cs), want, fit),
						[]string{op, chkOp}, detail)
				}
				wantCk := fmt.Sprintf("ok %d %s %s", se.s.Algo, lib.Hex(se.s.S2C), lib.Hex(se.s.C2S))
				seen := map[string]bool{string(se.ck): true}
				for _, ck := range cs {
					if seen[string(ck)] {
						c.Fail("reply:fresh", "the reply repeats a cookie", []string{op, chkOp}, detail)
					}
					seen[string(ck)] = true
					dop := fmt.Sprintf("ck.decrypt %s %s", lib.Hex(ck), lib.Hex(se.key))
					if a := ntsx.Do(c, dop); a != wantCk {
						c.Fail("reply:cookie", "a fresh cookie does not open under the current server key to the session keys: "+a, []string{op, dop}, detail)
					}
				}
			}
		}
	}
}

func main() { ntsx.Main(gen) }
