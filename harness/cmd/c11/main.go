// c11: NTS cookie lifecycle. Exchange simulator over the real fetcher pool (FetchData /
// StoreCookie), request builder (NewRequestPacket / EncodePacket), the listeners' NTS branch
// (transcribed over the real functions) and ProcessResponse, along histories of successful and
// lost exchanges down to an empty pool, re-keying and server key rotations.
// Direct oracle: no cookie bytes sent twice, pool within [0,8] and never shrunk by a successful
// exchange, full pool stays full, request <= 1024 bytes with exactly one cookie field and the
// missing ones as placeholder fields, reply well-formed, authenticated, one fresh cookie per field.
package main

import (
	"fmt"

	"verifharness/cmd/c10/ntsx"
	"verifharness/lib"
)

const maxLen = 1024

func level(ans string) int {
	var l int
	fmt.Sscan(ntsx.Field(ans, "level"), &l)
	return l
}

func history(c *lib.Ctx, r *lib.Rand, hi int, steps int, lossPct int) {
	c.Comment(fmt.Sprintf("history %d", hi))
	var hist []string
	do := func(op string) string {
		a := ntsx.Do(c, op)
		hist = append(hist, op)
		return a
	}
	fail := func(sig, what string, detail map[string]any) {
		ops := hist
		if len(ops) > 60 {
			ops = ops[len(ops)-60:]
		}
		c.Fail(sig, what, append([]string(nil), ops...), detail)
	}
	keys := map[int][]byte{1: r.Bytes(32)}
	curID := 1
	var s ntsx.Session
	var prevResp []byte
	sent := map[string]bool{}
	rekey := func() {
		s = ntsx.NewSession(r)
		prevResp = nil
		var pool [][]byte
		for i := 0; i < 8; i++ {
			pool = append(pool, ntsx.IssueCookie(c, r, s, keys[curID], curID))
		}
		do(fmt.Sprintf("cl.init %s %s %s", ntsx.HexList(pool), lib.Hex(s.C2S), lib.Hex(s.S2C)))
		c.Count("history:rekey")
	}
	rekey()
	burst := 0
	for st := 0; st < steps; st++ {
		lv := level(do("cl.level"))
		if lv == 0 {
			c.Count("history:pool-empty")
			rekey()
			lv = 8
		}
		if r.Chance(8) { // server key rotation; keys older than three generations expire
			curID++
			keys[curID] = r.Bytes(32)
			delete(keys, curID-3)
			c.Count("history:key-rotation")
		}
		ans := do(fmt.Sprintf("cl.request %s rand=%s", lib.Hex(ntsx.Header(r)), lib.Hex(r.Bytes(48))))
		c.Count(fmt.Sprintf("request:level%d", lv))
		req, ok := ntsx.OkHex(ans)
		if !ok {
			fail(fmt.Sprintf("fits:level%d", lv), fmt.Sprintf("the request at pool level %d cannot be encoded: %s", lv, ans), map[string]any{"level": lv, "answer": ans})
			return
		}
		if len(req) > maxLen {
			fail("fits:len", "request longer than MaxPacketLen", map[string]any{"len": len(req)})
		}
		if level(ans) != lv-1 {
			fail("pool:pop", "a request did not take exactly one cookie from the pool", map[string]any{"before": lv, "after": level(ans)})
		}
		// wire shape
		fs := ntsx.Walk(req)
		nc, np, other := 0, 0, 0
		var cookie []byte
		for i, f := range fs {
			switch {
			case i == 0 && f.Type == 0x104:
			case i == len(fs)-1 && f.Type == 0x404:
			case f.Type == 0x204:
				nc++
				cookie = req[f.Off+4 : f.Off+f.Len]
			case f.Type == 0x304:
				np++
			default:
				other++
			}
		}
		wantP := 8 - lv
		for wantP > 0 && 48+36+40+(1+wantP)*(4+len(cookie)) > maxLen {
			wantP-- // as many as fit
		}
		if nc != 1 || np != wantP || other != 0 {
			fail("shape", fmt.Sprintf("request at pool level %d carries %d cookie and %d placeholder fields (want 1 and %d)", lv, nc, np, wantP),
				map[string]any{"level": lv, "cookies": nc, "placeholders": np})
		}
		if sent[string(cookie)] {
			fail("single-use", "the same cookie was sent in two requests", nil)
		}
		sent[string(cookie)] = true

		lose := r.Chance(lossPct)
		if burst > 0 {
			lose = true
			burst--
		} else if r.Chance(4) {
			burst = int(r.Range(2, 9))
		}
		if lose {
			c.Count("exchange:request-lost")
			continue
		}
		rans := ntsx.Reply(c, r, req, keys, curID, len(fs)+1)
		hist = append(hist, "# srv.reply")
		resp, ok := ntsx.OkHex(rans)
		if !ok {
			if rans == "err no-key" {
				c.Count("exchange:cookie-key-expired")
				continue
			}
			fail("reply:none", "the server branch does not answer an authentic request: "+rans, map[string]any{"level": lv})
			continue
		}
		if len(resp) > maxLen || len(resp)%4 != 0 {
			fail("reply:len", "reply longer than MaxPacketLen or not aligned", map[string]any{"len": len(resp)})
		}
		if r.Chance(lossPct / 2) {
			c.Count("exchange:response-lost")
			continue
		}
		// what the requester gets out of it (stateless twin of cl.response)
		uid := req[52:84]
		chk := ntsx.Do(c, fmt.Sprintf("nts.resp %s %s %s", lib.Hex(resp), lib.Hex(s.S2C), lib.Hex(uid)))
		if !ntsx.IsOK(chk) {
			fail("reply:auth", "the requester cannot authenticate the server's reply: "+chk, map[string]any{"level": lv, "reqlen": len(req), "resplen": len(resp)})
		} else {
			cs := ntsx.ParseHexList(chk[3:])
			if len(cs) != nc+np {
				fail("reply:count", fmt.Sprintf("reply carries %d cookies for %d requested fields", len(cs), nc+np), nil)
			}
			want := fmt.Sprintf("ok %d %s %s", s.Algo, lib.Hex(s.S2C), lib.Hex(s.C2S))
			seen := map[string]bool{}
			for _, ck := range cs {
				if seen[string(ck)] || sent[string(ck)] {
					fail("reply:fresh", "the reply repeats a cookie", nil)
				}
				seen[string(ck)] = true
				if a := ntsx.Do(c, fmt.Sprintf("ck.decrypt %s %s", lib.Hex(ck), lib.Hex(keys[curID]))); a != want {
					fail("reply:cookie", "a fresh cookie does not open under the current server key to the session keys: "+a, nil)
				}
			}
		}
		if prevResp != nil && r.Chance(15) { // a stale response (to an earlier request) arrives first
			c.Count("exchange:stale-response")
			if a := do("cl.response " + lib.Hex(prevResp)); ntsx.IsOK(a) || level(do("cl.level")) != lv-1 {
				fail("pool:stale", "a response to an earlier request was accepted or changed the pool: "+a, nil)
			}
		}
		if r.Chance(20) { // an off-path forgery: right identifier, a cookie field, no valid authenticator
			c.Count("exchange:forged-response")
			forged := ntsx.ForeignPacket(ntsx.Header(r), [][]byte{ntsx.RawField(0x104, uid), ntsx.RawField(0x204, r.Bytes(124))}, r.Bytes(32), r.Bytes(16), nil)
			if a := do("cl.response " + lib.Hex(forged)); ntsx.IsOK(a) || level(do("cl.level")) != lv-1 {
				fail("pool:forged", "a forged response was accepted or changed the pool: "+a, nil)
			}
		}
		ans = do("cl.response " + lib.Hex(resp))
		if !ntsx.IsOK(ans) {
			fail("reply:auth", "the client rejects the server's reply: "+ans, map[string]any{"level": lv})
			continue
		}
		c.Count("exchange:success")
		after := level(ans)
		if after < lv || after > 8 {
			fail("pool:bounds", fmt.Sprintf("a successful exchange took the pool from %d to %d", lv, after), map[string]any{"before": lv, "after": after})
		}
		if lv == 8 && after != 8 {
			fail("pool:lossfree", "a successful exchange from a full pool did not leave it full", map[string]any{"after": after})
		}
		prevResp = resp
	}
}

func gen(c *lib.Ctx) {
	r := c.Rand
	n := c.Scale(40, 1500)
	for i := 0; i < n; i++ {
		loss := []int{0, 10, 30, 60, 85}[i%5]
		history(c, r, i, int(r.Range(10, 40)), loss)
	}
	// a client without the 1024-byte limit asks for eight cookies (one cookie + seven placeholders)
	for i := 0; i < c.Scale(3, 30); i++ {
		s := ntsx.NewSession(r)
		key := r.Bytes(32)
		ck := ntsx.IssueCookie(c, r, s, key, 1)
		for _, nph := range []int{5, 6, 7, 8, 12} {
			uid := r.Bytes(32)
			fields := [][]byte{ntsx.RawField(0x104, uid), ntsx.RawField(0x204, ck)}
			for j := 0; j < nph; j++ {
				fields = append(fields, ntsx.RawField(0x304, make([]byte, len(ck))))
			}
			req := ntsx.ForeignPacket(ntsx.Header(r), fields, s.C2S, r.Bytes(16), nil)
			c.Count(fmt.Sprintf("foreign:fields%d", 1+nph))
			rans := ntsx.Reply(c, r, req, map[int][]byte{1: key}, 1, nph+3)
			resp, ok := ntsx.OkHex(rans)
			if !ok {
				c.Fail("reply:none", "the server branch does not answer an authentic request: "+rans, nil, map[string]any{"fields": 1 + nph})
				continue
			}
			chk := ntsx.Do(c, fmt.Sprintf("nts.resp %s %s %s", lib.Hex(resp), lib.Hex(s.S2C), lib.Hex(uid)))
			if len(resp) > maxLen || !ntsx.IsOK(chk) {
				c.Fail("reply:auth", fmt.Sprintf("the reply to a request with %d cookie/placeholder fields is %d bytes and the requester's verdict is: %.30s", 1+nph, len(resp), chk),
					nil, map[string]any{"fields": 1 + nph, "request": lib.Hex(req)})
				continue
			}
			want := 1 + nph
			for 48+36+40+want*(4+len(ck)) > maxLen {
				want-- // as many as fit
			}
			if got := len(ntsx.ParseHexList(chk[3:])); got != want {
				c.Fail("reply:count", fmt.Sprintf("reply carries %d cookies for %d requested fields (%d fit)", got, 1+nph, want), nil, nil)
			}
		}
	}

	// every level 1..8 directly
	for lv := 1; lv <= 8; lv++ {
		s := ntsx.NewSession(r)
		key := r.Bytes(32)
		var pool [][]byte
		for i := 0; i < lv; i++ {
			pool = append(pool, ntsx.IssueCookie(c, r, s, key, 1))
		}
		c.Comment(fmt.Sprintf("history level-%d", lv))
		ntsx.Do(c, fmt.Sprintf("cl.init %s %s %s", ntsx.HexList(pool), lib.Hex(s.C2S), lib.Hex(s.S2C)))
		op := fmt.Sprintf("cl.request %s rand=%s", lib.Hex(ntsx.Header(r)), lib.Hex(r.Bytes(48)))
		ans := ntsx.Do(c, op)
		c.Count(fmt.Sprintf("direct:level%d", lv))
		if b, ok := ntsx.OkHex(ans); !ok || len(b) > maxLen {
			c.Fail(fmt.Sprintf("fits:level%d", lv), fmt.Sprintf("the request at pool level %d cannot be encoded within MaxPacketLen: %.40s", lv, ans),
				[]string{fmt.Sprintf("cl.init %s %s %s", ntsx.HexList(pool), lib.Hex(s.C2S), lib.Hex(s.S2C)), op}, map[string]any{"level": lv})
		}
	}
}

func main() { ntsx.Main(gen) }
