// c02: correspondence + direct oracle for the fault-tolerant midpoint and the median
// (base/timemath, core/measurements).
//
// ops (see lean/Driver/C02.lean):
//
//	tm.sgn d | tm.inv d | tm.mid x y | tm.median [..] | tm.ftm [..]
//	ms.median [o,t,e,...] post=[o,t,e,...] | ms.ftm [o,t,e,...] post=[o,t,e,...]
//	ms.rounds n round;round;...   (rounds.go: MeasureClockOffsets + FaultTolerantMidpoint on one slice)
//
// For the ms.* ops the post= token carries the slice the implementation left behind when
// the op was generated (Go's unstable sort is not modelled; the model verifies that it is an
// offset-sorted permutation and computes the result from it). exec ignores the token and
// prints the slice it observes itself, so a replay compares the two.
package main

import (
	"errors"
	"fmt"
	"math"
	"math/big"
	"strconv"
	"strings"
	"time"

	"example.com/scion-time/base/timemath"
	"example.com/scion-time/core/measurements"

	"verifharness/lib"
)

const (
	two62 = int64(1) << 62
	minI  = int64(math.MinInt64)
	maxI  = int64(math.MaxInt64)
)

var errFault = errors.New("measurement failed")

var bigE9 = big.NewInt(1000000000)

// ---------------------------------------------------------------- parsing / printing

func i64(s string) int64 {
	v, err := strconv.ParseInt(s, 10, 64)
	if err != nil {
		panic("bad-op")
	}
	return v
}

func splitList(s string) []string {
	if len(s) < 2 || s[0] != '[' || s[len(s)-1] != ']' {
		panic("bad-op")
	}
	s = s[1 : len(s)-1]
	if s == "" {
		return nil
	}
	return strings.Split(s, ",")
}

func parseDurs(s string) []time.Duration {
	parts := splitList(s)
	ds := make([]time.Duration, len(parts))
	for i, p := range parts {
		ds[i] = time.Duration(i64(p))
	}
	return ds
}

func fmtDurs(ds []time.Duration) string {
	xs := make([]int64, len(ds))
	for i, d := range ds {
		xs[i] = int64(d)
	}
	return lib.IntList(xs)
}

// rec is the protocol's view of a Measurement: offset, timestamp as nanoseconds since the
// Unix epoch (arbitrary precision), error flag.
type rec struct {
	off int64
	ts  *big.Int
	e   bool
}

func timeOfNs(ns *big.Int) time.Time {
	q, m := new(big.Int), new(big.Int)
	q.DivMod(ns, bigE9, m) // Euclidean: 0 <= m < 10^9
	if !q.IsInt64() {
		panic("bad-op")
	}
	return time.Unix(q.Int64(), m.Int64())
}

func nsOfTime(t time.Time) *big.Int {
	r := new(big.Int).Mul(big.NewInt(t.Unix()), bigE9)
	return r.Add(r, big.NewInt(int64(t.Nanosecond())))
}

func parseRecs(s string) []rec {
	parts := splitList(s)
	if len(parts)%3 != 0 {
		panic("bad-op")
	}
	rs := make([]rec, 0, len(parts)/3)
	for i := 0; i < len(parts); i += 3 {
		ts, ok := new(big.Int).SetString(parts[i+1], 10)
		if !ok {
			panic("bad-op")
		}
		e := i64(parts[i+2])
		if e != 0 && e != 1 {
			panic("bad-op")
		}
		rs = append(rs, rec{i64(parts[i]), ts, e == 1})
	}
	return rs
}

func toMeas(rs []rec) []measurements.Measurement {
	ms := make([]measurements.Measurement, len(rs))
	for i, r := range rs {
		ms[i] = measurements.Measurement{Timestamp: timeOfNs(r.ts), Offset: time.Duration(r.off)}
		if r.e {
			ms[i].Error = errFault
		}
	}
	return ms
}

func fromMeas(ms []measurements.Measurement) []rec {
	rs := make([]rec, len(ms))
	for i, m := range ms {
		rs[i] = rec{int64(m.Offset), nsOfTime(m.Timestamp), m.Error != nil}
	}
	return rs
}

func fmtRecs(rs []rec) string {
	var sb strings.Builder
	sb.WriteByte('[')
	for i, r := range rs {
		if i > 0 {
			sb.WriteByte(',')
		}
		e := 0
		if r.e {
			e = 1
		}
		fmt.Fprintf(&sb, "%d,%s,%d", r.off, r.ts.String(), e)
	}
	sb.WriteByte(']')
	return sb.String()
}

// ---------------------------------------------------------------- exec

func exec(t []string) string {
	switch {
	case t[0] == "tm.sgn" && len(t) == 2:
		return fmt.Sprintf("ok %d", timemath.Sgn(time.Duration(i64(t[1]))))
	case t[0] == "tm.inv" && len(t) == 2:
		return fmt.Sprintf("ok %d", int64(timemath.Inv(time.Duration(i64(t[1])))))
	case t[0] == "tm.mid" && len(t) == 3:
		return fmt.Sprintf("ok %d", int64(timemath.Midpoint(time.Duration(i64(t[1])), time.Duration(i64(t[2])))))
	case (t[0] == "tm.median" || t[0] == "tm.ftm") && len(t) == 2:
		ds := parseDurs(t[1])
		var v time.Duration
		if t[0] == "tm.median" {
			v = timemath.Median(ds)
		} else {
			v = timemath.FaultTolerantMidpoint(ds)
		}
		return fmt.Sprintf("ok %d %s", int64(v), fmtDurs(ds))
	case (t[0] == "ms.median" || t[0] == "ms.ftm") && len(t) == 3 && strings.HasPrefix(t[2], "post="):
		ms := toMeas(parseRecs(t[1]))
		var m measurements.Measurement
		if t[0] == "ms.median" {
			m = measurements.Median(ms)
		} else {
			m = measurements.FaultTolerantMidpoint(ms)
		}
		e := 0
		if m.Error != nil {
			e = 1
		}
		return fmt.Sprintf("ok %d %s %d %s", int64(m.Offset), nsOfTime(m.Timestamp).String(), e, fmtRecs(fromMeas(ms)))
	case t[0] == "ms.rounds" && len(t) == 3:
		return roundsOp(t[1], t[2])
	}
	return "bad-op"
}

// ---------------------------------------------------------------- answers

type tmAns struct {
	ok   bool
	v    int64
	post []int64
}

func parseTm(ans string) tmAns {
	f := strings.Fields(ans)
	if len(f) != 3 || f[0] != "ok" {
		return tmAns{}
	}
	a := tmAns{ok: true, v: i64(f[1])}
	for _, p := range splitList(f[2]) {
		a.post = append(a.post, i64(p))
	}
	return a
}

type msAns struct {
	ok   bool
	off  int64
	ts   *big.Int
	e    bool
	post []rec
}

func parseMs(ans string) msAns {
	f := strings.Fields(ans)
	if len(f) != 5 || f[0] != "ok" {
		return msAns{}
	}
	ts, _ := new(big.Int).SetString(f[2], 10)
	return msAns{ok: true, off: i64(f[1]), ts: ts, e: f[3] != "0", post: parseRecs(f[4])}
}

// doMs runs the implementation once to learn the post-call slice, then records the op
// (with the post= token) through c.Do, which runs the implementation again on a fresh copy.
func doMs(c *lib.Ctx, op string, rs []rec) (string, msAns) {
	in := fmtRecs(rs)
	post := "[]"
	pre := lib.Try(func() string { return exec([]string{op, in, "post="}) })
	if f := strings.Fields(pre); len(f) == 5 && f[0] == "ok" {
		post = f[4]
	}
	line := fmt.Sprintf("%s %s post=%s", op, in, post)
	return line, parseMs(c.Do(line))
}

// ---------------------------------------------------------------- independent helpers (oracle side)

// isortCopy is an independent (insertion) sort used to judge the post-call slice.
func isortCopy(xs []int64) []int64 {
	s := append([]int64(nil), xs...)
	for i := 1; i < len(s); i++ {
		for j := i; j > 0 && s[j-1] > s[j]; j-- {
			s[j-1], s[j] = s[j], s[j-1]
		}
	}
	return s
}

func eq64(a, b []int64) bool {
	if len(a) != len(b) {
		return false
	}
	for i := range a {
		if a[i] != b[i] {
			return false
		}
	}
	return true
}

func recLess(a, b rec) bool {
	if a.off != b.off {
		return a.off < b.off
	}
	if c := a.ts.Cmp(b.ts); c != 0 {
		return c < 0
	}
	return !a.e && b.e
}

func recEq(a, b rec) bool { return a.off == b.off && a.ts.Cmp(b.ts) == 0 && a.e == b.e }

func canonRecs(rs []rec) []rec {
	s := append([]rec(nil), rs...)
	for i := 1; i < len(s); i++ {
		for j := i; j > 0 && recLess(s[j], s[j-1]); j-- {
			s[j-1], s[j] = s[j], s[j-1]
		}
	}
	return s
}

// sortedPermRecs: post is a permutation of in and non-decreasing in offset.
func sortedPermRecs(in, post []rec) bool {
	if len(in) != len(post) {
		return false
	}
	a, b := canonRecs(in), canonRecs(post)
	for i := range a {
		if !recEq(a[i], b[i]) {
			return false
		}
	}
	for i := 1; i < len(post); i++ {
		if post[i-1].off > post[i].off {
			return false
		}
	}
	return true
}

func small(v int64) bool { return v > -two62 && v < two62 }

func shuffle64(r *lib.Rand, xs []int64) []int64 {
	s := append([]int64(nil), xs...)
	for i := len(s) - 1; i > 0; i-- {
		j := r.Intn(i + 1)
		s[i], s[j] = s[j], s[i]
	}
	return s
}

func shuffleRecs(r *lib.Rand, xs []rec) []rec {
	s := append([]rec(nil), xs...)
	for i := len(s) - 1; i > 0; i-- {
		j := r.Intn(i + 1)
		s[i], s[j] = s[j], s[i]
	}
	return s
}

// bigMid is x + trunc((y-x)/2) in arbitrary precision.
func bigMid(x, y int64) *big.Int {
	d := new(big.Int).Sub(big.NewInt(y), big.NewInt(x))
	d.Quo(d, big.NewInt(2)) // truncated
	return d.Add(d, big.NewInt(x))
}

// ---------------------------------------------------------------- generators

type tagged struct {
	v   int64
	bad bool
}

// genTagged builds n tagged offsets: nbad faulty ones placed adversarially, the others
// ("good") drawn from one of several regimes. Returns the list (unshuffled) and labels.
func genTagged(r *lib.Rand, n, nbad int) ([]tagged, string, string) {
	ngood := n - nbad
	good := make([]int64, ngood)
	var regime string
	switch r.Intn(7) {
	case 0:
		regime = "good:narrow-duplicates"
		base := r.Range(-1000, 1000)
		for i := range good {
			good[i] = base + r.Range(-3, 3)
		}
	case 1:
		regime = "good:all-equal"
		base := r.Range(-two62+1, two62-1)
		for i := range good {
			good[i] = base
		}
	case 2:
		regime = "good:edges-2^62"
		for i := range good {
			switch r.Intn(4) {
			case 0:
				good[i] = two62 - 1
			case 1:
				good[i] = -(two62 - 1)
			case 2:
				good[i] = two62 - 1 - r.Range(0, 3)
			default:
				good[i] = -(two62 - 1) + r.Range(0, 3)
			}
		}
	case 3:
		regime = "good:full-small-range"
		for i := range good {
			good[i] = r.Range(-two62+1, two62-1)
		}
	case 4:
		regime = "good:realistic-ns"
		base := r.Range(-5000000000, 5000000000)
		for i := range good {
			good[i] = base + r.Range(-2000000, 2000000)
		}
	case 5:
		regime = "good:around-zero"
		for i := range good {
			good[i] = r.Range(-2, 2)
		}
	default:
		regime = "good:odd-gaps"
		base := r.Range(-1000000, 1000000)
		for i := range good {
			good[i] = base + 2*r.Range(0, 50) + 1*(r.Range(0, 1))
		}
	}
	lo, hi := int64(0), int64(0)
	for i, g := range good {
		if i == 0 || g < lo {
			lo = g
		}
		if i == 0 || g > hi {
			hi = g
		}
	}
	bad := make([]int64, nbad)
	var place string
	k := r.Intn(8)
	switch k {
	case 0:
		place = "bad:all-low-minint"
		for i := range bad {
			bad[i] = minI + r.Range(0, 2)
		}
	case 1:
		place = "bad:all-high-maxint"
		for i := range bad {
			bad[i] = maxI - r.Range(0, 2)
		}
	case 2:
		place = "bad:split-both-ends"
		for i := range bad {
			if i%2 == 0 {
				bad[i] = minI + r.Range(0, 5)
			} else {
				bad[i] = maxI - r.Range(0, 5)
			}
		}
	case 3:
		place = "bad:just-below-good"
		for i := range bad {
			bad[i] = lo - 1 - r.Range(0, 2)
		}
	case 4:
		place = "bad:just-above-good"
		for i := range bad {
			bad[i] = hi + 1 + r.Range(0, 2)
		}
	case 5:
		place = "bad:equal-to-good-extremes"
		for i := range bad {
			if r.Bool() {
				bad[i] = lo
			} else {
				bad[i] = hi
			}
		}
	case 6:
		place = "bad:inside-good-range"
		for i := range bad {
			bad[i] = r.Range(lo, hi)
		}
	default:
		place = "bad:random-int64"
		for i := range bad {
			bad[i] = r.I64()
		}
	}
	if nbad == 0 {
		place = "bad:none"
	}
	l := make([]tagged, 0, n)
	for _, g := range good {
		l = append(l, tagged{g, false})
	}
	for _, b := range bad {
		l = append(l, tagged{b, true})
	}
	return l, regime, place
}

func pickN(r *lib.Rand) int {
	switch r.Intn(10) {
	case 0, 1, 2, 3:
		return int(r.Range(1, 8))
	case 4, 5, 6:
		return int(r.Range(1, 16))
	case 7:
		// sizes at which f = (n-1)/3 changes
		return int(r.Pick64([]int64{1, 3, 4, 6, 7, 9, 10, 12, 13, 15, 16, 18, 19, 21, 22, 37, 39, 40}))
	default:
		return int(r.Range(1, 40))
	}
}

func goodBounds(l []tagged) (lo, hi int64) {
	first := true
	for _, e := range l {
		if e.bad {
			continue
		}
		if first || e.v < lo {
			lo = e.v
		}
		if first || e.v > hi {
			hi = e.v
		}
		first = false
	}
	return
}

func vals(l []tagged) []int64 {
	xs := make([]int64, len(l))
	for i, e := range l {
		xs[i] = e.v
	}
	return xs
}

// checkTm evaluates the slice-level oracle common to tm.median / tm.ftm.
func checkTm(c *lib.Ctx, op string, in []int64, a tmAns) {
	if !a.ok {
		c.Fail("C02:tm:not-ok", "call on a non-empty slice did not return", []string{op}, nil)
		return
	}
	if !eq64(a.post, isortCopy(in)) {
		c.Fail("C02:tm:post-slice", "slice after the call is not the sorted permutation of the input", []string{op},
			map[string]any{"post": lib.IntList(a.post)})
	}
}

func ftmCase(c *lib.Ctx, r *lib.Rand) {
	n := pickN(r)
	f := (n - 1) / 3
	nbad := f
	beyond := false
	switch {
	case r.Chance(25):
		nbad = int(r.Range(0, int64(f)))
	case r.Chance(6) && f+1 < n:
		nbad, beyond = f+1, true // outside the hypothesis: correspondence only
	}
	l, regime, place := genTagged(r, n, nbad)
	c.Count(regime)
	c.Count(place)
	c.Count(fmt.Sprintf("ftm:f=%d", f))
	in := shuffle64(r, vals(l))
	op := "tm.ftm " + lib.IntList(in)
	a := parseTm(c.Do(op))
	checkTm(c, op, in, a)
	if !a.ok {
		return
	}
	lo, hi := goodBounds(l)
	if beyond {
		c.Count("ftm:beyond-hypothesis(f+1 faulty)")
		if a.v < lo || a.v > hi {
			c.Count("ftm:beyond-hypothesis:escaped")
		}
	} else {
		c.Count("ftm:containment-checked")
		if a.v < lo || a.v > hi {
			c.Fail("C02:ftm:containment", "fault-tolerant midpoint outside the range of the correct offsets",
				[]string{op}, map[string]any{"n": n, "faulty": nbad, "good_min": lo, "good_max": hi, "result": a.v,
					"tagged": fmt.Sprint(l)})
		}
		// the two selected values are good-bounded, hence the big-integer midpoint applies
		x, y := a.post[f], a.post[n-1-f]
		if bigMid(x, y).Cmp(big.NewInt(a.v)) != 0 {
			c.Fail("C02:ftm:overflow", "result differs from the arbitrary-precision midpoint of the selected values",
				[]string{op}, map[string]any{"x": x, "y": y, "result": a.v})
		}
	}
	// permutation invariance
	if r.Chance(50) {
		in2 := shuffle64(r, in)
		op2 := "tm.ftm " + lib.IntList(in2)
		b := parseTm(c.Do(op2))
		c.Count("ftm:reshuffled")
		if !b.ok || b.v != a.v || !eq64(a.post, b.post) {
			c.Fail("C02:ftm:perm", "result depends on the order of the inputs", []string{op, op2}, nil)
		}
	}
}

func medianCase(c *lib.Ctx, r *lib.Rand) {
	n := pickN(r)
	l, regime, _ := genTagged(r, n, 0)
	c.Count(regime)
	in := shuffle64(r, vals(l))
	if r.Chance(5) {
		// outside the hypothesis: one value beyond 2^62 (correspondence only)
		in[r.Intn(n)] = r.Pick64([]int64{minI, maxI, two62, -two62, r.I64()})
	}
	allSmall := true
	for _, v := range in {
		allSmall = allSmall && small(v)
	}
	op := "tm.median " + lib.IntList(in)
	a := parseTm(c.Do(op))
	checkTm(c, op, in, a)
	if !a.ok {
		return
	}
	if n%2 == 0 {
		c.Count("median:even")
	} else {
		c.Count("median:odd")
	}
	if allSmall {
		s := isortCopy(in)
		c.Count("median:containment-checked")
		if a.v < s[0] || a.v > s[n-1] {
			c.Fail("C02:median:containment", "median outside [min, max] of the inputs", []string{op},
				map[string]any{"min": s[0], "max": s[n-1], "result": a.v})
		}
		// sharper: between the two middle elements, and equal to the big-integer value
		var want *big.Int
		if n%2 != 0 {
			want = big.NewInt(s[n/2])
		} else {
			want = bigMid(s[n/2-1], s[n/2])
		}
		if want.Cmp(big.NewInt(a.v)) != 0 {
			c.Fail("C02:median:value", "median differs from the arbitrary-precision median", []string{op},
				map[string]any{"want": want.String(), "result": a.v})
		}
	} else {
		c.Count("median:beyond-hypothesis(|v|>=2^62)")
	}
	if r.Chance(50) {
		in2 := shuffle64(r, in)
		op2 := "tm.median " + lib.IntList(in2)
		b := parseTm(c.Do(op2))
		c.Count("median:reshuffled")
		if !b.ok || b.v != a.v || !eq64(a.post, b.post) {
			c.Fail("C02:median:perm", "result depends on the order of the inputs", []string{op, op2}, nil)
		}
	}
}

var (
	// 0001-01-01 and 9999-12-31 in Unix seconds: further apart than maxDuration (292 years)
	secYear1    = int64(-62135596800)
	secYear9999 = int64(253402300799)
)

func genTs(r *lib.Rand, regime int) *big.Int {
	var sec, ns int64
	switch regime {
	case 0: // one measurement round: within a few seconds of "now"
		sec, ns = 1790000000+r.Range(0, 5), r.Range(0, 999999999)
	case 1: // identical second, ns edges
		sec, ns = 1790000000, r.Pick64([]int64{0, 1, 2, 499999999, 500000000, 999999998, 999999999})
	case 2: // before the epoch / around it
		sec, ns = r.Range(-3, 3), r.Pick64([]int64{0, 1, 999999999})
	case 3: // centuries apart: Sub saturates
		if r.Bool() {
			sec = secYear1 + r.Range(0, 100)
		} else {
			sec = secYear9999 - r.Range(0, 100)
		}
		ns = r.Range(0, 999999999)
	case 4: // exactly around the saturation distance from 2026
		base := int64(1790000000)
		d := int64(9223372036) // floor(maxDuration / 1e9)
		sec = base + r.Pick64([]int64{0, d - 1, d, d + 1, -d, -d - 1, -d + 1})
		ns = r.Pick64([]int64{0, 854775806, 854775807, 854775808, 999999999})
	default:
		sec, ns = r.Range(secYear1, secYear9999), r.Range(0, 999999999)
	}
	t := new(big.Int).Mul(big.NewInt(sec), bigE9)
	return t.Add(t, big.NewInt(ns))
}

func between(v, a, b *big.Int) bool {
	lo, hi := a, b
	if lo.Cmp(hi) > 0 {
		lo, hi = hi, lo
	}
	return v.Cmp(lo) >= 0 && v.Cmp(hi) <= 0
}

func measCase(c *lib.Ctx, r *lib.Rand, which string) {
	n := pickN(r)
	f := (n - 1) / 3
	nbad := 0
	if which == "ms.ftm" {
		nbad = f
		if r.Chance(25) {
			nbad = int(r.Range(0, int64(f)))
		}
	}
	l, regime, place := genTagged(r, n, nbad)
	c.Count("ms:" + regime)
	if which == "ms.ftm" {
		c.Count("ms:" + place)
	}
	tsRegime := r.Intn(6)
	c.Count(fmt.Sprintf("ms:ts-regime-%d", tsRegime))
	rs := make([]rec, n)
	for i, e := range l {
		rs[i] = rec{e.v, genTs(r, tsRegime), r.Chance(20)}
	}
	// remember good/bad through the shuffle by bounds only
	lo, hi := goodBounds(l)
	allSmall := true
	for _, e := range l {
		allSmall = allSmall && small(e.v)
	}
	in := shuffleRecs(r, rs)
	op, a := doMs(c, which, in)
	if !a.ok {
		c.Fail("C02:ms:not-ok", "call on a non-empty slice did not return", []string{op}, nil)
		return
	}
	if !sortedPermRecs(in, a.post) {
		c.Fail("C02:ms:post-slice", "slice after the call is not an offset-sorted permutation of the input", []string{op}, nil)
		return
	}
	if a.e {
		c.Fail("C02:ms:error-not-nil", "combined measurement carries an error", []string{op}, nil)
	}
	ties := false
	for i := 1; i < n; i++ {
		if a.post[i-1].off == a.post[i].off && a.post[i-1].ts.Cmp(a.post[i].ts) != 0 {
			ties = true
		}
	}
	if ties {
		c.Count("ms:equal-offsets-different-timestamps")
	}
	offs := make([]int64, n)
	for i, x := range in {
		offs[i] = x.off
	}
	if which == "ms.ftm" {
		x, y := a.post[f], a.post[n-1-f]
		if a.off < lo || a.off > hi {
			c.Fail("C02:ms:ftm:containment", "combined offset outside the range of the correct offsets", []string{op},
				map[string]any{"good_min": lo, "good_max": hi, "result": a.off})
		}
		if bigMid(x.off, y.off).Cmp(big.NewInt(a.off)) != 0 {
			c.Fail("C02:ms:ftm:overflow", "offset differs from the arbitrary-precision midpoint", []string{op}, nil)
		}
		if !between(a.ts, x.ts, y.ts) {
			c.Fail("C02:ms:ftm:timestamp", "combined timestamp not between the timestamps of the two selected measurements",
				[]string{op}, map[string]any{"tx": x.ts.String(), "ty": y.ts.String(), "result": a.ts.String()})
		}
		d := new(big.Int).Sub(x.ts, y.ts)
		if d.Abs(d).Cmp(big.NewInt(maxI)) > 0 {
			c.Count("ms:timestamp-sub-saturates")
		}
		// the plain variant on the offsets gives the same offset
		ds := make([]time.Duration, n)
		for i, o := range offs {
			ds[i] = time.Duration(o)
		}
		if v := timemath.FaultTolerantMidpoint(ds); int64(v) != a.off {
			c.Fail("C02:ms:ftm:vs-timemath", "measurement variant and duration variant disagree on the offset", []string{op}, nil)
		}
	} else {
		if allSmall {
			s := isortCopy(offs)
			if a.off < s[0] || a.off > s[n-1] {
				c.Fail("C02:ms:median:containment", "median offset outside [min, max]", []string{op}, nil)
			}
		}
		if n%2 != 0 {
			if a.ts.Cmp(a.post[n/2].ts) != 0 || a.off != a.post[n/2].off {
				c.Fail("C02:ms:median:middle", "odd n: result is not the middle measurement", []string{op}, nil)
			}
		} else {
			x, y := a.post[n/2-1], a.post[n/2]
			if !between(a.ts, x.ts, y.ts) {
				c.Fail("C02:ms:median:timestamp", "combined timestamp not between the two middle timestamps", []string{op}, nil)
			}
			if allSmall && bigMid(x.off, y.off).Cmp(big.NewInt(a.off)) != 0 {
				c.Fail("C02:ms:median:overflow", "offset differs from the arbitrary-precision midpoint", []string{op}, nil)
			}
		}
		ds := make([]time.Duration, n)
		for i, o := range offs {
			ds[i] = time.Duration(o)
		}
		if v := timemath.Median(ds); int64(v) != a.off {
			c.Fail("C02:ms:median:vs-timemath", "measurement variant and duration variant disagree on the offset", []string{op}, nil)
		}
	}
	if r.Chance(50) {
		in2 := shuffleRecs(r, in)
		op2, b := doMs(c, which, in2)
		c.Count("ms:reshuffled")
		if !b.ok || b.off != a.off {
			c.Fail("C02:ms:perm", "combined offset depends on the order of the inputs", []string{op, op2}, nil)
		}
	}
}

// permutations calls f with every permutation of xs (Heap's algorithm).
func permutations(xs []int, f func([]int)) {
	var rec func(k int)
	rec = func(k int) {
		if k == 1 {
			f(xs)
			return
		}
		for i := 0; i < k; i++ {
			rec(k - 1)
			if k%2 == 0 {
				xs[i], xs[k-1] = xs[k-1], xs[i]
			} else {
				xs[0], xs[k-1] = xs[k-1], xs[0]
			}
		}
	}
	if len(xs) > 0 {
		rec(len(xs))
	}
}

func allPerms(c *lib.Ctx, r *lib.Rand, base []int64, withMeas bool) {
	n := len(base)
	idx := make([]int, n)
	for i := range idx {
		idx[i] = i
	}
	tss := make([]*big.Int, n)
	for i := range tss {
		tss[i] = genTs(r, 0)
	}
	var first [4]string
	var firstOp [4]string
	cnt := 0
	permutations(idx, func(p []int) {
		in := make([]int64, n)
		rs := make([]rec, n)
		for i, j := range p {
			in[i] = base[j]
			rs[i] = rec{base[j], tss[j], j%3 == 0}
		}
		ops := []string{"tm.ftm " + lib.IntList(in), "tm.median " + lib.IntList(in)}
		res := []string{c.Do(ops[0]), c.Do(ops[1])}
		if withMeas {
			for _, w := range []string{"ms.ftm", "ms.median"} {
				op, a := doMs(c, w, rs)
				ops = append(ops, op)
				if !a.ok || !sortedPermRecs(rs, a.post) || a.e {
					c.Fail("C02:ms:post-slice", "all-permutations: bad result or post slice", []string{op}, nil)
				}
				res = append(res, fmt.Sprint(a.off)) // only the offset is order-independent
			}
		}
		for k := range res {
			if cnt == 0 {
				first[k], firstOp[k] = res[k], ops[k]
			} else if res[k] != first[k] {
				c.Fail("C02:allperms", "two orders of the same values give different results", []string{firstOp[k], ops[k]}, nil)
			}
		}
		cnt++
	})
	c.Count(fmt.Sprintf("allperms:n=%d", n))
}

func gen(c *lib.Ctx) {
	r := c.Rand

	// ---- boundary stream: scalar functions on every edge value and every pair of them
	c.Comment("boundary stream: sgn / inv / midpoint")
	edges := []int64{minI, minI + 1, minI + 2, -two62 - 1, -two62, -two62 + 1, -two62 + 2, -1000000000, -3, -2, -1, 0, 1, 2, 3,
		1000000000, two62 - 2, two62 - 1, two62, two62 + 1, maxI - 2, maxI - 1, maxI}
	for _, d := range edges {
		a, _ := lib.Ints(c.Dof("tm.sgn %d", d))
		if len(a) != 1 || a[0] != int64(big.NewInt(d).Sign()) {
			c.Fail("C02:sgn", "Sgn is not the sign", []string{fmt.Sprintf("tm.sgn %d", d)}, nil)
		}
		b, _ := lib.Ints(c.Dof("tm.inv %d", d))
		want := new(big.Int).Neg(big.NewInt(d))
		if d == minI {
			want = big.NewInt(maxI)
		}
		if len(b) != 1 || big.NewInt(b[0]).Cmp(want) != 0 {
			c.Fail("C02:inv", "Inv is not the (saturated) negation", []string{fmt.Sprintf("tm.inv %d", d)}, nil)
		}
	}
	midOracle := func(x, y int64) {
		op := fmt.Sprintf("tm.mid %d %d", x, y)
		a, _ := lib.Ints(c.Do(op))
		if small(x) && small(y) {
			c.Count("mid:small")
			lo, hi := x, y
			if lo > hi {
				lo, hi = hi, lo
			}
			if len(a) != 1 || bigMid(x, y).Cmp(big.NewInt(a[0])) != 0 || a[0] < lo || a[0] > hi {
				c.Fail("C02:midpoint", "Midpoint of two values below 2^62 is not the exact midpoint", []string{op}, nil)
			}
		} else {
			c.Count("mid:beyond-2^62(correspondence only)")
		}
	}
	for _, x := range edges {
		for _, y := range edges {
			midOracle(x, y)
		}
	}
	c.Comment("boundary stream: empty slices, single elements, f thresholds")
	c.Do("tm.median []")
	c.Do("tm.ftm []")
	c.Do("ms.median [] post=[]")
	c.Do("ms.ftm [] post=[]")
	for _, d := range edges {
		for _, opn := range []string{"tm.median", "tm.ftm"} {
			op := fmt.Sprintf("%s [%d]", opn, d)
			a := parseTm(c.Do(op))
			if !a.ok || a.v != d {
				c.Fail("C02:single", "result on a single value is not that value", []string{op}, nil)
			}
		}
	}
	// overflow witnesses of the Lean file, on the real code
	c.Do(fmt.Sprintf("tm.ftm [%d,%d]", maxI, minI))
	c.Do(fmt.Sprintf("tm.median [%d,%d]", maxI, minI))
	c.Do(fmt.Sprintf("tm.ftm [%d,%d]", -two62, two62))
	// the test-suite style sizes 1..8 plus the sizes at which f steps, ascending/descending
	for n := 1; n <= 40; n++ {
		asc := make([]int64, n)
		desc := make([]int64, n)
		for i := 0; i < n; i++ {
			asc[i] = int64(i*i) - 50
			desc[n-1-i] = asc[i]
		}
		for _, opn := range []string{"tm.median", "tm.ftm"} {
			a := parseTm(c.Do(opn + " " + lib.IntList(asc)))
			b := parseTm(c.Do(opn + " " + lib.IntList(desc)))
			if !a.ok || !b.ok || a.v != b.v {
				c.Fail("C02:asc-desc", "ascending and descending order give different results",
					[]string{opn + " " + lib.IntList(asc), opn + " " + lib.IntList(desc)}, nil)
			}
		}
	}

	// ---- all permutations for n <= 6
	c.Comment("all permutations, n <= 6")
	rp := r.Fork("allperms")
	bases := [][]int64{
		{7}, {1, 2}, {2, 2}, {1, 2, 3}, {5, 5, 1}, {-1, 0, 1, 2}, {3, 3, 3, 3}, {minI, 10, 20, 30}, {10, 20, 30, maxI},
		{1, 1, 2, 2, 3}, {-two62 + 1, 0, 0, 5, two62 - 1}, {1, 2, 3, 4, 5, 6}, {4, 4, 4, 9, 9, 9}, {minI, -5, -5, 0, 7, maxI},
	}
	for _, b := range bases {
		allPerms(c, rp, b, true)
	}
	nb := c.Scale(6, 60)
	for i := 0; i < nb; i++ {
		n := int(rp.Range(3, 6))
		l, _, _ := genTagged(rp, n, (n-1)/3)
		allPerms(c, rp, vals(l), true)
	}

	// ---- random structured stream
	c.Comment("random stream")
	cases := c.Scale(12000, 500000)
	rf, rm, rs := r.Fork("ftm"), r.Fork("median"), r.Fork("meas")
	for i := 0; i < cases; i++ {
		switch i % 6 {
		case 0, 1:
			ftmCase(c, rf)
		case 2:
			medianCase(c, rm)
		case 3, 4:
			measCase(c, rs, "ms.ftm")
		default:
			measCase(c, rs, "ms.median")
		}
	}
	genRounds(c, r.Fork("rounds"))
	// random scalar midpoints
	rx := r.Fork("mid")
	for i := 0; i < c.Scale(3000, 100000); i++ {
		var x, y int64
		switch rx.Intn(4) {
		case 0:
			x, y = rx.Range(-two62+1, two62-1), rx.Range(-two62+1, two62-1)
		case 1:
			x, y = rx.I64(), rx.I64()
		case 2:
			x = rx.Pick64(edges) + rx.Range(-2, 2)
			y = rx.Pick64(edges) + rx.Range(-2, 2)
		default:
			x = rx.Range(-1000, 1000)
			y = x + rx.Range(-5, 5)
		}
		midOracle(x, y)
	}
}

func main() { lib.Main(exec, gen) }
