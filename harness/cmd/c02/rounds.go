// ms.rounds: the fault-tolerant midpoint at its call site (core/sync.measureOffsetToRefClks):
// round after round the real (*ReferenceClockClient).MeasureClockOffsets fills ONE slice from
// scripted reference clocks under a deadline and measurements.FaultTolerantMidpoint combines
// (and sorts) that slice. Everything runs inside a testing/synctest bubble, so the deadline,
// the clocks' latencies and "after the round" are exact and do not depend on machine load.
//
//	ms.rounds <n> <round>;<round>;...     round = n comma-separated clock tokens
//	   v<off>  answers off before the deadline      e  fails before the deadline
//	   L<off>  answers off after the deadline        l  fails after the deadline
//	   (late clocks do not honour the context, like a blocking driver call)
//	-> ok <ftm offset>:[slice offsets after FaultTolerantMidpoint]:<w> ...   one item per round;
//	   w = 1 iff the slice was written to between the end of the round (FaultTolerantMidpoint
//	   returned) and the moment all late clocks had delivered
package main

import (
	"context"
	"fmt"
	"math/big"
	"sort"
	"strconv"
	"strings"
	"testing/synctest"
	"time"

	"example.com/scion-time/core/client"
	"example.com/scion-time/core/measurements"

	"verifharness/lib"
)

type scriptClk struct {
	i    int
	late bool
	fail bool
	off  int64
}

func (k *scriptClk) MeasureClockOffset(ctx context.Context) (time.Time, time.Duration, error) {
	if k.late {
		time.Sleep(2 * time.Second)
	} else {
		time.Sleep(time.Duration(k.i+1) * time.Millisecond)
	}
	if k.fail {
		return time.Time{}, 0, errFault
	}
	return time.Unix(1_700_000_000, int64(k.i)), time.Duration(k.off), nil
}

func parseRounds(nTok, rTok string) (int, [][]*scriptClk, bool) {
	n, err := strconv.Atoi(nTok)
	if err != nil || n < 1 || n > 64 {
		return 0, nil, false
	}
	var rounds [][]*scriptClk
	for _, rd := range strings.Split(rTok, ";") {
		toks := strings.Split(rd, ",")
		if len(toks) != n {
			return 0, nil, false
		}
		var clks []*scriptClk
		for i, t := range toks {
			k := &scriptClk{i: i}
			switch {
			case t == "e":
				k.fail = true
			case t == "l":
				k.fail, k.late = true, true
			case len(t) > 1 && (t[0] == 'v' || t[0] == 'L'):
				v, err := strconv.ParseInt(t[1:], 10, 64)
				if err != nil || t[1] == '+' {
					return 0, nil, false
				}
				k.off, k.late = v, t[0] == 'L'
			default:
				return 0, nil, false
			}
			clks = append(clks, k)
		}
		rounds = append(rounds, clks)
	}
	return n, rounds, true
}

func roundsOp(nTok, rTok string) string {
	n, rounds, ok := parseRounds(nTok, rTok)
	if !ok {
		return "bad-op"
	}
	var items []string
	synctest.Run(func() {
		ms := make([]measurements.Measurement, n) // as core/sync.Run allocates it
		var cl client.ReferenceClockClient
		for _, rd := range rounds {
			clks := make([]client.ReferenceClock, n)
			for i, k := range rd {
				clks[i] = k
			}
			ctx, cancel := context.WithTimeout(context.Background(), time.Second)
			cl.MeasureClockOffsets(ctx, clks, ms)
			m := measurements.FaultTolerantMidpoint(ms)
			cancel()
			snap := append([]measurements.Measurement(nil), ms...)
			// the late clocks deliver, every goroutine of the round comes to rest
			time.Sleep(3 * time.Second)
			synctest.Wait()
			w := 0
			offs := make([]int64, n)
			for i := range ms {
				offs[i] = int64(snap[i].Offset)
				if ms[i] != snap[i] {
					w = 1
				}
			}
			items = append(items, fmt.Sprintf("%d:%s:%d", int64(m.Offset), fmtI64s(offs), w))
			if w == 1 {
				break // the slice no longer is what FaultTolerantMidpoint left behind
			}
		}
	})
	return "ok " + strings.Join(items, " ")
}

func fmtI64s(xs []int64) string {
	var sb strings.Builder
	sb.WriteByte('[')
	for i, x := range xs {
		if i > 0 {
			sb.WriteByte(',')
		}
		sb.WriteString(strconv.FormatInt(x, 10))
	}
	sb.WriteByte(']')
	return sb.String()
}

// genRounds: histories of 2..6 rounds over 1..7 clocks; per round every clock answers in
// time, fails in time, answers late or fails late; a third of the clocks may be "faulty"
// (values far away). Oracles on the implementation's own answer:
//   - nothing writes to the caller's slice once the round is over (w = 0): afterwards the slice
//     is the sorted permutation FaultTolerantMidpoint left behind;
//   - the slice a round combines consists of this round's timely results and, behind them,
//     entries the previous FaultTolerantMidpoint left at those positions - as a multiset
//     (the combination only reorders), and the offset is the exact midpoint of the two
//     entries at f and n-1-f of the sorted slice.
func genRounds(c *lib.Ctx, r *lib.Rand) {
	c.Comment("rounds: MeasureClockOffsets + FaultTolerantMidpoint on one slice, late clocks")
	nh := c.Scale(400, 6000)
	for h := 0; h < nh; h++ {
		n := 1 + r.Intn(7)
		if h%5 == 0 {
			n = 4
		}
		nr := 2 + r.Intn(5)
		pLate, pFail := int(r.Range(5, 45)), int(r.Range(0, 35))
		used := map[int64]bool{0: true}
		val := func(faulty bool) int64 {
			for {
				v := r.Range(-1000, 1000)
				if faulty {
					v = r.Range(-1_000_000_000_000, 1_000_000_000_000)
				}
				if !used[v] {
					used[v] = true
					return v
				}
			}
		}
		var rds []string
		var timely [][]int64
		for k := 0; k < nr; k++ {
			var toks []string
			var tv []int64
			for i := 0; i < n; i++ {
				faulty := i >= n-(n-1)/3
				late, fail := r.Chance(pLate), r.Chance(pFail)
				if k == 0 && h%3 != 0 {
					late, fail = false, false // usually everybody answers in the first round
				}
				switch {
				case late && fail:
					toks = append(toks, "l")
				case fail:
					toks = append(toks, "e")
				case late:
					toks = append(toks, fmt.Sprintf("L%d", val(faulty)))
					c.Count("rounds:late-success")
				default:
					v := val(faulty)
					toks = append(toks, fmt.Sprintf("v%d", v))
					tv = append(tv, v)
				}
			}
			rds = append(rds, strings.Join(toks, ","))
			timely = append(timely, tv)
		}
		op := fmt.Sprintf("ms.rounds %d %s", n, strings.Join(rds, ";"))
		ans := c.Do(op)
		c.Count("rounds:histories")
		f := strings.Fields(ans)
		if len(f) < 2 || f[0] != "ok" {
			c.Fail("C02:rounds:not-ok", "rounds of MeasureClockOffsets + FaultTolerantMidpoint did not complete", []string{op}, map[string]any{"answer": ans})
			continue
		}
		prev := make([]int64, n)
		for k, it := range f[1:] {
			p := strings.Split(it, ":")
			if len(p) != 3 {
				c.Fail("C02:rounds:not-ok", "malformed answer", []string{op}, map[string]any{"answer": ans})
				break
			}
			post, ok := lib.Ints("ok " + strings.NewReplacer("[", "", "]", "", ",", " ").Replace(p[1]))
			v, err := strconv.ParseInt(p[0], 10, 64)
			if !ok || err != nil || len(post) != n {
				c.Fail("C02:rounds:not-ok", "malformed answer", []string{op}, map[string]any{"answer": ans})
				break
			}
			c.Count("rounds:rounds")
			if p[2] != "0" {
				c.Fail("C02:rounds:slice-written-after-round",
					"the caller's slice was written to after MeasureClockOffsets had returned and FaultTolerantMidpoint had sorted it: the next combination does not work on the slice the previous one left behind",
					[]string{op}, map[string]any{"round": k, "answer": ans})
				break
			}
			j := len(timely[k])
			want := append(append([]int64{}, timely[k]...), prev[j:]...)
			sort.Slice(want, func(a, b int) bool { return want[a] < want[b] })
			if !eq64(want, post) {
				c.Fail("C02:rounds:slice-content",
					"the slice a round combines is not this round's timely results followed by what the previous round left behind (as a sorted multiset)",
					[]string{op}, map[string]any{"round": k, "want": want, "got": post})
				break
			}
			fl := (n - 1) / 3
			if bigMid(post[fl], post[n-1-fl]).Cmp(big.NewInt(v)) != 0 {
				c.Fail("C02:rounds:ftm-value", "combined offset is not the midpoint of the entries at f and n-1-f of the sorted slice",
					[]string{op}, map[string]any{"round": k, "got": v, "post": post})
				break
			}
			prev = post
		}
	}
}
