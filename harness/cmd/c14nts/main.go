// c14nts: NTS extension-field and cookie codecs (C14 fragment): byte-exact correspondence of the
// encoders, round trips with kind preservation and 4-byte alignment, and a malformed stream
// through the decoders (every outcome a value, an error, or `panic <class>` / `hang`).
package main

import (
	"bytes"
	"fmt"

	"verifharness/cmd/c10/ntsx"
	"verifharness/lib"
)

func pad4(n int) int { return (n + 3) &^ 3 }

func padded(b []byte) []byte {
	return append(append([]byte(nil), b...), make([]byte, pad4(len(b))-len(b))...)
}

func cookieRoundTrips(c *lib.Ctx) {
	r := c.Rand.Fork("cookie")
	lens := []int{0, 1, 2, 15, 16, 31, 32, 33, 64, 100}
	n := c.Scale(300, 5000)
	for i := 0; i < n; i++ {
		algo := int(r.Pick64([]int64{0, 1, 15, 255, 256, 257, 0x101, 0x201, 0x301, 0x401, 0x7fff, 0xffff, r.Range(0, 65535)}))
		x := r.Bytes(lens[r.Intn(len(lens))])
		y := r.Bytes(lens[r.Intn(len(lens))])
		if i%50 == 0 {
			x = r.Bytes(int(r.Range(0, 700)))
		}
		for _, kind := range []string{"sc", "ec"} {
			op := fmt.Sprintf("%s.enc %d %s %s", kind, algo, lib.Hex(x), lib.Hex(y))
			enc, ok := ntsx.OkHex(ntsx.Do(c, op))
			if !ok {
				c.Fail("codec:"+kind+".enc", "encode failed", []string{op}, nil)
				continue
			}
			c.Count(kind + ":roundtrip")
			op2 := fmt.Sprintf("%s.dec %s", kind, lib.Hex(enc))
			want := fmt.Sprintf("ok %d %s %s", algo, lib.Hex(x), lib.Hex(y))
			if got := ntsx.Do(c, op2); got != want {
				c.Fail("codec:"+kind+".roundtrip", "decode(encode(c)) != c", []string{op, op2}, map[string]any{"got": got, "want": want})
			}
			if i < c.Scale(12, 60) {
				for _, m := range ntsx.TLVMutants(enc, r) {
					c.Count(kind + ":malformed")
					opm := fmt.Sprintf("%s.dec %s", kind, lib.Hex(m.B))
					ntsx.NoCrash(c, opm, ntsx.Do(c, opm), kind+" Decode on malformed cookie ("+m.Kind+")")
				}
			}
		}
	}
	// 16-bit field exhaustively (algorithm / key id)
	for v := 0; v < 65536; v += c.Scale(257, 1) {
		op := fmt.Sprintf("sc.enc %d 00 01", v)
		enc, _ := ntsx.OkHex(ntsx.Do(c, op))
		op2 := "sc.dec " + lib.Hex(enc)
		if got := ntsx.Do(c, op2); got != fmt.Sprintf("ok %d 00 01", v) {
			c.Fail("codec:sc.roundtrip", "decode(encode(c)) != c", []string{op, op2}, map[string]any{"got": got})
		}
		c.Count("sc:algo16")
	}
}

func extRoundTrips(c *lib.Ctx) {
	r := c.Rand.Fork("ext")
	n := c.Scale(150, 3000)
	for i := 0; i < n; i++ {
		aligned := r.Chance(70)
		rl := func(lo, hi int64) int {
			v := int(r.Range(lo, hi))
			if aligned {
				v = pad4(v)
			}
			return v
		}
		uid := r.Bytes(rl(32, 64))
		var cs, phs [][]byte
		for j := r.Intn(4); j > 0; j-- {
			cs = append(cs, r.Bytes(rl(0, 160)))
		}
		for j := r.Intn(4); j > 0; j-- {
			phs = append(phs, make([]byte, rl(0, 160)))
		}
		var pt []byte
		if r.Chance(30) {
			pt = r.Bytes(rl(0, 200))
		}
		key := r.Bytes(32)
		op := fmt.Sprintf("nts.enc %s %s %s %s %s %s rand=%s", lib.Hex(ntsx.Header(r)), lib.Hex(uid), ntsx.HexList(cs), ntsx.HexList(phs),
			lib.Hex(key), lib.Hex(pt), lib.Hex(r.Bytes(16)))
		ans := ntsx.Do(c, op)
		// The round-trip clause is about packets that fit into nts.MaxPacketLen (1024): the callers
		// bound the number of cookies accordingly (fix 54b0790); EncodePacket itself cuts an
		// authenticator that does not fit (copy into the fixed buffer). Three large cookies, three
		// large placeholders and a large plaintext can exceed the bound: such an op stays in the
		// correspondence (model and code must agree on the bytes) but is no input of the oracle.
		need := 48 + 4 + pad4(len(uid)) + 4 + 4 + 16 + pad4(len(pt)+16)
		for _, x := range cs {
			need += 4 + pad4(len(x))
		}
		for _, x := range phs {
			need += 4 + pad4(len(x))
		}
		if need > 1024 {
			c.Count("ext:does-not-fit")
			continue
		}
		enc, ok := ntsx.OkHex(ans)
		if !ok {
			c.Fail("codec:nts.enc", "encoding a small packet failed: "+ans, []string{op}, nil)
			continue
		}
		c.Count("ext:roundtrip")
		// wire oracle: kinds in order, lengths multiples of 4
		fs := ntsx.Walk(enc)
		var want []int
		want = append(want, 0x104)
		for range cs {
			want = append(want, 0x204)
		}
		for range phs {
			want = append(want, 0x304)
		}
		want = append(want, 0x404)
		okKinds := len(fs) == len(want)
		end := 48
		for j, f := range fs {
			if okKinds && f.Type != want[j] {
				okKinds = false
			}
			if f.Len%4 != 0 {
				c.Fail("codec:alignment", "extension field length not a multiple of 4", []string{op}, map[string]any{"field": j, "len": f.Len})
			}
			end = f.Off + f.Len
		}
		if !okKinds {
			var got []int
			for _, f := range fs {
				got = append(got, f.Type)
			}
			c.Fail("codec:ext-kind-wire", "extension field kinds on the wire differ from the kinds encoded", []string{op}, map[string]any{"got": fmt.Sprint(got), "want": fmt.Sprint(want)})
		}
		if end != len(enc) || len(enc)%4 != 0 {
			c.Fail("codec:alignment", "packet length / field walk inconsistent", []string{op}, map[string]any{"end": end, "len": len(enc)})
		}
		// decode oracle
		op2 := "nts.dec " + lib.Hex(enc)
		dec := ntsx.Do(c, op2)
		if !ntsx.IsOK(dec) {
			c.Fail("codec:nts.dec", "decoding an encoded packet failed: "+dec, []string{op, op2}, nil)
			continue
		}
		good := bytes.Equal(ntsx.ParseHex(ntsx.Field(dec, "uid")), padded(uid))
		dcs := ntsx.ParseHexList(ntsx.Field(dec, "cookies"))
		good = good && len(dcs) == len(cs)
		for j := range cs {
			good = good && j < len(dcs) && bytes.Equal(dcs[j], padded(cs[j]))
		}
		good = good && ntsx.Field(dec, "nph") == fmt.Sprint(len(phs))
		if !good {
			c.Fail("codec:ext-kind", "decoded packet differs in kind or value from the encoded one", []string{op, op2},
				map[string]any{"decoded": dec, "cookies": len(cs), "placeholders": len(phs)})
		}
		if i < c.Scale(6, 40) {
			for _, m := range ntsx.FieldMutants(enc, r) {
				c.Count("ext:malformed")
				opm := "nts.dec " + lib.Hex(m.B)
				ntsx.NoCrash(c, opm, ntsx.Do(c, opm), "DecodePacket on malformed packet ("+m.Kind+")")
			}
		}
	}
}

func gen(c *lib.Ctx) {
	cookieRoundTrips(c)
	extRoundTrips(c)
	// random garbage after a valid header
	r := c.Rand.Fork("garbage")
	for i := 0; i < c.Scale(200, 5000); i++ {
		b := append(ntsx.Header(r), r.Bytes(int(r.Range(0, 120)))...)
		if r.Chance(50) && len(b) >= 52 { // plausible first header
			copy(b[48:], []byte{byte(1 + r.Intn(4)), 4, 0, byte(r.Intn(40))})
		}
		op := "nts.dec " + lib.Hex(b)
		ntsx.NoCrash(c, op, ntsx.Do(c, op), "DecodePacket on random bytes")
		c.Count("ext:garbage")
		g := r.Bytes(int(r.Range(0, 40)))
		for _, k := range []string{"sc.dec ", "ec.dec "} {
			op := k + lib.Hex(g)
			ntsx.NoCrash(c, op, ntsx.Do(c, op), "cookie Decode on random bytes")
		}
	}
	if ntsx.Hangs > 0 {
		c.Count("guard:killed-workers")
	}
}

func main() { ntsx.Main(gen) }
