// netns.go: isolation from other harnesses on the same machine. The parent re-executes
// itself in a private network namespace (own loopback: the fixed ports 10123 / 30041 and
// the 127.0.13.x addresses cannot collide with anything); if that is not permitted it falls
// back to the shared loopback under a machine-wide file lock.
package main

import (
	"os"
	osexec "os/exec"
	"syscall"

	"golang.org/x/sys/unix"
)

const netnsFallbackExit = 97

// isolate returns only in the process that is to run the harness.
func isolate() {
	if os.Getenv("C06TX_NETNS") == "1" {
		if err := loopbackUp(); err != nil {
			os.Exit(netnsFallbackExit)
		}
		return
	}
	if os.Getenv("C06TX_NETNS") != "0" {
		exe, err := os.Executable()
		if err == nil {
			cmd := osexec.Command(exe, os.Args[1:]...)
			cmd.Env = append(os.Environ(), "C06TX_NETNS=1")
			cmd.Stdin, cmd.Stdout, cmd.Stderr = os.Stdin, os.Stdout, os.Stderr
			cmd.SysProcAttr = &syscall.SysProcAttr{Unshareflags: syscall.CLONE_NEWNET}
			err = cmd.Run()
			if err == nil {
				os.Exit(0)
			}
			if ee, ok := err.(*osexec.ExitError); ok && ee.ExitCode() != netnsFallbackExit {
				os.Exit(ee.ExitCode())
			}
		}
	}
	// shared loopback: one c06tx run at a time on this machine
	f, err := os.OpenFile("/tmp/verif-c06tx.lock", os.O_CREATE|os.O_RDWR, 0o666)
	if err == nil {
		unix.Flock(int(f.Fd()), unix.LOCK_EX)
	}
}

func loopbackUp() error {
	fd, err := unix.Socket(unix.AF_INET, unix.SOCK_DGRAM, 0)
	if err != nil {
		return err
	}
	defer unix.Close(fd)
	ifr, err := unix.NewIfreq("lo")
	if err != nil {
		return err
	}
	if err := unix.IoctlIfreq(fd, unix.SIOCGIFFLAGS, ifr); err != nil {
		return err
	}
	ifr.SetUint16(ifr.Uint16() | unix.IFF_UP | unix.IFF_RUNNING)
	return unix.IoctlIfreq(fd, unix.SIOCSIFFLAGS, ifr)
}
