// gen.go: generators and the direct oracle of c06tx.
package main

import (
	"strconv"
	"fmt"
	"net"
	"os"
	"strings"
	"time"

	"golang.org/x/sys/unix"

	"example.com/scion-time/net/udp"

	"verifharness/lib"
)

// ---------------------------------------------------------------- udp.ReadTXTimestamp on prepared sockets

func errClass(err error) string {
	if err == nil {
		return "none"
	}
	switch err.Error() {
	case "failed to read timestamp from out of band data":
		return "notfound"
	case "failed to read out of band data":
		return "unexpected"
	}
	return "sys"
}

func fmtRtx(c *net.UDPConn) string {
	t, id, err := udp.ReadTXTimestamp(c)
	z := 0
	if t.IsZero() {
		z = 1
	}
	return fmt.Sprintf("ok zero=%d id=%d err=%s", z, id, errClass(err))
}

func sinkAddr() (*net.UDPConn, *net.UDPAddr, error) {
	s, err := net.ListenUDP("udp4", &net.UDPAddr{IP: net.ParseIP("127.0.0.1")})
	if err != nil {
		return nil, nil, err
	}
	return s, s.LocalAddr().(*net.UDPAddr), nil
}

func setsockopt(c *net.UDPConn, level, opt, val int) error {
	sc, err := c.SyscallConn()
	if err != nil {
		return err
	}
	var e error
	sc.Control(func(fd uintptr) { e = unix.SetsockoptInt(int(fd), level, opt, val) })
	return e
}

func execRtx(toks []string) string {
	if len(toks) < 1 {
		return "bad-op"
	}
	c, err := net.ListenUDP("udp4", &net.UDPAddr{IP: net.ParseIP("127.0.0.1")})
	if err != nil {
		return "sandbox " + err.Error()
	}
	defer c.Close()
	sink, sa, err := sinkAddr()
	if err != nil {
		return "sandbox " + err.Error()
	}
	defer sink.Close()
	switch toks[0] {
	case "closed":
		if len(toks) != 1 {
			return "bad-op"
		}
		c.Close()
		return fmtRtx(c)
	case "empty":
		if len(toks) != 1 {
			return "bad-op"
		}
		if err := udp.EnableTimestamping(c, ""); err != nil {
			return "sandbox " + err.Error()
		}
		return fmtRtx(c)
	case "stamp":
		if len(toks) != 2 {
			return "bad-op"
		}
		v, ok := kvTok(toks[1:], "id")
		var k int
		if _, err := fmt.Sscanf(v, "%d", &k); !ok || err != nil || k < 0 || k > 1000 || fmt.Sprint(k) != v {
			return "bad-op"
		}
		if err := udp.EnableTimestamping(c, ""); err != nil {
			return "sandbox " + err.Error()
		}
		for i := 0; i <= k; i++ {
			if _, err := c.WriteToUDP([]byte{byte(i)}, sa); err != nil {
				return "sandbox " + err.Error()
			}
			if i < k {
				if _, _, err := udp.ReadTXTimestamp(c); err != nil {
					return "sandbox no software tx timestamp: " + err.Error()
				}
			}
		}
		return fmtRtx(c)
	case "icmp":
		if len(toks) != 1 {
			return "bad-op"
		}
		if err := setsockopt(c, unix.SOL_IP, unix.IP_RECVERR, 1); err != nil {
			return "sandbox " + err.Error()
		}
		closed := *sa
		sink.Close() // nobody listens there any more: the kernel answers with ICMP port unreachable
		if _, err := c.WriteToUDP([]byte("x"), &closed); err != nil {
			return "sandbox " + err.Error()
		}
		time.Sleep(20 * time.Millisecond)
		return fmtRtx(c)
	case "payload":
		if len(toks) != 1 {
			return "bad-op"
		}
		flags := unix.SOF_TIMESTAMPING_OPT_ID | unix.SOF_TIMESTAMPING_SOFTWARE | unix.SOF_TIMESTAMPING_TX_SOFTWARE
		if err := setsockopt(c, unix.SOL_SOCKET, unix.SO_TIMESTAMPING_NEW, flags); err != nil {
			return "sandbox " + err.Error()
		}
		if _, err := c.WriteToUDP([]byte("payload"), sa); err != nil {
			return "sandbox " + err.Error()
		}
		return fmtRtx(c)
	}
	return "bad-op"
}

// execFifo: the kernel side of the model — ids count the datagrams of the socket, the error
// queue is a FIFO.
func execFifo(toks []string) string {
	if len(toks) != 1 {
		return "bad-op"
	}
	v, ok := kvTok(toks, "n")
	var n int
	if _, err := fmt.Sscanf(v, "%d", &n); !ok || err != nil || n < 0 || n > 64 || fmt.Sprint(n) != v {
		return "bad-op"
	}
	c, err := net.ListenUDP("udp4", &net.UDPAddr{IP: net.ParseIP("127.0.0.1")})
	if err != nil {
		return "sandbox " + err.Error()
	}
	defer c.Close()
	sink, sa, err := sinkAddr()
	if err != nil {
		return "sandbox " + err.Error()
	}
	defer sink.Close()
	if err := udp.EnableTimestamping(c, ""); err != nil {
		return "sandbox " + err.Error()
	}
	var before, after []time.Time
	for i := 0; i < n; i++ {
		before = append(before, time.Now())
		if _, err := c.WriteToUDP([]byte{byte(i)}, sa); err != nil {
			return "sandbox " + err.Error()
		}
		after = append(after, time.Now())
	}
	ids := []int64{}
	then := "?"
	for i := 0; i <= n; i++ {
		t, id, err := udp.ReadTXTimestamp(c)
		if err != nil {
			then = errClass(err)
			break
		}
		if i < n && (t.Before(before[i].Add(-slack)) || t.After(after[i].Add(slack))) {
			return fmt.Sprintf("ok stamp %d outside its send window", i)
		}
		ids = append(ids, int64(id))
	}
	return fmt.Sprintf("ok ids=%s then=%s", lib.IntList(ids), then)
}

// ---------------------------------------------------------------- expectations independent of the model

// expectKinds: which replies are basic and which interleaved when every transmit timestamp is
// delivered in time (sw) or none ever is (none): a small bookkeeping of "which exchanges of
// which client are on record" (histories are short: never more than 7 exchanges per client).
func expectKinds(reg string, idents []int, evs []event) string {
	k, _ := expectKindsRec(reg, idents, evs)
	return k
}

// expectKindsRec: the same, and which exchanges of the history are on record at its end
// (1 / 0 per NTP event, - for the others)
func expectKindsRec(reg string, idents []int, evs []event) (string, string) {
	rec := map[int]map[int]bool{} // client identity -> events on record
	out := make([]byte, len(evs))
	for j, e := range evs {
		switch e.letter {
		case 'o':
			out[j] = '-'
			reg = "none" // no kernel timestamps from here on
		case 'e', 't', 'f':
			out[j] = e.letter
		case 'x', 'r', 'w':
			// r, w: handled and recorded, but nothing is sent: never on record afterwards
			out[j] = '-'
		case 'n', 'q':
			id := idents[e.src]
			if rec[id] == nil {
				rec[id] = map[int]bool{}
			}
			out[j] = 'b'
			if e.ref >= 0 && rec[id][e.ref] {
				if e.letter == 'n' {
					out[j] = 'i'
				}
				// the quoted exchange is replaced by this one (also when rx = tx made the reply basic)
				delete(rec[id], e.ref)
			}
			if reg == "sw" {
				rec[id][j] = true
			}
		}
	}
	onrec := make([]byte, len(evs))
	for j, e := range evs {
		switch {
		case e.letter != 'n' && e.letter != 'q' && e.letter != 'r' && e.letter != 'w':
			onrec[j] = '-'
		case rec[idents[e.src]][j]:
			onrec[j] = '1'
		default:
			onrec[j] = '0'
		}
	}
	return string(out), string(onrec)
}

// ---------------------------------------------------------------- generation

type hist struct {
	kind, reg string
	idents    []int
	sks       []int
	evs       []string
	kbs       []string
}

func (h hist) op() string {
	d := func(xs []int) string {
		var sb strings.Builder
		for _, x := range xs {
			sb.WriteByte(byte('0' + x))
		}
		return sb.String()
	}
	return fmt.Sprintf("tx.hist l=%s reg=%s id=%s sk=%s kb=%s ev=%s", h.kind, h.reg, d(h.idents), d(h.sks),
		strings.Join(h.kbs, "."), strings.Join(h.evs, ","))
}

type genState struct {
	c        *lib.Ctx
	failures map[childCfg]int
	skipped  map[childCfg]bool
	lateOff  bool
}

func (g *genState) kbFor(r *lib.Rand, reg string, n int) []string {
	kbs := make([]string, n)
	for i := range kbs {
		switch reg {
		case "sw":
			kbs[i] = "i"
		case "none":
			kbs[i] = "n"
		default:
			switch r.Intn(4) {
			case 0:
				kbs[i] = "i"
			case 1:
				kbs[i] = "n"
			default:
				kbs[i] = fmt.Sprintf("l%d", r.Intn(3))
			}
		}
	}
	return kbs
}

// randomHist: a mostly-valid history over nsrc source sockets
func (g *genState) randomHist(r *lib.Rand, kind, reg string, n int) hist {
	nsrc := 1 + r.Intn(4)
	h := hist{kind: kind, reg: reg}
	nid := 1 + r.Intn(3)
	for s := 0; s < 10; s++ {
		h.idents = append(h.idents, r.Intn(nid))
		if s < 8 {
			h.sks = append(h.sks, r.Intn(8))
		} else {
			h.sks = append(h.sks, 8+r.Intn(2))
		}
	}
	perIdent := map[int]int{}
	var ntpEv []int // indices of NTP events
	for j := 0; j < n; j++ {
		src := r.Intn(nsrc)
		if kind == "scion" && r.Chance(15) {
			src = 8 + r.Intn(2)
		}
		id := h.idents[src]
		x := r.Intn(100)
		switch {
		case kind == "scion" && x < 18:
			h.evs = append(h.evs, fmt.Sprintf("e%d", src))
			g.c.Count("ev:scmp-echo")
		case kind == "scion" && x < 24:
			h.evs = append(h.evs, fmt.Sprintf("t%d", src))
			g.c.Count("ev:scmp-traceroute")
		case kind == "scion" && x < 32 && src >= 8:
			h.evs = append(h.evs, fmt.Sprintf("f%d", src))
			g.c.Count("ev:forward")
		case kind == "scion" && x >= 36 && x < 46 && src < 8 && perIdent[id] < 7:
			// a valid request over a path that cannot be reversed: handled, recorded, nothing sent
			perIdent[id]++
			h.evs = append(h.evs, fmt.Sprintf("r%d", src))
			g.c.Count("ev:ntp-unsent-irreversible-path")
			ntpEv = append(ntpEv, j)
		case x >= 46 && x < 54 && src < 8 && perIdent[id] < 7:
			// a valid request from UDP source port 0: handled, recorded, the write of the reply fails
			perIdent[id]++
			h.evs = append(h.evs, fmt.Sprintf("w%d", src))
			g.c.Count("ev:ntp-unsent-write-error")
			ntpEv = append(ntpEv, j)
		case x < 36:
			h.evs = append(h.evs, fmt.Sprintf("x%d", src))
			g.c.Count("ev:dropped-datagram")
		default:
			if perIdent[id] >= 7 {
				h.evs = append(h.evs, fmt.Sprintf("x%d", src))
				continue
			}
			perIdent[id]++
			// which earlier exchange to quote: mostly the latest of this client
			var own, foreign []int
			for _, k := range ntpEv {
				var ks int
				fmt.Sscanf(h.evs[k][1:], "%d", &ks)
				if h.idents[ks] == id {
					own = append(own, k)
				} else {
					foreign = append(foreign, k)
				}
			}
			y := r.Intn(100)
			switch {
			case len(own) > 0 && y < 60:
				h.evs = append(h.evs, fmt.Sprintf("n%d:%d", src, own[len(own)-1]))
				g.c.Count("ev:ntp-interleaved-form:latest-own")
			case len(own) > 1 && y < 72:
				h.evs = append(h.evs, fmt.Sprintf("n%d:%d", src, own[r.Intn(len(own))]))
				g.c.Count("ev:ntp-interleaved-form:older-own")
			case len(foreign) > 0 && y < 80:
				h.evs = append(h.evs, fmt.Sprintf("n%d:%d", src, foreign[r.Intn(len(foreign))]))
				g.c.Count("ev:ntp-interleaved-form:other-client")
			case len(own) > 0 && y < 86:
				h.evs = append(h.evs, fmt.Sprintf("q%d:%d", src, own[len(own)-1]))
				g.c.Count("ev:ntp-rx-eq-tx")
			default:
				h.evs = append(h.evs, fmt.Sprintf("n%d:b", src))
				g.c.Count("ev:ntp-basic-form")
			}
			ntpEv = append(ntpEv, j)
		}
	}
	h.kbs = g.kbFor(r, reg, len(h.evs))
	return h
}

func fixedHist(kind, reg string, idents string, evs string) hist {
	h := hist{kind: kind, reg: reg}
	for s := 0; s < 10; s++ {
		id := 0
		if s < len(idents) {
			id = int(idents[s] - '0')
		}
		h.idents = append(h.idents, id)
		if s < 8 {
			h.sks = append(h.sks, s%3)
		} else {
			h.sks = append(h.sks, s)
		}
	}
	h.evs = strings.Split(evs, ",")
	return h
}

// run executes one history, evaluates the direct oracle and reports failures (after a
// confirmation run of the same op on a fresh listener: an alarm must be reproducible).
func (g *genState) run(h hist) {
	cfg := childCfg{h.kind, h.reg}
	if g.skipped[cfg] || (h.reg == "late" && g.lateOff) {
		return
	}
	op := h.op()
	ans := lib.Try(func() string { return exec(strings.Fields(op)) })
	if strings.HasPrefix(ans, "sandbox") {
		if h.reg == "late" {
			g.lateOff = true
		} else {
			g.skipped[cfg] = true
		}
		g.c.NotExecuted(fmt.Sprintf("%s/%s: %s", h.kind, h.reg, ans))
		return
	}
	obs := last
	sig, what := g.judge(h, ans, obs)
	if sig != "" {
		// confirm in isolation: fresh listener process, fresh sockets, nothing else running here
		restartChild(cfg)
		time.Sleep(50 * time.Millisecond)
		ans2 := lib.Try(func() string { return exec(strings.Fields(op)) })
		sig2, what2 := g.judge(h, ans2, last)
		if sig2 == "" {
			g.c.Count("alarm-not-reproduced")
			ans, obs = ans2, last
			sig = ""
		} else {
			sig, what, ans, obs = sig2, what2, ans2, last
		}
	}
	g.c.Emit(op, ans)
	g.c.Count("hist:" + h.kind + ":" + h.reg)
	if obs != nil {
		for _, o := range obs.obs {
			g.c.Count("reply:" + h.reg + ":" + string(o.kind))
		}
	}
	if sig != "" {
		detail := map[string]any{"answer": ans, "confirmed_on_fresh_listener": true}
		if obs != nil {
			detail["why"] = obs.badWhy
			detail["expected_kinds"] = expectKinds(h.reg, h.idents, obs.evs)
		}
		g.c.Fail(sig, what, []string{op}, detail)
		g.failures[cfg]++
		restartChild(cfg) // a damaged listener must not spoil the following histories
		if g.failures[cfg] >= 2 {
			g.skipped[cfg] = true
			g.c.NotExecuted(fmt.Sprintf("%s/%s: rest of the stream skipped after 2 failing histories", h.kind, h.reg))
		}
	}
}

func (g *genState) judge(h hist, ans string, obs *histObs) (sig, what string) {
	if strings.HasPrefix(ans, "panic") || obs == nil {
		return "C06:tx:harness", "harness could not run the history: " + ans
	}
	kinds := make([]byte, len(obs.obs))
	for i, o := range obs.obs {
		kinds[i] = o.kind
	}
	ks := string(kinds)
	if strings.IndexByte(ks, '?') >= 0 {
		return "C09:tx:unexpected-datagram", "a datagram that is no reply to the event came back (kinds " + ks + ")"
	}
	if obs.bad > 0 {
		w := obs.badWhy[0]
		s := "C06:tx:" + strings.SplitN(strings.SplitN(w, ": ", 2)[1], ":", 2)[0]
		return s, w
	}
	// the answered part of the history first (a listener that hangs is reported below)
	upto := len(ks)
	if i := strings.IndexByte(ks, 'u'); i >= 0 {
		upto = i
	}
	if h.reg != "late" {
		want, wantRec := expectKindsRec(h.reg, h.idents, obs.evs)
		if upto == len(ks) && ks == want && obs.rec != wantRec && !tainted[obs.cfg] {
			return "C06:tx:record", fmt.Sprintf("exchanges on record at the end of the history: %s, expected %s (1 = the exchange of that event is on record: its reply was sent and its kernel transmit timestamp was read)", obs.rec, wantRec)
		}
		for i := 0; i < upto; i++ {
			if ks[i] != want[i] {
				if h.reg == "none" && ks[i] == 'i' {
					return "C06:tx:lost-stamp-exchange-served", fmt.Sprintf("no transmit timestamp can be read in this regime, yet event %d was answered in interleaved mode from the record of event %d (kinds %s, expected %s)", i, obs.evs[i].ref, ks, want)
				}
				if ks[i] == 'b' && want[i] == 'i' {
					return "C06:tx:interleaved-expected", fmt.Sprintf("event %d quotes event %d of the same client, whose transmit timestamp was delivered: expected an interleaved reply (kinds %s, expected %s)", i, obs.evs[i].ref, ks, want)
				}
				return "C06:tx:kinds", fmt.Sprintf("event %d: kinds %s, expected %s", i, ks, want)
			}
		}
	} else {
		// whatever the kernel does: a request with rx = tx or quoting another client's exchange is
		// answered in basic mode
		for i, e := range obs.evs[:upto] {
			if ks[i] == 'i' && (e.letter == 'q' || e.ref < 0 || h.idents[obs.evs[e.ref].src] != h.idents[e.src]) {
				return "C06:tx:kinds", fmt.Sprintf("event %d must be answered in basic mode (kinds %s)", i, ks)
			}
		}
	}
	if upto < len(ks) {
		return "C09:tx:valid-request-unanswered", fmt.Sprintf("event %d (%c) of the history got no reply within %v (kinds %s): the listener stopped answering", upto, obs.evs[upto].letter, replyTimeout, ks)
	}
	return "", ""
}

func gen(c *lib.Ctx) {
	g := &genState{c: c, failures: map[childCfg]int{}, skipped: map[childCfg]bool{}}
	part := os.Getenv("C06TX_PART") // "" = everything; "c09" = the liveness histories only
	// ---- udp.ReadTXTimestamp and the kernel model
	if part == "" {
		for _, op := range []string{"udp.rtx closed", "udp.rtx empty", "udp.rtx stamp id=0", "udp.rtx stamp id=1", "udp.rtx stamp id=5",
			fmt.Sprintf("udp.rtx stamp id=%d", 2+c.Rand.Intn(40)), "udp.rtx icmp", "udp.rtx payload",
			"sock.fifo n=0", "sock.fifo n=1", "sock.fifo n=2", "sock.fifo n=9", fmt.Sprintf("sock.fifo n=%d", 3+c.Rand.Intn(30))} {
			ans := lib.Try(func() string { return exec(strings.Fields(op)) })
			if strings.HasPrefix(ans, "sandbox") {
				c.NotExecuted(op + ": " + ans)
				continue
			}
			c.Emit(op, ans)
			c.Count("op:" + strings.Fields(op)[0])
			if strings.Contains(op, "stamp id=") && !strings.Contains(ans, "zero=0") {
				c.Fail("C06:tx:readtx-stamp", "ReadTXTimestamp did not return the queued transmit timestamp", []string{op}, map[string]any{"answer": ans})
			}
			if op == "udp.rtx empty" && ans != "ok zero=1 id=0 err=notfound" {
				c.Fail("C06:tx:readtx-empty-queue", "ReadTXTimestamp on an empty error queue must give up with errTimestampNotFound", []string{op}, map[string]any{"answer": ans})
			}
		}
	}
	kinds := []string{"ip", "scion"}
	regs := []string{"sw", "none", "late"}
	if os.Getenv("C06TX_NETNS") != "1" {
		g.lateOff = true
		c.NotExecuted("late regime: needs the private network namespace (token bucket on lo)")
	}
	// ---- corpus: the shapes every regime must get right
	corpus := []struct{ kind, idents, evs string }{
		{"ip", "0", "n0:b,n0:0,n0:1,n0:2"},
		{"ip", "0", "n0:b,n0:b,n0:1,n0:0,n0:3"},
		{"ip", "01", "n0:b,n1:b,n0:0,n1:1,n1:0,n0:2"},
		{"ip", "00", "n0:b,n1:0,n0:1,n1:2"},
		{"ip", "0", "x0,n0:b,x0,n0:1,q0:3,n0:3"},
		{"ip", "012", "n0:b,n1:b,n2:b,n2:2,n1:1,n0:0,n0:5,n1:4,n2:3"},
		{"scion", "0", "n0:b,n0:0,n0:1"},
		{"scion", "0", "e0,n0:b,n0:1,n0:2"},
		{"scion", "0", "n0:b,e0,n0:0,t0,n0:2,e0,e0,n0:4"},
		{"scion", "01", "e1,n0:b,e1,n0:1,t1,n1:b,n0:3,n1:5"},
		{"scion", "000000000", "n8:b,f8,n8:0,f8,f8,n8:2,e8,n8:5"},
		{"scion", "01", "x0,n0:b,x0,e0,n0:1,q0:4,n1:4,n0:4"},
		// recorded by handleRequest, then nothing sent (irreversible path); later requests quote it
		{"scion", "0", "r0,n0:0"},
		{"scion", "0", "n0:b,r0,n0:1,n0:0,n0:3"},
		{"scion", "01", "n0:b,r1,n1:1,r0,n0:3,n0:0,q1:1"},
		{"scion", "0", "n0:b,n0:0,r0,e0,q0:2,n0:2,n0:1"},
		// the same through a failing write: request from UDP source port 0
		{"ip", "0", "w0,n0:0"},
		{"ip", "0", "n0:b,w0,n0:1,n0:0,n0:3"},
		{"ip", "01", "n0:b,w1,n1:1,w0,n0:3,n0:0,q1:1"},
		{"scion", "0", "w0,n0:0"},
		{"scion", "01", "n0:b,w1,r0,n1:1,n0:2,n0:0"},
	}
	for _, reg := range regs {
		for _, k := range corpus {
			if part == "c09" && reg == "sw" {
				continue
			}
			h := fixedHist(k.kind, reg, k.idents, k.evs)
			h.kbs = g.kbFor(c.Rand.Fork(reg+k.evs), reg, len(h.evs))
			g.run(h)
		}
	}
	// ---- the listener's sockets stop stamping in the middle of a history (event o): datagrams
	// without a receive-timestamp control message after datagrams that had one, transmit
	// timestamps that never come after ones that came
	if part == "" {
		for _, kind := range kinds {
			r := c.Rand.Fork("tsoff" + kind)
			for i := 0; i < c.Scale(5, 40); i++ {
				pre := g.randomHist(r, kind, "sw", 1+r.Intn(5))
				h := pre
				h.evs = append(append([]string{}, pre.evs...), fmt.Sprintf("o%d", r.Intn(2)))
				h.kbs = append(append([]string{}, pre.kbs...), "n")
				var ntpEv [][2]int // index, source of the NTP events so far
				for j, e := range h.evs {
					if e[0] == 'n' || e[0] == 'q' {
						s, _ := strconv.Atoi(strings.SplitN(e[1:], ":", 2)[0])
						ntpEv = append(ntpEv, [2]int{j, s})
					}
				}
				for k := 1 + r.Intn(5); k > 0; k-- {
					s := r.Intn(3)
					ev := fmt.Sprintf("n%d:b", s)
					if len(ntpEv) > 0 && r.Chance(50) {
						q := ntpEv[r.Intn(len(ntpEv))]
						s = q[1]
						ev = fmt.Sprintf("n%d:%d", s, q[0])
					}
					ntpEv = append(ntpEv, [2]int{len(h.evs), s})
					h.evs = append(h.evs, ev)
					h.kbs = append(h.kbs, "n")
				}
				g.c.Count("hist:tsoff")
				g.run(h)
			}
		}
	}
	// ---- random histories
	n := c.Scale(14, 120)
	if part == "c09" {
		n = c.Scale(6, 40)
	}
	for _, kind := range kinds {
		for _, reg := range regs {
			if part == "c09" && reg == "sw" {
				continue
			}
			r := c.Rand.Fork(kind + reg)
			m := n
			if reg == "late" {
				m = n / 2
			}
			for i := 0; i < m; i++ {
				g.run(g.randomHist(r, kind, reg, 3+r.Intn(10)))
			}
		}
	}
	setQdisc("")
}
