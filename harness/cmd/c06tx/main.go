// c06tx: how the NTP listeners obtain and record transmit timestamps (properties C06, C09,
// C03 server side). The real listeners (server.StartIPServer / server.StartSCIONServer) run in
// child processes on loopback inside a private network namespace, in three kernel regimes:
//
//	sw    software timestamping (zone ""): every transmit timestamp is on the error queue at once
//	none  zone "lo": hardware timestamping requested on an interface that has none — no
//	      transmit timestamp is ever delivered, receive timestamps fall back to the clock
//	late  software timestamping behind a token-bucket qdisc on lo: the reply leaves (and is
//	      stamped) milliseconds after the write, i.e. after the listener's 1 ms poll gave up
//
// One op (tx.hist) is one whole history of datagrams on a running listener; see
// lean/Driver/C06Tx.lean for the line protocol and the model side.
package main

import (
	"bufio"
	"context"
	"fmt"
	"io"
	"log/slog"
	"net"
	"net/netip"
	"os"
	osexec "os/exec"
	"sort"
	"strconv"
	"strings"
	"time"

	"github.com/google/gopacket"
	"github.com/scionproto/scion/pkg/addr"
	"github.com/scionproto/scion/pkg/slayers"
	"github.com/scionproto/scion/pkg/slayers/path"
	"github.com/scionproto/scion/pkg/slayers/path/empty"
	"github.com/scionproto/scion/pkg/slayers/path/onehop"
	"golang.org/x/sys/unix"

	"example.com/scion-time/core/server"
	"example.com/scion-time/core/timebase"
	"example.com/scion-time/driver/clocks"
	"example.com/scion-time/net/ntp"
	"example.com/scion-time/net/ntske"

	"verifharness/lib"
)

const (
	ipPort    = 10124
	scionPort = 10123
	endhost   = 30041
	fwdPort   = 40123
	dscp      = 46
)

var replyTimeout = 2500 * time.Millisecond

func main() {
	if os.Getenv("C06TX_CHILD") == "1" {
		childMain()
		return
	}
	isolate()
	defer killChildren()
	lib.Main(exec, gen)
	killChildren()
	setQdisc("")
}

// ---------------------------------------------------------------- child: the real listener

func childMain() {
	kind := os.Getenv("C06TX_KIND")
	zone := os.Getenv("C06TX_ZONE")
	ip := net.ParseIP(os.Getenv("C06TX_IP"))
	log := slog.New(slog.NewTextHandler(io.Discard, &slog.HandlerOptions{Level: slog.LevelError + 8}))
	ctx := context.Background()
	timebase.RegisterClock(clocks.NewSystemClock(log, clocks.UnknownDrift))
	switch kind {
	case "ip":
		server.StartIPServer(ctx, log, &net.UDPAddr{IP: ip, Port: ipPort, Zone: zone}, dscp, ntske.NewProvider())
	case "scion":
		server.StartSCIONServer(ctx, log, "", &net.UDPAddr{IP: ip, Port: scionPort, Zone: zone}, dscp, ntske.NewProvider())
	default:
		os.Exit(3)
	}
	// the listener goroutines enable timestamping on their sockets first thing
	time.Sleep(150 * time.Millisecond)
	fmt.Println("ready")
	// "snap": one line with the whole timestamp store (hook VerifC06Snapshot, taken under tssMu)
	in := bufio.NewScanner(os.Stdin)
	for in.Scan() {
		if in.Text() == "tsoff" {
			fmt.Printf("tsoff %d\n", timestampingOff())
			continue
		}
		if in.Text() != "snap" {
			continue
		}
		var sb strings.Builder
		sb.WriteString("snap")
		for _, it := range server.VerifC06Snapshot().Items {
			sb.WriteString(" " + it.Key + "=")
			for i, pr := range it.Pairs {
				if i > 0 {
					sb.WriteByte(';')
				}
				fmt.Fprintf(&sb, "%d:%d:%d:%d", pr.Rx.Seconds, pr.Rx.Fraction, pr.Tx.Seconds, pr.Tx.Fraction)
			}
		}
		fmt.Println(sb.String())
	}
	os.Exit(0)
}

// timestampingOff (child): SO_TIMESTAMPING is cleared on every listener socket of this process —
// from here on datagrams arrive without a receive-timestamp control message and no transmit
// timestamps are queued (an interface that stops stamping, a datagram that took another path).
func timestampingOff() int {
	n := 0
	ents, _ := os.ReadDir("/proc/self/fd")
	for _, e := range ents {
		fd, err := strconv.Atoi(e.Name())
		if err != nil || fd < 3 {
			continue
		}
		if t, err := unix.GetsockoptInt(fd, unix.SOL_SOCKET, unix.SO_TYPE); err != nil || t != unix.SOCK_DGRAM {
			continue
		}
		sa, err := unix.Getsockname(fd)
		if err != nil {
			continue
		}
		port := -1
		switch a := sa.(type) {
		case *unix.SockaddrInet4:
			port = a.Port
		case *unix.SockaddrInet6:
			port = a.Port
		}
		if port != ipPort && port != scionPort && port != endhost {
			continue
		}
		if unix.SetsockoptInt(fd, unix.SOL_SOCKET, unix.SO_TIMESTAMPING_NEW, 0) == nil {
			n++
		}
	}
	return n
}

// tsOff: listener children whose sockets no longer stamp (event o): replaced before the next history
var tsOff = map[childCfg]bool{}

func (c *child) timestampingOff() error {
	for len(c.lines) > 0 {
		<-c.lines
	}
	if _, err := io.WriteString(c.stdin, "tsoff\n"); err != nil {
		return err
	}
	select {
	case l := <-c.lines:
		if f := strings.Fields(l); len(f) != 2 || f[0] != "tsoff" || f[1] == "0" {
			return fmt.Errorf("unexpected answer %q", l)
		}
		return nil
	case <-c.done:
		return fmt.Errorf("listener child has exited")
	case <-time.After(5 * time.Second):
		return fmt.Errorf("no answer to tsoff request")
	}
}

// ---------------------------------------------------------------- parent: children

type childCfg struct{ kind, reg string }

func (c childCfg) ip() string {
	base := map[string]string{"ip": "127.0.21.", "scion": "127.0.22."}[c.kind]
	return base + map[string]string{"sw": "1", "none": "2", "late": "3"}[c.reg]
}

type child struct {
	cmd   *osexec.Cmd
	stdin io.WriteCloser
	done  chan struct{}
	errb  *strings.Builder
	lines chan string // stdout lines after "ready" (answers to "snap")
}

type recPair struct{ rx, tx ntp.Time64 }

// snapshot asks the listener process for its timestamp store: client key -> pairs on record
func (c *child) snapshot() (map[string][]recPair, error) {
	for len(c.lines) > 0 {
		<-c.lines
	}
	if _, err := io.WriteString(c.stdin, "snap\n"); err != nil {
		return nil, err
	}
	select {
	case l := <-c.lines:
		f := strings.Fields(l)
		if len(f) == 0 || f[0] != "snap" {
			return nil, fmt.Errorf("unexpected answer %q", l)
		}
		m := map[string][]recPair{}
		for _, t := range f[1:] {
			i := strings.LastIndexByte(t, '=')
			if i < 0 {
				return nil, fmt.Errorf("unexpected item %q", t)
			}
			key := t[:i]
			m[key] = []recPair{}
			if t[i+1:] == "" {
				continue
			}
			for _, ps := range strings.Split(t[i+1:], ";") {
				var a, b, cc, d uint32
				if _, err := fmt.Sscanf(ps, "%d:%d:%d:%d", &a, &b, &cc, &d); err != nil {
					return nil, fmt.Errorf("unexpected pair %q", ps)
				}
				m[key] = append(m[key], recPair{ntp.Time64{Seconds: a, Fraction: b}, ntp.Time64{Seconds: cc, Fraction: d}})
			}
		}
		return m, nil
	case <-c.done:
		return nil, fmt.Errorf("listener child has exited")
	case <-time.After(5 * time.Second):
		return nil, fmt.Errorf("no answer to snapshot request")
	}
}

var children = map[childCfg]*child{}

func startChild(cfg childCfg) (*child, error) {
	exe, err := os.Executable()
	if err != nil {
		return nil, err
	}
	var last error
	for attempt := 0; attempt < 4; attempt++ {
		cmd := osexec.Command(exe)
		env := []string{}
		for _, e := range os.Environ() {
			if !strings.HasPrefix(e, "C06TX_") && !strings.HasPrefix(e, "USE_MOCK_KEYS=") {
				env = append(env, e)
			}
		}
		zone := ""
		if cfg.reg == "none" {
			zone = "lo"
		}
		cmd.Env = append(env, "C06TX_CHILD=1", "C06TX_KIND="+cfg.kind, "C06TX_ZONE="+zone, "C06TX_IP="+cfg.ip())
		ch := &child{cmd: cmd, done: make(chan struct{}), errb: &strings.Builder{}, lines: make(chan string, 16)}
		ch.stdin, _ = cmd.StdinPipe()
		out, _ := cmd.StdoutPipe()
		if err := cmd.Start(); err != nil {
			return nil, err
		}
		ready := make(chan bool, 1)
		go func() {
			sc := bufio.NewScanner(out)
			sc.Buffer(make([]byte, 1<<20), 1<<26)
			ok := false
			for sc.Scan() {
				if sc.Text() == "ready" {
					ok = true
					break
				}
			}
			ready <- ok
			for ok && sc.Scan() {
				select {
				case ch.lines <- sc.Text():
				default:
				}
			}
			io.Copy(io.Discard, out)
		}()
		go func() { cmd.Wait(); close(ch.done) }()
		select {
		case ok := <-ready:
			if ok {
				return ch, nil
			}
			last = fmt.Errorf("listener child did not get ready")
		case <-time.After(15 * time.Second):
			last = fmt.Errorf("listener child start timed out")
		}
		ch.kill()
		time.Sleep(200 * time.Millisecond)
	}
	return nil, last
}

func (c *child) kill() {
	if c.stdin != nil {
		c.stdin.Close()
	}
	if c.cmd.Process != nil {
		c.cmd.Process.Kill()
	}
	select {
	case <-c.done:
	case <-time.After(3 * time.Second):
	}
}

func (c *child) alive() bool {
	select {
	case <-c.done:
		return false
	default:
		return true
	}
}

func getChild(cfg childCfg) (*child, error) {
	if c := children[cfg]; c != nil {
		if c.alive() {
			return c, nil
		}
		delete(children, cfg)
	}
	c, err := startChild(cfg)
	if err != nil {
		return nil, err
	}
	children[cfg] = c
	return c, nil
}

func restartChild(cfg childCfg) {
	if c := children[cfg]; c != nil {
		c.kill()
		delete(children, cfg)
	}
	delete(seenRx, cfg)
	delete(tainted, cfg)
	// new sockets too: a fresh listener, fresh 4-tuples
	for k, s := range srcSocks {
		if k.cfg == cfg {
			s.Close()
			delete(srcSocks, k)
		}
	}
}

func killChildren() {
	for k, c := range children {
		c.kill()
		delete(children, k)
	}
}

// ---------------------------------------------------------------- the qdisc of the late regime

var qdiscNow = ""

// setQdisc installs ("ip" / "scion") or removes ("") the token bucket on lo. Only inside the
// private network namespace: the machine's shared loopback is never touched.
func setQdisc(kind string) error {
	if qdiscNow == kind {
		return nil
	}
	if os.Getenv("C06TX_NETNS") != "1" {
		if kind == "" {
			return nil
		}
		return fmt.Errorf("no private network namespace")
	}
	if qdiscNow != "" {
		osexec.Command("tc", "qdisc", "del", "dev", "lo", "root").Run()
		qdiscNow = ""
	}
	if kind == "" {
		return nil
	}
	// 160 kbit/s = 20 bytes per millisecond; the bucket holds one datagram of the exchange and
	// a few bytes: the request drains it, the reply waits several milliseconds for its tokens
	// (SCION: a forwarded packet is 68 bytes longer — the listener adds the receive timestamp as
	// an end-to-end option — and must still fit the bucket)
	burst := map[string]string{"ip": "100", "scion": strconv.Itoa(scionDgramLen + 68 + 14 + 28 + 10)}[kind]
	out, err := osexec.Command("tc", "qdisc", "add", "dev", "lo", "root", "tbf", "rate", "160kbit", "burst", burst, "latency", "2s").CombinedOutput()
	if err != nil {
		return fmt.Errorf("tc: %v %s", err, strings.TrimSpace(string(out)))
	}
	qdiscNow = kind
	return nil
}

// ---------------------------------------------------------------- parent: sockets

type srcKey struct {
	cfg   childCfg
	src   int
	ident int
}

var srcSocks = map[srcKey]*net.UDPConn{}
var fwdSock *net.UDPConn

func srcSock(cfg childCfg, src, ident int) (*net.UDPConn, error) {
	k := srcKey{cfg, src, ident}
	if cfg.kind == "scion" {
		k.ident = 0 // the underlay socket does not depend on the SCION identity
	}
	if c := srcSocks[k]; c != nil {
		return c, nil
	}
	ip := fmt.Sprintf("127.0.21.%d", 10+ident)
	if cfg.kind == "scion" {
		ip = "127.0.22.100"
	}
	c, err := net.ListenUDP("udp4", &net.UDPAddr{IP: net.ParseIP(ip)})
	if err != nil {
		return nil, err
	}
	srcSocks[k] = c
	return c, nil
}

// sendFromPort0 sends data as a UDP datagram from (src, port 0) to dst through a raw socket: a
// datagram the listener receives like any other and cannot answer (sendmsg to port 0: EINVAL).
func sendFromPort0(src net.IP, dst *net.UDPAddr, data []byte) error {
	fd, err := unix.Socket(unix.AF_INET, unix.SOCK_RAW, unix.IPPROTO_UDP)
	if err != nil {
		return err
	}
	defer unix.Close(fd)
	var sa, da unix.SockaddrInet4
	copy(sa.Addr[:], src.To4())
	copy(da.Addr[:], dst.IP.To4())
	if err := unix.Bind(fd, &sa); err != nil {
		return err
	}
	b := make([]byte, 8+len(data))
	b[2], b[3] = byte(dst.Port>>8), byte(dst.Port)
	b[4], b[5] = byte(len(b)>>8), byte(len(b))
	copy(b[8:], data) // checksum 0: none (IPv4)
	return unix.Sendto(fd, b, 0, &da)
}

func drain(c *net.UDPConn) {
	buf := make([]byte, 4096)
	for {
		c.SetReadDeadline(time.Now().Add(200 * time.Microsecond))
		if _, _, err := c.ReadFromUDP(buf); err != nil {
			return
		}
	}
}

// ---------------------------------------------------------------- SCION datagrams

var (
	srvIA = addr.MustParseIA("1-ff00:0:110")
	cliIA = addr.MustParseIA("1-ff00:0:111")
)

// every SCION datagram of a history has this length (NTP request; SCMP payloads are padded to it)
const scionDgramLen = 36 + 8 + 48

func scionHdr(cfg childCfg, ident int, next slayers.L4ProtocolType, dst netip.Addr) *slayers.SCION {
	var l slayers.SCION
	l.FlowID = 1
	l.SrcIA, l.DstIA = cliIA, srvIA
	l.SetSrcAddr(addr.HostIP(netip.MustParseAddr(fmt.Sprintf("10.0.0.%d", 1+ident))))
	l.SetDstAddr(addr.HostIP(dst))
	l.Path = empty.Path{}
	l.PathType = empty.PathType
	l.NextHdr = next
	return &l
}

// irreversible: a one-hop path whose second hop field is still empty (what a packet looks like
// before the neighbouring border router has filled it in): `Path.Reverse()` fails on it
func irreversible(l *slayers.SCION) {
	l.Path = &onehop.Path{
		Info:     path.InfoField{ConsDir: true, SegID: 0x1234, Timestamp: uint32(time.Now().Unix())},
		FirstHop: path.HopField{ExpTime: 63, ConsIngress: 0, ConsEgress: 7, Mac: [path.MacLen]byte{1, 2, 3, 4, 5, 6}},
	}
	l.PathType = onehop.PathType
}

func scionUDPIrreversible(cfg childCfg, ident, sport, dport int, dst netip.Addr, pld []byte) []byte {
	sl := scionHdr(cfg, ident, slayers.L4UDP, dst)
	irreversible(sl)
	u := &slayers.UDP{SrcPort: uint16(sport), DstPort: uint16(dport)}
	u.SetNetworkLayerForChecksum(sl)
	b := gopacket.NewSerializeBuffer()
	if err := gopacket.SerializeLayers(b, serOpts, sl, u, gopacket.Payload(pld)); err != nil {
		panic(err)
	}
	return b.Bytes()
}

// clientKey: the identity under which the listener keeps the exchanges of a harness client
func clientKey(cfg childCfg, ident int) string {
	if cfg.kind == "scion" {
		return fmt.Sprintf("%s,10.0.0.%d", cliIA, 1+ident)
	}
	return fmt.Sprintf("127.0.21.%d", 10+ident)
}

// every receive timestamp a reply of this listener process has carried to us, per client key
var seenRx = map[childCfg]map[string]map[ntp.Time64]bool{}

// a listener whose replies we may have missed (unanswered event): no store oracle until restarted
var tainted = map[childCfg]bool{}

func noteRx(cfg childCfg, key string, rx ntp.Time64) {
	if seenRx[cfg] == nil {
		seenRx[cfg] = map[string]map[ntp.Time64]bool{}
	}
	if seenRx[cfg][key] == nil {
		seenRx[cfg][key] = map[ntp.Time64]bool{}
	}
	seenRx[cfg][key][rx] = true
}

// unreplied: what is on record for the client without a reply ever having carried its receive
// timestamp to us
func unreplied(cfg childCfg, key string, snap map[string][]recPair) []recPair {
	var r []recPair
	for _, p := range snap[key] {
		if !seenRx[cfg][key][p.rx] {
			r = append(r, p)
		}
	}
	return r
}

var serOpts = gopacket.SerializeOptions{ComputeChecksums: true, FixLengths: true}

func scionUDP(cfg childCfg, ident, sport, dport int, dst netip.Addr, pld []byte) []byte {
	sl := scionHdr(cfg, ident, slayers.L4UDP, dst)
	u := &slayers.UDP{SrcPort: uint16(sport), DstPort: uint16(dport)}
	u.SetNetworkLayerForChecksum(sl)
	b := gopacket.NewSerializeBuffer()
	if err := gopacket.SerializeLayers(b, serOpts, sl, u, gopacket.Payload(pld)); err != nil {
		panic(err)
	}
	return b.Bytes()
}

func scionSCMP(cfg childCfg, ident int, traceroute bool, seq int) []byte {
	sl := scionHdr(cfg, ident, slayers.L4SCMP, netip.MustParseAddr(cfg.ip()))
	b := gopacket.NewSerializeBuffer()
	var err error
	if traceroute {
		scmp := &slayers.SCMP{TypeCode: slayers.CreateSCMPTypeCode(slayers.SCMPTypeTracerouteRequest, 0)}
		scmp.SetNetworkLayerForChecksum(sl)
		// SCMP header 4 + traceroute 20 + padding = UDP header 8 + NTP 48
		err = gopacket.SerializeLayers(b, serOpts, sl, scmp, &slayers.SCMPTraceroute{Identifier: 7, Sequence: uint16(seq)},
			gopacket.Payload(make([]byte, 8+48-4-20)))
	} else {
		scmp := &slayers.SCMP{TypeCode: slayers.CreateSCMPTypeCode(slayers.SCMPTypeEchoRequest, 0)}
		scmp.SetNetworkLayerForChecksum(sl)
		err = gopacket.SerializeLayers(b, serOpts, sl, scmp, &slayers.SCMPEcho{Identifier: 7, SeqNumber: uint16(seq)},
			gopacket.Payload(make([]byte, 8+48-4-4)))
	}
	if err != nil {
		panic(err)
	}
	return b.Bytes()
}

type scionParsed struct {
	l4   string
	udp  slayers.UDP
	scmp slayers.SCMP
	scn  slayers.SCION
}

func parseSCION(b []byte) (*scionParsed, error) {
	r := &scionParsed{}
	var hbh slayers.HopByHopExtnSkipper
	var e2e slayers.EndToEndExtn
	parser := gopacket.NewDecodingLayerParser(slayers.LayerTypeSCION, &r.scn, &hbh, &e2e, &r.udp, &r.scmp)
	parser.IgnoreUnsupported = true
	decoded := make([]gopacket.LayerType, 0, 5)
	if err := parser.DecodeLayers(b, &decoded); err != nil {
		return nil, err
	}
	if len(decoded) < 2 {
		return nil, fmt.Errorf("short")
	}
	switch decoded[len(decoded)-1] {
	case slayers.LayerTypeSCIONUDP:
		r.l4 = "udp"
	case slayers.LayerTypeSCMP:
		r.l4 = "scmp"
	default:
		return nil, fmt.Errorf("l4")
	}
	return r, nil
}

// ---------------------------------------------------------------- one history

type event struct {
	letter byte // n q e t f x
	src    int
	ref    int // -1: basic form
}

type evObs struct {
	kind     byte // b i e t f - u ?
	sendT    time.Time
	arrT     time.Time
	req      ntp.Packet
	resp     ntp.Packet
	answered bool
	phantom  *recPair // event r: the exchange found on record although nothing was sent
}

type histObs struct {
	cfg      childCfg
	evs      []event
	idents   []int
	obs      []evObs
	bad      int
	badWhy   []string
	sandbox  string
	qdiscErr string
	rec      string // per event: 1 = its exchange is on record at the end of the history, 0 = not, - = no exchange
}

var last *histObs

func parseDigits(s string) ([]int, bool) {
	var r []int
	for _, c := range s {
		if c < '0' || c > '9' {
			return nil, false
		}
		r = append(r, int(c-'0'))
	}
	return r, true
}

func parseEvents(s string) ([]event, bool) {
	var r []event
	for _, t := range strings.Split(s, ",") {
		if len(t) < 2 {
			return nil, false
		}
		e := event{letter: t[0], ref: -1}
		rest := t[1:]
		switch t[0] {
		case 'n', 'q':
			p := strings.Split(rest, ":")
			if len(p) != 2 {
				return nil, false
			}
			v, err := strconv.Atoi(p[0])
			if err != nil || v < 0 || strconv.Itoa(v) != p[0] {
				return nil, false
			}
			e.src = v
			if p[1] == "b" && t[0] == 'n' {
				e.ref = -1
			} else {
				j, err := strconv.Atoi(p[1])
				if err != nil || j < 0 || strconv.Itoa(j) != p[1] {
					return nil, false
				}
				e.ref = j
			}
		case 'e', 't', 'f', 'x', 'r', 'w', 'o':
			v, err := strconv.Atoi(rest)
			if err != nil || v < 0 || strconv.Itoa(v) != rest {
				return nil, false
			}
			e.src = v
		default:
			return nil, false
		}
		r = append(r, e)
	}
	return r, true
}

func kvTok(toks []string, key string) (string, bool) {
	for _, t := range toks {
		if strings.HasPrefix(t, key+"=") {
			return t[len(key)+1:], true
		}
	}
	return "", false
}

func validKB(s string) bool {
	if s == "i" || s == "n" {
		return true
	}
	if len(s) >= 2 && s[0] == 'l' {
		v, err := strconv.Atoi(s[1:])
		return err == nil && v >= 0 && strconv.Itoa(v) == s[1:]
	}
	return false
}

func exec(toks []string) string {
	if len(toks) == 0 {
		return "bad-op"
	}
	switch toks[0] {
	case "tx.hist":
		return execHist(toks[1:])
	case "udp.rtx":
		return execRtx(toks[1:])
	case "sock.fifo":
		return execFifo(toks[1:])
	}
	return "bad-op"
}

func execHist(toks []string) string {
	last = nil
	if len(toks) != 6 {
		return "bad-op"
	}
	l, ok1 := kvTok(toks, "l")
	reg, ok2 := kvTok(toks, "reg")
	ids, ok3 := kvTok(toks, "id")
	sks, ok4 := kvTok(toks, "sk")
	kb, ok5 := kvTok(toks, "kb")
	ev, ok6 := kvTok(toks, "ev")
	if !(ok1 && ok2 && ok3 && ok4 && ok5 && ok6) || (l != "ip" && l != "scion") || (reg != "sw" && reg != "none" && reg != "late") {
		return "bad-op"
	}
	idents, okA := parseDigits(ids)
	skd, okB := parseDigits(sks)
	evs, okC := parseEvents(ev)
	kbs := strings.Split(kb, ".")
	if !okA || !okB || !okC || len(idents) != len(skd) || len(idents) > 10 || len(kbs) != len(evs) {
		return "bad-op"
	}
	for _, k := range kbs {
		if !validKB(k) {
			return "bad-op"
		}
	}
	for j, e := range evs {
		if e.src >= len(idents) {
			return "bad-op"
		}
		if (e.letter == 'e' || e.letter == 't' || e.letter == 'f' || e.letter == 'r') && l != "scion" {
			return "bad-op"
		}
		if (e.letter == 'r' || e.letter == 'w') && e.src >= 8 {
			return "bad-op"
		}
		if (e.letter == 'f' && e.src < 8) || (l == "ip" && e.src >= 8) {
			return "bad-op" // packets are forwarded by the sockets on the end-host port only
		}
		if e.ref >= 0 {
			if e.ref >= j || (evs[e.ref].letter != 'n' && evs[e.ref].letter != 'q' && evs[e.ref].letter != 'r' && evs[e.ref].letter != 'w') {
				return "bad-op"
			}
		}
	}
	h := runHist(childCfg{l, reg}, idents, evs)
	last = h
	if h.sandbox != "" {
		return "sandbox " + h.sandbox
	}
	kinds := make([]byte, len(h.obs))
	for i, o := range h.obs {
		kinds[i] = o.kind
	}
	ks := string(kinds)
	rec := h.rec
	if reg == "late" {
		rec = "*"
		if !strings.ContainsAny(ks, "u?") {
			ks = "*"
		}
	}
	return fmt.Sprintf("ok kinds=%s bad=%d rec=%s", ks, h.bad, rec)
}

func ntpReq(org, rx, tx ntp.Time64) (ntp.Packet, []byte) {
	var p ntp.Packet
	p.SetVersion(ntp.VersionMax)
	p.SetMode(ntp.ModeClient)
	p.OriginTime, p.ReceiveTime, p.TransmitTime = org, rx, tx
	var b []byte
	ntp.EncodePacket(&b, &p)
	return p, b
}

func runHist(cfg childCfg, idents []int, evs []event) *histObs {
	h := &histObs{cfg: cfg, evs: evs, idents: idents, obs: make([]evObs, len(evs))}
	if cfg.reg == "late" {
		if err := setQdisc(cfg.kind); err != nil {
			h.sandbox = "late regime unavailable: " + err.Error()
			return h
		}
	} else if err := setQdisc(""); err != nil {
		h.sandbox = err.Error()
		return h
	}
	if tsOff[cfg] {
		restartChild(cfg)
		delete(tsOff, cfg)
	}
	if _, err := getChild(cfg); err != nil {
		h.sandbox = "cannot start listener child: " + err.Error()
		return h
	}
	if cfg.kind == "scion" && fwdSock == nil {
		c, err := net.ListenUDP("udp4", &net.UDPAddr{IP: net.ParseIP("127.0.22.200"), Port: fwdPort})
		if err != nil {
			h.sandbox = "cannot bind forward socket"
			return h
		}
		fwdSock = c
	}
	prevSrc := -1
	buf := make([]byte, 4096)
	for j, e := range evs {
		o := &h.obs[j]
		ident := idents[e.src]
		sock, err := srcSock(cfg, e.src, ident)
		if err != nil {
			h.sandbox = "cannot bind source socket: " + err.Error()
			return h
		}
		if prevSrc != -1 && prevSrc != e.src {
			// another listener goroutine may still be between its write and its
			// updateTXTimestamp (1 ms poll): iterations of one history do not overlap
			time.Sleep(12 * time.Millisecond)
		}
		prevSrc = e.src
		if e.letter == 'o' {
			// the listener's sockets stop stamping (no datagram is sent)
			time.Sleep(12 * time.Millisecond)
			tsOff[cfg] = true
			if err := children[cfg].timestampingOff(); err != nil {
				h.sandbox = "timestamping off: " + err.Error()
				return h
			}
			o.kind = '-'
			continue
		}
		drain(sock)
		dstPort := ipPort
		if cfg.kind == "scion" {
			dstPort = scionPort
			if e.src >= 8 {
				dstPort = endhost
			}
		}
		dst := &net.UDPAddr{IP: net.ParseIP(cfg.ip()), Port: dstPort}
		sport := sock.LocalAddr().(*net.UDPAddr).Port
		var data []byte
		switch e.letter {
		case 'n', 'q':
			now := time.Now()
			tx := ntp.Time64FromTime(now)
			var org, rx ntp.Time64
			rx = tx
			if e.ref >= 0 {
				r := &h.obs[e.ref]
				org = r.resp.ReceiveTime
				if e.letter == 'n' {
					rx = ntp.Time64FromTime(r.arrT)
					if rx == tx {
						rx.Fraction ^= 1
					}
				}
				if !r.answered {
					org = ntp.Time64{Seconds: 1, Fraction: uint32(j)}
				}
				if (evs[e.ref].letter == 'r' || evs[e.ref].letter == 'w') && r.phantom != nil {
					// nothing was sent for that exchange; its receive timestamp as the store has it
					org = r.phantom.rx
					if e.letter == 'n' {
						rx = ntp.Time64FromTime(r.sendT.Add(time.Millisecond))
						if rx == tx {
							rx.Fraction ^= 1
						}
					}
				}
			}
			var pld []byte
			o.req, pld = ntpReq(org, rx, tx)
			if cfg.kind == "ip" {
				data = pld
			} else {
				data = scionUDP(cfg, ident, sport, scionPort, netip.MustParseAddr(cfg.ip()), pld)
			}
		case 'r':
			tx := ntp.Time64FromTime(time.Now())
			var pld []byte
			o.req, pld = ntpReq(ntp.Time64{}, tx, tx)
			data = scionUDPIrreversible(cfg, ident, sport, scionPort, netip.MustParseAddr(cfg.ip()), pld)
		case 'w':
			// a valid request that arrives from UDP source port 0 (raw socket): the listener handles and
			// records it, the write of the reply to port 0 fails (EINVAL)
			tx := ntp.Time64FromTime(time.Now())
			var pld []byte
			o.req, pld = ntpReq(ntp.Time64{}, tx, tx)
			if cfg.kind == "ip" {
				data = pld
			} else {
				data = scionUDP(cfg, ident, sport, scionPort, netip.MustParseAddr(cfg.ip()), pld)
			}
		case 'e':
			data = scionSCMP(cfg, ident, false, j)
		case 't':
			data = scionSCMP(cfg, ident, true, j)
		case 'f':
			drain(fwdSock)
			_, pld := ntpReq(ntp.Time64{}, ntp.Time64{}, ntp.Time64{Seconds: 9, Fraction: uint32(j)})
			data = scionUDP(cfg, ident, sport, fwdPort, netip.MustParseAddr("127.0.22.200"), pld)
		case 'x':
			data = []byte{0x23, byte(j)} // too short for either listener
		}
		o.sendT = time.Now()
		if e.letter == 'w' {
			if err := sendFromPort0(sock.LocalAddr().(*net.UDPAddr).IP, dst, data); err != nil {
				h.sandbox = "raw write: " + err.Error()
				return h
			}
		} else if _, err := sock.WriteToUDP(data, dst); err != nil {
			h.sandbox = "write: " + err.Error()
			return h
		}
		switch e.letter {
		case 'r', 'w':
			// nothing comes back (the path cannot be reversed); what does the store say?
			sock.SetReadDeadline(time.Now().Add(3 * time.Millisecond))
			if _, _, err := sock.ReadFromUDP(buf); err == nil {
				o.kind = '?'
				continue
			}
			o.kind = '-'
			key := clientKey(cfg, ident)
			for try := 0; try < 10 && o.phantom == nil && !tainted[cfg]; try++ {
				snap, err := children[cfg].snapshot()
				if err != nil {
					h.sandbox = "snapshot: " + err.Error()
					return h
				}
				if u := unreplied(cfg, key, snap); len(u) > 0 {
					// still there a little later? (the listener may be in the middle of the iteration)
					time.Sleep(60 * time.Millisecond)
					snap2, err := children[cfg].snapshot()
					if err != nil {
						h.sandbox = "snapshot: " + err.Error()
						return h
					}
					for _, p := range unreplied(cfg, key, snap2) {
						if p == u[len(u)-1] {
							q := p
							o.phantom = &q
						}
					}
				} else {
					time.Sleep(5 * time.Millisecond)
				}
			}
			if o.phantom != nil {
				h.bad++
				h.badWhy = append(h.badWhy, fmt.Sprintf("event %d: unsent-exchange-on-record: the request got no reply (%s), yet the store keeps an exchange for client %s with receive timestamp %v and transmit time %v (rx%+d ns): a transmit time of a reply that was never sent",
					j, map[byte]string{'r': "irreversible path", 'w': "request from UDP source port 0: the write of the reply fails"}[e.letter], key, ntp.TimeFromTime64(o.phantom.rx, o.sendT), ntp.TimeFromTime64(o.phantom.tx, o.sendT),
					ntp.TimeFromTime64(o.phantom.tx, o.sendT).Sub(ntp.TimeFromTime64(o.phantom.rx, o.sendT)).Nanoseconds()))
			}
			continue
		case 'x':
			// nothing comes back; let the listener get past it
			sock.SetReadDeadline(time.Now().Add(3 * time.Millisecond))
			if _, _, err := sock.ReadFromUDP(buf); err == nil {
				o.kind = '?'
			} else {
				o.kind = '-'
			}
			continue
		case 'f':
			fwdSock.SetReadDeadline(time.Now().Add(replyTimeout))
			n, _, err := fwdSock.ReadFromUDP(buf)
			o.arrT = time.Now()
			if err != nil {
				o.kind = 'u'
				for k := j + 1; k < len(evs); k++ {
					h.obs[k].kind = '.'
				}
				return h
			}
			if p, err := parseSCION(buf[:n]); err == nil && p.l4 == "udp" && int(p.udp.DstPort) == fwdPort {
				o.kind, o.answered = 'f', true
			} else {
				o.kind = '?'
			}
			continue
		}
		deadline := time.Now().Add(replyTimeout)
		o.kind = 'u'
		for {
			sock.SetReadDeadline(deadline)
			n, _, err := sock.ReadFromUDP(buf)
			arr := time.Now()
			if err != nil {
				break
			}
			pld := buf[:n]
			if cfg.kind == "scion" {
				p, err := parseSCION(buf[:n])
				if err != nil {
					continue
				}
				if e.letter == 'e' || e.letter == 't' {
					want := slayers.SCMPTypeEchoReply
					if e.letter == 't' {
						want = slayers.SCMPTypeTracerouteReply
					}
					if p.l4 == "scmp" && p.scmp.TypeCode.Type() == want {
						o.kind, o.answered, o.arrT = e.letter, true, arr
						break
					}
					continue
				}
				if p.l4 != "udp" {
					continue
				}
				pld = p.udp.Payload
			}
			var resp ntp.Packet
			if err := ntp.DecodePacket(&resp, pld); err != nil {
				continue
			}
			noteRx(cfg, clientKey(cfg, ident), resp.ReceiveTime)
			switch {
			case o.req.ReceiveTime != o.req.TransmitTime && resp.OriginTime == o.req.ReceiveTime:
				o.kind = 'i'
			case resp.OriginTime == o.req.TransmitTime:
				o.kind = 'b'
			default:
				continue // a straggler of an earlier exchange
			}
			o.resp, o.answered, o.arrT = resp, true, arr
			break
		}
		if o.kind == 'b' || o.kind == 'i' {
			h.checkReply(j)
		}
		if o.kind == 'u' {
			// the listener socket is stuck: the rest of the history is not sent
			for k := j + 1; k < len(evs); k++ {
				h.obs[k].kind = '.'
			}
			break
		}
	}
	h.checkStore()
	return h
}

// checkStore: the store at the end of the history. (a) `rec`: which exchanges of this history are
// on record (compared with the model); (b) direct oracle: everything on record for a client of
// this history carries the receive timestamp of a reply that was sent (and reached us).
func (h *histObs) checkStore() {
	cfg := h.cfg
	for _, o := range h.obs {
		if o.kind == 'u' || o.kind == '?' || o.kind == '.' {
			tainted[cfg] = true
		}
	}
	rec := make([]byte, len(h.evs))
	for j := range rec {
		rec[j] = '-'
	}
	h.rec = string(rec)
	if tainted[cfg] || children[cfg] == nil {
		return
	}
	// the last listener iteration may still be between its write and its updateTXTimestamp (a
	// 1 ms poll, longer on a loaded machine): wait for the record our own bookkeeping expects;
	// what is reported is what the store says in the end
	_, wantRec := expectKindsRec(cfg.reg, h.idents, h.evs)
	var snap map[string][]recPair
	keys := map[string]bool{}
	for try := 0; try < 40; try++ {
		if try == 0 {
			time.Sleep(3 * time.Millisecond)
		} else {
			time.Sleep(25 * time.Millisecond)
		}
		var err error
		snap, err = children[cfg].snapshot()
		if err != nil {
			h.sandbox = "snapshot: " + err.Error()
			return
		}
		for j, e := range h.evs {
			if e.letter != 'n' && e.letter != 'q' && e.letter != 'r' && e.letter != 'w' {
				continue
			}
			key := clientKey(cfg, h.idents[e.src])
			keys[key] = true
			rec[j] = '0'
			o := &h.obs[j]
			for _, p := range snap[key] {
				if (o.answered && p.rx == o.resp.ReceiveTime) || (o.phantom != nil && p.rx == o.phantom.rx) {
					rec[j] = '1'
				}
			}
		}
		if cfg.reg == "late" || string(rec) == wantRec || h.bad > 0 {
			break
		}
	}
	h.rec = string(rec)
	var ks []string
	for k := range keys {
		ks = append(ks, k)
	}
	sort.Strings(ks)
	for _, key := range ks {
		u := unreplied(cfg, key, snap)
		if len(u) == 0 {
			continue
		}
		time.Sleep(100 * time.Millisecond)
		snap2, err := children[cfg].snapshot()
		if err != nil {
			h.sandbox = "snapshot: " + err.Error()
			return
		}
		for _, p := range unreplied(cfg, key, snap2) {
			for _, q := range u {
				if p == q {
					h.bad++
					h.badWhy = append(h.badWhy, fmt.Sprintf("end of history: exchange-on-record-without-reply: client %s has an exchange on record (receive timestamp %d.%d, transmit time %d.%d) whose receive timestamp no reply of this listener has ever carried",
						key, p.rx.Seconds, p.rx.Fraction, p.tx.Seconds, p.tx.Fraction))
				}
			}
		}
	}
}

const slack = 3 * time.Nanosecond

// checkReply: direct oracle on one NTP reply (wall-clock values are compared by windows only)
func (h *histObs) checkReply(j int) {
	o := &h.obs[j]
	fail := func(why string) {
		h.bad++
		h.badWhy = append(h.badWhy, fmt.Sprintf("event %d: %s", j, why))
	}
	rx := ntp.TimeFromTime64(o.resp.ReceiveTime, o.arrT)
	// receive timestamp: kernel rx stamp or, without one, the clock read after the datagram was
	// read — between our write and the arrival of the reply
	if rx.Before(o.sendT.Add(-slack)) || rx.After(o.arrT.Add(slack)) {
		fail(fmt.Sprintf("rx-outside-window: receive timestamp %v not within [%v, %v]", rx, o.sendT, o.arrT))
	}
	ref := ntp.TimeFromTime64(o.resp.ReferenceTime, o.arrT)
	if !o.resp.ReferenceTime.After(o.resp.ReceiveTime) || ref.After(o.arrT.Add(slack)) {
		fail(fmt.Sprintf("software-tx-outside-window: software transmit time %v not within (rx %v, arrival %v]", ref, rx, o.arrT))
	}
	if o.kind == 'b' {
		if o.resp.TransmitTime != o.resp.ReferenceTime {
			fail("basic reply: transmit timestamp is not the software transmit time")
		}
		return
	}
	// interleaved: the transmit timestamp is the kernel's stamp of the quoted reply's own
	// datagram: taken after the software reading that reply carried, before it arrived here
	e := h.evs[j]
	r := &h.obs[e.ref]
	if h.evs[e.ref].letter == 'r' || h.evs[e.ref].letter == 'w' {
		tx := ntp.TimeFromTime64(o.resp.TransmitTime, o.arrT)
		fail(fmt.Sprintf("unsent-exchange-served: interleaved reply quotes event %d, a request for which no reply was ever sent: served transmit time %v is the transmit time of no datagram",
			e.ref, tx))
		return
	}
	lo := ntp.TimeFromTime64(r.resp.ReferenceTime, r.arrT)
	tx := ntp.TimeFromTime64(o.resp.TransmitTime, o.arrT)
	if tx.Before(lo.Add(-slack)) || tx.After(r.arrT.Add(slack)) {
		fail(fmt.Sprintf("served-tx-outside-window: interleaved reply quotes event %d (rx %v): served transmit time %v (rx%+d ns) not within [software reading %v, arrival of that reply %v]",
			e.ref, ntp.TimeFromTime64(r.resp.ReceiveTime, r.arrT), tx,
			tx.Sub(ntp.TimeFromTime64(r.resp.ReceiveTime, r.arrT)).Nanoseconds(), lo, r.arrT))
	}
}
