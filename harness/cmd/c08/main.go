// c08: totality (no panic, no hang) of the project's own parsers of network-derived bytes
// that are not covered by another property's harness: the control-message walk of
// net/udp (fed with the SCION timestamp option's bytes by the SCION client).
package main

import (
	"encoding/binary"
	"encoding/hex"
	"fmt"
	"strings"

	"example.com/scion-time/net/nts"
	"example.com/scion-time/net/ntske"
	"example.com/scion-time/net/udp"

	"verifharness/lib"
)

func unhex(s string) []byte {
	if s == "-" {
		return nil
	}
	b, err := hex.DecodeString(s)
	if err != nil {
		panic("bad-op")
	}
	return b
}

func exec(t []string) string {
	switch {
	case t[0] == "udp.oob" && len(t) == 2:
		ts, err := udp.TimestampFromOOBData(unhex(t[1]))
		if err != nil {
			switch err.Error() {
			case "failed to read out of band data":
				return "err unexpected-data"
			case "failed to read timestamp from out of band data":
				return "err not-found"
			}
			return "err other:" + strings.ReplaceAll(err.Error(), " ", "_")
		}
		return fmt.Sprintf("ok %d %d", ts.Unix(), ts.Nanosecond())
	}
	return "bad-op"
}

func cmsg(hlen uint64, level, typ int32, data []byte, total int) []byte {
	b := make([]byte, 16+len(data))
	binary.LittleEndian.PutUint64(b[0:], hlen)
	binary.LittleEndian.PutUint32(b[8:], uint32(level))
	binary.LittleEndian.PutUint32(b[12:], uint32(typ))
	copy(b[16:], data)
	if total >= 0 {
		if total < len(b) {
			b = b[:total]
		} else {
			b = append(b, make([]byte, total-len(b))...)
		}
	}
	return b
}

func i64s(vs ...int64) []byte {
	b := make([]byte, 8*len(vs))
	for i, v := range vs {
		binary.LittleEndian.PutUint64(b[8*i:], uint64(v))
	}
	return b
}

func genUDP(c *lib.Ctx) {
	r := c.Rand
	do := func(kind string, b []byte) {
		ans := c.Do("udp.oob " + lib.Hex(b))
		c.Count("udp:" + kind + ":" + strings.Fields(ans)[0])
		if strings.HasPrefix(ans, "panic") {
			c.Fail("C08:udp.oob:"+strings.Fields(ans)[1], "TimestampFromOOBData panics on bytes that reach it from the network (SCION timestamp option)",
				[]string{"udp.oob " + lib.Hex(b)}, map[string]any{"answer": ans, "len": len(b)})
		}
	}
	c.Comment("corpus: F10 witnesses")
	do("corpus", []byte{17, 0, 0, 0, 0, 0, 0, 0, 9, 0, 0, 0, 9, 0, 0, 0, 0, 0, 0, 0})
	do("corpus", cmsg(64, 1, 65, i64s(1, 0, 0, 0, 1, 0), -1))
	do("corpus", cmsg(64, 1, 65, i64s(0, 0, 1, 0, 0, 0), -1))
	c.Comment("valid kernel-style messages")
	for i := 0; i < 50; i++ {
		s, n := r.Range(0, 1<<33), r.Range(0, 999999999)
		do("valid", cmsg(64, 1, 65, i64s(s, n, 0, 0, 0, 0), -1))
		do("valid", cmsg(64, 1, 65, i64s(0, 0, 0, 0, s, n), -1))
		do("valid", cmsg(32, 1, 35, i64s(s, n), -1))
		// preceded by another control message
		pre := cmsg(uint64(16+r.Intn(20)), int32(r.Range(0, 50)), int32(r.Range(0, 50)), r.Bytes(24), -1)
		pre = pre[:16+((int(binary.LittleEndian.Uint64(pre))-16+7)/8*8)]
		do("valid-chain", append(pre, cmsg(64, 1, 65, i64s(s, n, 0, 0, 0, 0), -1)...))
	}
	c.Comment("every length 0..80 of a valid message, and of zeros")
	full := cmsg(64, 1, 65, i64s(12345, 678, 0, 0, 0, 0), 80)
	for l := 0; l <= 80; l++ {
		do("truncated", full[:l])
		do("zeros", make([]byte, l))
	}
	n := c.Scale(20000, 400000)
	c.Comment("structured malformed + random")
	for i := 0; i < n; i++ {
		var b []byte
		total := r.Intn(90)
		switch r.Intn(8) {
		case 0: // random bytes
			b = r.Bytes(total)
		case 1: // header with length around the buffer size
			b = cmsg(uint64(int64(total)+r.Range(-9, 9)), int32(r.Range(0, 2)), int32(r.Pick64([]int64{65, 35, 0, 11})), r.Bytes(64), total)
		case 2: // timestamping message with arbitrary triple
			vs := make([]int64, 6)
			for j := range vs {
				if r.Chance(40) {
					vs[j] = r.Pick64([]int64{1, -1, 1 << 62, -1 << 63, 999999999, 1000000000, -1000000000, 5})
				}
			}
			b = cmsg(uint64(r.Pick64([]int64{64, 64, 64, 63, 65, 56, 72})), 1, 65, i64s(vs...), int(r.Pick64([]int64{64, 64, 72, 63, 80})))
		case 3: // timespec message
			b = cmsg(uint64(r.Pick64([]int64{32, 32, 31, 33, 24, 40})), 1, 35, i64s(r.I64()>>uint(r.Intn(64)), r.I64()>>uint(r.Intn(64))), int(r.Pick64([]int64{32, 32, 40, 31})))
		case 4: // chain of small foreign messages with odd lengths
			for len(b) < total {
				l := 16 + r.Intn(12)
				b = append(b, cmsg(uint64(l), int32(r.Range(2, 9)), int32(r.Range(0, 9)), r.Bytes(l-16), -1)...)
				if r.Chance(70) {
					for len(b)%8 != 0 {
						b = append(b, 0)
					}
				}
			}
			if r.Chance(50) {
				b = append(b, cmsg(64, 1, 65, i64s(r.Range(0, 1<<32), r.Range(0, 999999999), 0, 0, 0, 0), -1)...)
			}
		case 5: // huge / tiny header lengths
			b = cmsg(r.U64()>>uint(r.Intn(64)), int32(r.Range(0, 2)), int32(r.Range(30, 70)), r.Bytes(48), total)
		case 6: // nanoseconds out of range, seconds at extremes (time.Unix normalisation)
			b = cmsg(64, 1, 65, i64s(r.Pick64([]int64{0, 1, -1, 1<<63 - 1, -1 << 63, 1 << 40}), r.Pick64([]int64{-1, 1000000000, 1<<63 - 1, -1 << 63, 1999999999, -1999999999, 5}), 0, 0, 0, 0), -1)
		default: // single bit flips of a valid message
			b = cmsg(64, 1, 65, i64s(r.Range(0, 1<<32), r.Range(0, 999999999), 0, 0, 0, 0), -1)
			k := r.Intn(len(b) * 8)
			b[k/8] ^= 1 << (k % 8)
		}
		do("gen", b)
	}
}

// probeLongCookie evaluates the recorded known finding (known_findings.json): a cookie longer
// than 896 bytes in the client's pool — only a key-exchange or NTP server the client has
// authenticated can put one there — makes the request encoder panic.
func probeLongCookie(c *lib.Ctx) {
	for _, l := range []int{896, 897, 1000} {
		ans := lib.Try(func() string {
			d := ntske.Data{C2sKey: make([]byte, 32), S2cKey: make([]byte, 32), Cookie: [][]byte{make([]byte, l)}, Algo: ntske.AES_SIV_CMAC_256}
			pkt, _ := nts.NewRequestPacket(d)
			buf := make([]byte, 48)
			nts.EncodePacket(&buf, &pkt)
			return fmt.Sprintf("ok %d", len(buf))
		})
		c.Count(fmt.Sprintf("probe:long-cookie:%d:%s", l, strings.Fields(ans)[0]))
		if strings.HasPrefix(ans, "panic") && l > 896 {
			c.Fail("C08:known:client-request-with-cookie-longer-than-896-bytes", "NTS client: a cookie longer than 896 bytes in the pool makes the request encoder panic",
				[]string{fmt.Sprintf("(c11 ops) cl.init [<%d-byte cookie>] <c2s> <s2c> ; cl.request <hdr>", l)}, map[string]any{"cookie_len": l, "answer": ans})
			return
		}
		if strings.HasPrefix(ans, "panic") {
			c.Fail("C08:client-request-encoder-panics", "NTS client: request encoder panics on a cookie that fits", nil, map[string]any{"cookie_len": l, "answer": ans})
		}
	}
}

func gen(c *lib.Ctx) {
	genUDP(c)
	probeLongCookie(c)
}

func main() { lib.Main(exec, gen) }
