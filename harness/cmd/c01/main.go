// c01: correspondence + direct oracle for the synchronization loop (core/sync.Run).
//
// core/sync.Run runs UNMODIFIED inside a testing/synctest bubble (GOEXPERIMENT=synctest)
// with scripted client.ReferenceClocks, a recording adjustments.Adjustment and a fake
// timebase.SystemClock whose Drift is scripted and whose Sleep advances virtual time and
// ends the run after N rounds (runtime.Goexit).  One op line = one whole Run.
//
// Op format: see lean/Driver/C01.lean.
package main

import (
	"context"
	"errors"
	"fmt"
	"io"
	"log/slog"
	"math"
	"math/big"
	"os"
	"runtime"
	"strconv"
	"strings"
	"sync/atomic"
	"testing/synctest"
	"time"

	"github.com/prometheus/client_golang/prometheus"

	"example.com/scion-time/base/timemath"
	"example.com/scion-time/core/client"
	"example.com/scion-time/core/measurements"
	"example.com/scion-time/core/sync"
	"example.com/scion-time/driver/clocks"

	"verifharness/lib"
)

// ---------------------------------------------------------------- scripted world

type act struct {
	kind  byte // 'o' ok, 'c' ok unless cancelled first, 'e' error, 'h' hang until cancelled
	off   int64
	delay int64
}

func (a act) String() string {
	switch a.kind {
	case 'o':
		if a.delay == 0 {
			return fmt.Sprintf("o%d", a.off)
		}
		return fmt.Sprintf("o%d@%d", a.off, a.delay)
	case 'c':
		return fmt.Sprintf("c%d@%d", a.off, a.delay)
	case 'e':
		if a.delay == 0 {
			return "e"
		}
		return fmt.Sprintf("e@%d", a.delay)
	}
	return "h"
}

type spec struct {
	ri, pi                           float64
	cutoff, timeout, interval, drift int64
	nref, npeer                      int
	rounds                           [][2][]act
}

func bits(f float64) string {
	if f != f {
		return "7ff8000000000001"
	}
	return fmt.Sprintf("%016x", math.Float64bits(f))
}

func (s *spec) op() string {
	var sb strings.Builder
	fmt.Fprintf(&sb, "sync.run %s %s %d %d %d %d %d %d", bits(s.ri), bits(s.pi), s.cutoff, s.timeout, s.interval, s.drift, s.nref, s.npeer)
	for _, r := range s.rounds {
		sb.WriteByte(' ')
		for side := 0; side < 2; side++ {
			if side == 1 {
				sb.WriteByte('/')
			}
			if len(r[side]) == 0 {
				sb.WriteByte('-')
			}
			for i, a := range r[side] {
				if i > 0 {
					sb.WriteByte(',')
				}
				sb.WriteString(a.String())
			}
		}
	}
	return sb.String()
}

func i64(s string) int64 {
	v, err := strconv.ParseInt(s, 10, 64)
	if err != nil {
		panic("bad-op")
	}
	return v
}

func parseAct(s string) act {
	switch {
	case s == "h":
		return act{kind: 'h'}
	case s == "e":
		return act{kind: 'e'}
	case strings.HasPrefix(s, "e@"):
		return act{kind: 'e', delay: i64(s[2:])}
	case strings.HasPrefix(s, "o"), strings.HasPrefix(s, "c"):
		k := s[0]
		p := strings.Split(s[1:], "@")
		switch {
		case len(p) == 1 && k == 'o':
			return act{kind: 'o', off: i64(p[0])}
		case len(p) == 2:
			return act{kind: k, off: i64(p[0]), delay: i64(p[1])}
		}
	}
	panic("bad-op")
}

func parseSpec(t []string) *spec {
	if len(t) < 9 {
		panic("bad-op")
	}
	pb := func(x string) float64 {
		if len(x) != 16 {
			panic("bad-op")
		}
		v, err := strconv.ParseUint(x, 16, 64)
		if err != nil {
			panic("bad-op")
		}
		return math.Float64frombits(v)
	}
	s := &spec{ri: pb(t[0]), pi: pb(t[1]), cutoff: i64(t[2]), timeout: i64(t[3]), interval: i64(t[4]), drift: i64(t[5]),
		nref: int(i64(t[6])), npeer: int(i64(t[7]))}
	for _, rt := range t[8:] {
		sides := strings.Split(rt, "/")
		if len(sides) != 2 {
			panic("bad-op")
		}
		var r [2][]act
		for side, n := range []int{s.nref, s.npeer} {
			if sides[side] == "-" {
				if n != 0 {
					panic("bad-op")
				}
				continue
			}
			parts := strings.Split(sides[side], ",")
			if len(parts) != n {
				panic("bad-op")
			}
			for _, p := range parts {
				a := parseAct(p)
				if a.delay < 0 {
					panic("bad-op")
				}
				r[side] = append(r[side], a)
			}
		}
		s.rounds = append(s.rounds, r)
	}
	return s
}

var errScripted = errors.New("scripted failure")

type world struct {
	s         *spec
	round     atomic.Int64
	corrs     []int64 // arguments of adj.Do, in order
	doAtSleep []int   // len(corrs) at each Sleep call
	sleepArgs []int64
	driftArgs []int64
	doLate    bool // a Do happened later than timeout after the round's start (virtual time)
	roundT0   time.Time
}

type source struct {
	w         *world
	side, idx int
}

func (c *source) MeasureClockOffset(ctx context.Context) (time.Time, time.Duration, error) {
	r := int(c.w.round.Load())
	if r >= len(c.w.s.rounds) {
		// only reachable with SyncTimeout = 0 (oracle-only stream): the round can end before
		// this goroutine was first scheduled
		r = len(c.w.s.rounds) - 1
	}
	a := c.w.s.rounds[r][c.side][c.idx]
	switch a.kind {
	case 'o':
		if a.delay > 0 {
			time.Sleep(time.Duration(a.delay))
		}
		return time.Time{}, time.Duration(a.off), nil
	case 'c':
		tm := time.NewTimer(time.Duration(a.delay))
		defer tm.Stop()
		select {
		case <-tm.C:
			return time.Time{}, time.Duration(a.off), nil
		case <-ctx.Done():
			return time.Time{}, 0, ctx.Err()
		}
	case 'e':
		if a.delay > 0 {
			time.Sleep(time.Duration(a.delay))
		}
		return time.Time{}, time.Duration(a.off), errScripted
	default:
		<-ctx.Done()
		return time.Time{}, 0, ctx.Err()
	}
}

type recAdj struct{ w *world }

func (a *recAdj) Do(offset time.Duration) {
	a.w.corrs = append(a.w.corrs, int64(offset))
	if streamDo {
		fmt.Printf("do %d\n", int64(offset)) // isolated run (guard.go): survives the process
	}
	if time.Since(a.w.roundT0) > time.Duration(a.w.s.timeout) {
		a.w.doLate = true
	}
}

type fakeClk struct{ w *world }

func (c *fakeClk) Epoch() uint64  { return 0 }
func (c *fakeClk) Now() time.Time { return time.Now() }
func (c *fakeClk) Drift(d time.Duration) time.Duration {
	c.w.driftArgs = append(c.w.driftArgs, int64(d))
	return time.Duration(c.w.s.drift)
}
func (c *fakeClk) Step(time.Duration)                           { panic("harness: unexpected Step") }
func (c *fakeClk) Adjust(time.Duration, time.Duration, float64) { panic("harness: unexpected Adjust") }
func (c *fakeClk) Sleep(d time.Duration) {
	w := c.w
	w.doAtSleep = append(w.doAtSleep, len(w.corrs))
	w.sleepArgs = append(w.sleepArgs, int64(d))
	n := w.round.Add(1)
	if int(n) >= len(w.s.rounds) {
		runtime.Goexit()
	}
	time.Sleep(d)
	w.roundT0 = time.Now()
}

var quietLog = slog.New(slog.NewTextHandler(io.Discard, &slog.HandlerOptions{Level: slog.LevelError + 4}))

// runSync executes core/sync.Run on the scripted world and returns what the loop did.
func runSync(s *spec) (w *world, panicked any) {
	w = &world{s: s}
	prometheus.DefaultRegisterer = prometheus.NewRegistry()
	cfg := sync.Config{
		ReferenceClockImpact: s.ri, PeerClockImpact: s.pi,
		PeerClockCutoff: time.Duration(s.cutoff), SyncTimeout: time.Duration(s.timeout), SyncInterval: time.Duration(s.interval),
	}
	var refs, peers []client.ReferenceClock
	for i := 0; i < s.nref; i++ {
		refs = append(refs, &source{w: w, side: 0, idx: i})
	}
	for i := 0; i < s.npeer; i++ {
		peers = append(peers, &source{w: w, side: 1, idx: i})
	}
	synctest.Run(func() {
		done := make(chan struct{})
		w.roundT0 = time.Now()
		go func() {
			defer close(done)
			defer func() {
				if r := recover(); r != nil {
					panicked = r
				}
			}()
			sync.Run(quietLog, cfg, &fakeClk{w}, &recAdj{w}, refs, peers)
		}()
		<-done
	})
	return w, panicked
}

// exec answers one op line; under -replay every sync.run is run in a process of its own
// (guard.go), so that a run that kills its process is answered `died …` instead.
func exec(t []string) string {
	if isolateAll && len(t) > 0 && t[0] == "sync.run" {
		return isolated(strings.Join(t, " "))
	}
	return execInProcess(t)
}

func execInProcess(t []string) string {
	switch {
	case t[0] == "sync.run":
		s := parseSpec(t[1:])
		if len(s.rounds) == 0 {
			return "bad-op"
		}
		w, p := runSync(s)
		if p != nil {
			return "panic " + lib.PanicClass(p)
		}
		return "ok " + lib.IntList(w.corrs)
	case t[0] == "tm.mid" && len(t) == 3:
		return fmt.Sprintf("ok %d", int64(timemath.Midpoint(time.Duration(i64(t[1])), time.Duration(i64(t[2])))))
	case t[0] == "tm.sgn" && len(t) == 2:
		return fmt.Sprintf("ok %d", timemath.Sgn(time.Duration(i64(t[1]))))
	case t[0] == "dur.abs" && len(t) == 2:
		return fmt.Sprintf("ok %d", int64(time.Duration(i64(t[1])).Abs()))
	case t[0] == "clk.drift" && len(t) == 3:
		// the clock timeservice.go builds for Run (clocks.NewSystemClock(log, clockDrift(cfg))) and the
		// one reading Run takes from it: clk.Drift(cfg.SyncInterval)
		clk := clocks.NewSystemClock(quietLog, time.Duration(i64(t[1])))
		return fmt.Sprintf("ok %d", int64(clk.Drift(time.Duration(i64(t[2])))))
	case t[0] == "ftm" && len(t) == 2:
		if len(t[1]) < 2 || t[1][0] != '[' || t[1][len(t[1])-1] != ']' {
			return "bad-op"
		}
		var ms []measurements.Measurement
		if inner := t[1][1 : len(t[1])-1]; inner != "" {
			for _, x := range strings.Split(inner, ",") {
				ms = append(ms, measurements.Measurement{Offset: time.Duration(i64(x))})
			}
		}
		m := measurements.FaultTolerantMidpoint(ms)
		out := make([]int64, len(ms))
		for i := range ms {
			out[i] = int64(ms[i].Offset)
		}
		return fmt.Sprintf("ok %d %s", int64(m.Offset), lib.IntList(out))
	}
	return "bad-op"
}

// ---------------------------------------------------------------- direct oracle

func finite(f float64) bool { return !math.IsNaN(f) && !math.IsInf(f, 0) }

// capExact is impact × drift as an exact real number.
func capExact(impact float64, drift int64) *big.Float {
	a := new(big.Float).SetPrec(200).SetFloat64(impact)
	b := new(big.Float).SetPrec(200).SetInt64(drift)
	return new(big.Float).SetPrec(200).Mul(a, b)
}

func absBig(x int64) *big.Float {
	b := new(big.Float).SetPrec(200).SetInt64(x)
	return b.Abs(b)
}

// statementAdmissible evaluates the refusal clause of the property text on real numbers:
// factor <= 1, peer factor not exceeding the reference factor by more than 1, non-positive
// interval, timeout above half the interval (or negative), non-positive cap; non-finite
// factors void the bound.  Returns the reason the settings must be refused, or "".
func mustRefuse(s *spec) string {
	if !finite(s.ri) || !finite(s.pi) {
		return "non-finite-factor"
	}
	one := big.NewFloat(1)
	r := new(big.Float).SetPrec(200).SetFloat64(s.ri)
	p := new(big.Float).SetPrec(200).SetFloat64(s.pi)
	if r.Cmp(one) <= 0 {
		return "ref-factor<=1"
	}
	if p.Cmp(one) <= 0 {
		return "peer-factor<=1"
	}
	if new(big.Float).SetPrec(200).Sub(p, one).Cmp(r) <= 0 {
		return "peer-factor-gap<=1"
	}
	if s.interval <= 0 {
		return "interval<=0"
	}
	if s.timeout < 0 || new(big.Int).Mul(big.NewInt(2), big.NewInt(s.timeout)).Cmp(big.NewInt(s.interval)) > 0 {
		return "timeout"
	}
	if s.drift <= 0 {
		return "drift<=0"
	}
	return ""
}

// checkRun evaluates the property on what the real code did.
func checkRun(c *lib.Ctx, s *spec, w *world, p any, op string) {
	refuse := mustRefuse(s)
	if p != nil {
		c.Count("startup:refused")
		cls := lib.PanicClass(p)
		if !strings.HasPrefix(cls, "explicit:invalid_") && !strings.HasPrefix(cls, "explicit:unexpected_system_clock") {
			c.Fail("C01:unexpected-panic:"+cls, "Run panicked with something else than a start-up refusal", []string{op}, map[string]any{"panic": cls})
		}
		if len(w.corrs) != 0 {
			c.Fail("C01:panic-after-correction", "Run panicked after handing out a correction", []string{op}, map[string]any{"panic": cls})
		}
		return
	}
	c.Count("startup:accepted")
	if refuse != "" {
		c.Count("oracle:must-refuse:" + refuse)
		c.Fail("C01:not-refused:"+refuse, "settings that void the bound were not refused at start-up", []string{op},
			map[string]any{"reason": refuse, "refImpact": bits(s.ri), "peerImpact": bits(s.pi), "corrections": w.corrs})
		return
	}
	// exactly one Do per round / per Sleep
	if len(w.corrs) != len(s.rounds) || len(w.doAtSleep) != len(s.rounds) {
		c.Fail("C01:do-count", "number of corrections differs from the number of rounds", []string{op},
			map[string]any{"rounds": len(s.rounds), "do": len(w.corrs), "sleep": len(w.doAtSleep)})
	}
	for i, n := range w.doAtSleep {
		if n != i+1 {
			c.Fail("C01:do-per-sleep", "not exactly one Do between consecutive Sleeps", []string{op}, map[string]any{"sleep": i, "do_so_far": n})
			break
		}
	}
	for _, d := range w.sleepArgs {
		if d != s.interval {
			c.Fail("C01:sleep-arg", "Sleep called with something else than SyncInterval", []string{op}, map[string]any{"arg": d})
			break
		}
	}
	for _, d := range w.driftArgs {
		if d != s.interval {
			c.Fail("C01:drift-arg", "Drift called with something else than SyncInterval", []string{op}, map[string]any{"arg": d})
			break
		}
	}
	if w.doLate {
		c.Fail("C01:do-late", "a correction was handed out later than SyncTimeout after the round began (virtual time)", []string{op}, nil)
	}
	// magnitude
	mr, mp := capExact(s.ri, s.drift), capExact(s.pi, s.drift)
	var bound *big.Float
	var hw float64
	switch {
	case s.nref == 0 && s.npeer == 0:
		bound, hw = new(big.Float), 0
		c.Count("oracle:bound=0")
	case s.npeer == 0:
		bound, hw = mr, s.ri*float64(s.drift)
		c.Count("oracle:bound=ref-cap")
	default:
		bound, hw = mp, s.pi*float64(s.drift) // admissible: ref cap < peer cap
		if s.nref == 0 {
			c.Count("oracle:bound=peer-cap")
		} else {
			c.Count("oracle:bound=max-cap")
		}
	}
	if s.nref != 0 && s.npeer != 0 && hw >= 0x1p62 {
		// Midpoint's y-x may wrap when the peer cap is 2^62 ns (146 years) or more: outside the
		// stated hypothesis of C01_combined; the run is still compared with the model.
		c.Count("oracle:skipped-peer-cap>=2^62")
		return
	}
	// slack for the two roundings (the product; float64(|x|) above 2^53): a factor 1+2^-51
	slack := new(big.Float).SetPrec(200).Mul(bound, new(big.Float).SetPrec(200).SetFloat64(1+0x1p-51))
	for i, x := range w.corrs {
		a := absBig(x)
		if a.Cmp(slack) > 0 {
			c.Fail("C01:over-cap", "correction exceeds impact factor x drift", []string{op},
				map[string]any{"round": i, "corr": x, "cap": bound.Text('g', 30)})
			return
		}
		if hw < 0x1p53 && a.Cmp(new(big.Float).SetFloat64(hw)) > 0 {
			c.Fail("C01:over-cap-exact", "correction exceeds the float64 cap (cap < 2^53)", []string{op},
				map[string]any{"round": i, "corr": x, "cap": bits(hw)})
			return
		}
		if float64(time.Duration(x).Abs()) > hw {
			c.Fail("C01:over-cap-float", "float64(|corr|) exceeds the float64 cap", []string{op},
				map[string]any{"round": i, "corr": x, "cap": bits(hw)})
			return
		}
	}
	c.Count("oracle:bound-checked-runs")
	checkConsensusRounds(c, s, w, op)
}

// consensus returns (v, true) when every source of the side answers v without error strictly
// before the timeout: the side's measured offset is then v whatever the slice held before
// (for peers, with at least 3 of them, in spite of the local clock's 0).
func consensus(s *spec, acts []act) (int64, bool) {
	if len(acts) == 0 || s.timeout <= 0 {
		return 0, false
	}
	for _, a := range acts {
		if (a.kind != 'o' && a.kind != 'c') || a.delay >= s.timeout || a.off != acts[0].off {
			return 0, false
		}
	}
	return acts[0].off, true
}

func absI(x int64) *big.Int { b := big.NewInt(x); return b.Abs(b) }

// bounded is the property's "bounded value" for caps below 2^53 (where it is exact):
// v itself if |v| <= cap, else cap towards zero to an integer, with v's sign.
func bounded(v int64, cap float64) int64 {
	fl := int64(math.Floor(cap))
	if absI(v).Cmp(big.NewInt(fl)) <= 0 {
		return v
	}
	if v < 0 {
		return -fl
	}
	return fl
}

// checkConsensusRounds: the clauses "a peer offset within the cutoff contributes nothing" and
// "when both contribute the correction is the midpoint of the two bounded values", evaluated on
// rounds where the measured offsets are known without recomputing the fault-tolerant midpoint.
func checkConsensusRounds(c *lib.Ctx, s *spec, w *world, op string) {
	mr, mp := s.ri*float64(s.drift), s.pi*float64(s.drift)
	if !(mp < 0x1p53) || len(w.corrs) != len(s.rounds) {
		return
	}
	for k, rd := range s.rounds {
		corr := w.corrs[k]
		vr, okr := consensus(s, rd[0])
		vp, okp := consensus(s, rd[1])
		if s.nref != 0 && !okr {
			continue
		}
		if s.npeer != 0 && (!okp || s.npeer < 3) {
			continue
		}
		if s.nref == 0 && s.npeer == 0 {
			continue
		}
		if s.npeer != 0 && vp == math.MinInt64 && s.cutoff == math.MaxInt64 {
			// time.Duration.Abs saturates: |MinInt64| reads as MaxInt64, which is not beyond a
			// cutoff of MaxInt64 although 2^63 is; the peer then contributes nothing (the
			// conservative direction) - not a clause of the property, tied by the model only
			c.Count("oracle:skip-minint64-at-cutoff-maxint64")
			continue
		}
		within := s.npeer == 0 || absI(vp).Cmp(big.NewInt(s.cutoff)) <= 0
		switch {
		case within && s.nref == 0:
			c.Count("oracle:cutoff:no-refs")
			if corr != 0 {
				c.Fail("C01:cutoff", "a peer offset within the cutoff contributed to the correction", []string{op},
					map[string]any{"round": k, "peer": vp, "cutoff": s.cutoff, "corr": corr})
				return
			}
		case within:
			c.Count("oracle:cutoff:refs-only")
			if corr != bounded(vr, mr) {
				c.Fail("C01:cutoff-ref", "with the peer offset within the cutoff the correction is not the bounded reference value", []string{op},
					map[string]any{"round": k, "ref": vr, "peer": vp, "cutoff": s.cutoff, "corr": corr, "want": bounded(vr, mr)})
				return
			}
		case s.nref == 0:
			c.Count("oracle:peer-only")
			if corr != bounded(vp, mp) {
				c.Fail("C01:peer-only", "the correction is not the bounded peer value", []string{op},
					map[string]any{"round": k, "peer": vp, "corr": corr, "want": bounded(vp, mp)})
				return
			}
		default:
			c.Count("oracle:midpoint")
			a, b := bounded(vr, mr), bounded(vp, mp) // |a|,|b| < 2^53: no overflow below
			d := 2*corr - (a + b)
			lo, hi := min(a, b), max(a, b)
			if d < -1 || d > 1 || corr < lo || corr > hi {
				c.Fail("C01:midpoint", "the correction is not the midpoint of the two bounded values", []string{op},
					map[string]any{"round": k, "ref": vr, "peer": vp, "a": a, "b": b, "corr": corr})
				return
			}
		}
	}
}

// do runs one generated spec through the correspondence and the oracle.
func do(c *lib.Ctx, s *spec) *world {
	op := s.op()
	if ans, handled := guarded(c, op); handled {
		if ans != "" {
			c.Emit(op, ans)
		}
		return nil
	}
	var w *world
	var p any
	res := lib.Try(func() string {
		w, p = runSync(s)
		if p != nil {
			return "panic " + lib.PanicClass(p)
		}
		return "ok " + lib.IntList(w.corrs)
	})
	c.Emit(op, res)
	if w != nil {
		checkRun(c, s, w, p, op)
	}
	if p != nil {
		return nil
	}
	return w
}

// oracleOnly runs a spec whose outcome is a scheduler race in the real code (delay = timeout,
// timeout = 0): no correspondence line, only the direct oracle.
func oracleOnly(c *lib.Ctx, s *spec) {
	op := s.op()
	if _, handled := guarded(c, op); handled {
		return
	}
	var w *world
	var p any
	lib.Try(func() string { w, p = runSync(s); return "" })
	if w != nil {
		checkRun(c, s, w, p, op)
	}
}

// ---------------------------------------------------------------- generators

func up(f float64) float64   { return math.Nextafter(f, math.Inf(1)) }
func down(f float64) float64 { return math.Nextafter(f, math.Inf(-1)) }

// satAdd adds with saturation (generator arithmetic only).
func satAdd(a, b int64) int64 {
	s := a + b
	if (a > 0 && b > 0 && s < 0) || (a < 0 && b < 0 && s >= 0) {
		if a > 0 {
			return math.MaxInt64
		}
		return math.MinInt64
	}
	return s
}

func f2i(f float64) int64 {
	switch {
	case f != f:
		return 0
	case f >= 0x1p63:
		return math.MaxInt64
	case f <= -0x1p63:
		return math.MinInt64
	}
	return int64(f)
}

// validCfg draws an admissible configuration (no sources, no rounds yet).
func validCfg(r *lib.Rand) *spec {
	s := &spec{}
	switch r.Intn(8) {
	case 0:
		s.ri = 1.25
	case 1:
		s.ri = up(1)
	case 2:
		s.ri = 1.5
	case 3:
		s.ri = 1 + float64(r.Range(1, 1<<20))/float64(1<<20)
	case 4:
		s.ri = float64(r.Range(2, 9))
	default:
		s.ri = 1 + float64(r.Range(1, 4_000_000))/1e6
	}
	switch r.Intn(6) {
	case 0:
		s.pi = 2.5
	case 1:
		s.pi = up(s.ri + 1)
	case 2:
		s.pi = s.ri + 1.5
	case 3:
		s.pi = s.ri*2 + 1
	default:
		s.pi = s.ri + 1 + float64(r.Range(1, 5_000_000))/1e6
	}
	for !(s.pi-1.0 > s.ri) || !(s.pi > 1.0) {
		s.pi = up(s.pi) + 0.25
	}
	switch r.Intn(12) {
	case 0:
		s.drift = 1
	case 1:
		s.drift = 10_000 // 10 ppm x 1 s
	case 2:
		s.drift = r.Range(1, 100)
	case 3:
		s.drift = r.Range(1, 1_000_000_000)
	case 4: // ref cap around 2^53
		s.drift = satAdd(f2i(0x1p53/s.ri), r.Range(-3, 3))
	case 5: // peer cap around 2^53
		s.drift = satAdd(f2i(0x1p53/s.pi), r.Range(-3, 3))
	case 6: // peer cap around 2^62
		s.drift = satAdd(f2i(0x1p62/s.pi), r.Range(-2000, 2000))
	case 7: // peer cap around 2^63
		s.drift = satAdd(f2i(0x1p63/s.pi), r.Range(-2000, 2000))
	case 8:
		s.drift = math.MaxInt64 // clocks.UnknownDrift
	case 9:
		s.drift = r.Range(1, math.MaxInt64)
	default:
		s.drift = r.Range(1000, 1_000_000)
	}
	if s.drift <= 0 {
		s.drift = 1
	}
	switch r.Intn(4) {
	case 0:
		s.interval = 1_000_000_000
	case 1:
		s.interval = r.Range(2, 1000)
	default:
		s.interval = r.Range(1000, 1_000_000_000_000)
	}
	switch r.Intn(4) {
	case 0:
		s.timeout = s.interval / 2
	case 1:
		s.timeout = 1
	default:
		s.timeout = r.Range(1, s.interval/2)
	}
	mr, mp := f2i(s.ri*float64(s.drift)), f2i(s.pi*float64(s.drift))
	switch r.Intn(10) {
	case 0:
		s.cutoff = 0
	case 1:
		s.cutoff = 50_000
	case 2:
		s.cutoff = r.Range(-10, 10)
	case 3:
		s.cutoff = satAdd(mr, r.Range(-2, 2))
	case 4:
		s.cutoff = satAdd(mp, r.Range(-2, 2))
	case 5:
		s.cutoff = math.MaxInt64
	case 6:
		s.cutoff = math.MinInt64
	case 7:
		s.cutoff = r.I64()
	default:
		s.cutoff = r.Range(0, mp/2+1)
	}
	return s
}

// pool of interesting offsets for a configuration: every comparison of the loop body at /
// just below / just above its threshold, both signs, and the int64 extremes.
func offsetPool(s *spec) []int64 {
	mr, mp := f2i(s.ri*float64(s.drift)), f2i(s.pi*float64(s.drift))
	base := []int64{0, 1, 2, s.cutoff, mr, mp}
	var out []int64
	for _, b := range base {
		for _, d := range []int64{-2, -1, 0, 1, 2} {
			v := satAdd(b, d)
			out = append(out, v)
			if v != math.MinInt64 {
				out = append(out, -v)
			}
		}
		// twice the value (FTM of [0, 2v] is v)
		for _, d := range []int64{-1, 0, 1} {
			v := satAdd(satAdd(b, b), d)
			out = append(out, v)
			if v != math.MinInt64 {
				out = append(out, -v)
			}
		}
	}
	out = append(out, math.MinInt64, math.MinInt64+1, math.MaxInt64, math.MaxInt64-1, 1<<53, 1<<53+1, -(1<<53 + 1), 1<<62, -(1 << 62), 1<<62+1)
	return out
}

func genOffset(r *lib.Rand, pool []int64, mp int64) int64 {
	switch r.Intn(10) {
	case 0, 1, 2, 3, 4:
		return pool[r.Intn(len(pool))]
	case 5:
		return r.I64()
	case 6:
		return r.Range(-3_600_000_000_000, 3_600_000_000_000)
	default:
		lim := satAdd(satAdd(mp, mp), 10)
		if lim <= 0 {
			lim = 10
		}
		return r.Range(-lim, lim)
	}
}

func inTimeDelay(r *lib.Rand, s *spec) int64 {
	switch r.Intn(4) {
	case 0:
		return 0
	case 1:
		return s.timeout - 1
	default:
		return r.Range(0, s.timeout-1)
	}
}

func lateDelay(r *lib.Rand, s *spec) int64 {
	switch r.Intn(4) {
	case 0:
		return s.timeout + 1
	case 1:
		return r.Range(s.timeout+1, s.interval)
	default:
		return r.Range(s.timeout+1, 3*s.interval)
	}
}

// genRounds fills s.rounds with n rounds of source behaviour.
func genRounds(c *lib.Ctx, r *lib.Rand, s *spec, n int) {
	pool := offsetPool(s)
	mp := f2i(s.pi * float64(s.drift))
	for k := 0; k < n; k++ {
		var rd [2][]act
		pat := r.Intn(10)
		// consensus value: every in-time source of a side reports it, so the fault-tolerant
		// midpoint is exactly that value (peers: with >= 3 of them, in spite of the local 0)
		cons := [2]int64{genOffset(r, pool, mp), genOffset(r, pool, mp)}
		for side, cnt := range []int{s.nref, s.npeer} {
			for i := 0; i < cnt; i++ {
				var a act
				switch {
				case pat <= 3: // consensus, everything in time
					a = act{kind: 'o', off: cons[side], delay: inTimeDelay(r, s)}
				case pat == 4: // consensus with a minority of outliers
					if i < (cnt-1)/3 {
						a = act{kind: 'o', off: genOffset(r, pool, mp), delay: inTimeDelay(r, s)}
					} else {
						a = act{kind: 'o', off: cons[side], delay: inTimeDelay(r, s)}
					}
				case pat == 5: // everything fails / late / hangs
					switch r.Intn(4) {
					case 0:
						a = act{kind: 'e', delay: inTimeDelay(r, s)}
					case 1:
						a = act{kind: 'o', off: genOffset(r, pool, mp), delay: lateDelay(r, s)}
					case 2:
						a = act{kind: 'h'}
					default:
						a = act{kind: 'c', off: genOffset(r, pool, mp), delay: lateDelay(r, s)}
					}
				default: // mixed
					switch r.Intn(12) {
					case 0:
						a = act{kind: 'e', delay: inTimeDelay(r, s)}
					case 1:
						a = act{kind: 'e', off: genOffset(r, pool, mp), delay: lateDelay(r, s)}
					case 2:
						a = act{kind: 'o', off: genOffset(r, pool, mp), delay: lateDelay(r, s)}
					case 3:
						a = act{kind: 'h'}
					case 4:
						a = act{kind: 'c', off: genOffset(r, pool, mp), delay: lateDelay(r, s)}
					case 5:
						a = act{kind: 'c', off: genOffset(r, pool, mp), delay: 1 + inTimeDelay(r, s)}
						if a.delay >= s.timeout {
							a = act{kind: 'o', off: a.off}
						}
					default:
						a = act{kind: 'o', off: genOffset(r, pool, mp), delay: inTimeDelay(r, s)}
					}
				}
				switch {
				case a.kind == 'h':
					c.Count("source:hang")
				case a.kind == 'e':
					c.Count("source:error")
				case a.delay > s.timeout && a.kind == 'c':
					c.Count("source:cancelled")
				case a.delay > s.timeout:
					c.Count("source:late")
				case a.delay == s.timeout-1:
					c.Count("source:ok-1ns-before-timeout")
				case a.delay == 0:
					c.Count("source:ok-immediately")
				default:
					c.Count("source:ok-delayed")
				}
				if a.delay == s.timeout+1 {
					c.Count("source:1ns-after-timeout")
				}
				rd[side] = append(rd[side], a)
			}
		}
		s.rounds = append(s.rounds, rd)
	}
}

func countCfg(c *lib.Ctx, s *spec) {
	hw := s.pi * float64(s.drift)
	switch {
	case hw < 0x1p53:
		c.Count("cap:peer<2^53")
	case hw < 0x1p62:
		c.Count("cap:2^53<=peer<2^62")
	case hw < 0x1p63:
		c.Count("cap:2^62<=peer<2^63")
	default:
		c.Count("cap:peer>=2^63")
	}
	c.Count(fmt.Sprintf("sources:ref=%d", s.nref))
	c.Count(fmt.Sprintf("sources:peer=%d", s.npeer))
}

func gen(c *lib.Ctx) {
	r := c.Rand

	// ---- unit ops: timemath.Midpoint/Sgn, Duration.Abs, FaultTolerantMidpoint (local copies in the model)
	c.Comment("unit ops")
	edge := []int64{0, 1, -1, 2, -2, 3, -3, math.MaxInt64, math.MinInt64, math.MaxInt64 - 1, math.MinInt64 + 1, 1 << 62, -(1 << 62), 1<<62 - 1, 1<<62 + 1, -(1<<62 + 1)}
	for _, x := range edge {
		c.Dof("tm.sgn %d", x)
		c.Dof("dur.abs %d", x)
		for _, y := range edge {
			c.Dof("tm.mid %d %d", x, y)
		}
	}
	ur := r.Fork("unit")
	for i := 0; i < c.Scale(2000, 40000); i++ {
		x, y := ur.I64(), ur.I64()
		if ur.Chance(50) {
			x, y = ur.Range(-1000, 1000), ur.Range(-1000, 1000)
		}
		c.Dof("tm.mid %d %d", x, y)
		c.Dof("tm.sgn %d", x)
		c.Dof("dur.abs %d", x)
	}
	c.Do("ftm []")
	for i := 0; i < c.Scale(1500, 30000); i++ {
		n := int(ur.Range(1, 12))
		xs := make([]int64, n)
		for j := range xs {
			switch ur.Intn(4) {
			case 0:
				xs[j] = ur.I64()
			case 1:
				xs[j] = edge[ur.Intn(len(edge))]
			default:
				xs[j] = ur.Range(-50, 50)
			}
		}
		c.Dof("ftm %s", lib.IntList(xs))
	}


	// ---- the drift chain: clock_drift (ns per second, after clockDrift(cfg)) -> NewSystemClock ->
	// Drift(SyncInterval) = the factor of both caps. Oracle (math/big, C01Cfg_runDrift_*): absent
	// drift gives MaxInt64; a configured drift of 1 ns/s .. 0.4 s/s whose exact allowance
	// d*iv/1e9 is at least 2 ns gives a positive value within 1 ns + 2^-50 of it.
	c.Comment("drift chain")
	dr := r.Fork("drift")
	dvals := []int64{0, 1, 2, 3, 14, 15, 16, 29, 30, 1000, 10_000, 1_000_000, 399_999_999, 400_000_000, 500_000_000, 999_999_999, 1_000_000_000, 1_000_000_001, math.MaxInt64, -1, -10_000, math.MinInt64}
	ivals := []int64{1, 2, 499_999_999, 500_000_000, 999_999_999, 1_000_000_000, 1_000_000_001, 2_000_000_000, 64_000_000_000, 3_600_000_000_000, math.MaxInt64, 0, -1, -1_000_000_000, math.MinInt64}
	driftOp := func(d, iv int64) {
		ans := c.Dof("clk.drift %d %d", d, iv)
		xs, ok := lib.Ints(ans)
		if !ok || len(xs) != 1 {
			return
		}
		got := xs[0]
		if d == 0 {
			c.Count("drift:unknown")
			if got != math.MaxInt64 {
				c.Fail("C01:drift-unknown", "an absent clock_drift must give the maximal allowance", []string{fmt.Sprintf("clk.drift %d %d", d, iv)}, map[string]any{"got": got})
			}
			return
		}
		if d < 1 || d > 400_000_000 || iv <= 0 {
			c.Count("drift:outside-oracle-range")
			return
		}
		exact := new(big.Rat).SetFrac(new(big.Int).Mul(big.NewInt(d), big.NewInt(iv)), big.NewInt(1_000_000_000))
		if exact.Cmp(big.NewRat(2, 1)) < 0 {
			c.Count("drift:allowance<2ns")
			return
		}
		c.Count("drift:checked")
		diff := new(big.Rat).Sub(new(big.Rat).SetInt64(got), exact)
		diff.Abs(diff)
		lim := new(big.Rat).Add(big.NewRat(1, 1), new(big.Rat).Quo(exact, new(big.Rat).SetInt(new(big.Int).Lsh(big.NewInt(1), 50))))
		if got <= 0 || diff.Cmp(lim) > 0 {
			c.Fail("C01:drift-allowance", "Drift(interval) of the configured clock is not positive / not within 1 ns + 2^-50 of drift x interval",
				[]string{fmt.Sprintf("clk.drift %d %d", d, iv)}, map[string]any{"got": got, "exact": exact.FloatString(3)})
		}
	}
	for _, d := range dvals {
		for _, iv := range ivals {
			driftOp(d, iv)
		}
	}
	for i := 0; i < c.Scale(1500, 30000); i++ {
		d := dr.Range(1, 400_000_000)
		if dr.Chance(50) {
			d = dr.Range(1, 200_000)
		}
		iv := dr.Range(1, 100_000_000_000)
		switch dr.Intn(4) {
		case 0:
			iv = 1_000_000_000
		case 1:
			iv = dr.Range(1, 20) * 500_000_000
		}
		driftOp(d, iv)
	}

	// ---- start-up: both sides of every admissibility comparison, NaN/Inf factors
	c.Comment("start-up")
	sr := r.Fork("startup")
	nan, inf := math.NaN(), math.Inf(1)
	startups := func(base *spec) {
		mk := func(f func(s *spec)) {
			s := *base
			s.rounds = nil
			f(&s)
			s.nref, s.npeer = int(sr.Range(0, 2)), int(sr.Range(0, 2))
			if s.timeout <= 0 || s.interval > 1_000_000_000_000_000 || s.interval <= 0 {
				// keep virtual time small and avoid the timeout-0 race: immediate sources only
				if s.timeout <= 0 {
					s.nref, s.npeer = 0, 0
				}
			}
			var rd [2][]act
			for i := 0; i < s.nref; i++ {
				rd[0] = append(rd[0], act{kind: 'o', off: 3_600_000_000_000})
			}
			for i := 0; i < s.npeer; i++ {
				rd[1] = append(rd[1], act{kind: 'o', off: -3_600_000_000_000})
			}
			s.rounds = append(s.rounds, rd)
			if sr.Chance(50) && s.interval <= 1_000_000_000_000_000 {
				s.rounds = append(s.rounds, rd)
			}
			do(c, &s)
		}
		for _, v := range []float64{1, down(1), up(1), 0, -1, math.Copysign(0, -1), 0.5, 5e-324, nan, inf, -inf, math.MaxFloat64, -1.25, base.pi - 1, down(base.pi - 1), up(base.pi - 1), base.pi} {
			mk(func(s *spec) { s.ri = v })
			c.Count("startup-gen:ref-factor")
		}
		for _, v := range []float64{1, down(1), up(1), 0, -1, 0.5, nan, inf, -inf, math.MaxFloat64, base.ri + 1, up(base.ri + 1), down(base.ri + 1), up(up(base.ri + 1)), base.ri, 2, up(2), 2.25} {
			mk(func(s *spec) { s.pi = v })
			c.Count("startup-gen:peer-factor")
		}
		mk(func(s *spec) { s.ri, s.pi = nan, nan })
		mk(func(s *spec) { s.ri, s.pi = inf, inf })
		mk(func(s *spec) { s.ri, s.pi = 1.25, inf })
		mk(func(s *spec) { s.ri, s.pi = up(1), up(2) })
		mk(func(s *spec) { s.ri, s.pi = up(1), up(up(2)) })
		mk(func(s *spec) { s.ri, s.pi = 0x1p53, 0x1p53+2 })
		mk(func(s *spec) { s.ri, s.pi = 0x1p53, 0x1p53+4 })
		mk(func(s *spec) { s.ri, s.pi = 1e300, math.MaxFloat64; s.drift = math.MaxInt64 }) // cap overflows to +Inf
		mk(func(s *spec) { s.ri, s.pi = 1e290, 1e291; s.drift = 1 << 62 })
		for _, v := range []int64{0, -1, 1, 2, 3, math.MinInt64, math.MaxInt64, math.MaxInt64 - 1} {
			mk(func(s *spec) { s.interval = v; s.timeout = 0 })
			mk(func(s *spec) { s.interval = v; s.timeout = v / 2 })
			mk(func(s *spec) { s.interval = v; s.timeout = satAdd(v/2, 1) })
			c.Count("startup-gen:interval")
		}
		for _, v := range []int64{0, -1, 1, base.interval / 2, base.interval/2 + 1, base.interval/2 - 1, base.interval, math.MinInt64, math.MaxInt64} {
			mk(func(s *spec) { s.timeout = v })
			c.Count("startup-gen:timeout")
		}
		for _, iv := range []int64{5, 6, 7, 1_000_000_001} { // odd intervals: truncating /2
			mk(func(s *spec) { s.interval = iv; s.timeout = iv / 2 })
			mk(func(s *spec) { s.interval = iv; s.timeout = iv/2 + 1 })
		}
		for _, v := range []int64{0, -1, 1, math.MinInt64, math.MaxInt64, -10_000} {
			mk(func(s *spec) { s.drift = v })
			c.Count("startup-gen:drift")
		}
	}
	startups(&spec{ri: 1.25, pi: 2.5, cutoff: 50_000, timeout: 500_000_000, interval: 1_000_000_000, drift: 10_000})
	for i := 0; i < c.Scale(3, 40); i++ {
		startups(validCfg(sr))
	}
	// random settings, mostly inadmissible
	for i := 0; i < c.Scale(200, 4000); i++ {
		s := validCfg(sr)
		pf := func() float64 {
			switch sr.Intn(6) {
			case 0:
				return math.Float64frombits(sr.U64())
			case 1:
				return float64(sr.Range(-3, 5))
			case 2:
				return nan
			default:
				return float64(sr.Range(0, 4_000_000)) / 1e6
			}
		}
		if sr.Chance(60) {
			s.ri = pf()
		}
		if sr.Chance(60) {
			s.pi = pf()
		}
		if sr.Chance(30) {
			s.drift = sr.Range(-5, 5)
		}
		if sr.Chance(30) {
			s.interval = sr.Range(-5, 50)
			s.timeout = sr.Range(-2, 30)
		}
		if s.timeout > 0 {
			s.nref, s.npeer = int(sr.Range(0, 3)), int(sr.Range(0, 3))
		}
		if s.interval > 0 && s.timeout > 0 && s.timeout <= s.interval/2 {
			genRounds(c, sr, s, int(sr.Range(1, 3)))
		} else {
			var rd [2][]act
			for i := 0; i < s.nref; i++ {
				rd[0] = append(rd[0], act{kind: 'o', off: 77})
			}
			for i := 0; i < s.npeer; i++ {
				rd[1] = append(rd[1], act{kind: 'o', off: -77})
			}
			s.rounds = append(s.rounds, rd)
		}
		do(c, s)
	}

	// ---- the default configuration of timeservice.go, boundary offsets, single round, consensus
	c.Comment("boundary sweep")
	br := r.Fork("boundary")
	for i := 0; i < c.Scale(40, 600); i++ {
		s := validCfg(br)
		if i == 0 {
			s = &spec{ri: 1.25, pi: 2.5, cutoff: 50_000, timeout: 500_000_000, interval: 1_000_000_000, drift: 10_000}
		}
		pool := offsetPool(s)
		for _, shape := range [][2]int{{1, 0}, {0, 3}, {1, 3}, {4, 4}} {
			s.nref, s.npeer = shape[0], shape[1]
			// all pool values on one side, a fixed partner on the other
			for k := 0; k < len(pool); k += 1 + br.Intn(c.Scale(6, 2)) {
				v := pool[k]
				partner := pool[br.Intn(len(pool))]
				s.rounds = nil
				var rd [2][]act
				for j := 0; j < s.nref; j++ {
					rd[0] = append(rd[0], act{kind: 'o', off: v})
				}
				for j := 0; j < s.npeer; j++ {
					rd[1] = append(rd[1], act{kind: 'o', off: partner})
				}
				s.rounds = append(s.rounds, rd)
				var rd2 [2][]act
				for j := 0; j < s.nref; j++ {
					rd2[0] = append(rd2[0], act{kind: 'o', off: partner})
				}
				for j := 0; j < s.npeer; j++ {
					rd2[1] = append(rd2[1], act{kind: 'o', off: v})
				}
				s.rounds = append(s.rounds, rd2)
				countCfg(c, s)
				do(c, s)
				c.Count("stream:boundary")
			}
		}
	}

	// ---- histories
	c.Comment("histories")
	hr := r.Fork("hist")
	for i := 0; i < c.Scale(600, 20000); i++ {
		s := validCfg(hr)
		s.nref, s.npeer = int(hr.Range(0, 9)), int(hr.Range(0, 9))
		if hr.Chance(10) {
			s.nref = 0
		}
		if hr.Chance(10) {
			s.npeer = 0
		}
		n := int(hr.Range(1, 50))
		if hr.Chance(60) {
			n = int(hr.Range(1, 8))
		}
		genRounds(c, hr, s, n)
		countCfg(c, s)
		c.Count("stream:history")
		do(c, s)
	}


	// ---- stale entries of the reused result slices (Props/C01.lean, "Stale entries"): pairs of
	// histories that end in the same round but differ before. A source that fails in the last
	// round keeps voting with what an earlier round left in its slot, so the last corrections may
	// differ (counted) — the generic oracle bounds both. When EVERY source answers in time in the
	// last round nothing of the earlier rounds is left: the last corrections must be equal
	// (`C01:stale-leak`, a metamorphic oracle that needs no model).
	c.Comment("stale pairs")
	const dfl = "3ff4000000000000 4004000000000000 50000 500000000 1000000000 10000 2 0 "
	for _, h := range []struct {
		rounds string
		want   []int64
	}{{"o0,o0/- o4000,e/-", []int64{0, 2000}}, {"o12000,o12000/- o4000,e/-", []int64{12000, 8000}}} {
		s := parseSpec(strings.Fields(dfl + h.rounds))
		if w := do(c, s); w != nil && lib.IntList(w.corrs) != lib.IntList(h.want) {
			c.Fail("C01:stale-corpus", "the decided two-round history of C01_stale_entry_changes_correction gives other corrections",
				[]string{s.op()}, map[string]any{"got": w.corrs, "want": h.want})
		}
		c.Count("stale:corpus")
	}
	sp := r.Fork("stale")
	for i := 0; i < c.Scale(150, 3000); i++ {
		a := validCfg(sp)
		a.nref, a.npeer = int(sp.Range(0, 5)), int(sp.Range(0, 5))
		if a.nref == 0 && a.npeer == 0 {
			a.nref = 1
		}
		b := *a
		genRounds(c, sp, a, int(sp.Range(1, 5)))
		b.rounds = nil
		genRounds(c, sp, &b, int(sp.Range(1, 5)))
		all := sp.Chance(60)
		last := *a
		last.rounds = nil
		genRounds(c, sp, &last, 1)
		rd := last.rounds[0]
		if all {
			pool := offsetPool(a)
			mp := f2i(a.pi * float64(a.drift))
			for side := 0; side < 2; side++ {
				for j := range rd[side] {
					rd[side][j] = act{kind: 'o', off: genOffset(sp, pool, mp), delay: inTimeDelay(sp, a)}
				}
			}
		}
		a.rounds = append(a.rounds, rd)
		b.rounds = append(b.rounds, rd)
		wa, wb := do(c, a), do(c, &b)
		if wa == nil || wb == nil || len(wa.corrs) != len(a.rounds) || len(wb.corrs) != len(b.rounds) {
			continue
		}
		la, lb := wa.corrs[len(wa.corrs)-1], wb.corrs[len(wb.corrs)-1]
		switch {
		case all && la != lb:
			c.Fail("C01:stale-leak", "every source answered in time in the last round, yet the correction depends on earlier rounds",
				[]string{a.op(), b.op()}, map[string]any{"corr_a": la, "corr_b": lb})
		case all:
			c.Count("stale:all-answer:last-corrections-equal")
		case la != lb:
			c.Count("stale:failing-sources:earlier-rounds-changed-the-correction")
		default:
			c.Count("stale:failing-sources:same-correction")
		}
	}

	// ---- scheduler races of the real code (delay = timeout; timeout = 0): direct oracle only
	rr := r.Fork("race")
	for i := 0; i < c.Scale(60, 1000); i++ {
		s := validCfg(rr)
		s.nref, s.npeer = int(rr.Range(0, 5)), int(rr.Range(0, 5))
		if rr.Chance(30) {
			s.timeout = 0
			c.Count("race:timeout=0")
		}
		genRounds(c, rr, s, int(rr.Range(1, 6)))
		for k := range s.rounds {
			for side := 0; side < 2; side++ {
				for j := range s.rounds[k][side] {
					a := &s.rounds[k][side][j]
					if s.timeout == 0 {
						if a.kind == 'c' {
							a.kind = 'o'
						}
						a.delay = 0
					} else if (a.kind == 'o' || a.kind == 'c') && rr.Chance(50) {
						a.delay = s.timeout
						c.Count("race:delay=timeout")
					}
				}
			}
		}
		c.Count("stream:race(oracle-only)")
		oracleOnly(c, s)
	}
}

func main() {
	if op := os.Getenv(envOne); op != "" {
		runOne(op)
		return
	}
	for _, a := range os.Args[1:] {
		if a == "-replay" || a == "--replay" || strings.HasPrefix(a, "-replay=") || strings.HasPrefix(a, "--replay=") {
			isolateAll = true
		}
	}
	if !isolateAll {
		if os.Getenv(envSupervised) == "" {
			supervise() // guard.go: the generator runs in a child, restarted after a process death
			return
		}
		childSetup()
	}
	lib.Main(exec, gen)
}
