// Process-death guard of harness c01.
//
// core/sync.Run starts goroutines of its own (one per side and round, and the clients' one per
// source).  A panic in one of them cannot be recovered by the harness: the process dies, and with
// it a whole generator run — the check would then only say "harness crashed"
// (`no-failing-input-found`).  The property, however, speaks about exactly that event: "in every
// round exactly one correction is handed to the clock discipline … whatever offsets, errors or
// delays the sources produce" — a round in which the time service dies hands over none.
//
// So the generator run is SUPERVISED: `main` re-executes the harness as a child and lets it
// journal the op line it is about to run.  If the child dies (a Go panic / fatal error, not an
// ordinary exit), the journalled op is the concrete input; the supervisor starts the generator
// again with that op marked: marked ops are executed ISOLATED, in a process of their own
// (`C01_ONE=<op>`), which reports every correction as it is handed over and then the answer.  An
// isolated run that dies is answered `died after=<k> <panic class>` — recorded as the
// implementation's answer (the model answers `ok […]`: a correspondence mismatch) and as a direct
// oracle failure `C01:process-death` whose replay is that single op line.  `-replay` runs every
// `sync.run` isolated, so a replay shows the death instead of dying itself.
//
// Nothing here knows what makes a run die; on the unchanged tree no run does, the supervisor's
// child exits 0 on the first attempt and the cost is one journal write per Run.
package main

import (
	"bufio"
	"bytes"
	"fmt"
	"os"
	osexec "os/exec"
	"strings"

	"verifharness/lib"
)

const (
	envSupervised = "C01_SUPERVISED" // set in the generator child
	envJournal    = "C01_JOURNAL"    // file the child journals the current op to
	envMarked     = "C01_MARKED"     // file with the ops to run isolated, one per line
	envLast       = "C01_LAST"       // "1": after the last marked op was run, skip further Runs
	envOne        = "C01_ONE"        // run this single op, streaming its corrections
	maxDeaths     = 3                // distinct dying ops pursued per check run
)

var (
	journalF   *os.File
	marked     map[string]bool
	markedLeft int
	lastRun    bool
	isolateAll bool // -replay
	streamDo   bool // C01_ONE child: print every correction at once
)

// journal records the op that is about to run in-process.
func journal(op string) {
	if journalF == nil {
		return
	}
	journalF.Truncate(0)
	journalF.WriteAt([]byte(op), 0)
}

// isolated runs one op in a process of its own and returns the answer line.
func isolated(op string) string {
	self, err := os.Executable()
	if err != nil {
		return "bad-op"
	}
	cmd := osexec.Command(self)
	cmd.Env = append(os.Environ(), envOne+"="+op)
	var out, errb bytes.Buffer
	cmd.Stdout, cmd.Stderr = &out, &errb
	runErr := cmd.Run()
	done, ans := 0, ""
	for _, ln := range strings.Split(out.String(), "\n") {
		switch {
		case strings.HasPrefix(ln, "do "):
			done++
		case strings.HasPrefix(ln, "= "):
			ans = ln[2:]
		}
	}
	if ans != "" && runErr == nil {
		return ans
	}
	msg := "exit:" + fmt.Sprint(runErr)
	for _, ln := range strings.Split(errb.String(), "\n") {
		if strings.HasPrefix(ln, "panic: ") {
			msg = lib.PanicClass(strings.TrimPrefix(ln, "panic: "))
			break
		}
		if strings.HasPrefix(ln, "fatal error: ") {
			msg = "fatal:" + strings.ReplaceAll(strings.TrimPrefix(ln, "fatal error: "), " ", "_")
			break
		}
	}
	return fmt.Sprintf("died after=%d %s", done, msg)
}

// runOne is the body of the C01_ONE child.
func runOne(op string) {
	t := strings.Fields(op)
	if len(t) == 0 || t[0] != "sync.run" {
		fmt.Println("= bad-op")
		return
	}
	streamDo = true
	fmt.Println("= " + lib.Try(func() string { return execInProcess(t) }))
}

// guarded decides how a generated Run is executed: (answer, true) when it was run isolated (or
// skipped), ("", false) when the caller should run it in-process (it is journalled then).
func guarded(c *lib.Ctx, op string) (string, bool) {
	if marked[op] {
		markedLeft--
		ans := isolated(op)
		if strings.HasPrefix(ans, "died ") {
			c.Count("guard:isolated-run-died")
			c.Fail("C01:process-death", "the process running core/sync.Run died in this history: a round without a correction handed to the clock discipline",
				[]string{op}, map[string]any{"answer": ans})
		} else {
			c.Count("guard:isolated-run-survived")
		}
		return ans, true
	}
	if lastRun && markedLeft <= 0 {
		c.Count("guard:skipped-after-process-deaths")
		return "", true
	}
	journal(op)
	return "", false
}

func readLines(path string) []string {
	b, err := os.ReadFile(path)
	if err != nil {
		return nil
	}
	var out []string
	for _, ln := range strings.Split(string(b), "\n") {
		if strings.TrimSpace(ln) != "" {
			out = append(out, ln)
		}
	}
	return out
}

// childSetup reads the supervisor's environment in the generator child.
func childSetup() {
	if p := os.Getenv(envJournal); p != "" {
		journalF, _ = os.OpenFile(p, os.O_CREATE|os.O_WRONLY, 0o644)
	}
	marked = map[string]bool{}
	for _, op := range readLines(os.Getenv(envMarked)) {
		if !marked[op] {
			marked[op] = true
			markedLeft++
		}
	}
	lastRun = os.Getenv(envLast) == "1"
}

// supervise runs the generator in a child process, again after every death with the op it died in
// marked for isolation.
func supervise() {
	self, err := os.Executable()
	if err != nil {
		fmt.Fprintln(os.Stderr, "c01: cannot find own executable:", err)
		os.Exit(2)
	}
	dir, err := os.MkdirTemp("", "c01-guard-")
	if err != nil {
		fmt.Fprintln(os.Stderr, "c01:", err)
		os.Exit(2)
	}
	defer os.RemoveAll(dir)
	jpath, mpath := dir+"/journal", dir+"/marked"
	var deaths []string
	for {
		os.WriteFile(jpath, nil, 0o644)
		os.WriteFile(mpath, []byte(strings.Join(deaths, "\n")+"\n"), 0o644)
		cmd := osexec.Command(self, os.Args[1:]...)
		env := append(os.Environ(), envSupervised+"=1", envJournal+"="+jpath, envMarked+"="+mpath)
		if len(deaths) >= maxDeaths {
			env = append(env, envLast+"=1")
		}
		cmd.Env = env
		var errb bytes.Buffer
		cmd.Stdout, cmd.Stderr = os.Stdout, &errb
		runErr := cmd.Run()
		if runErr == nil {
			os.Stderr.Write(errb.Bytes())
			return
		}
		died := strings.Contains(errb.String(), "\npanic: ") || strings.HasPrefix(errb.String(), "panic: ") ||
			strings.Contains(errb.String(), "fatal error: ")
		op := ""
		if ls := readLines(jpath); len(ls) > 0 {
			op = ls[0]
		}
		known := false
		for _, d := range deaths {
			known = known || d == op
		}
		if !died || op == "" || known || len(deaths) >= maxDeaths {
			// not a death inside a journalled Run (or no progress): hand the crash through
			os.Stderr.Write(errb.Bytes())
			os.RemoveAll(dir)
			if ee, ok := runErr.(*osexec.ExitError); ok {
				os.Exit(ee.ExitCode())
			}
			os.Exit(2)
		}
		w := bufio.NewWriter(os.Stderr)
		fmt.Fprintf(w, "c01: generator process died while running\n  %s\n  isolating that op and starting again (%d)\n", op, len(deaths)+1)
		w.Flush()
		deaths = append(deaths, op)
	}
}
