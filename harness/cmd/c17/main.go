// c17: correspondence + direct oracles for the offset filters of core/client
// (LuckyPacketFilter, NtimedFilter), run in-process.  The Ntimed filter reads
// timebase.Epoch() from the process-wide registered clock: a fake clock is registered
// once and its epoch is set by the op `flt.epoch`.
package main

import (
	"fmt"
	"math"
	"math/big"
	"sort"
	"strconv"
	"strings"
	"time"

	basetb "example.com/scion-time/base/timebase"
	"example.com/scion-time/core/client"
	"example.com/scion-time/core/timebase"
	"example.com/scion-time/net/ntp"

	"verifharness/lib"
)

// ---------------------------------------------------------------- fake clock

type fakeClock struct{ epoch uint64 }

func (c *fakeClock) Epoch() uint64                                { return c.epoch }
func (c *fakeClock) Now() time.Time                               { return time.Unix(0, 0) }
func (c *fakeClock) Drift(time.Duration) time.Duration            { return 0 }
func (c *fakeClock) Step(time.Duration)                           {}
func (c *fakeClock) Adjust(time.Duration, time.Duration, float64) {}
func (c *fakeClock) Sleep(time.Duration)                          {}

var _ basetb.SystemClock = (*fakeClock)(nil)

var clk = &fakeClock{}

func init() { timebase.RegisterClock(clk) }

// ---------------------------------------------------------------- exec

var (
	lucky  = &client.LuckyPacketFilter{}
	ntimed = client.NewNtimedFilter(nil)
)

func i64(s string) int64 {
	v, err := strconv.ParseInt(s, 10, 64)
	if err != nil {
		panic("bad-op")
	}
	return v
}

func tm(ns int64) time.Time { return time.Unix(0, ns) }

func bits(f float64) string {
	if f != f {
		return "7ff8000000000001"
	}
	return fmt.Sprintf("%016x", math.Float64bits(f))
}

func exec(t []string) (res string) {
	defer func() {
		if r := recover(); r != nil {
			if s, ok := r.(string); ok && s == "bad-op" {
				res = "bad-op"
				return
			}
			panic(r)
		}
	}()
	switch {
	case t[0] == "flt.lucky.zero" && len(t) == 1:
		lucky = &client.LuckyPacketFilter{}
		return "ok"
	case t[0] == "flt.lucky.new" && len(t) == 3:
		c, p := i64(t[1]), i64(t[2])
		lucky = client.NewLuckyPacketFilter(int(c), int(p))
		return "ok"
	case t[0] == "flt.lucky.do" && len(t) == 5:
		off := lucky.Do(tm(i64(t[1])), tm(i64(t[2])), tm(i64(t[3])), tm(i64(t[4])))
		return fmt.Sprintf("ok %d", int64(off))
	case t[0] == "flt.lucky.reset" && len(t) == 1:
		lucky.Reset()
		return "ok"
	case t[0] == "flt.lucky.state" && len(t) == 1:
		c, p, offs, rtds := client.VerifLuckyState(lucky)
		return fmt.Sprintf("ok %d %d %s %s", c, p, lib.IntList(offs), lib.IntList(rtds))
	case t[0] == "flt.epoch" && len(t) == 2:
		v, err := strconv.ParseUint(t[1], 10, 64)
		if err != nil {
			return "bad-op"
		}
		clk.epoch = v
		return "ok"
	case t[0] == "flt.ntimed.new" && len(t) == 1:
		ntimed = client.NewNtimedFilter(nil)
		return "ok"
	case t[0] == "flt.ntimed.do" && len(t) == 5:
		off := ntimed.Do(tm(i64(t[1])), tm(i64(t[2])), tm(i64(t[3])), tm(i64(t[4])))
		return fmt.Sprintf("ok %d", int64(off))
	case t[0] == "flt.ntimed.reset" && len(t) == 1:
		ntimed.Reset()
		return "ok"
	case t[0] == "flt.ntimed.state" && len(t) == 1:
		e, a := client.VerifNtimedState(ntimed)
		return fmt.Sprintf("ok %d %s %s %s %s %s %s", e, bits(a[0]), bits(a[1]), bits(a[2]), bits(a[3]), bits(a[4]), bits(a[5]))
	case t[0] == "ntp.off" && len(t) == 5:
		a, b, c, d := tm(i64(t[1])), tm(i64(t[2])), tm(i64(t[3])), tm(i64(t[4]))
		return fmt.Sprintf("ok %d %d", int64(ntp.ClockOffset(a, b, c, d)), int64(ntp.RoundTripDelay(a, b, c, d)))
	}
	return "bad-op"
}

// ---------------------------------------------------------------- samples

type sample struct{ t0, t1, t2, t3 int64 }

func (s sample) args() string { return fmt.Sprintf("%d %d %d %d", s.t0, s.t1, s.t2, s.t3) }

func (s sample) off() int64 {
	return int64(ntp.ClockOffset(tm(s.t0), tm(s.t1), tm(s.t2), tm(s.t3)))
}
func (s sample) rtd() int64 {
	return int64(ntp.RoundTripDelay(tm(s.t0), tm(s.t1), tm(s.t2), tm(s.t3)))
}

// mk builds a sample with (about) the given offset and exactly the given round-trip
// delay when nothing overflows; int64 wrap-around on purpose for extreme arguments.
func mk(t0, theta, up, down, proc int64) sample {
	t1 := t0 + up + theta
	t2 := t1 + proc
	t3 := t0 + up + down + proc
	return sample{t0, t1, t2, t3}
}

var bigTwo = big.NewInt(2)

// exactOffDelay computes offset and delay over the integers; ok=false if a Sub saturates
// or the int64 sum in ClockOffset/RoundTripDelay would wrap.
func exactOffDelay(s sample) (off, rtd *big.Int, ok bool) {
	b := func(x int64) *big.Int { return big.NewInt(x) }
	d10 := new(big.Int).Sub(b(s.t1), b(s.t0))
	d23 := new(big.Int).Sub(b(s.t2), b(s.t3))
	d30 := new(big.Int).Sub(b(s.t3), b(s.t0))
	d21 := new(big.Int).Sub(b(s.t2), b(s.t1))
	sum := new(big.Int).Add(d10, d23)
	dif := new(big.Int).Sub(d30, d21)
	for _, v := range []*big.Int{d10, d23, d30, d21, sum, dif} {
		if !v.IsInt64() {
			return nil, nil, false
		}
	}
	return new(big.Int).Quo(sum, bigTwo), dif, true // Quo truncates toward zero
}

var two62 = new(big.Int).Lsh(big.NewInt(1), 62)

func small62(x int64) bool { return new(big.Int).Abs(big.NewInt(x)).Cmp(two62) < 0 }

// specMedian: the median of offsets over the integers (midpoint a + trunc((b-a)/2)).
func specMedian(offs []int64) *big.Int {
	xs := append([]int64(nil), offs...)
	sort.Slice(xs, func(i, j int) bool { return xs[i] < xs[j] })
	n := len(xs)
	if n%2 == 1 {
		return big.NewInt(xs[n/2])
	}
	a, b := big.NewInt(xs[n/2-1]), big.NewInt(xs[n/2])
	d := new(big.Int).Sub(b, a)
	d.Quo(d, bigTwo)
	return d.Add(d, a)
}

type meas struct{ off, rtd int64 }

// luckySpec returns the set of admissible outputs of the selection rule on window w
// (one value when the delays that matter are distinct), or ok=false outside the
// no-overflow domain |off| < 2^62.
func luckySpec(w []meas, k int) (vals []string, distinct bool, ok bool) {
	for _, m := range w {
		if !small62(m.off) {
			return nil, false, false
		}
	}
	s := append([]meas(nil), w...)
	sort.Slice(s, func(i, j int) bool { return s[i].rtd < s[j].rtd })
	if k > len(s) {
		k = len(s)
	}
	distinct = true
	for i := 1; i < len(s); i++ {
		if s[i].rtd == s[i-1].rtd {
			distinct = false
		}
	}
	thr := s[k-1].rtd
	var must, ties []int64
	for _, m := range s {
		if m.rtd < thr {
			must = append(must, m.off)
		} else if m.rtd == thr {
			ties = append(ties, m.off)
		}
	}
	need := k - len(must)
	seen := map[string]bool{}
	for mask := 0; mask < 1<<len(ties); mask++ {
		cnt := 0
		for i := range ties {
			if mask>>i&1 == 1 {
				cnt++
			}
		}
		if cnt != need {
			continue
		}
		sel := append([]int64(nil), must...)
		for i := range ties {
			if mask>>i&1 == 1 {
				sel = append(sel, ties[i])
			}
		}
		v := specMedian(sel).String()
		if !seen[v] {
			seen[v] = true
			vals = append(vals, v)
		}
	}
	return vals, distinct, true
}

func histTail(h []string, n int) []string {
	if len(h) > n {
		return h[len(h)-n:]
	}
	return append([]string(nil), h...)
}

// ---------------------------------------------------------------- lucky generator

var edge62 = []int64{1<<62 - 2, 1<<62 - 1, 1 << 62, 1<<62 + 1, -(1 << 62) + 1, -(1 << 62), -(1 << 62) - 1, 1 << 61, -(1 << 61), 0, 1, -1}

func luckySample(c *lib.Ctx, r *lib.Rand, kind int, i int) sample {
	switch kind {
	case 0: // realistic, distinct delays
		d := r.Range(100_000, 100_000_000)
		return mk(1_700_000_000_000_000_000+int64(i)*1_000_000_000, r.Range(-2_000_000, 2_000_000), d/2, d-d/2, r.Range(0, 50_000))
	case 1: // few distinct delays (ties), small offsets
		d := r.Pick64([]int64{1000, 1000, 2000, 3000})
		return mk(int64(i)*1000, r.Range(-5, 5), d/2, d-d/2, 0)
	case 2: // small integers: many equal offsets and delays, odd sums (truncation)
		return mk(r.Range(-3, 3), r.Range(-4, 4), r.Range(0, 3), r.Range(0, 3), r.Range(0, 2))
	case 3: // offsets at the 2^62 edge (midpoint overflow boundary), distinct small delays
		d := r.Range(2, 1_000_000)
		th := r.Pick64(edge62) + r.Range(-1, 1)
		return mk(0, th, d/2, d/2, 0)
	case 4: // arbitrary timestamps (saturating Sub, wrapping sums)
		return sample{r.I64(), r.I64(), r.I64(), r.I64()}
	default: // extreme corners
		ex := []int64{math.MinInt64, math.MinInt64 + 1, -1, 0, 1, math.MaxInt64 - 1, math.MaxInt64, 1 << 62, -(1 << 62)}
		return sample{r.Pick64(ex), r.Pick64(ex), r.Pick64(ex), r.Pick64(ex)}
	}
}

func luckyHistory(c *lib.Ctx, r *lib.Rand, capN, pick int, kind int, length int) {
	c.Comment(fmt.Sprintf("history lucky cap=%d pick=%d kind=%d", capN, pick, kind))
	var hist []string
	do := func(op string) string { hist = append(hist, op); return c.Do(op) }
	ans := do(fmt.Sprintf("flt.lucky.new %d %d", capN, pick))
	if capN <= 0 || pick <= 0 {
		c.Count("lucky:new-panics")
		if !strings.HasPrefix(ans, "panic explicit:") {
			c.Fail("C17:lucky:new-no-panic", "NewLuckyPacketFilter accepted cap<=0 or pick<=0", histTail(hist, 1), map[string]any{"answer": ans})
		}
		return
	}
	k := pick
	if k > capN {
		k = capN
		c.Count("lucky:pick-capped")
	}
	var w []meas
	var shadow *client.LuckyPacketFilter
	for i := 0; i < length; i++ {
		if r.Chance(7) {
			do("flt.lucky.reset")
			c.Count("lucky:reset")
			w = w[:0]
			shadow = client.NewLuckyPacketFilter(capN, pick)
			continue
		}
		kd := kind
		if kind == 6 { // mixed
			kd = r.Intn(6)
		}
		s := luckySample(c, r, kd, i)
		if kd == 0 || kd == 3 {
			// force distinct delays within the window
			for tries := 0; tries < 20; tries++ {
				dup := false
				for _, m := range w {
					if m.rtd == s.rtd() {
						dup = true
					}
				}
				if !dup {
					break
				}
				s = luckySample(c, r, kd, i)
			}
		}
		ans := do("flt.lucky.do " + s.args())
		out, ok := lib.Ints(ans)
		if !ok || len(out) != 1 {
			c.Fail("C17:lucky:do-failed", "LuckyPacketFilter.Do did not return", histTail(hist, 40), map[string]any{"answer": ans})
			return
		}
		if eo, ed, ok := exactOffDelay(s); ok {
			c.Count("lucky:sample:exact-domain")
			if eo.Cmp(big.NewInt(s.off())) != 0 || ed.Cmp(big.NewInt(s.rtd())) != 0 {
				c.Fail("C17:ntp:offset-delay", "ClockOffset/RoundTripDelay differ from the integer formulas without overflow",
					[]string{"ntp.off " + s.args()}, map[string]any{"off": s.off(), "rtd": s.rtd(), "want_off": eo.String(), "want_rtd": ed.String()})
			}
		} else {
			c.Count("lucky:sample:saturating-or-wrapping")
		}
		w = append(w, meas{s.off(), s.rtd()})
		if len(w) > capN {
			w = w[len(w)-capN:]
			c.Count("lucky:window:full-shift")
		} else if len(w) == capN {
			c.Count("lucky:window:just-full")
		} else {
			c.Count("lucky:window:filling")
		}
		kk := k
		if kk > len(w) {
			kk = len(w)
		}
		if kk%2 == 1 {
			c.Count("lucky:median:odd-count")
		} else {
			c.Count("lucky:median:even-count-midpoint")
		}
		if k == len(w) {
			c.Count("lucky:select:pick-equals-window-size")
		}
		if k < len(w) {
			c.Count("lucky:select:sorted-by-delay")
		} else {
			c.Count("lucky:select:all")
		}
		vals, distinct, ok := luckySpec(w, k)
		if !ok {
			c.Count("lucky:oracle:skipped-overflow-domain")
		} else {
			if distinct {
				c.Count("lucky:oracle:distinct-delays")
			} else if len(vals) > 1 {
				c.Count("lucky:oracle:ties-ambiguous")
			} else {
				c.Count("lucky:oracle:ties-unambiguous")
			}
			got := fmt.Sprint(out[0])
			found := false
			for _, v := range vals {
				if v == got {
					found = true
				}
			}
			if !found {
				sig := "C17:lucky:selection"
				if !distinct {
					sig = "C17:lucky:selection-ties"
				}
				c.Fail(sig, "output is not the median offset of the k lowest-delay samples among the last N",
					histTail(hist, 40), map[string]any{"cap": capN, "pick": pick, "k": k, "window": fmt.Sprint(w), "got": got, "want_one_of": vals})
			}
		}
		if shadow != nil {
			c.Count("lucky:oracle:reset-shadow")
			so := int64(shadow.Do(tm(s.t0), tm(s.t1), tm(s.t2), tm(s.t3)))
			if so != out[0] {
				c.Fail("C17:lucky:reset-forgets", "after Reset the output differs from a fresh filter fed the same samples",
					histTail(hist, 40), map[string]any{"cap": capN, "pick": pick, "got": out[0], "fresh": so})
			}
		}
		if r.Chance(10) {
			do("flt.lucky.state")
		}
	}
}

func luckyZero(c *lib.Ctx, r *lib.Rand, n int) {
	c.Comment("history lucky zero-value")
	hist := []string{"flt.lucky.zero"}
	c.Do(hist[0])
	for i := 0; i < n; i++ {
		s := luckySample(c, r, r.Intn(6), i)
		op := "flt.lucky.do " + s.args()
		out, ok := lib.Ints(c.Do(op))
		c.Count("lucky:zero-value")
		if !ok || len(out) != 1 || out[0] != s.off() {
			c.Fail("C17:lucky:zero-raw", "zero-value LuckyPacketFilter did not return the raw offset",
				[]string{hist[0], op}, map[string]any{"want": s.off()})
		}
		if r.Chance(5) {
			c.Do("flt.lucky.reset")
		}
	}
}

// ---------------------------------------------------------------- ntimed generator

var two50 = new(big.Int).Lsh(big.NewInt(1), 50)

// ntimedBoundOK: the bound certified by C17_ntimed_raw_close,
//   (|out - raw| - 1) * 2^50 <= |a| + |b|   with a = cTx - sRx, b = cRx - sTx,
// on the domain |a|, |b| < 2^62 (no saturation, no wrap); ok=false outside the domain.
func ntimedBoundOK(s sample, out int64) (within bool, ok bool) {
	a := new(big.Int).Sub(big.NewInt(s.t0), big.NewInt(s.t1))
	b := new(big.Int).Sub(big.NewInt(s.t3), big.NewInt(s.t2))
	a.Abs(a)
	b.Abs(b)
	if a.Cmp(two62) >= 0 || b.Cmp(two62) >= 0 {
		return false, false
	}
	raw := big.NewInt(s.off())
	e := new(big.Int).Sub(big.NewInt(out), raw)
	e.Abs(e)
	e.Sub(e, big.NewInt(1))
	e.Mul(e, two50)
	return e.Cmp(new(big.Int).Add(a, b)) <= 0, true
}

// limitsViolated recomputes, from the filter's state before the call, whether the sample
// violates the learned lower / upper limit (the first statements of Do).
func limitsViolated(c *lib.Ctx, epoch uint64, a [6]float64, s sample) (failLo, failHi bool, navg float64) {
	alo, ahi, alolo, ahihi, n := a[0], a[2], a[3], a[4], a[5]
	if epoch != clk.epoch {
		alo, ahi, alolo, ahihi, n = 0, 0, 0, 0, 0
	}
	lo := tm(s.t0).Sub(tm(s.t1)).Seconds()
	hi := tm(s.t3).Sub(tm(s.t2)).Seconds()
	if n < 20.0 {
		n += 1.0
	}
	var ln, hn float64
	if n > 2.0 {
		ln = math.Sqrt(alolo - alo*alo)
		hn = math.Sqrt(ahihi - ahi*ahi)
	}
	// which side of every comparison of Do this call exercises
	switch {
	case a[5] == 19.0 && epoch == clk.epoch:
		c.Count("ntimed:cmp:navg-reaches-20")
	case a[5] == 20.0 && epoch == clk.epoch:
		c.Count("ntimed:cmp:navg-saturated-at-20")
	}
	switch n {
	case 2.0:
		c.Count("ntimed:cmp:navg=2 (noise still zero)")
	case 3.0:
		c.Count("ntimed:cmp:navg=3 (noise on, branches 2/3 still off)")
	case 4.0:
		c.Count("ntimed:cmp:navg=4 (first filtered sample possible)")
	}
	if ln != ln || hn != hn {
		c.Count("ntimed:cmp:noise-is-NaN (negative rounded variance)")
	}
	if lo == alo-ln*3.0 {
		c.Count("ntimed:cmp:lo-equals-lower-limit")
	}
	if hi == ahi+hn*3.0 {
		c.Count("ntimed:cmp:hi-equals-upper-limit")
	}
	return lo < alo-ln*3.0, hi > ahi+hn*3.0, n
}

func sgn(x int64) int {
	switch {
	case x < 0:
		return -1
	case x > 0:
		return 1
	}
	return 0
}

func ntimedHistory(c *lib.Ctx, r *lib.Rand, kind int, length int) {
	c.Comment(fmt.Sprintf("history ntimed kind=%d", kind))
	var hist []string
	do := func(op string) string { hist = append(hist, op); return c.Do(op) }
	do("flt.ntimed.new")
	epoch := uint64(r.Intn(3))
	do(fmt.Sprintf("flt.epoch %d", epoch))
	shadow := client.NewNtimedFilter(nil)
	since := 0 // samples seen since the last reset
	believed := uint64(0)

	base := int64(1_700_000_000_000_000_000)
	theta := r.Range(-50_000_000, 50_000_000) // true offset, ns
	dly := r.Range(200_000, 20_000_000)       // one-way delay, ns
	jit := r.Range(1, dly/4+1)
	if kind == 2 {
		theta = r.Range(-4_000_000_000_000_000_000, 4_000_000_000_000_000_000)
	}
	// kind 6, "the clock gets stepped": the local clock starts off by a minute .. 57 years
	// (RTC lost), the path is quiet (about 1 us jitter); every reset / epoch change stands
	// for the step that removes the offset, after which one-sided spikes of a few jitters
	// arrive.
	stepAt := -1
	if kind == 6 {
		mag := []int64{60_000_000_000, 3_600_000_000_000, 86_400_000_000_000, 1_800_000_000_000_000_000}[r.Intn(4)]
		theta = r.Range(mag/2, mag)
		if r.Bool() {
			theta = -theta
		}
		dly = r.Range(100_000, 2_000_000)
		jit = r.Range(200, 3_000)
		stepAt = int(r.Range(2, 12))
	}
	stepped := func() {
		if kind == 6 {
			theta = r.Range(-50_000_000, 50_000_000)
			c.Count("ntimed:step:offset-removed")
		}
	}
	for i := 0; i < length; i++ {
		switch {
		case r.Chance(4) || (i == stepAt && r.Bool()):
			do("flt.ntimed.reset")
			c.Count("ntimed:reset")
			shadow = client.NewNtimedFilter(nil)
			since = 0
			believed = clk.epoch
			stepped()
			continue
		case i == stepAt:
			do(fmt.Sprintf("flt.epoch %d", clk.epoch+1))
			c.Count("ntimed:epoch-change")
			stepped()
			continue
		case r.Chance(4):
			stepped()
			ne := clk.epoch + uint64(r.Range(1, 3))
			if r.Chance(10) {
				ne = r.U64()
			}
			do(fmt.Sprintf("flt.epoch %d", ne))
			c.Count("ntimed:epoch-change")
			if r.Chance(10) { // A -> B -> A between two calls: the filter cannot notice
				do(fmt.Sprintf("flt.epoch %d", believed))
				c.Count("ntimed:epoch-change-and-back")
			}
			continue
		}
		var s sample
		switch kind {
		case 0, 2, 6: // realistic: jitter, occasional one-sided and two-sided delay spikes, steps
			up := dly + r.Range(0, jit)
			down := dly + r.Range(0, jit)
			sel := r.Intn(12)
			if kind == 6 && sel == 4 && !r.Chance(10) {
				sel = 1 // mostly a quiet clock: one-sided spikes on the way back instead of offset steps
			}
			switch sel {
			case 0:
				up += r.Range(5, 50) * jit
			case 1:
				down += r.Range(5, 50) * jit
			case 2:
				up += r.Range(5, 50) * jit
				down += r.Range(5, 50) * jit
			case 3:
				up -= r.Range(0, dly)
			case 4:
				theta += r.Range(-1_000_000, 1_000_000)
			}
			s = mk(base+int64(i)*1_000_000_000, theta, up, down, r.Range(0, 100_000))
		case 1: // tiny integers: exact zero, sign and truncation corners
			s = mk(r.Range(-3, 3), r.Range(-4, 4), r.Range(0, 3), r.Range(0, 3), r.Range(0, 2))
		case 3: // arbitrary timestamps
			s = sample{r.I64(), r.I64(), r.I64(), r.I64()}
		case 4: // constant samples (variance zero, sqrt of rounding noise)
			s = mk(base+int64(i)*1_000_000_000, theta, dly, dly, 0)
			if r.Chance(15) {
				s = mk(base+int64(i)*1_000_000_000, theta, dly+r.Range(-3, 3), dly+r.Range(-3, 3), 0)
			}
		default: // extreme corners
			ex := []int64{math.MinInt64, math.MinInt64 + 1, -1, 0, 1, math.MaxInt64 - 1, math.MaxInt64, 1 << 62, -(1 << 62), 1<<62 - 1}
			s = sample{r.Pick64(ex), r.Pick64(ex), r.Pick64(ex), r.Pick64(ex)}
		}
		if clk.epoch != believed {
			// the filter will notice the new epoch in this call: it acts as a reset
			c.Count("ntimed:reset-by-epoch")
			shadow = client.NewNtimedFilter(nil)
			since = 0
			believed = clk.epoch
		}
		pe, pa := client.VerifNtimedState(ntimed)
		failLo, failHi, navg := limitsViolated(c, pe, pa, s)
		ans := do("flt.ntimed.do " + s.args())
		out, ok := lib.Ints(ans)
		if !ok || len(out) != 1 {
			c.Fail("C17:ntimed:do-failed", "NtimedFilter.Do did not return", histTail(hist, 60), map[string]any{"answer": ans})
			return
		}
		since++
		raw := s.off()
		if out[0] == math.MaxInt64 || out[0] == math.MinInt64 {
			c.Count("ntimed:cmp:duration-overflow (MinInt64 -> Inv -> MaxInt64)")
		}
		early := since < 4
		inb := !failLo && !failHi
		switch {
		case failLo && failHi:
			c.Count("ntimed:branch1:both-limits")
		case navg > 3.0 && failLo:
			c.Count("ntimed:branch2:low-limit")
		case navg > 3.0 && failHi:
			c.Count("ntimed:branch3:high-limit")
		default:
			c.Count("ntimed:branch4:in-bounds-or-early")
		}
		if early || inb {
			within, dom := ntimedBoundOK(s, out[0])
			if !dom {
				c.Count("ntimed:oracle:raw:skipped-saturating-domain")
			} else {
				if early {
					c.Count("ntimed:oracle:raw-early")
				}
				if inb {
					c.Count("ntimed:oracle:raw-inbounds")
				}
				if !within {
					sig := "C17:ntimed:raw-inbounds"
					if early {
						sig = "C17:ntimed:raw-early"
					}
					c.Fail(sig, "Ntimed output is not the raw offset (within the float bound) although fewer than four samples were seen since reset / no limit is violated",
						histTail(hist, 60), map[string]any{"out": out[0], "raw": raw, "since_reset": since, "failLo": failLo, "failHi": failHi})
				} else if sgn(out[0]) == sgn(raw) {
					c.Count("ntimed:oracle:sign-agrees")
				} else {
					// differing signs are only possible inside the error bound (C17_ntimed_raw_sign)
					c.Count("ntimed:oracle:sign-differs-inside-bound")
				}
			}
		} else {
			c.Count("ntimed:filtered")
		}
		so := int64(shadow.Do(tm(s.t0), tm(s.t1), tm(s.t2), tm(s.t3)))
		c.Count("ntimed:oracle:reset-shadow")
		if so != out[0] {
			c.Fail("C17:ntimed:reset-forgets", "output differs from a fresh filter fed the samples seen since the last reset / epoch change",
				histTail(hist, 80), map[string]any{"got": out[0], "fresh": so, "since_reset": since})
		}
		if r.Chance(15) {
			do("flt.ntimed.state")
		}
	}
	do("flt.ntimed.state")
}

// ---------------------------------------------------------------- main generator

func gen(c *lib.Ctx) {
	r := c.Rand

	// corpus: the repository's own example tests (filter_flash_test.go, in ms)
	c.Comment("history corpus filter_flash_test")
	ms := int64(1_000_000)
	c.Do("flt.lucky.new 3 1")
	for _, q := range [][4]int64{{0, 19, 19, 40}, {0, 10, 10, 20}, {0, 11, 11, 20}, {0, 9, 9, 20}} {
		c.Dof("flt.lucky.do %d %d %d %d", q[0]*ms, q[1]*ms, q[2]*ms, q[3]*ms)
	}

	// boundary stream: every capacity 1..10 (and 0, -1) x every pick 0..12 (and -1)
	rl := r.Fork("lucky")
	reps := c.Scale(3, 30)
	for rep := 0; rep < reps; rep++ {
		for capN := -1; capN <= 10; capN++ {
			for pick := -1; pick <= 12; pick++ {
				kind := []int{0, 1, 2, 3, 6, 0, 6}[rl.Intn(7)]
				luckyHistory(c, rl, capN, pick, kind, 3*capN+6)
			}
		}
	}
	// each sample kind with each capacity at least once, longer histories
	for kind := 0; kind <= 6; kind++ {
		for capN := 1; capN <= 10; capN++ {
			luckyHistory(c, rl, capN, int(rl.Range(1, 12)), kind, 4*capN+10)
		}
	}
	luckyZero(c, rl, c.Scale(500, 5000))
	// larger windows still below the insertion-sort threshold of slices.SortFunc (12)
	for _, capN := range []int{11, 12} {
		for _, kind := range []int{0, 1, 6} {
			luckyHistory(c, rl, capN, int(rl.Range(1, 12)), kind, 40)
		}
	}

	// windows above the threshold: slices.SortFunc switches to pdqsort (not stable); with
	// pairwise distinct delays the result is still determined and the model must agree
	for _, capN := range []int{13, 16, 24, 40} {
		for _, kind := range []int{0, 3} {
			c.Count("lucky:large-window-distinct-delays")
			luckyHistory(c, rl, capN, int(rl.Range(1, int64(capN)+2)), kind, 3*capN)
		}
	}

	rn := r.Fork("ntimed")
	n := c.Scale(600, 6000)
	for i := 0; i < n; i++ {
		kind := []int{0, 0, 0, 0, 2, 1, 3, 4, 5, 0}[i%10]
		ntimedHistory(c, rn, kind, int(rn.Range(5, 70)))
	}
	// clock-step histories (own stream so that the draws above are not shifted)
	rs := r.Fork("ntimed-step")
	for i, m := 0, c.Scale(150, 1500); i < m; i++ {
		ntimedHistory(c, rs, 6, int(rs.Range(12, 60)))
	}
}

func main() { lib.Main(exec, gen) }
