package main

import (
	"context"
	"encoding/binary"
	"fmt"
	"io"
	"log/slog"
	"net"
	"time"

	"example.com/scion-time/core/client"
	"example.com/scion-time/core/timebase"
)

type clock struct{ log []time.Time }

func (c *clock) Now() time.Time {
	t := time.Unix(0, time.Now().UnixNano()).UTC()
	c.log = append(c.log, t)
	return t
}
func (c *clock) Epoch() uint64                                { return 0 }
func (c *clock) Drift(time.Duration) time.Duration            { return 0 }
func (c *clock) Step(time.Duration)                           {}
func (c *clock) Adjust(time.Duration, time.Duration, float64) {}
func (c *clock) Sleep(d time.Duration)                        { time.Sleep(d) }

const ntpOff = 2208988800

func enc(b []byte, t time.Time) {
	binary.BigEndian.PutUint32(b, uint32(t.Unix()+ntpOff))
	binary.BigEndian.PutUint32(b[4:], uint32(uint64(t.Nanosecond())<<32/1000000000))
}

func main() {
	clk := &clock{}
	timebase.RegisterClock(clk)
	logger := slog.New(slog.NewTextHandler(io.Discard, nil))
	srv, _ := net.ListenUDP("udp4", &net.UDPAddr{IP: net.IPv4(127, 0, 0, 1)})
	nreq := 0
	go func() {
		buf := make([]byte, 2048)
		for {
			n, from, err := srv.ReadFromUDPAddrPort(buf)
			if err != nil {
				return
			}
			nreq++
			R := time.Now()
			r := make([]byte, 48)
			r[0] = 4<<3 | 4
			r[1] = 1
			copy(r[24:32], buf[40:48])
			_ = n
			enc(r[32:], R)
			enc(r[40:], time.Now())
			srv.WriteToUDPAddrPort(r, from)
		}
	}()
	ra := srv.LocalAddr().(*net.UDPAddr)
	for _, zone := range []string{"", "lo"} {
		for i := 0; i < 3; i++ {
			c := &client.IPClient{Log: logger}
			clk.log = nil
			ctx, cancel := context.WithTimeout(context.Background(), time.Second)
			t0 := time.Now()
			ts, off, err := client.VerifC03MeasureIP(ctx, c, &net.UDPAddr{IP: net.IPv4(127, 0, 0, 1).To4(), Zone: zone}, &net.UDPAddr{IP: ra.IP, Port: ra.Port})
			cancel()
			fmt.Printf("zone=%q ts=%v off=%v err=%v readings=%d elapsed=%v", zone, ts.UnixNano()-t0.UnixNano(), off, err, len(clk.log), time.Since(t0))
			for _, r := range clk.log {
				fmt.Printf(" %d", r.UnixNano()-t0.UnixNano())
			}
			fmt.Println()
		}
	}
	// expired / cancelled contexts on entry
	for _, il := range []bool{false, true} {
		for _, kind := range []string{"expired", "cancelled"} {
			c := &client.IPClient{Log: logger, InterleavedMode: il}
			var ctx context.Context
			var cancel context.CancelFunc
			if kind == "expired" {
				ctx, cancel = context.WithDeadline(context.Background(), time.Now().Add(-time.Millisecond))
			} else {
				ctx, cancel = context.WithTimeout(context.Background(), 300*time.Millisecond)
				cancel()
			}
			before := nreq
			t0 := time.Now()
			ts, off, err := client.MeasureClockOffsetIP(ctx, logger, c, &net.UDPAddr{IP: net.IPv4(127, 0, 0, 1).To4()}, &net.UDPAddr{IP: ra.IP, Port: ra.Port})
			cancel()
			time.Sleep(5 * time.Millisecond)
			fmt.Printf("il=%v ctx=%s ts.zero=%v off=%v err=%v requests=%d elapsed=%v\n", il, kind, ts.IsZero(), off, err, nreq-before, time.Since(t0))
		}
	}
}
