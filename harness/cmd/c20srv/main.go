// c20srv: the server side of the NTS key exchange — the real TLS and QUIC accept loops and
// handlers (core/server) driven by a scripted client that cuts the request stream into TLS
// records / QUIC stream writes at every kind of position; correspondence with the Lean model
// (Model/NtskeSrv.lean, driver drv_c20srv) and the direct oracles of h/gensrv.go.
// Listed by C14 (segmentation clause), C20 (server message, key agreement) and C08.
package main

import (
	"verifharness/cmd/c20/h"
	"verifharness/lib"
)

func main() { lib.Main(h.ExecSrv, h.GenServer) }
