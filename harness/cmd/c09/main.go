// c09: correspondence + direct oracle for "servers answer exactly the valid client requests".
//
//	(a) in-process: ntp.ValidateRequest on all 256 first bytes x source ports, on whole decoded
//	    packets with arbitrary remaining header bytes, and the reply header of handleRequest;
//	(b) socket level: the real IP listener (server.StartIPServer) on 127.0.0.1, datagrams of
//	    all 256 first bytes x lengths x trailing data, replies counted before the reply to a
//	    well-formed sentinel sent from the same socket.
//
//	(c) socket level, histories: datagrams from ONE client socket (one listener goroutine, in
//	    order) mixing plain NTP requests, authentic NTS requests of several associations (built
//	    with the real ntske/nts code), junk-cookie and malformed datagrams (op ip.hist): every
//	    valid request, plain or NTS, is answered exactly once, an NTS request with a reply that
//	    authenticates under its own association's keys, whatever the socket saw before.
//
// The content of the NTS branch (cookie budget, key rotation) is C10/C11's; the SCION listener
// is C13's.
package main

import (
	"bytes"
	"context"
	crand "crypto/rand"
	"encoding/binary"
	"encoding/hex"
	"fmt"
	"io"
	"log/slog"
	mrand "math/rand/v2"
	"net"
	"net/netip"
	"os"
	osexec "os/exec"
	"strconv"
	"strings"
	"sync"
	"time"

	"example.com/scion-time/core/server"
	"example.com/scion-time/core/timebase"
	"example.com/scion-time/net/ntp"
	"example.com/scion-time/net/nts"
	"example.com/scion-time/net/ntske"
	"example.com/scion-time/net/udp"

	"verifharness/cmd/c10/ntsx"
	"verifharness/lib"
)

// ---------------------------------------------------------------- local clock

type sysClock struct{}

func (sysClock) Epoch() uint64                                { return 0 }
func (sysClock) Now() time.Time                               { return time.Now().UTC() }
func (sysClock) Drift(time.Duration) time.Duration            { return 0 }
func (sysClock) Step(time.Duration)                           {}
func (sysClock) Adjust(time.Duration, time.Duration, float64) {}
func (sysClock) Sleep(d time.Duration)                        { time.Sleep(d) }

var clockOnce sync.Once

func needClock() { clockOnce.Do(func() { timebase.RegisterClock(sysClock{}) }) }

// ---------------------------------------------------------------- the listener

var (
	srvOnce     sync.Once
	srvAddr     netip.AddrPort
	srvErr      error
	clients     []*net.UDPConn
	sentinel    uint32
	srvProvider *ntske.Provider
)

// detRand replaces crypto/rand.Reader for the whole process, before the listener starts: the
// provider's key (the first 32 bytes drawn) is then the same in every run, so that a recorded
// NTS request (its cookie is sealed under that key) replays in a fresh process; nonces and unique
// identifiers drawn by the real ntske/nts code while the generator builds requests are
// reproducible too. Safe for the listener's goroutines (mutex).
type detRand struct {
	mu  sync.Mutex
	src *mrand.ChaCha8
}

func (d *detRand) Read(p []byte) (int, error) {
	d.mu.Lock()
	defer d.mu.Unlock()
	return d.src.Read(p)
}

const numClients = 12 // more sockets than listener goroutines: several 4-tuples per server socket

func startServer() {
	needClock()
	// find a free port (StartIPServer terminates the process when it cannot bind)
	// The probe socket has SO_REUSEPORT like the listener's sockets and stays bound until they
	// are all open, so that nobody else can take the port in between.
	lc := net.ListenConfig{Control: udp.SetsockoptReuseAddrPort}
	probe, err := lc.ListenPacket(context.Background(), "udp4", "127.0.0.1:0")
	if err != nil {
		srvErr = fmt.Errorf("loopback UDP not available: %w", err)
		return
	}
	port := probe.LocalAddr().(*net.UDPAddr).Port
	log := slog.New(slog.NewTextHandler(io.Discard, nil))
	crand.Reader = &detRand{src: mrand.NewChaCha8([32]byte{'v', 'e', 'r', 'i', 'f', '-', 'c', '0', '9'})}
	srvProvider = ntske.NewProvider()
	server.StartIPServer(context.Background(), log,
		&net.UDPAddr{IP: net.IPv4(127, 0, 0, 1), Port: port}, 0, srvProvider)
	probe.Close()
	srvAddr = netip.AddrPortFrom(netip.AddrFrom4([4]byte{127, 0, 0, 1}), uint16(port))
	for i := 0; i < numClients; i++ {
		c, err := net.ListenUDP("udp4", &net.UDPAddr{IP: net.IPv4(127, 0, 0, 1), Port: 0})
		if err != nil {
			srvErr = fmt.Errorf("client socket: %w", err)
			return
		}
		clients = append(clients, c)
	}
	// wait until the listener answers a plain request
	for try := 0; try < 5; try++ {
		if _, answered, err := exchange(clients[0], nil, 300*time.Millisecond); err == nil && answered {
			srvErr = nil
			return
		} else if err != nil {
			srvErr = err
		} else {
			srvErr = fmt.Errorf("listener does not answer a plain request")
		}
	}
}

type reply struct {
	b    []byte
	from netip.AddrPort
}

const (
	firstWait = 1 * time.Second        // for the sentinel's reply (normally well under 1 ms)
	retryWait = 500 * time.Millisecond // for each of the two re-sent sentinels
	probeWait = 400 * time.Millisecond // fresh-socket liveness probes after a finding
)

func newSentinel() (b []byte, tx ntp.Time64) {
	sentinel++
	var sp ntp.Packet
	sp.SetVersion(4)
	sp.SetMode(ntp.ModeClient)
	sp.TransmitTime = ntp.Time64{Seconds: 0xfeed0000 | (sentinel >> 16 & 0xffff), Fraction: sentinel<<16 | 0x5e47}
	sp.ReceiveTime = sp.TransmitTime // basic mode: the reply's origin is this transmit time
	ntp.EncodePacket(&b, &sp)
	return b, sp.TransmitTime
}

func isReplyTo(r []byte, tx ntp.Time64) bool {
	return len(r) >= 48 && binary.BigEndian.Uint32(r[24:]) == tx.Seconds && binary.BigEndian.Uint32(r[28:]) == tx.Fraction
}

// exchange sends the payloads and then a well-formed sentinel from conn and collects every
// datagram received before the sentinel's reply (recognised by its origin timestamp). Every
// wait is bounded: the sentinel is re-sent twice from the same socket; answered=false means
// that a well-formed request on this socket got no reply within firstWait+2*retryWait.
func exchange(conn *net.UDPConn, payloads [][]byte, first time.Duration) (before []reply, answered bool, err error) {
	for _, p := range payloads {
		if _, err = conn.WriteToUDPAddrPort(p, srvAddr); err != nil {
			return nil, false, err
		}
	}
	buf := make([]byte, 4096)
	var sent []ntp.Time64
	for try := 0; try < 3; try++ {
		sb, tx := newSentinel()
		sent = append(sent, tx)
		if _, err = conn.WriteToUDPAddrPort(sb, srvAddr); err != nil {
			return before, false, err
		}
		wait := first
		if try > 0 {
			wait = retryWait
		}
		deadline := time.Now().Add(wait)
		for {
			conn.SetReadDeadline(deadline)
			n, from, rerr := conn.ReadFromUDPAddrPort(buf)
			if rerr != nil {
				break // deadline: re-send the sentinel
			}
			r := reply{b: append([]byte(nil), buf[:n]...), from: from}
			mine := false
			for _, tx := range sent {
				mine = mine || isReplyTo(r.b, tx)
			}
			if mine {
				// anything that is already queued behind the sentinel's reply (a duplicate reply,
				// a late reply) belongs to this exchange, not to the next one on this socket
				for {
					conn.SetReadDeadline(time.Now().Add(50 * time.Microsecond))
					n, from, rerr := conn.ReadFromUDPAddrPort(buf)
					if rerr != nil {
						break
					}
					before = append(before, reply{b: append([]byte(nil), buf[:n]...), from: from})
				}
				return before, true, nil
			}
			before = append(before, r)
		}
	}
	return before, false, nil
}

var nextClient int

// fetchReply returns the listener's reply to a plain well-formed request (nil if none within
// firstWait).
func fetchReply(conn *net.UDPConn) []byte {
	sb, tx := newSentinel()
	if _, err := conn.WriteToUDPAddrPort(sb, srvAddr); err != nil {
		return nil
	}
	deadline := time.Now().Add(firstWait)
	buf := make([]byte, 4096)
	for {
		conn.SetReadDeadline(deadline)
		n, _, err := conn.ReadFromUDPAddrPort(buf)
		if err != nil {
			return nil
		}
		if isReplyTo(buf[:n], tx) {
			return append([]byte(nil), buf[:n]...)
		}
	}
}

// replaceClient closes client i and opens a fresh socket (a new source port, hence possibly a
// different listener socket behind SO_REUSEPORT).
func replaceClient(i int) {
	clients[i].Close()
	c, err := net.ListenUDP("udp4", &net.UDPAddr{IP: net.IPv4(127, 0, 0, 1), Port: 0})
	if err == nil {
		clients[i] = c
	}
}

// aliveFromFreshSockets: does the listener still answer a plain request from new sockets?
func aliveFromFreshSockets() int {
	ok := 0
	for i := 0; i < 3; i++ {
		c, err := net.ListenUDP("udp4", &net.UDPAddr{IP: net.IPv4(127, 0, 0, 1), Port: 0})
		if err != nil {
			continue
		}
		sb, tx := newSentinel()
		c.WriteToUDPAddrPort(sb, srvAddr)
		c.SetReadDeadline(time.Now().Add(probeWait))
		buf := make([]byte, 4096)
		if n, _, err := c.ReadFromUDPAddrPort(buf); err == nil && isReplyTo(buf[:n], tx) {
			ok++
		}
		c.Close()
	}
	return ok
}

var lastFreshAlive = -1 // result of the liveness probe after the most recent unanswered sentinel

// run sends payloads from the next client socket; on an unanswered sentinel the socket is
// replaced and the listener probed from fresh sockets (for the failure detail only).
func run(payloads [][]byte) (before []reply, answered bool, ok bool) {
	srvOnce.Do(startServer)
	if srvErr != nil {
		return nil, false, false
	}
	i := nextClient % len(clients)
	nextClient++
	before, answered, err := exchange(clients[i], payloads, firstWait)
	if err != nil {
		replaceClient(i)
		return nil, false, false
	}
	if !answered {
		lastFreshAlive = aliveFromFreshSockets()
		replaceClient(i)
	}
	return before, answered, true
}

func shapeOK(r reply) bool {
	return len(r.b) == 48 && r.b[0] == 36 && r.b[1] == 1 && r.from == srvAddr
}

// dgram runs one datagram through the listener and renders what came back.
func dgram(payload []byte) string {
	if payload == nil {
		payload = []byte{}
	}
	before, answered, ok := run([][]byte{payload})
	if !ok {
		return "err not-executed"
	}
	if !answered {
		return fmt.Sprintf("ok sentinel-unanswered n=%d", len(before))
	}
	if len(before) == 0 {
		return "ok none"
	}
	r := before[0]
	src := "server"
	if r.from != srvAddr {
		src = r.from.String()
	}
	lvm, stratum := -1, -1
	if len(r.b) >= 2 {
		lvm, stratum = int(r.b[0]), int(r.b[1])
	}
	return fmt.Sprintf("ok reply n=%d len=%d lvm=%d stratum=%d src=%s", len(before), len(r.b), lvm, stratum, src)
}

// seq runs several datagrams from one client socket (hence to one listener socket, in order)
// and attributes the replies to them by origin timestamp = the datagram's transmit timestamp.
func seq(payloads [][]byte) string {
	before, answered, ok := run(payloads)
	if !ok {
		return "err not-executed"
	}
	pat := make([]byte, len(payloads))
	for i := range pat {
		pat[i] = '0'
	}
	extra, shape := 0, "ok"
	for _, r := range before {
		if !shapeOK(r) {
			shape = "bad"
		}
		hit := false
		match := func(p []byte) bool {
			return len(p) >= 48 && len(r.b) >= 32 && hex.EncodeToString(r.b[24:32]) == hex.EncodeToString(p[40:48])
		}
		for i, p := range payloads { // first matching datagram that has no reply yet
			if match(p) && pat[i] == '0' {
				pat[i], hit = '1', true
				break
			}
		}
		if !hit {
			for i, p := range payloads { // a second reply to the same datagram
				if match(p) && pat[i] < '9' {
					pat[i]++
					hit = true
					break
				}
			}
		}
		if !hit {
			extra++
		}
	}
	st := "answered"
	if !answered {
		st = "unanswered"
	}
	return fmt.Sprintf("ok answered=%s extra=%d sentinel=%s shape=%s", pat, extra, st, shape)
}

// ---------------------------------------------------------------- histories with NTS associations

type assocKeys struct{ c2s, s2c []byte }

const ntsMaxLen = 1024 // nts.MaxPacketLen, restated (the oracle does not read it from the code)

func pad4(n int) int { return (n + 3) &^ 3 }

// fitsReply: the number of cookieLen-byte cookies an NTS reply of at most ntsMaxLen bytes can carry
// inside its authenticator next to the header and the echoed identifier (own arithmetic).
func fitsReply(uidLen, cookieLen int) int {
	n := 0
	for 48+4+pad4(uidLen)+4+4+16+pad4((n+1)*(4+pad4(cookieLen))+16) <= ntsMaxLen {
		n++
	}
	return n
}

// requestFields reads, from the bytes of a request alone, the unique identifier as it stands on
// the wire and the number of cookie + placeholder fields in front of the authenticator.
func requestFields(req []byte) (uid []byte, requested int) {
	for _, f := range ntsx.Walk(req) {
		switch f.Type {
		case 0x104:
			uid = req[f.Off+4 : f.Off+f.Len]
		case 0x204, 0x304:
			requested++
		case 0x404:
			return
		}
	}
	return
}

// verifyNTSReply is the requester's view: the reply decodes, authenticates under the S2C key of
// the association the request belongs to and echoes the request's identifier (real client code:
// nts.DecodePacket + nts.ProcessResponse), carries min(requested, what fits) pairwise distinct
// cookies, and every cookie opens under a valid provider key to this association's keys.
func verifyNTSReply(req, rep []byte, k *assocKeys) string {
	if k == nil {
		return "no-association-keys"
	}
	uid, requested := requestFields(req)
	var pkt nts.Packet
	if err := nts.DecodePacket(&pkt, rep); err != nil {
		return "decode:" + ntsx.ErrName(err)
	}
	var f ntske.Fetcher
	if err := nts.ProcessResponse(rep, k.s2c, &f, &pkt, uid); err != nil {
		return "auth:" + ntsx.ErrName(err)
	}
	cs := f.VerifC11Cookies()
	want := requested
	if len(cs) > 0 {
		if fit := fitsReply(len(uid), len(cs[0])); fit < want {
			want = fit
		}
	}
	if len(cs) != want || len(cs) == 0 {
		return fmt.Sprintf("count:%d-for-%d-requested", len(cs), requested)
	}
	seen := map[string]bool{}
	for _, c := range cs {
		if seen[string(c)] {
			return "cookie-repeated"
		}
		seen[string(c)] = true
		var ec ntske.EncryptedServerCookie
		if err := ec.Decode(append([]byte(nil), c...)); err != nil {
			return "cookie-undecodable"
		}
		key, ok := srvProvider.Get(int(ec.ID))
		if !ok {
			return "cookie-key-unknown"
		}
		sc, err := ec.Decrypt(key.Value)
		if err != nil {
			return "cookie-does-not-open"
		}
		if !bytes.Equal(sc.S2C, k.s2c) || !bytes.Equal(sc.C2S, k.c2s) {
			return "cookie-of-another-association"
		}
	}
	return ""
}

// hist runs a history of datagrams from one client socket (one listener socket, in order) and
// attributes the replies by origin timestamp; replies longer than 48 bytes are verified against
// the keys of the association the datagram belongs to.
func hist(payloads [][]byte, keys []*assocKeys) string {
	before, answered, ok := run(payloads)
	if !ok {
		return "err not-executed"
	}
	pat := make([]byte, len(payloads))
	kinds := make([]byte, len(payloads))
	for i := range pat {
		pat[i], kinds[i] = '0', 'n'
	}
	extra, shape, why := 0, "ok", ""
	for _, r := range before {
		okShape := len(r.b) >= 48 && r.b[0] == 36 && r.b[1] == 1 && r.from == srvAddr &&
			(len(r.b) == 48 || (len(r.b) <= ntsMaxLen && len(r.b)%4 == 0))
		if !okShape {
			shape = "bad"
		}
		match := func(p []byte) bool {
			return len(p) >= 48 && len(r.b) >= 32 && bytes.Equal(r.b[24:32], p[40:48])
		}
		hit := -1
		for i, p := range payloads { // first matching datagram that has no reply yet
			if match(p) && pat[i] == '0' {
				hit = i
				break
			}
		}
		if hit < 0 {
			dup := false
			for i, p := range payloads { // a second reply to the same datagram
				if match(p) && pat[i] < '9' {
					pat[i]++
					dup = true
					break
				}
			}
			if !dup {
				extra++
			}
			continue
		}
		pat[hit] = '1'
		switch {
		case len(r.b) == 48:
			kinds[hit] = 'p'
		default:
			kinds[hit] = 'a'
			if w := verifyNTSReply(payloads[hit], r.b, keys[hit]); w != "" {
				kinds[hit] = 'x'
				why += fmt.Sprintf(" why%d=%s", hit, w)
			}
		}
	}
	st := "answered"
	if !answered {
		st = "unanswered"
	}
	return fmt.Sprintf("ok answered=%s kinds=%s extra=%d sentinel=%s shape=%s%s", pat, kinds, extra, st, shape, why)
}

// ntsViews computes, with the real nts/ntske functions on fresh structs (nothing of the
// listener's loop), what the NTS branch sees of every datagram of a history: the cookie fields
// nts.DecodePacket collects, whether it succeeds, and under which of the history's cookies the
// rest of the branch would succeed. alone[i] = the branch succeeds on datagram i by itself.
func ntsViews(ps [][]byte) (views []string, alone []bool) {
	ids := map[string]int{}
	var table [][]byte
	decoded := make([][]int, len(ps))
	decodes := make([]bool, len(ps))
	for i, b := range ps {
		if len(b) < 48 {
			continue
		}
		var p nts.Packet
		decodes[i] = nts.DecodePacket(&p, append([]byte(nil), b...)) == nil
		for _, c := range p.Cookies {
			id, ok := ids[string(c.Cookie)]
			if !ok {
				id = len(table)
				ids[string(c.Cookie)] = id
				table = append(table, append([]byte(nil), c.Cookie...))
			}
			decoded[i] = append(decoded[i], id)
		}
	}
	okWith := func(b, cookie []byte) bool {
		b = append([]byte(nil), b...)
		var p nts.Packet
		if nts.DecodePacket(&p, b) != nil {
			return false
		}
		var ec ntske.EncryptedServerCookie
		if ec.Decode(append([]byte(nil), cookie...)) != nil {
			return false
		}
		key, ok := srvProvider.Get(int(ec.ID))
		if !ok {
			return false
		}
		sc, err := ec.Decrypt(key.Value)
		if err != nil {
			return false
		}
		if nts.ProcessRequest(b, sc.C2S, &p) != nil {
			return false
		}
		return len(p.Cookies)+len(p.CookiePlaceholders) > 0
	}
	alone = make([]bool, len(ps))
	for i, b := range ps {
		var cs, oks []string
		for _, id := range decoded[i] {
			cs = append(cs, strconv.Itoa(id))
		}
		if decodes[i] {
			for id, c := range table {
				if okWith(b, c) {
					oks = append(oks, strconv.Itoa(id))
					if len(decoded[i]) > 0 && decoded[i][0] == id {
						alone[i] = true
					}
				}
			}
		}
		d := "0"
		if decodes[i] {
			d = "1"
		}
		views = append(views, d+":"+strings.Join(cs, ".")+":"+strings.Join(oks, "."))
	}
	return views, alone
}

// assoc is one NTS association: session keys as an NTS-KE exchange would have produced them and
// cookies sealed by the real ntske code under the provider's current key.
type assoc struct {
	name string
	k    assocKeys
}

func newAssoc(r *lib.Rand, name string) *assoc {
	return &assoc{name: name, k: assocKeys{c2s: r.Bytes(32), s2c: r.Bytes(32)}}
}

func (a *assoc) cookieUnder(key []byte, id int) []byte {
	sc := ntske.ServerCookie{Algo: ntske.AES_SIV_CMAC_256, S2C: a.k.s2c, C2S: a.k.c2s}
	ec, err := sc.EncryptWithNonce(key, id)
	if err != nil {
		panic(err)
	}
	return ec.Encode()
}

func (a *assoc) cookie() []byte {
	key := srvProvider.Current()
	return a.cookieUnder(key.Value, key.ID)
}

// request builds the request the project's client sends at pool level `level` (one cookie,
// placeholders for the missing ones) with the real nts code on the NTP header hdr.
func (a *assoc) request(hdr []byte, level int) []byte {
	var pool [][]byte
	for i := 0; i < level; i++ {
		pool = append(pool, a.cookie())
	}
	pkt, _ := nts.NewRequestPacket(ntske.Data{Algo: ntske.AES_SIV_CMAC_256, C2sKey: a.k.c2s, S2cKey: a.k.s2c, Cookie: pool})
	b := append([]byte(nil), hdr...)
	nts.EncodePacket(&b, &pkt)
	return b
}

// failsInFreshProcess replays one op line in a new process (a listener that has seen nothing
// else) and reports whether its answer still differs from want.
func failsInFreshProcess(op, want string) (bool, string) {
	f, err := os.CreateTemp("", "c09-replay-*.txt")
	if err != nil {
		return false, ""
	}
	defer os.Remove(f.Name())
	f.WriteString(op + "\n")
	f.Close()
	ctx, cancel := context.WithTimeout(context.Background(), 20*time.Second)
	defer cancel()
	out, err := osexec.CommandContext(ctx, os.Args[0], "-replay", f.Name()).Output()
	if err != nil {
		return false, ""
	}
	ans := strings.TrimSpace(string(out))
	if !strings.HasPrefix(ans, "ok ") {
		return false, ans
	}
	return ans != want, ans
}

// ---------------------------------------------------------------- exec

func unhex(s string) []byte {
	if s == "-" {
		return []byte{}
	}
	b, err := hex.DecodeString(s)
	if err != nil {
		panic("bad-op")
	}
	return b
}

func u(s string, max uint64) uint64 {
	v, err := strconv.ParseUint(s, 10, 64)
	if err != nil || v > max {
		panic("bad-op")
	}
	return v
}

func errStr(err error) string {
	if err == nil {
		return "ok true"
	}
	return "ok false"
}

func exec(t []string) string {
	switch {
	case t[0] == "vreq" && len(t) == 3:
		p := ntp.Packet{LVM: uint8(u(t[1], 255))}
		return errStr(ntp.ValidateRequest(&p, uint16(u(t[2], 65535))))
	case t[0] == "vreqpkt" && len(t) == 3:
		var p ntp.Packet
		if err := ntp.DecodePacket(&p, unhex(t[1])); err != nil {
			return "err size"
		}
		return errStr(ntp.ValidateRequest(&p, uint16(u(t[2], 65535))))
	case t[0] == "reply.hdr" && len(t) == 2:
		needClock()
		var p ntp.Packet
		if err := ntp.DecodePacket(&p, unhex(t[1])); err != nil {
			return "err size"
		}
		r := server.VerifC09ReplyHeader("verif-c09", &p)
		return fmt.Sprintf("ok %d %d %d %d %d %d %d %d %d", r.LVM, r.Stratum, r.Poll, r.Precision,
			r.RootDelay.Seconds, r.RootDelay.Fraction, r.RootDispersion.Seconds, r.RootDispersion.Fraction, r.ReferenceID)
	case t[0] == "ip.dgram" && len(t) == 3:
		if t[2] != "nts=0" {
			return "bad-op" // authenticated requests are not generated by this command
		}
		return dgram(unhex(t[1]))
	case t[0] == "ip.hist" && len(t) == 4:
		if !strings.HasPrefix(t[2], "nv=") || !strings.HasPrefix(t[3], "ak=") {
			return "bad-op"
		}
		var ps [][]byte
		for _, h := range strings.Split(t[1], ",") {
			ps = append(ps, unhex(h))
		}
		aks := strings.Split(t[3][3:], ",")
		if len(aks) != len(ps) {
			return "bad-op"
		}
		keys := make([]*assocKeys, len(ps))
		for i, a := range aks {
			if a == "-" {
				continue
			}
			j := strings.IndexByte(a, '.')
			if j < 0 {
				return "bad-op"
			}
			keys[i] = &assocKeys{c2s: unhex(a[:j]), s2c: unhex(a[j+1:])}
		}
		return hist(ps, keys)
	case t[0] == "ip.ident":
		return identExec(t[1:])
	case t[0] == "ip.seq" && len(t) == 3:
		if t[2] != "nts=0" {
			return "bad-op"
		}
		var ps [][]byte
		for _, h := range strings.Split(t[1], ",") {
			ps = append(ps, unhex(h))
		}
		return seq(ps)
	}
	return "bad-op"
}

// ---------------------------------------------------------------- generator + direct oracle

// wellFormed is the property's own characterisation of a client request header byte, written
// arithmetically (independent of the accessors of net/ntp and of the Lean model).
func wellFormed(b0 byte) bool {
	li, vn, mode := b0/64, b0/8%8, b0%8
	return (li == 0 || li == 3) && ((vn >= 2 && vn <= 4 && mode == 3) || (vn == 1 && mode == 0))
}

// safeGarbage returns n bytes of trailing data that is not a valid NTS request and that
// nts.DecodePacket rejects without looping (zero-length extension fields are finding F2 of
// property C08, not this property's subject): when the extension-field loop is entered at all
// (n >= 28) the first field has an unknown type and a length reaching beyond the datagram.
func safeGarbage(r *lib.Rand, n int) []byte {
	g := r.Bytes(n)
	if n >= 4 {
		g[0] = 0x7f // unknown (and not critical-bit) field type
		l := n + r.Intn(200)
		if l > 0xffff {
			l = 0xffff
		}
		g[2], g[3] = byte(l>>8), byte(l)
	}
	return g
}

func ntsDecodes(payload []byte) bool {
	var p nts.Packet
	return nts.DecodePacket(&p, payload) == nil
}

func gen(c *lib.Ctx) {
	r := c.Rand
	if identOnly() {
		// property C06 runs only the client-identity histories of this harness
		genIdent(c, c.Rand.Fork("ident"), c.Scale(150, 1500))
		return
	}
	// C09_PART=nts: only the histories with NTS associations on the live listener (properties C10 and
	// C11 run this part: the listeners' NTS branch — cookie, authentication, fresh cookies — is theirs too)
	ntsOnly := os.Getenv("C09_PART") == "nts"
	if !ntsOnly {
		defer genIdent(c, c.Rand.Fork("ident"), c.Scale(40, 400))
	}

	// ---- (a) in-process ---------------------------------------------------------------
	if !ntsOnly {
		c.Comment("ValidateRequest: all 256 first bytes x source ports")
		ports := []int64{0, 1, 122, 123, 124, 1023, 1024, 10123, 32768, 65535}
		accepted := 0
		for b0 := 0; b0 < 256; b0++ {
			ps := append([]int64{}, ports...)
			ps = append(ps, r.Range(0, 65535), r.Range(0, 65535))
			first := ""
			for _, p := range ps {
				op := fmt.Sprintf("vreq %d %d", b0, p)
				ans := c.Do(op)
				if first == "" {
					first = ans
					if ans == "ok true" {
						accepted++
					}
				}
				want := "ok " + lib.Bool(wellFormed(byte(b0)))
				if ans != want {
					c.Fail(fmt.Sprintf("C09:validate:lvm=%d", b0), "ntp.ValidateRequest disagrees with the property's characterisation of a client request",
						[]string{op}, map[string]any{"lvm": b0, "port": p, "got": ans, "want": want})
				}
				if wellFormed(byte(b0)) {
					c.Count("validate:accepted")
				} else {
					c.Count("validate:rejected")
				}
			}
		}
		if accepted != 8 {
			c.Fail("C09:validate:count", "number of accepted first bytes is not 8", []string{"vreq 35 123"}, map[string]any{"accepted": accepted})
		}

		c.Comment("ValidateRequest on decoded packets with arbitrary remaining bytes")
		sawPanic := false
		n := c.Scale(4000, 200000)
		for i := 0; i < n; i++ {
			ln := 48
			switch r.Intn(10) {
			case 0:
				ln = int(r.Range(0, 47))
			case 1:
				ln = int(r.Range(49, 200))
			}
			b := r.Bytes(ln)
			if ln > 0 && r.Chance(50) {
				b[0] = []byte{8, 19, 27, 35, 200, 211, 219, 227}[r.Intn(8)]
				if r.Chance(30) { // one bit away from an accepted byte
					b[0] ^= 1 << r.Intn(8)
				}
			}
			op := fmt.Sprintf("vreqpkt %s %d", lib.Hex(b), r.Range(0, 65535))
			ans := c.Do(op)
			want := "err size"
			if ln >= 48 {
				want = "ok " + lib.Bool(wellFormed(b[0]))
			}
			if strings.HasPrefix(ans, "panic") {
				sawPanic = true
			}
			if ans != want {
				c.Fail("C09:validate:packet", "ValidateRequest on a decoded packet depends on more than the first byte, or DecodePacket's size rule changed",
					[]string{op}, map[string]any{"got": ans, "want": want})
			}
			c.Count("vreqpkt:" + want)
		}

		c.Comment("reply header of handleRequest")
		for b0 := 0; b0 < 256; b0++ {
			for k := 0; k < 3; k++ {
				b := r.Bytes(48)
				b[0] = byte(b0)
				switch k {
				case 0:
					b[2] = 0
				case 1:
					b[2] = 0x80 // poll -128
				}
				op := "reply.hdr " + lib.Hex(b)
				ans := c.Do(op)
				xs, ok := lib.Ints(ans)
				if !ok || len(xs) != 9 {
					c.Fail("C09:reply:header", "handleRequest did not produce a header", []string{op}, map[string]any{"got": ans})
					continue
				}
				lvm := xs[0]
				if lvm/64 != 0 || lvm/8%8 != 4 || lvm%8 != 4 || xs[1] != 1 {
					c.Fail("C09:reply:shape", "reply is not leap 0 / version 4 / mode 4 (server) / stratum 1",
						[]string{op}, map[string]any{"lvm": lvm, "stratum": xs[1]})
				}
				if wellFormed(byte(lvm)) {
					c.Fail("C09:reply:reflection", "the reply header byte is itself a well-formed request: two servers could answer each other",
						[]string{op}, map[string]any{"lvm": lvm})
				}
				if xs[2] != int64(int8(b[2])) {
					c.Fail("C09:reply:poll", "reply poll is not the request's poll", []string{op}, map[string]any{"got": xs[2]})
				}
				c.Count("reply.hdr")
			}
		}

		// ---- (b) the IP listener on loopback ------------------------------------------------
		if sawPanic {
			// a decoder panic in a listener goroutine would take this process down with it; the
			// failing input is already recorded above
			c.NotExecuted("IP listener on loopback: skipped because ntp.DecodePacket panicked in-process (the listener would crash)")
			return
		}
	} // !ntsOnly
	srvOnce.Do(startServer)
	if srvErr != nil {
		c.NotExecuted("IP listener on loopback: " + srvErr.Error())
		return
	}
	c.Count("listener:started")
	notExec := 0
	// After a few unanswered well-formed requests the listener (or some of its sockets) is
	// damaged; every further case would only wait for its deadline. The findings are recorded,
	// the rest of the listener part is skipped.
	const maxUnanswered = 4
	unanswered, skipped := 0, 0
	var recent []string // the most recent listener ops (context for a finding)
	remember := func(op string) {
		recent = append(recent, op)
		if len(recent) > 6 {
			recent = recent[1:]
		}
	}
	reportUnanswered := func(op, ans string, lens []int) {
		unanswered++
		c.Count("listener:valid-request-unanswered")
		c.Fail("C09:listener:valid-request-unanswered",
			"a well-formed 48-byte client request got no reply: after the datagram(s) of this op, sent from the same client socket (hence to the same listener socket), the well-formed request that followed was not answered within the deadline, not even when re-sent twice",
			[]string{op}, map[string]any{"got": ans, "datagram_lengths": lens,
				"fresh_sockets_answered_of_3": lastFreshAlive, "preceding_listener_ops": append([]string{}, recent...)})
	}
	send := func(payload []byte, what string) {
		if unanswered >= maxUnanswered {
			skipped++
			return
		}
		if len(payload) > 48 && ntsDecodes(payload) {
			c.Count("skipped:nts-decodable-trailing-data") // out of scope (would need the cookie keys)
			return
		}
		op := fmt.Sprintf("ip.dgram %s nts=0", lib.Hex(payload))
		ans := lib.Try(func() string { return exec(strings.Fields(op)) })
		if ans == "err not-executed" {
			notExec++
			return
		}
		c.Emit(op, ans)
		if strings.HasPrefix(ans, "ok sentinel-unanswered") {
			reportUnanswered(op, ans, []int{len(payload)})
			remember(op)
			return
		}
		remember(op)
		valid := len(payload) == 48 && wellFormed(payload[0])
		c.Count(fmt.Sprintf("dgram:%s:%s", what, map[bool]string{true: "answered", false: "silent"}[ans != "ok none"]))
		if valid {
			want := "ok reply n=1 len=48 lvm=36 stratum=1 src=server"
			if ans != want {
				sig := "C09:listener:valid-request-not-answered-once"
				if ans != "ok none" {
					sig = "C09:listener:reply-shape-or-count"
				}
				c.Fail(sig, "a well-formed 48-byte client request must get exactly one version-4 server-mode stratum-1 reply from the listener's address",
					[]string{op}, map[string]any{"got": ans, "want": want, "first_byte": payload[0]})
			}
		} else if ans != "ok none" {
			b0 := -1
			if len(payload) > 0 {
				b0 = int(payload[0])
			}
			c.Fail(fmt.Sprintf("C09:listener:answered-non-request:len=%d:lvm=%d", len(payload), b0),
				"the listener answered a datagram that is not a well-formed client request",
				[]string{op}, map[string]any{"got": ans, "len": len(payload), "first_byte": b0})
		}
	}
	// sequences on ONE client socket (= one listener socket): rejected datagram(s), then a
	// well-formed request, then the sentinel. What an earlier datagram leaves behind in the
	// listener must not change the fate of a later one.
	c.Comment("IP listener: sequences on one socket (rejected datagrams, then a valid request)")
	validReq := func() []byte {
		p := r.Bytes(48)
		p[0] = []byte{8, 19, 27, 35, 200, 211, 219, 227}[r.Intn(8)]
		copy(p[32:40], p[40:48]) // receive == transmit timestamp: basic mode, origin = transmit
		return p
	}
	junk := func(ln int) []byte {
		switch {
		case ln < 48:
			return r.Bytes(ln)
		case ln == 48: // 48 bytes with a first byte that is not a request
			p := r.Bytes(48)
			for wellFormed(p[0]) {
				p[0]++
			}
			return p
		default:
			p := append(r.Bytes(48), safeGarbage(r, ln-48)...)
			return p
		}
	}
	sendSeq := func(ps [][]byte, what string) {
		if unanswered >= maxUnanswered {
			skipped++
			return
		}
		hs := make([]string, len(ps))
		lens := make([]int, len(ps))
		want := make([]byte, len(ps))
		for i, p := range ps {
			if len(p) > 48 && ntsDecodes(p) {
				return
			}
			hs[i], lens[i], want[i] = lib.Hex(p), len(p), '0'
			if len(p) == 48 && wellFormed(p[0]) {
				want[i] = '1'
			}
		}
		op := fmt.Sprintf("ip.seq %s nts=0", strings.Join(hs, ","))
		ans := lib.Try(func() string { return exec(strings.Fields(op)) })
		if ans == "err not-executed" {
			notExec++
			return
		}
		c.Emit(op, ans)
		defer remember(op)
		c.Count("seq:" + what)
		wantAns := fmt.Sprintf("ok answered=%s extra=0 sentinel=answered shape=ok", want)
		if ans == wantAns {
			return
		}
		f := strings.Fields(ans)
		got := ""
		if len(f) > 1 {
			got = strings.TrimPrefix(f[1], "answered=")
		}
		missing := false
		for i := range want {
			if want[i] == '1' && (i >= len(got) || got[i] == '0') {
				missing = true
			}
		}
		switch {
		case strings.Contains(ans, "sentinel=unanswered") || missing:
			reportUnanswered(op, ans, lens)
		default:
			c.Fail("C09:listener:sequence:"+what, "replies to a sequence of datagrams on one socket are not exactly one per well-formed request",
				[]string{op}, map[string]any{"got": ans, "want": wantAns, "datagram_lengths": lens})
		}
	}
	if !ntsOnly {
		for ln := 0; ln <= 48; ln++ { // every rejected length below 48 (and a 48-byte non-request), then a valid request
			sendSeq([][]byte{junk(ln), validReq()}, "short-then-valid")
		}
		for _, ln := range []int{49, 50, 75, 76, 100, 1000, 2047, 2048, 2049, 2050, 3000, 4096, 9000} {
			sendSeq([][]byte{junk(ln), validReq()}, "long-then-valid")
		}
		for i := 0; i < c.Scale(60, 1500); i++ { // mixed: valid / rejected in random order, 2..6 datagrams
			n := 2 + r.Intn(5)
			var ps [][]byte
			for k := 0; k < n; k++ {
				switch r.Intn(5) {
				case 0, 1:
					ps = append(ps, validReq())
				case 2:
					ps = append(ps, junk(r.Intn(48)))
				case 3:
					ps = append(ps, junk(48))
				default:
					ps = append(ps, junk([]int{49, 76, 500, 2048, 2049, 5000}[r.Intn(6)]))
				}
			}
			sendSeq(ps, "mixed")
		}
	} // !ntsOnly

	ntsHistories(c, r, validReq, junk, &unanswered, &skipped, &notExec, maxUnanswered, remember, func() []string { return append([]string{}, recent...) })

	if !ntsOnly {
		c.Comment("IP listener on loopback: 256 first bytes x lengths x trailing data")
		lengths := []int{0, 1, 47, 48, 49, 76, 1024, 2048, 2049}
		for b0 := 0; b0 < 256; b0++ {
			for _, ln := range lengths {
				if ln == 0 {
					if b0 == 0 {
						send([]byte{}, "len0")
					}
					continue
				}
				if ln <= 48 {
					p := r.Bytes(ln)
					p[0] = byte(b0)
					send(p, fmt.Sprintf("len%d", ln))
					continue
				}
				if ln > 100 && !wellFormed(byte(b0)) && !c.Thorough() && b0%16 != 5 {
					continue // long datagrams for every first byte only in the thorough tier
				}
				p := append(r.Bytes(48), safeGarbage(r, ln-48)...)
				p[0] = byte(b0)
				send(p, fmt.Sprintf("len%d:garbage", ln))
				if ln == 76 || ln == 49 {
					// trailing zeros shorter than / equal to the loop threshold would be a zero-length
					// field at 76 (F2); use 0xff filler instead
					q := append(r.Bytes(48), make([]byte, ln-48)...)
					for i := 48; i < len(q); i++ {
						q[i] = 0xff
					}
					q[0] = byte(b0)
					send(q, fmt.Sprintf("len%d:ff", ln))
				}
			}
		}

		// random header bytes around the accepted first bytes, random lengths near 48
		m := c.Scale(1500, 40000)
		for i := 0; i < m; i++ {
			ln := 48
			switch r.Intn(8) {
			case 0:
				ln = int(r.Range(0, 47))
			case 1:
				ln = int(r.Range(49, 75))
			case 2:
				ln = int(r.Range(76, 300))
			}
			var p []byte
			if ln <= 48 {
				p = r.Bytes(ln)
			} else {
				p = append(r.Bytes(48), safeGarbage(r, ln-48)...)
			}
			if ln > 0 && r.Chance(70) {
				p[0] = []byte{8, 19, 27, 35, 200, 211, 219, 227}[r.Intn(8)]
				if r.Chance(25) {
					p[0] ^= 1 << r.Intn(8)
				}
			}
			send(p, "random")
		}

		// reflection: a genuine reply of the listener, sent back to it, is not answered
		c.Comment("reflection: the listener's own replies sent back to it")
		for i := 0; i < 64 && unanswered < maxUnanswered; i++ {
			rep := fetchReply(clients[i%len(clients)])
			if rep == nil {
				notExec++
				continue
			}
			send(rep, "reflected-reply")
		}
	} // !ntsOnly
	// nothing may be left over on any client socket: every reply went to the socket that sent
	// the request (a reply to a different port would have been counted against another exchange
	// or be waiting here)
	stray := 0
	sbuf := make([]byte, 4096)
	for _, cl := range clients {
		for {
			cl.SetReadDeadline(time.Now().Add(30 * time.Millisecond))
			if _, _, err := cl.ReadFromUDPAddrPort(sbuf); err != nil {
				break
			}
			stray++
		}
	}
	c.Count("listener:stray-check")
	if stray > 0 && notExec == 0 && unanswered == 0 {
		c.Fail("C09:listener:stray-reply", "datagrams arrived on client sockets outside any exchange (a reply sent twice or to the wrong port)",
			[]string{"ip.dgram 23" + strings.Repeat("00", 47) + " nts=0"}, map[string]any{"stray": stray})
	}
	if skipped > 0 {
		c.NotExecuted(fmt.Sprintf("%d listener cases skipped after %d well-formed requests went unanswered (recorded as oracle failures)", skipped, unanswered))
	}
	if notExec > 0 {
		c.NotExecuted(fmt.Sprintf("%d loopback exchanges got no sentinel reply within the timeout (sandbox)", notExec))
	}
}

// ---------------------------------------------------------------- histories mixing plain NTP, NTS associations, junk

// item is one datagram of a history: its bytes, the association it was derived from (whose keys
// a reply has to be authentic under) and whether it was built as a valid request.
type item struct {
	b     []byte
	a     *assoc
	kind  string
	valid bool // built as a valid client request (plain or NTS): must be answered exactly once
}

// ntsHistories: sequences on ONE client socket (hence one listener goroutine, in order) mixing
// plain NTP requests, authentic NTS requests of several associations (distinct keys and cookies,
// built with the real ntske/nts code), datagrams that leave a cookie behind in the decoder
// (junk cookie fields, undecodable / unknown-key / wrong-key cookies, good cookie with a forged
// authenticator) and malformed datagrams (field mutations, truncations).
// Oracle: every datagram is answered exactly once iff it is a well-formed client request by
// itself — 48..2048 bytes, well-formed first byte, and, when longer than 48 bytes, the NTS branch
// evaluated on this datagram alone (fresh structs) succeeds —, a plain request with a 48-byte
// reply, an NTS request with a reply that authenticates under ITS association's S2C key and
// carries fresh cookies of that association; independent of everything the socket saw before.
func ntsHistories(c *lib.Ctx, r *lib.Rand, validReq func() []byte, junk func(int) []byte,
	unanswered, skipped, notExec *int, maxUnanswered int, remember func(string), recentOps func() []string) {
	c.Comment("IP listener: histories on one socket mixing plain NTP, NTS associations A/B/C, junk cookies, malformed datagrams")
	assocs := []*assoc{newAssoc(r, "A"), newAssoc(r, "B"), newAssoc(r, "C")}
	nonReq := func() []byte { // a 48-byte header that is not a client request (server mode)
		h := validReq()
		h[0] = 0x24
		return h
	}
	mk := func(kind string, a *assoc) item {
		switch kind {
		case "plain":
			return item{validReq(), nil, kind, true}
		case "nts": // as the project's client builds it, pool level 1..8
			return item{a.request(validReq(), 1+r.Intn(8)), a, kind, true}
		case "nts-full": // full pool: one cookie, no placeholder
			return item{a.request(validReq(), 8), a, kind, true}
		case "nts-foreign": // another implementation's encoder, longer identifier, short placeholders
			fields := [][]byte{ntsx.RawField(0x104, r.Bytes([]int{32, 36, 48, 64, 200}[r.Intn(5)])), ntsx.RawField(0x204, a.cookie())}
			for i := r.Intn(4); i > 0; i-- {
				fields = append(fields, ntsx.RawField(0x304, make([]byte, []int{4, 124}[r.Intn(2)])))
			}
			return item{ntsx.ForeignPacket(validReq(), fields, a.k.c2s, r.Bytes(16), nil), a, kind, true}
		case "nts-two-cookies": // a request carrying two cookies of its association
			fields := [][]byte{ntsx.RawField(0x104, r.Bytes(32)), ntsx.RawField(0x204, a.cookie()), ntsx.RawField(0x204, a.cookie())}
			return item{ntsx.ForeignPacket(validReq(), fields, a.k.c2s, r.Bytes(16), nil), a, kind, true}
		case "nts-nonrequest": // authentic NTS fields behind a header that is not a client request
			return item{a.request(nonReq(), 1+r.Intn(8)), a, kind, false}
		case "junk-cookie-field": // header + one cookie field nothing can open (no identifier, no authenticator)
			return item{append(validReq(), ntsx.RawField(0x204, r.Bytes([]int{32, 24, 124}[r.Intn(3)]))...), nil, kind, false}
		case "junk-cookie-request": // complete NTS packet whose cookie is random bytes
			fields := [][]byte{ntsx.RawField(0x104, r.Bytes(32)), ntsx.RawField(0x204, r.Bytes(124))}
			return item{ntsx.ForeignPacket(validReq(), fields, r.Bytes(32), r.Bytes(16), nil), nil, kind, false}
		case "cookie-unknown-key": // well-formed cookie under a key id the provider does not have
			fields := [][]byte{ntsx.RawField(0x104, r.Bytes(32)), ntsx.RawField(0x204, a.cookieUnder(r.Bytes(32), 77))}
			return item{ntsx.ForeignPacket(validReq(), fields, a.k.c2s, r.Bytes(16), nil), a, kind, false}
		case "cookie-wrong-key": // the provider's key id, sealed under another key
			fields := [][]byte{ntsx.RawField(0x104, r.Bytes(32)), ntsx.RawField(0x204, a.cookieUnder(r.Bytes(32), srvProvider.Current().ID))}
			return item{ntsx.ForeignPacket(validReq(), fields, a.k.c2s, r.Bytes(16), nil), a, kind, false}
		case "forged-auth": // a genuine cookie of the association, authenticator under a key the sender guessed
			fields := [][]byte{ntsx.RawField(0x104, r.Bytes(32)), ntsx.RawField(0x204, a.cookie())}
			return item{ntsx.ForeignPacket(validReq(), fields, r.Bytes(32), r.Bytes(16), nil), a, kind, false}
		case "mutant": // one field of an authentic request damaged (may stay valid: decided by the branch alone)
			ms := ntsx.FieldMutants(a.request(validReq(), 1+r.Intn(8)), r)
			m := ms[r.Intn(len(ms))]
			return item{m.B, a, kind + ":" + strings.SplitN(strings.TrimRight(m.Kind, "0123456789+-=x"), "=", 2)[0], false}
		case "truncated":
			b := a.request(validReq(), 1+r.Intn(8))
			return item{b[:49+r.Intn(len(b)-49)], a, kind, false}
		case "short":
			return item{junk(r.Intn(48)), nil, kind, false}
		case "nonrequest48":
			return item{junk(48), nil, kind, false}
		case "garbage":
			return item{junk([]int{49, 76, 500, 2048}[r.Intn(4)]), nil, kind, false}
		case "overlong":
			return item{junk([]int{2049, 3000}[r.Intn(2)]), nil, kind, false}
		}
		panic("kind " + kind)
	}
	kinds := []string{"plain", "nts", "nts-full", "nts-foreign", "nts-two-cookies", "nts-nonrequest", "junk-cookie-field", "junk-cookie-request",
		"cookie-unknown-key", "cookie-wrong-key", "forged-auth", "mutant", "truncated", "short", "nonrequest48", "garbage", "overlong"}
	ntsValid := []string{"nts", "nts-full", "nts-foreign", "nts-two-cookies"}
	leavesCookie := []string{"junk-cookie-field", "junk-cookie-request", "cookie-unknown-key", "cookie-wrong-key", "forged-auth", "nts-nonrequest", "truncated", "mutant"}

	opOf := func(items []item) (op, want string, alone []bool) {
		ps := make([][]byte, len(items))
		hs := make([]string, len(items))
		aks := make([]string, len(items))
		for i, it := range items {
			ps[i], hs[i], aks[i] = it.b, lib.Hex(it.b), "-"
			if it.a != nil {
				aks[i] = lib.Hex(it.a.k.c2s) + "." + lib.Hex(it.a.k.s2c)
			}
		}
		views, alone := ntsViews(ps)
		pat, kd := make([]byte, len(items)), make([]byte, len(items))
		for i, it := range items {
			pat[i], kd[i] = '0', 'n'
			if len(it.b) >= 48 && len(it.b) <= 2048 && wellFormed(it.b[0]) && (len(it.b) == 48 || alone[i]) {
				pat[i], kd[i] = '1', 'p'
				if len(it.b) > 48 {
					kd[i] = 'a'
				}
			}
		}
		op = fmt.Sprintf("ip.hist %s nv=%s ak=%s", strings.Join(hs, ","), strings.Join(views, ","), strings.Join(aks, ","))
		want = fmt.Sprintf("ok answered=%s kinds=%s extra=0 sentinel=answered shape=ok", pat, kd)
		return op, want, alone
	}
	// runOp executes one history and returns the indices whose fate is not the expected one
	runOp := func(items []item) (op, ans, want string, bad []int, executed bool) {
		op, want, _ = opOf(items)
		ans = lib.Try(func() string { return exec(strings.Fields(op)) })
		if ans == "err not-executed" {
			*notExec++
			return op, ans, want, nil, false
		}
		c.Emit(op, ans)
		remember(fmt.Sprintf("ip.hist <%d datagrams> => %s", len(items), ans))
		if ans == want {
			return op, ans, want, nil, true
		}
		gp, gk := ntsx.Field(ans, "answered"), ntsx.Field(ans, "kinds")
		wp, wk := ntsx.Field(want, "answered"), ntsx.Field(want, "kinds")
		for i := range items {
			if i >= len(gp) || i >= len(gk) || gp[i] != wp[i] || gk[i] != wk[i] {
				bad = append(bad, i)
			}
		}
		return op, ans, want, bad, true
	}
	failures := 0
	history := func(items []item, what string) {
		if *unanswered >= maxUnanswered || failures >= 6 { // a damaged listener: the findings are recorded, the rest would only repeat them
			*skipped++
			return
		}
		_, _, alone := opOf(items)
		for i, it := range items {
			// invalid BY CONSTRUCTION (the harness chose random keys / random cookie bytes): whatever the
			// real NTS functions say about such a datagram, the property says it is not a valid NTS
			// request — an independent verdict for the authenticity clause (the branch's own verdict
			// `alone` is computed with the code under test)
			forged := it.kind == "forged-auth" || it.kind == "cookie-wrong-key" || it.kind == "cookie-unknown-key" ||
				it.kind == "junk-cookie-request" || it.kind == "junk-cookie-field"
			if forged && alone[i] {
				c.Fail("C09:nts:forged-request-accepted-by-branch", "a datagram built with a forged authenticator / a cookie that no server key can open passes the NTS branch's calls (cookie lookup, Decrypt, ProcessRequest) on fresh structs: the listener would answer a payload that is not a valid NTS request",
					[]string{func() string { o, _, _ := opOf([]item{it}); return o }()}, map[string]any{"kind": it.kind, "len": len(it.b)})
				return
			}
			if it.valid && len(it.b) > 48 && !alone[i] { // the request builders and the branch disagree without any listener involved
				c.Fail("C09:nts:valid-request-refused-by-branch", "a request built as an authentic NTS request does not pass the NTS branch's calls on fresh structs",
					[]string{func() string { o, _, _ := opOf([]item{it}); return o }()}, map[string]any{"kind": it.kind, "len": len(it.b)})
				return
			}
		}
		op, ans, want, bad, executed := runOp(items)
		if !executed {
			return
		}
		c.Count("hist:" + what)
		for _, it := range items {
			c.Count("hist-datagram:" + it.kind)
		}
		if len(bad) == 0 {
			return
		}
		// A concrete failing history. Whatever earlier histories left in the listener is not part of
		// this op line, so first see what the same op does in a new process (a listener that has seen
		// nothing else), then look for a smaller history that still fails there.
		failures++
		firstBad := func(got, want string) int {
			gp, gk := ntsx.Field(got, "answered"), ntsx.Field(got, "kinds")
			wp, wk := ntsx.Field(want, "answered"), ntsx.Field(want, "kinds")
			for i := range wp {
				if i >= len(gp) || i >= len(gk) || gp[i] != wp[i] || gk[i] != wk[i] {
					return i
				}
			}
			return len(wp) - 1
		}
		j := bad[0]
		replay, replayAns, replayWant, confirmed := op, ans, want, false
		if fails, fans := failsInFreshProcess(op, want); fails {
			replayAns, confirmed = fans, true
			j = firstBad(fans, want)
			var cands [][]item
			for i := j - 1; i >= 0; i-- {
				cands = append(cands, []item{items[i], items[j]})
			}
			if j+1 < len(items) {
				cands = append(cands, items[:j+1])
			}
			for k, cand := range cands {
				if k >= 6 {
					break
				}
				cop, cwant, _ := opOf(cand)
				if fails, cans := failsInFreshProcess(cop, cwant); fails {
					replay, replayAns, replayWant = cop, cans, cwant
					items = cand
					j = firstBad(cans, cwant)
					break
				}
			}
		}
		it := items[j]
		gp, gk := ntsx.Field(replayAns, "answered"), ntsx.Field(replayAns, "kinds")
		sig, whatTxt := "C09:listener:history:"+what, "the replies to a history of datagrams on one listener socket are not exactly one per well-formed request, each authentic under its own association"
		wantsReply := ntsx.Field(replayWant, "answered")[j] == '1'
		switch {
		case j < len(gp) && wantsReply && gp[j] == '0' && len(it.b) > 48:
			sig = "C09:listener:valid-nts-request-unanswered"
			whatTxt = fmt.Sprintf("a valid NTS request (well-formed header; its cookie opens under the provider's key and its authenticator verifies under the cookie's C2S key) got no reply when it was datagram %d of this history on one listener socket", j+1)
			*unanswered++
		case j < len(gp) && wantsReply && gp[j] == '0':
			sig = "C09:listener:valid-request-unanswered"
			whatTxt = fmt.Sprintf("a well-formed 48-byte client request got no reply when it was datagram %d of this history on one listener socket", j+1)
			*unanswered++
		case j < len(gp) && !wantsReply && gp[j] != '0':
			sig = fmt.Sprintf("C09:listener:answered-non-request:nts:%s", strings.SplitN(it.kind, ":", 2)[0])
			whatTxt = "the listener answered a datagram that is not a well-formed client request (its NTS part does not authenticate by itself)"
		case j < len(gp) && gp[j] > '1':
			sig = "C09:listener:request-answered-more-than-once"
			whatTxt = "a request was answered more than once"
		case j < len(gk) && gk[j] == 'x' && strings.HasPrefix(ntsx.Field(replayAns, fmt.Sprintf("why%d", j)), "count:"):
			sig = "C09:listener:nts-reply-cookie-count"
			whatTxt = "the reply to a valid NTS request authenticates but does not carry one fresh cookie per cookie or placeholder field of THIS request (as many as fit): " + ntsx.Field(replayAns, fmt.Sprintf("why%d", j))
		case j < len(gk) && gk[j] == 'x':
			sig = "C09:listener:nts-reply-not-authentic"
			whatTxt = "the reply to a valid NTS request does not authenticate under the S2C key of the association the request belongs to, or does not carry that association's fresh cookies: " + ntsx.Field(replayAns, fmt.Sprintf("why%d", j))
		case j < len(gk) && gk[j] == 'p' && len(it.b) > 48:
			sig = "C09:listener:nts-request-answered-unauthenticated"
			whatTxt = "a valid NTS request was answered with a bare 48-byte reply"
		}
		var ks []string
		for _, x := range items {
			ks = append(ks, x.kind)
		}
		c.Fail(sig, whatTxt, []string{replay}, map[string]any{"got": replayAns, "want": replayWant, "datagram_kinds": ks, "failing_datagram": j + 1,
			"replay_confirmed_in_fresh_process": confirmed, "first_seen_in": what, "first_seen_answer": ans, "first_seen_want": want,
			"preceding_listener_ops": recentOps()})
	}

	pick := func(names []string) string { return names[r.Intn(len(names))] }
	two := func() (*assoc, *assoc) {
		i := r.Intn(len(assocs))
		return assocs[i], assocs[(i+1+r.Intn(len(assocs)-1))%len(assocs)]
	}
	// 1. two associations on one socket, in both orders, plain requests in between
	for i := 0; i < c.Scale(6, 60); i++ {
		a, b := two()
		history([]item{mk("nts", a), mk("nts", b)}, "A-B")
		history([]item{mk("nts", a), mk("nts", a), mk("plain", nil), mk("nts", b), mk("nts", a), mk("nts", b)}, "A-A-plain-B-A-B")
		history([]item{mk("plain", nil), mk(pick(ntsValid), a), mk("plain", nil), mk(pick(ntsValid), b), mk("plain", nil)}, "plain-A-plain-B-plain")
	}
	// 2. every kind of datagram that can leave something behind, then a valid request of each sort
	for _, k := range leavesCookie {
		for i := 0; i < c.Scale(2, 20); i++ {
			a, b := two()
			history([]item{mk(k, a), mk("nts", a)}, "leftover-then-same-association")
			history([]item{mk(k, a), mk("nts", b)}, "leftover-then-other-association")
			history([]item{mk(k, a), mk("plain", nil), mk(pick(ntsValid), b), mk("plain", nil)}, "leftover-then-plain-and-nts")
		}
	}
	// 3. all ordered pairs of kinds
	for _, k1 := range kinds {
		for _, k2 := range kinds {
			a, b := two()
			if r.Bool() {
				b = a
			}
			history([]item{mk(k1, a), mk(k2, b)}, "pairs")
		}
	}
	// 4. random histories of 2..10 datagrams, 70 % valid requests
	for i := 0; i < c.Scale(150, 4000); i++ {
		n := 2 + r.Intn(9)
		var items []item
		for k := 0; k < n; k++ {
			a := assocs[r.Intn(len(assocs))]
			switch x := r.Intn(10); {
			case x < 2:
				items = append(items, mk("plain", nil))
			case x < 7:
				items = append(items, mk(pick(ntsValid), a))
			default:
				items = append(items, mk(pick(kinds), a))
			}
		}
		history(items, "mixed")
	}
	// 5. one long history: the same socket sees many associations in turn
	for i := 0; i < c.Scale(2, 20); i++ {
		var items []item
		for k := 0; k < 24; k++ {
			items = append(items, mk([]string{"nts", "nts", "plain", "junk-cookie-field", "nts-foreign"}[r.Intn(5)], assocs[k%len(assocs)]))
		}
		history(items, "long")
	}
}

func main() { lib.Main(exec, gen) }
