// c09: correspondence + direct oracle for "servers answer exactly the valid client requests".
//
//	(a) in-process: ntp.ValidateRequest on all 256 first bytes x source ports, on whole decoded
//	    packets with arbitrary remaining header bytes, and the reply header of handleRequest;
//	(b) socket level: the real IP listener (server.StartIPServer) on 127.0.0.1, datagrams of
//	    all 256 first bytes x lengths x trailing data, replies counted before the reply to a
//	    well-formed sentinel sent from the same socket.
//
// NTS-valid trailing data (a request that authenticates) is out of this command's scope
// (C10/C11); the SCION listener is C13's.
package main

import (
	"context"
	"encoding/binary"
	"encoding/hex"
	"fmt"
	"io"
	"log/slog"
	"net"
	"net/netip"
	"strconv"
	"strings"
	"sync"
	"time"

	"example.com/scion-time/core/server"
	"example.com/scion-time/core/timebase"
	"example.com/scion-time/net/ntp"
	"example.com/scion-time/net/nts"
	"example.com/scion-time/net/ntske"
	"example.com/scion-time/net/udp"

	"verifharness/lib"
)

// ---------------------------------------------------------------- local clock

type sysClock struct{}

func (sysClock) Epoch() uint64                                { return 0 }
func (sysClock) Now() time.Time                               { return time.Now().UTC() }
func (sysClock) Drift(time.Duration) time.Duration            { return 0 }
func (sysClock) Step(time.Duration)                           {}
func (sysClock) Adjust(time.Duration, time.Duration, float64) {}
func (sysClock) Sleep(d time.Duration)                        { time.Sleep(d) }

var clockOnce sync.Once

func needClock() { clockOnce.Do(func() { timebase.RegisterClock(sysClock{}) }) }

// ---------------------------------------------------------------- the listener

var (
	srvOnce  sync.Once
	srvAddr  netip.AddrPort
	srvErr   error
	clients  []*net.UDPConn
	sentinel uint32
)

const numClients = 12 // more sockets than listener goroutines: several 4-tuples per server socket

func startServer() {
	needClock()
	// find a free port (StartIPServer terminates the process when it cannot bind)
	// The probe socket has SO_REUSEPORT like the listener's sockets and stays bound until they
	// are all open, so that nobody else can take the port in between.
	lc := net.ListenConfig{Control: udp.SetsockoptReuseAddrPort}
	probe, err := lc.ListenPacket(context.Background(), "udp4", "127.0.0.1:0")
	if err != nil {
		srvErr = fmt.Errorf("loopback UDP not available: %w", err)
		return
	}
	port := probe.LocalAddr().(*net.UDPAddr).Port
	log := slog.New(slog.NewTextHandler(io.Discard, nil))
	server.StartIPServer(context.Background(), log,
		&net.UDPAddr{IP: net.IPv4(127, 0, 0, 1), Port: port}, 0, ntske.NewProvider())
	probe.Close()
	srvAddr = netip.AddrPortFrom(netip.AddrFrom4([4]byte{127, 0, 0, 1}), uint16(port))
	for i := 0; i < numClients; i++ {
		c, err := net.ListenUDP("udp4", &net.UDPAddr{IP: net.IPv4(127, 0, 0, 1), Port: 0})
		if err != nil {
			srvErr = fmt.Errorf("client socket: %w", err)
			return
		}
		clients = append(clients, c)
	}
	// wait until the listener answers a plain request
	for try := 0; try < 5; try++ {
		if _, answered, err := exchange(clients[0], nil, 300*time.Millisecond); err == nil && answered {
			srvErr = nil
			return
		} else if err != nil {
			srvErr = err
		} else {
			srvErr = fmt.Errorf("listener does not answer a plain request")
		}
	}
}

type reply struct {
	b    []byte
	from netip.AddrPort
}

const (
	firstWait = 1 * time.Second        // for the sentinel's reply (normally well under 1 ms)
	retryWait = 500 * time.Millisecond // for each of the two re-sent sentinels
	probeWait = 400 * time.Millisecond // fresh-socket liveness probes after a finding
)

func newSentinel() (b []byte, tx ntp.Time64) {
	sentinel++
	var sp ntp.Packet
	sp.SetVersion(4)
	sp.SetMode(ntp.ModeClient)
	sp.TransmitTime = ntp.Time64{Seconds: 0xfeed0000 | (sentinel >> 16 & 0xffff), Fraction: sentinel<<16 | 0x5e47}
	sp.ReceiveTime = sp.TransmitTime // basic mode: the reply's origin is this transmit time
	ntp.EncodePacket(&b, &sp)
	return b, sp.TransmitTime
}

func isReplyTo(r []byte, tx ntp.Time64) bool {
	return len(r) >= 48 && binary.BigEndian.Uint32(r[24:]) == tx.Seconds && binary.BigEndian.Uint32(r[28:]) == tx.Fraction
}

// exchange sends the payloads and then a well-formed sentinel from conn and collects every
// datagram received before the sentinel's reply (recognised by its origin timestamp). Every
// wait is bounded: the sentinel is re-sent twice from the same socket; answered=false means
// that a well-formed request on this socket got no reply within firstWait+2*retryWait.
func exchange(conn *net.UDPConn, payloads [][]byte, first time.Duration) (before []reply, answered bool, err error) {
	for _, p := range payloads {
		if _, err = conn.WriteToUDPAddrPort(p, srvAddr); err != nil {
			return nil, false, err
		}
	}
	buf := make([]byte, 4096)
	var sent []ntp.Time64
	for try := 0; try < 3; try++ {
		sb, tx := newSentinel()
		sent = append(sent, tx)
		if _, err = conn.WriteToUDPAddrPort(sb, srvAddr); err != nil {
			return before, false, err
		}
		wait := first
		if try > 0 {
			wait = retryWait
		}
		deadline := time.Now().Add(wait)
		for {
			conn.SetReadDeadline(deadline)
			n, from, rerr := conn.ReadFromUDPAddrPort(buf)
			if rerr != nil {
				break // deadline: re-send the sentinel
			}
			r := reply{b: append([]byte(nil), buf[:n]...), from: from}
			mine := false
			for _, tx := range sent {
				mine = mine || isReplyTo(r.b, tx)
			}
			if mine {
				// anything that is already queued behind the sentinel's reply (a duplicate reply,
				// a late reply) belongs to this exchange, not to the next one on this socket
				for {
					conn.SetReadDeadline(time.Now().Add(50 * time.Microsecond))
					n, from, rerr := conn.ReadFromUDPAddrPort(buf)
					if rerr != nil {
						break
					}
					before = append(before, reply{b: append([]byte(nil), buf[:n]...), from: from})
				}
				return before, true, nil
			}
			before = append(before, r)
		}
	}
	return before, false, nil
}

var nextClient int

// fetchReply returns the listener's reply to a plain well-formed request (nil if none within
// firstWait).
func fetchReply(conn *net.UDPConn) []byte {
	sb, tx := newSentinel()
	if _, err := conn.WriteToUDPAddrPort(sb, srvAddr); err != nil {
		return nil
	}
	deadline := time.Now().Add(firstWait)
	buf := make([]byte, 4096)
	for {
		conn.SetReadDeadline(deadline)
		n, _, err := conn.ReadFromUDPAddrPort(buf)
		if err != nil {
			return nil
		}
		if isReplyTo(buf[:n], tx) {
			return append([]byte(nil), buf[:n]...)
		}
	}
}

// replaceClient closes client i and opens a fresh socket (a new source port, hence possibly a
// different listener socket behind SO_REUSEPORT).
func replaceClient(i int) {
	clients[i].Close()
	c, err := net.ListenUDP("udp4", &net.UDPAddr{IP: net.IPv4(127, 0, 0, 1), Port: 0})
	if err == nil {
		clients[i] = c
	}
}

// aliveFromFreshSockets: does the listener still answer a plain request from new sockets?
func aliveFromFreshSockets() int {
	ok := 0
	for i := 0; i < 3; i++ {
		c, err := net.ListenUDP("udp4", &net.UDPAddr{IP: net.IPv4(127, 0, 0, 1), Port: 0})
		if err != nil {
			continue
		}
		sb, tx := newSentinel()
		c.WriteToUDPAddrPort(sb, srvAddr)
		c.SetReadDeadline(time.Now().Add(probeWait))
		buf := make([]byte, 4096)
		if n, _, err := c.ReadFromUDPAddrPort(buf); err == nil && isReplyTo(buf[:n], tx) {
			ok++
		}
		c.Close()
	}
	return ok
}

var lastFreshAlive = -1 // result of the liveness probe after the most recent unanswered sentinel

// run sends payloads from the next client socket; on an unanswered sentinel the socket is
// replaced and the listener probed from fresh sockets (for the failure detail only).
func run(payloads [][]byte) (before []reply, answered bool, ok bool) {
	srvOnce.Do(startServer)
	if srvErr != nil {
		return nil, false, false
	}
	i := nextClient % len(clients)
	nextClient++
	before, answered, err := exchange(clients[i], payloads, firstWait)
	if err != nil {
		replaceClient(i)
		return nil, false, false
	}
	if !answered {
		lastFreshAlive = aliveFromFreshSockets()
		replaceClient(i)
	}
	return before, answered, true
}

func shapeOK(r reply) bool {
	return len(r.b) == 48 && r.b[0] == 36 && r.b[1] == 1 && r.from == srvAddr
}

// dgram runs one datagram through the listener and renders what came back.
func dgram(payload []byte) string {
	if payload == nil {
		payload = []byte{}
	}
	before, answered, ok := run([][]byte{payload})
	if !ok {
		return "err not-executed"
	}
	if !answered {
		return fmt.Sprintf("ok sentinel-unanswered n=%d", len(before))
	}
	if len(before) == 0 {
		return "ok none"
	}
	r := before[0]
	src := "server"
	if r.from != srvAddr {
		src = r.from.String()
	}
	lvm, stratum := -1, -1
	if len(r.b) >= 2 {
		lvm, stratum = int(r.b[0]), int(r.b[1])
	}
	return fmt.Sprintf("ok reply n=%d len=%d lvm=%d stratum=%d src=%s", len(before), len(r.b), lvm, stratum, src)
}

// seq runs several datagrams from one client socket (hence to one listener socket, in order)
// and attributes the replies to them by origin timestamp = the datagram's transmit timestamp.
func seq(payloads [][]byte) string {
	before, answered, ok := run(payloads)
	if !ok {
		return "err not-executed"
	}
	pat := make([]byte, len(payloads))
	for i := range pat {
		pat[i] = '0'
	}
	extra, shape := 0, "ok"
	for _, r := range before {
		if !shapeOK(r) {
			shape = "bad"
		}
		hit := false
		match := func(p []byte) bool {
			return len(p) >= 48 && len(r.b) >= 32 && hex.EncodeToString(r.b[24:32]) == hex.EncodeToString(p[40:48])
		}
		for i, p := range payloads { // first matching datagram that has no reply yet
			if match(p) && pat[i] == '0' {
				pat[i], hit = '1', true
				break
			}
		}
		if !hit {
			for i, p := range payloads { // a second reply to the same datagram
				if match(p) && pat[i] < '9' {
					pat[i]++
					hit = true
					break
				}
			}
		}
		if !hit {
			extra++
		}
	}
	st := "answered"
	if !answered {
		st = "unanswered"
	}
	return fmt.Sprintf("ok answered=%s extra=%d sentinel=%s shape=%s", pat, extra, st, shape)
}

// ---------------------------------------------------------------- exec

func unhex(s string) []byte {
	if s == "-" {
		return []byte{}
	}
	b, err := hex.DecodeString(s)
	if err != nil {
		panic("bad-op")
	}
	return b
}

func u(s string, max uint64) uint64 {
	v, err := strconv.ParseUint(s, 10, 64)
	if err != nil || v > max {
		panic("bad-op")
	}
	return v
}

func errStr(err error) string {
	if err == nil {
		return "ok true"
	}
	return "ok false"
}

func exec(t []string) string {
	switch {
	case t[0] == "vreq" && len(t) == 3:
		p := ntp.Packet{LVM: uint8(u(t[1], 255))}
		return errStr(ntp.ValidateRequest(&p, uint16(u(t[2], 65535))))
	case t[0] == "vreqpkt" && len(t) == 3:
		var p ntp.Packet
		if err := ntp.DecodePacket(&p, unhex(t[1])); err != nil {
			return "err size"
		}
		return errStr(ntp.ValidateRequest(&p, uint16(u(t[2], 65535))))
	case t[0] == "reply.hdr" && len(t) == 2:
		needClock()
		var p ntp.Packet
		if err := ntp.DecodePacket(&p, unhex(t[1])); err != nil {
			return "err size"
		}
		r := server.VerifC09ReplyHeader("verif-c09", &p)
		return fmt.Sprintf("ok %d %d %d %d %d %d %d %d %d", r.LVM, r.Stratum, r.Poll, r.Precision,
			r.RootDelay.Seconds, r.RootDelay.Fraction, r.RootDispersion.Seconds, r.RootDispersion.Fraction, r.ReferenceID)
	case t[0] == "ip.dgram" && len(t) == 3:
		if t[2] != "nts=0" {
			return "bad-op" // authenticated requests are not generated by this command
		}
		return dgram(unhex(t[1]))
	case t[0] == "ip.ident":
		return identExec(t[1:])
	case t[0] == "ip.seq" && len(t) == 3:
		if t[2] != "nts=0" {
			return "bad-op"
		}
		var ps [][]byte
		for _, h := range strings.Split(t[1], ",") {
			ps = append(ps, unhex(h))
		}
		return seq(ps)
	}
	return "bad-op"
}

// ---------------------------------------------------------------- generator + direct oracle

// wellFormed is the property's own characterisation of a client request header byte, written
// arithmetically (independent of the accessors of net/ntp and of the Lean model).
func wellFormed(b0 byte) bool {
	li, vn, mode := b0/64, b0/8%8, b0%8
	return (li == 0 || li == 3) && ((vn >= 2 && vn <= 4 && mode == 3) || (vn == 1 && mode == 0))
}

// safeGarbage returns n bytes of trailing data that is not a valid NTS request and that
// nts.DecodePacket rejects without looping (zero-length extension fields are finding F2 of
// property C08, not this property's subject): when the extension-field loop is entered at all
// (n >= 28) the first field has an unknown type and a length reaching beyond the datagram.
func safeGarbage(r *lib.Rand, n int) []byte {
	g := r.Bytes(n)
	if n >= 4 {
		g[0] = 0x7f // unknown (and not critical-bit) field type
		l := n + r.Intn(200)
		if l > 0xffff {
			l = 0xffff
		}
		g[2], g[3] = byte(l>>8), byte(l)
	}
	return g
}

func ntsDecodes(payload []byte) bool {
	var p nts.Packet
	return nts.DecodePacket(&p, payload) == nil
}

func gen(c *lib.Ctx) {
	r := c.Rand
	if identOnly() {
		// property C06 runs only the client-identity histories of this harness
		genIdent(c, c.Rand.Fork("ident"), c.Scale(150, 1500))
		return
	}
	defer genIdent(c, c.Rand.Fork("ident"), c.Scale(40, 400))

	// ---- (a) in-process ---------------------------------------------------------------
	c.Comment("ValidateRequest: all 256 first bytes x source ports")
	ports := []int64{0, 1, 122, 123, 124, 1023, 1024, 10123, 32768, 65535}
	accepted := 0
	for b0 := 0; b0 < 256; b0++ {
		ps := append([]int64{}, ports...)
		ps = append(ps, r.Range(0, 65535), r.Range(0, 65535))
		first := ""
		for _, p := range ps {
			op := fmt.Sprintf("vreq %d %d", b0, p)
			ans := c.Do(op)
			if first == "" {
				first = ans
				if ans == "ok true" {
					accepted++
				}
			}
			want := "ok " + lib.Bool(wellFormed(byte(b0)))
			if ans != want {
				c.Fail(fmt.Sprintf("C09:validate:lvm=%d", b0), "ntp.ValidateRequest disagrees with the property's characterisation of a client request",
					[]string{op}, map[string]any{"lvm": b0, "port": p, "got": ans, "want": want})
			}
			if wellFormed(byte(b0)) {
				c.Count("validate:accepted")
			} else {
				c.Count("validate:rejected")
			}
		}
	}
	if accepted != 8 {
		c.Fail("C09:validate:count", "number of accepted first bytes is not 8", []string{"vreq 35 123"}, map[string]any{"accepted": accepted})
	}

	c.Comment("ValidateRequest on decoded packets with arbitrary remaining bytes")
	sawPanic := false
	n := c.Scale(4000, 200000)
	for i := 0; i < n; i++ {
		ln := 48
		switch r.Intn(10) {
		case 0:
			ln = int(r.Range(0, 47))
		case 1:
			ln = int(r.Range(49, 200))
		}
		b := r.Bytes(ln)
		if ln > 0 && r.Chance(50) {
			b[0] = []byte{8, 19, 27, 35, 200, 211, 219, 227}[r.Intn(8)]
			if r.Chance(30) { // one bit away from an accepted byte
				b[0] ^= 1 << r.Intn(8)
			}
		}
		op := fmt.Sprintf("vreqpkt %s %d", lib.Hex(b), r.Range(0, 65535))
		ans := c.Do(op)
		want := "err size"
		if ln >= 48 {
			want = "ok " + lib.Bool(wellFormed(b[0]))
		}
		if strings.HasPrefix(ans, "panic") {
			sawPanic = true
		}
		if ans != want {
			c.Fail("C09:validate:packet", "ValidateRequest on a decoded packet depends on more than the first byte, or DecodePacket's size rule changed",
				[]string{op}, map[string]any{"got": ans, "want": want})
		}
		c.Count("vreqpkt:" + want)
	}

	c.Comment("reply header of handleRequest")
	for b0 := 0; b0 < 256; b0++ {
		for k := 0; k < 3; k++ {
			b := r.Bytes(48)
			b[0] = byte(b0)
			switch k {
			case 0:
				b[2] = 0
			case 1:
				b[2] = 0x80 // poll -128
			}
			op := "reply.hdr " + lib.Hex(b)
			ans := c.Do(op)
			xs, ok := lib.Ints(ans)
			if !ok || len(xs) != 9 {
				c.Fail("C09:reply:header", "handleRequest did not produce a header", []string{op}, map[string]any{"got": ans})
				continue
			}
			lvm := xs[0]
			if lvm/64 != 0 || lvm/8%8 != 4 || lvm%8 != 4 || xs[1] != 1 {
				c.Fail("C09:reply:shape", "reply is not leap 0 / version 4 / mode 4 (server) / stratum 1",
					[]string{op}, map[string]any{"lvm": lvm, "stratum": xs[1]})
			}
			if wellFormed(byte(lvm)) {
				c.Fail("C09:reply:reflection", "the reply header byte is itself a well-formed request: two servers could answer each other",
					[]string{op}, map[string]any{"lvm": lvm})
			}
			if xs[2] != int64(int8(b[2])) {
				c.Fail("C09:reply:poll", "reply poll is not the request's poll", []string{op}, map[string]any{"got": xs[2]})
			}
			c.Count("reply.hdr")
		}
	}

	// ---- (b) the IP listener on loopback ------------------------------------------------
	if sawPanic {
		// a decoder panic in a listener goroutine would take this process down with it; the
		// failing input is already recorded above
		c.NotExecuted("IP listener on loopback: skipped because ntp.DecodePacket panicked in-process (the listener would crash)")
		return
	}
	srvOnce.Do(startServer)
	if srvErr != nil {
		c.NotExecuted("IP listener on loopback: " + srvErr.Error())
		return
	}
	c.Count("listener:started")
	notExec := 0
	// After a few unanswered well-formed requests the listener (or some of its sockets) is
	// damaged; every further case would only wait for its deadline. The findings are recorded,
	// the rest of the listener part is skipped.
	const maxUnanswered = 4
	unanswered, skipped := 0, 0
	var recent []string // the most recent listener ops (context for a finding)
	remember := func(op string) {
		recent = append(recent, op)
		if len(recent) > 6 {
			recent = recent[1:]
		}
	}
	reportUnanswered := func(op, ans string, lens []int) {
		unanswered++
		c.Count("listener:valid-request-unanswered")
		c.Fail("C09:listener:valid-request-unanswered",
			"a well-formed 48-byte client request got no reply: after the datagram(s) of this op, sent from the same client socket (hence to the same listener socket), the well-formed request that followed was not answered within the deadline, not even when re-sent twice",
			[]string{op}, map[string]any{"got": ans, "datagram_lengths": lens,
				"fresh_sockets_answered_of_3": lastFreshAlive, "preceding_listener_ops": append([]string{}, recent...)})
	}
	send := func(payload []byte, what string) {
		if unanswered >= maxUnanswered {
			skipped++
			return
		}
		if len(payload) > 48 && ntsDecodes(payload) {
			c.Count("skipped:nts-decodable-trailing-data") // out of scope (would need the cookie keys)
			return
		}
		op := fmt.Sprintf("ip.dgram %s nts=0", lib.Hex(payload))
		ans := lib.Try(func() string { return exec(strings.Fields(op)) })
		if ans == "err not-executed" {
			notExec++
			return
		}
		c.Emit(op, ans)
		if strings.HasPrefix(ans, "ok sentinel-unanswered") {
			reportUnanswered(op, ans, []int{len(payload)})
			remember(op)
			return
		}
		remember(op)
		valid := len(payload) == 48 && wellFormed(payload[0])
		c.Count(fmt.Sprintf("dgram:%s:%s", what, map[bool]string{true: "answered", false: "silent"}[ans != "ok none"]))
		if valid {
			want := "ok reply n=1 len=48 lvm=36 stratum=1 src=server"
			if ans != want {
				sig := "C09:listener:valid-request-not-answered-once"
				if ans != "ok none" {
					sig = "C09:listener:reply-shape-or-count"
				}
				c.Fail(sig, "a well-formed 48-byte client request must get exactly one version-4 server-mode stratum-1 reply from the listener's address",
					[]string{op}, map[string]any{"got": ans, "want": want, "first_byte": payload[0]})
			}
		} else if ans != "ok none" {
			b0 := -1
			if len(payload) > 0 {
				b0 = int(payload[0])
			}
			c.Fail(fmt.Sprintf("C09:listener:answered-non-request:len=%d:lvm=%d", len(payload), b0),
				"the listener answered a datagram that is not a well-formed client request",
				[]string{op}, map[string]any{"got": ans, "len": len(payload), "first_byte": b0})
		}
	}
	// sequences on ONE client socket (= one listener socket): rejected datagram(s), then a
	// well-formed request, then the sentinel. What an earlier datagram leaves behind in the
	// listener must not change the fate of a later one.
	c.Comment("IP listener: sequences on one socket (rejected datagrams, then a valid request)")
	validReq := func() []byte {
		p := r.Bytes(48)
		p[0] = []byte{8, 19, 27, 35, 200, 211, 219, 227}[r.Intn(8)]
		copy(p[32:40], p[40:48]) // receive == transmit timestamp: basic mode, origin = transmit
		return p
	}
	junk := func(ln int) []byte {
		switch {
		case ln < 48:
			return r.Bytes(ln)
		case ln == 48: // 48 bytes with a first byte that is not a request
			p := r.Bytes(48)
			for wellFormed(p[0]) {
				p[0]++
			}
			return p
		default:
			p := append(r.Bytes(48), safeGarbage(r, ln-48)...)
			return p
		}
	}
	sendSeq := func(ps [][]byte, what string) {
		if unanswered >= maxUnanswered {
			skipped++
			return
		}
		hs := make([]string, len(ps))
		lens := make([]int, len(ps))
		want := make([]byte, len(ps))
		for i, p := range ps {
			if len(p) > 48 && ntsDecodes(p) {
				return
			}
			hs[i], lens[i], want[i] = lib.Hex(p), len(p), '0'
			if len(p) == 48 && wellFormed(p[0]) {
				want[i] = '1'
			}
		}
		op := fmt.Sprintf("ip.seq %s nts=0", strings.Join(hs, ","))
		ans := lib.Try(func() string { return exec(strings.Fields(op)) })
		if ans == "err not-executed" {
			notExec++
			return
		}
		c.Emit(op, ans)
		defer remember(op)
		c.Count("seq:" + what)
		wantAns := fmt.Sprintf("ok answered=%s extra=0 sentinel=answered shape=ok", want)
		if ans == wantAns {
			return
		}
		f := strings.Fields(ans)
		got := ""
		if len(f) > 1 {
			got = strings.TrimPrefix(f[1], "answered=")
		}
		missing := false
		for i := range want {
			if want[i] == '1' && (i >= len(got) || got[i] == '0') {
				missing = true
			}
		}
		switch {
		case strings.Contains(ans, "sentinel=unanswered") || missing:
			reportUnanswered(op, ans, lens)
		default:
			c.Fail("C09:listener:sequence:"+what, "replies to a sequence of datagrams on one socket are not exactly one per well-formed request",
				[]string{op}, map[string]any{"got": ans, "want": wantAns, "datagram_lengths": lens})
		}
	}
	for ln := 0; ln <= 48; ln++ { // every rejected length below 48 (and a 48-byte non-request), then a valid request
		sendSeq([][]byte{junk(ln), validReq()}, "short-then-valid")
	}
	for _, ln := range []int{49, 50, 75, 76, 100, 1000, 2047, 2048, 2049, 2050, 3000, 4096, 9000} {
		sendSeq([][]byte{junk(ln), validReq()}, "long-then-valid")
	}
	for i := 0; i < c.Scale(60, 1500); i++ { // mixed: valid / rejected in random order, 2..6 datagrams
		n := 2 + r.Intn(5)
		var ps [][]byte
		for k := 0; k < n; k++ {
			switch r.Intn(5) {
			case 0, 1:
				ps = append(ps, validReq())
			case 2:
				ps = append(ps, junk(r.Intn(48)))
			case 3:
				ps = append(ps, junk(48))
			default:
				ps = append(ps, junk([]int{49, 76, 500, 2048, 2049, 5000}[r.Intn(6)]))
			}
		}
		sendSeq(ps, "mixed")
	}

	c.Comment("IP listener on loopback: 256 first bytes x lengths x trailing data")
	lengths := []int{0, 1, 47, 48, 49, 76, 1024, 2048, 2049}
	for b0 := 0; b0 < 256; b0++ {
		for _, ln := range lengths {
			if ln == 0 {
				if b0 == 0 {
					send([]byte{}, "len0")
				}
				continue
			}
			if ln <= 48 {
				p := r.Bytes(ln)
				p[0] = byte(b0)
				send(p, fmt.Sprintf("len%d", ln))
				continue
			}
			if ln > 100 && !wellFormed(byte(b0)) && !c.Thorough() && b0%16 != 5 {
				continue // long datagrams for every first byte only in the thorough tier
			}
			p := append(r.Bytes(48), safeGarbage(r, ln-48)...)
			p[0] = byte(b0)
			send(p, fmt.Sprintf("len%d:garbage", ln))
			if ln == 76 || ln == 49 {
				// trailing zeros shorter than / equal to the loop threshold would be a zero-length
				// field at 76 (F2); use 0xff filler instead
				q := append(r.Bytes(48), make([]byte, ln-48)...)
				for i := 48; i < len(q); i++ {
					q[i] = 0xff
				}
				q[0] = byte(b0)
				send(q, fmt.Sprintf("len%d:ff", ln))
			}
		}
	}

	// random header bytes around the accepted first bytes, random lengths near 48
	m := c.Scale(1500, 40000)
	for i := 0; i < m; i++ {
		ln := 48
		switch r.Intn(8) {
		case 0:
			ln = int(r.Range(0, 47))
		case 1:
			ln = int(r.Range(49, 75))
		case 2:
			ln = int(r.Range(76, 300))
		}
		var p []byte
		if ln <= 48 {
			p = r.Bytes(ln)
		} else {
			p = append(r.Bytes(48), safeGarbage(r, ln-48)...)
		}
		if ln > 0 && r.Chance(70) {
			p[0] = []byte{8, 19, 27, 35, 200, 211, 219, 227}[r.Intn(8)]
			if r.Chance(25) {
				p[0] ^= 1 << r.Intn(8)
			}
		}
		send(p, "random")
	}

	// reflection: a genuine reply of the listener, sent back to it, is not answered
	c.Comment("reflection: the listener's own replies sent back to it")
	for i := 0; i < 64 && unanswered < maxUnanswered; i++ {
		rep := fetchReply(clients[i%len(clients)])
		if rep == nil {
			notExec++
			continue
		}
		send(rep, "reflected-reply")
	}
	// nothing may be left over on any client socket: every reply went to the socket that sent
	// the request (a reply to a different port would have been counted against another exchange
	// or be waiting here)
	stray := 0
	sbuf := make([]byte, 4096)
	for _, cl := range clients {
		for {
			cl.SetReadDeadline(time.Now().Add(30 * time.Millisecond))
			if _, _, err := cl.ReadFromUDPAddrPort(sbuf); err != nil {
				break
			}
			stray++
		}
	}
	c.Count("listener:stray-check")
	if stray > 0 && notExec == 0 && unanswered == 0 {
		c.Fail("C09:listener:stray-reply", "datagrams arrived on client sockets outside any exchange (a reply sent twice or to the wrong port)",
			[]string{"ip.dgram 23" + strings.Repeat("00", 47) + " nts=0"}, map[string]any{"stray": stray})
	}
	if skipped > 0 {
		c.NotExecuted(fmt.Sprintf("%d listener cases skipped after %d well-formed requests went unanswered (recorded as oracle failures)", skipped, unanswered))
	}
	if notExec > 0 {
		c.NotExecuted(fmt.Sprintf("%d loopback exchanges got no sentinel reply within the timeout (sandbox)", notExec))
	}
}

func main() { lib.Main(exec, gen) }
