// ident.go: client-identity histories against the real IP listener (property C06, clause
// "timestamps recorded for one client are never served to another"): the listener keys the
// timestamp store by `srcAddr.Addr().String()`, the source host address without the port.
//
//	ip.ident a=<127.x.y.z> b=<127.x.y.z>  -> ok a=<m> b=<m> a2=<m>    m = basic | inter | none | other
//
// One whole history executed live (so it replays as a single op): client A (socket bound to
// address a) does a basic exchange and learns the receive timestamp X; client B (another
// socket, bound to address b — with b = a: the same host on another port) sends an
// interleaved-looking request with origin X; A sends one too. The model decides "same
// client" by comparing clientIdIp a with clientIdIp b.
package main

import (
	"fmt"
	"net"
	"net/netip"
	"os"
	"strings"
	"time"

	"example.com/scion-time/net/ntp"

	"verifharness/lib"
)

func identAddr(s string) (netip.Addr, bool) {
	a, err := netip.ParseAddr(s)
	if err != nil || !a.Is4() || a.String() != s || a.As4()[0] != 127 {
		return netip.Addr{}, false
	}
	return a, true
}

var identSocks = map[string]*net.UDPConn{}

func identSock(key string, a netip.Addr) (*net.UDPConn, error) {
	if c := identSocks[key]; c != nil {
		return c, nil
	}
	c, err := net.ListenUDP("udp4", net.UDPAddrFromAddrPort(netip.AddrPortFrom(a, 0)))
	if err != nil {
		return nil, err
	}
	identSocks[key] = c
	return c, nil
}

// identStep sends one request from conn and classifies the listener's answer.
func identStep(conn *net.UDPConn, req ntp.Packet, tries int) (string, ntp.Packet) {
	var resp ntp.Packet
	req.SetVersion(4)
	req.SetMode(ntp.ModeClient)
	var b []byte
	ntp.EncodePacket(&b, &req)
	buf := make([]byte, 4096)
	for { // drain
		conn.SetReadDeadline(time.Now().Add(100 * time.Microsecond))
		if _, _, err := conn.ReadFromUDPAddrPort(buf); err != nil {
			break
		}
	}
	for try := 0; try < tries; try++ {
		if _, err := conn.WriteToUDPAddrPort(b, srvAddr); err != nil {
			return "none", resp
		}
		conn.SetReadDeadline(time.Now().Add(firstWait))
		n, from, err := conn.ReadFromUDPAddrPort(buf)
		if err != nil {
			continue // only the first, basic request is re-sent (a new exchange with the same outcome)
		}
		if from != srvAddr || ntp.DecodePacket(&resp, buf[:n]) != nil {
			return "other", resp
		}
		later := resp.TransmitTime.After(resp.ReceiveTime)
		switch {
		case resp.OriginTime == req.TransmitTime && later:
			return "basic", resp
		case resp.OriginTime == req.ReceiveTime && !later:
			return "inter", resp
		}
		return "other", resp
	}
	return "none", resp
}

var identDetail struct{ x, bRx, bTx ntp.Time64 }

func identExec(t []string) string {
	if len(t) != 2 || !strings.HasPrefix(t[0], "a=") || !strings.HasPrefix(t[1], "b=") {
		return "bad-op"
	}
	a, ok1 := identAddr(t[0][2:])
	b, ok2 := identAddr(t[1][2:])
	if !ok1 || !ok2 {
		return "bad-op"
	}
	srvOnce.Do(startServer)
	if srvErr != nil {
		return "sandbox " + srvErr.Error()
	}
	if len(identSocks) > 64 {
		for k, c := range identSocks {
			c.Close()
			delete(identSocks, k)
		}
	}
	ca, err := identSock("a:"+a.String(), a)
	if err != nil {
		return "sandbox bind " + a.String() + ": " + err.Error()
	}
	cb, err := identSock("b:"+b.String(), b) // another socket even when b = a
	if err != nil {
		return "sandbox bind " + b.String() + ": " + err.Error()
	}
	c1, r1 := identStep(ca, ntp.Packet{TransmitTime: ntp.Time64{Seconds: 0xa1000001, Fraction: 0x11111111}}, 3)
	x := r1.ReceiveTime
	c2, r2 := identStep(cb, ntp.Packet{OriginTime: x, ReceiveTime: ntp.Time64{Seconds: 0xb2000002, Fraction: 0x22222222}, TransmitTime: ntp.Time64{Seconds: 0xb3000003, Fraction: 0x33333333}}, 1)
	c3, _ := identStep(ca, ntp.Packet{OriginTime: x, ReceiveTime: ntp.Time64{Seconds: 0xa4000004, Fraction: 0x44444444}, TransmitTime: ntp.Time64{Seconds: 0xa5000005, Fraction: 0x55555555}}, 1)
	identDetail.x, identDetail.bRx, identDetail.bTx = x, r2.ReceiveTime, r2.TransmitTime
	return fmt.Sprintf("ok a=%s b=%s a2=%s", c1, c2, c3)
}

func genIdent(c *lib.Ctx, r *lib.Rand, n int) {
	c.Comment("client identity histories (IP listener)")
	sandboxed := 0
	for i := 0; i < n; i++ {
		a := netip.AddrFrom4([4]byte{127, byte(r.Intn(3)), byte(9 + r.Intn(3)), byte(2 + r.Intn(250))})
		b := a
		tag := "same-host-other-port"
		switch k := r.Intn(100); {
		case k < 30: // textual neighbours: one digit more / less, digits moved across a dot
			x := a.As4()
			switch r.Intn(4) {
			case 0:
				x[3] = byte(1 + r.Intn(24))
				a = netip.AddrFrom4(x)
				x[3] = x[3]*10 + byte(r.Intn(5))
			case 1:
				x[2], x[3] = 1, 21
				a = netip.AddrFrom4(x)
				x[2], x[3] = 12, 1
			case 2:
				x[1], x[2] = 1, 10
				a = netip.AddrFrom4(x)
				x[1], x[2] = 11, 0
			default:
				x[3] = 1 + byte(r.Intn(25))
				a = netip.AddrFrom4(x)
				x[3] = x[3] * 10
			}
			b = netip.AddrFrom4(x)
			tag = "other-host-similar-text"
		case k < 70:
			x := a.As4()
			x[1+r.Intn(3)] ^= byte(1 << r.Intn(8))
			if x[3] == 0 {
				x[3] = 1
			}
			b = netip.AddrFrom4(x)
			tag = "other-host"
		}
		op := fmt.Sprintf("ip.ident a=%s b=%s", a, b)
		ans := lib.Try(func() string { return exec(strings.Fields(op)) })
		if strings.HasPrefix(ans, "sandbox") {
			sandboxed++
			if sandboxed == 1 {
				c.NotExecuted("ip.ident over loopback: " + ans)
			}
			continue
		}
		c.Emit(op, ans)
		c.Count("ident:" + tag)
		c.Count("ident-outcome:" + strings.TrimPrefix(ans, "ok "))
		f := func(t ntp.Time64) string { return fmt.Sprintf("%d.%d", t.Seconds, t.Fraction) }
		detail := map[string]any{"answer": ans, "class": tag, "x": f(identDetail.x), "b_reply_rx": f(identDetail.bRx), "b_reply_tx": f(identDetail.bTx)}
		want := "ok a=basic b=basic a2=inter"
		if a == b {
			want = "ok a=basic b=inter a2=basic"
		}
		switch {
		case ans == want:
		case strings.Contains(ans, "=none"):
			// a request went unanswered: the listener's liveness is C09's subject
			c.Count("ident:unanswered")
			c.NotExecuted("ip.ident: a well-formed request got no reply within the timeout (sandbox)")
		case a != b && strings.Contains(ans, " b=inter"):
			c.Fail("C06:foreign-record-served", "a client (host address) that never received timestamp X was answered in interleaved mode with the transmit time recorded for another client's exchange",
				[]string{op}, detail)
		case a != b && strings.HasPrefix(ans, "ok a=basic b=basic"):
			c.Fail("C06:own-record-lost", "a request of another client removed (or hid) the record of this client's exchange", []string{op}, detail)
		default:
			c.Fail("C06:identity-history", "client identity history not answered as the reply contract demands (want "+want+")", []string{op}, detail)
		}
	}
	for _, op := range []string{"ip.ident a=127.0.9.2", "ip.ident a=127.0.9.02 b=127.0.9.2", "ip.ident a=10.0.9.2 b=127.0.9.2", "ip.ident b=127.0.9.2 a=127.0.9.2", "ip.ident a=127.0.9.2 b=::1", "ip.ident a=127.0.9.256 b=127.0.9.2"} {
		if ans := c.Do(op); ans != "bad-op" {
			c.Fail("C06:harness-bad-op", "malformed identity op accepted", []string{op}, map[string]any{"answer": ans})
		}
	}
}

func identOnly() bool { return os.Getenv("C09_PART") == "ident" }
