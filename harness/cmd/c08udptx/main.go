// c08udptx: net/udp timestampFromOOBData (the error-queue twin of TimestampFromOOBData: transmit
// timestamp + datagram id from the control messages of recvmsg(MSG_ERRQUEUE)) against the Lean
// model Model/UdpTx.lean, on (a) control buffers the running kernel really produces for
// software transmit timestamps on loopback (IPv4 and IPv6), (b) synthetic buffers that meet the
// kernel's contract, (c) boundary and malformed buffers.
//
// The input is kernel ancillary data, never a peer's bytes: a panic on a buffer OUTSIDE the
// kernel's contract is counted as an observation; a panic on a buffer that meets the contract
// (checked here by an independent implementation of the contract) is an oracle failure.
//
//   udptx.oob <hex> -> ok <unix seconds> <nanosecond> <id> | err unexpected-data | err not-found | panic <class>
package main

import (
	"encoding/binary"
	"encoding/hex"
	"fmt"
	"net"
	"strings"
	"time"

	"golang.org/x/sys/unix"

	"example.com/scion-time/net/udp"

	"verifharness/lib"
)

func unhex(s string) []byte {
	if s == "-" {
		return nil
	}
	b, err := hex.DecodeString(s)
	if err != nil || strings.ToLower(s) != s {
		panic("bad-op")
	}
	return b
}

func exec(t []string) string {
	if t[0] != "udptx.oob" || len(t) != 2 {
		return "bad-op"
	}
	ts, id, err := udp.VerifC08TxTimestampFromOOBData(unhex(t[1]))
	if err != nil {
		switch err.Error() {
		case "failed to read out of band data":
			return "err unexpected-data"
		case "failed to read timestamp from out of band data":
			return "err not-found"
		}
		return "err other:" + strings.ReplaceAll(err.Error(), " ", "_")
	}
	return fmt.Sprintf("ok %d %d %d", ts.Unix(), ts.Nanosecond(), id)
}

func align8(n int) int { return (n + 7) / 8 * 8 }

// kernelChain: the kernel's contract for a control buffer (independent of model and code): a
// chain of messages with cmsg_len >= 16, each occupying its length rounded up to 8 bytes inside
// the buffer; an scm_timestamping triple has ts[1] = 0 and not both ts[0] and ts[2] set.
func kernelChain(b []byte) bool {
	for len(b) >= 16 {
		l := binary.LittleEndian.Uint64(b)
		if l < 16 || l > uint64(len(b)) || align8(int(l)) > len(b) {
			return false
		}
		level, typ := int32(binary.LittleEndian.Uint32(b[8:])), int32(binary.LittleEndian.Uint32(b[12:]))
		if level == unix.SOL_SOCKET && typ == unix.SO_TIMESTAMPING_NEW && l == 64 {
			v := func(i int) uint64 { return binary.LittleEndian.Uint64(b[16+8*i:]) }
			ts0, ts1, ts2 := v(0) != 0 || v(1) != 0, v(2) != 0 || v(3) != 0, v(4) != 0 || v(5) != 0
			if ts1 || (ts0 && ts2) {
				return false
			}
		}
		b = b[align8(int(l)):]
	}
	return true
}

func cmsg(hlen uint64, level, typ int32, data []byte, pad bool) []byte {
	b := make([]byte, 16+len(data))
	binary.LittleEndian.PutUint64(b[0:], hlen)
	binary.LittleEndian.PutUint32(b[8:], uint32(level))
	binary.LittleEndian.PutUint32(b[12:], uint32(typ))
	copy(b[16:], data)
	if pad {
		b = append(b, make([]byte, align8(len(b))-len(b))...)
	}
	return b
}

func i64s(vs ...int64) []byte {
	b := make([]byte, 8*len(vs))
	for i, v := range vs {
		binary.LittleEndian.PutUint64(b[8*i:], uint64(v))
	}
	return b
}

func seerr(errno uint32, origin uint8, data uint32, tail int) []byte {
	b := make([]byte, 16+tail)
	binary.LittleEndian.PutUint32(b[0:], errno)
	b[4] = origin
	binary.LittleEndian.PutUint32(b[12:], data)
	return b
}

// kernelBuffers: the control buffers the running kernel queues for software transmit timestamps of
// datagrams sent on loopback (the configuration udp.EnableTimestamping(conn, "") sets up).
func kernelBuffers(c *lib.Ctx, network, addr string, n int) [][]byte {
	sink, err := net.ListenPacket(network, addr)
	if err != nil {
		c.NotExecuted("udptx: cannot open a " + network + " sink on " + addr + ": " + err.Error())
		return nil
	}
	defer sink.Close()
	pc, err := net.ListenPacket(network, addr)
	if err != nil {
		c.NotExecuted("udptx: cannot open a " + network + " socket: " + err.Error())
		return nil
	}
	conn := pc.(*net.UDPConn)
	defer conn.Close()
	if err := udp.EnableTimestamping(conn, ""); err != nil {
		c.NotExecuted("udptx: EnableTimestamping: " + err.Error())
		return nil
	}
	sc, _ := conn.SyscallConn()
	var out [][]byte
	for i := 0; i < n; i++ {
		if _, err := conn.WriteTo([]byte{byte(i), 1, 2, 3}, sink.LocalAddr()); err != nil {
			c.NotExecuted("udptx: send: " + err.Error())
			return out
		}
		var got []byte
		deadline := time.Now().Add(500 * time.Millisecond)
		for got == nil && time.Now().Before(deadline) {
			sc.Control(func(fd uintptr) {
				oob := make([]byte, 128)
				_, oobn, _, _, err := unix.Recvmsg(int(fd), nil, oob, unix.MSG_ERRQUEUE|unix.MSG_DONTWAIT)
				if err == nil && oobn > 0 {
					got = oob[:oobn]
				}
			})
			if got == nil {
				time.Sleep(time.Millisecond)
			}
		}
		if got == nil {
			c.Count("kernel:" + network + ":no-timestamp-queued")
			continue
		}
		out = append(out, got)
	}
	return out
}

func gen(c *lib.Ctx) {
	r := c.Rand
	do := func(kind string, b []byte) string {
		op := "udptx.oob " + lib.Hex(b)
		ans := c.Do(op)
		conforming := kernelChain(b)
		cl := strings.Fields(ans)[0]
		if conforming {
			c.Count("udptx:" + kind + ":contract-met:" + cl)
		} else {
			c.Count("udptx:" + kind + ":outside-contract:" + cl)
		}
		if strings.HasPrefix(ans, "panic") {
			if conforming {
				c.Fail("C08:udptx:panic-on-kernel-conformant-buffer", "timestampFromOOBData panics on a control buffer that meets the kernel's contract (chain of aligned control messages, consistent timestamp triple)",
					[]string{op}, map[string]any{"answer": ans, "len": len(b)})
			} else {
				c.Count("observed:panic-on-buffer-outside-the-kernel-contract:" + strings.Fields(ans)[1])
			}
		}
		return ans
	}
	// (a) what the kernel really queues
	c.Comment("control buffers of the running kernel (software transmit timestamps on loopback)")
	for _, nw := range [][2]string{{"udp4", "127.0.0.1:0"}, {"udp6", "[::1]:0"}} {
		bufs := kernelBuffers(c, nw[0], nw[1], c.Scale(40, 400))
		for i, b := range bufs {
			ans := do("kernel-"+nw[0], b)
			f := strings.Fields(ans)
			switch {
			case !kernelChain(b):
				c.Fail("C08:udptx:kernel-buffer-outside-contract", "a control buffer produced by the running kernel does not meet the contract the totality theorem assumes (C08_udptx_no_panic_under_kernel_contract)",
					[]string{"udptx.oob " + lib.Hex(b)}, map[string]any{"network": nw[0]})
			case f[0] != "ok":
				c.Fail("C08:udptx:kernel-buffer-not-decoded", "timestampFromOOBData does not extract (timestamp, id) from a control buffer of the running kernel",
					[]string{"udptx.oob " + lib.Hex(b)}, map[string]any{"answer": ans, "network": nw[0]})
			default:
				var sec int64
				fmt.Sscan(f[1], &sec)
				if d := time.Now().Unix() - sec; d < -5 || d > 600 {
					c.Fail("C08:udptx:kernel-timestamp-implausible", "the transmit timestamp decoded from a kernel buffer is not the current time", []string{"udptx.oob " + lib.Hex(b)}, map[string]any{"answer": ans})
				}
				if f[3] != fmt.Sprint(i) && len(bufs) == c.Scale(40, 400) {
					c.Count("kernel:" + nw[0] + ":id-not-sequence-number")
				}
			}
		}
		if len(bufs) > 0 {
			c.Count("kernel:" + nw[0] + ":buffers-decoded")
		}
	}
	// (b) synthetic, contract met
	c.Comment("synthetic kernel-style chains")
	for i := 0; i < c.Scale(300, 5000); i++ {
		s, n := r.Range(0, 1<<33), r.Range(0, 999999999)
		id := uint32(r.Range(0, 1<<32-1))
		ts := cmsg(64, 1, 65, i64s(s, n, 0, 0, 0, 0), true)
		if r.Chance(40) {
			ts = cmsg(64, 1, 65, i64s(0, 0, 0, 0, s, n), true)
		}
		re := cmsg(48, 0, 11, seerr(42, 4, id, 16), true)
		if r.Chance(40) {
			re = cmsg(60, 41, 25, seerr(42, 4, id, 28), true)
		}
		other := cmsg(uint64(16+r.Intn(25)), int32(r.Pick64([]int64{0, 1, 41, 17})), int32(r.Pick64([]int64{8, 2, 29, 50, 35})), r.Bytes(24), false)
		other = other[:16+align8(int(binary.LittleEndian.Uint64(other))-16)]
		var parts [][]byte
		switch r.Intn(6) {
		case 0:
			parts = [][]byte{ts, re}
		case 1:
			parts = [][]byte{re, ts}
		case 2:
			parts = [][]byte{other, ts, re}
		case 3:
			parts = [][]byte{ts, other, re}
		case 4:
			parts = [][]byte{ts} // no id
		case 5:
			parts = [][]byte{re} // no timestamp
		}
		var b []byte
		for _, p := range parts {
			b = append(b, p...)
		}
		if r.Chance(10) {
			b = append(b, r.Bytes(r.Intn(16))...) // fewer than 16 trailing bytes are not looked at
		}
		do("chain", b)
	}
	// (c) boundary and malformed
	c.Comment("every length of a valid buffer, and of zeros")
	full := append(cmsg(64, 1, 65, i64s(12345, 678, 0, 0, 0, 0), true), cmsg(48, 0, 11, seerr(42, 4, 9, 16), true)...)
	for l := 0; l <= len(full); l++ {
		do("truncated", full[:l])
		do("zeros", make([]byte, l))
	}
	c.Comment("F10 witnesses of the exported twin")
	do("corpus", []byte{17, 0, 0, 0, 0, 0, 0, 0, 9, 0, 0, 0, 9, 0, 0, 0, 0, 0, 0, 0})
	do("corpus", cmsg(64, 1, 65, i64s(1, 0, 0, 0, 1, 0), true))
	do("corpus", cmsg(64, 1, 65, i64s(0, 0, 1, 0, 0, 0), true))
	c.Comment("structured malformed + random")
	for i := 0; i < c.Scale(20000, 400000); i++ {
		var b []byte
		total := r.Intn(140)
		fit := func(x []byte) []byte {
			if total < len(x) {
				return x[:total]
			}
			return append(x, make([]byte, total-len(x))...)
		}
		switch r.Intn(8) {
		case 0:
			b = r.Bytes(total)
		case 1: // header length around the buffer size, aligned or not
			b = fit(cmsg(uint64(int64(total)+r.Range(-9, 9)), int32(r.Pick64([]int64{0, 1, 41, 2})), int32(r.Pick64([]int64{65, 35, 11, 25, 0})), r.Bytes(64), false))
		case 2: // timestamping message with an arbitrary triple
			vs := make([]int64, 6)
			for j := range vs {
				if r.Chance(40) {
					vs[j] = r.Pick64([]int64{1, -1, 1 << 62, -1 << 63, 999999999, 1000000000, -1000000000, 5})
				}
			}
			b = append(cmsg(uint64(r.Pick64([]int64{64, 64, 64, 63, 65, 56, 72})), 1, 65, i64s(vs...), true), cmsg(48, 0, 11, seerr(42, 4, 3, 16), true)...)
		case 3: // error message with other errno / origin / short length
			b = append(cmsg(64, 1, 65, i64s(7, 8, 0, 0, 0, 0), true),
				cmsg(uint64(r.Pick64([]int64{48, 32, 31, 24, 16, 33})), int32(r.Pick64([]int64{0, 41})), int32(r.Pick64([]int64{11, 25})),
					seerr(uint32(r.Pick64([]int64{42, 42, 0, 111})), uint8(r.Pick64([]int64{4, 4, 0, 2})), 5, 16), true)...)
		case 4: // level / type pairs that do not belong together
			b = append(cmsg(48, int32(r.Pick64([]int64{0, 41})), int32(r.Pick64([]int64{25, 11})), seerr(42, 4, 5, 16), true), cmsg(64, 1, 65, i64s(7, 8, 0, 0, 0, 0), true)...)
		case 5: // unaligned foreign message in front
			pre := cmsg(uint64(16+r.Intn(20)), 9, 9, r.Bytes(24), false)
			pre = pre[:16+r.Intn(25)]
			b = append(pre, full...)
		case 6: // two timestamps / two ids: the last one wins
			b = append(append(cmsg(64, 1, 65, i64s(1, 2, 0, 0, 0, 0), true), cmsg(64, 1, 65, i64s(0, 0, 0, 0, 3, 4), true)...),
				append(cmsg(48, 0, 11, seerr(42, 4, 5, 16), true), cmsg(48, 0, 11, seerr(42, 4, 6, 16), true)...)...)
		case 7: // huge lengths
			b = fit(cmsg(uint64(r.Pick64([]int64{1 << 32, -1 << 63, -1, 1<<31 - 1, 1 << 31})), 1, 65, r.Bytes(48), false))
		}
		do("malformed", b)
	}
}

func main() { lib.Main(exec, gen) }
