// c18f: floating-point clauses of C18. Runs unixutil.ScaledPPMFromFreq, FreqFromScaledPPM
// and (*clocks.SystemClock).Drift in-process on boundary-dense and random inputs (doubles
// cross the protocol as bit patterns) for bit-exact comparison with the Lean model
// (lean/ScionTime/Model/F64P_UnixutilFloat.lean over the software double), and evaluates the
// bounds proved in Props/F64P_C18Float.lean directly on the real functions with math/big.
package main

import (
	"fmt"
	"math"
	"math/big"
	"strconv"
	"time"

	"example.com/scion-time/base/unixutil"
	"example.com/scion-time/driver/clocks"

	"verifharness/lib"
)

func bits(f float64) string {
	if f != f {
		return "7ff8000000000001"
	}
	return fmt.Sprintf("%016x", math.Float64bits(f))
}

func pf(s string) float64 {
	u, err := strconv.ParseUint(s, 16, 64)
	if err != nil || len(s) != 16 {
		panic("bad-op")
	}
	return math.Float64frombits(u)
}

func pi(s string) int64 {
	v, err := strconv.ParseInt(s, 10, 64)
	if err != nil {
		panic("bad-op")
	}
	return v
}

func exec(t []string) (res string) {
	defer func() {
		if r := recover(); r != nil {
			if r == "bad-op" {
				res = "bad-op"
				return
			}
			panic(r)
		}
	}()
	switch {
	case len(t) == 2 && t[0] == "uxf.toppm":
		return fmt.Sprintf("ok %d", unixutil.ScaledPPMFromFreq(pf(t[1])))
	case len(t) == 2 && t[0] == "uxf.fromppm":
		return "ok " + bits(unixutil.FreqFromScaledPPM(pi(t[1])))
	case len(t) == 2 && t[0] == "uxf.rt":
		return fmt.Sprintf("ok %d", unixutil.ScaledPPMFromFreq(unixutil.FreqFromScaledPPM(pi(t[1]))))
	case len(t) == 2 && t[0] == "uxf.rtf":
		return "ok " + bits(unixutil.FreqFromScaledPPM(unixutil.ScaledPPMFromFreq(pf(t[1]))))
	case len(t) == 3 && t[0] == "uxf.drift":
		return fmt.Sprintf("ok %d", int64(clocks.VerifF64PDrift(pf(t[1]), time.Duration(pi(t[2])))))
	case len(t) == 3 && t[0] == "uxf.driftd":
		c := clocks.NewSystemClock(nil, time.Duration(pi(t[1])))
		return fmt.Sprintf("ok %d", int64(c.Drift(time.Duration(pi(t[2])))))
	}
	return "bad-op"
}

// ---- exact arithmetic helpers ----

var scale = big.NewRat(65536000000, 1)

func ratF(f float64) *big.Rat { r, _ := new(big.Rat).SetString(big.NewFloat(f).Text('p', 0)); return r }
func ratI(i int64) *big.Rat   { return new(big.Rat).SetInt64(i) }
func abs(r *big.Rat) *big.Rat { return new(big.Rat).Abs(r) }
func pow2(e int) *big.Rat {
	if e >= 0 {
		return new(big.Rat).SetInt(new(big.Int).Lsh(big.NewInt(1), uint(e)))
	}
	return new(big.Rat).SetFrac(big.NewInt(1), new(big.Int).Lsh(big.NewInt(1), uint(-e)))
}
func sub(a, b *big.Rat) *big.Rat { return new(big.Rat).Sub(a, b) }
func mul(a, b *big.Rat) *big.Rat { return new(big.Rat).Mul(a, b) }
func add(a, b *big.Rat) *big.Rat { return new(big.Rat).Add(a, b) }
func le(a, b *big.Rat) bool      { return a.Cmp(b) <= 0 }

func ans1(s string) (int64, bool) {
	xs, ok := lib.Ints(s)
	if !ok || len(xs) != 1 {
		return 0, false
	}
	return xs[0], true
}

func ansF(s string) (float64, bool) {
	if len(s) != 19 || s[:3] != "ok " {
		return 0, false
	}
	u, err := strconv.ParseUint(s[3:], 16, 64)
	if err != nil {
		return 0, false
	}
	return math.Float64frombits(u), true
}

// C18_scaledppm_roundtrip: |x| <= 2^51 -> |ScaledPPMFromFreq(FreqFromScaledPPM(x)) - x| <= 1
func rt(c *lib.Ctx, x int64) {
	op := fmt.Sprintf("uxf.rt %d", x)
	y, ok := ans1(c.Do(op))
	c.Dof("uxf.fromppm %d", x)
	inKernel := -32768000 <= x && x <= 32768000
	inProved := -(1<<51) <= x && x <= 1<<51
	switch {
	case inKernel:
		c.Count("rt:kernel-range")
	case inProved:
		c.Count("rt:proved-range")
	default:
		c.Count("rt:outside")
	}
	if !inProved {
		return
	}
	d := new(big.Int).Sub(big.NewInt(y), big.NewInt(x))
	if !ok || d.CmpAbs(big.NewInt(1)) > 0 {
		c.Fail("C18F:roundtrip", "ScaledPPMFromFreq(FreqFromScaledPPM(x)) differs from x by more than one unit for |x| <= 2^51",
			[]string{op}, map[string]any{"x": x, "got": y})
	} else if y == x {
		c.Count("rt:exact")
	} else {
		c.Count("rt:off-by-one")
	}
}

// C18_freq_roundtrip: finite f with |f*K| <= 2^40 ->
// |FreqFromScaledPPM(ScaledPPMFromFreq(f))*K - f*K| <= 1 + 2^-11
func rtf(c *lib.Ctx, f float64) {
	op := "uxf.rtf " + bits(f)
	g, ok := ansF(c.Do(op))
	c.Dof("uxf.toppm %s", bits(f))
	if math.IsNaN(f) || math.IsInf(f, 0) {
		c.Count("rtf:nonfinite")
		return
	}
	p := mul(ratF(f), scale)
	if !le(abs(p), pow2(40)) {
		c.Count("rtf:outside")
		return
	}
	c.Count("rtf:proved-range")
	if !ok || math.IsNaN(g) || math.IsInf(g, 0) ||
		!le(abs(sub(mul(ratF(g), scale), p)), add(big.NewRat(1, 1), pow2(-11))) {
		c.Fail("C18F:freq-roundtrip", "FreqFromScaledPPM(ScaledPPMFromFreq(f)) is not within one scaled unit (+2^-11) of f for |f*65536e6| <= 2^40",
			[]string{op}, map[string]any{"f": bits(f), "got": bits(g)})
	}
}

// C18_drift_bound: 2^-900 <= |c| <= 1/2 -> |Drift(d) - c*d| <= 1 + |c*d|/2^50;
// c == 0 -> MaxInt64.
func drift(c *lib.Ctx, dr float64, d int64) {
	op := fmt.Sprintf("uxf.drift %s %d", bits(dr), d)
	y, ok := ans1(c.Do(op))
	if dr == 0 {
		c.Count("drift:unknown")
		if !ok || y != math.MaxInt64 {
			c.Fail("C18F:drift-unknown", "Drift with unknown drift is not MaxInt64", []string{op}, map[string]any{"got": y})
		}
		return
	}
	if math.IsNaN(dr) || math.IsInf(dr, 0) {
		c.Count("drift:nonfinite")
		return
	}
	a := abs(ratF(dr))
	if !le(pow2(-900), a) || !le(a, big.NewRat(1, 2)) {
		c.Count("drift:outside")
		return
	}
	c.Count("drift:proved-range")
	e := mul(ratF(dr), ratI(d))
	bound := add(big.NewRat(1, 1), mul(abs(e), pow2(-50)))
	if !ok || !le(abs(sub(ratI(y), e)), bound) {
		c.Fail("C18F:drift", "Drift(d) is not within 1 ns + 2^-50 relative of drift*d", []string{op},
			map[string]any{"drift": bits(dr), "d": d, "got": y})
	}
	// sign: the allowance never has the opposite sign of drift*d
	if ok && ((e.Sign() >= 0 && y < 0) || (e.Sign() <= 0 && y > 0)) {
		c.Fail("C18F:drift-sign", "Drift(d) has the opposite sign of drift*d", []string{op}, map[string]any{"got": y})
	}
}

var bInts = []int64{0, 1, -1, 2, -2, 3, 65535, 65536, 65537, 32767999, 32768000, 32768001, -32767999, -32768000, -32768001,
	65536000000, 65535999999, 65536000001, -65536000000,
	1<<51 - 1, 1 << 51, 1<<51 + 1, -(1 << 51), -(1<<51 + 1), 1<<52 - 1, 1 << 52, 1<<52 + 1, 1<<53 - 1, 1 << 53, 1<<53 + 1, -(1<<53 + 1),
	1<<62 - 1, 1 << 62, math.MaxInt64, math.MaxInt64 - 1, math.MaxInt64 - 511, math.MaxInt64 - 512, math.MinInt64, math.MinInt64 + 1}

var bFreqs = []float64{0, math.Copysign(0, -1), math.NaN(), math.Inf(1), math.Inf(-1),
	500e-6, -500e-6, 500e-6 * (1 + 0x1p-52), 499.99999e-6, 1e-6, -1e-6, 1.0 / 65536e6, 0.5 / 65536e6, 0.9999999 / 65536e6, 1.5 / 65536e6,
	-1.0 / 65536e6, -0.5 / 65536e6,
	5e-324, -5e-324, 2.2250738585072014e-308, 2.225073858507201e-308, 1e-300, 1, -1, 16.7, 16.777216, 16.777217,
	140737488.355328 /* 2^63/K */, 140737488.35532802, 140737488.35532799, -140737488.355328, -140737488.35532802, 1e9, -1e9, 1e300, -1e300,
	math.MaxFloat64, -math.MaxFloat64}

var bDrifts = []float64{0, math.Copysign(0, -1), 5e-324, -5e-324, 1e-320, 2.2250738585072014e-308, 1e-300, 0x1p-900, 0x1p-901, -0x1p-900,
	1e-12, 1e-9, 1e-6, -1e-6, 1e-3, 0.1, 0.5, math.Nextafter(0.5, 1), -0.5, 0.75, 1, -1, math.Nextafter(1, 0), 2, 1e9, 1e300,
	math.MaxFloat64, math.NaN(), math.Inf(1), math.Inf(-1)}

var bDurs = []int64{0, 1, -1, 2, 999, 1000, 999999999, 1000000000, 1000000001, -999999999, -1000000000, -1000000001,
	1500000000, 60000000000, 3600000000000, 86400000000000, 1 << 53, 1<<53 + 1, 1 << 62, math.MaxInt64, math.MaxInt64 - 1, math.MinInt64, math.MinInt64 + 1}

func gen(c *lib.Ctx) {
	r := c.Rand
	c.Comment("boundary: scaled ppm")
	for _, x := range bInts {
		rt(c, x)
	}
	c.Comment("boundary: freq")
	for _, f := range bFreqs {
		rtf(c, f)
	}
	c.Comment("boundary: drift x duration")
	for _, dr := range bDrifts {
		for _, d := range bDurs {
			drift(c, dr, d)
		}
	}
	for _, dn := range []int64{0, 1, -1, 1000, 1000000, 1000000000, 500000000, math.MaxInt64, math.MinInt64} {
		for _, d := range bDurs {
			c.Dof("uxf.driftd %d %d", dn, d)
			c.Count("driftd")
		}
	}
	c.Comment("every scaled-ppm value near the kernel limits and near zero")
	for x := int64(-300); x <= 300; x++ {
		rt(c, x)
		rt(c, 32768000+x)
		rt(c, -32768000+x)
	}
	n := c.Scale(20000, 400000)
	c.Comment("random")
	for i := 0; i < n; i++ {
		switch k := r.Intn(20); {
		case k < 5: // kernel range
			rt(c, r.Range(-32768000, 32768000))
		case k < 7: // proved range, all magnitudes
			rt(c, r.Range(-(1<<51), 1<<51)>>uint(r.Intn(40)))
		case k < 8: // anything
			rt(c, r.I64()>>uint(r.Intn(20)))
		case k < 11: // frequencies within +-500 ppm (and a bit more)
			rtf(c, float64(r.Range(-600_000_000, 600_000_000))*1e-12)
		case k < 12: // exact multiples and half-way points of the scaled unit
			rtf(c, (float64(r.Range(-1<<40, 1<<40))+float64(r.Range(0, 2))*0.5)/65536e6)
		case k < 13: // any magnitude
			f := math.Float64frombits(r.U64())
			if r.Chance(70) {
				f = math.Ldexp(float64(r.Range(-(1<<53), 1<<53)), int(r.Range(-120, 20)))
			}
			rtf(c, f)
		case k < 17: // realistic drift (ppb..1e-3) x durations up to hours
			dr := float64(r.Range(1, 1_000_000)) * 1e-9
			if r.Chance(20) {
				dr = -dr
			}
			if r.Chance(50) {
				drift(c, dr, r.Range(-1<<46, 1<<46)>>uint(r.Intn(30)))
			} else { // long intervals with full nanosecond detail (Seconds() rounds twice)
				drift(c, dr, r.I64()>>uint(r.Intn(24)))
			}
		case k < 18: // whole proved range of drift, any duration
			dr := math.Ldexp(1+float64(r.Range(0, 1<<52))*0x1p-52, int(r.Range(-900, -2)))
			if r.Chance(50) {
				dr = -dr
			}
			drift(c, dr, r.I64()>>uint(r.Intn(64)))
		case k < 19: // anything
			drift(c, math.Float64frombits(r.U64()), r.I64()>>uint(r.Intn(64)))
		default:
			c.Dof("uxf.driftd %d %d", r.I64()>>uint(r.Intn(64)), r.I64()>>uint(r.Intn(64)))
			c.Count("driftd")
		}
	}
}

func main() { lib.Main(exec, gen) }
