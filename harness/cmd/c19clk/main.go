// c19clk: correspondence + direct oracle for the clock object the PLL drives
// (driver/clocks/sysclk_linux.go: SystemClock.Epoch/Step/Adjust/Sleep and the expiry
// goroutine) and for the PLL on that clock object (core/sync/adjustments/pll.go with the real
// clocks.SystemClock behind a scripted Now()).
//
// The real SystemClock runs in CHILD processes (one per history; logbase.Fatal exits the
// process when a syscall is refused). The three syscall wrappers setOffset / setFrequency /
// sleep are observed through the debug log records they write ("setting time", "setting
// frequency", "sleeping") — these are the model's recorded actions. Two kinds of child:
//
//	real    the wrappers really call clock_adjtime(2). ONLY zero-effect parameters are
//	        accepted by the child: Step(0) (ADJ_SETOFFSET by 0 ns) and Adjust(0, d, f) with f
//	        the kernel's current frequency read with a read-only adjtimex (modes 0) and
//	        checked to convert back to the same scaled-ppm value. Needs CAP_SYS_TIME; the kernel
//	        frequency is re-read after every op and must not have moved.
//	sealed  a seccomp filter (installed in the child, all threads) turns clock_adjtime and
//	        adjtimex into successful no-ops, so arbitrary offsets, durations and frequencies —
//	        and the real PLL — can be run without touching the machine's clock. The filter is
//	        verified (a read-only call must leave the timex struct untouched) before any op.
//
// If the capability is missing, the read-only probe fails or the filter cannot be installed, the
// corresponding histories are reported as not executed (never as a violation).
//
// The expiry goroutine sleeps `duration` (>= 1 s) of REAL time. A history is therefore a timed
// plan; histories run concurrently (one child each) and are recorded afterwards, one after the
// other. `sc.expire id…` blocks until that many goroutines have exited (runtime.NumGoroutine
// in the child), so the order of ops is the order of events; a history in which a goroutine
// ran although the plan had not reached its `sc.expire` (or woke up late) is discarded and
// re-run in isolation.
package main

import (
	"bufio"
	"context"
	"fmt"
	"io"
	"log/slog"
	"math"
	"os"
	"os/exec"
	"reflect"
	"runtime"
	"sort"
	"strconv"
	"strings"
	"sync"
	"time"
	"unsafe"

	"golang.org/x/sys/unix"

	"example.com/scion-time/base/unixutil"
	"example.com/scion-time/core/sync/adjustments"
	"example.com/scion-time/driver/clocks"

	"verifharness/lib"
)

// ================================================================ child

type rec struct {
	tok   string
	async bool
}

// capture is the slog.Handler behind the clock's logger: every record of the three wrappers
// becomes an action token; records written by another goroutine than the one executing the
// current op (the expiry goroutines) are kept apart.
type capture struct {
	mu    sync.Mutex
	opGo  uint64
	sync  []string
	async []string
}

func goID() uint64 {
	var b [64]byte
	n := runtime.Stack(b[:], false)
	f := strings.Fields(string(b[:n])) // "goroutine 12 [running]:"
	if len(f) < 2 {
		return 0
	}
	id, _ := strconv.ParseUint(f[1], 10, 64)
	return id
}

func bits(f float64) string {
	if f != f {
		return "7ff8000000000001"
	}
	return fmt.Sprintf("%016x", math.Float64bits(f))
}

func (h *capture) Enabled(context.Context, slog.Level) bool { return true }
func (h *capture) WithAttrs([]slog.Attr) slog.Handler       { return h }
func (h *capture) WithGroup(string) slog.Handler            { return h }
func (h *capture) Handle(_ context.Context, r slog.Record) error {
	var tok string
	switch r.Message {
	case "setting time":
		r.Attrs(func(a slog.Attr) bool {
			if a.Key == "offset" && a.Value.Kind() == slog.KindDuration {
				tok = fmt.Sprintf("off:%d", int64(a.Value.Duration()))
			}
			return true
		})
	case "setting frequency":
		r.Attrs(func(a slog.Attr) bool {
			if a.Key == "frequency" && a.Value.Kind() == slog.KindFloat64 {
				tok = "freq:" + bits(a.Value.Float64())
			}
			return true
		})
	case "sleeping":
		r.Attrs(func(a slog.Attr) bool {
			if a.Key == "duration" && a.Value.Kind() == slog.KindDuration {
				tok = fmt.Sprintf("sleep:%d", int64(a.Value.Duration()))
			}
			return true
		})
	case "PLL iteration":
		return nil
	default:
		tok = "log:" + strings.ReplaceAll(r.Message, " ", "_")
	}
	if tok == "" {
		tok = "log:" + strings.ReplaceAll(r.Message, " ", "_") + ":attrs?"
	}
	g := goID()
	h.mu.Lock()
	if g == h.opGo {
		h.sync = append(h.sync, tok)
	} else {
		h.async = append(h.async, tok)
	}
	h.mu.Unlock()
	return nil
}

func (h *capture) take() (s, a []string) {
	h.mu.Lock()
	s, a = h.sync, h.async
	h.sync, h.async = nil, nil
	h.mu.Unlock()
	return
}

// scriptedNow is the clock the PLL sees: the real SystemClock with a scripted Now().
type scriptedNow struct {
	*clocks.SystemClock
	now time.Time
}

func (s *scriptedNow) Now() time.Time { return s.now }

func seal() error {
	if err := unix.Prctl(unix.PR_SET_NO_NEW_PRIVS, 1, 0, 0, 0); err != nil {
		return fmt.Errorf("no_new_privs: %w", err)
	}
	const (
		retAllow = 0x7fff0000
		retErrno = 0x00050000 // SECCOMP_RET_ERRNO | 0: skip the syscall, return 0
	)
	f := []unix.SockFilter{
		{Code: 0x20, K: 4}, // ld arch
		{Code: 0x15, Jt: 1, Jf: 0, K: 0xc000003e},
		{Code: 0x06, K: retAllow},
		{Code: 0x20, K: 0}, // ld nr
		{Code: 0x15, Jt: 1, Jf: 0, K: unix.SYS_CLOCK_ADJTIME},
		{Code: 0x15, Jt: 0, Jf: 1, K: unix.SYS_ADJTIMEX},
		{Code: 0x06, K: retErrno},
		{Code: 0x06, K: retAllow},
	}
	prog := unix.SockFprog{Len: uint16(len(f)), Filter: &f[0]}
	if _, _, e := unix.Syscall(unix.SYS_SECCOMP, 1 /* SECCOMP_SET_MODE_FILTER */, 1 /* TSYNC */, uintptr(unsafe.Pointer(&prog))); e != 0 {
		return e
	}
	// the filter must be in force on every thread: a read-only call now leaves the struct alone
	for i := 0; i < 8; i++ {
		ch := make(chan bool)
		go func() {
			runtime.LockOSThread()
			t := unix.Timex{Tick: -12345}
			_, err := unix.ClockAdjtime(unix.CLOCK_REALTIME, &t)
			t2 := unix.Timex{Tick: -12345}
			_, err2 := unix.Adjtimex(&t2)
			ch <- err == nil && err2 == nil && t.Tick == -12345 && t2.Tick == -12345
		}()
		if !<-ch {
			return fmt.Errorf("filter installed but clock_adjtime still reaches the kernel")
		}
	}
	return nil
}

func hasCapSysTime() bool {
	b, err := os.ReadFile("/proc/self/status")
	if err != nil {
		return false
	}
	for _, l := range strings.Split(string(b), "\n") {
		if strings.HasPrefix(l, "CapEff:") {
			v, err := strconv.ParseUint(strings.TrimSpace(l[7:]), 16, 64)
			return err == nil && v&(1<<unix.CAP_SYS_TIME) != 0
		}
	}
	return false
}

type childState struct {
	mode     string
	f0       float64 // real mode: the kernel's frequency as a float that converts back exactly
	f0ppm    int64
	h        *capture
	clk      *clocks.SystemClock
	snow     *scriptedNow
	pll      *adjustments.Pll
	base     int // runtime.NumGoroutine() with no expiry goroutine alive
	expected int // expiry goroutines started and not yet acknowledged by sc.expire
	issued   map[int]time.Time
	nAdj     int
	taint    []string
	consumed int // goroutine exits (watcher.drops) already acknowledged by sc.expire
}

// watcher samples runtime.NumGoroutine() every millisecond and records when it went down: the
// moment an expiry goroutine finished, whenever the parent gets round to asking for it.
type watcherT struct {
	mu    sync.Mutex
	drops []time.Time
}

var watcher watcherT

func (w *watcherT) run() {
	last := runtime.NumGoroutine()
	for {
		time.Sleep(time.Millisecond)
		cur := runtime.NumGoroutine()
		if cur < last {
			now := time.Now()
			w.mu.Lock()
			for i := cur; i < last; i++ {
				w.drops = append(w.drops, now)
			}
			w.mu.Unlock()
		}
		last = cur
	}
}

func (w *watcherT) count() int {
	w.mu.Lock()
	defer w.mu.Unlock()
	return len(w.drops)
}

func (w *watcherT) at(i int) time.Time {
	w.mu.Lock()
	defer w.mu.Unlock()
	return w.drops[i]
}

func (c *childState) kernelFreq() (int64, error) {
	var tx unix.Timex
	_, err := unix.Adjtimex(&tx)
	return tx.Freq, err
}

func pi(s string) int64 {
	v, err := strconv.ParseInt(s, 10, 64)
	if err != nil {
		panic("bad-op")
	}
	return v
}

func pf(s string) float64 {
	u, err := strconv.ParseUint(s, 16, 64)
	if err != nil || len(s) != 16 {
		panic("bad-op")
	}
	return math.Float64frombits(u)
}

func fmtTime(t time.Time) string { return fmt.Sprintf("%d:%d", t.Unix(), t.Nanosecond()) }

func (c *childState) pllState() string {
	e, m, t0, t, a, b, i := c.pll.VerifState()
	return fmt.Sprintf("e=%d m=%d t0=%s t=%s a=%s b=%s i=%s", e, m, fmtTime(t0), fmtTime(t), bits(a), bits(b), bits(i))
}

func (c *childState) newClock() {
	c.h = &capture{opGo: goID()}
	log := slog.New(c.h)
	c.clk = clocks.NewSystemClock(log, clocks.UnknownDrift)
	c.snow = &scriptedNow{SystemClock: c.clk}
	c.pll = adjustments.NewPLL(log, c.snow)
	c.issued = map[int]time.Time{}
	c.nAdj, c.expected, c.taint = 0, 0, nil
	c.consumed = watcher.count()
	c.base = runtime.NumGoroutine()
}

// checkQuiet: between ops no expiry goroutine may have finished unacknowledged.
func (c *childState) checkQuiet(where string) {
	if g := runtime.NumGoroutine(); g != c.base+c.expected {
		c.taint = append(c.taint, fmt.Sprintf("%s:goroutines=%d,want=%d", where, g, c.base+c.expected))
	}
}

const secLimit = int64(1) << 40

// run executes one op; answer is the canonical line compared with the model, side carries
// observations for the parent's oracle only.
func (c *childState) run(t []string) (answer string, side map[string]string) {
	side = map[string]string{}
	if c.clk == nil && t[0] != "sc.new" {
		return "err no-clock", side
	}
	acts := func(xs []string) string {
		if len(xs) == 0 {
			return ""
		}
		return " " + strings.Join(xs, " ")
	}
	// guarded runs f, mapping a panic to the canonical class
	guarded := func(f func()) (panicked string) {
		defer func() {
			if r := recover(); r != nil {
				panicked = lib.PanicClass(r)
			}
		}()
		f()
		return ""
	}
	finish := func(p string, mid string) string {
		s, a := c.h.take()
		if len(a) > 0 {
			c.taint = append(c.taint, "async-records-during-op:"+strings.Join(a, ","))
		}
		c.checkQuiet("after")
		if c.mode == "real" {
			if kf, err := c.kernelFreq(); err == nil {
				side["kf"] = strconv.FormatInt(kf, 10)
			}
		}
		head := "ok"
		if p != "" {
			head = "panic " + p
		}
		return head + mid + acts(s)
	}
	switch {
	case t[0] == "sc.new" && len(t) == 2 && t[1] == c.mode:
		c.newClock()
		return "ok", side
	case t[0] == "sc.setepoch" && len(t) == 2:
		n, err := strconv.ParseUint(t[1], 10, 64)
		if err != nil {
			return "bad-op", side
		}
		f := reflect.ValueOf(c.clk).Elem().FieldByName("epoch")
		if !f.IsValid() || f.Kind() != reflect.Uint64 {
			return "err no-epoch-field", side
		}
		c.checkQuiet("before")
		*(*uint64)(unsafe.Pointer(f.UnsafeAddr())) = n
		return "ok", side
	case t[0] == "sc.epoch" && len(t) == 1:
		c.checkQuiet("before")
		return fmt.Sprintf("ok %d", c.clk.Epoch()), side
	case t[0] == "sc.step" && len(t) == 2:
		off := pi(t[1])
		if c.mode == "real" && off != 0 {
			return "err refused-nonzero-effect", side
		}
		c.checkQuiet("before")
		p := guarded(func() { c.clk.Step(time.Duration(off)) })
		return finish(p, fmt.Sprintf(" e=%d", c.clk.Epoch())), side
	case t[0] == "sc.adjust" && len(t) == 4:
		off, dur, f := pi(t[1]), pi(t[2]), pf(t[3])
		if c.mode == "real" && (off != 0 || math.Float64bits(f) != math.Float64bits(c.f0)) {
			return "err refused-nonzero-effect", side
		}
		if dur > 3999999999 {
			return "err refused-long-wait", side
		}
		c.checkQuiet("before")
		id := c.nAdj
		g0 := runtime.NumGoroutine()
		c.issued[id] = time.Now()
		p := guarded(func() { c.clk.Adjust(time.Duration(off), time.Duration(dur), f) })
		spawned := ""
		if g := runtime.NumGoroutine(); g == g0+1 {
			spawned = fmt.Sprintf(" spawn:%d", id)
			c.nAdj++
			c.expected++
		} else if g != g0 {
			c.taint = append(c.taint, fmt.Sprintf("adjust:goroutines=%d,before=%d", g, g0))
		}
		return finish(p, fmt.Sprintf(" e=%d", c.clk.Epoch())) + spawned, side
	case t[0] == "sc.sleep" && len(t) == 2:
		d := pi(t[1])
		if d > 200e6 {
			return "err refused-long-wait", side
		}
		c.checkQuiet("before")
		st := time.Now()
		p := guarded(func() { c.clk.Sleep(time.Duration(d)) })
		el := time.Since(st)
		slept := ""
		if p == "" { // the wrapper call itself writes no record: it is seen as elapsed time
			if el >= time.Duration(d) {
				slept = fmt.Sprintf(" slept:%d", d)
			} else {
				slept = fmt.Sprintf(" slept-short:%d", int64(el))
			}
		}
		return finish(p, fmt.Sprintf(" e=%d", c.clk.Epoch())) + slept, side
	case t[0] == "sc.expire" && len(t) >= 2:
		n := len(t) - 1
		ids := make([]int, n)
		for i := range ids {
			ids[i] = int(pi(t[1+i]))
			if _, ok := c.issued[ids[i]]; !ok {
				return "bad-op", side
			}
		}
		if n > c.expected {
			return "bad-op", side
		}
		if g := runtime.NumGoroutine(); g < c.base+c.expected-n {
			c.taint = append(c.taint, "expire:more-goroutines-gone-than-named")
		}
		deadline := time.Now().Add(8 * time.Second)
		for runtime.NumGoroutine() > c.base+c.expected-n {
			if time.Now().After(deadline) {
				return "err expire-timeout", side
			}
			time.Sleep(time.Millisecond)
		}
		for watcher.count() < c.consumed+n { // the watcher is at most a millisecond behind
			if time.Now().After(deadline) {
				return "err expire-timeout", side
			}
			time.Sleep(200 * time.Microsecond)
		}
		now := watcher.at(c.consumed + n - 1)
		c.consumed += n
		c.expected -= n
		secs := ""
		if n == 1 {
			el := now.Sub(c.issued[ids[0]])
			side["el"] = strconv.FormatInt(el.Milliseconds(), 10)
			secs = fmt.Sprintf(" s=%d", int64((el+100*time.Millisecond)/time.Second))
		}
		for _, id := range ids {
			delete(c.issued, id)
		}
		s, a := c.h.take()
		if len(s) > 0 {
			c.taint = append(c.taint, "sync-records-during-expire")
		}
		if c.mode == "real" {
			if kf, err := c.kernelFreq(); err == nil {
				side["kf"] = strconv.FormatInt(kf, 10)
			}
		}
		return fmt.Sprintf("ok e=%d", c.clk.Epoch()) + secs + acts(a), side
	case t[0] == "scpll.do" && len(t) == 6 && strings.HasPrefix(t[5], "pow="):
		if c.mode != "sealed" {
			return "err refused-nonzero-effect", side
		}
		sec, ns, off, w := pi(t[1]), pi(t[2]), pi(t[3]), pf(t[4])
		pf(t[5][4:])
		if ns < 0 || ns >= 1e9 || sec < -secLimit || sec > secLimit {
			return "bad-op", side
		}
		c.checkQuiet("before")
		c.snow.now = time.Unix(sec, ns)
		id := c.nAdj
		g0 := runtime.NumGoroutine()
		c.issued[id] = time.Now()
		p := guarded(func() { c.pll.Do(time.Duration(off), w) })
		spawned := ""
		if g := runtime.NumGoroutine(); g == g0+1 {
			spawned = fmt.Sprintf(" spawn:%d", id)
			c.nAdj++
			c.expected++
		} else {
			delete(c.issued, id)
			if g != g0 {
				c.taint = append(c.taint, fmt.Sprintf("pll.do:goroutines=%d,before=%d", g, g0))
			}
		}
		return finish(p, " "+c.pllState()+fmt.Sprintf(" ce=%d", c.clk.Epoch())) + spawned, side
	}
	return "bad-op", side
}

func childMain(mode string) {
	out := bufio.NewWriter(os.Stdout)
	say := func(s string) { fmt.Fprintln(out, s); out.Flush() }
	c := &childState{mode: mode}
	var tx unix.Timex
	if _, err := unix.Adjtimex(&tx); err != nil {
		say("NOPROBE " + strings.ReplaceAll(err.Error(), " ", "_"))
		return
	}
	c.f0ppm = tx.Freq
	switch mode {
	case "real":
		if !hasCapSysTime() {
			say("NOCAP")
			return
		}
		// a float the kernel's own value converts back to exactly: setting it changes nothing
		f := unixutil.FreqFromScaledPPM(tx.Freq)
		for i := 0; i < 4 && unixutil.ScaledPPMFromFreq(f) != tx.Freq; i++ {
			if tx.Freq > 0 {
				f = math.Nextafter(f, math.Inf(1))
			} else {
				f = math.Nextafter(f, math.Inf(-1))
			}
		}
		if unixutil.ScaledPPMFromFreq(f) != tx.Freq || math.IsNaN(f) || math.IsInf(f, 0) {
			say("NOPROBE frequency-not-representable")
			return
		}
		c.f0 = f
	case "sealed":
		if err := seal(); err != nil {
			say("NOSECCOMP " + strings.ReplaceAll(err.Error(), " ", "_"))
			return
		}
	default:
		say("NOPROBE bad-mode")
		return
	}
	go watcher.run()
	say(fmt.Sprintf("READY f0=%s ppm=%d", bits(c.f0), c.f0ppm))
	in := bufio.NewScanner(os.Stdin)
	in.Buffer(make([]byte, 1<<16), 1<<20)
	for in.Scan() {
		t := strings.Fields(in.Text())
		if len(t) == 0 {
			continue
		}
		var ans string
		var side map[string]string
		func() {
			defer func() {
				if r := recover(); r != nil {
					if s, ok := r.(string); ok && s == "bad-op" {
						ans = "bad-op"
					} else {
						ans = "err harness-panic:" + lib.PanicClass(r)
					}
					side = map[string]string{}
				}
			}()
			ans, side = c.run(t)
		}()
		if len(c.taint) > 0 {
			side["taint"] = strings.Join(c.taint, ";")
		}
		keys := make([]string, 0, len(side))
		for k := range side {
			keys = append(keys, k)
		}
		sort.Strings(keys)
		var sb strings.Builder
		for _, k := range keys {
			sb.WriteString(" " + k + "=" + strings.ReplaceAll(side[k], " ", "_"))
		}
		say(ans + "\t" + strings.TrimSpace(sb.String()))
	}
}

// ================================================================ parent: child handle

type child struct {
	cmd  *exec.Cmd
	in   io.WriteCloser
	out  *bufio.Reader
	mode string
	f0   string // bits of the frequency a real-mode child accepts
	ppm  int64
}

// startChild returns (nil, reason) when the mode cannot be run in this sandbox.
func startChild(mode string) (*child, string) {
	self, err := os.Executable()
	if err != nil {
		return nil, "os.Executable: " + err.Error()
	}
	cmd := exec.Command(self)
	cmd.Env = append(os.Environ(), "C19CLK_CHILD="+mode)
	stdin, _ := cmd.StdinPipe()
	stdout, _ := cmd.StdoutPipe()
	if err := cmd.Start(); err != nil {
		return nil, "start: " + err.Error()
	}
	c := &child{cmd: cmd, in: stdin, out: bufio.NewReader(stdout), mode: mode}
	type res struct {
		l   string
		err error
	}
	ch := make(chan res, 1)
	go func() { l, err := c.out.ReadString('\n'); ch <- res{l, err} }()
	select {
	case r := <-ch:
		l := strings.TrimSpace(r.l)
		if !strings.HasPrefix(l, "READY") {
			c.kill()
			if l == "" && r.err != nil {
				l = "child exited during start-up"
			}
			return nil, l
		}
		for _, f := range strings.Fields(l)[1:] {
			k, v, _ := strings.Cut(f, "=")
			switch k {
			case "f0":
				c.f0 = v
			case "ppm":
				c.ppm, _ = strconv.ParseInt(v, 10, 64)
			}
		}
	case <-time.After(20 * time.Second):
		c.kill()
		return nil, "child start-up timeout"
	}
	return c, ""
}

func (c *child) kill() {
	if c == nil {
		return
	}
	c.in.Close()
	if c.cmd.Process != nil {
		c.cmd.Process.Kill()
	}
	c.cmd.Wait()
}

// do sends one op; a dead child answers "err child-exited".
func (c *child) do(op string) (answer string, side map[string]string) {
	side = map[string]string{}
	if _, err := fmt.Fprintln(c.in, op); err != nil {
		return "err child-exited", side
	}
	l, err := c.out.ReadString('\n')
	if err != nil {
		return "err child-exited", side
	}
	l = strings.TrimRight(l, "\n")
	ans, rest, _ := strings.Cut(l, "\t")
	for _, f := range strings.Fields(rest) {
		k, v, _ := strings.Cut(f, "=")
		side[k] = v
	}
	return ans, side
}

// ---------------------------------------------------------------- exec (used by -replay)

var cur *child

func execOp(t []string) string {
	if t[0] == "sc.new" && len(t) == 2 && (t[1] == "real" || t[1] == "sealed") {
		cur.kill()
		var why string
		cur, why = startChild(t[1])
		if cur == nil {
			return "skip " + strings.ReplaceAll(why, " ", "_")
		}
	}
	if cur == nil {
		return "err no-clock"
	}
	if !strings.HasPrefix(t[0], "sc.") && !strings.HasPrefix(t[0], "scpll.") {
		return "bad-op"
	}
	ans, side := cur.do(strings.Join(t, " "))
	if tn, ok := side["taint"]; ok {
		fmt.Fprintln(os.Stderr, "c19clk: timing of this replay is unreliable:", tn)
	}
	return ans
}

// ================================================================ parent: plans, runner, oracle

type item struct {
	at     time.Duration // planned start, relative to the start of the history (expire: not before)
	op     string        // "{f0}" stands for the frequency a real-mode child accepts
	expire []int         // sc.expire of these adjustments
}

type plan struct {
	name  string
	mode  string
	items []item
}

type outcome struct {
	op, ans string
	side    map[string]string
	started time.Duration
}

type result struct {
	p       *plan
	skipped string // could not be run in this sandbox
	dead    bool
	outs    []outcome
	taint   string
	f0      string
	kf0     string // real mode: the kernel's frequency (scaled ppm) after the first op
}

const kfMoved = "kernel-frequency-moved"
const endedEarly = "slew-ended-early"
const endedLate = "slew-ended-late"

// early: did an expiry goroutine finish before the whole seconds its Adjust had to ask for? (the
// machine's clock may have been stepped by someone else meanwhile: decided by re-running)
func early(r *result) string {
	secs := map[string]int64{}
	for _, o := range r.outs {
		t, f := strings.Fields(o.op), strings.Fields(o.ans)
		if t[0] == "sc.adjust" && len(t) == 4 && len(f) > 0 && f[0] == "ok" && strings.HasPrefix(f[len(f)-1], "spawn:") {
			if d, err := strconv.ParseInt(t[2], 10, 64); err == nil && d >= 0 {
				secs[f[len(f)-1][6:]] = normDur(d) / 1e9
			}
		}
		if t[0] == "sc.expire" && len(t) == 2 {
			if el, err := strconv.ParseInt(o.side["el"], 10, 64); err == nil {
				if want, ok := secs[t[1]]; ok && el < want*1000-25 {
					return fmt.Sprintf("%s:%dms<%ds", endedEarly, el, want)
				}
				if want, ok := secs[t[1]]; ok && el > want*1000+900 {
					return fmt.Sprintf("%s:%dms>%ds", endedLate, el, want)
				}
			}
		}
	}
	return ""
}

// runPlan executes one history in its own child, in real time.
func runPlan(p *plan) *result {
	r := &result{p: p}
	c, why := startChild(p.mode)
	if c == nil {
		r.skipped = why
		return r
	}
	defer c.kill()
	r.f0 = c.f0
	t0 := time.Now()
	do := func(op string) bool {
		op = strings.ReplaceAll(op, "{f0}", c.f0)
		st := time.Since(t0)
		ans, side := c.do(op)
		r.outs = append(r.outs, outcome{op, ans, side, st})
		if ans == "err child-exited" {
			r.dead = true
			return false
		}
		if tn, ok := side["taint"]; ok && r.taint == "" {
			r.taint = tn
		}
		if kf, ok := side["kf"]; ok {
			if r.kf0 == "" {
				r.kf0 = kf
			} else if kf != r.kf0 && r.taint == "" {
				// somebody moved the kernel's frequency: this history (zero-effect calls only), or
				// another process on the machine — decided by re-running it
				r.taint = kfMoved + ":" + r.kf0 + "->" + kf
			}
		}
		if strings.HasPrefix(ans, "err expire-timeout") && r.taint == "" {
			r.taint = "expire-timeout"
		}
		return true
	}
	if !do("sc.new " + p.mode) {
		return r
	}
	for _, it := range p.items {
		if d := it.at - time.Since(t0); d > 0 {
			time.Sleep(d)
		}
		op := it.op
		if it.expire != nil {
			op = "sc.expire"
			for _, id := range it.expire {
				op += " " + strconv.Itoa(id)
			}
		} else if late := time.Since(t0) - it.at; late > 150*time.Millisecond && r.taint == "" {
			r.taint = fmt.Sprintf("runner-late-by-%dms", late.Milliseconds())
		}
		if !do(op) {
			return r
		}
	}
	if d := early(r); d != "" {
		r.taint = d // the cause of whatever else went wrong with the timing of this history
	}
	return r
}

// ---------------------------------------------------------------- plan builder

// builder lays ops out on a real-time axis such that no op other than sc.expire comes within
// `margin` of a moment at which an expiry goroutine is due.
type builder struct {
	p        plan
	t        time.Duration
	pending  []pend // goroutines not yet expired
	nAdj     int
	clkEpoch uint64 // the clock's epoch as the plan expects it (only to lay out the time axis)
}

type pend struct {
	id  int
	due time.Duration // issue time + whole seconds of the normalised duration
}

const margin = 450 * time.Millisecond

func normDur(d int64) int64 {
	n := d / 1e9 * 1e9
	if n == 0 {
		n = 1e9
	}
	return n
}

// settle moves the time axis so that an ordinary op at b.t is safe, expiring what is due.
func (b *builder) settle() {
	for {
		sort.Slice(b.pending, func(i, j int) bool { return b.pending[i].due < b.pending[j].due })
		if len(b.pending) == 0 || b.pending[0].due-b.t >= margin {
			return
		}
		b.expireDue()
	}
}

// expireDue expires the earliest pending goroutine and every other one due within `margin` of it.
func (b *builder) expireDue() {
	if len(b.pending) == 0 {
		return
	}
	sort.Slice(b.pending, func(i, j int) bool { return b.pending[i].due < b.pending[j].due })
	first := b.pending[0].due
	var ids []int
	last := first
	k := 0
	for k < len(b.pending) && b.pending[k].due-last < margin {
		ids = append(ids, b.pending[k].id)
		last = b.pending[k].due
		k++
	}
	sort.Ints(ids)
	b.pending = b.pending[k:]
	at := first - 30*time.Millisecond
	if at < b.t {
		at = b.t
	}
	b.p.items = append(b.p.items, item{at: at, expire: ids})
	if last+60*time.Millisecond > b.t {
		b.t = last + 60*time.Millisecond
	}
}

func (b *builder) op(s string) {
	b.settle()
	b.p.items = append(b.p.items, item{at: b.t, op: s})
	b.t += 15 * time.Millisecond
}

func (b *builder) wait(d time.Duration) { b.t += d }

func (b *builder) step(off int64) {
	b.op(fmt.Sprintf("sc.step %d", off))
	if b.clkEpoch != math.MaxUint64 {
		b.clkEpoch++
	}
}
func (b *builder) epoch()        { b.op("sc.epoch") }
func (b *builder) sleep(d int64) { b.op(fmt.Sprintf("sc.sleep %d", d)) }
func (b *builder) setEpoch(n uint64) {
	b.op(fmt.Sprintf("sc.setepoch %d", n))
	b.clkEpoch = n
}

// adjust returns the id of the goroutine it starts (-1 for a negative duration: panic).
func (b *builder) adjust(off, dur int64, f string) int {
	b.settle()
	b.p.items = append(b.p.items, item{at: b.t, op: fmt.Sprintf("sc.adjust %d %d %s", off, dur, f)})
	id := -1
	if dur >= 0 {
		id = b.nAdj
		b.nAdj++
		b.pending = append(b.pending, pend{id, b.t + time.Duration(normDur(dur))})
	}
	b.t += 15 * time.Millisecond
	return id
}

// pllDo: one PLL update at a scripted reading; adjDur is the duration of the Adjust the update is
// expected to make (0: none) — only used to lay out the time axis.
func (b *builder) pllDo(sec, ns, off int64, w float64, pow float64, adjDur int64) {
	b.settle()
	b.p.items = append(b.p.items, item{at: b.t, op: fmt.Sprintf("scpll.do %d %d %d %s pow=%s", sec, ns, off, bits(w), bits(pow))})
	if adjDur > 0 {
		b.pending = append(b.pending, pend{b.nAdj, b.t + time.Duration(normDur(adjDur))})
		b.nAdj++
	}
	b.t += 15 * time.Millisecond
}

// expireAll waits for every pending goroutine (end of a history, or on purpose).
func (b *builder) expireAll() {
	for len(b.pending) > 0 {
		b.expireDue()
	}
}

// ---------------------------------------------------------------- oracle

type pendO struct {
	id    int
	after float64
	secs  int64
}

// judge evaluates the property's clauses on what the real clock object did in one history
// (independent of the model): the tracked quantities are the epoch, the registered slew and the
// goroutines started, all derived from the answers themselves.
func judge(c *lib.Ctx, r *result) {
	var ops []string
	fail := func(sig, what string, detail map[string]any) {
		c.Fail(sig, what, append([]string(nil), ops...), detail)
	}
	var epoch uint64
	var reg *pendO // the registered slew (c.adjustment), as the oracle tracks it
	pending := map[int]pendO{}
	var pllEpoch uint64 // the epoch the PLL recorded at its last update
	pllSeen := false
	for _, o := range r.outs {
		ops = append(ops, o.op)
		t := strings.Fields(o.op)
		f := strings.Fields(o.ans)
		if len(f) == 0 {
			fail("C19:sysclk-bad-answer", "empty answer", nil)
			return
		}
		c.Count(t[0] + ":" + f[0])
		var e uint64
		var acts []string
		haveE := false
		for _, x := range f[1:] {
			switch {
			case strings.HasPrefix(x, "ce="):
				e, _ = strconv.ParseUint(x[3:], 10, 64)
				haveE = true
			case strings.HasPrefix(x, "e=") && (t[0] != "scpll.do"):
				e, _ = strconv.ParseUint(x[2:], 10, 64)
				haveE = true
			case strings.HasPrefix(x, "off:"), strings.HasPrefix(x, "freq:"), strings.HasPrefix(x, "sleep:"), strings.HasPrefix(x, "slept"), strings.HasPrefix(x, "spawn:"), strings.HasPrefix(x, "log:"):
				acts = append(acts, x)
			}
		}
		ok := f[0] == "ok"
		wantCancel := func() []string {
			if reg != nil {
				return []string{"freq:" + bits(reg.after)}
			}
			return nil
		}
		eq := func(a, b []string) bool { return strings.Join(a, " ") == strings.Join(b, " ") }
		switch t[0] {
		case "sc.new":
			epoch, reg = 0, nil
		case "sc.setepoch":
			epoch, _ = strconv.ParseUint(t[1], 10, 64)
		case "sc.epoch":
			if len(f) != 2 || f[1] != strconv.FormatUint(epoch, 10) {
				fail("C19:sysclk-epoch", "Epoch() is not the number of steps made (plus the initial value)", map[string]any{"answer": o.ans, "expected": epoch})
			}
		case "sc.step":
			off := pi(t[1])
			want := append(wantCancel(), fmt.Sprintf("off:%d", off))
			if reg != nil {
				c.Count("step:with-slew-registered")
			} else {
				c.Count("step:without-slew")
			}
			if len(pending) > 0 {
				c.Count("step:with-goroutine-pending")
			}
			if !eq(acts, want) {
				fail("C19:sysclk-step-calls", "Step must restore afterFreq of a registered slew first and then set the offset, nothing else",
					map[string]any{"calls": acts, "expected": want})
			}
			switch {
			case epoch == math.MaxUint64:
				if ok || !haveE || e != epoch {
					fail("C19:sysclk-step-overflow", "Step at epoch MaxUint64 must panic and leave the epoch", map[string]any{"answer": o.ans})
				}
			case !ok || !haveE || e != epoch+1:
				fail("C19:sysclk-step-epoch", "a Step did not advance the epoch by exactly one: the step is invisible to (or counted twice by) the PLL",
					map[string]any{"epoch_before": epoch, "answer": o.ans, "slew_registered": reg != nil})
				if haveE {
					epoch = e
				}
			default:
				epoch = e
			}
			reg = nil
		case "sc.adjust":
			off, dur, fr := pi(t[1]), pi(t[2]), pf(t[3])
			if haveE && e != epoch {
				fail("C19:sysclk-adjust-epoch", "Adjust changed the epoch", map[string]any{"epoch_before": epoch, "answer": o.ans})
				epoch = e
			}
			reg = nil
			if dur < 0 {
				c.Count("adjust:negative-duration")
				if ok || len(acts) != 0 {
					fail("C19:sysclk-adjust-negative", "Adjust with a negative duration must panic before any call", map[string]any{"answer": o.ans})
				}
				break
			}
			nd := normDur(dur)
			switch {
			case dur == 0:
				c.Count("adjust:duration-0")
			case dur < 1e9:
				c.Count("adjust:duration<1s")
			case dur%1e9 == 0:
				c.Count("adjust:duration-whole-seconds")
			default:
				c.Count("adjust:duration-fractional")
			}
			wantF := fr + time.Duration(off).Seconds()/time.Duration(nd).Seconds()
			id := -1
			if n := len(acts); n > 0 && strings.HasPrefix(acts[n-1], "spawn:") {
				id = int(pi(acts[n-1][6:]))
			}
			if !ok || len(acts) != 2 || acts[0] != "freq:"+bits(wantF) || id < 0 {
				fail("C19:sysclk-adjust-calls", "Adjust must set frequency + offset/duration (duration rounded down to whole seconds, 1 s at least) once and start one expiry goroutine",
					map[string]any{"answer": o.ans, "expected_frequency": bits(wantF), "seconds": nd / 1e9})
			}
			if id >= 0 {
				pd := pendO{id, fr, nd / 1e9}
				pending[id] = pd
				reg = &pd
			}
		case "sc.expire":
			var want []string
			for _, s := range t[1:] {
				id := int(pi(s))
				pd, known := pending[id]
				if !known {
					continue
				}
				delete(pending, id)
				if reg != nil && reg.id == id {
					want = append(want, "freq:"+bits(pd.after))
					c.Count("expire:current")
				} else {
					c.Count("expire:superseded-or-cancelled")
				}
				if len(t) == 2 {
					if el, err := strconv.ParseInt(o.side["el"], 10, 64); err == nil {
						if el < pd.secs*1000-25 {
							fail("C19:sysclk-slew-duration", "the slew ended before the whole number of seconds Adjust must ask for (at least 1 s)",
								map[string]any{"elapsed_ms": el, "seconds": pd.secs})
						}
						if el > pd.secs*1000+900 && pd.secs > 0 {
							fail("C19:sysclk-slew-duration", "the slew lasted (three runs out of three) about a second or more longer than the whole number of seconds Adjust must ask for",
								map[string]any{"elapsed_ms": el, "seconds": pd.secs})
						}
					}
				}
			}
			if !ok || !eq(acts, want) || (haveE && e != epoch) {
				fail("C19:sysclk-expire", "the expiry goroutine must restore afterFreq iff its slew is still the registered one, and never touch the epoch",
					map[string]any{"answer": o.ans, "expected_calls": want, "epoch": epoch})
			}
		case "sc.sleep":
			d := pi(t[1])
			want := []string{fmt.Sprintf("sleep:%d", d)}
			if d >= 0 {
				want = append(want, fmt.Sprintf("slept:%d", d))
			}
			if ok != (d >= 0) || !eq(acts, want) || (haveE && e != epoch) {
				fail("C19:sysclk-sleep", "Sleep must panic exactly for negative durations and never touch the epoch", map[string]any{"answer": o.ans})
			}
		case "scpll.do":
			// the PLL on the real clock object: a restart is due whenever the clock's epoch differs
			// from the one the PLL recorded at its previous update
			var mode, pe uint64
			var t0, tt string
			for _, x := range f[1:] {
				switch {
				case strings.HasPrefix(x, "m="):
					mode, _ = strconv.ParseUint(x[2:], 10, 64)
				case strings.HasPrefix(x, "e="):
					pe, _ = strconv.ParseUint(x[2:], 10, 64)
				case strings.HasPrefix(x, "t0="):
					t0 = x[3:]
				case strings.HasPrefix(x, "t="):
					tt = x[2:]
				}
			}
			restartDue := !pllSeen || pllEpoch != epoch
			if ok && restartDue {
				c.Count("pll:restart-due")
				if pllSeen {
					c.Count("pll:restart-due-after-step")
				}
				if mode != 1 || t0 != t[1]+":"+t[2] || tt != t0 || len(acts) != 0 || pe != epoch {
					fail("C19:pll-restart-after-step", "the clock was stepped (its epoch moved) but the PLL's next update did not restart the start-up sequence",
						map[string]any{"answer": o.ans, "clock_epoch": epoch, "pll_epoch_before": pllEpoch})
				}
			}
			if ok {
				pllSeen, pllEpoch = true, pe
			}
			// the clock side of the PLL's calls
			stepped := false
			var spawnID = -1
			for _, a := range acts {
				if strings.HasPrefix(a, "off:") {
					stepped = true
				}
				if strings.HasPrefix(a, "spawn:") {
					spawnID = int(pi(a[6:]))
				}
			}
			if stepped {
				c.Count("pll:own-step")
				if reg != nil {
					c.Count("pll:own-step-with-slew-registered")
				}
				want := wantCancel()
				if len(acts) != len(want)+1 || !eq(acts[:len(want)], want) {
					fail("C19:sysclk-step-calls", "Step (made by the PLL) must restore afterFreq of a registered slew first and then set the offset",
						map[string]any{"calls": acts, "expected_prefix": want})
				}
				if epoch == math.MaxUint64 {
					if ok {
						fail("C19:sysclk-step-overflow", "Step at epoch MaxUint64 must panic", map[string]any{"answer": o.ans})
					}
				} else if !ok || !haveE || e != epoch+1 {
					fail("C19:sysclk-step-epoch", "the PLL's own Step did not advance the clock's epoch by exactly one: its next update will not restart",
						map[string]any{"epoch_before": epoch, "answer": o.ans, "slew_registered": reg != nil})
				}
				reg = nil
			} else if haveE && e != epoch {
				fail("C19:sysclk-adjust-epoch", "the clock's epoch moved in an update that made no Step", map[string]any{"epoch_before": epoch, "answer": o.ans})
			}
			if haveE {
				epoch = e
			}
			if spawnID >= 0 {
				c.Count("pll:adjust")
				// frequency after the slew is l.i, the value passed to Adjust
				var li float64
				for _, x := range f[1:] {
					if strings.HasPrefix(x, "i=") {
						li = pf(x[2:])
					}
				}
				pd := pendO{spawnID, li, 0}
				pending[spawnID] = pd
				reg = &pd
			}
		}
	}
}

// ---------------------------------------------------------------- generator

func genWeight(r *lib.Rand) float64 {
	return []float64{10, 4, 1000, 200, 100, 49}[r.Intn(6)]
}

// clockHistory: a random history of method calls on the clock object.
func clockHistory(r *lib.Rand, mode string, k int, budget time.Duration) *plan {
	b := &builder{p: plan{name: fmt.Sprintf("clock-%s-%d", mode, k), mode: mode}}
	freq := func() string {
		if mode == "real" {
			return "{f0}"
		}
		switch r.Intn(6) {
		case 0:
			return bits(0)
		case 1:
			return bits(math.Copysign(0, -1))
		case 2:
			return bits(float64(r.Range(-500, 500)) * 1e-6)
		case 3:
			return bits([]float64{math.NaN(), math.Inf(1), 5e-324, 1e300, -4.9e-4}[r.Intn(5)])
		default:
			return bits(float64(r.Range(-32768000, 32768000)) / 65536e6)
		}
	}
	off := func() int64 {
		if mode == "real" {
			return 0
		}
		switch r.Intn(6) {
		case 0:
			return 0
		case 1:
			return r.Pick64([]int64{math.MinInt64, math.MaxInt64, 1, -1, 999999999, -1000000001})
		case 2:
			return r.I64()
		default:
			return r.Range(-5e8, 5e8)
		}
	}
	dur := func() int64 {
		switch r.Intn(10) {
		case 0:
			return 0
		case 1:
			return r.Pick64([]int64{1, 999999999, 1e9, 1e9 + 1, 1999999999, 2e9, 2e9 + 1, 2999999999})
		case 2:
			return -r.Pick64([]int64{1, 1e9, math.MaxInt64, r.Range(1, 1e10)}) // panic
		case 3:
			return r.Range(2e9, 2999999999)
		default:
			return r.Range(0, 1999999999)
		}
	}
	if r.Chance(35) {
		switch r.Intn(3) {
		case 0:
			b.setEpoch(math.MaxUint64 - uint64(r.Range(0, 3)))
		case 1:
			b.setEpoch(r.U64())
		default:
			b.setEpoch(uint64(r.Range(1, 1000)))
		}
	}
	n := 6 + r.Intn(14)
	for i := 0; i < n && b.t < budget; i++ {
		switch k := r.Intn(100); {
		case k < 30:
			b.step(off())
		case k < 62:
			b.adjust(off(), dur(), freq())
		case k < 70:
			b.epoch()
		case k < 75:
			b.sleep(r.Pick64([]int64{0, 1, -1, 1000000, math.MinInt64, 20e6}))
		case k < 88: // let the earliest goroutine run (its slew may still be registered, or not)
			if len(b.pending) > 0 {
				b.expireDue()
			} else {
				b.wait(time.Duration(r.Range(0, 200)) * time.Millisecond)
			}
		default:
			b.wait(time.Duration(r.Range(10, 500)) * time.Millisecond)
		}
	}
	if r.Chance(70) {
		b.expireAll()
		if r.Bool() {
			b.step(off())
		}
		b.epoch()
	} else {
		b.epoch()
	}
	return &b.p
}

// scripted returns the fixed histories every run contains (the shapes the clauses talk about).
func scripted(mode string) []*plan {
	f := "{f0}"
	if mode == "sealed" {
		f = bits(25e-6)
	}
	var ps []*plan
	add := func(name string, fn func(b *builder)) {
		b := &builder{p: plan{name: name + "-" + mode, mode: mode}}
		fn(b)
		ps = append(ps, &b.p)
	}
	// Step, Adjust, Step, Step: every step counts, also the one made while a slew is registered
	add("step-adjust-step-step", func(b *builder) {
		b.epoch()
		b.step(0)
		b.adjust(0, 0, f)
		b.step(0)
		b.step(0)
		b.epoch()
		b.expireAll()
		b.epoch()
	})
	// a step long after the slew ran out: the registration is still there (never cleared)
	add("step-after-expiry", func(b *builder) {
		b.adjust(0, 1500000000, f)
		b.expireAll()
		b.step(0)
		b.epoch()
		b.step(0)
		b.epoch()
	})
	// two slews: the first goroutine finds another adjustment registered
	add("superseded-slew", func(b *builder) {
		b.adjust(0, 1e9, f)
		b.wait(500 * time.Millisecond)
		b.adjust(0, 999999999, f)
		b.expireAll()
		b.step(0)
		b.epoch()
	})
	return ps
}

// pllHistory: the real PLL on the real clock object (sealed children only): start-up, the
// PLL's own step, tracking with slews, then a step by the PLL itself (after a restart) or by
// another user of the clock while a slew is registered, and the update after it.
func pllHistory(r *lib.Rand, k int) *plan {
	b := &builder{p: plan{name: fmt.Sprintf("pll-%d", k), mode: "sealed"}}
	if r.Chance(30) {
		b.setEpoch([]uint64{math.MaxUint64, math.MaxUint64 - 1, math.MaxUint64 - 2, 41}[r.Intn(4)])
	}
	sec := r.Range(1.6e9, 1.9e9)
	ns := r.Range(0, 999999999)
	adv := func(g int64) {
		sec += g / 1e9
		ns += g % 1e9
		if ns >= 1e9 {
			sec, ns = sec+1, ns-1e9
		}
	}
	mode := 0 // the generator's own idea of where the PLL is (only to lay out the time axis)
	var t0s, t0n, ts, tn int64
	w := genWeight(r)
	since := func(s, n int64) int64 { return (sec-s)*1e9 + (ns - n) }
	update := func(off int64) {
		adjDur := int64(0)
		pow := 1.0
		switch mode {
		case 0:
			mode, t0s, t0n = 1, sec, ns
		case 1:
			if since(t0s, t0n) > 2e9 && w > 3 {
				ot0s, ot0n := t0s, t0n
				mode, t0s, t0n = 2, sec, ns
				if off > 1e6 || off < -1e6 {
					if b.clkEpoch == math.MaxUint64 {
						mode, t0s, t0n = 1, ot0s, ot0n // Step panics: the PLL stays as it was
					} else {
						b.clkEpoch++
						mode = -1 // stepped: the next update restarts
					}
				}
			}
		case 2:
			if since(t0s, t0n) > 6e9 {
				mode, t0s, t0n = 3, sec, ns
			}
		case 3:
			dt := time.Duration(since(ts, tn)).Seconds()
			pow = math.Pow(0.999, dt)
			if d := math.Ceil(dt); d > 0 {
				adjDur = int64(d) * 1e9
			}
		}
		b.pllDo(sec, ns, off, w, pow, adjDur)
		ts, tn = sec, ns
		if mode == -1 {
			mode = 0
		}
	}
	externalStep := func() {
		moves := b.clkEpoch != math.MaxUint64 // at MaxUint64 Step panics and the epoch stays
		b.step(r.Range(-1e9, 1e9))
		if moves {
			mode = 0
		}
	}
	n := 10 + r.Intn(14)
	for i := 0; i < n && b.t < 2500*time.Millisecond; i++ {
		if mode < 3 && r.Chance(10) {
			// another user of the shared clock object starts a slew during the PLL's start-up: the
			// PLL's own step then finds it registered
			b.adjust(r.Range(-1e6, 1e6), r.Range(0, 1999999999), bits(float64(r.Range(-100, 100))*1e-6))
		}
		switch mode {
		case 0:
			update(r.Range(-3e6, 3e6))
		case 1:
			adv(r.Pick64([]int64{2e9 + 1, 2e9, 3e9, 1e9}))
			if r.Chance(65) {
				update(r.Pick64([]int64{1e6, -1e6, 100, r.Range(-1e6, 1e6)}))
			} else {
				update(r.Pick64([]int64{5e6, -7e6, 1e6 + 1, math.MinInt64, r.Range(-3e9, 3e9)}))
			}
		case 2:
			adv(r.Pick64([]int64{6e9 + 1, 6e9, 7e9, 3e9}))
			update(r.Range(-2e6, 2e6))
		default:
			switch k := r.Intn(100); {
			case k < 14: // another user of the shared clock steps it while the PLL is tracking
				externalStep()
			case k < 20 && len(b.pending) > 0: // let the slews run out (the last one is still registered)
				b.expireAll()
			default:
				adv(r.Pick64([]int64{1e9, 1e9 - 1, 1e9 + 1, 2e9, 1500000000, 0}))
				update(r.Range(-300000, 300000))
			}
		}
	}
	if r.Bool() {
		externalStep()
		adv(1e9)
		update(r.Range(-300000, 300000)) // must restart
	}
	if r.Chance(60) {
		b.expireAll()
	}
	b.epoch()
	return &b.p
}

func gen(c *lib.Ctx) {
	r := c.Rand
	// what can run here?
	avail := map[string]string{}
	for _, m := range []string{"real", "sealed"} {
		ch, why := startChild(m)
		if ch == nil {
			avail[m] = why
			c.NotExecuted("live SystemClock histories (" + m + " children) not executed: " + why)
		} else {
			ch.kill()
		}
	}
	var plans []*plan
	for _, m := range []string{"real", "sealed"} {
		if avail[m] != "" {
			continue
		}
		plans = append(plans, scripted(m)...)
	}
	nReal, nSealed, nPll := c.Scale(3, 24), c.Scale(10, 120), c.Scale(10, 120)
	budget := 2500 * time.Millisecond
	if avail["real"] == "" {
		for k := 0; k < nReal; k++ {
			plans = append(plans, clockHistory(r.Fork(fmt.Sprintf("real-%d", k)), "real", k, budget))
		}
	}
	if avail["sealed"] == "" {
		for k := 0; k < nSealed; k++ {
			plans = append(plans, clockHistory(r.Fork(fmt.Sprintf("sealed-%d", k)), "sealed", k, budget))
		}
		for k := 0; k < nPll; k++ {
			plans = append(plans, pllHistory(r.Fork(fmt.Sprintf("pll-%d", k)), k))
		}
	}
	// run concurrently (the children mostly sleep), in batches
	results := make([]*result, len(plans))
	const batch = 32
	for lo := 0; lo < len(plans); lo += batch {
		hi := lo + batch
		if hi > len(plans) {
			hi = len(plans)
		}
		var wg sync.WaitGroup
		for i := lo; i < hi; i++ {
			wg.Add(1)
			go func(i int) { defer wg.Done(); results[i] = runPlan(plans[i]) }(i)
		}
		wg.Wait()
	}
	// histories with unreliable timing: again, one at a time
	for i, res := range results {
		for try := 0; try < 2 && res.taint != "" && res.skipped == "" && !res.dead; try++ {
			c.Count("history:timing-unreliable-rerun")
			res = runPlan(plans[i])
			results[i] = res
		}
	}
	for _, res := range results {
		switch {
		case res.skipped != "":
			c.Count("history:skipped")
			c.NotExecuted("history " + res.p.name + " not executed: " + res.skipped)
			continue
		case res.dead:
			// logbase.Fatal: a syscall was refused (sandbox), never a verdict
			c.Count("history:child-exited")
			c.NotExecuted("history " + res.p.name + ": the child process exited (a syscall was refused?)")
			continue
		case strings.HasPrefix(res.taint, kfMoved):
			// three runs of a history of zero-effect calls, each time the kernel's frequency moved
			var ops []string
			for _, o := range res.outs {
				ops = append(ops, o.op)
			}
			c.Fail("C19:sysclk-kernel-frequency-moved", "zero-effect calls on the real clock (Step(0), Adjust(0, d, current frequency)) changed the kernel's frequency, three runs out of three",
				ops, map[string]any{"scaled_ppm": res.taint})
			continue
		case strings.HasPrefix(res.taint, endedEarly), strings.HasPrefix(res.taint, endedLate):
			// three runs out of three: judged below (C19:sysclk-slew-duration)
		case res.taint != "":
			c.Count("history:timing-unreliable-dropped")
			if os.Getenv("C19CLK_DEBUG") != "" {
				for _, o := range res.outs {
					fmt.Fprintf(os.Stderr, "%6dms %s => %s %v\n", o.started.Milliseconds(), o.op, o.ans, o.side)
				}
			}
			c.NotExecuted("history " + res.p.name + " dropped, timing unreliable three times: " + res.taint)
			continue
		}
		c.Count("history:" + strings.Split(res.p.name, "-")[0] + ":" + res.p.mode)
		c.Comment("history " + res.p.name)
		for _, o := range res.outs {
			c.Emit(o.op, o.ans)
		}
		judge(c, res)
	}
}

func main() {
	if m := os.Getenv("C19CLK_CHILD"); m != "" {
		childMain(m)
		return
	}
	defer func() { cur.kill() }()
	lib.Main(execOp, gen)
}
