// c14ntske: NTS-KE record codec — ReadData over segmented streams, record packing
// (fragments C14Ntske and C08Ntske; same ops and model driver as c20).
package main

import (
	"verifharness/cmd/c20/h"
	"verifharness/lib"
)

func main() { lib.Main(h.Exec, h.GenCodec) }
