// c12: correspondence + direct oracle for the NTS key provider (net/ntske/provider.go).
//
// The real ntske.Provider runs inside a testing/synctest bubble (GOEXPERIMENT=synctest), so
// time.Now() is virtual and an idle gap of weeks costs nothing. One bubble per history: a
// server goroutine inside the bubble takes op lines from the harness, sleeps (virtually) until
// the op's time offset and performs the call. Times in ops and answers are nanoseconds since
// the start of the bubble. Key bytes come from crypto/rand and are never printed; they are
// only checked for self-consistency (same id => same 32 bytes).
package main

import (
	"bytes"
	"fmt"
	"math"
	"sort"
	"strconv"
	"strings"
	"sync"
	"testing/synctest"
	"time"

	"example.com/scion-time/net/ntske"

	"verifharness/lib"
)

// ------------------------------------------------------------------ bubble server

type request struct {
	toks  []string
	reply chan string
}

type bubble struct {
	ch   chan request
	done chan struct{}
}

var (
	cur       *bubble
	selfFails []string // key-byte inconsistencies seen by the server (read by gen after each op)
)

func i64(s string) (int64, bool) {
	v, err := strconv.ParseInt(s, 10, 64)
	return v, err == nil
}

func stopBubble() {
	if cur != nil {
		close(cur.ch)
		select {
		case <-cur.done:
		case <-time.After(opTimeout):
			hung = true
		}
		cur = nil
	}
}

func startBubble() {
	b := &bubble{ch: make(chan request), done: make(chan struct{})}
	go func() {
		defer close(b.done)
		synctest.Run(func() { serve(b.ch) })
	}()
	cur = b
}

func fmtKey(k ntske.Key, start time.Time) string {
	return fmt.Sprintf("%d %d %d", k.ID, int64(k.Validity.NotBefore.Sub(start)), int64(k.Validity.NotAfter.Sub(start)))
}

// bstate is the state of one bubble (one history).
type bstate struct {
	start time.Time
	p     *ntske.Provider
	last  int64
	seen  map[int][]byte
	ls    *listeners // real IP listeners running in this bubble (use.new), or nil
	use   useState
}

func (b *bstate) note(k ntske.Key) {
	if len(k.Value) != 32 {
		selfFails = append(selfFails, fmt.Sprintf("key %d has %d bytes", k.ID, len(k.Value)))
	}
	if v, ok := b.seen[k.ID]; ok {
		if !bytes.Equal(v, k.Value) {
			selfFails = append(selfFails, fmt.Sprintf("key %d changed its bytes", k.ID))
		}
	} else {
		b.seen[k.ID] = append([]byte(nil), k.Value...)
	}
}

// sleepTo advances the virtual clock to offset t. Virtual time only moves while every goroutine
// of the bubble is durably blocked, so running listeners are parked first (listener.go).
func (b *bstate) sleepTo(t int64) bool {
	if t < b.last {
		return false
	}
	if d := time.Duration(t) - time.Since(b.start); d > 0 {
		if b.ls != nil {
			b.ls.sleep(d, 0)
		} else {
			time.Sleep(d)
		}
	}
	if int64(time.Since(b.start)) != t {
		panic("virtual clock not at the requested offset")
	}
	b.last = t
	return true
}

// serve runs inside the bubble.
func serve(ch chan request) {
	b := &bstate{start: time.Now(), seen: map[int][]byte{}}
	defer func() {
		if b.ls != nil {
			b.ls.stop()
		}
	}()
	start := b.start
	note := b.note
	sleepTo := b.sleepTo
	var p *ntske.Provider
	for rq := range ch {
		rq.reply <- lib.Try(func() string {
			t := rq.toks
			switch {
			case strings.HasPrefix(t[0], "use."):
				ans := b.useOp(t)
				p = b.p
				return ans
			case t[0] == "prov.new" && len(t) == 2:
				at, ok := i64(t[1])
				if !ok || at < 0 || p != nil || !sleepTo(at) {
					return "bad-op"
				}
				p = ntske.NewProvider()
				b.p = p
				return "ok"
			case t[0] == "prov.cur" && len(t) == 2:
				at, ok := i64(t[1])
				if !ok || p == nil || !sleepTo(at) {
					return "bad-op"
				}
				k := p.Current()
				note(k)
				return "ok " + fmtKey(k, start)
			case t[0] == "prov.curs" && len(t) == 4:
				// n calls of Current() at at, at+step, …, at+(n-1)*step (a long history in one op
				// line): answers the first and the last key, the number of calls whose key
				// differs from the previous call's, and the smallest id difference over those.
				n, ok0 := i64(t[1])
				step, ok1 := i64(t[2])
				at, ok2 := i64(t[3])
				if !ok0 || !ok1 || !ok2 || p == nil || n < 1 || n > 1<<20 || step < 0 ||
					(step > 0 && (n-1) > (math.MaxInt64-at)/step) || !sleepTo(at) {
					return "bad-op"
				}
				first := p.Current()
				note(first)
				prev, changes, minStep := first, int64(0), int64(0)
				for i := int64(1); i < n; i++ {
					if !sleepTo(at + i*step) {
						return "bad-op"
					}
					k := p.Current()
					note(k)
					if k.ID != prev.ID || !k.Validity.NotBefore.Equal(prev.Validity.NotBefore) {
						d := int64(k.ID) - int64(prev.ID)
						if changes == 0 || d < minStep {
							minStep = d
						}
						changes++
					}
					prev = k
				}
				return fmt.Sprintf("ok %d %d %s | %s", changes, minStep, fmtKey(first, start), fmtKey(prev, start))
			case t[0] == "prov.get" && len(t) == 3:
				id, ok1 := i64(t[1])
				at, ok2 := i64(t[2])
				if !ok1 || !ok2 || p == nil || !sleepTo(at) {
					return "bad-op"
				}
				k, found := p.Get(int(id))
				if !found {
					return "ok none"
				}
				note(k)
				return "ok " + fmtKey(k, start)
			case t[0] == "prov.par" && len(t) >= 3:
				at, ok := i64(t[1])
				if !ok || p == nil {
					return "bad-op"
				}
				items := t[2:]
				ids := make([]int64, len(items))
				for i, it := range items {
					if it == "c" {
						continue
					}
					if !strings.HasPrefix(it, "g:") {
						return "bad-op"
					}
					if ids[i], ok = i64(it[2:]); !ok {
						return "bad-op"
					}
				}
				if !sleepTo(at) {
					return "bad-op"
				}
				// all goroutines are released at the same virtual instant
				res := make([]string, len(items))
				keys := make([]*ntske.Key, len(items))
				gate := make(chan struct{})
				var wg sync.WaitGroup
				for i := range items {
					wg.Add(1)
					go func() {
						defer wg.Done()
						<-gate
						res[i] = lib.Try(func() string {
							if items[i] == "c" {
								k := p.Current()
								keys[i] = &k
								return fmtKey(k, start)
							}
							k, found := p.Get(int(ids[i]))
							if !found {
								return "none"
							}
							keys[i] = &k
							return fmtKey(k, start)
						})
					}()
				}
				synctest.Wait() // every goroutine is parked on the gate
				close(gate)
				wg.Wait()
				if int64(time.Since(start)) != at {
					panic("virtual clock moved during a parallel op")
				}
				for _, k := range keys {
					if k != nil {
						note(*k)
					}
				}
				return "ok " + strings.Join(res, " | ")
			}
			return "bad-op"
		})
	}
}

// opTimeout bounds (in real time) what one op may take: a bubble whose listeners could not be
// parked or stopped would otherwise hang the harness. The bubble is then abandoned.
const opTimeout = 60 * time.Second

var hung bool

func exec(t []string) string {
	if len(t) == 0 {
		return "bad-op"
	}
	if t[0] == "prov.new" || t[0] == "use.new" {
		stopBubble()
		startBubble()
	}
	if cur == nil {
		return "bad-op"
	}
	rq := request{toks: t, reply: make(chan string, 1)}
	select {
	case cur.ch <- rq:
	case <-time.After(opTimeout):
		cur, hung = nil, true
		return "hang"
	}
	select {
	case ans := <-rq.reply:
		return ans
	case <-time.After(opTimeout):
		cur, hung = nil, true
		return "hang"
	}
}

// ------------------------------------------------------------------ generator + direct oracle

// The numbers of the property statement (not read from the code under test).
const (
	hour     = int64(time.Hour)
	day      = 24 * hour
	validity = 3 * day  // "within its validity period (3 days)"
	renewal  = 24 * hour // "generated no more than the renewal interval (24 h) before"
	window   = 2 * day  // "usable for at least two days after it was issued"
)

type keyInfo struct {
	id, nb, na int64
	lastCur    int64 // latest instant at which Current handed this key out (-1: never)
}

type hist struct {
	c     *lib.Ctx
	ops   []string
	now   int64
	keys  map[int64]*keyInfo
	maxID int64
	curID int64 // id most recently handed out by Current (0: none yet)
}

func (h *hist) fail(sig, what string, detail map[string]any) {
	h.c.Fail(sig, what, append([]string(nil), h.ops...), detail)
}

func parseKey(s string) (id, nb, na int64, found, ok bool) {
	f := strings.Fields(s)
	if len(f) == 1 && f[0] == "none" {
		return 0, 0, 0, false, true
	}
	if len(f) != 3 {
		return 0, 0, 0, false, false
	}
	var e1, e2, e3 bool
	id, e1 = i64(f[0])
	nb, e2 = i64(f[1])
	na, e3 = i64(f[2])
	return id, nb, na, true, e1 && e2 && e3
}

// orderCheck: a key seen for the first time must fit the order of the known ones (ids are
// handed out in increasing order of generation time).
func (h *hist) orderCheck(id, nb int64, d map[string]any) {
	for _, k := range h.keys {
		if (k.id < id && k.nb > nb) || (k.id > id && k.nb < nb) {
			h.fail("c12:id-order", "key ids are not in the order of their generation times", d)
			return
		}
	}
}

// checkCur: clauses 1 and 3 of the statement on one answer of Current at instant t.
func (h *hist) checkCur(t, id, nb, na int64) {
	c := h.c
	d := map[string]any{"t": t, "id": id, "nb": nb, "na": na}
	if !(nb <= t && t <= na) || na-nb != validity {
		h.fail("c12:current-not-valid", "Current handed out a key outside its validity period", d)
	}
	if t-nb > renewal {
		h.fail("c12:current-stale", "Current handed out a key generated more than 24 h before", d)
	}
	if id < h.curID {
		h.fail("c12:id-decreased", "Current went back to an older key id", d)
	}
	if k, ok := h.keys[id]; ok {
		if k.nb != nb || k.na != na {
			h.fail("c12:id-rebound", "a key id is bound to two different validity periods", d)
		}
		k.lastCur = t
		c.Count("cur:kept")
	} else {
		if id <= h.maxID {
			h.fail("c12:id-repeated", "a new key received an id that is not larger than all earlier ids", d)
		}
		h.orderCheck(id, nb, d)
		h.keys[id] = &keyInfo{id: id, nb: nb, na: na, lastCur: t}
		if id > h.maxID {
			h.maxID = id
		}
		if h.curID != 0 {
			c.Count("cur:renewed")
			if old := h.keys[h.curID]; old != nil {
				switch {
				case t > old.na:
					c.Count("cur:renewed-because-expired")
				case t == old.nb+renewal+1:
					c.Count("boundary:renewal+1ns")
				}
			}
		} else {
			c.Count("cur:first")
		}
	}
	if t == nb+renewal {
		c.Count("boundary:renewal-exact-kept")
	}
	h.curID = id
}

// checkGet: clauses 2, 3 and 4 on one answer of Get(id) at instant t.
func (h *hist) checkGet(t, want int64, id, nb, na int64, found bool) {
	c := h.c
	d := map[string]any{"t": t, "get": want, "found": found, "id": id, "nb": nb, "na": na}
	k := h.keys[want]
	if found {
		if id != want {
			h.fail("c12:get-wrong-id", "Get returned a key with another id", d)
		}
		if !(nb <= t && t <= na) || na-nb != validity {
			h.fail("c12:get-not-valid", "Get returned a key outside its validity period", d)
		}
		if k != nil && (k.nb != nb || k.na != na) {
			h.fail("c12:id-rebound", "a key id is bound to two different validity periods", d)
		}
		if k == nil {
			// generated but never handed out by Current so far (e.g. the initial key)
			h.orderCheck(id, nb, d)
			h.keys[want] = &keyInfo{id: id, nb: nb, na: na, lastCur: -1}
			if want > h.maxID {
				h.maxID = want
			}
			c.Count("get:found-not-yet-issued")
		} else {
			c.Count("get:found")
		}
		if t == na {
			c.Count("boundary:get-at-notAfter")
		}
	} else {
		switch {
		case k == nil:
			c.Count("get:unknown-id")
		case t > k.na:
			c.Count("get:expired")
			if t == k.na+1 {
				c.Count("boundary:get-at-notAfter+1ns")
			}
		default:
			c.Count("get:missing-while-valid")
		}
	}
	if k != nil {
		if k.lastCur >= 0 && t <= k.lastCur+window {
			if t == k.lastCur+window {
				c.Count("boundary:get-at-issue+48h")
			}
			if !found {
				h.fail("c12:cookie-window-short", "a key that was current less than 48 h ago is no longer returned by Get", d)
			}
		}
		if t > k.nb+validity && found {
			h.fail("c12:cookie-window-long", "a key is still returned more than 3 days after its generation", d)
		}
	}
}

func (h *hist) do(op string) string {
	h.ops = append(h.ops, op)
	ans := h.c.Do(op)
	for _, s := range selfFails {
		h.fail("c12:key-bytes", s, nil)
	}
	selfFails = nil
	return ans
}

func (h *hist) opCur() {
	ans := h.do(fmt.Sprintf("prov.cur %d", h.now))
	if !strings.HasPrefix(ans, "ok ") {
		h.fail("c12:current-failed", "Current did not answer a key: "+ans, nil)
		return
	}
	id, nb, na, found, ok := parseKey(ans[3:])
	if !ok || !found {
		h.fail("c12:current-failed", "Current did not answer a key: "+ans, nil)
		return
	}
	h.checkCur(h.now, id, nb, na)
}

func (h *hist) opGet(id int64) {
	ans := h.do(fmt.Sprintf("prov.get %d %d", id, h.now))
	if !strings.HasPrefix(ans, "ok ") {
		h.fail("c12:get-failed", "Get failed: "+ans, nil)
		return
	}
	kid, nb, na, found, ok := parseKey(ans[3:])
	if !ok {
		h.fail("c12:get-failed", "Get failed: "+ans, nil)
		return
	}
	h.checkGet(h.now, id, kid, nb, na, found)
}

// opCurs: a run of n Current calls step ns apart in one op line. Oracle on the summary: the
// first and the last key are checked like any answer of Current; between two calls that
// returned different keys the id must have grown (ids strictly increase along the whole run, so
// none repeats); with step > 24 h every call must have handed out a new key. Independently the
// bubble server remembers the bytes of every id it has ever seen (note) and reports an id whose
// bytes changed (c12:key-bytes), i.e. an id that came back for another key.
func (h *hist) opCurs(n, step int64) {
	t0 := h.now
	ans := h.do(fmt.Sprintf("prov.curs %d %d %d", n, step, t0))
	f := strings.Fields(ans)
	if len(f) != 10 || f[0] != "ok" || f[6] != "|" {
		h.fail("c12:current-failed", "a run of Current calls failed: "+ans, nil)
		return
	}
	changes, ok1 := i64(f[1])
	minStep, ok2 := i64(f[2])
	id1, nb1, na1, fd1, ok3 := parseKey(strings.Join(f[3:6], " "))
	id2, nb2, na2, fd2, ok4 := parseKey(strings.Join(f[7:10], " "))
	if !ok1 || !ok2 || !ok3 || !ok4 || !fd1 || !fd2 {
		h.fail("c12:current-failed", "a run of Current calls failed: "+ans, nil)
		return
	}
	h.c.Count("curs:ops")
	tn := t0 + (n-1)*step
	d := map[string]any{"n": n, "step": step, "t0": t0, "changes": changes, "minIdStep": minStep, "first": f[3:6], "last": f[7:10]}
	h.checkCur(t0, id1, nb1, na1)
	if changes > 0 && minStep < 1 {
		h.fail("c12:id-repeated", "in a run of Current calls a new key received an id that is not larger than its predecessor's", d)
	}
	if step > renewal && changes != n-1 {
		h.fail("c12:current-stale", "calls more than 24 h apart returned the same key", d)
	}
	if step > renewal && id2-id1 < n-1 {
		h.fail("c12:id-repeated", "n keys were generated but the ids span fewer than n values", d)
	}
	if changes >= 65536 {
		h.c.Count("curs:over-65536-rotations")
	}
	if changes >= 1 {
		h.c.Count("curs:rotated")
	}
	h.now = tn
	h.checkCur(tn, id2, nb2, na2)
}

func (h *hist) sortedIDs() []int64 {
	ids := make([]int64, 0, len(h.keys))
	for id := range h.keys {
		ids = append(ids, id)
	}
	sort.Slice(ids, func(i, j int) bool { return ids[i] < ids[j] })
	return ids
}

func (h *hist) pickKnownID(r *lib.Rand) int64 {
	ids := h.sortedIDs()
	if len(ids) == 0 {
		return 1
	}
	// prefer recent ids (the older ones are long expired)
	if r.Chance(70) && len(ids) > 4 {
		ids = ids[len(ids)-4:]
	}
	return ids[r.Intn(len(ids))]
}

func (h *hist) opPar(r *lib.Rand, n int) {
	// Get only ids that exist already: then every answer is independent of the order in
	// which the goroutines get the mutex at this instant.
	items := make([]string, n)
	want := make([]int64, n)
	for i := range items {
		if r.Chance(55) {
			items[i] = "c"
		} else {
			want[i] = h.pickKnownID(r)
			if want[i] > h.maxID { // not generated yet (order dependent): use an existing id
				want[i] = h.maxID
			}
			if h.maxID == 0 {
				want[i] = 1
			}
			items[i] = fmt.Sprintf("g:%d", want[i])
		}
	}
	ans := h.do(fmt.Sprintf("prov.par %d %s", h.now, strings.Join(items, " ")))
	if !strings.HasPrefix(ans, "ok ") {
		h.fail("c12:par-failed", "parallel calls failed: "+ans, nil)
		return
	}
	parts := strings.Split(ans[3:], " | ")
	if len(parts) != n {
		h.fail("c12:par-failed", "parallel calls failed: "+ans, nil)
		return
	}
	h.c.Count("par:ops")
	firstCur := ""
	// Current answers first (they may introduce the key the Gets of this instant see)
	for pass := 0; pass < 2; pass++ {
		for i, p := range parts {
			if (items[i] == "c") != (pass == 0) {
				continue
			}
			id, nb, na, found, ok := parseKey(p)
			if !ok {
				h.fail("c12:par-failed", "parallel call failed: "+p, nil)
				continue
			}
			if items[i] == "c" {
				if !found {
					h.fail("c12:current-failed", "Current did not answer a key", nil)
					continue
				}
				if firstCur == "" {
					firstCur = p
				} else if p != firstCur {
					h.fail("c12:par-current-differs", "Current calls at the same instant returned different keys", map[string]any{"a": firstCur, "b": p})
				}
				h.checkCur(h.now, id, nb, na)
			} else {
				h.checkGet(h.now, want[i], id, nb, na, found)
			}
		}
	}
}

// advance moves the virtual clock: to a boundary of one of the model's comparisons, or by a
// gap between nothing and three weeks.
func (h *hist) advance(r *lib.Rand) {
	if r.Chance(45) && len(h.keys) > 0 {
		var cand []int64
		add := func(x int64) {
			for _, d := range []int64{-1, 0, 1} {
				if x+d >= h.now {
					cand = append(cand, x+d)
				}
			}
		}
		if k := h.keys[h.curID]; k != nil {
			add(k.nb + renewal)
			add(k.na)
			add(k.lastCur + window)
		}
		for _, id := range h.sortedIDs() {
			k := h.keys[id]
			if k.na+1 >= h.now {
				add(k.na)
				if k.lastCur >= 0 {
					add(k.lastCur + window)
				}
			}
		}
		if len(cand) > 0 {
			h.now = cand[r.Intn(len(cand))]
			h.c.Count("gap:to-boundary")
			return
		}
	}
	switch r.Intn(10) {
	case 0:
		h.c.Count("gap:none")
	case 1:
		h.now += r.Range(1, 1000)
		h.c.Count("gap:ns")
	case 2, 3:
		h.now += r.Range(1, 60_000) * int64(time.Millisecond)
		h.c.Count("gap:ms-to-minute")
	case 4, 5:
		h.now += r.Range(1, 24*3600) * int64(time.Second)
		h.c.Count("gap:up-to-a-day")
	case 6, 7:
		h.now += r.Range(int64(20*hour), int64(80*hour))
		h.c.Count("gap:1-3-days")
	case 8:
		if r.Chance(40) {
			h.now += r.Range(int64(3*day), int64(21*day))
			h.c.Count("gap:days-to-weeks")
		} else {
			h.now += r.Range(1, 12*3600) * int64(time.Second)
			h.c.Count("gap:up-to-a-day")
		}
	default:
		h.now += []int64{renewal, renewal + 1, validity, validity + 1, window, window + 1, validity - renewal}[r.Intn(7)]
		h.c.Count("gap:exact-constant")
	}
}

func history(c *lib.Ctx, n int, r *lib.Rand, nOps int, parMax int) {
	c.Comment(fmt.Sprintf("history %d", n))
	h := &hist{c: c, keys: map[int64]*keyInfo{}}
	h.now = []int64{0, 1, r.Range(0, int64(time.Second)), r.Range(0, int64(30*day))}[r.Intn(4)]
	if ans := h.do(fmt.Sprintf("prov.new %d", h.now)); ans != "ok" {
		h.fail("c12:new-failed", "NewProvider failed: "+ans, nil)
		return
	}
	for i := 0; i < nOps; i++ {
		h.advance(r)
		switch x := r.Intn(100); {
		case x < 42:
			h.opCur()
		case x < 45:
			// a short run: steps around the renewal interval and arbitrary ones
			step := []int64{renewal, renewal + 1, renewal - 1, r.Range(0, int64(hour)), r.Range(int64(hour), int64(4*day))}[r.Intn(5)]
			h.opCurs(r.Range(1, 40), step)
		case x < 80:
			h.opGet(h.pickKnownID(r))
		case x < 87:
			h.opGet([]int64{0, -1, h.maxID + 1, h.maxID + 2, 1, 1 << 40, -(1 << 62)}[r.Intn(7)])
		default:
			h.opPar(r, int(r.Range(2, int64(parMax))))
		}
	}
}

// longHistory: one provider object over ~180-240 years of virtual time with a call of Current
// in every renewal interval — more than 2^16 rotations (the width of the id field of a cookie),
// followed by ordinary ops (Gets of the oldest and the newest ids).
func longHistory(c *lib.Ctx, n int, r *lib.Rand) {
	c.Comment(fmt.Sprintf("history %d", n))
	h := &hist{c: c, keys: map[int64]*keyInfo{}}
	h.now = r.Range(0, int64(time.Second))
	if ans := h.do(fmt.Sprintf("prov.new %d", h.now)); ans != "ok" {
		h.fail("c12:new-failed", "NewProvider failed: "+ans, nil)
		return
	}
	h.opCur()
	h.opGet(1)
	h.now += r.Range(1, int64(renewal))
	h.opCurs(65536+r.Range(2, 600), renewal+r.Range(1, int64(4*hour)))
	for i := 0; i < 12; i++ {
		h.advance(r)
		switch r.Intn(4) {
		case 0:
			h.opCur()
		case 1:
			h.opGet(h.pickKnownID(r))
		case 2:
			h.opGet([]int64{1, 2, h.maxID & 0xffff, h.maxID - 65535, h.maxID - 65536}[r.Intn(5)])
		default:
			h.opCurs(r.Range(2, 10), renewal+1)
		}
	}
	c.Count("history:long-65536")
}

// ------------------------------------------------------------------ users of the provider

// issued is one batch of cookies handed out by newNTSKEMsg or by a listener.
type issued struct {
	id, nb, na int64 // the key the cookies name (as the provider reported it at sealing time)
	at         int64 // clock reading of the call that sealed them
	n          int
	known      bool // false: the provider did not know the key at sealing time
}

type uhist struct {
	*hist
	issues    []issued
	lastLsn   int64
	listeners bool
	dead      bool
}

// parseUse splits "open=<key> key=<key> n=<n>" / "open=<key> drop <r>" / "key=<key> n=<n>".
func parseUse(ans string) (open, key []string, n int, tail []string, ok bool) {
	f := strings.Fields(ans)
	if len(f) == 0 || f[0] != "ok" {
		return
	}
	f = f[1:]
	take := func(prefix string) ([]string, bool) {
		if len(f) == 0 || !strings.HasPrefix(f[0], prefix) {
			return nil, true
		}
		first := f[0][len(prefix):]
		if len(f) >= 2 && f[1] == "none" {
			f = f[2:]
			return []string{first, "none"}, true
		}
		if len(f) < 3 {
			return nil, false
		}
		out := []string{first, f[1], f[2]}
		f = f[3:]
		return out, true
	}
	var ok1, ok2 bool
	open, ok1 = take("open=")
	key, ok2 = take("key=")
	if !ok1 || !ok2 {
		return
	}
	if len(f) > 0 && strings.HasPrefix(f[0], "n=") {
		v, e := i64(f[0][2:])
		if !e {
			return
		}
		n = int(v)
		f = f[1:]
	}
	return open, key, n, f, true
}

func key3(k []string) (id, nb, na int64, found bool) {
	if len(k) == 0 {
		return
	}
	id, _ = i64(k[0])
	if len(k) == 3 {
		nb, _ = i64(k[1])
		na, _ = i64(k[2])
		found = true
	}
	return
}

// checkSealed: clause 1 of the statement on the key a user sealed cookies under at instant t
// (the provider's own view of that key at t), and the id binding.
func (h *uhist) checkSealed(who string, t int64, key []string, n int) (issued, bool) {
	id, nb, na, found := key3(key)
	d := map[string]any{"t": t, "user": who, "id": id, "nb": nb, "na": na, "cookies": n}
	if len(key) == 0 || n < 1 {
		h.fail("c12:use:no-cookies", who+" handed out no decodable cookies", d)
		return issued{}, false
	}
	if !found {
		h.fail("c12:use:seal-not-valid", who+" sealed cookies under a key the provider does not accept at that instant", d)
		return issued{id: id, at: t, n: n}, true
	}
	if !(nb <= t && t <= na) || na-nb != validity {
		h.fail("c12:use:seal-not-valid", who+" sealed cookies under a key outside its validity period", d)
	}
	if t-nb > renewal {
		h.fail("c12:use:seal-stale", who+" sealed cookies under a key generated more than 24 h before", d)
	}
	if t-nb == renewal {
		h.c.Count("use:boundary:sealed-at-renewal-exact")
	}
	if k, ok := h.keys[id]; ok {
		if k.nb != nb || k.na != na {
			h.fail("c12:id-rebound", "a key id is bound to two different validity periods", d)
		}
		k.lastCur = t
	} else {
		h.orderCheck(id, nb, d)
		h.keys[id] = &keyInfo{id: id, nb: nb, na: na, lastCur: t}
		if id > h.maxID {
			h.maxID = id
		}
	}
	h.curID = id
	return issued{id: id, nb: nb, na: na, at: t, n: n, known: true}, true
}

func (h *uhist) unusable(ans string) bool {
	if ans == "hang" || strings.HasPrefix(ans, "unavailable") {
		h.c.NotExecuted("c12 listeners under the virtual clock: " + ans)
		h.dead = true
		return true
	}
	return false
}

func (h *uhist) opKE() {
	ans := h.do(fmt.Sprintf("use.ke %d", h.now))
	if h.unusable(ans) {
		return
	}
	_, key, n, tail, ok := parseUse(ans)
	if !ok || len(tail) != 0 {
		h.fail("c12:use:ke-failed", "newNTSKEMsg did not answer cookies: "+ans, nil)
		return
	}
	h.c.Count("use:ke")
	if is, ok := h.checkSealed("newNTSKEMsg", h.now, key, n); ok {
		h.issues = append(h.issues, is)
	}
}

func (h *uhist) opNTP(r *lib.Rand, i int, t2 int64) {
	is := h.issues[i]
	lsn := h.lastLsn
	if !r.Chance(60) {
		lsn = r.Range(0, 15)
	}
	h.lastLsn = lsn
	ph := []int64{0, 0, 1, 3, 6, 6, r.Range(0, 6)}[r.Intn(7)]
	t1 := h.now
	ans := h.do(fmt.Sprintf("use.ntp %d %d.%d %d %d %d", lsn, i, r.Intn(is.n), ph, t1, t2))
	if h.unusable(ans) {
		return
	}
	open, key, n, tail, ok := parseUse(ans)
	d := map[string]any{"t1": t1, "t2": t2, "cookie-key": is.id, "cookie-issued-at": is.at, "answer": ans}
	if !ok || len(open) == 0 {
		h.fail("c12:use:ntp-failed", "the listener exchange failed: "+ans, d)
		return
	}
	served := len(key) > 0 && len(tail) == 0
	dropped := len(tail) == 2 && tail[0] == "drop"
	if !served && !dropped {
		h.fail("c12:use:ntp-failed", "the listener's reply is not a valid NTS response: "+ans, d)
		return
	}
	if t2 > t1 {
		h.c.Count("use:ntp:two-readings")
	}
	if is.known {
		if t1 <= is.at+window {
			if t1 == is.at+window {
				h.c.Count("use:boundary:cookie-at-issue+48h")
			}
			if !served {
				h.fail("c12:use:cookie-window-short", "a cookie handed out less than 48 h ago is refused by the listener", d)
			}
		}
		if t1 > is.nb+validity {
			if t1 == is.nb+validity+1 {
				h.c.Count("use:boundary:cookie-at-notAfter+1ns")
			}
			if served {
				h.fail("c12:use:cookie-window-long", "a cookie is still accepted more than 3 days after its key was generated", d)
			}
		}
	}
	if dropped {
		h.c.Count("use:ntp:dropped:" + tail[1])
		if tail[1] != "no-key" {
			h.fail("c12:use:unexpected-drop", "a genuine NTS request is dropped for another reason than an expired key: "+tail[1], d)
		}
		return
	}
	h.c.Count("use:ntp:served")
	oid, onb, ona, ofound := key3(open)
	if !ofound || oid != is.id || (is.known && (onb != is.nb || ona != is.na)) || !(onb <= t1 && t1 <= ona) {
		h.fail("c12:use:opened-not-valid", "the listener served a request whose cookie's key is not within its validity period (or is another key)", d)
	}
	h.now = t2
	if ni, ok := h.checkSealed("the listener", t2, key, n); ok {
		h.issues = append(h.issues, ni)
	}
}

// advanceUse: idle gaps of 0–100 h and jumps onto the boundaries of the window clauses.
func (h *uhist) advanceUse(r *lib.Rand) {
	if r.Chance(30) && len(h.issues) > 0 {
		var cand []int64
		add := func(x int64) {
			for _, d := range []int64{-1, 0, 1} {
				if x+d >= h.now {
					cand = append(cand, x+d)
				}
			}
		}
		if k := h.keys[h.curID]; k != nil {
			add(k.nb + renewal)
			add(k.na)
		}
		for _, is := range h.issues[max(0, len(h.issues)-4):] {
			add(is.at + window)
			add(is.nb + validity)
		}
		if len(cand) > 0 {
			h.now = cand[r.Intn(len(cand))]
			h.c.Count("use:gap:to-boundary")
			return
		}
	}
	switch r.Intn(10) {
	case 0:
		h.c.Count("use:gap:none")
	case 1:
		h.now += r.Range(1, 1_000_000)
		h.c.Count("use:gap:ns-ms")
	case 2, 3:
		h.now += r.Range(1, 20*3600) * int64(time.Second)
		h.c.Count("use:gap:up-to-20h")
	case 4, 5, 6:
		h.now += r.Range(int64(20*hour), int64(30*hour))
		h.c.Count("use:gap:20-30h")
	case 7, 8:
		h.now += r.Range(int64(30*hour), int64(72*hour))
		h.c.Count("use:gap:30-72h")
	default:
		h.now += r.Range(int64(72*hour), int64(100*hour))
		h.c.Count("use:gap:72-100h")
	}
}

// useHistory: key exchanges (real newNTSKEMsg) and NTS-protected NTP requests (real IP
// listeners, if the sandbox lets them run) with idle gaps between them; without listeners the NTP
// path is represented by direct Current/Get calls.
func useHistory(c *lib.Ctx, n int, r *lib.Rand, nOps int, listeners bool) bool {
	c.Comment(fmt.Sprintf("history %d", n))
	h := &uhist{hist: &hist{c: c, keys: map[int64]*keyInfo{}}, listeners: listeners}
	h.now = []int64{0, 1, r.Range(0, int64(time.Second))}[r.Intn(3)]
	first := "prov.new"
	if listeners {
		first = "use.new"
	}
	ans := h.do(fmt.Sprintf("%s %d", first, h.now))
	if h.unusable(ans) {
		return false
	}
	if ans != "ok" {
		h.fail("c12:new-failed", "NewProvider / StartIPServer failed: "+ans, nil)
		return false
	}
	for i := 0; i < nOps && !h.dead; i++ {
		if i > 0 || r.Chance(50) {
			h.advanceUse(r)
		}
		x := r.Intn(100)
		switch {
		case len(h.issues) == 0 || x < 30:
			h.opKE()
		case listeners:
			var i int
			switch y := r.Intn(100); {
			case y < 60:
				i = len(h.issues) - 1
			case y < 85:
				i = r.Intn(len(h.issues))
			default: // the oldest cookie that could still be accepted
				for i = 0; i < len(h.issues)-1 && h.issues[i].nb+validity+1 < h.now; i++ {
				}
			}
			t2 := h.now
			if r.Chance(25) {
				switch r.Intn(4) {
				case 0:
					t2 += r.Range(1, 1_000_000_000)
				case 1:
					t2 += r.Range(1, 30*3600) * int64(time.Second)
				case 2:
					if k := h.keys[h.curID]; k != nil && k.nb+renewal+1 >= h.now {
						t2 = k.nb + renewal + r.Range(0, 1)
					}
				default:
					t2 += []int64{renewal, renewal + 1, window, validity + 1}[r.Intn(4)]
				}
				t2 = max(t2, h.now)
			}
			h.opNTP(r, i, t2)
		case x < 70:
			h.opCur()
		default:
			h.opGet(h.pickKnownID(r))
		}
	}
	return !h.dead
}

func gen(c *lib.Ctx) {
	defer stopBubble()
	nh := c.Scale(250, 2500)
	for n := 0; n < nh; n++ {
		r := c.Rand.Fork(fmt.Sprintf("h%d", n))
		history(c, n, r, int(r.Range(10, 70)), c.Scale(6, 24))
	}
	// long-lived provider: one history spanning years with day-sized gaps
	for n := 0; n < c.Scale(2, 10); n++ {
		r := c.Rand.Fork(fmt.Sprintf("long%d", n))
		history(c, nh+n, r, c.Scale(600, 3000), 4)
	}
	// the users of the provider: key exchanges only, then key exchanges and listeners
	for n := 0; n < c.Scale(1, 3); n++ {
		r := c.Rand.Fork(fmt.Sprintf("long%d", n))
		longHistory(c, 9000+n, r)
	}
	base := nh + c.Scale(2, 10)
	for n := 0; n < c.Scale(60, 600); n++ {
		r := c.Rand.Fork(fmt.Sprintf("use-ke%d", n))
		useHistory(c, base+n, r, int(r.Range(4, 24)), false)
	}
	base += c.Scale(60, 600)
	for n := 0; n < c.Scale(60, 500); n++ {
		r := c.Rand.Fork(fmt.Sprintf("use-lsn%d", n))
		if !useHistory(c, base+n, r, int(r.Range(4, 24)), true) {
			break
		}
	}
}

func main() { lib.Main(exec, gen) }
