// listener.go: the three users of the key provider under the bubble's virtual clock.
//
//   - newNTSKEMsg (core/server/ntske.go, through the hook VerifC20NewNTSKEMsg): called directly.
//   - runIPServer (core/server/server_ip.go): the real listeners, started with the exported
//     server.StartIPServer INSIDE the bubble on a private loopback address. A goroutine that sits
//     in a network read is not durably blocked, and virtual time only moves while every
//     goroutine of the bubble is; so before the clock is advanced every listener goroutine is
//     parked inside the slog.Handler the listeners log to (a junk datagram makes a listener emit
//     "failed to decode packet payload"; the handler blocks it on a channel of the bubble) and
//     released afterwards. A request can also be parked at its "received request" record, i.e.
//     between provider.Get (cookie opened) and provider.Current (fresh cookies sealed), so that the
//     two clock readings of one loop iteration differ.
//   - runSCIONServer: not run here (see notes/C12.md); its key use is tied to runIPServer's by the
//     extractor facts (harness/extract/x_c12.go).
//
// Listener goroutines are told apart by their goroutine id (the kernel spreads datagrams over
// the SO_REUSEPORT sockets by the client's source port: one client socket per listener is found
// by probing).
package main

import (
	"bufio"
	"bytes"
	"context"
	"crypto/rand"
	"fmt"
	"io"
	"log/slog"
	"net"
	"os"
	"runtime"
	"strconv"
	"strings"
	"sync"
	"sync/atomic"
	"time"

	"github.com/prometheus/client_golang/prometheus"

	"example.com/scion-time/core/server"
	"example.com/scion-time/core/timebase"
	"example.com/scion-time/net/ntp"
	"example.com/scion-time/net/nts"
	"example.com/scion-time/net/ntske"
)

// ------------------------------------------------------------------ clock for handleRequest

type bubbleClock struct{}

func (bubbleClock) Epoch() uint64                                { return 0 }
func (bubbleClock) Now() time.Time                               { return time.Now() }
func (bubbleClock) Drift(time.Duration) time.Duration            { return 0 }
func (bubbleClock) Step(time.Duration)                           {}
func (bubbleClock) Adjust(time.Duration, time.Duration, float64) {}
func (bubbleClock) Sleep(d time.Duration)                        { time.Sleep(d) }

var clockOnce sync.Once

var dbg = os.Getenv("C12_DEBUG") != ""

// ------------------------------------------------------------------ gate handler

func goid() uint64 {
	var buf [64]byte
	n := runtime.Stack(buf[:], false)
	f := strings.Fields(string(buf[:n]))
	if len(f) < 2 {
		return 0
	}
	id, _ := strconv.ParseUint(f[1], 10, 64)
	return id
}

type lsnEvent struct {
	gid uint64
	msg string
}

type round struct{ release chan struct{} }

type listeners struct {
	n          int
	addr       *net.UDPAddr
	socks      []*net.UDPConn // socks[i] reaches listener i
	gids       []uint64
	idx        map[uint64]int
	events     chan lsnEvent
	owner      uint64 // goroutine of the bubble's op interpreter (never parked)
	parkJunk   atomic.Bool
	round      atomic.Pointer[round]
	parkReq    atomic.Bool
	reqRelease chan struct{}
	quit       atomic.Bool
	extra      []*net.UDPConn
}

const (
	msgJunk     = "failed to decode packet payload"
	msgReceived = "received request"
)

type gateHandler struct{ L *listeners }

func (h gateHandler) Enabled(context.Context, slog.Level) bool { return true }
func (h gateHandler) WithAttrs([]slog.Attr) slog.Handler       { return h }
func (h gateHandler) WithGroup(string) slog.Handler            { return h }
func (h gateHandler) Handle(_ context.Context, r slog.Record) error {
	L := h.L
	g := goid()
	if g == L.owner {
		return nil
	}
	if L.quit.Load() {
		runtime.Goexit() // the listeners have no way to end; their deferred conn.Close() runs
	}
	switch r.Message {
	case msgJunk:
		rd := L.round.Load()
		park := L.parkJunk.Load()
		L.events <- lsnEvent{g, r.Message}
		if park && rd != nil {
			<-rd.release
			if L.quit.Load() {
				runtime.Goexit()
			}
		}
	case msgReceived:
		park := L.parkReq.CompareAndSwap(true, false)
		if park {
			L.events <- lsnEvent{g, r.Message + " (parked)"}
			<-L.reqRelease
		} else {
			L.events <- lsnEvent{g, r.Message}
		}
	default:
		L.events <- lsnEvent{g, r.Message}
	}
	return nil
}

// listenerGoroutines returns the ids of the live goroutines that StartIPServer started from
// goroutine owner (each one runs runIPServer).
func listenerGoroutines(owner uint64) map[uint64]bool {
	buf := make([]byte, 1<<20)
	for {
		n := runtime.Stack(buf, true)
		if n < len(buf) {
			buf = buf[:n]
			break
		}
		buf = make([]byte, 2*len(buf))
	}
	mark := fmt.Sprintf("core/server.StartIPServer in goroutine %d\n", owner)
	out := map[uint64]bool{}
	for _, g := range strings.Split(string(buf)+"\n", "\n\n") {
		if !strings.Contains(g+"\n", mark) {
			continue
		}
		f := strings.Fields(g)
		if len(f) >= 2 && f[0] == "goroutine" {
			if id, err := strconv.ParseUint(f[1], 10, 64); err == nil {
				out[id] = true
			}
		}
	}
	return out
}

var addrCounter atomic.Uint32

// startListeners starts the real IP listeners of core/server in the current bubble.
func startListeners(p *ntske.Provider) (*listeners, error) {
	clockOnce.Do(func() { timebase.RegisterClock(bubbleClock{}) })
	L := &listeners{
		idx:        map[uint64]int{},
		events:     make(chan lsnEvent, 1<<14),
		owner:      goid(),
		reqRelease: make(chan struct{}),
	}
	// a private loopback address (all of 127/8 is local): no other process of this machine
	// binds ports there, so the port found free stays free until the listeners bind it
	var raw [2]byte
	rand.Read(raw[:])
	ip := net.IPv4(127, 37+byte(addrCounter.Add(1)%64), raw[0], 1+raw[1]%254)
	probe, err := net.ListenUDP("udp", &net.UDPAddr{IP: ip})
	if err != nil {
		return nil, err
	}
	L.addr = &net.UDPAddr{IP: ip, Port: probe.LocalAddr().(*net.UDPAddr).Port}
	probe.Close()

	// StartIPServer registers its metrics with the default registry: a fresh one per start
	prometheus.DefaultRegisterer = prometheus.NewRegistry()
	server.StartIPServer(context.Background(), slog.New(gateHandler{L}), L.addr, 0, p)
	L.n = len(listenerGoroutines(L.owner))
	if L.n <= 0 {
		return nil, fmt.Errorf("no listener goroutine found")
	}
	// one client socket per listener goroutine
	for try := 0; try < 4096 && len(L.socks) < L.n; try++ {
		c, err := net.DialUDP("udp", nil, L.addr)
		if err != nil {
			return nil, err
		}
		if _, err := c.Write([]byte{0}); err != nil {
			return nil, err
		}
		ev := L.waitFor(0, msgJunk)
		if dbg {
			fmt.Fprintf(os.Stderr, "discovery: try %d port %d -> goroutine %d (events pending %d)\n", try, c.LocalAddr().(*net.UDPAddr).Port, ev.gid, len(L.events))
		}
		if _, known := L.idx[ev.gid]; known {
			L.extra = append(L.extra, c)
			continue
		}
		L.idx[ev.gid] = len(L.socks)
		L.gids = append(L.gids, ev.gid)
		L.socks = append(L.socks, c)
	}
	for _, c := range L.extra {
		c.Close()
	}
	L.extra = nil
	if len(L.socks) < L.n {
		return nil, fmt.Errorf("reached only %d of %d listeners", len(L.socks), L.n)
	}
	return L, nil
}

// waitFor returns the next event with message msg (of listener goroutine gid, 0 = any).
func (L *listeners) waitFor(gid uint64, msg string) lsnEvent {
	for ev := range L.events {
		if ev.msg == msg && (gid == 0 || ev.gid == gid) {
			return ev
		}
	}
	panic("unreachable")
}

// sleep advances the virtual clock by d with every listener parked; the listener with goroutine
// id `held` (0: none) is already parked elsewhere.
func (L *listeners) sleep(d time.Duration, held uint64) {
	rd := &round{release: make(chan struct{})}
	L.round.Store(rd)
	L.parkJunk.Store(true)
	want := 0
	for i, c := range L.socks {
		if L.gids[i] == held {
			continue
		}
		if _, err := c.Write([]byte{0}); err != nil {
			panic(err)
		}
		want++
	}
	for got := 0; got < want; {
		ev := <-L.events
		if dbg {
			fmt.Fprintf(os.Stderr, "sleep: event %d %q (listener %d)\n", ev.gid, ev.msg, L.idx[ev.gid])
		}
		if ev.msg == msgJunk {
			got++
		}
	}
	time.Sleep(d)
	L.parkJunk.Store(false)
	close(rd.release)
}

// stop ends the listener goroutines (so that the bubble can end).
func (L *listeners) stop() {
	L.quit.Store(true)
	for _, c := range L.socks {
		c.Write([]byte{0})
	}
	for i := 0; i < 1000000 && len(listenerGoroutines(L.owner)) > 0; i++ {
		runtime.Gosched()
		if i%200 == 199 {
			for _, c := range L.socks {
				c.Write([]byte{0})
			}
		}
	}
	for _, c := range L.socks {
		c.Close()
	}
}

// ------------------------------------------------------------------ the use.* ops

// issue is one batch of cookies handed out together (one key exchange message or one NTP reply).
type issue struct {
	c2s, s2c []byte
	cookies  [][]byte
}

type useState struct {
	issues []issue
}

var aLongTimeAgo = time.Unix(1, 0)

var dropNames = map[string]string{
	"failed to decode NTS packet":          "nts-decode",
	"failed to get cookie":                 "no-cookie",
	"failed to decode cookie":              "cookie-decode",
	"failed to get key":                    "no-key",
	"failed to decrypt cookie":             "cookie-decrypt",
	"failed to process NTS packet":         "auth",
	"failed to validate packet payload":    "ntp-invalid",
	"failed to add at least one cookie":    "no-cookies-added",
	"failed to write packet":               "write",
	"failed to decode packet payload":      "ntp-decode",
}

func (b *bstate) fmtGet(id int) string {
	k, ok := b.p.Get(id)
	if !ok {
		return fmt.Sprintf("%d none", id)
	}
	b.note(k)
	return fmtKey(k, b.start)
}

// sealedUnder decodes the cookies of one issue: all of them must name the same key id, and must
// open under that key (looked up at the provider now) to the association's keys.
func (b *bstate) sealedUnder(cookies [][]byte, c2s, s2c []byte) (string, bool) {
	if len(cookies) == 0 {
		return "none", false
	}
	id := -1
	for _, c := range cookies {
		var ec ntske.EncryptedServerCookie
		if err := ec.Decode(c); err != nil {
			return "undecodable", false
		}
		if id >= 0 && int(ec.ID) != id {
			return "mixed", false
		}
		id = int(ec.ID)
	}
	if k, ok := b.p.Get(id); ok {
		for _, c := range cookies {
			var ec ntske.EncryptedServerCookie
			ec.Decode(c)
			sc, err := ec.Decrypt(k.Value)
			if err != nil || !bytes.Equal(sc.C2S, c2s) || !bytes.Equal(sc.S2C, s2c) {
				selfFails = append(selfFails, fmt.Sprintf("a cookie naming key %d does not open under that key to the association's keys", id))
				break
			}
		}
	}
	return b.fmtGet(id), true
}

func (b *bstate) useOp(t []string) string {
	switch {
	case t[0] == "use.new" && len(t) == 2:
		at, ok := i64(t[1])
		if !ok || at < 0 || b.p != nil || !b.sleepTo(at) {
			return "bad-op"
		}
		b.p = ntske.NewProvider()
		L, err := startListeners(b.p)
		if err != nil {
			return "unavailable " + strings.ReplaceAll(err.Error(), " ", "_")
		}
		b.ls = L
		return "ok"
	case t[0] == "use.ke" && len(t) == 2:
		at, ok := i64(t[1])
		if !ok || b.p == nil || !b.sleepTo(at) {
			return "bad-op"
		}
		return b.useKE()
	case t[0] == "use.ntp" && len(t) == 6:
		lsn, ok1 := i64(t[1])
		ref := strings.Split(t[2], ".")
		ph, ok3 := i64(t[3])
		t1, ok4 := i64(t[4])
		t2, ok5 := i64(t[5])
		if !ok1 || len(ref) != 2 || !ok3 || !ok4 || !ok5 || b.p == nil || b.ls == nil || lsn < 0 || ph < 0 || ph > 6 || t2 < t1 {
			return "bad-op"
		}
		is, oka := i64(ref[0])
		j, okb := i64(ref[1])
		if !oka || !okb || is < 0 || is >= int64(len(b.use.issues)) || j < 0 || j >= int64(len(b.use.issues[is].cookies)) {
			return "bad-op"
		}
		if t1 < b.last {
			return "bad-op"
		}
		return b.useNTP(int(lsn)%b.ls.n, b.use.issues[is], int(j), int(ph), t1, t2)
	}
	return "bad-op"
}

// useKE: the NTS-KE server's answer to one key exchange (newNTSKEMsg), decoded with the client's
// own record reader.
func (b *bstate) useKE() string {
	data := ntske.Data{C2sKey: make([]byte, 32), S2cKey: make([]byte, 32)}
	rand.Read(data.C2sKey)
	rand.Read(data.S2cKey)
	log := slog.New(slog.NewTextHandler(io.Discard, nil))
	msg, err := server.VerifC20NewNTSKEMsg(context.Background(), log, net.IPv4(127, 0, 0, 1), 4460, &data, b.p)
	if err != nil {
		return "err msg"
	}
	buf, err := msg.Pack()
	if err != nil {
		return "err pack"
	}
	var got ntske.Data
	if err := ntske.ReadData(context.Background(), log, bufio.NewReader(bytes.NewReader(buf.Bytes())), &got); err != nil {
		return "err read"
	}
	key, ok := b.sealedUnder(got.Cookie, data.C2sKey, data.S2cKey)
	if !ok {
		return "ok key=" + key + " n=" + strconv.Itoa(len(got.Cookie))
	}
	b.use.issues = append(b.use.issues, issue{c2s: data.C2sKey, s2c: data.S2cKey, cookies: got.Cookie})
	return fmt.Sprintf("ok key=%s n=%d", key, len(got.Cookie))
}

// useNTP: one NTS-protected NTP request (built by the client's nts.NewRequestPacket) served by
// listener goroutine lsn: received (cookie opened) at virtual offset t1, answered (fresh cookies
// sealed) at t2.
func (b *bstate) useNTP(lsn int, is issue, j, ph int, t1, t2 int64) string {
	L := b.ls
	if !b.sleepTo(t1) {
		return "bad-op"
	}
	var ec ntske.EncryptedServerCookie
	if err := ec.Decode(is.cookies[j]); err != nil {
		return "bad-op"
	}
	open := b.fmtGet(int(ec.ID))

	var ntpreq ntp.Packet
	ntpreq.SetVersion(ntp.VersionMax)
	ntpreq.SetMode(ntp.ModeClient)
	ntpreq.TransmitTime = ntp.Time64FromTime(time.Now())
	var buf []byte
	ntp.EncodePacket(&buf, &ntpreq)
	pool := make([][]byte, 8-ph)
	for i := range pool {
		pool[i] = is.cookies[j]
	}
	ntsreq, reqID := nts.NewRequestPacket(ntske.Data{C2sKey: is.c2s, S2cKey: is.s2c, Cookie: pool})
	if len(ntsreq.CookiePlaceholders) != ph {
		return "bad-op"
	}
	nts.EncodePacket(&buf, &ntsreq)

	conn := L.socks[lsn]
	gid := L.gids[lsn]
	for len(L.events) > 0 { // leftovers of earlier ops
		<-L.events
	}
	twoPhase := t2 > t1
	if twoPhase {
		L.parkReq.Store(true)
	}
	if _, err := conn.Write(buf); err != nil {
		panic(err)
	}
	type rd struct {
		b   []byte
		err error
	}
	var resCh chan rd
	startRead := func() {
		resCh = make(chan rd, 1)
		go func() {
			rb := make([]byte, 4096)
			n, err := conn.Read(rb)
			resCh <- rd{rb[:n], err}
		}()
	}
	drop := func(reason string) string {
		L.parkReq.Store(false)
		if resCh != nil {
			conn.SetReadDeadline(aLongTimeAgo)
			<-resCh
			conn.SetReadDeadline(time.Time{})
		}
		b.last = int64(time.Since(b.start))
		return "ok open=" + open + " drop " + reason
	}
	// until the request is accepted ("received request") or refused
	for accepted := false; !accepted; {
		ev := <-L.events
		if ev.gid != gid {
			continue
		}
		switch {
		case ev.msg == msgReceived+" (parked)":
			L.sleep(time.Duration(t2)-time.Since(b.start), gid)
			if int64(time.Since(b.start)) != t2 {
				panic("virtual clock not at the requested offset")
			}
			startRead()
			L.reqRelease <- struct{}{}
			accepted = true
		case ev.msg == msgReceived:
			startRead()
			accepted = true
		default:
			if name, ok := dropNames[ev.msg]; ok {
				return drop(name)
			}
		}
	}
	b.last = t2
	var resp []byte
	for resp == nil {
		select {
		case r := <-resCh:
			if r.err != nil {
				resCh = nil
				return drop("read-error")
			}
			resp = r.b
		case ev := <-L.events:
			if name, ok := dropNames[ev.msg]; ok && ev.gid == gid {
				return drop(name)
			}
		}
	}
	var ntpresp ntp.Packet
	if err := ntp.DecodePacket(&ntpresp, resp); err != nil {
		return "ok open=" + open + " reply ntp-undecodable"
	}
	var ntsresp nts.Packet
	if err := nts.DecodePacket(&ntsresp, resp); err != nil {
		return "ok open=" + open + " reply nts-undecodable"
	}
	var f ntske.Fetcher
	if err := nts.ProcessResponse(resp, is.s2c, &f, &ntsresp, reqID); err != nil {
		return "ok open=" + open + " reply unauthenticated"
	}
	var cookies [][]byte
	for _, c := range ntsresp.Cookies {
		cookies = append(cookies, append([]byte(nil), c.Cookie...))
	}
	key, ok := b.sealedUnder(cookies, is.c2s, is.s2c)
	if ok {
		b.use.issues = append(b.use.issues, issue{c2s: is.c2s, s2c: is.s2c, cookies: cookies})
	}
	return fmt.Sprintf("ok open=%s key=%s n=%d", open, key, len(cookies))
}
