package main

import (
	"bytes"
	"fmt"
	"go/ast"
	"go/printer"
	"go/token"
	"path/filepath"
	"sort"
	"strings"
)

// C12 lock discipline of net/ntske.Provider (the model treats the provider as a sequential
// state machine whose operations are ordered by their clock readings):
//   - every method with receiver *Provider except generateNext starts with `p.mu.Lock()`
//     followed by `defer p.mu.Unlock()`, and reads time.Now() only after that;
//   - generateNext (which does not lock) is called only from Current and NewProvider;
//   - the fields keys/currentID/generatedAt are touched only inside those functions.
func init() {
	registerFact(func(repo string, parsed map[string][]*ast.File, fset *token.FileSet) {
		files := parsed["net/ntske"]
		if files == nil {
			broken("C12: package net/ntske not parsed")
			return
		}
		isSel := func(e ast.Expr, path ...string) bool {
			// path: e.g. p mu Lock  => p.mu.Lock
			for i := len(path) - 1; i >= 1; i-- {
				s, ok := e.(*ast.SelectorExpr)
				if !ok || s.Sel.Name != path[i] {
					return false
				}
				e = s.X
			}
			id, ok := e.(*ast.Ident)
			return ok && id.Name == path[0]
		}
		methods := 0
		for _, f := range files {
			for _, d := range f.Decls {
				fd, ok := d.(*ast.FuncDecl)
				if !ok || fd.Body == nil {
					continue
				}
				recv := ""
				recvType := ""
				if fd.Recv != nil && len(fd.Recv.List) == 1 {
					t := fd.Recv.List[0].Type
					if s, ok := t.(*ast.StarExpr); ok {
						t = s.X
					}
					if id, ok := t.(*ast.Ident); ok {
						recvType = id.Name
					}
					if len(fd.Recv.List[0].Names) == 1 {
						recv = fd.Recv.List[0].Names[0].Name
					}
				}
				name := fd.Name.Name
				inProvider := recvType == "Provider"
				// calls of generateNext and uses of the protected fields
				ast.Inspect(fd.Body, func(n ast.Node) bool {
					switch x := n.(type) {
					case *ast.CallExpr:
						if s, ok := x.Fun.(*ast.SelectorExpr); ok && s.Sel.Name == "generateNext" {
							if !(inProvider && name == "Current") && name != "NewProvider" {
								broken("C12: generateNext is called from %s (expected only Current and NewProvider)", name)
							}
						}
					case *ast.SelectorExpr:
						switch x.Sel.Name {
						case "keys", "currentID", "generatedAt":
							if !inProvider && name != "NewProvider" {
								broken("C12: Provider field %s is used in %s, outside the Provider methods", x.Sel.Name, name)
							}
						}
					}
					return true
				})
				if !inProvider || name == "generateNext" {
					continue
				}
				methods++
				st := fd.Body.List
				okLock := false
				if len(st) >= 2 {
					if es, ok := st[0].(*ast.ExprStmt); ok {
						if c, ok := es.X.(*ast.CallExpr); ok && isSel(c.Fun, recv, "mu", "Lock") {
							if ds, ok := st[1].(*ast.DeferStmt); ok && isSel(ds.Call.Fun, recv, "mu", "Unlock") {
								okLock = true
							}
						}
					}
				}
				if !okLock {
					broken("C12: method Provider.%s does not start with %s.mu.Lock(); defer %s.mu.Unlock()", name, recv, recv)
				}
			}
		}
		if methods < 2 {
			broken("C12: expected at least the methods Provider.Get and Provider.Current, found %d locked methods", methods)
		}
		for _, n := range []string{"Provider.Get", "Provider.Current", "Provider.generateNext", "NewProvider"} {
			if findFunc(files, n) == nil {
				broken("C12: function %s not found in net/ntske", n)
			}
		}
	})
}

// ---------------------------------------------------------------------------------------------
// C12 key USE in core/server. The provider's contract (Props/C12.lean) speaks about the key
// `Current()` returns at the instant it is called and about `Get(id)`; whether a cookie is
// sealed under a fresh key also depends on how the three users obtain the key they seal with:
// runIPServer, runSCIONServer (NTS branch of the receive loop) and newNTSKEMsg. Exported (and
// pinned by C12_pin_keyUse_* in Props/C12.lean) per user:
//
//   - for every `….EncryptWithNonce(K.Value, K.ID)`: the complete provenance of K — every
//     definition of and assignment to K (followed through plain identifier copies), each with
//     its right-hand side and whether it lies inside the receive loop (`@loop`, i.e. is executed
//     in the same iteration) or outside (`@func`);
//   - for every `E.Decrypt(K.Value)`: the provenance of K, and whether the second result of the
//     defining `provider.Get(…)` is tested by the directly following `if !ok { …; continue }`;
//
// and for the package: every method called on a *ntske.Provider, per function, every other use
// of such a value (aliasing), and package-level variables holding keys or providers.
// ---------------------------------------------------------------------------------------------

func c12Text(fset *token.FileSet, n ast.Node) string {
	var b bytes.Buffer
	printer.Fprint(&b, fset, n)
	return strings.Join(strings.Fields(b.String()), "")
}

type c12Def struct {
	rhs   string
	ident *ast.Ident // non-nil if the right-hand side is a plain identifier
	pos   token.Pos
	stmt  ast.Stmt
}

// c12Defs collects every definition of / assignment to the variable obj in body.
func c12Defs(fset *token.FileSet, body *ast.BlockStmt, obj *ast.Object) []c12Def {
	var out []c12Def
	rhsOf := func(lhsIdx, nLhs int, rhs []ast.Expr) (string, *ast.Ident) {
		switch {
		case len(rhs) == nLhs:
			id, _ := rhs[lhsIdx].(*ast.Ident)
			return c12Text(fset, rhs[lhsIdx]), id
		case len(rhs) == 1:
			return fmt.Sprintf("%s#%d", c12Text(fset, rhs[0]), lhsIdx), nil
		case len(rhs) == 0:
			return "", nil
		}
		return "?", nil
	}
	ast.Inspect(body, func(n ast.Node) bool {
		switch x := n.(type) {
		case *ast.AssignStmt:
			for i, l := range x.Lhs {
				if id, ok := l.(*ast.Ident); ok && id.Obj == obj {
					r, rid := rhsOf(i, len(x.Lhs), x.Rhs)
					if x.Tok != token.DEFINE && x.Tok != token.ASSIGN {
						r = x.Tok.String() + r
					}
					out = append(out, c12Def{rhs: r, ident: rid, pos: x.Pos(), stmt: x})
				}
			}
		case *ast.ValueSpec:
			for i, id := range x.Names {
				if id.Obj == obj {
					r, rid := rhsOf(i, len(x.Names), x.Values)
					if len(x.Values) == 0 {
						r = "zero(" + c12Text(fset, x.Type) + ")"
					}
					out = append(out, c12Def{rhs: r, ident: rid, pos: x.Pos()})
				}
			}
		case *ast.RangeStmt:
			for _, l := range []ast.Expr{x.Key, x.Value} {
				if id, ok := l.(*ast.Ident); ok && id.Obj == obj {
					out = append(out, c12Def{rhs: "range(" + c12Text(fset, x.X) + ")", pos: x.Pos()})
				}
			}
		case *ast.UnaryExpr:
			if id, ok := x.X.(*ast.Ident); ok && x.Op == token.AND && id.Obj == obj {
				out = append(out, c12Def{rhs: "address-taken", pos: x.Pos()})
			}
		}
		return true
	})
	return out
}

// c12Provenance renders where the value of identifier id comes from.
func c12Provenance(fset *token.FileSet, fd *ast.FuncDecl, loop *ast.ForStmt, id *ast.Ident, depth int) string {
	if id.Obj == nil {
		return id.Name + "<-unresolved"
	}
	if depth > 6 {
		return id.Name + "<-…"
	}
	var parts []string
	defs := c12Defs(fset, fd.Body, id.Obj)
	if len(defs) == 0 {
		parts = append(parts, "parameter-or-outer")
	}
	for _, d := range defs {
		where := "@func"
		if loop != nil && d.pos >= loop.Body.Pos() && d.pos < loop.Body.End() {
			where = "@loop"
		}
		s := d.rhs + where
		if d.ident != nil && d.ident.Obj != nil && d.ident.Obj != id.Obj {
			s += "{" + c12Provenance(fset, fd, loop, d.ident, depth+1) + "}"
		}
		parts = append(parts, s)
	}
	return id.Name + "<-" + strings.Join(parts, "|")
}

// c12ReceiveLoop returns the outermost `for { … }` of fd (nil if there is none).
func c12ReceiveLoop(fd *ast.FuncDecl) *ast.ForStmt {
	var loop *ast.ForStmt
	ast.Inspect(fd.Body, func(n ast.Node) bool {
		if loop != nil {
			return false
		}
		if f, ok := n.(*ast.ForStmt); ok && f.Cond == nil && f.Init == nil && f.Post == nil {
			loop = f
			return false
		}
		return true
	})
	return loop
}

// c12OkChecked: the statement directly after `K, ok := provider.Get(…)` is
// `if !ok { …; continue }` (or `…; return`).
func c12OkChecked(fd *ast.FuncDecl, def ast.Stmt) string {
	as, ok := def.(*ast.AssignStmt)
	if !ok || len(as.Lhs) != 2 {
		return "ok-not-bound"
	}
	okID, _ := as.Lhs[1].(*ast.Ident)
	if okID == nil || okID.Name == "_" {
		return "ok-discarded"
	}
	res := "ok-unchecked"
	ast.Inspect(fd.Body, func(n ast.Node) bool {
		blk, isBlk := n.(*ast.BlockStmt)
		if !isBlk {
			return true
		}
		for i, st := range blk.List {
			if st != def || i+1 >= len(blk.List) {
				continue
			}
			ifs, isIf := blk.List[i+1].(*ast.IfStmt)
			if !isIf || ifs.Init != nil || ifs.Else != nil || len(ifs.Body.List) == 0 {
				continue
			}
			u, isNot := ifs.Cond.(*ast.UnaryExpr)
			if !isNot || u.Op != token.NOT {
				continue
			}
			if c, isID := u.X.(*ast.Ident); !isID || c.Obj != okID.Obj {
				continue
			}
			switch last := ifs.Body.List[len(ifs.Body.List)-1].(type) {
			case *ast.BranchStmt:
				if last.Tok == token.CONTINUE && last.Label == nil {
					res = "ok-checked"
				}
			case *ast.ReturnStmt:
				res = "ok-checked"
			}
		}
		return true
	})
	return res
}

func c12KeyUse(fset *token.FileSet, fd *ast.FuncDecl) string {
	loop := c12ReceiveLoop(fd)
	var opens, seals []string
	selOf := func(e ast.Expr, field string) *ast.Ident {
		s, ok := e.(*ast.SelectorExpr)
		if !ok || s.Sel.Name != field {
			return nil
		}
		id, _ := s.X.(*ast.Ident)
		return id
	}
	inLoop := func(p token.Pos) string {
		if loop != nil && p >= loop.Body.Pos() && p < loop.Body.End() {
			return "@loop"
		}
		return "@func"
	}
	ast.Inspect(fd.Body, func(n ast.Node) bool {
		call, ok := n.(*ast.CallExpr)
		if !ok {
			return true
		}
		se, ok := call.Fun.(*ast.SelectorExpr)
		if !ok {
			return true
		}
		switch se.Sel.Name {
		case "EncryptWithNonce", "Encrypt":
			if len(call.Args) != 2 {
				seals = append(seals, "seal"+inLoop(call.Pos())+":"+c12Text(fset, call))
				return true
			}
			k, kid := selOf(call.Args[0], "Value"), selOf(call.Args[1], "ID")
			if k == nil || kid == nil || k.Obj == nil || k.Obj != kid.Obj {
				seals = append(seals, "seal"+inLoop(call.Pos())+":"+c12Text(fset, call))
				return true
			}
			seals = append(seals, "seal"+inLoop(call.Pos())+":"+c12Provenance(fset, fd, loop, k, 0))
		case "Decrypt":
			recv := c12Text(fset, se.X)
			if len(call.Args) != 1 {
				opens = append(opens, "open"+inLoop(call.Pos())+":"+c12Text(fset, call))
				return true
			}
			k := selOf(call.Args[0], "Value")
			if k == nil || k.Obj == nil {
				opens = append(opens, "open"+inLoop(call.Pos())+":"+c12Text(fset, call))
				return true
			}
			prov := c12Provenance(fset, fd, loop, k, 0)
			prov = strings.ReplaceAll(prov, recv+".ID", "<cookie>.ID")
			chk := "ok-unchecked"
			if defs := c12Defs(fset, fd.Body, k.Obj); len(defs) == 1 && defs[0].stmt != nil {
				chk = c12OkChecked(fd, defs[0].stmt)
			}
			opens = append(opens, "open"+inLoop(call.Pos())+":"+prov+","+chk)
		}
		return true
	})
	return strings.Join(append(opens, seals...), ";")
}

func init() {
	registerLocals("core/server", func(files []*ast.File, fset *token.FileSet) []string {
		var out []string
		for _, fn := range []string{"runIPServer", "runSCIONServer", "newNTSKEMsg"} {
			fd := findFunc(files, fn)
			if fd == nil || fd.Body == nil {
				broken("C12: core/server function %s not found (key use)", fn)
				continue
			}
			out = append(out, fmt.Sprintf("def c12KeyUse_%s : String := %s", fn, leanString(c12KeyUse(fset, fd))))
		}
		// every use of a *ntske.Provider value in the package
		isProviderType := func(e ast.Expr) bool {
			t := c12Text(fset, e)
			return t == "*ntske.Provider" || t == "ntske.Provider"
		}
		mentionsKeyOrProvider := func(e ast.Expr) bool {
			if e == nil {
				return false
			}
			t := c12Text(fset, e)
			return strings.Contains(t, "ntske.Key") || strings.Contains(t, "ntske.Provider")
		}
		var uses []string
		for _, f := range files {
			name := filepath.Base(fset.Position(f.Pos()).Filename)
			if strings.HasSuffix(name, "_test.go") || strings.HasPrefix(name, "verif_") {
				continue
			}
			for _, d := range f.Decls {
				switch x := d.(type) {
				case *ast.GenDecl:
					if x.Tok != token.VAR {
						continue
					}
					for _, sp := range x.Specs {
						vs := sp.(*ast.ValueSpec)
						hit := mentionsKeyOrProvider(vs.Type)
						for _, v := range vs.Values {
							hit = hit || mentionsKeyOrProvider(v)
						}
						if hit {
							for _, n := range vs.Names {
								uses = append(uses, "pkgvar:"+n.Name)
							}
						}
					}
				case *ast.FuncDecl:
					if x.Body == nil {
						continue
					}
					provs := map[*ast.Object]bool{}
					if x.Type.Params != nil {
						for _, p := range x.Type.Params.List {
							if isProviderType(p.Type) {
								for _, n := range p.Names {
									provs[n.Obj] = true
								}
							}
						}
					}
					// local variables declared with a provider type or initialised from a provider
					ast.Inspect(x.Body, func(n ast.Node) bool {
						if vs, ok := n.(*ast.ValueSpec); ok && vs.Type != nil && isProviderType(vs.Type) {
							for _, id := range vs.Names {
								provs[id.Obj] = true
								uses = append(uses, x.Name.Name+":local-provider:"+id.Name)
							}
						}
						return true
					})
					if len(provs) == 0 {
						continue
					}
					accounted := map[*ast.Ident]bool{}
					ast.Inspect(x.Body, func(n ast.Node) bool {
						call, ok := n.(*ast.CallExpr)
						if !ok {
							return true
						}
						if se, ok := call.Fun.(*ast.SelectorExpr); ok {
							if id, ok := se.X.(*ast.Ident); ok && provs[id.Obj] {
								accounted[id] = true
								uses = append(uses, x.Name.Name+":"+se.Sel.Name)
							}
						}
						for _, a := range call.Args {
							if id, ok := a.(*ast.Ident); ok && provs[id.Obj] {
								accounted[id] = true
								callee := c12Text(fset, call.Fun)
								uses = append(uses, x.Name.Name+":pass:"+callee)
							}
						}
						return true
					})
					ast.Inspect(x.Body, func(n ast.Node) bool {
						if id, ok := n.(*ast.Ident); ok && provs[id.Obj] && !accounted[id] {
							uses = append(uses, x.Name.Name+":other-use:"+id.Name)
						}
						return true
					})
				}
			}
		}
		sort.Strings(uses)
		// collapse duplicates
		var uniq []string
		for i, u := range uses {
			if i == 0 || uses[i-1] != u {
				uniq = append(uniq, u)
			}
		}
		out = append(out, fmt.Sprintf("def c12ProviderUses : String := %s", leanString(strings.Join(uniq, ";"))))
		return out
	})
}
