package main

import (
	"go/ast"
	"go/token"
)

// C12 lock discipline of net/ntske.Provider (the model treats the provider as a sequential
// state machine whose operations are ordered by their clock readings):
//   - every method with receiver *Provider except generateNext starts with `p.mu.Lock()`
//     followed by `defer p.mu.Unlock()`, and reads time.Now() only after that;
//   - generateNext (which does not lock) is called only from Current and NewProvider;
//   - the fields keys/currentID/generatedAt are touched only inside those functions.
func init() {
	registerFact(func(repo string, parsed map[string][]*ast.File, fset *token.FileSet) {
		files := parsed["net/ntske"]
		if files == nil {
			broken("C12: package net/ntske not parsed")
			return
		}
		isSel := func(e ast.Expr, path ...string) bool {
			// path: e.g. p mu Lock  => p.mu.Lock
			for i := len(path) - 1; i >= 1; i-- {
				s, ok := e.(*ast.SelectorExpr)
				if !ok || s.Sel.Name != path[i] {
					return false
				}
				e = s.X
			}
			id, ok := e.(*ast.Ident)
			return ok && id.Name == path[0]
		}
		methods := 0
		for _, f := range files {
			for _, d := range f.Decls {
				fd, ok := d.(*ast.FuncDecl)
				if !ok || fd.Body == nil {
					continue
				}
				recv := ""
				recvType := ""
				if fd.Recv != nil && len(fd.Recv.List) == 1 {
					t := fd.Recv.List[0].Type
					if s, ok := t.(*ast.StarExpr); ok {
						t = s.X
					}
					if id, ok := t.(*ast.Ident); ok {
						recvType = id.Name
					}
					if len(fd.Recv.List[0].Names) == 1 {
						recv = fd.Recv.List[0].Names[0].Name
					}
				}
				name := fd.Name.Name
				inProvider := recvType == "Provider"
				// calls of generateNext and uses of the protected fields
				ast.Inspect(fd.Body, func(n ast.Node) bool {
					switch x := n.(type) {
					case *ast.CallExpr:
						if s, ok := x.Fun.(*ast.SelectorExpr); ok && s.Sel.Name == "generateNext" {
							if !(inProvider && name == "Current") && name != "NewProvider" {
								broken("C12: generateNext is called from %s (expected only Current and NewProvider)", name)
							}
						}
					case *ast.SelectorExpr:
						switch x.Sel.Name {
						case "keys", "currentID", "generatedAt":
							if !inProvider && name != "NewProvider" {
								broken("C12: Provider field %s is used in %s, outside the Provider methods", x.Sel.Name, name)
							}
						}
					}
					return true
				})
				if !inProvider || name == "generateNext" {
					continue
				}
				methods++
				st := fd.Body.List
				okLock := false
				if len(st) >= 2 {
					if es, ok := st[0].(*ast.ExprStmt); ok {
						if c, ok := es.X.(*ast.CallExpr); ok && isSel(c.Fun, recv, "mu", "Lock") {
							if ds, ok := st[1].(*ast.DeferStmt); ok && isSel(ds.Call.Fun, recv, "mu", "Unlock") {
								okLock = true
							}
						}
					}
				}
				if !okLock {
					broken("C12: method Provider.%s does not start with %s.mu.Lock(); defer %s.mu.Unlock()", name, recv, recv)
				}
			}
		}
		if methods < 2 {
			broken("C12: expected at least the methods Provider.Get and Provider.Current, found %d locked methods", methods)
		}
		for _, n := range []string{"Provider.Get", "Provider.Current", "Provider.generateNext", "NewProvider"} {
			if findFunc(files, n) == nil {
				broken("C12: function %s not found in net/ntske", n)
			}
		}
	})
}
