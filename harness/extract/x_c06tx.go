package main

// C06 / C09 (listener transmit timestamps): structural facts the model
// lean/ScionTime/Model/ListenerTx.lean rests on, re-read from /repo on every run.
//
// Gen/Server.lean (runIPServer, runSCIONServer; log statements are left out of the renderings):
//
//	def txSendSites_<fn> : Nat             -- calls of conn.WriteToUDPAddrPort in the function
//	def txPostSend_<fn> : List String      -- per send site, the statements that follow the
//	                                       -- write-error check in the same block up to and including
//	                                       -- the `if err != nil … else if id != txid … else …`
//	                                       -- statement (and the updateTXTimestamp call, if any),
//	                                       -- each statement rendered on one line, sites joined by " ;; "
//	def txidAssignments_<fn> : List String -- every statement of the function that changes txid
//	def fact_noClockAfterSend_<fn> : Bool  -- no timebase.Now() among the statements after a send
//
// Gen/Udp.lean (ReadTXTimestamp):
//
//	def readTxPollArgs : List String       -- arguments of the unix.Poll call
//	def readTxPollEvents : String          -- Events of the polled descriptor
//	def readTxClosure : List String        -- the top-level statements of the closure handed to
//	                                       -- sconn.Read, one line each
//	def fact_readTxClosureAlwaysDone : Bool -- every return in that closure is `return true`
//
// Pinned by Props/C06Tx.lean (`C06_pin_*`, `C09_pin_*`).

import (
	"bytes"
	"fmt"
	"go/ast"
	"go/printer"
	"go/token"
	"strings"
)

func c06txRender(fset *token.FileSet, n ast.Node) string {
	var buf bytes.Buffer
	printer.Fprint(&buf, fset, n)
	return strings.Join(strings.Fields(buf.String()), " ")
}

// c06txIsLog: an expression statement calling log.LogAttrs / log.*
func c06txIsLog(s ast.Stmt) bool {
	es, ok := s.(*ast.ExprStmt)
	if !ok {
		return false
	}
	call, ok := es.X.(*ast.CallExpr)
	if !ok {
		return false
	}
	sel, ok := call.Fun.(*ast.SelectorExpr)
	if !ok {
		return false
	}
	id, ok := sel.X.(*ast.Ident)
	return ok && id.Name == "log"
}

// c06txStrip returns a copy of the statement without log statements and comments
func c06txStrip(s ast.Stmt) ast.Stmt {
	switch v := s.(type) {
	case *ast.BlockStmt:
		nb := &ast.BlockStmt{}
		for _, x := range v.List {
			if c06txIsLog(x) {
				continue
			}
			nb.List = append(nb.List, c06txStrip(x))
		}
		return nb
	case *ast.IfStmt:
		ni := &ast.IfStmt{Init: v.Init, Cond: v.Cond, Body: c06txStrip(v.Body).(*ast.BlockStmt)}
		if v.Else != nil {
			ni.Else = c06txStrip(v.Else)
		}
		return ni
	case *ast.ForStmt:
		return &ast.ForStmt{Init: v.Init, Cond: v.Cond, Post: v.Post, Body: c06txStrip(v.Body).(*ast.BlockStmt)}
	}
	return s
}

func c06txRenderStmt(s ast.Stmt) string {
	// position-free rendering (the stripped copies carry no positions)
	return c06txRender(token.NewFileSet(), c06txStrip(s))
}

func c06txIsCall(e ast.Expr, recv, name string) bool {
	call, ok := e.(*ast.CallExpr)
	if !ok {
		return false
	}
	sel, ok := call.Fun.(*ast.SelectorExpr)
	if !ok || sel.Sel.Name != name {
		return false
	}
	id, ok := sel.X.(*ast.Ident)
	return ok && id.Name == recv
}

func c06txHasCall(n ast.Node, recv, name string) bool {
	found := false
	ast.Inspect(n, func(x ast.Node) bool {
		if e, ok := x.(ast.Expr); ok && c06txIsCall(e, recv, name) {
			found = true
		}
		return !found
	})
	return found
}

type c06txListener struct {
	sites   int
	post    []string
	txid    []string
	noClock bool
}

func c06txListenerFacts(files []*ast.File, fn string) (res c06txListener) {
	fd := findFunc(files, fn)
	if fd == nil || fd.Body == nil {
		broken("C06 tx timestamps: function core/server.%s not found", fn)
		return
	}
	res.noClock = true
	// every block that contains a send
	ast.Inspect(fd.Body, func(n ast.Node) bool {
		blk, ok := n.(*ast.BlockStmt)
		if !ok {
			return true
		}
		for i, s := range blk.List {
			as, ok := s.(*ast.AssignStmt)
			if !ok || len(as.Rhs) != 1 || !c06txIsCall(as.Rhs[0], "conn", "WriteToUDPAddrPort") {
				continue
			}
			res.sites++
			rest := blk.List[i+1:]
			// the write-error check
			if len(rest) == 0 {
				broken("C06 tx timestamps: %s: nothing follows a send", fn)
				continue
			}
			if ifs, ok := rest[0].(*ast.IfStmt); !ok || !strings.Contains(c06txRender(token.NewFileSet(), ifs.Cond), "err != nil") {
				broken("C06 tx timestamps: %s: a send is not followed by its error check", fn)
			}
			var parts []string
			done := false
			for _, t := range rest[1:] {
				if c06txIsLog(t) {
					continue
				}
				if c06txHasCall(t, "timebase", "Now") {
					res.noClock = false
				}
				if done {
					// after the if-chain: only the store update belongs to the step
					if es, ok := t.(*ast.ExprStmt); ok {
						if call, ok := es.X.(*ast.CallExpr); ok {
							if id, ok := call.Fun.(*ast.Ident); ok && id.Name == "updateTXTimestamp" {
								parts = append(parts, c06txRenderStmt(t))
							}
						}
					}
					continue
				}
				parts = append(parts, c06txRenderStmt(t))
				if ifs, ok := t.(*ast.IfStmt); ok && ifs.Else != nil {
					done = true
				}
			}
			res.post = append(res.post, strings.Join(parts, " ;; "))
		}
		return true
	})
	// every statement that changes txid
	ast.Inspect(fd.Body, func(n ast.Node) bool {
		switch v := n.(type) {
		case *ast.AssignStmt:
			for _, l := range v.Lhs {
				if id, ok := l.(*ast.Ident); ok && id.Name == "txid" {
					res.txid = append(res.txid, c06txRender(token.NewFileSet(), v))
				}
			}
		case *ast.IncDecStmt:
			if id, ok := v.X.(*ast.Ident); ok && id.Name == "txid" {
				res.txid = append(res.txid, c06txRender(token.NewFileSet(), v))
			}
		case *ast.UnaryExpr:
			if id, ok := v.X.(*ast.Ident); ok && v.Op == token.AND && id.Name == "txid" {
				res.txid = append(res.txid, "&txid escapes")
			}
		}
		return true
	})
	return
}

func init() {
	registerLocals("core/server", func(files []*ast.File, fset *token.FileSet) []string {
		var out []string
		for _, fn := range []string{"runIPServer", "runSCIONServer"} {
			r := c06txListenerFacts(files, fn)
			b := "false"
			if r.noClock {
				b = "true"
			}
			out = append(out,
				fmt.Sprintf("def txSendSites_%s : Nat := %d", fn, r.sites),
				fmt.Sprintf("def txPostSend_%s : List String := %s", fn, c06LeanList(r.post)),
				fmt.Sprintf("def txidAssignments_%s : List String := %s", fn, c06LeanList(r.txid)),
				fmt.Sprintf("def fact_noClockAfterSend_%s : Bool := %s", fn, b))
		}
		return out
	})
	registerLocals("net/udp", func(files []*ast.File, fset *token.FileSet) []string {
		fd := findFunc(files, "ReadTXTimestamp")
		if fd == nil || fd.Body == nil {
			broken("C06 tx timestamps: function net/udp.ReadTXTimestamp not found")
			return nil
		}
		var closure *ast.FuncLit
		ast.Inspect(fd.Body, func(n ast.Node) bool {
			call, ok := n.(*ast.CallExpr)
			if ok && c06txIsCall(call, "sconn", "Read") && len(call.Args) == 1 {
				if fl, ok := call.Args[0].(*ast.FuncLit); ok {
					closure = fl
				}
			}
			return true
		})
		if closure == nil {
			broken("C06 tx timestamps: ReadTXTimestamp no longer hands a closure to sconn.Read")
			return nil
		}
		var stmts []string
		for _, s := range closure.Body.List {
			stmts = append(stmts, c06txRenderStmt(s))
		}
		always := true
		nret := 0
		ast.Inspect(closure.Body, func(n ast.Node) bool {
			if _, ok := n.(*ast.FuncLit); ok {
				return false
			}
			if r, ok := n.(*ast.ReturnStmt); ok {
				nret++
				if len(r.Results) != 1 {
					always = false
				} else if id, ok := r.Results[0].(*ast.Ident); !ok || id.Name != "true" {
					always = false
				}
			}
			return true
		})
		if nret == 0 {
			always = false
		}
		var pollArgs []string
		events := ""
		ast.Inspect(closure.Body, func(n ast.Node) bool {
			if call, ok := n.(*ast.CallExpr); ok && c06txIsCall(call, "unix", "Poll") {
				for _, a := range call.Args {
					pollArgs = append(pollArgs, c06txRender(token.NewFileSet(), a))
				}
			}
			if kv, ok := n.(*ast.KeyValueExpr); ok {
				if id, ok := kv.Key.(*ast.Ident); ok && id.Name == "Events" {
					events = c06txRender(token.NewFileSet(), kv.Value)
				}
			}
			return true
		})
		b := "false"
		if always {
			b = "true"
		}
		return []string{
			fmt.Sprintf("def readTxPollArgs : List String := %s", c06LeanList(pollArgs)),
			fmt.Sprintf("def readTxPollEvents : String := %s", leanString(events)),
			fmt.Sprintf("def readTxClosure : List String := %s", c06LeanList(stmts)),
			fmt.Sprintf("def fact_readTxClosureAlwaysDone : Bool := %s", b),
		}
	})
}
