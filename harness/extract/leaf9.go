package main

// Leaf translator, ninth generation: the extension-field walk of net/nts.DecodePacket.
//
// New constructs (notes/LEAF.md, "Generation 9"):
//   * `X = append(X, v)` where X is the SAME path on both sides (a field of a pointer target or a
//     local) and X is a slice rendered as a list: `X ++ [v]` (Go.appendOwn). Whether Go reallocates
//     is invisible through X itself; it is visible only through another slice sharing X's backing
//     array — the ownership assumption stated in the notes. Any other `append` on a list-rendered
//     slice stays refused.
//   * a call statement of a translated method whose only result is the updated receiver
//     (`eh.unpack(b, pos)`): the receiver variable is rebound.
//   * `T{extHdr: eh}`: a keyed literal naming an embedded struct (already a field of the rendering).

import (
	"go/ast"
	"go/token"
	"go/types"
	"regexp"
)

// structRenames9: all generated files share one Lean namespace; a struct whose Go name is already
// taken by another package's struct (ntp.Packet) is spelled with its package in the files of the
// second package. Spelling only: applied to the whole text of that file.
var structRenames9 = map[string]map[string]string{
	"LeafNts": {"S_Packet": "S_NtsPacket"},
}

func renameStructs9(file, text string) string {
	for old, nw := range structRenames9[file] {
		text = regexp.MustCompile(`\b`+old+`\b`).ReplaceAllString(text, nw)
	}
	return text
}

// selfAppends: the `append` calls of fd that have the statement form `X = append(X, v)`.
var selfAppends = map[*ast.CallExpr]bool{}

func markSelfAppends(fd *ast.FuncDecl) {
	if fd == nil || fd.Body == nil {
		return
	}
	ast.Inspect(fd.Body, func(n ast.Node) bool {
		as, ok := n.(*ast.AssignStmt)
		if !ok || as.Tok != token.ASSIGN || len(as.Lhs) != 1 || len(as.Rhs) != 1 {
			return true
		}
		ce, ok := as.Rhs[0].(*ast.CallExpr)
		if !ok || len(ce.Args) != 2 || ce.Ellipsis != token.NoPos {
			return true
		}
		if id, ok := ce.Fun.(*ast.Ident); !ok || id.Name != "append" {
			return true
		}
		if types.ExprString(as.Lhs[0]) == types.ExprString(ce.Args[0]) {
			selfAppends[ce] = true
		}
		return true
	})
}

// append9: `X = append(X, v)` on a list-rendered slice of structs.
func (c *leafCtx) append9(x *ast.CallExpr) (string, string, bool) {
	if !selfAppends[x] {
		return "", "", false
	}
	xs, xt := c.expr(x.Args[0], "")
	if len(xt) < 4 || xt[:4] != "L_S_" { // byte slices keep their own rules (aliasing with buffers)
		return "", "", false
	}
	et := xt[2:]
	v, vt := c.expr(x.Args[1], et)
	if vt != et {
		c.fail("append of a %s to a slice of %s", vt, et)
		return "0", xt, true
	}
	c.needPrelude3 = true
	return "(Go.appendOwn " + xs + " " + v + ")", xt, true
}
