package main

// Leaf translator, ninth generation: the extension-field walk of net/nts.DecodePacket.
//
// New constructs (notes/LEAF.md, "Generation 9"):
//   * `X = append(X, v)` where X is the SAME path on both sides (a field of a pointer target or a
//     local) and X is a slice rendered as a list: `X ++ [v]` (Go.appendOwn). Whether Go reallocates
//     is invisible through X itself; it is visible only through another slice sharing X's backing
//     array — the ownership assumption stated in the notes. Any other `append` on a list-rendered
//     slice stays refused.
//   * a call statement of a translated method whose only result is the updated receiver
//     (`eh.unpack(b, pos)`): the receiver variable is rebound.
//   * `T{extHdr: eh}`: a keyed literal naming an embedded struct (already a field of the rendering).

import (
	"go/ast"
	"go/token"
	"go/types"
	"regexp"
	"strconv"
	"strings"
)

// structRenames9: all generated files share one Lean namespace; a struct whose Go name is already
// taken by another package's struct (ntp.Packet) is spelled with its package in the files of the
// second package. Spelling only: applied to the whole text of that file.
var structRenames9 = map[string]map[string]string{
	"LeafNts": {"S_Packet": "S_NtsPacket"},
}

func renameStructs9(file, text string) string {
	for old, nw := range structRenames9[file] {
		text = regexp.MustCompile(`\b`+old+`\b`).ReplaceAllString(text, nw)
	}
	return text
}

// selfAppends: the `append` calls of fd that have the statement form `X = append(X, v)`.
var selfAppends = map[*ast.CallExpr]bool{}

func markSelfAppends(fd *ast.FuncDecl) {
	if fd == nil || fd.Body == nil {
		return
	}
	ast.Inspect(fd.Body, func(n ast.Node) bool {
		as, ok := n.(*ast.AssignStmt)
		if !ok || as.Tok != token.ASSIGN || len(as.Lhs) != 1 || len(as.Rhs) != 1 {
			return true
		}
		ce, ok := as.Rhs[0].(*ast.CallExpr)
		if !ok || len(ce.Args) != 2 || ce.Ellipsis != token.NoPos {
			return true
		}
		if id, ok := ce.Fun.(*ast.Ident); !ok || id.Name != "append" {
			return true
		}
		if types.ExprString(as.Lhs[0]) == types.ExprString(ce.Args[0]) {
			selfAppends[ce] = true
		}
		return true
	})
}

// append9: `X = append(X, v)` on a list-rendered slice of structs.
func (c *leafCtx) append9(x *ast.CallExpr) (string, string, bool) {
	if !selfAppends[x] {
		return "", "", false
	}
	xs, xt := c.expr(x.Args[0], "")
	if len(xt) < 4 || xt[:4] != "L_S_" { // byte slices keep their own rules (aliasing with buffers)
		return "", "", false
	}
	et := xt[2:]
	v, vt := c.expr(x.Args[1], et)
	if vt != et {
		c.fail("append of a %s to a slice of %s", vt, et)
		return "0", xt, true
	}
	c.needPrelude3 = true
	return "(Go.appendOwn " + xs + " " + v + ")", xt, true
}

// ---- foreign objects made inside the function ----------------------------------------------------
//
// opaqueCtors: a foreign constructor whose object is used only through the methods listed. The
// object is rendered as the TUPLE OF THE CONSTRUCTOR'S ARGUMENTS (the constructor is deterministic
// and the object immutable: every answer of a method is a function of those arguments and the
// method's own); the constructor's error and each method are FUNCTION-typed parameters applied to
// the translated arguments at every call site, as for opaqueMethods (generation 8). A method whose
// table entry says `panics` returns an Option (none = the library panics).
type opaqueCtor9 struct {
	args    []string // Lean-side argument types of the constructor
	obj     string   // translator type of the object
	methods map[string]opaqueMethod9
}
type opaqueMethod9 struct {
	args   []string
	ret    string
	panics bool
}

const aeadObj9 = "F:(String × List UInt8 × Int64)"

var opaqueCtors9 = map[string]opaqueCtor9{
	"miscreant.NewAEAD": {[]string{"Str", "L_UInt8", "Int64"}, aeadObj9, map[string]opaqueMethod9{
		"NonceSize": {nil, "Int64", false},
		"Open":      {[]string{"L_UInt8", "L_UInt8", "L_UInt8", "L_UInt8"}, "T:L_UInt8,Bool", true},
		"Seal":      {[]string{"L_UInt8", "L_UInt8", "L_UInt8", "L_UInt8"}, "L_UInt8", true},
	}},
}

func (c *leafCtx) args9(what string, args []ast.Expr, types []string) ([]string, []string, bool) {
	if len(args) != len(types) {
		c.fail("%s: %d arguments for %d", what, len(args), len(types))
		return nil, nil, false
	}
	var as, ts []string
	for i, a := range args {
		var e, t string
		if id, ok := a.(*ast.Ident); ok && id.Name == "nil" && types[i] == "L_UInt8" {
			e, t = "([] : List UInt8)", "L_UInt8" // a nil byte slice: length 0
		} else if se, ok := a.(*ast.SliceExpr); ok && types[i] == "L_UInt8" && se.Low == nil && se.High != nil && se.Max == nil && c.isOutParam9(se.X) {
			// buf[:hi] of a buffer the function writes, as an ARGUMENT of a library call: its contents at the
			// moment of the call are what the callee reads (the library does not keep the slice)
			hi, _ := c.expr(se.High, "Int64")
			v := c.fresh("_s")
			c.binds = append(c.binds, c.bindLine("(Go.subslice? "+c.lname(se.X.(*ast.Ident).Name)+" (0 : Int64) "+hi+")", v, "opt:slice"))
			c.needPrelude3 = true
			e, t = v, "L_UInt8"
		} else if bl, ok := a.(*ast.BasicLit); ok && types[i] == "Int64" {
			e, t = "("+bl.Value+" : Int64)", "Int64"
		} else {
			e, t = c.expr(a, types[i])
		}
		if t != "" && t != types[i] {
			c.fail("argument %d of %s: %s for %s", i, what, t, types[i])
			return nil, nil, false
		}
		as = append(as, e)
		ts = append(ts, leanTypeName(types[i]))
	}
	return as, ts, true
}

func (c *leafCtx) expr9(e ast.Expr, want string) (string, string, bool) {
	switch x := e.(type) {
	case *ast.CallExpr:
		f, ok := x.Fun.(*ast.SelectorExpr)
		if !ok {
			return "", "", false
		}
		id, ok := f.X.(*ast.Ident)
		if !ok {
			return "", "", false
		}
		if _, isVar := c.vars[id.Name]; !isVar {
			if ct, ok := opaqueCtors9[id.Name+"."+f.Sel.Name]; ok { // obj, err := pkg.Ctor(args…)
				as, ts, ok := c.args9(id.Name+"."+f.Sel.Name, x.Args, ct.args)
				if !ok {
					return "0", want, true
				}
				name := "ext_" + id.Name + "_" + f.Sel.Name + "_err"
				c.addExtern(name, strings.Join(ts, " → ")+" → Bool")
				return "((" + strings.Join(as, ", ") + "), (" + name + " " + strings.Join(as, " ") + "))", "T:" + ct.obj + ",Bool", true
			}
			if id.Name == "bytes" && f.Sel.Name == "Equal" && len(x.Args) == 2 { // bytes.Equal(a, b): same length, same bytes
				a, at := c.expr(x.Args[0], "L_UInt8")
				b, bt := c.expr(x.Args[1], "L_UInt8")
				if at != "L_UInt8" || bt != "L_UInt8" {
					c.fail("bytes.Equal on something other than byte slices")
					return "false", "Bool", true
				}
				return "(" + a + " == " + b + ")", "Bool", true
			}
			return "", "", false
		}
		for cn, ct := range opaqueCtors9 { // a method of an object made by such a constructor
			if c.vars[id.Name] != ct.obj {
				continue
			}
			m, ok := ct.methods[f.Sel.Name]
			if !ok {
				c.fail("unsupported method %s of the object made by %s", f.Sel.Name, cn)
				return "0", want, true
			}
			as, ts, ok := c.args9(cn+"."+f.Sel.Name, x.Args, m.args)
			if !ok {
				return "0", want, true
			}
			name := "ext_" + strings.Replace(cn, ".", "_", 1) + "_" + f.Sel.Name
			ret := tupleTypeName(m.ret)
			if m.panics {
				ret = "Option " + ret
			}
			c.addExtern(name, strings.Join(append([]string{leanTypeName(ct.obj)}, ts...), " → ")+" → "+ret)
			call := "(" + name + " " + strings.Join(append([]string{c.lname(id.Name)}, as...), " ") + ")"
			if m.panics {
				v := c.fresh("_o")
				c.binds = append(c.binds, c.bindLine(call, v, "opt:library"))
				return v, m.ret, true
			}
			return call, m.ret, true
		}
	case *ast.UnaryExpr: // ^k for an integer constant k in an int context: -k-1 (two's complement)
		if x.Op == token.XOR && (want == "Int64" || want == "") {
			if bl, ok := x.X.(*ast.BasicLit); ok && bl.Kind == token.INT {
				if k, err := strconv.Atoi(bl.Value); err == nil {
					return "(" + strconv.Itoa(-k-1) + " : Int64)", "Int64", true
				}
			}
		}
	case *ast.SliceExpr: // b[:hi] as a value on a byte-slice parameter the function does not write: b[0:hi]
		if id, isId := x.X.(*ast.Ident); isId && c.vars[id.Name] == "L_UInt8" && !c.madeHere[id.Name] && x.Low == nil && x.High != nil && x.Max == nil {
			s, t := c.expr(&ast.SliceExpr{X: x.X, Low: &ast.BasicLit{Kind: token.INT, Value: "0"}, High: x.High}, want)
			return s, t, true
		}
	}
	return "", "", false
}

// ---- sinks -------------------------------------------------------------------------------------------
//
// sinkMethods9: a pointer parameter of a foreign type that the function only hands values to
// (`ntskeFetcher.StoreCookie(c)`): the parameter is dropped and the calls are recorded, in order,
// with their argument, in a thread `sk_<param>` handed back with the result — the function's effect
// on the object is this list. A method outside the table, or a use of the object as a value, is
// refused ("unknown identifier").
var sinkMethods9 = map[string]map[string]string{
	"ntske.Fetcher": {"StoreCookie": "L_UInt8"},
}

func sinkType9(t ast.Expr) string {
	st, ok := t.(*ast.StarExpr)
	if !ok {
		return ""
	}
	se, ok := st.X.(*ast.SelectorExpr)
	if !ok {
		return ""
	}
	id, ok := se.X.(*ast.Ident)
	if !ok {
		return ""
	}
	if _, ok := sinkMethods9[id.Name+"."+se.Sel.Name]; ok {
		return id.Name + "." + se.Sel.Name
	}
	return ""
}

// paramBuf9: `buf[k:]` on a byte-slice PARAMETER (not made here, rendered as a list): the bound of the
// slice expression is len(buf) whatever the capacity (the high index defaults to len), so the
// element writes behind it are writes to the visible part of the caller's slice — the parameter
// becomes a pointer target (its final contents are handed back), as for `b[i] = v` in generation 7.
func (c *leafCtx) paramBuf9(e ast.Expr) (*ast.Ident, ast.Expr, bool) {
	se, ok := e.(*ast.SliceExpr)
	if !ok || se.High != nil || se.Max != nil || se.Low == nil {
		return nil, nil, false
	}
	id, ok := se.X.(*ast.Ident)
	if !ok || c.vars[id.Name] != "L_UInt8" || c.madeHere[id.Name] {
		return nil, nil, false
	}
	isOut := false
	for _, o := range c.outs {
		if o == id.Name {
			isOut = true
		}
	}
	if !isOut {
		return nil, nil, false
	}
	return id, se.Low, true
}

func isPutUint16(ce *ast.CallExpr) bool {
	f, ok := ce.Fun.(*ast.SelectorExpr)
	if !ok || f.Sel.Name != "PutUint16" || len(ce.Args) != 2 {
		return false
	}
	inner, ok := f.X.(*ast.SelectorExpr)
	if !ok || inner.Sel.Name != "BigEndian" {
		return false
	}
	pk, ok := inner.X.(*ast.Ident)
	return ok && pk.Name == "binary"
}

func (c *leafCtx) stmt9(s ast.Stmt, next func(string) string, ind string) (string, bool) {
	nl := "\n" + ind
	if as, ok := s.(*ast.AssignStmt); ok && len(as.Lhs) == 1 && len(as.Rhs) == 1 && (as.Tok == token.DEFINE || as.Tok == token.ASSIGN) {
		// n := copy(buf[pos:], src) on a byte-slice parameter: the bytes and the count
		if ce, ok := as.Rhs[0].(*ast.CallExpr); ok && len(ce.Args) == 2 {
			if fid, ok := ce.Fun.(*ast.Ident); ok && fid.Name == "copy" {
				if bid, low, ok := c.paramBuf9(ce.Args[0]); ok {
					nid, isId := as.Lhs[0].(*ast.Ident)
					if !isId {
						return "", false
					}
					off, _ := c.expr(low, "Int64")
					src, st := c.expr(ce.Args[1], "L_UInt8")
					if st != "L_UInt8" {
						c.fail("copy from something other than a byte slice")
						return "0", true
					}
					var n string
					if as.Tok == token.DEFINE {
						n = c.declare(nid.Name, "Int64")
					} else if c.vars[nid.Name] == "Int64" {
						n = c.lname(nid.Name)
					} else {
						c.fail("count of copy assigned to %s", nid.Name)
						return "0", true
					}
					tb, tn := c.fresh("_s"), c.fresh("_n")
					c.binds = append(c.binds, c.bindLine("(Go.copyAt? "+c.lname(bid.Name)+" "+off+" "+src+")", "("+tb+", "+tn+")", "opt:slice"))
					c.needPrelude3 = true
					return c.takeBinds(ind) + c.letLine(c.lname(bid.Name), "L_UInt8", tb) + nl + c.letLine(n, "Int64", tn) + nl + next(ind), true
				}
			}
		}
	}
	if es, ok := s.(*ast.ExprStmt); ok {
		if ce, ok := es.X.(*ast.CallExpr); ok && isPutUint16(ce) { // binary.BigEndian.PutUint16(buf[k:], v) on a byte-slice parameter
			if bid, low, ok := c.paramBuf9(ce.Args[0]); ok {
				off, _ := c.expr(low, "Int64")
				v, vt := c.expr(ce.Args[1], "UInt16")
				if vt != "UInt16" && vt != "" {
					c.fail("PutUint16 of a %s", vt)
					return "0", true
				}
				tmp := c.fresh("_s")
				c.binds = append(c.binds, c.bindLine("(Go.putU16? "+c.lname(bid.Name)+" "+off+" "+v+")", tmp, "opt:slice"))
				return c.takeBinds(ind) + c.letLine(c.lname(bid.Name), "L_UInt8", tmp) + nl + next(ind), true
			}
		}
	}
	es, ok := s.(*ast.ExprStmt)
	if !ok {
		return "", false
	}
	ce, ok := es.X.(*ast.CallExpr)
	if !ok {
		return "", false
	}
	f, ok := ce.Fun.(*ast.SelectorExpr)
	if !ok {
		return "", false
	}
	id, ok := f.X.(*ast.Ident)
	if !ok {
		return "", false
	}
	st, isSink := c.sinks[id.Name]
	if !isSink {
		return "", false
	}
	at, ok := sinkMethods9[st][f.Sel.Name]
	if !ok || len(ce.Args) != 1 {
		c.fail("unsupported method %s of the sink %s", f.Sel.Name, st)
		return "0", true
	}
	e, t := c.expr(ce.Args[0], at)
	if t != at {
		c.fail("argument of %s.%s: %s for %s", st, f.Sel.Name, t, at)
		return "0", true
	}
	th := "sk_" + id.Name
	return c.takeBinds(ind) + "let " + th + " : " + threadType(th) + " := " + th + " ++ [" + e + "]\n" + ind + next(ind), true
}

func (c *leafCtx) isOutParam9(e ast.Expr) bool {
	id, ok := e.(*ast.Ident)
	if !ok || c.vars[id.Name] != "L_UInt8" || c.madeHere[id.Name] {
		return false
	}
	for _, o := range c.outs {
		if o == id.Name {
			return true
		}
	}
	return false
}
