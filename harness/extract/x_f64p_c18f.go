package main

// C18 (float clauses): the scale factor lives inside the bodies of
// unixutil.ScaledPPMFromFreq / FreqFromScaledPPM as the untyped constant expression
// `65536.0 * 1e6`; the shape of both bodies and of (*SystemClock).Drift is checked.

import (
	"bytes"
	"go/ast"
	"go/constant"
	"go/parser"
	"go/printer"
	"go/token"
	"path/filepath"
)

func exprString(fset *token.FileSet, e ast.Node) string {
	var b bytes.Buffer
	printer.Fprint(&b, fset, e)
	return b.String()
}

// constFloatExpr evaluates an expression built from numeric literals, parentheses and
// * / + - exactly.
func constFloatExpr(e ast.Expr) (constant.Value, bool) {
	switch x := e.(type) {
	case *ast.ParenExpr:
		return constFloatExpr(x.X)
	case *ast.BasicLit:
		v := constant.MakeFromLiteral(x.Value, x.Kind, 0)
		return v, v.Kind() != constant.Unknown
	case *ast.BinaryExpr:
		a, ok1 := constFloatExpr(x.X)
		b, ok2 := constFloatExpr(x.Y)
		if !ok1 || !ok2 {
			return nil, false
		}
		switch x.Op {
		case token.MUL, token.ADD, token.SUB, token.QUO:
			return constant.BinaryOp(constant.ToFloat(a), x.Op, constant.ToFloat(b)), true
		}
	}
	return nil, false
}

func singleReturn(fd *ast.FuncDecl) ast.Expr {
	if fd == nil || fd.Body == nil || len(fd.Body.List) != 1 {
		return nil
	}
	rs, ok := fd.Body.List[0].(*ast.ReturnStmt)
	if !ok || len(rs.Results) != 1 {
		return nil
	}
	return rs.Results[0]
}

func init() {
	registerLocals("base/unixutil", func(files []*ast.File, fset *token.FileSet) []string {
		var out []string
		// int64(freq * (K))
		var k1, k2 constant.Value
		if e := singleReturn(findFunc(files, "ScaledPPMFromFreq")); e != nil {
			if c, ok := e.(*ast.CallExpr); ok && exprString(fset, c.Fun) == "int64" && len(c.Args) == 1 {
				if m, ok := c.Args[0].(*ast.BinaryExpr); ok && m.Op == token.MUL && exprString(fset, m.X) == "freq" {
					if v, ok := constFloatExpr(m.Y); ok {
						k1 = v
					}
				}
			}
		}
		// float64(scaledPPM) / (K)
		if e := singleReturn(findFunc(files, "FreqFromScaledPPM")); e != nil {
			if q, ok := e.(*ast.BinaryExpr); ok && q.Op == token.QUO && exprString(fset, q.X) == "float64(scaledPPM)" {
				if v, ok := constFloatExpr(q.Y); ok {
					k2 = v
				}
			}
		}
		if k1 == nil || k2 == nil {
			broken("base/unixutil: ScaledPPMFromFreq / FreqFromScaledPPM no longer have the shape int64(freq * K) / float64(scaledPPM) / K")
			return out
		}
		i1, i2 := constant.ToInt(k1), constant.ToInt(k2)
		if i1.Kind() != constant.Int || i2.Kind() != constant.Int {
			broken("base/unixutil: scaled-ppm factor is not an integer: %s / %s", k1.ExactString(), k2.ExactString())
			return out
		}
		out = append(out, "def f64p_scaledPPMFromFreqFactor : Int := "+i1.ExactString())
		out = append(out, "def f64p_freqFromScaledPPMFactor : Int := "+i2.ExactString())
		return out
	})
	registerFact(func(repo string, parsed map[string][]*ast.File, fset *token.FileSet) {
		f, err := parser.ParseFile(fset, filepath.Join(repo, "driver/clocks/sysclk_linux.go"), nil, 0)
		if err != nil {
			broken("driver/clocks/sysclk_linux.go: %v", err)
			return
		}
		fd := findFunc([]*ast.File{f}, "SystemClock.Drift")
		if fd == nil || fd.Body == nil || len(fd.Body.List) != 2 {
			broken("driver/clocks: (*SystemClock).Drift no longer has the shape `if c.drift == UnknownDrift {return math.MaxInt64}; return timemath.Duration(duration.Seconds() * c.drift)`")
			return
		}
		s0, s1 := exprString(fset, fd.Body.List[0]), exprString(fset, fd.Body.List[1])
		want0 := "if c.drift == UnknownDrift {\n\treturn math.MaxInt64\n}"
		want1 := "return timemath.Duration(duration.Seconds() * c.drift)"
		if s0 != want0 || s1 != want1 {
			broken("driver/clocks: (*SystemClock).Drift changed: %q; %q", s0, s1)
		}
		g, err := parser.ParseFile(fset, filepath.Join(repo, "driver/clocks/sysclk.go"), nil, 0)
		if err != nil {
			broken("driver/clocks/sysclk.go: %v", err)
			return
		}
		found := false
		ast.Inspect(g, func(n ast.Node) bool {
			if vs, ok := n.(*ast.ValueSpec); ok && len(vs.Names) == 1 && vs.Names[0].Name == "UnknownDrift" && len(vs.Values) == 1 {
				found = exprString(fset, vs.Values[0]) == "0"
			}
			return true
		})
		if !found {
			broken("driver/clocks: UnknownDrift is no longer the constant 0")
		}
	})
}
