package main

// C08 (CSPTP listener and client as state machines; Model/CsptpSrv.lean, Model/CsptpCliLoop.lean).
//
// Re-read from the sources on every run and emitted into Gen/Server.lean / Gen/Client.lean:
//
//   core/server, runCSPTPServerIP / StartCSPTPServerIP
//     csptpsrv_skeleton       the control skeleton of one loop iteration up to `csptpMu.Lock()`:
//                             every `if` condition, `continue`, log record (level + message), slice
//                             of `buf` and csptp call, in source order (what `validate` transcribes)
//     csptpsrv_pairing        the statements between `csptpMu.Lock()` and `csptpMu.Unlock()`
//     csptpsrv_neverAssigned  how often sequenceComplete, sequenceID, syncSrcPort, followUpSrcPort,
//                             eConn, gConn are assigned in runCSPTPServerIP (the model: never)
//     csptpsrv_tableWrites    how many statements of the package write csptpClients / csptpClientsQ
//                             (the model: none)
//     csptpsrv_bufLen         the expression the receive buffer is allocated with
//     csptpsrv_ports          the ports StartCSPTPServerIP listens on
//     csptpsrv_portMustBeZero StartCSPTPServerIP refuses a non-zero port
//   core/client, (*CSPTPClientIP).MeasureClockOffset
//     csptpcli_maxNumRetries  the local constant
//     csptpcli_loop           the control skeleton of the receive loop: every `if` condition, `err = …`
//                             assignment, log message, `continue`, `return`, `break`, assignment to the
//                             kept variables, in source order (what `iter` transcribes)
//     csptpcli_bufLen         the expression the buffer is allocated with

import (
	"bytes"
	"fmt"
	"go/ast"
	"go/printer"
	"go/token"
	"strings"
)

func c08norm(fset *token.FileSet, n ast.Node) string {
	var b bytes.Buffer
	printer.Fprint(&b, fset, n)
	return strings.Join(strings.Fields(b.String()), " ")
}

func c08list(name string, xs []string) string {
	var sb strings.Builder
	sb.WriteString("def " + name + " : List String := [")
	for i, x := range xs {
		if i > 0 {
			sb.WriteString(", ")
		}
		sb.WriteString(leanString(x))
	}
	sb.WriteString("]")
	return sb.String()
}

// c08logRecord: "log <Level> <message>" for `X.LogAttrs(ctx, slog.LevelY, "message", …)`, or "".
func c08logRecord(call *ast.CallExpr) string {
	sel, ok := call.Fun.(*ast.SelectorExpr)
	if !ok || sel.Sel.Name != "LogAttrs" || len(call.Args) < 3 {
		return ""
	}
	lvl := "?"
	if s, ok := call.Args[1].(*ast.SelectorExpr); ok {
		lvl = strings.TrimPrefix(s.Sel.Name, "Level")
	}
	msg := "?"
	if l, ok := call.Args[2].(*ast.BasicLit); ok && l.Kind == token.STRING {
		msg = strings.Trim(l.Value, "\"`")
	}
	return "log " + lvl + " " + msg
}

func c08isCall(n ast.Node, pkg, fn string) bool {
	es, ok := n.(*ast.ExprStmt)
	if !ok {
		return false
	}
	call, ok := es.X.(*ast.CallExpr)
	if !ok {
		return false
	}
	sel, ok := call.Fun.(*ast.SelectorExpr)
	if !ok || sel.Sel.Name != fn {
		return false
	}
	id, ok := sel.X.(*ast.Ident)
	return ok && id.Name == pkg
}

// c08skeleton walks stmts in source order.
func c08skeleton(fset *token.FileSet, stmts []ast.Stmt, keepAssign func(lhs string) bool) []string {
	var out []string
	var walkExpr func(e ast.Node)
	walkExpr = func(e ast.Node) {
		ast.Inspect(e, func(n ast.Node) bool {
			switch v := n.(type) {
			case *ast.FuncLit:
				return false
			case *ast.CallExpr:
				if rec := c08logRecord(v); rec != "" {
					out = append(out, rec)
					return false
				}
				if sel, ok := v.Fun.(*ast.SelectorExpr); ok {
					if id, ok := sel.X.(*ast.Ident); ok && id.Name == "csptp" {
						out = append(out, "call "+c08norm(fset, v))
					}
				}
			case *ast.SliceExpr:
				if id, ok := v.X.(*ast.Ident); ok && id.Name == "buf" {
					out = append(out, "slice "+c08norm(fset, v))
				}
			}
			return true
		})
	}
	var walk func(s ast.Stmt)
	walk = func(s ast.Stmt) {
		switch v := s.(type) {
		case *ast.BlockStmt:
			for _, x := range v.List {
				walk(x)
			}
		case *ast.IfStmt:
			if v.Init != nil {
				walk(v.Init)
			}
			out = append(out, "if "+c08norm(fset, v.Cond))
			walkExpr(v.Cond)
			walk(v.Body)
			if v.Else != nil {
				out = append(out, "else")
				walk(v.Else)
			}
			out = append(out, "end")
		case *ast.ForStmt:
			head := "for"
			if v.Init != nil {
				head += " " + c08norm(fset, v.Init)
			}
			if v.Cond != nil {
				head += " ; " + c08norm(fset, v.Cond)
			}
			if v.Post != nil {
				head += " ; " + c08norm(fset, v.Post)
			}
			out = append(out, head)
			walk(v.Body)
			out = append(out, "end")
		case *ast.BranchStmt:
			out = append(out, v.Tok.String())
		case *ast.ReturnStmt:
			out = append(out, c08norm(fset, v))
		case *ast.AssignStmt:
			for _, r := range v.Rhs {
				walkExpr(r)
			}
			lhs := make([]string, len(v.Lhs))
			keep := false
			for i, l := range v.Lhs {
				lhs[i] = c08norm(fset, l)
				if keepAssign(lhs[i]) {
					keep = true
				}
			}
			if keep {
				out = append(out, c08norm(fset, v))
			}
		case *ast.ExprStmt:
			walkExpr(v.X)
		case *ast.DeclStmt:
			// declarations carry no behaviour of their own
		default:
			out = append(out, "stmt "+c08norm(fset, s))
		}
	}
	for _, s := range stmts {
		walk(s)
	}
	return out
}

func init() {
	registerLocals("core/server", func(files []*ast.File, fset *token.FileSet) []string {
		fd := findFunc(files, "runCSPTPServerIP")
		if fd == nil || fd.Body == nil {
			broken("C08: function runCSPTPServerIP not found in core/server")
			return nil
		}
		var loop *ast.ForStmt
		bufLen := ""
		for _, st := range fd.Body.List {
			if f, ok := st.(*ast.ForStmt); ok && f.Cond == nil && f.Init == nil {
				loop = f
			}
			if as, ok := st.(*ast.AssignStmt); ok && len(as.Lhs) == 1 && c08norm(fset, as.Lhs[0]) == "buf" {
				if call, ok := as.Rhs[0].(*ast.CallExpr); ok && len(call.Args) == 2 && c08norm(fset, call.Fun) == "make" {
					bufLen = c08norm(fset, call.Args[1])
				}
			}
		}
		if loop == nil || bufLen == "" {
			broken("C08: receive loop / buffer allocation of runCSPTPServerIP not found")
			return nil
		}
		// split the loop body at csptpMu.Lock() / csptpMu.Unlock()
		var head, mid []ast.Stmt
		state := 0
		for _, st := range loop.Body.List {
			switch {
			case state == 0 && c08isCall(st, "csptpMu", "Lock"):
				state = 1
			case state == 1 && c08isCall(st, "csptpMu", "Unlock"):
				state = 2
			case state == 0:
				head = append(head, st)
			case state == 1:
				mid = append(mid, st)
			}
		}
		if state != 2 {
			broken("C08: csptpMu.Lock()/Unlock() section of runCSPTPServerIP not found")
			return nil
		}
		skel := c08skeleton(fset, head, func(lhs string) bool { return lhs == "buf" || lhs == "oob" || lhs == "rxt" })
		var pairing []string
		for _, st := range mid {
			pairing = append(pairing, c08norm(fset, st))
		}
		// assignments to the variables the response block depends on
		dead := map[string]bool{"sequenceComplete": true, "sequenceID": true, "syncSrcPort": true, "followUpSrcPort": true, "eConn": true, "gConn": true}
		nAssign := 0
		ast.Inspect(fd.Body, func(n ast.Node) bool {
			switch v := n.(type) {
			case *ast.AssignStmt:
				for _, l := range v.Lhs {
					if id, ok := l.(*ast.Ident); ok && dead[id.Name] {
						nAssign++
					}
				}
			case *ast.IncDecStmt:
				if id, ok := v.X.(*ast.Ident); ok && dead[id.Name] {
					nAssign++
				}
			case *ast.UnaryExpr:
				if id, ok := v.X.(*ast.Ident); ok && v.Op == token.AND && dead[id.Name] {
					nAssign++ // address taken: could be written through the pointer
				}
			}
			return true
		})
		// writes to the package-level client table anywhere in the package (hook files excluded)
		tbl := map[string]bool{"csptpClients": true, "csptpClientsQ": true}
		mentions := func(e ast.Node) bool {
			found := false
			ast.Inspect(e, func(n ast.Node) bool {
				if id, ok := n.(*ast.Ident); ok && tbl[id.Name] {
					found = true
				}
				return !found
			})
			return found
		}
		nWrites := 0
		for _, f := range files {
			if strings.HasPrefix(baseName(fset, f), "verif_") {
				continue
			}
			ast.Inspect(f, func(n ast.Node) bool {
				switch v := n.(type) {
				case *ast.AssignStmt:
					for _, l := range v.Lhs {
						if c08norm(fset, l) != "_" && mentions(l) {
							nWrites++
						}
					}
				case *ast.CallExpr:
					name := c08norm(fset, v.Fun)
					if name == "len" || name == "cap" {
						return true
					}
					for _, a := range v.Args {
						if mentions(a) {
							nWrites++ // passed to delete / heap.Push / append / anything else
						}
					}
				case *ast.IncDecStmt:
					if mentions(v.X) {
						nWrites++
					}
				}
				return true
			})
		}
		// StartCSPTPServerIP: ports and the port-zero requirement
		var ports []string
		portZero := 0
		if sd := findFunc(files, "StartCSPTPServerIP"); sd != nil && sd.Body != nil {
			ast.Inspect(sd.Body, func(n ast.Node) bool {
				switch v := n.(type) {
				case *ast.RangeStmt:
					if cl, ok := v.X.(*ast.CompositeLit); ok && c08norm(fset, cl.Type) == "[]int" {
						for _, e := range cl.Elts {
							ports = append(ports, c08norm(fset, e))
						}
					}
				case *ast.IfStmt:
					if c08norm(fset, v.Cond) == "localHost.Port != 0" {
						portZero = 1
					}
				}
				return true
			})
		} else {
			broken("C08: function StartCSPTPServerIP not found in core/server")
		}
		return []string{
			c08list("csptpsrv_skeleton", skel),
			c08list("csptpsrv_pairing", pairing),
			fmt.Sprintf("def csptpsrv_neverAssigned : Int := %d", nAssign),
			fmt.Sprintf("def csptpsrv_tableWrites : Int := %d", nWrites),
			"def csptpsrv_bufLen : String := " + leanString(bufLen),
			c08list("csptpsrv_ports", ports),
			fmt.Sprintf("def csptpsrv_portMustBeZero : Int := %d", portZero),
		}
	})

	registerLocals("core/client", func(files []*ast.File, fset *token.FileSet) []string {
		fd := findFunc(files, "CSPTPClientIP.MeasureClockOffset")
		if fd == nil || fd.Body == nil {
			broken("C08: method CSPTPClientIP.MeasureClockOffset not found in core/client")
			return nil
		}
		var loop *ast.ForStmt
		maxRetries, bufLen := "", ""
		for _, st := range fd.Body.List {
			switch v := st.(type) {
			case *ast.ForStmt:
				loop = v
			case *ast.DeclStmt:
				if gd, ok := v.Decl.(*ast.GenDecl); ok && gd.Tok == token.CONST {
					for _, sp := range gd.Specs {
						vs := sp.(*ast.ValueSpec)
						for i, n := range vs.Names {
							if n.Name == "maxNumRetries" && i < len(vs.Values) {
								maxRetries = c08norm(fset, vs.Values[i])
							}
						}
					}
				}
			case *ast.AssignStmt:
				if len(v.Lhs) == 1 && c08norm(fset, v.Lhs[0]) == "buf" {
					if call, ok := v.Rhs[0].(*ast.CallExpr); ok && len(call.Args) == 2 && c08norm(fset, call.Fun) == "make" {
						bufLen = c08norm(fset, call.Args[1])
					}
				}
			}
		}
		if loop == nil || maxRetries == "" || bufLen == "" {
			broken("C08: receive loop / maxNumRetries / buffer allocation of CSPTPClientIP.MeasureClockOffset not found")
			return nil
		}
		kept := map[string]bool{"err": true, "buf": true, "oob": true, "rxt": true, "respmsg0Ok": true, "respmsg1Ok": true,
			"cRxTime0": true, "cRxTime1": true, "respmsg0": true, "respmsg1": true}
		skel := c08skeleton(fset, []ast.Stmt{loop}, func(lhs string) bool { return kept[lhs] })
		return []string{
			"def csptpcli_maxNumRetries : String := " + leanString(maxRetries),
			"def csptpcli_bufLen : String := " + leanString(bufLen),
			c08list("csptpcli_loop", skel),
		}
	})
}
