package main

// Control skeletons: a regenerated tie for the large effectful functions that are modelled by
// hand, branch by branch (listener loops, client receive loops, the sync loop, the collector, the
// key-exchange state machines) and that the leaf translator cannot translate.
//
// For a named function or method the skeleton is the list of (depth, text) rows obtained by
// walking the body in source order:
//
//	row 0                "func <receiver> <name><signature>"      (depth 0; the body is at depth 1)
//	if                   "if <init>; <cond>" / "else if <init>; <cond>" / "else"; branches one deeper
//	for                  "for <init>; <cond>; <post>" / "for <k>, <v> := range <x>"; body one deeper
//	switch / type switch "switch <init>; <tag>", then "case <a>, <b>" / "default" one deeper and
//	                     the clause bodies two deeper
//	select               "select", then "case <comm>" / "default" one deeper, bodies two deeper
//	labeled statement    "<label>:" and the statement at the same depth
//	block                "{" and the statements one deeper
//	go / defer           "go <call>" / "defer <call>"
//	every other statement (assignment, short variable declaration, var/const declaration,
//	                     expression statement, inc/dec, send, return, break, continue, goto,
//	                     fallthrough) its source text
//
// Text is what go/printer prints for the AST node, white space collapsed to single blanks (so
// comments, line breaks and indentation never matter) and the trailing comma of a call or
// composite literal spread over several lines removed (", )" ", }" ", ]" -> ")" "}" "]").
// A function literal inside any statement
// is printed as "func<signature> {…}" and followed, one level deeper, by a row
// "func literal <n>" and the literal's body two levels deeper (n counts the literals of the
// statement from 1 in source order), so closures handed to goroutines, to `sconn.Read`, to
// `sort.Slice` … are part of the skeleton of the function they occur in.
//
// NOISE RULE (what is left out, so that a reworded log message or one more metric does not break
// the tie). An *expression statement* — a call whose results are discarded — is dropped iff it is
//
//	N1  a call `<x>.LogAttrs(…)`, or a call of a method named Log, Debug, Info, Warn, Error,
//	    DebugContext, InfoContext, WarnContext, ErrorContext on a receiver whose root identifier
//	    is `log`, `logger` or `slog` (this includes every function of package slog);
//	    `logbase.Fatal*` is control flow and is kept;
//	N2  a call of a method named Inc, Dec or Observe (any receiver), or of a method named Add,
//	    Sub, Set or SetToCurrentTime on a receiver whose root identifier matches
//	    (?i)mtrcs|metrics|gauge|counter|histogram  (`mtrcs.pktsReceived.Inc()`,
//	    `tssMetrics.tssItems.Inc()`, `corrGauge.Set(float64(corr))`).
//
// Nothing else is dropped: an `if` that guards only a log statement keeps its `if` row (its
// condition is evaluated), a log call used as an operand is kept, a statement `_ = x` is kept.
// The arguments of a dropped call are assumed to have no side effect the model depends on.
//
// Emitted on every run as lean/ScionTime/Gen/Skel<Group>.lean (one file per Props module
// Props/Skel<Group>.lean):
//
//	namespace ScionTime.Gen.Skel
//	def <Unit>.<fn> : List (Nat × String) := [(0, "func …"), (1, "…"), …]
//
// and pinned by `theorem <Group>_skel_<fn> : Gen.Skel.<Unit>.<fn> = Model.Skel.<Unit>.<fn> := rfl`
// against the hand-kept, row-by-row annotated transcriptions lean/ScionTime/Model/Skel/*.lean.
// A function that can no longer be found is reported as a broken tie of the properties it is
// registered for ("TIE-BROKEN [C06,C07,C09] skeleton: …").
//
// `extract -skel-dump DIR` additionally writes the rows in transcription layout (one row per
// line, no annotations) to DIR/<Group>.<Unit>.<fn>.rows — the starting point for a new
// transcription and the easiest way to diff after a deliberate change of the code.

import (
	"bytes"
	"flag"
	"fmt"
	"go/ast"
	"go/parser"
	"go/printer"
	"go/token"
	"os"
	"path/filepath"
	"regexp"
	"sort"
	"strings"
)

type skelRow struct {
	depth int
	text  string
}

var skelMetricRecv = regexp.MustCompile(`(?i)mtrcs|metrics|gauge|counter|histogram`)

// skelRootIdent returns the left-most identifier of a selector / call / index chain, or "".
func skelRootIdent(e ast.Expr) string {
	for {
		switch v := e.(type) {
		case *ast.Ident:
			return v.Name
		case *ast.SelectorExpr:
			e = v.X
		case *ast.CallExpr:
			e = v.Fun
		case *ast.IndexExpr:
			e = v.X
		case *ast.ParenExpr:
			e = v.X
		case *ast.StarExpr:
			e = v.X
		default:
			return ""
		}
	}
}

// skelIsNoise implements the noise rule N1/N2 for one statement.
func skelIsNoise(s ast.Stmt) bool {
	es, ok := s.(*ast.ExprStmt)
	if !ok {
		return false
	}
	call, ok := es.X.(*ast.CallExpr)
	if !ok {
		return false
	}
	sel, ok := call.Fun.(*ast.SelectorExpr)
	if !ok {
		return false
	}
	root := skelRootIdent(sel.X)
	switch sel.Sel.Name {
	case "LogAttrs":
		return true
	case "Log", "Debug", "Info", "Warn", "Error", "DebugContext", "InfoContext", "WarnContext", "ErrorContext":
		return root == "log" || root == "logger" || root == "slog"
	case "Inc", "Dec", "Observe":
		return true
	case "Add", "Sub", "Set", "SetToCurrentTime":
		return skelMetricRecv.MatchString(root)
	}
	return false
}

type skelWalker struct {
	fset *token.FileSet
	rows []skelRow
}

// text prints n with the bodies of all function literals elided, and returns the literals.
func (w *skelWalker) text(n ast.Node) (string, []*ast.FuncLit) {
	if n == nil {
		return "", nil
	}
	var lits []*ast.FuncLit
	var saved []*ast.BlockStmt
	ast.Inspect(n, func(x ast.Node) bool {
		if fl, ok := x.(*ast.FuncLit); ok {
			lits = append(lits, fl)
			saved = append(saved, fl.Body)
			return false // nested literals are reached when the body is walked
		}
		return true
	})
	for _, fl := range lits {
		fl.Body = &ast.BlockStmt{}
	}
	var b bytes.Buffer
	printer.Fprint(&b, w.fset, n)
	for i, fl := range lits {
		fl.Body = saved[i]
	}
	s := strings.Join(strings.Fields(b.String()), " ")
	// the trailing comma of a call or literal spread over several lines
	s = strings.NewReplacer(", )", ")", ", }", "}", ", ]", "]").Replace(s)
	if len(lits) > 0 {
		s = strings.ReplaceAll(s, "{ }", "{…}")
		s = strings.ReplaceAll(s, "{}", "{…}")
	}
	return s, lits
}

func (w *skelWalker) emit(depth int, text string) {
	w.rows = append(w.rows, skelRow{depth, text})
}

// emitNode emits one row for n (prefix + text) and the bodies of its function literals.
func (w *skelWalker) emitNode(depth int, prefix string, n ast.Node) {
	s, lits := w.text(n)
	w.emit(depth, prefix+s)
	w.literals(depth, lits)
}

func (w *skelWalker) literals(depth int, lits []*ast.FuncLit) {
	for i, fl := range lits {
		w.emit(depth+1, fmt.Sprintf("func literal %d", i+1))
		w.block(depth+2, fl.Body)
	}
}

func (w *skelWalker) block(depth int, b *ast.BlockStmt) {
	if b == nil {
		return
	}
	for _, s := range b.List {
		w.stmt(depth, s)
	}
}

// header joins the non-empty parts of a statement header: "if a := f(); a != nil".
func (w *skelWalker) header(depth int, kw string, parts ...ast.Node) []*ast.FuncLit {
	var txt []string
	var lits []*ast.FuncLit
	for _, p := range parts {
		if p == nil {
			continue
		}
		s, l := w.text(p)
		txt = append(txt, s)
		lits = append(lits, l...)
	}
	row := kw
	if len(txt) > 0 {
		row += " " + strings.Join(txt, "; ")
	}
	w.emit(depth, row)
	return lits
}

func nodeOrNil(s ast.Stmt) ast.Node {
	if s == nil {
		return nil
	}
	return s
}

func exprOrNil(e ast.Expr) ast.Node {
	if e == nil {
		return nil
	}
	return e
}

func (w *skelWalker) ifStmt(depth int, kw string, v *ast.IfStmt) {
	lits := w.header(depth, kw, nodeOrNil(v.Init), v.Cond)
	w.literals(depth, lits)
	w.block(depth+1, v.Body)
	switch e := v.Else.(type) {
	case nil:
	case *ast.IfStmt:
		w.ifStmt(depth, "else if", e)
	case *ast.BlockStmt:
		w.emit(depth, "else")
		w.block(depth+1, e)
	}
}

func (w *skelWalker) stmt(depth int, s ast.Stmt) {
	if skelIsNoise(s) {
		return
	}
	switch v := s.(type) {
	case *ast.BlockStmt:
		w.emit(depth, "{")
		w.block(depth+1, v)
	case *ast.IfStmt:
		w.ifStmt(depth, "if", v)
	case *ast.ForStmt:
		var lits []*ast.FuncLit
		if v.Init == nil && v.Post == nil {
			lits = w.header(depth, "for", exprOrNil(v.Cond))
		} else {
			i, l1 := w.text(nodeOrNil(v.Init))
			c, l2 := w.text(exprOrNil(v.Cond))
			p, l3 := w.text(nodeOrNil(v.Post))
			w.emit(depth, "for "+i+"; "+c+"; "+p)
			lits = append(append(l1, l2...), l3...)
		}
		w.literals(depth, lits)
		w.block(depth+1, v.Body)
	case *ast.RangeStmt:
		body := v.Body
		v.Body = &ast.BlockStmt{}
		s, lits := w.text(v)
		v.Body = body
		s = strings.TrimSpace(strings.TrimSuffix(strings.TrimSuffix(s, "{…}"), "{}"))
		s = strings.TrimSpace(strings.TrimSuffix(s, "{ }"))
		w.emit(depth, s)
		w.literals(depth, lits)
		w.block(depth+1, body)
	case *ast.SwitchStmt:
		lits := w.header(depth, "switch", nodeOrNil(v.Init), exprOrNil(v.Tag))
		w.literals(depth, lits)
		w.clauses(depth+1, v.Body)
	case *ast.TypeSwitchStmt:
		lits := w.header(depth, "switch", nodeOrNil(v.Init), v.Assign)
		w.literals(depth, lits)
		w.clauses(depth+1, v.Body)
	case *ast.SelectStmt:
		w.emit(depth, "select")
		w.clauses(depth+1, v.Body)
	case *ast.LabeledStmt:
		w.emit(depth, v.Label.Name+":")
		w.stmt(depth, v.Stmt)
	case *ast.GoStmt:
		w.emitNode(depth, "go ", v.Call)
	case *ast.DeferStmt:
		w.emitNode(depth, "defer ", v.Call)
	case *ast.EmptyStmt:
	default:
		// assignment, declaration, expression statement, inc/dec, send, return, branch
		w.emitNode(depth, "", s)
	}
}

func (w *skelWalker) clauses(depth int, b *ast.BlockStmt) {
	for _, c := range b.List {
		switch v := c.(type) {
		case *ast.CaseClause:
			if v.List == nil {
				w.emit(depth, "default")
			} else {
				var xs []string
				var lits []*ast.FuncLit
				for _, e := range v.List {
					s, l := w.text(e)
					xs = append(xs, s)
					lits = append(lits, l...)
				}
				w.emit(depth, "case "+strings.Join(xs, ", "))
				w.literals(depth, lits)
			}
			for _, s := range v.Body {
				w.stmt(depth+1, s)
			}
		case *ast.CommClause:
			if v.Comm == nil {
				w.emit(depth, "default")
			} else {
				w.emitNode(depth, "case ", v.Comm)
			}
			for _, s := range v.Body {
				w.stmt(depth+1, s)
			}
		}
	}
}

// skeletonOf renders fd (which must have a body).
func skeletonOf(fset *token.FileSet, fd *ast.FuncDecl) []skelRow {
	w := &skelWalker{fset: fset}
	head := "func "
	if fd.Recv != nil && len(fd.Recv.List) > 0 {
		var b bytes.Buffer
		printer.Fprint(&b, fset, fd.Recv.List[0].Type)
		names := ""
		for i, n := range fd.Recv.List[0].Names {
			if i > 0 {
				names += ", "
			}
			names += n.Name
		}
		if names != "" {
			names += " "
		}
		head += "(" + names + strings.Join(strings.Fields(b.String()), " ") + ") "
	}
	sig, lits := w.text(fd.Type)
	head += fd.Name.Name + strings.TrimPrefix(sig, "func")
	w.emit(0, head)
	w.literals(0, lits)
	w.block(1, fd.Body)
	return w.rows
}

// ---------------------------------------------------------------------------------------------

// skelSpec names one pinned function.
type skelSpec struct {
	group string   // Props module suffix: "C06" -> Gen/SkelC06.lean, Props/SkelC06.lean
	props []string // properties whose tie breaks when the function cannot be found
	dir   string   // package directory relative to the repository root
	unit  string   // Lean namespace component under Gen.Skel / Model.Skel
	fn    string   // "name" or "Recv.name" (receiver type without the star)
	lean  string   // Lean definition name (default: fn with '.' replaced by '_')
}

var skelSpecs []skelSpec

// registerSkeleton is called from x_skel.go.
func registerSkeleton(group string, props []string, dir, unit string, fns ...string) {
	for _, fn := range fns {
		lean := fn
		if i := strings.Index(fn, "="); i >= 0 { // "leanName=Recv.name"
			lean, fn = fn[:i], fn[i+1:]
		}
		skelSpecs = append(skelSpecs, skelSpec{group, props, dir, unit, fn, strings.ReplaceAll(lean, ".", "_")})
	}
}

var skelDump = flag.String("skel-dump", "", "directory to write the skeleton rows to, in transcription layout")

// skelParse parses the non-test, non-hook, linux/std-neutral Go files of dir with a private
// file set (the walker temporarily edits function literals, so it does not share ASTs).
func skelParse(fset *token.FileSet, dir string) ([]*ast.File, error) {
	ents, err := os.ReadDir(dir)
	if err != nil {
		return nil, err
	}
	var files []*ast.File
	for _, ent := range ents {
		n := ent.Name()
		if ent.IsDir() || !strings.HasSuffix(n, ".go") || strings.HasSuffix(n, "_test.go") || strings.HasPrefix(n, "verif_") ||
			strings.HasSuffix(n, "_verif.go") || strings.HasSuffix(n, "_darwin.go") || strings.HasSuffix(n, "_std.go") {
			continue
		}
		f, err := parser.ParseFile(fset, filepath.Join(dir, n), nil, parser.SkipObjectResolution)
		if err != nil {
			return nil, err
		}
		files = append(files, f)
	}
	return files, nil
}

func skelLeanRows(rows []skelRow) string {
	var sb strings.Builder
	sb.WriteString("[\n")
	for i, r := range rows {
		fmt.Fprintf(&sb, "  (%d, %s)", r.depth, leanString(r.text))
		if i+1 < len(rows) {
			sb.WriteByte(',')
		}
		sb.WriteByte('\n')
	}
	sb.WriteString("  ]")
	return sb.String()
}

// emitSkeletons writes Gen/Skel<Group>.lean for every registered group.
func emitSkeletons(repo, out string) {
	fset := token.NewFileSet()
	pkgs := map[string][]*ast.File{}
	byGroup := map[string][]skelSpec{}
	var groups []string
	for _, sp := range skelSpecs {
		if _, ok := byGroup[sp.group]; !ok {
			groups = append(groups, sp.group)
		}
		byGroup[sp.group] = append(byGroup[sp.group], sp)
	}
	sort.Strings(groups)
	if *skelDump != "" {
		os.MkdirAll(*skelDump, 0o755)
	}
	for _, g := range groups {
		var sb strings.Builder
		fmt.Fprintf(&sb, "/- GENERATED by harness/extract (skeleton.go, x_skel.go) from /repo on every run — do not edit.\n")
		fmt.Fprintf(&sb, "   Control skeletons pinned by ScionTime.Props.Skel%s against ScionTime.Model.Skel.*. -/\n", g)
		fmt.Fprintf(&sb, "namespace ScionTime.Gen.Skel\n")
		for _, sp := range byGroup[g] {
			files, ok := pkgs[sp.dir]
			if !ok {
				var err error
				files, err = skelParse(fset, filepath.Join(repo, sp.dir))
				if err != nil {
					withOwner(strings.Join(sp.props, ","), func() { broken("skeleton: package %s: %v", sp.dir, err) })
				}
				pkgs[sp.dir] = files
			}
			fd := findFunc(files, sp.fn)
			var rows []skelRow
			if fd == nil || fd.Body == nil {
				withOwner(strings.Join(sp.props, ","), func() {
					broken("skeleton: function %s not found in %s (pinned by Props/Skel%s.lean: %s_skel_%s_%s)", sp.fn, sp.dir, g, g, sp.unit, sp.lean)
				})
				rows = []skelRow{{0, "MISSING func " + sp.fn + " in " + sp.dir}}
			} else {
				rows = skeletonOf(fset, fd)
			}
			fmt.Fprintf(&sb, "\n/-- %s, %s (%d rows) -/\ndef %s.%s : List (Nat × String) := %s\n", sp.dir, sp.fn, len(rows), sp.unit, sp.lean, skelLeanRows(rows))
			if *skelDump != "" {
				os.WriteFile(filepath.Join(*skelDump, g+"."+sp.unit+"."+sp.lean+".rows"), []byte(skelLeanRows(rows)+"\n"), 0o644)
			}
		}
		fmt.Fprintf(&sb, "\nend ScionTime.Gen.Skel\n")
		writeIfChanged(filepath.Join(out, "Skel"+g+".lean"), sb.String())
	}
}
