package main

import (
	"fmt"
	"go/ast"
	"go/constant"
	"go/token"
	"sort"
	"strings"
)

// C14 (NTS-KE clauses): the model's transport is a list of chunks without a clock, i.e. the
// client code waits for the response for as long as it takes. Read deadlines / timeouts that
// net/ntske sets are exported as
//
//	def clientReadDeadlinesNs : List Int := [..]
//
// (X in SetReadDeadline(time.Now().Add(X)), SetDeadline(time.Now().Add(X)),
// context.WithTimeout(_, X); clearing a deadline with time.Time{} is not one). The list is
// empty on a tree without such calls; a call whose argument cannot be evaluated is a broken
// tie. Props/C14Ntske pins the list (C14Ntske_pin_no_read_deadline); the harness
// (cmd/c20/h/paused.go) places its pauses around the same values.
func init() {
	registerLocals("net/ntske", func(files []*ast.File, fset *token.FileSet) []string {
		ev := &evaluator{decls: map[string]ast.Expr{}, iotas: map[string]int{}, memo: map[string]constant.Value{}, busy: map[string]bool{}}
		for _, f := range files {
			if strings.HasPrefix(baseName(fset, f), "verif_") {
				continue
			}
			ast.Inspect(f, func(n ast.Node) bool {
				if vs, ok := n.(*ast.ValueSpec); ok {
					for i, nm := range vs.Names {
						if i < len(vs.Values) {
							if _, dup := ev.decls[nm.Name]; !dup {
								ev.decls[nm.Name] = vs.Values[i]
							}
						}
					}
				}
				return true
			})
		}
		isTimeNow := func(x ast.Expr) bool {
			c, ok := x.(*ast.CallExpr)
			if !ok {
				return false
			}
			s, ok := c.Fun.(*ast.SelectorExpr)
			if !ok || s.Sel.Name != "Now" {
				return false
			}
			id, ok := s.X.(*ast.Ident)
			return ok && id.Name == "time"
		}
		seen := map[int64]bool{}
		note := func(x ast.Expr, pos token.Pos) {
			v := ev.eval(x, 0)
			if v.Kind() == constant.Float {
				v = constant.ToInt(v)
			}
			if n, ok := constant.Int64Val(v); v.Kind() == constant.Int && ok {
				seen[n] = true
				return
			}
			broken("net/ntske: deadline / timeout at %s is not a constant expression", fset.Position(pos))
		}
		for _, f := range files {
			if strings.HasPrefix(baseName(fset, f), "verif_") {
				continue
			}
			ast.Inspect(f, func(n ast.Node) bool {
				call, ok := n.(*ast.CallExpr)
				if !ok {
					return true
				}
				sel, ok := call.Fun.(*ast.SelectorExpr)
				if !ok {
					return true
				}
				switch {
				case (sel.Sel.Name == "SetReadDeadline" || sel.Sel.Name == "SetDeadline") && len(call.Args) == 1:
					if cl, ok := call.Args[0].(*ast.CompositeLit); ok && len(cl.Elts) == 0 {
						return true
					}
					if add, ok := call.Args[0].(*ast.CallExpr); ok {
						if as, ok := add.Fun.(*ast.SelectorExpr); ok && as.Sel.Name == "Add" && len(add.Args) == 1 && isTimeNow(as.X) {
							note(add.Args[0], call.Pos())
							return true
						}
					}
					broken("net/ntske: %s at %s: argument is not time.Now().Add(<constant>)", sel.Sel.Name, fset.Position(call.Pos()))
				case sel.Sel.Name == "WithTimeout" && len(call.Args) == 2:
					if id, ok := sel.X.(*ast.Ident); ok && id.Name == "context" {
						note(call.Args[1], call.Pos())
					}
				}
				return true
			})
		}
		var vals []int64
		for v := range seen {
			vals = append(vals, v)
		}
		sort.Slice(vals, func(i, j int) bool { return vals[i] < vals[j] })
		ss := make([]string, len(vals))
		for i, v := range vals {
			ss[i] = fmt.Sprint(v)
		}
		return []string{"def clientReadDeadlinesNs : List Int := [" + strings.Join(ss, ", ") + "]"}
	})
}

func baseName(fset *token.FileSet, f *ast.File) string {
	name := fset.Position(f.Pos()).Filename
	if i := strings.LastIndexByte(name, '/'); i >= 0 {
		name = name[i+1:]
	}
	return name
}
