package main

// Extractor extension for C03/C05: constants inside the two per-exchange client functions
// (retry limit, interleaved-mode window and its comparison operator).

import (
	"fmt"
	"go/ast"
	"go/token"
)

func init() {
	registerLocals("core/client", func(files []*ast.File, fset *token.FileSet) []string {
		var out []string
		for _, fn := range []struct{ name, tag string }{
			{"IPClient.measureClockOffsetIP", "IP"},
			{"SCIONClient.measureClockOffsetSCION", "SCION"},
		} {
			fd := findFunc(files, fn.name)
			if fd == nil || fd.Body == nil {
				broken("function %s not found", fn.name)
				continue
			}
			retries, window, op := "", "", ""
			ast.Inspect(fd.Body, func(n ast.Node) bool {
				switch x := n.(type) {
				case *ast.ValueSpec:
					if len(x.Names) == 1 && x.Names[0].Name == "maxNumRetries" && len(x.Values) == 1 {
						if l, ok := x.Values[0].(*ast.BasicLit); ok {
							retries = l.Value
						}
					}
				case *ast.BinaryExpr:
					// <expr>.Sub(...) <op> N*time.Second
					if x.Op == token.LEQ || x.Op == token.LSS {
						if m, ok := x.Y.(*ast.BinaryExpr); ok && m.Op == token.MUL {
							l, ok1 := m.X.(*ast.BasicLit)
							s, ok2 := m.Y.(*ast.SelectorExpr)
							if ok1 && ok2 && s.Sel.Name == "Second" {
								window = l.Value
								op = x.Op.String()
							}
						}
					}
				}
				return true
			})
			if retries == "" || window == "" {
				broken("%s: maxNumRetries / interleaved window not found in the expected shape", fn.name)
				continue
			}
			out = append(out,
				fmt.Sprintf("def maxNumRetries%s : Int := %s", fn.tag, retries),
				fmt.Sprintf("def windowSeconds%s : Int := %s", fn.tag, window),
				fmt.Sprintf("def windowInclusive%s : Bool := %v", fn.tag, op == "<="))
		}
		return out
	})
}
