package main

// Extractor extension for C02 and C18: the integer literals the models depend on live
// inside function bodies (f := (n - 1) / 3, (y-x)/2, nsec / 1e9, s > 1<<48-1, i >> 16).
// They are exported into Gen and pinned by theorems C02_pin_* / C18_pin_*; a shape that
// can no longer be found breaks the tie.

import (
	"fmt"
	"go/ast"
	"go/constant"
	"go/token"
)

func litInt(x ast.Expr) (string, bool) {
	ev := &evaluator{decls: map[string]ast.Expr{}, iotas: map[string]int{}, memo: map[string]constant.Value{}, busy: map[string]bool{}}
	v := ev.eval(x, 0)
	if v.Kind() == constant.Float && constant.ToInt(v).Kind() == constant.Int {
		v = constant.ToInt(v)
	}
	if v.Kind() != constant.Int {
		return "", false
	}
	return v.ExactString(), true
}

// opLits returns the constant right operands of every binary operator op (and of the
// corresponding op= assignment) in the body of fd, in source order.
func opLits(fd *ast.FuncDecl, op token.Token, assignOp token.Token) []string {
	var out []string
	ast.Inspect(fd.Body, func(n ast.Node) bool {
		switch v := n.(type) {
		case *ast.BinaryExpr:
			if v.Op == op {
				if s, ok := litInt(v.Y); ok {
					out = append(out, s)
				}
			}
		case *ast.AssignStmt:
			if v.Tok == assignOp && len(v.Rhs) == 1 {
				if s, ok := litInt(v.Rhs[0]); ok {
					out = append(out, s)
				}
			}
		}
		return true
	})
	return out
}

// single demands that all collected literals are the same value and that there are
// exactly want of them.
func single(what string, lits []string, want int) (string, bool) {
	if len(lits) != want {
		broken("%s: expected %d constant operand(s), found %d", what, want, len(lits))
		return "", false
	}
	for _, l := range lits {
		if l != lits[0] {
			broken("%s: operands differ: %v", what, lits)
			return "", false
		}
	}
	return lits[0], true
}

// ftmIndex finds `f := (n - a) / b` in fd.
func ftmIndex(what string, fd *ast.FuncDecl) (a, b string, ok bool) {
	ast.Inspect(fd.Body, func(n ast.Node) bool {
		as, isAs := n.(*ast.AssignStmt)
		if !isAs || len(as.Lhs) != 1 || len(as.Rhs) != 1 {
			return true
		}
		id, isID := as.Lhs[0].(*ast.Ident)
		if !isID || id.Name != "f" {
			return true
		}
		q, isQ := as.Rhs[0].(*ast.BinaryExpr)
		if !isQ || q.Op != token.QUO {
			return true
		}
		p, isP := q.X.(*ast.ParenExpr)
		if !isP {
			return true
		}
		s, isS := p.X.(*ast.BinaryExpr)
		if !isS || s.Op != token.SUB {
			return true
		}
		if nid, isN := s.X.(*ast.Ident); !isN || nid.Name != "n" {
			return true
		}
		a1, ok1 := litInt(s.Y)
		b1, ok2 := litInt(q.Y)
		if ok1 && ok2 {
			a, b, ok = a1, b1, true
		}
		return true
	})
	if !ok {
		broken("%s: shape `f := (n - a) / b` not found", what)
	}
	return
}

func init() {
	registerLocals("base/timemath", func(files []*ast.File, fset *token.FileSet) []string {
		var out []string
		if fd := findFunc(files, "FaultTolerantMidpoint"); fd != nil {
			if a, b, ok := ftmIndex("timemath.FaultTolerantMidpoint", fd); ok {
				out = append(out, fmt.Sprintf("def ftmIndexSub : Int := %s", a), fmt.Sprintf("def ftmIndexDiv : Int := %s", b))
			}
		} else {
			broken("timemath.FaultTolerantMidpoint not found")
		}
		if fd := findFunc(files, "Midpoint"); fd != nil {
			if v, ok := single("timemath.Midpoint divisor", opLits(fd, token.QUO, token.QUO_ASSIGN), 1); ok {
				out = append(out, fmt.Sprintf("def midpointDiv : Int := %s", v))
			}
		} else {
			broken("timemath.Midpoint not found")
		}
		if fd := findFunc(files, "Median"); fd != nil {
			d, ok1 := single("timemath.Median index divisor", opLits(fd, token.QUO, token.QUO_ASSIGN), 1)
			m, ok2 := single("timemath.Median parity modulus", opLits(fd, token.REM, token.REM_ASSIGN), 1)
			if ok1 && ok2 {
				out = append(out, fmt.Sprintf("def medianIndexDiv : Int := %s", d), fmt.Sprintf("def medianParityMod : Int := %s", m))
			}
		} else {
			broken("timemath.Median not found")
		}
		return out
	})
	registerLocals("core/measurements", func(files []*ast.File, fset *token.FileSet) []string {
		var out []string
		if fd := findFunc(files, "FaultTolerantMidpoint"); fd != nil {
			if a, b, ok := ftmIndex("measurements.FaultTolerantMidpoint", fd); ok {
				out = append(out, fmt.Sprintf("def ftmIndexSub : Int := %s", a), fmt.Sprintf("def ftmIndexDiv : Int := %s", b))
			}
		} else {
			broken("measurements.FaultTolerantMidpoint not found")
		}
		if fd := findFunc(files, "midpoint"); fd != nil {
			// offset midpoint and the two timestamp branches
			if v, ok := single("measurements.midpoint divisors", opLits(fd, token.QUO, token.QUO_ASSIGN), 3); ok {
				out = append(out, fmt.Sprintf("def midpointDiv : Int := %s", v))
			}
		} else {
			broken("measurements.midpoint not found")
		}
		return out
	})
	registerLocals("base/unixutil", func(files []*ast.File, fset *token.FileSet) []string {
		var out []string
		// freq.go: `freq * (65536.0 * 1e6)` and `float64(scaledPPM) / (65536.0 * 1e6)`:
		// the outermost constant operand (pre-order: first literal found) is the scale.
		if fd := findFunc(files, "ScaledPPMFromFreq"); fd != nil {
			l := opLits(fd, token.MUL, token.MUL_ASSIGN)
			if len(l) == 2 {
				out = append(out, fmt.Sprintf("def scaledPPMFromFreqScale : Int := %s", l[0]))
			} else {
				broken("unixutil.ScaledPPMFromFreq: shape `freq * (a * b)` not found")
			}
		} else {
			broken("unixutil.ScaledPPMFromFreq not found")
		}
		if fd := findFunc(files, "FreqFromScaledPPM"); fd != nil {
			l := opLits(fd, token.QUO, token.QUO_ASSIGN)
			if len(l) == 1 {
				out = append(out, fmt.Sprintf("def freqFromScaledPPMScale : Int := %s", l[0]))
			} else {
				broken("unixutil.FreqFromScaledPPM: shape `float64(x) / (a * b)` not found")
			}
		} else {
			broken("unixutil.FreqFromScaledPPM not found")
		}
		fd := findFunc(files, "TimevalFromNsec")
		if fd == nil {
			broken("unixutil.TimevalFromNsec not found")
			return nil
		}
		q, ok1 := single("unixutil.TimevalFromNsec divisor", opLits(fd, token.QUO, token.QUO_ASSIGN), 1)
		m, ok2 := single("unixutil.TimevalFromNsec modulus", opLits(fd, token.REM, token.REM_ASSIGN), 1)
		a, ok3 := single("unixutil.TimevalFromNsec remainder fix", opLits(fd, token.ADD, token.ADD_ASSIGN), 1)
		s, ok4 := single("unixutil.TimevalFromNsec second fix", opLits(fd, token.SUB, token.SUB_ASSIGN), 1)
		if ok1 && ok2 && ok3 && ok4 {
			out = append(out, fmt.Sprintf("def timevalDiv : Int := %s", q), fmt.Sprintf("def timevalMod : Int := %s", m),
				fmt.Sprintf("def timevalFixAdd : Int := %s", a), fmt.Sprintf("def timevalFixSub : Int := %s", s))
		}
		return out
	})
	registerLocals("net/csptp", func(files []*ast.File, fset *token.FileSet) []string {
		var out []string
		if fd := findFunc(files, "TimestampFromTime"); fd != nil {
			lo, ok1 := single("csptp.TimestampFromTime lower bound", opLits(fd, token.LSS, token.ILLEGAL), 1)
			hi, ok2 := single("csptp.TimestampFromTime upper bound", opLits(fd, token.GTR, token.ILLEGAL), 1)
			if ok1 && ok2 {
				out = append(out, fmt.Sprintf("def timestampMinSec : Int := %s", lo), fmt.Sprintf("def timestampMaxSec : Int := %s", hi))
			}
		} else {
			broken("csptp.TimestampFromTime not found")
		}
		if fd := findFunc(files, "DurationFromTimeInterval"); fd != nil {
			if v, ok := single("csptp.DurationFromTimeInterval shift", opLits(fd, token.SHR, token.SHR_ASSIGN), 1); ok {
				out = append(out, fmt.Sprintf("def timeIntervalShift : Int := %s", v))
			}
		} else {
			broken("csptp.DurationFromTimeInterval not found")
		}
		for _, name := range []string{"MeanPathDelay", "ClockOffset"} {
			if fd := findFunc(files, name); fd != nil {
				if v, ok := single("csptp."+name+" divisor", opLits(fd, token.QUO, token.QUO_ASSIGN), 1); ok {
					out = append(out, fmt.Sprintf("def div%s : Int := %s", name, v))
				}
			} else {
				broken("csptp.%s not found", name)
			}
		}
		return out
	})
}
