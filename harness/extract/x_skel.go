package main

// Registration of the control skeletons (skeleton.go): which functions are rendered, into which
// Gen/Skel<Group>.lean, and which properties' tie is broken when a function disappears.
// Transcriptions: lean/ScionTime/Model/Skel/<Unit>.lean; pins: lean/ScionTime/Props/Skel<Group>.lean.
// See notes/SKEL.md.

import (
	"flag"
	"go/ast"
	"go/token"
)

func init() {
	// listeners and the timestamp store (Model/Server.lean, ServerReply.lean, ServerFill.lean,
	// ListenerTx.lean, ScionSrv.lean)
	registerSkeleton("C06", []string{"C06", "C07", "C09"}, "core/server", "Server",
		"handleRequest", "updateTXTimestamp", "runIPServer", "runSCIONServer")

	// the two NTP clients and their wrappers (Model/ClientNtp.lean, Multipath.lean, NtsPool.lean)
	registerSkeleton("C03", []string{"C03", "C05", "C10", "C11", "C15"}, "core/client", "Client",
		"IPClient.measureClockOffsetIP", "SCIONClient.measureClockOffsetSCION", "MeasureClockOffsetIP", "MeasureClockOffsetSCION")

	// the collector and the sync loop (Model/Collect.lean, Sync.lean)
	registerSkeleton("C16", []string{"C16", "C01"}, "core/client", "Collect",
		"collectMeasurements", "ReferenceClockClient.MeasureClockOffsets")
	registerSkeleton("C16", []string{"C16", "C01"}, "core/sync", "Sync",
		"Run", "measureOffsetToRefClks", "localReferenceClock.MeasureClockOffset")

	// NTS key exchange, client and server side (Model/Ntske.lean, NtskeSrv.lean)
	registerSkeleton("C20", []string{"C20", "C14"}, "net/ntske", "Ntske",
		"Fetcher.exchangeKeys", "Fetcher.FetchData", "Fetcher.StoreCookie", "ReadData", "ExportKeys",
		"dialTLS", "exchangeDataTLS", "dialQUIC", "exchangeDataQUIC")
	registerSkeleton("C20", []string{"C20", "C14"}, "core/server", "NtskeSrv",
		"newNTSKEMsg", "writeNTSKEErrorMsgTLS", "handleKeyExchangeTLS", "runNTSKEServerTLS",
		"writeNTSKEErrorMsgQUIC", "handleKeyExchangeQUIC", "runNTSKEServerQUIC")

	// NTS packet codec and authentication, server cookies (Model/Nts.lean, Cookies.lean)
	registerSkeleton("C10", []string{"C10", "C14", "C11"}, "net/nts", "Nts",
		"NewRequestPacket", "maxNumCookies", "EncodePacket", "DecodePacket", "Packet.FirstCookie", "Packet.authenticate",
		"ProcessResponse", "NewResponsePacket", "ProcessRequest")
	registerSkeleton("C10", []string{"C10", "C14", "C11"}, "net/ntske", "Cookies",
		"ServerCookie.Encode", "ServerCookie.Decode", "EncryptedServerCookie.Encode", "EncryptedServerCookie.Decode",
		"ServerCookie.EncryptWithNonce", "EncryptedServerCookie.Decrypt")

	// key provider (Model/Provider.lean)
	registerSkeleton("C12", []string{"C12"}, "net/ntske", "Provider",
		"Key.IsValidAt", "Provider.generateNext", "NewProvider", "Provider.Get", "Provider.Current")

	// DRKey fetcher, derivation, SPAO helpers (Model/DrkeyFetch.lean, ScionSrv.lean)
	registerSkeleton("C13", []string{"C13"}, "net/scion", "Scion",
		"UseMockKeys", "Fetcher.FetchHostASKey", "Fetcher.FetchHostHostKey", "NewFetcher",
		"FetchHostASKey", "DeriveHostHostKey", "FetchHostHostKey",
		"PacketAuthOptMetadata", "PacketAuthOptMAC", "PreparePacketAuthOpt")

	// sampling and the pather (Model/Sample.lean, Multipath.lean)
	registerSkeleton("C15", []string{"C15"}, "base/crypto", "Crypto",
		"randInt31", "randInt63", "RandIntn", "Sample")
	registerSkeleton("C15", []string{"C15"}, "net/scion", "Pather",
		"Pather.LocalIA", "Pather.Paths", "update", "StartPather")

	// filters (Model/Filters.lean)
	registerSkeleton("C17", []string{"C17"}, "core/client", "Filters",
		"LuckyPacketFilter.Do", "LuckyPacketFilter.Reset", "combine", "NtimedFilter.Do", "NtimedFilter.Reset")

	// PLL and system clock (Model/Pll.lean, PllClock.lean, SysClock.lean)
	registerSkeleton("C19", []string{"C19"}, "core/sync/adjustments", "Pll", "Pll.Do")
	registerSkeleton("C19", []string{"C19"}, "driver/clocks", "SysClock",
		"now", "sleep", "setOffset", "setFrequency", "SystemClock.Epoch", "SystemClock.Now", "SystemClock.Drift",
		"SystemClock.Step", "SystemClock.Adjust", "SystemClock.Sleep")

	// socket helpers and the SCION packet connections under QUIC (Model/Udp.lean, ScionQuic.lean)
	registerSkeleton("C08", []string{"C08"}, "net/udp", "Udp",
		"TimestampFromOOBData", "timestampFromOOBData", "ReadTXTimestamp")
	registerSkeleton("C08", []string{"C08"}, "net/scion", "Quic",
		"baseConn.readPkt", "serverConn.ReadFrom", "clientConn.ReadFrom")

	// second wave: codec leaves of the NTS and NTS-KE wire formats, listener start-up
	registerSkeleton("C10", []string{"C10", "C14", "C11"}, "net/nts", "NtsExt",
		"extHdr.pack", "extHdr.unpack", "UniqueIdentifier.pack", "UniqueIdentifier.unpack", "newID",
		"Cookie.pack", "Cookie.unpack", "CookiePlaceholder.pack", "CookiePlaceholder.unpack",
		"Authenticator.pack", "Authenticator.unpack")
	registerSkeleton("C20", []string{"C20", "C14"}, "net/ntske", "NtskeRec",
		"RecordHdr.pack", "packsimple", "packheader", "ExchangeMsg.Pack", "ExchangeMsg.AddRecord",
		"NextProto.pack", "End.pack", "Server.pack", "Port.pack", "Cookie.pack", "Warning.pack", "Error.pack", "Algorithm.pack",
		"AcceptTLSConn", "setBit", "hasBit")
	registerSkeleton("C06", []string{"C06", "C07", "C09"}, "core/server", "ServerStart",
		"StartIPServer", "StartSCIONServer", "StartSCIONDispatcher")
	registerSkeleton("C20", []string{"C20", "C14"}, "core/server", "NtskeSrvStart",
		"StartNTSKEServerIP", "StartNTSKEServerSCION")

	registerFact(func(repo string, parsed map[string][]*ast.File, fset *token.FileSet) {
		out := "/verif/lean/ScionTime/Gen"
		if f := flag.Lookup("out"); f != nil {
			out = f.Value.String()
		}
		emitSkeletons(repo, out)
	})
}
