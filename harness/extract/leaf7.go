package main

// Leaf translator, seventh generation: the statement translator for functions with loops, maps,
// byte slices, slices with a capacity, callbacks and randomness (notes/LEAF.md lists every
// construct with its rendering and the argument why it is faithful). It is written in
// continuation-passing style — seq(stmts, k) renders the statements followed by whatever k()
// renders — so that an `if` whose body may jump (return / break / continue / panic) simply gets the
// rest of the function in both branches. Go's block scoping is kept: a `:=` in a nested block
// that shadows a visible variable gets a fresh Lean name, and only assignments to variables that
// live outside a block are carried out of it. The first six generations keep their own
// translator (leaf.go: block) so that their output stays byte for byte what their proofs expect.

import (
	"fmt"
	"go/ast"
	"go/constant"
	"go/token"
	"sort"
	"strconv"
	"strings"
)

// leafInfo: what callers need to know about a translated leaf
type leafInfo struct {
	lean    string
	mode    int      // 0: pure, 1: Option (none = panic), 2: Go.Out (panic with message / stuck)
	outs    []string // pointer receiver / pointer parameters whose updated values are returned first (by position: "recv" or parameter index as string)
	threads []string // implicit state passed in and handed back: "rnd"
	externs []string // extra parameters (names)
	ret     string   // type of the value ("" none, "T:a,b" tuple)
	nparams int      // -1: not recorded (first six generations)
	file    string   // Gen module of the definition
}

const (
	modePure = 0
	modeOpt  = 1
	modeOut  = 2
)

type scopeSnap struct {
	vars  map[string]string
	ren   map[string]string
	depth map[string]int
}

func copyMap[V any](m map[string]V) map[string]V {
	r := make(map[string]V, len(m))
	for k, v := range m {
		r[k] = v
	}
	return r
}

func (c *leafCtx) snap() scopeSnap {
	return scopeSnap{copyMap(c.vars), copyMap(c.ren), copyMap(c.declDepth)}
}

func (c *leafCtx) restore(s scopeSnap) {
	c.vars, c.ren, c.declDepth = copyMap(s.vars), copyMap(s.ren), copyMap(s.depth)
}

// lname: the Lean name of the visible Go variable n
func (c *leafCtx) lname(n string) string {
	if r, ok := c.ren[n]; ok {
		return r
	}
	return n
}

// declare introduces variable n of type t in the current scope (a fresh Lean name when it would
// shadow a visible variable of an enclosing scope) and returns its Lean name
func (c *leafCtx) declare(n, t string) string {
	if strings.HasPrefix(n, "ext_") || strings.HasPrefix(n, "cb_") || strings.HasPrefix(n, "_") || n == "rnd" || n == "acts" {
		if n != "_" {
			c.fail("variable name %s collides with the translator's own names", n)
		}
	}
	ln := leanName(n)
	if _, visible := c.vars[n]; visible && c.declDepth[n] < c.depth {
		c.nshadow++
		ln = fmt.Sprintf("%s_%d", n, c.nshadow)
	}
	if c.ren == nil {
		c.ren = map[string]string{}
	}
	if ln != n {
		c.ren[n] = ln
	} else {
		delete(c.ren, n)
	}
	c.vars[n] = t
	c.declDepth[n] = c.depth
	return ln
}

// ---- outcomes -------------------------------------------------------------------------

func (c *leafCtx) ok(e string) string {
	switch c.mode {
	case modeOpt:
		return "some (" + e + ")"
	case modeOut:
		return "Go.Out.ok (" + e + ")"
	}
	return e
}

func (c *leafCtx) panicVal(msg string) string {
	c.failCount++
	switch c.mode {
	case modeOut:
		return "Go.Out.panic " + leanString(msg)
	}
	return "none"
}

func (c *leafCtx) stuckVal() string {
	c.stuckCount++
	return "Go.Out.stuck"
}

// jump: a value of the whole function, from wherever we are (inside loop bodies it ends the loop)
func (c *leafCtx) jump(v string) string {
	if len(c.loops) > 0 {
		return "Go.Ctl.ret (" + v + ")"
	}
	return v
}

// bindLine: prefix line that runs the failing computation x and names its value pat.
// kind: "opt:<class>" — an Option-valued operation of the prelude (none = run-time panic);
// "self" — a value in this function's own outcome type; "callee1"/"callee2" — a call of a leaf
// of mode Option / Out.
func (c *leafCtx) bindLine(x, pat, kind string) string {
	c.failCount++
	if kind == "callee2" || kind == "stuck" {
		c.stuckCount++
	}
	if strings.Contains(pat, ",") && !strings.HasPrefix(pat, "(") {
		pat = "(" + pat + ")"
	}
	inLoop := len(c.loops) > 0
	switch c.mode {
	case modeOut:
		switch {
		case strings.HasPrefix(kind, "opt:"):
			x = "(Go.Out.ofOption " + leanString(strings.TrimPrefix(kind, "opt:")) + " " + x + ")"
		case kind == "callee1":
			x = "(Go.Out.ofOption \"panic\" " + x + ")"
		case kind == "stuck":
			x = "(Go.Out.ofOptionStuck " + x + ")"
		}
		if inLoop {
			return "Go.Ctl.bindR " + x + " fun " + pat + " =>"
		}
		return "(" + x + ").bind fun " + pat + " =>"
	default:
		if kind == "callee2" || kind == "stuck" {
			c.fail("an operation that needs the Out outcome in a function translated without it")
		}
		if inLoop {
			return "Go.Ctl.bindO " + x + " fun " + pat + " =>"
		}
		return x + ".bind fun " + pat + " =>"
	}
}

// result7: what a return hands back — updated pointer targets first, then the threads, then the value
func (c *leafCtx) result7(e string) string {
	var parts []string
	for _, o := range c.outs {
		parts = append(parts, c.lname(o))
	}
	parts = append(parts, c.threads...)
	if e != "" {
		parts = append(parts, e)
	}
	if len(parts) == 0 {
		return "()"
	}
	s := parts[len(parts)-1]
	for i := len(parts) - 2; i >= 0; i-- {
		s = "(" + parts[i] + ", " + s + ")"
	}
	return s
}

func tupleTypeName(ret string) string {
	if strings.HasPrefix(ret, "T:") {
		var ps []string
		for _, t := range strings.Split(strings.TrimPrefix(ret, "T:"), ",") {
			ps = append(ps, leanTypeName(t))
		}
		return "(" + strings.Join(ps, " × ") + ")"
	}
	return leanTypeName(ret)
}

func threadType(t string) string {
	switch {
	case t == "rnd":
		return "(List UInt8)"
	case strings.HasPrefix(t, "cb_"):
		return "(List (Int64 × Int64))"
	case strings.HasPrefix(t, "sk_"):
		return "(List (List UInt8))"
	case t == "w":
		return "Go.World"
	}
	return "Unit"
}

// resultType7: the Lean type of the function's result (inside the outcome wrapper)
func (c *leafCtx) resultType7(ret string) string {
	var parts []string
	for _, o := range c.outs {
		parts = append(parts, leanTypeName(c.vars[o]))
	}
	for _, t := range c.threads {
		parts = append(parts, threadType(t))
	}
	if ret != "" {
		parts = append(parts, tupleTypeName(ret))
	}
	if len(parts) == 0 {
		return "Unit"
	}
	s := parts[len(parts)-1]
	for i := len(parts) - 2; i >= 0; i-- {
		s = "(" + parts[i] + " × " + s + ")"
	}
	return s
}

func (c *leafCtx) wrapType(t string) string {
	switch c.mode {
	case modeOpt:
		return "Option " + t
	case modeOut:
		return "Go.Out " + t
	}
	return t
}

// ---- analysis ---------------------------------------------------------------------------

// baseIdent: the variable an assignable expression (x, x.f.g, x[i], *x, (x)) is rooted in
func baseIdent(e ast.Expr) *ast.Ident {
	for {
		switch x := e.(type) {
		case *ast.Ident:
			return x
		case *ast.SelectorExpr:
			e = x.X
		case *ast.IndexExpr:
			e = x.X
		case *ast.StarExpr:
			e = x.X
		case *ast.ParenExpr:
			e = x.X
		case *ast.SliceExpr:
			e = x.X
		default:
			return nil
		}
	}
}

func isPkgCall(ce *ast.CallExpr, pkg, fn string) bool {
	f, ok := ce.Fun.(*ast.SelectorExpr)
	if !ok {
		return false
	}
	id, ok := f.X.(*ast.Ident)
	return ok && id.Name == pkg && f.Sel.Name == fn
}

// calleeInfo: the translated leaf a call refers to (nil if none), its receiver expression for a
// method call
func (c *leafCtx) calleeInfo(ce *ast.CallExpr) (*leafInfo, ast.Expr) {
	switch f := ce.Fun.(type) {
	case *ast.Ident:
		if _, isVar := c.vars[f.Name]; isVar {
			return nil, nil
		}
		if li, ok := c.infoOf[f.Name]; ok {
			return li, nil
		}
	case *ast.SelectorExpr:
		if id, ok := f.X.(*ast.Ident); ok {
			if _, isVar := c.vars[id.Name]; !isVar {
				if li, ok := globalInfo[id.Name+"."+f.Sel.Name]; ok {
					return li, nil
				}
				return nil, nil
			}
		}
		if _, t := c.peek(f.X); strings.HasPrefix(t, "S_") {
			if li, ok := c.infoOf[strings.TrimPrefix(t, "S_")+"."+f.Sel.Name]; ok {
				return li, f.X
			}
		}
	}
	return nil, nil
}

// effectsOfCalls adds to out what the calls inside n assign: the rnd stream, callback records,
// the slice rand.Read fills, the receiver of an updating method
func (c *leafCtx) effectsOfCalls(n ast.Node, local map[string]bool, out map[string]bool) {
	mark := func(e ast.Expr) {
		if id := baseIdent(e); id != nil && !local[id.Name] {
			out[id.Name] = true
		}
	}
	ast.Inspect(n, func(n ast.Node) bool {
		ce, ok := n.(*ast.CallExpr)
		if !ok {
			return true
		}
		if c.marksWorld(ce) {
			out["w"] = true
		}
		switch {
		case isPkgCall(ce, "rand", "Read") && len(ce.Args) == 1:
			out["rnd"] = true
			mark(ce.Args[0])
		case isPkgCall(ce, "slices", "Sort") || isPkgCall(ce, "slices", "SortFunc"):
			if len(ce.Args) >= 1 {
				mark(ce.Args[0])
			}
		}
		if isPutUint16(ce) {
			mark(ce.Args[0])
		}
		if id, ok := ce.Fun.(*ast.Ident); ok {
			switch id.Name {
			case "delete", "copy":
				if len(ce.Args) >= 1 {
					mark(ce.Args[0])
				}
			}
			if _, isCb := c.callbacks[id.Name]; isCb && !local[id.Name] {
				out["cb_"+id.Name] = true
			}
		}
		if f, ok := ce.Fun.(*ast.SelectorExpr); ok {
			if id, ok := f.X.(*ast.Ident); ok {
				if _, isSink := c.sinks[id.Name]; isSink && !local[id.Name] {
					out["sk_"+id.Name] = true
				}
			}
		}
		if li, recv := c.calleeInfo(ce); li != nil {
			for _, t := range li.threads {
				out[t] = true
			}
			for _, o := range li.outs {
				if o == "recv" && recv != nil {
					mark(recv)
				} else if i, err := strconv.Atoi(o); err == nil && i < len(ce.Args) {
					a := ce.Args[i]
					if u, ok := a.(*ast.UnaryExpr); ok && u.Op == token.AND {
						a = u.X
					}
					mark(a)
				}
			}
		}
		return true
	})
}

// assigned7: the variables living outside stmts that stmts may assign (out), with Go's scoping:
// a name declared by := / var inside is local from there on
func (c *leafCtx) assigned7(stmts []ast.Stmt, local map[string]bool, out map[string]bool) {
	local = copyMap(local)
	markL := func(e ast.Expr) {
		if id := baseIdent(e); id != nil && id.Name != "_" {
			if tgt, isAlias := c.aliasOf[id.Name]; isAlias {
				out[tgt] = true
				return
			}
			if !local[id.Name] {
				out[id.Name] = true
			}
		}
	}
	for _, s := range stmts {
		switch st := s.(type) {
		case *ast.AssignStmt:
			for _, r := range st.Rhs {
				c.effectsOfCalls(r, local, out)
				if c.marksWorld(r) {
					out["w"] = true
				}
			}
			for _, l := range st.Lhs {
				if _, plain := l.(*ast.Ident); !plain {
					c.effectsOfCalls(l, local, out)
				}
			}
			if st.Tok == token.DEFINE {
				for _, l := range st.Lhs {
					if id, ok := l.(*ast.Ident); ok {
						local[id.Name] = true
					}
				}
			} else {
				for _, l := range st.Lhs {
					markL(l)
				}
			}
		case *ast.IncDecStmt:
			markL(st.X)
		case *ast.DeclStmt:
			if gd, ok := st.Decl.(*ast.GenDecl); ok && gd.Tok == token.VAR {
				for _, sp := range gd.Specs {
					for _, n := range sp.(*ast.ValueSpec).Names {
						local[n.Name] = true
					}
				}
			}
		case *ast.ExprStmt:
			c.effectsOfCalls(st.X, local, out)
		case *ast.GoStmt:
			out["w"] = true
		case *ast.ReturnStmt:
			for _, r := range st.Results {
				c.effectsOfCalls(r, local, out)
			}
		case *ast.IfStmt:
			inner := copyMap(local)
			if st.Init != nil {
				c.assigned7([]ast.Stmt{st.Init}, inner, out)
				if as, ok := st.Init.(*ast.AssignStmt); ok && as.Tok == token.DEFINE {
					for _, l := range as.Lhs {
						if id, ok := l.(*ast.Ident); ok {
							inner[id.Name] = true
						}
					}
				}
			}
			c.effectsOfCalls(st.Cond, inner, out)
			c.assigned7(st.Body.List, inner, out)
			switch e := st.Else.(type) {
			case *ast.BlockStmt:
				c.assigned7(e.List, inner, out)
			case *ast.IfStmt:
				c.assigned7([]ast.Stmt{e}, inner, out)
			}
		case *ast.ForStmt:
			inner := copyMap(local)
			if st.Init != nil {
				c.assigned7([]ast.Stmt{st.Init}, inner, out)
				if as, ok := st.Init.(*ast.AssignStmt); ok && as.Tok == token.DEFINE {
					for _, l := range as.Lhs {
						if id, ok := l.(*ast.Ident); ok {
							inner[id.Name] = true
						}
					}
				}
			}
			if st.Cond != nil {
				c.effectsOfCalls(st.Cond, inner, out)
			}
			if st.Post != nil {
				c.assigned7([]ast.Stmt{st.Post}, inner, out)
			}
			c.assigned7(st.Body.List, inner, out)
		case *ast.RangeStmt:
			inner := copyMap(local)
			if st.Tok == token.DEFINE {
				for _, e := range []ast.Expr{st.Key, st.Value} {
					if id, ok := e.(*ast.Ident); ok {
						inner[id.Name] = true
					}
				}
			} else {
				for _, e := range []ast.Expr{st.Key, st.Value} {
					if e != nil {
						markL(e)
					}
				}
			}
			c.assigned7(st.Body.List, inner, out)
		case *ast.SwitchStmt:
			inner := copyMap(local)
			if st.Init != nil {
				c.assigned7([]ast.Stmt{st.Init}, inner, out)
			}
			for _, cc := range st.Body.List {
				c.assigned7(cc.(*ast.CaseClause).Body, inner, out)
			}
		case *ast.BlockStmt:
			c.assigned7(st.List, local, out)
		}
	}
}

// outerTuple: Lean names (sorted) of the visible variables / threads among set
func (c *leafCtx) outerTuple(set map[string]bool) []string {
	var vs []string
	for v := range set {
		if _, ok := c.vars[v]; ok {
			vs = append(vs, c.lname(v))
			continue
		}
		for _, t := range c.threads {
			if t == v {
				vs = append(vs, v)
			}
		}
	}
	sort.Strings(vs)
	return vs
}

func tupleOf(vs []string) string {
	if len(vs) == 1 {
		return vs[0]
	}
	return "(" + strings.Join(vs, ", ") + ")"
}

// containsJump: a return, break, continue, goto or panic anywhere inside (not inside closures)
func containsJump(n ast.Node) bool {
	if n == nil {
		return false
	}
	found := false
	ast.Inspect(n, func(n ast.Node) bool {
		switch x := n.(type) {
		case *ast.FuncLit:
			return false
		case *ast.ReturnStmt, *ast.BranchStmt:
			found = true
		case ast.Stmt:
			if isPanic(x) {
				found = true
			}
		}
		return !found
	})
	return found
}

// ---- statements -------------------------------------------------------------------------

func (c *leafCtx) seq(stmts []ast.Stmt, k func(string) string, ind string) string {
	if len(stmts) == 0 {
		return k(ind)
	}
	rest := stmts[1:]
	return c.stmt7(stmts[0], func(ind string) string { return c.seq(rest, k, ind) }, ind)
}

// scoped renders body in a nested scope; k runs in the enclosing scope
func (c *leafCtx) scoped(body []ast.Stmt, k func(string) string, ind string) string {
	outer := c.snap()
	c.depth++
	r := c.seq(body, func(ind string) string {
		inner := c.snap()
		d := c.depth
		c.restore(outer)
		c.depth = d - 1
		s := k(ind)
		c.restore(inner)
		c.depth = d
		return s
	}, ind)
	c.depth--
	c.restore(outer)
	return r
}

func isMuCall(e ast.Expr, names ...string) bool {
	ce, ok := e.(*ast.CallExpr)
	if !ok || len(ce.Args) != 0 {
		return false
	}
	f, ok := ce.Fun.(*ast.SelectorExpr)
	if !ok {
		return false
	}
	inner, ok := f.X.(*ast.SelectorExpr)
	if !ok || inner.Sel.Name != "mu" {
		return false
	}
	for _, n := range names {
		if f.Sel.Name == n {
			return true
		}
	}
	return false
}

func panicMsg(s ast.Stmt) string {
	ce := s.(*ast.ExprStmt).X.(*ast.CallExpr)
	if len(ce.Args) == 1 {
		if bl, ok := ce.Args[0].(*ast.BasicLit); ok && bl.Kind == token.STRING {
			if v, err := strconv.Unquote(bl.Value); err == nil {
				return v
			}
		}
	}
	return "panic"
}

// assignPath renders `lhs = e` for an assignable rooted in a struct variable: nested structure update
func (c *leafCtx) assignPath(lhs ast.Expr, e string) (string, string, bool) {
	switch x := lhs.(type) {
	case *ast.Ident:
		return c.lname(x.Name), e, true
	case *ast.ParenExpr:
		return c.assignPath(x.X, e)
	case *ast.SelectorExpr:
		cur, t := c.expr(x.X, "")
		if !strings.HasPrefix(t, "S_") {
			return "", "", false
		}
		return c.assignPath(x.X, "{ "+cur+" with "+lf(x.Sel.Name)+" := "+e+" }")
	case *ast.StarExpr:
		return c.assignPath(x.X, e)
	}
	return "", "", false
}

func (c *leafCtx) letLine(name, t, e string) string {
	if t == "" {
		return "let " + name + " := " + e
	}
	return "let " + name + " : " + leanTypeName(t) + " := " + e
}

func (c *leafCtx) stmt7(s ast.Stmt, next func(string) string, ind string) string {
	if c.err != nil {
		return "0"
	}
	nl := "\n" + ind
	if r, ok := c.stmt9(s, next, ind); ok {
		return r
	}
	if r, ok := c.stmt8(s, next, ind); ok {
		return r
	}
	switch st := s.(type) {
	case *ast.EmptyStmt:
		return next(ind)
	case *ast.BlockStmt:
		return c.scoped(st.List, next, ind)
	case *ast.DeferStmt:
		if isMuCall(st.Call, "Unlock", "RUnlock") {
			return next(ind) // the lock discipline is a separate extracted fact; the body is the critical section
		}
		c.fail("unsupported defer")
		return "0"
	case *ast.ReturnStmt:
		var e string
		switch {
		case len(st.Results) == 0:
			var ns []string
			for _, n := range c.named {
				ns = append(ns, c.lname(n))
			}
			e = strings.Join(ns, ", ")
			if len(ns) > 1 {
				e = "(" + e + ")"
			}
		case len(st.Results) == 1:
			want := c.ret
			e, _ = c.expr(st.Results[0], want)
		default:
			if len(st.Results) != len(c.rets) {
				c.fail("return arity")
				return "0"
			}
			var ps []string
			for i, r := range st.Results {
				p, _ := c.expr(r, c.rets[i])
				ps = append(ps, p)
			}
			e = "(" + strings.Join(ps, ", ") + ")"
		}
		return c.takeBinds(ind) + c.jump(c.ok(c.result7(e)))
	case *ast.BranchStmt:
		if st.Label != nil || len(c.loops) == 0 {
			c.fail("unsupported %s", st.Tok)
			return "0"
		}
		switch st.Tok {
		case token.BREAK:
			if c.inSwitch > 0 {
				c.fail("break inside a switch")
				return "0"
			}
			return "Go.Ctl.brk " + c.loops[len(c.loops)-1]
		case token.CONTINUE:
			return "Go.Ctl.next " + c.loops[len(c.loops)-1]
		}
		c.fail("unsupported %s", st.Tok)
		return "0"
	case *ast.DeclStmt:
		gd, ok := st.Decl.(*ast.GenDecl)
		if !ok {
			c.fail("unsupported declaration")
			return "0"
		}
		if gd.Tok == token.CONST {
			for i, sp := range gd.Specs {
				vs := sp.(*ast.ValueSpec)
				for j, n := range vs.Names {
					if j < len(vs.Values) {
						c.ev.decls[n.Name] = vs.Values[j]
						c.ev.iotas[n.Name] = i
						delete(c.ev.memo, n.Name)
					}
				}
			}
			return next(ind)
		}
		var sb strings.Builder
		for _, sp := range gd.Specs {
			vs, ok := sp.(*ast.ValueSpec)
			if !ok || len(vs.Values) != 0 || vs.Type == nil {
				c.fail("unsupported var declaration")
				return "0"
			}
			t := c.leanType(vs.Type)
			z := c.zero(t)
			if z == "" {
				c.fail("var of an unsupported type")
				return "0"
			}
			for _, n := range vs.Names {
				ln := c.declare(n.Name, t)
				sb.WriteString(c.letLine(ln, t, z) + nl)
			}
		}
		return sb.String() + next(ind)
	case *ast.ExprStmt:
		if isPanic(st) {
			return c.jump(c.panicVal(panicMsg(st)))
		}
		if isMuCall(st.X, "Lock", "RLock") {
			return next(ind)
		}
		ce, ok := st.X.(*ast.CallExpr)
		if !ok {
			c.fail("unsupported expression statement")
			return "0"
		}
		if f, ok := ce.Fun.(*ast.SelectorExpr); ok { // x.log.LogAttrs(…)
			if inner, ok := f.X.(*ast.SelectorExpr); ok && inner.Sel.Name == "log" && strings.HasPrefix(f.Sel.Name, "Log") {
				return next(ind)
			}
		}
		if id, ok := ce.Fun.(*ast.Ident); ok {
			if sig, isCb := c.callbacks[id.Name]; isCb { // a call of a func-typed parameter: recorded
				if len(sig) != len(ce.Args) || len(sig) != 2 {
					c.fail("unsupported callback shape")
					return "0"
				}
				var as []string
				for i, a := range ce.Args {
					e, _ := c.expr(a, sig[i])
					as = append(as, e)
				}
				th := "cb_" + id.Name
				return c.takeBinds(ind) + "let " + th + " : " + threadType(th) + " := " + th + " ++ [(" + strings.Join(as, ", ") + ")]" + nl + next(ind)
			}
			if id.Name == "delete" && len(ce.Args) == 2 {
				m, mt := c.expr(ce.Args[0], "")
				if !strings.HasPrefix(mt, "M:") {
					c.fail("delete on a non-map")
					return "0"
				}
				k, _ := c.expr(ce.Args[1], strings.Split(mt, ":")[1])
				name, val, ok := c.assignPath(ce.Args[0], "(Go.Map.erase "+m+" "+k+")")
				if !ok {
					c.fail("unsupported delete target")
					return "0"
				}
				return c.takeBinds(ind) + c.letLine(name, c.vars[baseIdent(ce.Args[0]).Name], val) + nl + next(ind)
			}
			if id.Name == "copy" && len(ce.Args) == 2 {
				return c.copy7(ce, next, ind)
			}
		}
		if f, ok := ce.Fun.(*ast.SelectorExpr); ok && f.Sel.Name == "PutUint16" && len(ce.Args) == 2 { // binary.BigEndian.PutUint16(b[k:], v)
			if inner, ok := f.X.(*ast.SelectorExpr); ok && inner.Sel.Name == "BigEndian" {
				if pk, ok := inner.X.(*ast.Ident); ok && pk.Name == "binary" {
					se, isSl := ce.Args[0].(*ast.SliceExpr)
					if isSl && se.High == nil && se.Max == nil && se.Low != nil {
						if bid, isId := se.X.(*ast.Ident); isId && c.madeHere[bid.Name] && c.vars[bid.Name] == "L_UInt8" {
							off, _ := c.expr(se.Low, "Int64")
							v, vt := c.expr(ce.Args[1], "UInt16")
							if vt != "UInt16" && vt != "" {
								c.fail("PutUint16 of a %s", vt)
							}
							tmp := c.fresh("_s")
							c.binds = append(c.binds, c.bindLine("(Go.putU16? "+c.lname(bid.Name)+" "+off+" "+v+")", tmp, "opt:slice"))
							return c.takeBinds(ind) + c.letLine(c.lname(bid.Name), "L_UInt8", tmp) + nl + next(ind)
						}
					}
					c.fail("PutUint16 on something other than a buffer made in this function")
					return "0"
				}
			}
		}
		if isPkgCall(ce, "slices", "Sort") && len(ce.Args) == 1 {
			if id, ok := ce.Args[0].(*ast.Ident); ok && c.vars[id.Name] == "L_Int64" {
				return "let " + c.lname(id.Name) + " : (List Int64) := Go.sortI64 " + c.lname(id.Name) + nl + next(ind)
			}
		}
		if isPkgCall(ce, "slices", "SortFunc") && len(ce.Args) == 2 {
			return c.sortFunc7(ce, next, ind)
		}
		// a call for its effects: a leaf that updates its receiver / pointer arguments / threads
		if li, _ := c.calleeInfo(ce); li != nil {
			c.expr(ce, "")
			return c.takeBinds(ind) + next(ind)
		}
		c.fail("unsupported expression statement")
		return "0"
	case *ast.IncDecStmt:
		cur, t := c.expr(st.X, "")
		if !isIntType(t) {
			c.fail("++/-- on a non-integer")
			return "0"
		}
		op := " + "
		if st.Tok == token.DEC {
			op = " - "
		}
		name, val, ok := c.assignPath(st.X, "("+cur+op+"(1 : "+t+"))")
		if !ok {
			c.fail("unsupported ++/-- target")
			return "0"
		}
		return c.takeBinds(ind) + c.letLine(name, c.vars[baseIdent(st.X).Name], val) + nl + next(ind)
	case *ast.AssignStmt:
		return c.assign7(st, next, ind)
	case *ast.IfStmt:
		return c.if7(st, next, ind)
	case *ast.SwitchStmt:
		return c.switch7(st, next, ind)
	case *ast.ForStmt:
		return c.for7(st, next, ind)
	case *ast.RangeStmt:
		return c.range7(st, next, ind)
	}
	c.fail("unsupported statement %T", s)
	return "0"
}

func (c *leafCtx) assign7(st *ast.AssignStmt, next func(string) string, ind string) string {
	nl := "\n" + ind
	declOrAssign := func(l ast.Expr, t string) (string, bool) { // Lean name for an identifier on the left
		id, ok := l.(*ast.Ident)
		if !ok {
			return "", false
		}
		if id.Name == "_" {
			return "_", true
		}
		if st.Tok == token.DEFINE {
			if _, vis := c.vars[id.Name]; vis && c.declDepth[id.Name] == c.depth {
				return c.lname(id.Name), true // redeclaration in the same scope: an assignment
			}
			return c.declare(id.Name, t), true
		}
		if _, vis := c.vars[id.Name]; !vis {
			c.fail("assignment to unknown variable %s", id.Name)
			return "", false
		}
		return c.lname(id.Name), true
	}
	if len(st.Lhs) == 2 && len(st.Rhs) == 1 && (st.Tok == token.DEFINE || st.Tok == token.ASSIGN) {
		// v, ok := m[k]
		if ix, isIx := st.Rhs[0].(*ast.IndexExpr); isIx {
			m, mt := c.expr(ix.X, "")
			if strings.HasPrefix(mt, "M:") {
				parts := strings.Split(mt, ":")
				k, _ := c.expr(ix.Index, parts[1])
				z := c.zero(parts[2])
				if z == "" {
					c.fail("map element type without a zero value")
					return "0"
				}
				pre := c.takeBinds(ind)
				a, ok1 := declOrAssign(st.Lhs[0], parts[2])
				b, ok2 := declOrAssign(st.Lhs[1], "Bool")
				if !ok1 || !ok2 {
					c.fail("unsupported assignment shape")
					return "0"
				}
				return pre + "let (" + a + ", " + b + ") := Go.Map.get2 " + m + " " + k + " " + z + nl + next(ind)
			}
		}
		if ce, isCall := st.Rhs[0].(*ast.CallExpr); isCall {
			// n, err := rand.Read(b)
			if isPkgCall(ce, "rand", "Read") && len(ce.Args) == 1 {
				b, bt := c.expr(ce.Args[0], "")
				bid, isId := ce.Args[0].(*ast.Ident)
				if bt != "L_UInt8" || !isId || !c.hasThread("rnd") {
					c.fail("unsupported rand.Read target")
					return "0"
				}
				pre := c.takeBinds(ind)
				n, ok1 := declOrAssign(st.Lhs[0], "Int64")
				e, ok2 := declOrAssign(st.Lhs[1], "Bool")
				if !ok1 || !ok2 {
					c.fail("unsupported assignment shape")
					return "0"
				}
				return pre + "let (" + c.lname(bid.Name) + ", rnd, " + n + ", " + e + ") := Go.randRead rnd " + b + nl + next(ind)
			}
			e, t := c.expr(ce, "")
			parts := strings.Split(strings.TrimPrefix(t, "T:"), ",")
			if strings.HasPrefix(t, "T:") && len(parts) == 2 {
				pre := c.takeBinds(ind)
				a, ok1 := declOrAssign(st.Lhs[0], parts[0])
				b, ok2 := declOrAssign(st.Lhs[1], parts[1])
				if !ok1 || !ok2 {
					c.fail("unsupported assignment shape")
					return "0"
				}
				return pre + "let (" + a + ", " + b + ") := " + e + nl + next(ind)
			}
		}
		c.fail("unsupported assignment shape")
		return "0"
	}
	if len(st.Lhs) == len(st.Rhs) && len(st.Lhs) > 1 && (st.Tok == token.DEFINE || st.Tok == token.ASSIGN) {
		// a, b := x, y: all right-hand sides are evaluated before any assignment
		var es, ts []string
		for i, r := range st.Rhs {
			want := ""
			if id, ok := st.Lhs[i].(*ast.Ident); ok && st.Tok == token.ASSIGN {
				want = c.vars[id.Name]
			}
			e, t := c.expr(r, want)
			if t == "" {
				t = want
			}
			if t == "" {
				c.fail("parallel assignment of a value of unknown type")
			}
			es = append(es, e)
			ts = append(ts, t)
		}
		pre := c.takeBinds(ind)
		var ns []string
		for i, l := range st.Lhs {
			n, ok := declOrAssign(l, ts[i])
			if !ok {
				c.fail("unsupported assignment shape")
				return "0"
			}
			ns = append(ns, n)
		}
		return pre + "let (" + strings.Join(ns, ", ") + ") := (" + strings.Join(es, ", ") + ")" + nl + next(ind)
	}
	if len(st.Lhs) != 1 || len(st.Rhs) != 1 {
		c.fail("unsupported assignment shape")
		return "0"
	}
	lhs, rhs := st.Lhs[0], st.Rhs[0]
	binop := map[token.Token]token.Token{token.ADD_ASSIGN: token.ADD, token.SUB_ASSIGN: token.SUB, token.MUL_ASSIGN: token.MUL,
		token.QUO_ASSIGN: token.QUO, token.REM_ASSIGN: token.REM, token.OR_ASSIGN: token.OR, token.AND_ASSIGN: token.AND,
		token.SHL_ASSIGN: token.SHL, token.SHR_ASSIGN: token.SHR, token.XOR_ASSIGN: token.XOR}
	if st.Tok != token.DEFINE && st.Tok != token.ASSIGN {
		op, ok := binop[st.Tok]
		if !ok {
			c.fail("unsupported assignment operator %s", st.Tok)
			return "0"
		}
		rhs = &ast.BinaryExpr{X: lhs, Op: op, Y: rhs}
	}
	if id, ok := lhs.(*ast.Ident); ok && st.Tok == token.DEFINE && id.Name != "_" { // buf := *b: another name for the same slice
		if tgt, isAlias := c.aliasOf[id.Name]; isAlias {
			if bi := baseIdent(rhs); bi != nil && bi.Name == tgt {
				if _, vis := c.vars[tgt]; vis {
					c.vars[id.Name] = c.vars[tgt]
					c.declDepth[id.Name] = c.depth
					c.ren[id.Name] = c.lname(tgt)
					return next(ind)
				}
			}
		}
	}
	if id, ok := lhs.(*ast.Ident); ok {
		if id.Name == "_" { // `_ = b[47]`: evaluated for its bounds check
			c.expr(rhs, "")
			return c.takeBinds(ind) + next(ind)
		}
		want := ""
		if st.Tok != token.DEFINE {
			want = c.vars[id.Name]
		}
		e, t := c.expr(rhs, want)
		if want != "" {
			if t != "" && t != want {
				c.fail("assignment of a %s value to %s of type %s", t, id.Name, want)
			}
			t = want
		}
		if t == "" {
			t = "Int64"
		}
		pre := c.takeBinds(ind)
		var name string
		if st.Tok == token.DEFINE {
			name = c.declare(id.Name, t)
			if ce, isCall := rhs.(*ast.CallExpr); isCall {
				if f, isId := ce.Fun.(*ast.Ident); isId && f.Name == "make" && t == "L_UInt8" {
					if c.madeHere == nil {
						c.madeHere = map[string]bool{}
					}
					c.madeHere[id.Name] = true // capacity = length: writes at an offset may be rendered on the list
				}
			}
		} else {
			if _, vis := c.vars[id.Name]; !vis {
				c.fail("assignment to unknown variable %s", id.Name)
				return "0"
			}
			name = c.lname(id.Name)
		}
		return pre + c.letLine(name, t, e) + nl + next(ind)
	}
	if st.Tok == token.DEFINE {
		c.fail("unsupported := target")
		return "0"
	}
	base := baseIdent(lhs)
	if base == nil {
		c.fail("unsupported assignment target")
		return "0"
	}
	if _, vis := c.vars[base.Name]; !vis {
		c.fail("assignment through unknown variable %s", base.Name)
		return "0"
	}
	if ix, ok := lhs.(*ast.IndexExpr); ok { // m[k] = v / s[i] = v
		coll, ct := c.expr(ix.X, "")
		switch {
		case strings.HasPrefix(ct, "M:"):
			parts := strings.Split(ct, ":")
			k, _ := c.expr(ix.Index, parts[1])
			v, vt := c.expr(rhs, parts[2])
			if vt != "" && vt != parts[2] {
				c.fail("map element of type %s assigned a %s", parts[2], vt)
			}
			name, val, ok := c.assignPath(ix.X, "(Go.Map.set "+coll+" "+k+" "+v+")")
			if !ok {
				c.fail("unsupported map assignment target")
				return "0"
			}
			return c.takeBinds(ind) + c.letLine(name, c.vars[base.Name], val) + nl + next(ind)
		case strings.HasPrefix(ct, "L_") || strings.HasPrefix(ct, "C_"):
			et := ct[2:]
			isSlice := strings.HasPrefix(ct, "C_")
			k, isConst := c.constIndex(ix.Index)
			i := ""
			if !isConst {
				i, _ = c.expr(ix.Index, "Int64")
			}
			v, vt := c.expr(rhs, et)
			if vt != "" && vt != et {
				c.fail("slice element of type %s assigned a %s", et, vt)
			}
			c.nfresh++
			tmp := fmt.Sprintf("_s%d", c.nfresh)
			op := "(Go.setG? " + coll + " " + i + " " + v + ")"
			switch {
			case isSlice && isConst:
				op = "(Go.Slice.setK? " + coll + " " + strconv.Itoa(k) + " " + v + ")"
			case isSlice:
				op = "(Go.Slice.set? " + coll + " " + i + " " + v + ")"
			case isConst:
				op = "(Go.setK? " + coll + " " + strconv.Itoa(k) + " " + v + ")"
			}
			c.binds = append(c.binds, c.bindLine(op, tmp, "opt:index"))
			name, val, ok := c.assignPath(ix.X, tmp)
			if !ok {
				c.fail("unsupported slice assignment target")
				return "0"
			}
			c.noteAliasWrite(base.Name)
			return c.takeBinds(ind) + c.letLine(name, c.vars[base.Name], val) + nl + next(ind)
		}
		c.fail("unsupported indexed assignment")
		return "0"
	}
	_, ft := c.expr(lhs, "")
	e, t := c.expr(rhs, ft)
	if t != "" && ft != "" && t != ft {
		c.fail("assignment of a %s value to a field of type %s", t, ft)
	}
	name, val, ok := c.assignPath(lhs, e)
	if !ok {
		c.fail("unsupported assignment target")
		return "0"
	}
	return c.takeBinds(ind) + c.letLine(name, c.vars[base.Name], val) + nl + next(ind)
}

func (c *leafCtx) hasThread(t string) bool {
	for _, x := range c.threads {
		if x == t {
			return true
		}
	}
	return false
}

// if7: an if whose bodies cannot jump only updates variables (a tuple-valued conditional, in the
// function's outcome type when an operation inside may fail); otherwise both branches continue
// with the rest of the function.
func (c *leafCtx) if7(st *ast.IfStmt, next func(string) string, ind string) string {
	if isLogOnly(st) {
		return next(ind)
	}
	outer := c.snap()
	depth0 := c.depth
	nextOuter := func(ind string) string { // the statements after the if see the scope before it
		inner := c.snap()
		d := c.depth
		c.restore(outer)
		c.depth = depth0
		s := next(ind)
		c.restore(inner)
		c.depth = d
		return s
	}
	core := func(ind string) string {
		nl := "\n" + ind
		cond, _ := c.expr(st.Cond, "Bool")
		condBinds := c.takeBinds(ind)
		var elseList []ast.Stmt
		switch e := st.Else.(type) {
		case *ast.BlockStmt:
			elseList = e.List
		case *ast.IfStmt:
			elseList = []ast.Stmt{e}
		}
		if containsJump(st.Body) || containsJump(st.Else) {
			thenE := c.scoped(st.Body.List, nextOuter, ind+"  ")
			elseE := c.scoped(elseList, nextOuter, ind+"  ")
			return condBinds + "if " + cond + " then" + nl + "  " + thenE + nl + "else" + nl + "  " + elseE
		}
		set := map[string]bool{}
		c.assigned7(st.Body.List, nil, set)
		c.assigned7(elseList, nil, set)
		vs := c.outerTuple(set)
		if len(vs) == 0 {
			c.fail("if without effect")
			return "0"
		}
		tup := tupleOf(vs)
		render := func(tail string) (string, string) {
			savedLoops := c.loops
			c.loops = nil
			t := c.scoped(st.Body.List, func(string) string { return tail }, ind+"    ")
			e := c.scoped(elseList, func(string) string { return tail }, ind+"    ")
			c.loops = savedLoops
			return t, e
		}
		f0 := c.failCount
		thenE, elseE := render(tup)
		if c.failCount != f0 { // an operation inside may fail: the conditional is a computation
			thenE, elseE = render(c.ok(tup))
			x := "(if " + cond + " then" + nl + "    " + thenE + nl + "  else" + nl + "    " + elseE + ")"
			return condBinds + c.bindLine(x, tup, "self") + nl + nextOuter(ind)
		}
		return condBinds + "let " + tup + " :=" + nl + "  if " + cond + " then" + nl + "    " + thenE + nl + "  else" + nl + "    " + elseE + nl + nextOuter(ind)
	}
	if st.Init == nil {
		return core(ind)
	}
	c.depth++
	r := c.stmt7(st.Init, core, ind)
	c.depth = depth0
	c.restore(outer)
	return r
}

// switch7: a switch is the if-chain of its cases (no fallthrough, no break)
func (c *leafCtx) switch7(st *ast.SwitchStmt, next func(string) string, ind string) string {
	if st.Init != nil {
		c.fail("switch with init statement")
		return "0"
	}
	var tag ast.Expr
	if st.Tag != nil {
		if _, ok := st.Tag.(*ast.Ident); !ok {
			if _, ok := st.Tag.(*ast.SelectorExpr); !ok {
				c.fail("switch tag that is not a variable or field")
				return "0"
			}
		}
		tag = st.Tag
	}
	var chain *ast.IfStmt
	var last *ast.IfStmt
	var def []ast.Stmt
	for _, cc := range st.Body.List {
		cl := cc.(*ast.CaseClause)
		for _, b := range cl.Body {
			if br, ok := b.(*ast.BranchStmt); ok && br.Tok == token.FALLTHROUGH {
				c.fail("fallthrough")
				return "0"
			}
		}
		if cl.List == nil {
			def = cl.Body
			continue
		}
		var cond ast.Expr
		for _, e := range cl.List {
			var ce ast.Expr = e
			if tag != nil {
				ce = &ast.BinaryExpr{X: tag, Op: token.EQL, Y: e}
			}
			if cond == nil {
				cond = ce
			} else {
				cond = &ast.BinaryExpr{X: cond, Op: token.LOR, Y: ce}
			}
		}
		is := &ast.IfStmt{Cond: cond, Body: &ast.BlockStmt{List: cl.Body}}
		if chain == nil {
			chain = is
		} else {
			last.Else = is
		}
		last = is
	}
	c.inSwitch++
	defer func() { c.inSwitch-- }()
	if chain == nil {
		return c.scoped(def, next, ind)
	}
	if def != nil {
		last.Else = &ast.BlockStmt{List: def}
	}
	return c.if7(chain, next, ind)
}

// freeIdents: identifiers occurring in e
func freeIdents(e ast.Expr) []string {
	var r []string
	ast.Inspect(e, func(n ast.Node) bool {
		if id, ok := n.(*ast.Ident); ok {
			r = append(r, id.Name)
		}
		return true
	})
	return r
}

func onlyLenCalls(e ast.Expr) bool {
	ok := true
	ast.Inspect(e, func(n ast.Node) bool {
		if ce, isCall := n.(*ast.CallExpr); isCall {
			id, isId := ce.Fun.(*ast.Ident)
			if !isId || (id.Name != "len" && leanInt[id.Name] == "") {
				ok = false
			}
		}
		return ok
	})
	return ok
}

// loop7 renders a loop: head is the combinator applied to everything but the state and the body
// lambda; binders are the lambda's leading binders (loop variables)
func (c *leafCtx) loop7(head string, body []ast.Stmt, declareVars func() string, optionResult bool, next func(string) string, ind string) string {
	nl := "\n" + ind
	set := map[string]bool{}
	c.assigned7(body, nil, set)
	vs := c.outerTuple(set)
	if len(vs) == 0 {
		c.fail("loop without effect")
		return "0"
	}
	tup := tupleOf(vs)
	outer := c.snap()
	c.depth++
	binders := declareVars()
	c.loops = append(c.loops, tup)
	savedSwitch := c.inSwitch
	c.inSwitch = 0
	b := c.scoped(body, func(string) string { return "Go.Ctl.next " + tup }, ind+"    ")
	c.inSwitch = savedSwitch
	c.loops = c.loops[:len(c.loops)-1]
	c.depth--
	c.restore(outer)
	call := head + " " + tup + " (fun " + binders + tup + " =>" + nl + "    " + b + ")"
	if optionResult { // forFuel: none = out of fuel
		return "match " + call + " with" + nl + "| none => " + c.jump(c.stuckVal()) + nl + "| some (.inr _r) => " + c.jump("_r") + nl + "| some (.inl " + tup + ") =>" + nl + next(ind)
	}
	return "match " + call + " with" + nl + "| .inr _r => " + c.jump("_r") + nl + "| .inl " + tup + " =>" + nl + next(ind)
}

func (c *leafCtx) for7(st *ast.ForStmt, next func(string) string, ind string) string {
	rt := c.wrapType(c.rtInner)
	if st.Init == nil && st.Cond == nil && st.Post == nil { // for { … }
		if c.mode != modeOut {
			c.stuckCount++ // discovered: this function needs the Out outcome
		}
		c.addExtern("ext_fuel", "Nat")
		return c.loop7("Go.forFuel (ρ := "+rt+") ext_fuel", st.Body.List, func() string { return "" }, true, next, ind)
	}
	// for i := lo; i != hi; i++ / for i := lo; i < hi; i++
	as, ok1 := st.Init.(*ast.AssignStmt)
	cond, ok2 := st.Cond.(*ast.BinaryExpr)
	post, ok3 := st.Post.(*ast.IncDecStmt)
	if !ok1 || !ok2 || !ok3 || as.Tok != token.DEFINE || len(as.Lhs) != 1 || len(as.Rhs) != 1 || post.Tok != token.INC {
		c.fail("unsupported for loop shape")
		return "0"
	}
	iv, ok := as.Lhs[0].(*ast.Ident)
	cx, okc := cond.X.(*ast.Ident)
	px, okp := post.X.(*ast.Ident)
	if !ok || !okc || !okp || cx.Name != iv.Name || px.Name != iv.Name || (cond.Op != token.NEQ && cond.Op != token.LSS) {
		c.fail("unsupported for loop shape")
		return "0"
	}
	// the body must not assign the loop variable, and the bound must be loop-invariant
	set := map[string]bool{}
	saved := c.snap()
	c.vars[iv.Name] = "Int64"
	c.assigned7(st.Body.List, nil, set)
	c.restore(saved)
	if set[iv.Name] {
		c.fail("loop variable assigned in the body")
		return "0"
	}
	for _, n := range freeIdents(cond.Y) {
		if set[n] || n == iv.Name {
			c.fail("loop bound is not loop-invariant")
			return "0"
		}
	}
	if !onlyLenCalls(cond.Y) {
		c.fail("loop bound with a call")
		return "0"
	}
	lo, lt := c.expr(as.Rhs[0], "Int64")
	hi, ht := c.expr(cond.Y, "Int64")
	if (lt != "Int64" && lt != "") || (ht != "Int64" && ht != "") {
		c.fail("loop over a non-int counter")
		return "0"
	}
	pre := c.takeBinds(ind)
	trip := "Go.tripNe"
	if cond.Op == token.LSS {
		trip = "Go.tripLt"
	}
	return pre + c.loop7("Go.forCount (ρ := "+rt+") ("+trip+" "+lo+" "+hi+") "+lo, st.Body.List,
		func() string { return c.declare(iv.Name, "Int64") + " " }, false, next, ind)
}

// range7: `for k, v := range m { if cond { delete(m, k) } }` on a map (the only loop over a map
// whose result does not depend on the iteration order that the translator knows), and
// `for i, x := range xs` over a slice the body does not assign.
func (c *leafCtx) range7(st *ast.RangeStmt, next func(string) string, ind string) string {
	nl := "\n" + ind
	coll, ct := c.expr(st.X, "")
	if len(c.binds) > 0 {
		c.fail("range over an expression that may fail")
		return "0"
	}
	if st.Tok != token.DEFINE {
		c.fail("range without :=")
		return "0"
	}
	name := func(e ast.Expr) string {
		if e == nil {
			return "_"
		}
		if id, ok := e.(*ast.Ident); ok {
			return id.Name
		}
		return ""
	}
	kn, vn := name(st.Key), name(st.Value)
	if kn == "" || vn == "" {
		c.fail("unsupported range variables")
		return "0"
	}
	if strings.HasPrefix(ct, "M:") {
		parts := strings.Split(ct, ":")
		if len(st.Body.List) == 1 {
			if is, ok := st.Body.List[0].(*ast.IfStmt); ok && is.Init == nil && is.Else == nil && len(is.Body.List) == 1 {
				if es, ok := is.Body.List[0].(*ast.ExprStmt); ok {
					if ce, ok := es.X.(*ast.CallExpr); ok && len(ce.Args) == 2 {
						if id, ok := ce.Fun.(*ast.Ident); ok && id.Name == "delete" {
							m2, _ := c.expr(ce.Args[0], "")
							kid, isId := ce.Args[1].(*ast.Ident)
							if m2 == coll && isId && kid.Name == kn && kn != "_" {
								outer := c.snap()
								c.depth++
								lk := c.declare(kn, parts[1])
								lv := "_"
								if vn != "_" {
									lv = c.declare(vn, parts[2])
								}
								for _, n := range freeIdents(is.Cond) { // the test must not read the map being pruned
									if b := baseIdent(st.X); b != nil && n == b.Name {
										c.fail("range-delete condition reads the map's owner")
									}
								}
								cond, _ := c.expr(is.Cond, "Bool")
								if len(c.binds) > 0 {
									c.fail("range-delete condition that may fail")
								}
								c.depth--
								c.restore(outer)
								nm, val, ok := c.assignPath(st.X, "(Go.Map.filter (fun "+lk+" "+lv+" => !"+cond+") "+coll+")")
								if !ok {
									c.fail("unsupported range-delete target")
									return "0"
								}
								return c.letLine(nm, c.vars[baseIdent(st.X).Name], val) + nl + next(ind)
							}
						}
					}
				}
			}
		}
		c.fail("range over a map other than the delete-while-ranging idiom")
		return "0"
	}
	if !strings.HasPrefix(ct, "L_") {
		c.fail("range over an unsupported value")
		return "0"
	}
	set := map[string]bool{}
	c.assigned7(st.Body.List, nil, set)
	if b := baseIdent(st.X); b == nil || set[b.Name] {
		c.fail("range over a slice the body assigns")
		return "0"
	}
	rt := c.wrapType(c.rtInner)
	et := strings.TrimPrefix(ct, "L_")
	return c.loop7("Go.forRange (ρ := "+rt+") "+coll+" (0 : Int64)", st.Body.List, func() string {
		lk, lv := "_", "_"
		if kn != "_" {
			lk = c.declare(kn, "Int64")
		}
		if vn != "_" {
			lv = c.declare(vn, et)
		}
		return lk + " " + lv + " "
	}, false, next, ind)
}

// zero: the zero value of a translated type ("" if there is none in the subset)
func (c *leafCtx) zero(t string) string {
	if z := zeroOf(t); z != "" {
		return z
	}
	switch {
	case t == "GoTime":
		return "Go.Time.zero"
	case strings.HasPrefix(t, "L_"):
		return "([] : " + leanTypeName(t) + ")"
	case strings.HasPrefix(t, "C_"):
		return "(Go.Slice.nil : " + leanTypeName(t) + ")"
	case strings.HasPrefix(t, "R_"):
		return "(none : " + leanTypeName(t) + ")"
	case strings.HasPrefix(t, "A") && strings.Contains(t, "_"):
		n, et := arrayParts(t)
		if z := c.zero(et); z != "" && n >= 0 {
			return "(List.replicate " + strconv.Itoa(n) + " " + z + ")"
		}
	case strings.HasPrefix(t, "S_"):
		fs, ok := c.structs[strings.TrimPrefix(t, "S_")]
		if !ok {
			return ""
		}
		var parts []string
		for _, f := range fs {
			z := c.zero(f[1])
			if z == "" {
				return ""
			}
			parts = append(parts, lf(f[0])+" := "+z)
		}
		c.useStruct(strings.TrimPrefix(t, "S_"))
		return "{ " + strings.Join(parts, ", ") + " : " + t + " }"
	}
	return ""
}

func arrayParts(t string) (int, string) {
	// "A6_UInt8"
	i := strings.Index(t, "_")
	if i < 2 {
		return -1, ""
	}
	n, err := strconv.Atoi(t[1:i])
	if err != nil {
		return -1, ""
	}
	return n, t[i+1:]
}

func (c *leafCtx) useStruct(n string) {
	if c.used != nil {
		c.used[n] = true
	}
}

func (c *leafCtx) noteAliasWrite(base string) {}

// sliceArg: `X` or `X[a:]` for a capacity-modelled slice X: (X, a)
func (c *leafCtx) sliceArg(e ast.Expr) (ast.Expr, string, string, bool) {
	if se, ok := e.(*ast.SliceExpr); ok && se.High == nil && se.Max == nil && se.Low != nil {
		_, t := c.peek(se.X)
		if strings.HasPrefix(t, "C_") {
			lo, _ := c.expr(se.Low, "Int64")
			return se.X, lo, t, true
		}
		return nil, "", "", false
	}
	_, t := c.peek(e)
	if strings.HasPrefix(t, "C_") {
		return e, "(0 : Int64)", t, true
	}
	return nil, "", "", false
}

// copy7: copy(X[a:], Y[b:]) on capacity-modelled slices
func (c *leafCtx) copy7(ce *ast.CallExpr, next func(string) string, ind string) string {
	nl := "\n" + ind
	{ // copy(b[k:], src) / copy(b, src) on a byte buffer made in this function
		var bid *ast.Ident
		off := "(0 : Int64)"
		switch d := ce.Args[0].(type) {
		case *ast.Ident:
			bid = d
		case *ast.SliceExpr:
			if id, ok := d.X.(*ast.Ident); ok && d.High == nil && d.Max == nil && d.Low != nil {
				bid = id
			}
		}
		if bid != nil && c.madeHere[bid.Name] && c.vars[bid.Name] == "L_UInt8" {
			if se, ok := ce.Args[0].(*ast.SliceExpr); ok {
				off, _ = c.expr(se.Low, "Int64")
			}
			src, st := c.expr(ce.Args[1], "L_UInt8")
			if st != "L_UInt8" {
				c.fail("copy from something other than a byte slice")
				return "0"
			}
			tmp := c.fresh("_s")
			c.binds = append(c.binds, c.bindLine("(Go.copyL? "+c.lname(bid.Name)+" "+off+" "+src+")", tmp, "opt:slice"))
			return c.takeBinds(ind) + c.letLine(c.lname(bid.Name), "L_UInt8", tmp) + nl + next(ind)
		}
	}
	dx, da, dt, ok1 := c.sliceArg(ce.Args[0])
	sx, sa, st, ok2 := c.sliceArg(ce.Args[1])
	if !ok1 || !ok2 || dt != st {
		c.fail("copy between slices outside the subset")
		return "0"
	}
	d, _ := c.expr(dx, "")
	s, _ := c.expr(sx, "")
	tmp := c.fresh("_s")
	c.binds = append(c.binds, c.bindLine("(Go.Slice.copy? "+d+" "+da+" "+s+" "+sa+")", tmp, "opt:slice"))
	name, val, ok := c.assignPath(dx, tmp)
	if !ok {
		c.fail("unsupported copy target")
		return "0"
	}
	return c.takeBinds(ind) + c.letLine(name, c.vars[baseIdent(dx).Name], val) + nl + next(ind)
}

// sortFunc7: slices.SortFunc(X, func(a, b T) int { return cmp.Compare(a.F, b.F) })
func (c *leafCtx) sortFunc7(ce *ast.CallExpr, next func(string) string, ind string) string {
	nl := "\n" + ind
	fl, ok := ce.Args[1].(*ast.FuncLit)
	if !ok || len(fl.Body.List) != 1 || fl.Type.Params.NumFields() != 2 {
		c.fail("slices.SortFunc with an unsupported comparison")
		return "0"
	}
	var pn []string
	for _, p := range fl.Type.Params.List {
		for _, n := range p.Names {
			pn = append(pn, n.Name)
		}
	}
	rs, ok := fl.Body.List[0].(*ast.ReturnStmt)
	if !ok || len(rs.Results) != 1 || len(pn) != 2 {
		c.fail("slices.SortFunc with an unsupported comparison")
		return "0"
	}
	cmp, ok := rs.Results[0].(*ast.CallExpr)
	if !ok || !isPkgCall(cmp, "cmp", "Compare") || len(cmp.Args) != 2 {
		c.fail("slices.SortFunc with an unsupported comparison")
		return "0"
	}
	fa, ok1 := cmp.Args[0].(*ast.SelectorExpr)
	fb, ok2 := cmp.Args[1].(*ast.SelectorExpr)
	if !ok1 || !ok2 || fa.Sel.Name != fb.Sel.Name {
		c.fail("slices.SortFunc with an unsupported comparison")
		return "0"
	}
	ia, ok1 := fa.X.(*ast.Ident)
	ib, ok2 := fb.X.(*ast.Ident)
	if !ok1 || !ok2 || ia.Name != pn[0] || ib.Name != pn[1] {
		c.fail("slices.SortFunc with an unsupported comparison")
		return "0"
	}
	xs, xt := c.expr(ce.Args[0], "")
	if !strings.HasPrefix(xt, "C_S_") {
		c.fail("slices.SortFunc on an unsupported slice")
		return "0"
	}
	ft := ""
	for _, f := range c.structs[strings.TrimPrefix(xt, "C_S_")] {
		if f[0] == fa.Sel.Name {
			ft = f[1]
		}
	}
	if ft != "Int64" {
		c.fail("slices.SortFunc key that is not an int64 field")
		return "0"
	}
	tmp := c.fresh("_s")
	c.binds = append(c.binds, c.bindLine("(Go.Slice.sortBy? (fun a => a."+fa.Sel.Name+") "+xs+")", tmp, "stuck"))
	name, val, ok := c.assignPath(ce.Args[0], tmp)
	if !ok {
		c.fail("unsupported sort target")
		return "0"
	}
	return c.takeBinds(ind) + c.letLine(name, c.vars[baseIdent(ce.Args[0]).Name], val) + nl + next(ind)
}

// capFields: slice-typed struct fields modelled with their capacity (Go.Slice)
var capFields = map[string]bool{
	"core/client:LuckyPacketFilter.state":     true,
	"core/client:LuckyPacketFilter.luckyPkts": true,
}

// ---- expressions of the seventh generation ------------------------------------------------

var globalInfo = map[string]*leafInfo{}

var mathConsts = map[string]string{
	"MaxInt": "9223372036854775807", "MinInt": "-9223372036854775808", "MaxInt64": "9223372036854775807", "MinInt64": "-9223372036854775808",
	"MaxInt32": "2147483647", "MinInt32": "-2147483648", "MaxInt16": "32767", "MaxInt8": "127",
	"MaxUint32": "4294967295", "MaxUint16": "65535", "MaxUint8": "255", "MaxUint64": "18446744073709551615",
}

// sharedExtern: parameters handed on to callees under their own name — the function-typed ones
// (math.Pow: a deterministic function, applied to the arguments of each call site) and the
// iteration budget. Every other external value is a reading of state outside the function: one
// parameter per call site (eighth generation; the fifth and sixth shared `ext_Epoch`,
// `ext_clkEpoch`, `ext_clkNow` between sites, which hid a second reading).
func sharedExtern(n string) bool {
	switch n {
	case "ext_Pow", "ext_fuel":
		return true
	}
	return false
}

// siteName: the parameter that stands for the external value read at source position pos
func (c *leafCtx) siteName(pos token.Pos, base string) string {
	if n, ok := c.sites[pos]; ok {
		return n
	}
	c.nsite[base]++
	n := base
	if c.nsite[base] > 1 {
		n = base + strconv.Itoa(c.nsite[base])
	}
	c.sites[pos] = n
	return n
}

func (c *leafCtx) fresh(prefix string) string {
	c.nfresh++
	return fmt.Sprintf("%s%d", prefix, c.nfresh)
}

// constIndex: the value of an index expression that is a constant (no variable of the function in it)
func (c *leafCtx) constIndex(e ast.Expr) (int, bool) {
	if c.mentionsVar(e) {
		return 0, false
	}
	v := c.ev.eval(e, 0)
	if v.Kind() != constant.Int {
		return 0, false
	}
	n, err := strconv.Atoi(v.ExactString())
	if err != nil || n < 0 {
		return 0, false
	}
	return n, true
}

// expr7 translates the expression forms of the seventh generation; ok = false: not one of them
func (c *leafCtx) expr7(e ast.Expr, want string) (string, string, bool) {
	if s, t, ok := c.expr9(e, want); ok {
		return s, t, true
	}
	if s, t, ok := c.expr8(e, want); ok {
		return s, t, true
	}
	switch x := e.(type) {
	case *ast.StarExpr:
		s, t := c.expr(x.X, want)
		return s, t, true
	case *ast.SelectorExpr:
		if id, ok := x.X.(*ast.Ident); ok && id.Name == "math" {
			if _, isVar := c.vars["math"]; !isVar {
				if v, ok := mathConsts[x.Sel.Name]; ok {
					if want == "" || !isIntType(want) {
						want = "Int64"
					}
					return "(" + v + " : " + want + ")", want, true
				}
			}
		}
	case *ast.IndexExpr:
		xs, xt := c.expr(x.X, "")
		switch {
		case strings.HasPrefix(xt, "M:"):
			parts := strings.Split(xt, ":")
			k, _ := c.expr(x.Index, parts[1])
			z := c.zero(parts[2])
			if z == "" {
				c.fail("map element type without a zero value")
			}
			return "(Go.Map.getD " + xs + " " + k + " " + z + ")", parts[2], true
		case strings.HasPrefix(xt, "A") && xt != "ActList":
			n, et := arrayParts(xt)
			if k, ok := c.constIndex(x.Index); ok && k < n {
				return "(Go.arrGet " + xs + " " + strconv.Itoa(k) + " " + c.zero(et) + ")", et, true
			}
			c.fail("array index that is not a constant in range")
			return "0", want, true
		case strings.HasPrefix(xt, "C_"):
			v := c.fresh("_i")
			if k, ok := c.constIndex(x.Index); ok {
				c.binds = append(c.binds, c.bindLine("(Go.Slice.getK? "+xs+" "+strconv.Itoa(k)+")", v, "opt:index"))
			} else {
				is, _ := c.expr(x.Index, "Int64")
				c.binds = append(c.binds, c.bindLine("(Go.Slice.get? "+xs+" "+is+")", v, "opt:index"))
			}
			return v, strings.TrimPrefix(xt, "C_"), true
		case strings.HasPrefix(xt, "L_") && xt != "L_Int64":
			if k, ok := c.constIndex(x.Index); ok {
				v := c.fresh("_i")
				c.binds = append(c.binds, c.bindLine("(Go.getK? "+xs+" "+strconv.Itoa(k)+")", v, "opt:index"))
				return v, strings.TrimPrefix(xt, "L_"), true
			}
			is, _ := c.expr(x.Index, "Int64")
			v := c.fresh("_i")
			c.binds = append(c.binds, c.bindLine("(Go.idxG? "+xs+" "+is+")", v, "opt:index"))
			return v, strings.TrimPrefix(xt, "L_"), true
		case xt == "L_Int64":
			is, _ := c.expr(x.Index, "Int64")
			v := c.fresh("_i")
			c.binds = append(c.binds, c.bindLine("(Go.idx? "+xs+" "+is+")", v, "opt:index"))
			return v, "Int64", true
		case strings.HasPrefix(xt, "L_") || strings.HasPrefix(xt, "A"):
			et := strings.TrimPrefix(xt, "L_")
			if n, at := arrayParts(xt); n >= 0 && !strings.HasPrefix(xt, "L_") {
				et = at
			}
			is, _ := c.expr(x.Index, "Int64")
			v := c.fresh("_i")
			c.binds = append(c.binds, c.bindLine("(Go.idxG? "+xs+" "+is+")", v, "opt:index"))
			return v, et, true
		}
		c.fail("unsupported index expression")
		return "0", want, true
	case *ast.SliceExpr:
		xs, xt := c.expr(x.X, "")
		if strings.HasPrefix(xt, "C_") && x.Low == nil && x.High != nil && x.Max == nil { // s[:n]
			n, _ := c.expr(x.High, "Int64")
			v := c.fresh("_s")
			c.binds = append(c.binds, c.bindLine("(Go.Slice.to? "+xs+" "+n+")", v, "opt:slice"))
			return v, xt, true
		}
		c.fail("unsupported slice expression")
		return "0", want, true
	case *ast.CompositeLit:
		if at, isArr := x.Type.(*ast.ArrayType); isArr && at.Len != nil { // [N]T{e0, …}: all N elements given
			lt := c.leanType(at)
			n, et := arrayParts(lt)
			if n < 0 || len(x.Elts) != n {
				c.fail("array literal that does not list all its elements")
				return "0", "", true
			}
			var parts []string
			for _, el := range x.Elts {
				if _, isKV := el.(*ast.KeyValueExpr); isKV {
					c.fail("keyed array literal")
				}
				v, vt := c.expr(el, et)
				if vt != et && vt != "" {
					c.fail("array element of type %s in an array of %s", vt, et)
				}
				parts = append(parts, v)
			}
			return "[" + strings.Join(parts, ", ") + "]", lt, true
		}
		tn := typeName(x.Type)
		fs, ok := c.structs[tn]
		if !ok || x.Type == nil {
			return "", "", false
		}
		given := map[string]string{}
		for _, el := range x.Elts {
			kv, ok := el.(*ast.KeyValueExpr)
			if !ok {
				c.fail("unsupported composite literal")
				return "0", "", true
			}
			key, _ := kv.Key.(*ast.Ident)
			if key == nil {
				c.fail("unsupported composite literal")
				return "0", "", true
			}
			ft := ""
			for _, f := range fs {
				if f[0] == key.Name {
					ft = f[1]
				}
			}
			if ft == "" {
				c.fail("unknown field %s in literal", key.Name)
				return "0", "", true
			}
			v, vt := c.expr(kv.Value, ft)
			if vt != ft && vt != "" {
				c.fail("field %s: %s value for %s", key.Name, vt, ft)
			}
			given[key.Name] = v
		}
		var parts []string
		for _, f := range fs { // fields not named get their zero value
			v, ok := given[f[0]]
			if !ok {
				v = c.zero(f[1])
				if v == "" {
					c.fail("field %s has no zero value in the subset", f[0])
				}
			}
			parts = append(parts, lf(f[0])+" := "+v)
		}
		c.useStruct(tn)
		return "{ " + strings.Join(parts, ", ") + " : S_" + tn + " }", "S_" + tn, true
	case *ast.CallExpr:
		if id, ok := x.Fun.(*ast.Ident); ok {
			switch id.Name {
			case "len":
				if len(x.Args) == 1 {
					a, t := c.expr(x.Args[0], "")
					if strings.HasPrefix(t, "L_") || (strings.HasPrefix(t, "A") && t != "ActList") {
						return "(Go.len " + a + ")", "Int64", true
					}
					if strings.HasPrefix(t, "C_") {
						return "(Go.Slice.len' " + a + ")", "Int64", true
					}
					c.fail("len of an unsupported value")
					return "0", "Int64", true
				}
			case "cap":
				if len(x.Args) == 1 {
					a, t := c.expr(x.Args[0], "")
					if strings.HasPrefix(t, "C_") {
						return "(Go.Slice.cap " + a + ")", "Int64", true
					}
					c.fail("cap of a slice modelled without a capacity")
					return "0", "Int64", true
				}
			case "append":
				if len(x.Args) == 2 && x.Ellipsis == token.NoPos {
					xs, xt := c.expr(x.Args[0], "")
					if strings.HasPrefix(xt, "C_") {
						et := strings.TrimPrefix(xt, "C_")
						v, vt := c.expr(x.Args[1], et)
						if vt != et && vt != "" {
							c.fail("append of a %s to a slice of %s", vt, et)
						}
						r := c.fresh("_s")
						c.binds = append(c.binds, c.bindLine("(Go.Slice.append? "+xs+" "+v+")", r, "stuck"))
						return r, xt, true
					}
				}
				if r, t, ok := c.append9(x); ok {
					return r, t, true
				}
				c.fail("append to a slice modelled without a capacity")
				return "0", want, true
			case "make":
				if len(x.Args) == 2 && strings.HasPrefix(want, "C_") && c.leanType(x.Args[0]) == "L_"+strings.TrimPrefix(want, "C_") {
					if n, ok := c.constIndex(x.Args[1]); ok { // make([]T, N) for a slice modelled with its capacity
						if z := c.zero(strings.TrimPrefix(want, "C_")); z != "" {
							return "(Go.Slice.make " + z + " " + strconv.Itoa(n) + " " + strconv.Itoa(n) + " (Nat.le_refl _))", want, true
						}
					}
				}
				if len(x.Args) == 2 && c.leanType(x.Args[0]) == "L_UInt8" {
					if v := c.ev.eval(x.Args[1], 0); v.Kind() != 0 && !c.mentionsVar(x.Args[1]) {
						if n, err := strconv.Atoi(v.ExactString()); err == nil && n >= 0 {
							return "(Go.makeBytes " + strconv.Itoa(n) + ")", "L_UInt8", true
						}
					}
					if c.mentionsVar(x.Args[1]) { // run-time length: a negative one panics
						n, nt := c.expr(x.Args[1], "Int64")
						if nt == "UInt16" || nt == "UInt8" || nt == "UInt32" { // an unsigned length below 2^63: never negative
							if r, ok := convert(n, nt, "Int64"); ok {
								n, nt = r, "Int64"
							}
						}
						if nt == "Int64" {
							v := c.fresh("_s")
							c.binds = append(c.binds, c.bindLine("(Go.makeBytesN? "+n+")", v, "opt:makeslice"))
							return v, "L_UInt8", true
						}
					}
				}
				c.fail("unsupported make")
				return "0", want, true
			case "min", "max":
				if len(x.Args) == 2 {
					_, ta := c.peek(x.Args[0])
					if ta == "" {
						_, ta = c.peek(x.Args[1])
					}
					a, _ := c.expr(x.Args[0], ta)
					b, _ := c.expr(x.Args[1], ta)
					if isIntType(ta) {
						if id.Name == "min" {
							return "(if decide (" + b + " < " + a + ") then " + b + " else " + a + ")", ta, true
						}
						return "(if decide (" + b + " > " + a + ") then " + b + " else " + a + ")", ta, true
					}
				}
				c.fail("unsupported %s", id.Name)
				return "0", want, true
			}
		}
		if isPkgCall(x, "time", "Now") && len(x.Args) == 0 {
			if _, isVar := c.vars["time"]; !isVar {
				if len(c.loops) > 0 {
					c.fail("time.Now() inside a loop")
				}
				n := c.siteName(x.Pos(), "ext_Now")
				c.addExtern(n, "Int")
				return n, "GoTime", true
			}
		}
		if f, ok := x.Fun.(*ast.SelectorExpr); ok {
			if inner, ok := f.X.(*ast.SelectorExpr); ok { // binary.LittleEndian.Uint32(b)
				if pk, ok := inner.X.(*ast.Ident); ok && pk.Name == "binary" && inner.Sel.Name == "LittleEndian" && len(x.Args) == 1 {
					fn := map[string][2]string{"Uint32": {"Go.leU32?", "UInt32"}, "Uint64": {"Go.leU64?", "UInt64"}}[f.Sel.Name]
					if fn[0] != "" {
						a, t := c.expr(x.Args[0], "L_UInt8")
						if t != "L_UInt8" {
							c.fail("binary.LittleEndian on a non-byte-slice")
						}
						v := c.fresh("_i")
						c.binds = append(c.binds, c.bindLine("("+fn[0]+" "+a+")", v, "opt:index"))
						return v, fn[1], true
					}
				}
			}
			if c.isValue(f.X) {
				if _, t := c.peek(f.X); t == "GoTime" && f.Sel.Name == "Add" && len(x.Args) == 1 {
					recv, _ := c.expr(f.X, "GoTime")
					d, _ := c.expr(x.Args[0], "Int64")
					return "(Go.Time.add " + recv + " " + d + ")", "GoTime", true
				}
				if _, t := c.peek(f.X); t == "Ctx" && f.Sel.Name == "Err" && len(x.Args) == 0 {
					recv, _ := c.expr(f.X, "Ctx")
					return recv, "Bool", true
				}
			}
		}
		if li, recv := c.calleeInfo(x); li != nil {
			s, t := c.call7(x, li, recv)
			return s, t, true
		}
	}
	return "", "", false
}

// call7: a call of a translated leaf. Its arguments are the receiver, the arguments, the threads
// and the external values it reads (one per call site unless shared); what it hands back —
// updated pointer targets, threads, value — is bound by a prefix line; the value is returned.
func (c *leafCtx) call7(ce *ast.CallExpr, li *leafInfo, recv ast.Expr) (string, string) {
	var args, pats []string
	outVar := func(e ast.Expr) string { // a pointer target must be a plain variable of the caller
		if u, ok := e.(*ast.UnaryExpr); ok && u.Op == token.AND {
			e = u.X
		}
		if id, ok := e.(*ast.Ident); ok {
			if _, vis := c.vars[id.Name]; vis {
				return c.lname(id.Name)
			}
		}
		c.fail("pointer argument of a call that is not a plain variable")
		return "_"
	}
	if recv != nil {
		r, _ := c.expr(recv, "")
		args = append(args, r)
	}
	ceArgs := c.dataArgs(ce.Args) // loggers are dropped (leaf8.go)
	if len(ceArgs) != li.nparams && li.nparams >= 0 {
		c.fail("call with %d arguments of a leaf with %d parameters", len(ceArgs), li.nparams)
	}
	for _, a := range ceArgs {
		if u, ok := a.(*ast.UnaryExpr); ok && u.Op == token.AND {
			a = u.X
		}
		if id, ok := a.(*ast.Ident); ok {
			if _, isCb := c.callbacks[id.Name]; isCb {
				c.fail("callback passed on to another leaf")
			}
		}
		s, _ := c.expr(a, "")
		args = append(args, s)
	}
	for _, o := range li.outs {
		if o == "recv" {
			pats = append(pats, outVar(recv))
		} else if i, err := strconv.Atoi(o); err == nil && i < len(ceArgs) {
			pats = append(pats, outVar(ceArgs[i]))
		}
	}
	for _, t := range li.threads {
		if !c.hasThread(t) {
			c.fail("callee needs the %s stream", t)
		}
		args = append(args, t)
		pats = append(pats, t)
	}
	for _, e := range li.externs {
		args = append(args, c.externOfCallee(ce.Pos(), li.lean, e))
	}
	if c.fileDeps == nil {
		c.fileDeps = map[string]bool{}
	}
	c.fileDeps[li.file] = true
	call := "(" + li.lean + " " + strings.Join(args, " ") + ")"
	val := ""
	if li.ret != "" {
		val = c.fresh("_c")
		pats = append(pats, val)
	}
	if li.mode == modePure && len(pats) == 1 && li.ret != "" { // an ordinary function value
		c.nfresh--
		return call, li.ret
	}
	pat := "()"
	if len(pats) > 0 {
		pat = pats[len(pats)-1]
		for i := len(pats) - 2; i >= 0; i-- {
			pat = "(" + pats[i] + ", " + pat + ")"
		}
	} else if li.mode == modePure {
		c.fail("call of a leaf without any effect")
	}
	switch li.mode {
	case modePure:
		c.binds = append(c.binds, "let "+pat+" := "+call)
	case modeOpt:
		c.binds = append(c.binds, c.bindLine(call, pat, "callee1"))
	default:
		c.binds = append(c.binds, c.bindLine(call, pat, "callee2"))
	}
	if val == "" {
		return "()", ""
	}
	return val, li.ret
}

// ---- a whole function -------------------------------------------------------------------------

type leaf7Spec struct {
	dir, fn, lean, file string
}

// dirState: what the translator knows about a package directory, shared by all its leaves
type dirState struct {
	files      []*ast.File
	ev         *evaluator
	structs    map[string][][2]string
	emitted    map[string]bool   // struct types already written to some Gen module
	structFile map[string]string // … and to which
	infoOf     map[string]*leafInfo
}

func usesRand(fd *ast.FuncDecl, c *leafCtx) bool {
	found := false
	ast.Inspect(fd.Body, func(n ast.Node) bool {
		if ce, ok := n.(*ast.CallExpr); ok {
			if isPkgCall(ce, "rand", "Read") {
				found = true
			}
			if li, _ := c.calleeInfo(ce); li != nil {
				for _, t := range li.threads {
					if t == "rnd" {
						found = true
					}
				}
			}
		}
		return !found
	})
	return found
}

// assignsTarget: the body assigns through the pointer variable name (fields, elements, *name), or
// passes it to a leaf that does
func (c *leafCtx) assignsTarget(fd *ast.FuncDecl, name string) bool {
	set := map[string]bool{}
	c.assigned7(fd.Body.List, nil, set)
	return set[name]
}

// rangeSpec: a statement range inside a function, lifted into a function of its free variables.
// The range starts at the statement that declares `from` and stops before the first call
// statement on one of `stopBefore` (logging, the hand-over of the result); the statement that
// follows the skipped log calls must be `<handOver>(<result>)`. The free variables cannot be typed
// without a type checker: they are declared here, and a use at another type fails to compile in Lean.
type rangeSpec struct {
	from       string
	stopBefore []string
	handOver   string // "adj.Do"
	params     [][2]string
	result     [2]string
}

var ranges = map[string]rangeSpec{
	"sync_Run_correction": {
		from: "refClkCorr", stopBefore: []string{"log", "adj"}, handOver: "adj.Do",
		params: [][2]string{{"refClkOff", "Int64"}, {"peerClkOff", "Int64"}, {"refClkMaxCorr", "F64"}, {"peerClkMaxCorr", "F64"},
			{"cfg", "S_Config"}, {"refClks", "L_Opaque"}, {"peerClks", "L_Opaque"}},
		result: [2]string{"corr", "Int64"},
	},
}

func callRecv(s ast.Stmt) string {
	es, ok := s.(*ast.ExprStmt)
	if !ok {
		return ""
	}
	ce, ok := es.X.(*ast.CallExpr)
	if !ok {
		return ""
	}
	f, ok := ce.Fun.(*ast.SelectorExpr)
	if !ok {
		return ""
	}
	if id, ok := f.X.(*ast.Ident); ok {
		return id.Name
	}
	return ""
}

// findRange: the statements of the range, or nil
func findRange(body *ast.BlockStmt, rs rangeSpec) ([]ast.Stmt, string) {
	var found []ast.Stmt
	problem := "statement range not found"
	ast.Inspect(body, func(n ast.Node) bool {
		bs, ok := n.(*ast.BlockStmt)
		if !ok || found != nil {
			return found == nil
		}
		for i, s := range bs.List {
			as, ok := s.(*ast.AssignStmt)
			if !ok || as.Tok != token.DEFINE {
				continue
			}
			starts := false
			for _, l := range as.Lhs {
				if id, ok := l.(*ast.Ident); ok && id.Name == rs.from {
					starts = true
				}
			}
			if !starts {
				continue
			}
			j := i
			stop := func(s ast.Stmt) bool {
				r := callRecv(s)
				for _, x := range rs.stopBefore {
					if r == x {
						return true
					}
				}
				return false
			}
			for j < len(bs.List) && !stop(bs.List[j]) {
				j++
			}
			k := j
			for k < len(bs.List) && callRecv(bs.List[k]) == "log" {
				k++
			}
			ok2 := false
			if k < len(bs.List) {
				if es, isE := bs.List[k].(*ast.ExprStmt); isE {
					if ce, isC := es.X.(*ast.CallExpr); isC && len(ce.Args) == 1 {
						if f, isS := ce.Fun.(*ast.SelectorExpr); isS {
							if id, isI := f.X.(*ast.Ident); isI && id.Name+"."+f.Sel.Name == rs.handOver {
								if a, isA := ce.Args[0].(*ast.Ident); isA && a.Name == rs.result[0] {
									ok2 = true
								}
							}
						}
					}
				}
			}
			if !ok2 {
				problem = "the range is not followed by " + rs.handOver + "(" + rs.result[0] + ")"
				return false
			}
			found = bs.List[i:j]
			return false
		}
		return true
	})
	return found, problem
}

func (c *leafCtx) translateRange7(ds *dirState, l leaf7Spec, fd *ast.FuncDecl, fset *token.FileSet, mode int, rs rangeSpec) (string, *leafInfo) {
	c.gen7, c.mode = true, mode
	markSelfAppends(fd)
	c.ren, c.declDepth, c.sites, c.nsite = map[string]string{}, map[string]int{}, map[token.Pos]string{}, map[string]int{}
	c.callbacks = map[string][]string{}
	c.aliasOf = map[string]string{}
	c.depth = 1
	stmts, problem := findRange(fd.Body, rs)
	if stmts == nil {
		c.fail("%s", problem)
		return "", nil
	}
	info := &leafInfo{lean: l.lean, mode: mode, nparams: len(rs.params), ret: rs.result[1]}
	var params []string
	for _, p := range rs.params {
		if strings.HasPrefix(p[1], "S_") {
			if _, ok := c.structs[strings.TrimPrefix(p[1], "S_")]; !ok {
				c.fail("unknown struct type %s", p[1])
				return "", nil
			}
			c.useStruct(strings.TrimPrefix(p[1], "S_"))
		}
		c.vars[p[0]] = p[1]
		c.declDepth[p[0]] = 1
		params = append(params, "("+leanName(p[0])+" : "+leanTypeName(p[1])+")")
	}
	c.rets = []string{rs.result[1]}
	c.ret = rs.result[1]
	c.rtInner = c.resultType7(c.ret)
	body := c.seq(stmts, func(string) string {
		if t, ok := c.vars[rs.result[0]]; !ok || t != rs.result[1] {
			c.fail("the range does not define %s of type %s", rs.result[0], rs.result[1])
			return "0"
		}
		return c.ok(c.result7(c.lname(rs.result[0])))
	}, "  ")
	if c.err != nil {
		return "", nil
	}
	for _, e := range c.externs {
		params = append(params, "("+e+")")
	}
	info.externs = append([]string{}, c.externs...)
	first, last := fset.Position(stmts[0].Pos()), fset.Position(stmts[len(stmts)-1].End())
	sig := "def " + l.lean + " " + strings.Join(params, " ") + " : " + c.wrapType(c.rtInner)
	return fmt.Sprintf("/-- %s: %s, lines %d–%d (the statements from the declaration of %s up to the call of %s) -/\n%s :=\n  %s\n",
		l.dir, l.fn, first.Line, last.Line, rs.from, rs.handOver, sig, body), info
}

func (c *leafCtx) translate7(ds *dirState, l leaf7Spec, fd *ast.FuncDecl, fset *token.FileSet, mode int) (string, *leafInfo) {
	if rs, ok := ranges[l.lean]; ok {
		return c.translateRange7(ds, l, fd, fset, mode, rs)
	}
	c.gen7, c.mode = true, mode
	markSelfAppends(fd)
	c.ren, c.declDepth, c.sites, c.nsite = map[string]string{}, map[string]int{}, map[token.Pos]string{}, map[string]int{}
	c.callbacks = map[string][]string{}
	c.logVars = map[string]bool{}
	c.leanSelf = l.lean
	c.depth = 1
	info := &leafInfo{lean: l.lean, mode: mode}
	var params []string
	var ptrs []string // pointer-typed receiver / parameters, in order, with their position
	ptrPos := map[string]string{}
	addParam := func(n string, t ast.Expr, pos string) {
		if ft, ok := t.(*ast.FuncType); ok { // a callback: its calls are recorded
			var sig []string
			for _, p := range ft.Params.List {
				k := len(p.Names)
				if k == 0 {
					k = 1
				}
				for i := 0; i < k; i++ {
					sig = append(sig, c.leanType(p.Type))
				}
			}
			if ft.Results != nil {
				c.fail("callback with a result")
			}
			c.callbacks[n] = sig
			return
		}
		if isLoggerType(t) { // loggers are dropped: logging has no effect on the model (leaf8.go)
			c.logVars[n] = true
			return
		}
		if st := sinkType9(t); st != "" { // a sink: its method calls are recorded (leaf9.go)
			if c.sinks == nil {
				c.sinks = map[string]string{}
			}
			c.sinks[n] = st
			c.logVars[n] = true // not counted as a parameter
			return
		}
		if ot := opaqueType(t); ot != "" { // an opaque foreign object: its methods become function-typed externals (leaf8.go)
			if c.opaque == nil {
				c.opaque = map[string]string{}
			}
			c.opaque[n] = ot
			c.logVars[n] = true // not counted as a parameter
			return
		}
		lt := c.leanType(t)
		if lt == "" {
			c.fail("unsupported parameter type")
			return
		}
		if strings.HasPrefix(lt, "S_") {
			c.useStruct(strings.TrimPrefix(lt, "S_"))
		}
		if strings.HasPrefix(lt, "R_") {
			c.useStruct(strings.TrimPrefix(lt, "R_"))
		}
		c.vars[n] = lt
		c.declDepth[n] = 1
		_, isPtr := t.(*ast.StarExpr)
		if strings.HasPrefix(lt, "R_") {
			isPtr = false // a Go.Ref is a value: its target is immutable
		}
		if isPtr || strings.HasPrefix(lt, "L_") { // a slice parameter whose elements the body writes is handed back as well
			ptrs = append(ptrs, n)
			ptrPos[n] = pos
		}
		params = append(params, "("+leanName(n)+" : "+leanTypeName(lt)+")")
	}
	if fd.Recv != nil {
		c.recvName = fd.Recv.List[0].Names[0].Name
		addParam(fd.Recv.List[0].Names[0].Name, fd.Recv.List[0].Type, "recv")
	}
	i := 0
	for _, p := range fd.Type.Params.List {
		for _, n := range p.Names {
			addParam(n.Name, p.Type, strconv.Itoa(i))
			if !c.logVars[n.Name] {
				i++
			}
		}
	}
	info.nparams = i
	if c.err != nil {
		return "", nil
	}
	c.aliasOf = findAliases(fd, c)
	for _, n := range ptrs {
		if c.assignsTarget(fd, n) {
			c.outs = append(c.outs, n)
			info.outs = append(info.outs, ptrPos[n])
		}
	}
	if usesRand(fd, c) {
		c.threads = append(c.threads, "rnd")
		params = append(params, "(rnd : List UInt8)")
	}
	if usesWorld(fd, c) {
		c.threads = append(c.threads, "w")
		params = append(params, "(w : Go.World)")
	}
	info.threads = append([]string{}, c.threads...)
	var cbs []string
	for n := range c.callbacks {
		cbs = append(cbs, n)
	}
	sort.Strings(cbs)
	prologue := ""
	for _, n := range cbs {
		c.threads = append(c.threads, "cb_"+n)
		prologue += "let cb_" + n + " : " + threadType("cb_"+n) + " := []\n  "
	}
	var sks []string
	for n := range c.sinks {
		sks = append(sks, n)
	}
	sort.Strings(sks)
	for _, n := range sks {
		c.threads = append(c.threads, "sk_"+n)
		prologue += "let sk_" + n + " : " + threadType("sk_"+n) + " := []\n  "
	}
	ret := ""
	if fd.Type.Results != nil {
		for _, r := range fd.Type.Results.List {
			rt := c.leanType(r.Type)
			if rt == "" {
				c.fail("unsupported result type")
				return "", nil
			}
			if strings.HasPrefix(rt, "S_") {
				c.useStruct(strings.TrimPrefix(rt, "S_"))
			}
			k := len(r.Names)
			if k == 0 {
				k = 1
			}
			for i := 0; i < k; i++ {
				c.rets = append(c.rets, rt)
			}
			for _, n := range r.Names {
				c.named = append(c.named, n.Name)
				z := c.zero(rt)
				if z == "" {
					c.fail("named result of an unsupported type")
				}
				c.vars[n.Name] = rt
				c.declDepth[n.Name] = 1
				prologue += "let " + leanName(n.Name) + " : " + leanTypeName(rt) + " := " + z + "\n  "
			}
		}
		if len(c.rets) == 1 {
			ret = c.rets[0]
		} else {
			ret = "T:" + strings.Join(c.rets, ",")
		}
	}
	c.ret = ret
	if strings.HasPrefix(ret, "T:") {
		c.ret = ""
	}
	info.ret = ret
	c.rtInner = c.resultType7(ret)
	body := prologue + c.seq(fd.Body.List, func(string) string {
		if fd.Type.Results != nil && len(c.named) == 0 {
			c.fail("control reaches the end of a function with results")
			return "0"
		}
		var ns []string
		for _, n := range c.named {
			ns = append(ns, c.lname(n))
		}
		e := strings.Join(ns, ", ")
		if len(ns) > 1 {
			e = "(" + e + ")"
		}
		return c.ok(c.result7(e))
	}, "  ")
	if c.err != nil {
		return "", nil
	}
	for _, e := range c.externs {
		params = append(params, "("+e+")")
	}
	info.externs = append([]string{}, c.externs...)
	pos := fset.Position(fd.Pos())
	sig := "def " + l.lean + " " + strings.Join(params, " ") + " : " + c.wrapType(c.rtInner)
	return fmt.Sprintf("/-- %s: %s (line %d) -/\n%s :=\n  %s\n", l.dir, l.fn, pos.Line, sig, body), info
}

var dirStates = map[string]*dirState{}

// prepareDir: constants and struct types of a package directory (once per run)
func prepareDir(repo string, parsed map[string][]*ast.File, fset *token.FileSet, dir string) *dirState {
	if ds, ok := dirStates[dir]; ok {
		return ds
	}
	files := parsed[dir]
	if files == nil {
		files = parseDir(fset, repo+"/"+dir)
	}
	ev := &evaluator{decls: map[string]ast.Expr{}, iotas: map[string]int{}, memo: map[string]constant.Value{}, busy: map[string]bool{}}
	structs := map[string][][2]string{}
	for _, f := range files {
		for _, d := range f.Decls {
			gd, ok := d.(*ast.GenDecl)
			if !ok {
				continue
			}
			for i, s := range gd.Specs {
				switch sp := s.(type) {
				case *ast.ValueSpec:
					if gd.Tok == token.CONST {
						for j, n := range sp.Names {
							if j < len(sp.Values) {
								ev.decls[n.Name] = sp.Values[j]
								ev.iotas[n.Name] = i
							}
						}
					}
				case *ast.TypeSpec:
					if st, ok := sp.Type.(*ast.StructType); ok {
						structs[sp.Name.Name] = nil
						_ = st
					}
				}
			}
		}
	}
	// struct field types (second pass so that nested structs resolve)
	c0 := &leafCtx{structs: structs, dir: dir}
	for _, f := range files {
		for _, d := range f.Decls {
			gd, ok := d.(*ast.GenDecl)
			if !ok {
				continue
			}
			for _, s := range gd.Specs {
				if sp, ok := s.(*ast.TypeSpec); ok {
					if st, ok := sp.Type.(*ast.StructType); ok {
						fs := structFields(c0, structs, sp.Name.Name, st)
						if len(fs) > 0 {
							structs[sp.Name.Name] = fs
						} else {
							delete(structs, sp.Name.Name)
						}
					}
				}
			}
		}
	}

	ds := &dirState{files: files, ev: ev, structs: structs, emitted: map[string]bool{}, structFile: map[string]string{}, infoOf: map[string]*leafInfo{}}
	dirStates[dir] = ds
	return ds
}

// leaves7: the seventh generation, in dependency order (a leaf after the leaves it calls)
var leaves7 = []leaf7Spec{
	{"net/ntske", "Provider.generateNext", "ntske_Provider_generateNext", "LeafNtske"},
	{"net/ntske", "Provider.Get", "ntske_Provider_Get", "LeafNtske"},
	{"net/ntske", "Provider.Current", "ntske_Provider_Current", "LeafNtske"},
	{"base/crypto", "randInt31", "crypto_randInt31", "LeafCrypto"},
	{"base/crypto", "randInt63", "crypto_randInt63", "LeafCrypto"},
	{"base/crypto", "RandIntn", "crypto_RandIntn", "LeafCrypto"},
	{"base/crypto", "Sample", "crypto_Sample", "LeafCrypto"},
	{"core/client", "LuckyPacketFilter.Do", "client_LuckyPacketFilter_Do", "LeafClient"},
	{"core/client", "LuckyPacketFilter.Reset", "client_LuckyPacketFilter_Reset", "LeafClient"},
	{"net/ntp", "Packet.SetLeapIndicator", "ntp_Packet_SetLeapIndicator", "LeafNtp"},
	{"net/ntp", "Packet.SetVersion", "ntp_Packet_SetVersion", "LeafNtp"},
	{"net/ntp", "Packet.SetMode", "ntp_Packet_SetMode", "LeafNtp"},
	{"net/ntp", "EncodePacket", "ntp_EncodePacket", "LeafNtp"},
	{"net/ntp", "DecodePacket", "ntp_DecodePacket", "LeafNtp"},
	{"net/csptp", "TimestampFromTime", "csptp_TimestampFromTime", "LeafCsptp"},
	{"net/csptp", "TimeFromTimestamp", "csptp_TimeFromTimestamp", "LeafCsptp"},
	{"net/csptp", "EncodedRequestTLVLength", "csptp_EncodedRequestTLVLength", "LeafCsptp"},
	{"net/csptp", "EncodedResponseTLVLength", "csptp_EncodedResponseTLVLength", "LeafCsptp"},
	{"net/csptp", "EncodeMessage", "csptp_EncodeMessage", "LeafCsptp"},
	{"net/csptp", "DecodeMessage", "csptp_DecodeMessage", "LeafCsptp"},
	{"net/csptp", "EncodeRequestTLV", "csptp_EncodeRequestTLV", "LeafCsptp"},
	{"net/csptp", "DecodeRequestTLV", "csptp_DecodeRequestTLV", "LeafCsptp"},
	{"net/csptp", "EncodeResponseTLV", "csptp_EncodeResponseTLV", "LeafCsptp"},
	{"net/csptp", "DecodeResponseTLV", "csptp_DecodeResponseTLV", "LeafCsptp"},
	{"core/sync", "Run", "sync_Run_correction", "LeafSync"},
	{"net/ntske", "ServerCookie.Encode", "ntske_ServerCookie_Encode", "LeafNtske"},
	{"net/ntske", "EncryptedServerCookie.Encode", "ntske_EncryptedServerCookie_Encode", "LeafNtske"},
	// eighth generation: `for cond {}`, binary.BigEndian.Uint16(b[off:]), b[lo:hi] as a value
	{"net/ntske", "ServerCookie.Decode", "ntske_ServerCookie_Decode", "LeafNtske"},
	{"net/ntske", "EncryptedServerCookie.Decode", "ntske_EncryptedServerCookie_Decode", "LeafNtske"},
	{"net/ntske", "ExportKeys", "ntske_ExportKeys", "LeafNtske"},
	{"net/nts", "Authenticator.unpack", "nts_Authenticator_unpack", "LeafNts"},
	{"net/nts", "UniqueIdentifier.unpack", "nts_UniqueIdentifier_unpack", "LeafNts"},
	{"net/nts", "Cookie.unpack", "nts_Cookie_unpack", "LeafNts"},
	// ninth generation (leaf9.go): the extension-field walk of DecodePacket
	{"net/nts", "CookiePlaceholder.unpack", "nts_CookiePlaceholder_unpack", "LeafNts"},
	{"net/nts", "extHdr.unpack", "nts_extHdr_unpack", "LeafNts"},
	{"net/nts", "DecodePacket", "nts_DecodePacket", "LeafNts"},
	{"net/nts", "Packet.authenticate", "nts_Packet_authenticate", "LeafNts"},
	{"net/nts", "ProcessResponse", "nts_ProcessResponse", "LeafNts"},
	{"net/nts", "extHdr.pack", "nts_extHdr_pack", "LeafNts"},
	{"net/nts", "Cookie.pack", "nts_Cookie_pack", "LeafNts"},
	{"net/nts", "CookiePlaceholder.pack", "nts_CookiePlaceholder_pack", "LeafNts"},
	{"net/nts", "UniqueIdentifier.pack", "nts_UniqueIdentifier_pack", "LeafNts"},
	{"net/nts", "Authenticator.pack", "nts_Authenticator_pack", "LeafNts"},
	// eighth generation (leaf8.go): the clock object — recorded system calls with their argument
	// values, pointers to immutable structs with identity, the expiry goroutine
	{"driver/clocks", "setOffset", "clocks_setOffset", "LeafClocks"},
	{"driver/clocks", "setFrequency", "clocks_setFrequency", "LeafClocks"},
	{"driver/clocks", "SystemClock.Epoch", "clocks_SystemClock_Epoch", "LeafClocks"},
	{"driver/clocks", "SystemClock.Step", "clocks_SystemClock_Step", "LeafClocks"},
	{"driver/clocks", "SystemClock.Adjust", "clocks_SystemClock_Adjust", "LeafClocks"},
	{"driver/clocks", "SystemClock.Adjust#go", "clocks_SystemClock_Adjust_go", "LeafClocks"},
	{"driver/clocks", "SystemClock.Sleep", "clocks_SystemClock_Sleep", "LeafClocks"},
}

func init() {
	for _, n := range []string{"clocks_setOffset", "clocks_setFrequency", "clocks_SystemClock_Step", "clocks_SystemClock_Adjust",
		"clocks_SystemClock_Adjust_go", "clocks_SystemClock_Sleep"} {
		forceOut[n] = true
	}
}

func emitLeaves7(repo string, parsed map[string][]*ast.File, fset *token.FileSet, leafPath string) {
	outDir := leafPath[:strings.LastIndex(leafPath, "/")]
	var fileOrder []string
	byFile := map[string][]leaf7Spec{}
	for _, l := range leaves7 {
		if _, ok := byFile[l.file]; !ok {
			fileOrder = append(fileOrder, l.file)
		}
		byFile[l.file] = append(byFile[l.file], l)
	}
	for _, file := range fileOrder {
		deps := map[string]bool{"Leaf": true}
		var body strings.Builder
		for _, l := range byFile[file] {
			ds := prepareDir(repo, parsed, fset, l.dir)
			loadUnixConsts(repo)
			fd := findFunc(ds.files, l.fn)
			if strings.HasSuffix(l.fn, "#go") { // the body of the method's go statement (leaf8.go)
				var why string
				fd, why = goroutineDecl(ds.files, strings.TrimSuffix(l.fn, "#go"))
				if fd == nil {
					withOwner("leaf:"+l.lean, func() { broken("leaf %s.%s: %s", l.dir, l.fn, why) })
					continue
				}
			}
			if fd == nil {
				withOwner("leaf:"+l.lean, func() { broken("leaf %s.%s: function not found", l.dir, l.fn) })
				continue
			}
			refProblem := ""
			for k := range refStructs {
				if strings.HasPrefix(k, l.dir+":") {
					if p := checkRefStruct(ds, l.dir, strings.TrimPrefix(k, l.dir+":")); p != "" {
						refProblem = p
					}
				}
			}
			run := func(mode int) (*leafCtx, string, *leafInfo) {
				c := &leafCtx{dir: l.dir, files: ds.files, ev: ds.ev, structs: ds.structs, vars: map[string]string{}, infoOf: ds.infoOf,
					used: map[string]bool{}, leafOf: map[string]string{}, retOf: map[string]string{}, extOf: map[string][]string{}, recvOf: map[string]bool{}}
				def, info := c.translate7(ds, l, fd, fset, mode)
				return c, def, info
			}
			c, def, info := run(modeOut) // discovery: which outcome type does the function need?
			if c.err == nil && c.hasThread("w") && refProblem != "" {
				c.fail("pointer rendering not faithful: %s", refProblem)
			}
			if c.hasThread("w") || c.needPrelude3 {
				deps["!GoPrelude3"] = true
			}
			if c.err == nil && !forceOut[l.lean] {
				mode := modePure
				if c.failCount > 0 {
					mode = modeOpt
				}
				if c.stuckCount > 0 {
					mode = modeOut
				}
				if mode != modeOut {
					c, def, info = run(mode)
				}
			}
			if c.err != nil {
				err := c.err
				withOwner("leaf:"+l.lean, func() { broken("leaf %s.%s: %v", l.dir, l.fn, err) })
				continue
			}
			// struct types first used here
			var names []string
			for n := range c.used {
				names = append(names, n)
			}
			for changed := true; changed; {
				changed = false
				for _, n := range names {
					for _, f := range ds.structs[n] {
						for _, part := range strings.FieldsFunc(strings.Replace(f[1], "R_", "S_", 1), func(r rune) bool { return r == ':' }) {
							if i := strings.Index(part, "S_"); i >= 0 {
								sn := part[i+2:]
								if _, isStruct := ds.structs[sn]; isStruct && !c.used[sn] {
									c.used[sn] = true
									names = append(names, sn)
									changed = true
								}
							}
						}
					}
				}
			}
			dep := func(a, b string) bool { // struct a mentions struct b
				for _, f := range ds.structs[a] {
					if strings.HasSuffix(f[1], "S_"+b) || f[1] == "R_"+b {
						return true
					}
				}
				return false
			}
			sort.Strings(names)
			var ordered []string
			done := map[string]bool{}
			var visit func(n string)
			visit = func(n string) {
				if done[n] {
					return
				}
				done[n] = true
				for _, m := range names {
					if m != n && dep(n, m) {
						visit(m)
					}
				}
				ordered = append(ordered, n)
			}
			for _, n := range names {
				visit(n)
			}
			for _, n := range ordered {
				if ds.emitted[n] {
					deps[ds.structFile[n]] = true
					continue
				}
				ds.emitted[n] = true
				ds.structFile[n] = file
				fmt.Fprintf(&body, "structure S_%s where\n", n)
				for _, f := range ds.structs[n] {
					fmt.Fprintf(&body, "  %s : %s\n", lf(f[0]), leanTypeName(f[1]))
				}
				body.WriteString("\n")
			}
			for f := range c.fileDeps {
				deps[f] = true
			}
			body.WriteString(def + "\n")
			info.file = file
			ds.infoOf[l.fn] = info
			if fd.Recv == nil {
				pkgName := l.dir[strings.LastIndex(l.dir, "/")+1:]
				globalInfo[pkgName+"."+l.fn] = info
			}
		}
		var sb strings.Builder
		sb.WriteString("/- GENERATED by harness/extract (leaf translator, seventh generation) from /repo on every run — do not edit.\n")
		sb.WriteString("   Each definition is the Go function of the same name, statement by statement (notes/LEAF.md). -/\n")
		var ds []string
		for d := range deps {
			if d != file {
				ds = append(ds, d)
			}
		}
		sort.Strings(ds)
		for _, d := range ds {
			if d == "!GoPrelude3" {
				sb.WriteString("import ScionTime.Model.GoPrelude3\n")
				continue
			}
			sb.WriteString("import ScionTime.Gen." + d + "\n")
		}
		sb.WriteString("import ScionTime.Model.GoPrelude2\nset_option linter.unusedVariables false\nnamespace ScionTime.Gen.Leaf\nopen ScionTime\n\n")
		sb.WriteString(renameStructs9(file, body.String()))
		sb.WriteString("end ScionTime.Gen.Leaf\n")
		writeIfChanged(outDir+"/"+file+".lean", sb.String())
	}
}

// findAliases: `x := *p` / `x := p` where p is a slice-typed parameter and neither x nor p is
// assigned as a whole afterwards: x is another name for the same slice (same array, offset and
// length), so element writes through either are writes to the one object the translator threads.
func findAliases(fd *ast.FuncDecl, c *leafCtx) map[string]string {
	al := map[string]string{}
	pos := map[string]token.Pos{}
	ast.Inspect(fd.Body, func(n ast.Node) bool {
		as, ok := n.(*ast.AssignStmt)
		if !ok || as.Tok != token.DEFINE || len(as.Lhs) != 1 || len(as.Rhs) != 1 {
			return true
		}
		id, ok := as.Lhs[0].(*ast.Ident)
		if !ok {
			return true
		}
		var src *ast.Ident
		switch r := as.Rhs[0].(type) {
		case *ast.StarExpr:
			src, _ = r.X.(*ast.Ident)
		case *ast.Ident:
			src = r
		}
		if src == nil {
			return true
		}
		if t := c.vars[src.Name]; strings.HasPrefix(t, "C_") || strings.HasPrefix(t, "L_") {
			al[id.Name] = src.Name
			pos[id.Name] = as.Pos()
		}
		return true
	})
	// whole-variable assignments after the alias was made break it
	ast.Inspect(fd.Body, func(n ast.Node) bool {
		as, ok := n.(*ast.AssignStmt)
		if !ok {
			return true
		}
		for _, l := range as.Lhs {
			var id *ast.Ident
			switch x := l.(type) {
			case *ast.Ident:
				id = x
			case *ast.StarExpr:
				id, _ = x.X.(*ast.Ident)
			}
			if id == nil {
				continue
			}
			for a, tgt := range al {
				if (id.Name == a || id.Name == tgt) && as.Pos() > pos[a] {
					delete(al, a)
				}
			}
		}
		return true
	})
	return al
}

// lf: the Lean spelling of a Go field name (Lean keywords get a prime)
func lf(n string) string {
	switch n {
	case "Type", "Sort", "Prop":
		return n + "'"
	}
	return leanName(n)
}
