// extract regenerates lean/ScionTime/Gen/*.lean from /repo's current sources: every
// top-level constant of the modelled packages that evaluates to an integer or a string,
// a few constants that live inside function bodies, and structural facts compared with
// written expectations (facts.go). A constant or code shape that can no longer be found is
// reported as a broken tie (exit 3, one line "TIE-BROKEN <what>" per problem).
package main

import (
	"flag"
	"fmt"
	"go/ast"
	"go/constant"
	"go/parser"
	"go/token"
	"math/big"
	"os"
	"path/filepath"
	"sort"
	"strings"
)

type pkgSpec struct {
	dir      string   // relative to repo root
	lean     string   // Gen module / name prefix
	required []string // constants the model depends on
}

var pkgs = []pkgSpec{
	{"net/ntp", "Ntp", []string{"epoch", "nanosecondsPerSecond", "secondsPerEra", "PacketLen", "VersionMin", "VersionMax",
		"ModeClient", "ModeServer", "ModeReserved0", "LeapIndicatorNoWarning", "LeapIndicatorUnknown"}},
	{"core/server", "Server", []string{"tssCap", "tssItemCap", "serverRefID"}},
	{"net/nts", "Nts", []string{"MaxPacketLen", "numStoredCookies", "ntpPacketLen", "extUniqueIdentifier", "extCookie",
		"extCookiePlaceholder", "extAuthenticator"}},
	{"net/ntske", "Ntske", []string{"RecEom", "RecNextproto", "RecError", "RecWarning", "RecAead", "RecCookie", "RecServer", "RecPort",
		"AES_SIV_CMAC_256", "ServerPortIP", "ServerPortSCION", "alpn", "NTPv4",
		"cookieTypeAlgorithm", "cookieTypeKeyS2C", "cookieTypeKeyC2S", "cookieTypeKeyID", "cookieTypeNonce", "cookieTypeCiphertext",
		"keyValidity", "keyRenewalInterval"}},
	{"net/csptp", "Csptp", nil},
	{"net/scion", "Scion", nil},
	{"net/udp", "Udp", nil},
	{"core/client", "Client", nil},
	{"core/sync", "Sync", nil},
	{"core/sync/adjustments", "Adjustments", nil},
	{"base/crypto", "Crypto", nil},
	{"base/timemath", "Timemath", nil},
	{"base/unixutil", "Unixutil", nil},
	{"core/measurements", "Measurements", nil},
}

var timeConsts = map[string]int64{
	"Nanosecond": 1, "Microsecond": 1e3, "Millisecond": 1e6, "Second": 1e9, "Minute": 60e9, "Hour": 3600e9,
}

type evaluator struct {
	decls map[string]ast.Expr // const name -> expr (iota not supported)
	iotas map[string]int
	memo  map[string]constant.Value
	busy  map[string]bool
}

func (e *evaluator) eval(x ast.Expr, iota int) constant.Value {
	switch v := x.(type) {
	case *ast.BasicLit:
		return constant.MakeFromLiteral(v.Value, v.Kind, 0)
	case *ast.ParenExpr:
		return e.eval(v.X, iota)
	case *ast.Ident:
		if v.Name == "iota" {
			return constant.MakeInt64(int64(iota))
		}
		if v.Name == "true" || v.Name == "false" {
			return constant.MakeBool(v.Name == "true")
		}
		return e.lookup(v.Name)
	case *ast.SelectorExpr:
		if id, ok := v.X.(*ast.Ident); ok {
			if id.Name == "time" {
				if n, ok := timeConsts[v.Sel.Name]; ok {
					return constant.MakeInt64(n)
				}
			}
			if id.Name == "math" {
				switch v.Sel.Name {
				case "MaxInt64":
					return constant.MakeInt64(1<<63 - 1)
				case "MinInt64":
					return constant.MakeInt64(-1 << 63)
				case "MaxUint32":
					return constant.MakeInt64(1<<32 - 1)
				case "MaxUint16":
					return constant.MakeInt64(1<<16 - 1)
				}
			}
		}
		return constant.MakeUnknown()
	case *ast.UnaryExpr:
		a := e.eval(v.X, iota)
		if a.Kind() == constant.Unknown {
			return a
		}
		defer func() { recover() }()
		return constant.UnaryOp(v.Op, a, 0)
	case *ast.BinaryExpr:
		a, b := e.eval(v.X, iota), e.eval(v.Y, iota)
		if a.Kind() == constant.Unknown || b.Kind() == constant.Unknown {
			return constant.MakeUnknown()
		}
		var res constant.Value = constant.MakeUnknown()
		func() {
			defer func() { recover() }()
			switch v.Op {
			case token.SHL, token.SHR:
				s, ok := constant.Uint64Val(constant.ToInt(b))
				if ok {
					res = constant.Shift(constant.ToInt(a), v.Op, uint(s))
				}
			case token.QUO:
				if a.Kind() == constant.Int && b.Kind() == constant.Int {
					res = constant.BinaryOp(a, token.QUO_ASSIGN, b) // integer division
				} else {
					res = constant.BinaryOp(a, token.QUO, b)
				}
			case token.EQL, token.NEQ, token.LSS, token.LEQ, token.GTR, token.GEQ:
				res = constant.MakeBool(constant.Compare(a, v.Op, b))
			default:
				res = constant.BinaryOp(a, v.Op, b)
			}
		}()
		return res
	case *ast.CallExpr: // conversions T(x)
		if len(v.Args) == 1 {
			a := e.eval(v.Args[0], iota)
			name := ""
			switch f := v.Fun.(type) {
			case *ast.Ident:
				name = f.Name
			case *ast.SelectorExpr:
				name = f.Sel.Name
			}
			switch name {
			case "int", "int8", "int16", "int32", "int64", "uint", "uint8", "uint16", "uint32", "uint64", "Duration", "byte":
				if a.Kind() == constant.Float {
					if constant.ToInt(a).Kind() == constant.Int {
						return constant.ToInt(a)
					}
				}
				return a
			case "float64", "float32":
				return constant.ToFloat(a)
			}
		}
	}
	return constant.MakeUnknown()
}

func (e *evaluator) lookup(name string) constant.Value {
	if v, ok := e.memo[name]; ok {
		return v
	}
	x, ok := e.decls[name]
	if !ok || e.busy[name] {
		return constant.MakeUnknown()
	}
	e.busy[name] = true
	v := e.eval(x, e.iotas[name])
	e.busy[name] = false
	e.memo[name] = v
	return v
}

func leanName(s string) string {
	// Lean identifiers: keep as is; Go names are valid Lean identifiers except keywords.
	switch s {
	case "end", "at", "from", "with", "in", "do", "then", "else", "if", "fun", "let", "open", "instance", "section", "namespace":
		return s + "'"
	}
	return s
}

func leanString(s string) string {
	var sb strings.Builder
	sb.WriteByte('"')
	for _, r := range s {
		switch {
		case r == '"' || r == '\\':
			sb.WriteByte('\\')
			sb.WriteRune(r)
		case r == '\n':
			sb.WriteString("\\n")
		case r < 0x20 || r == 0x7f:
			fmt.Fprintf(&sb, "\\x%02x", r)
		default:
			sb.WriteRune(r)
		}
	}
	sb.WriteByte('"')
	return sb.String()
}

var problems []string

// broken records a tie that no longer checks; the report is tagged with the properties it
// concerns ("[C07]", "[leaf:<Lean name>]", "[*]" = all), see facts.go.
func broken(format string, a ...any) {
	problems = append(problems, "["+currentOwner+"] "+fmt.Sprintf(format, a...))
}

func parseDir(fset *token.FileSet, dir string) []*ast.File {
	ents, err := os.ReadDir(dir)
	if err != nil {
		broken("package directory %s: %v", dir, err)
		return nil
	}
	var files []*ast.File
	for _, ent := range ents {
		n := ent.Name()
		if ent.IsDir() || !strings.HasSuffix(n, ".go") || strings.HasSuffix(n, "_test.go") ||
			strings.HasSuffix(n, "_verif.go") || strings.HasSuffix(n, "_darwin.go") || strings.HasSuffix(n, "_std.go") {
			continue
		}
		f, err := parser.ParseFile(fset, filepath.Join(dir, n), nil, parser.ParseComments)
		if err != nil {
			broken("parse %s: %v", filepath.Join(dir, n), err)
			continue
		}
		files = append(files, f)
	}
	return files
}

func main() {
	repo := flag.String("repo", "/repo", "repository root")
	out := flag.String("out", "/verif/lean/ScionTime/Gen", "output directory")
	flag.Parse()
	os.MkdirAll(*out, 0o755)
	fset := token.NewFileSet()
	parsed := map[string][]*ast.File{}
	for _, p := range pkgs {
		files := parseDir(fset, filepath.Join(*repo, p.dir))
		parsed[p.dir] = files
		ev := &evaluator{decls: map[string]ast.Expr{}, iotas: map[string]int{}, memo: map[string]constant.Value{}, busy: map[string]bool{}}
		var order []string
		for _, f := range files {
			for _, d := range f.Decls {
				gd, ok := d.(*ast.GenDecl)
				if !ok || (gd.Tok != token.CONST && gd.Tok != token.VAR) {
					continue
				}
				var last []ast.Expr
				for i, s := range gd.Specs {
					vs := s.(*ast.ValueSpec)
					vals := vs.Values
					if len(vals) == 0 && gd.Tok == token.CONST {
						vals = last
					} else {
						last = vals
					}
					for j, n := range vs.Names {
						if j < len(vals) && n.Name != "_" {
							if _, dup := ev.decls[n.Name]; !dup {
								ev.decls[n.Name] = vals[j]
								ev.iotas[n.Name] = i
								order = append(order, n.Name)
							}
						}
					}
				}
			}
		}
		sort.Strings(order)
		var sb strings.Builder
		fmt.Fprintf(&sb, "/- GENERATED by harness/extract from /repo/%s on every run — do not edit. -/\n", p.dir)
		fmt.Fprintf(&sb, "namespace ScionTime.Gen.%s\n\n", p.lean)
		have := map[string]bool{}
		for _, n := range order {
			v := ev.lookup(n)
			if v.Kind() == constant.Float && constant.ToInt(v).Kind() == constant.Int {
				v = constant.ToInt(v) // 1e9 and the like: integral value written as a float literal
			}
			switch v.Kind() {
			case constant.Int:
				fmt.Fprintf(&sb, "def %s : Int := %s\n", leanName(n), v.ExactString())
				have[n] = true
			case constant.String:
				fmt.Fprintf(&sb, "def %s : String := %s\n", leanName(n), leanString(constant.StringVal(v)))
				have[n] = true
			case constant.Float:
				// exact rational as numerator/denominator pair
				r, ok := new(big.Rat).SetString(v.ExactString())
				if ok {
					fmt.Fprintf(&sb, "def %s_num : Int := %s\ndef %s_den : Int := %s\n", leanName(n), r.Num().String(), leanName(n), r.Denom().String())
					have[n] = true
				}
			}
		}
		for _, r := range p.required {
			if !have[r] {
				broken("constant %s.%s not found or not evaluable", p.dir, r)
			}
		}
		// constants that live inside function bodies, and facts
		for _, l := range locals(p.dir, files, fset) {
			sb.WriteString(l)
			sb.WriteByte('\n')
		}
		fmt.Fprintf(&sb, "\nend ScionTime.Gen.%s\n", p.lean)
		writeIfChanged(filepath.Join(*out, p.lean+".lean"), sb.String())
	}
	checkFacts(*repo, parsed, fset)
	emitLeaves(*repo, parsed, fset, filepath.Join(*out, "Leaf.lean"))
	if len(problems) > 0 {
		for _, p := range problems {
			fmt.Println("TIE-BROKEN " + p)
		}
		os.Exit(3)
	}
}

func writeIfChanged(path, content string) {
	old, err := os.ReadFile(path)
	if err == nil && string(old) == content {
		return
	}
	if err := os.WriteFile(path, []byte(content), 0o644); err != nil {
		panic(err)
	}
}
