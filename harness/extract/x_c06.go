package main

// C06: how the two listeners build the client identity they hand to the timestamp store
// (core/server/server_ip.go runIPServer, core/server/server_scion.go runSCIONServer).
//
// Emits into Gen/Server.lean
//
//	def clientIdIpOperands : List String      -- operands of the `+` chain defining clientID
//	def clientIdScionOperands : List String
//	def clientIdScionSep : String             -- value of the string literal between the two
//	                                          -- operands of the SCION identity ("" if none)
//	def clientIdIpSrcAddr : String            -- the expression srcAddr is defined by
//	def clientIdScionSrcAddr : String
//	def fact_clientID_passed_runIPServer : Bool
//	def fact_clientID_passed_runSCIONServer : Bool
//
// The fact is true iff the listener function contains exactly one definition
// `clientID := …` (no other assignment to it), exactly one call of handleRequest and one of
// updateTXTimestamp, both after the definition, and the first argument of both calls is that
// very variable (same object). Props/C06Ident.lean pins all of these (`C06_pin_*`) to the
// model `clientIdScion ia host = ia ++ "," ++ host` / `clientIdIp host = host`, for which
// injectivity is proved.

import (
	"fmt"
	"go/ast"
	"go/token"
	"go/types"
	"strconv"
	"strings"
)

func c06Flatten(e ast.Expr) []ast.Expr {
	if p, ok := e.(*ast.ParenExpr); ok {
		return c06Flatten(p.X)
	}
	if b, ok := e.(*ast.BinaryExpr); ok && b.Op == token.ADD {
		return append(c06Flatten(b.X), c06Flatten(b.Y)...)
	}
	return []ast.Expr{e}
}

func c06LeanList(xs []string) string {
	q := make([]string, len(xs))
	for i, x := range xs {
		q[i] = leanString(x)
	}
	return "[" + strings.Join(q, ", ") + "]"
}

type c06Identity struct {
	operands []string
	sep      string
	srcAddr  string
	passed   bool
	utxCalls []string // the updateTXTimestamp calls, in source order
}

func c06Listener(files []*ast.File, fn string) (res c06Identity) {
	bad := func(format string, a ...any) {
		res.passed = false
		broken("C06 client identity: "+fn+": "+format, a...)
	}
	fd := findFunc(files, fn)
	if fd == nil || fd.Body == nil {
		broken("C06 client identity: function core/server.%s not found", fn)
		return
	}
	res.passed = true
	var def *ast.Ident
	var defRhs ast.Expr
	nAssign := 0
	var srcDefs []ast.Expr
	ast.Inspect(fd.Body, func(n ast.Node) bool {
		as, ok := n.(*ast.AssignStmt)
		if !ok {
			return true
		}
		for i, l := range as.Lhs {
			id, ok := l.(*ast.Ident)
			if !ok {
				continue
			}
			switch id.Name {
			case "clientID":
				nAssign++
				if as.Tok == token.DEFINE && len(as.Lhs) == 1 && len(as.Rhs) == 1 {
					def, defRhs = id, as.Rhs[0]
				} else {
					bad("clientID is assigned by something else than a single `clientID := expr`")
				}
			case "srcAddr":
				if len(as.Rhs) == 1 {
					srcDefs = append(srcDefs, as.Rhs[0])
				} else if i < len(as.Rhs) {
					srcDefs = append(srcDefs, as.Rhs[i])
				}
			}
		}
		return true
	})
	if def == nil || nAssign != 1 {
		bad("expected exactly one definition of clientID, found %d assignments", nAssign)
		return
	}
	for _, o := range c06Flatten(defRhs) {
		res.operands = append(res.operands, types.ExprString(o))
	}
	ops := c06Flatten(defRhs)
	if len(ops) == 3 {
		if bl, ok := ops[1].(*ast.BasicLit); ok && bl.Kind == token.STRING {
			if v, err := strconv.Unquote(bl.Value); err == nil {
				res.sep = v
			}
		}
	}
	if len(srcDefs) == 1 {
		res.srcAddr = types.ExprString(srcDefs[0])
	} else {
		bad("expected exactly one definition of srcAddr, found %d", len(srcDefs))
	}
	// the calls
	calls := map[string]int{}
	ast.Inspect(fd.Body, func(n ast.Node) bool {
		call, ok := n.(*ast.CallExpr)
		if !ok {
			return true
		}
		f, ok := call.Fun.(*ast.Ident)
		if !ok || (f.Name != "handleRequest" && f.Name != "updateTXTimestamp") {
			return true
		}
		calls[f.Name]++
		if f.Name == "updateTXTimestamp" {
			res.utxCalls = append(res.utxCalls, types.ExprString(call))
		}
		if len(call.Args) == 0 {
			bad("%s called without arguments", f.Name)
			return true
		}
		a, ok := call.Args[0].(*ast.Ident)
		if !ok || a.Name != "clientID" || a.Obj == nil || a.Obj != def.Obj {
			bad("first argument of %s is not the variable defined by `clientID := …` but %s", f.Name, types.ExprString(call.Args[0]))
		}
		if call.Pos() < def.Pos() {
			bad("%s is called before clientID is defined", f.Name)
		}
		return true
	})
	// one updateTXTimestamp after the send, and one in front of every `continue` that ends the
	// iteration after handleRequest without a reply (the list itself is pinned: C06_pin_updateTxCalls)
	if calls["handleRequest"] != 1 || calls["updateTXTimestamp"] < 1 {
		bad("expected one handleRequest and at least one updateTXTimestamp call, found %d and %d", calls["handleRequest"], calls["updateTXTimestamp"])
	}
	return
}

func init() {
	registerLocals("core/server", func(files []*ast.File, fset *token.FileSet) []string {
		ip := c06Listener(files, "runIPServer")
		sc := c06Listener(files, "runSCIONServer")
		b := func(v bool) string {
			if v {
				return "true"
			}
			return "false"
		}
		return []string{
			fmt.Sprintf("def clientIdIpOperands : List String := %s", c06LeanList(ip.operands)),
			fmt.Sprintf("def clientIdScionOperands : List String := %s", c06LeanList(sc.operands)),
			fmt.Sprintf("def clientIdScionSep : String := %s", leanString(sc.sep)),
			fmt.Sprintf("def clientIdIpSrcAddr : String := %s", leanString(ip.srcAddr)),
			fmt.Sprintf("def clientIdScionSrcAddr : String := %s", leanString(sc.srcAddr)),
			fmt.Sprintf("def updateTxCalls_runIPServer : List String := %s", c06LeanList(ip.utxCalls)),
			fmt.Sprintf("def updateTxCalls_runSCIONServer : List String := %s", c06LeanList(sc.utxCalls)),
			fmt.Sprintf("def fact_clientID_passed_runIPServer : Bool := %s", b(ip.passed)),
			fmt.Sprintf("def fact_clientID_passed_runSCIONServer : Bool := %s", b(sc.passed)),
		}
	})
}
