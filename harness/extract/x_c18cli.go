package main

// C18 (client side): the tail of (*CSPTPClientIP).MeasureClockOffset in
// core/client/client_csptp_ip.go — which timestamps and corrections are fed to
// csptp.C2SDelay / S2CDelay / ClockOffset / MeanPathDelay and how the announced UTC offset is
// used — is re-read on every run and emitted into Gen/Client.lean; Props/C18Client.lean pins the
// statements Model/CsptpClient.lean (`evaluate`) transcribes.

import (
	"bytes"
	"fmt"
	"go/ast"
	"go/printer"
	"go/token"
	"strings"
)

func init() {
	registerLocals("core/client", func(files []*ast.File, fset *token.FileSet) []string {
		fd := findFunc(files, "CSPTPClientIP.MeasureClockOffset")
		if fd == nil || fd.Body == nil {
			broken("C18: method CSPTPClientIP.MeasureClockOffset not found in core/client")
			return nil
		}
		norm := func(n ast.Node) string {
			var b bytes.Buffer
			printer.Fprint(&b, fset, n)
			return strings.Join(strings.Fields(b.String()), " ")
		}
		// the statements from `t0 := cTxTime0` to the end, log calls left out
		var xs []string
		started := false
		for _, st := range fd.Body.List {
			s := norm(st)
			if s == "t0 := cTxTime0" {
				started = true
			}
			if !started || strings.HasPrefix(s, "c.Log.LogAttrs(") {
				continue
			}
			xs = append(xs, s)
		}
		if !started {
			broken("C18: the evaluation `t0 := cTxTime0 …` not found in CSPTPClientIP.MeasureClockOffset")
			return nil
		}
		var sb strings.Builder
		sb.WriteString("def csptpcli_eval_stmts : List String := [")
		for i, x := range xs {
			if i > 0 {
				sb.WriteString(", ")
			}
			sb.WriteString(leanString(x))
		}
		sb.WriteString("]")
		return []string{sb.String(), fmt.Sprintf("def csptpcli_eval_stmtCount : Int := %d", len(xs))}
	})
}
