package main

// C16, several rounds on one client: the structural facts that make a round a system of its own
// (Model/CollectRounds.lean): the result channel is a LOCAL of MeasureClockOffsets, made anew by
// every call, and the client struct keeps nothing but the guard word. Emitted into Gen.Client,
// pinned by Props/C16Rounds.lean (C16_pin_channel_is_local).
//
//	c16_clientFields        "name:type" of every field of ReferenceClockClient
//	c16_mscDecls            every statement of MeasureClockOffsets that assigns or declares `msc`
//	c16_mscUses             the distinct other uses of `msc` in MeasureClockOffsets (send statements
//	                        by their channel operand, calls by callee), sorted
//	c16_collectRecvs        the distinct receive operands in collectMeasurements, sorted
//	c16_clientSelectorUses  the distinct selectors `c.<x>` in MeasureClockOffsets, sorted

import (
	"go/ast"
	"go/token"
	"sort"
	"strings"
)

func init() {
	registerLocals("core/client", func(files []*ast.File, fset *token.FileSet) []string {
		quote := func(xs []string) string {
			q := make([]string, len(xs))
			for i, x := range xs {
				q[i] = leanString(x)
			}
			return "[" + strings.Join(q, ", ") + "]"
		}
		set := func(m map[string]bool) []string {
			var xs []string
			for k := range m {
				xs = append(xs, k)
			}
			sort.Strings(xs)
			return xs
		}
		var fields []string
		found := false
		for _, f := range files {
			for _, d := range f.Decls {
				gd, ok := d.(*ast.GenDecl)
				if !ok {
					continue
				}
				for _, sp := range gd.Specs {
					ts, ok := sp.(*ast.TypeSpec)
					if !ok || ts.Name.Name != "ReferenceClockClient" {
						continue
					}
					st, ok := ts.Type.(*ast.StructType)
					if !ok {
						continue
					}
					found = true
					for _, fl := range st.Fields.List {
						typ := cmainSrc(fset, fl.Type)
						if len(fl.Names) == 0 {
							fields = append(fields, "_:"+typ)
						}
						for _, n := range fl.Names {
							fields = append(fields, n.Name+":"+typ)
						}
					}
				}
			}
		}
		if !found {
			broken("C16: type ReferenceClockClient not found in core/client")
			return nil
		}
		mco := findFunc(files, "ReferenceClockClient.MeasureClockOffsets")
		col := findFunc(files, "collectMeasurements")
		if mco == nil || mco.Body == nil || col == nil || col.Body == nil {
			broken("C16: MeasureClockOffsets / collectMeasurements not found in core/client")
			return nil
		}
		isMsc := func(e ast.Expr) bool {
			id, ok := e.(*ast.Ident)
			return ok && id.Name == "msc"
		}
		var decls []string
		uses := map[string]bool{}
		sels := map[string]bool{}
		ast.Inspect(mco.Body, func(n ast.Node) bool {
			switch x := n.(type) {
			case *ast.AssignStmt:
				for _, l := range x.Lhs {
					if isMsc(l) {
						decls = append(decls, cmainSrc(fset, x))
					}
				}
			case *ast.ValueSpec:
				for _, nm := range x.Names {
					if nm.Name == "msc" {
						decls = append(decls, "var "+cmainSrc(fset, x))
					}
				}
			case *ast.SendStmt:
				uses["send on "+cmainSrc(fset, x.Chan)] = true
			case *ast.UnaryExpr:
				if x.Op == token.ARROW {
					uses["receive from "+cmainSrc(fset, x.X)] = true
				}
			case *ast.CallExpr:
				for _, a := range x.Args {
					if isMsc(a) {
						uses["argument of "+cmainSrc(fset, x.Fun)] = true
					}
				}
			case *ast.SelectorExpr:
				if id, ok := x.X.(*ast.Ident); ok && id.Name == "c" {
					sels["c."+x.Sel.Name] = true
				}
			}
			return true
		})
		recvs := map[string]bool{}
		ast.Inspect(col.Body, func(n ast.Node) bool {
			switch x := n.(type) {
			case *ast.UnaryExpr:
				if x.Op == token.ARROW {
					recvs[cmainSrc(fset, x.X)] = true
				}
			case *ast.SendStmt:
				recvs["send on "+cmainSrc(fset, x.Chan)] = true
			}
			return true
		})
		return []string{
			"def c16_clientFields : List String := " + quote(fields),
			"def c16_mscDecls : List String := " + quote(decls),
			"def c16_mscUses : List String := " + quote(set(uses)),
			"def c16_collectRecvs : List String := " + quote(set(recvs)),
			"def c16_clientSelectorUses : List String := " + quote(set(sels)),
		}
	})
}
