package main

import (
	"go/ast"
	"go/token"
)

// Per-property extractor extensions register themselves from their own file
// (extract/x_<prop>.go) so that several people can add to the extractor without editing
// shared code.

// localsFn returns extra Lean definitions (complete lines such as
// "def interleaveWindowNs : Int := 3000000000") for constants that live inside function
// bodies of the package in dir. Report a shape that can no longer be found with broken().
type localsFn func(files []*ast.File, fset *token.FileSet) []string

var localsReg = map[string][]localsFn{}

func registerLocals(dir string, f localsFn) { localsReg[dir] = append(localsReg[dir], f) }

// factFn checks structural facts about the sources against written expectations;
// a fact that no longer holds is reported with broken().
type factFn func(repo string, parsed map[string][]*ast.File, fset *token.FileSet)

var factReg []factFn

func registerFact(f factFn) { factReg = append(factReg, f) }

func locals(dir string, files []*ast.File, fset *token.FileSet) []string {
	var out []string
	for _, f := range localsReg[dir] {
		out = append(out, f(files, fset)...)
	}
	return out
}

func checkFacts(repo string, parsed map[string][]*ast.File, fset *token.FileSet) {
	for _, f := range factReg {
		f(repo, parsed, fset)
	}
}

// findFunc returns the declaration of function or method name ("Recv.Name" for methods,
// receiver type without the star) in files, or nil.
func findFunc(files []*ast.File, name string) *ast.FuncDecl {
	for _, f := range files {
		for _, d := range f.Decls {
			fd, ok := d.(*ast.FuncDecl)
			if !ok {
				continue
			}
			n := fd.Name.Name
			if fd.Recv != nil && len(fd.Recv.List) == 1 {
				t := fd.Recv.List[0].Type
				if s, ok := t.(*ast.StarExpr); ok {
					t = s.X
				}
				if id, ok := t.(*ast.Ident); ok {
					n = id.Name + "." + n
				}
			}
			if n == name {
				return fd
			}
		}
	}
	return nil
}
