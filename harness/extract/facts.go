package main

import (
	"go/ast"
	"go/token"
)

// locals returns extra Lean definitions for constants that live inside function bodies of
// the given package (filled in per package as the models need them).
func locals(dir string, files []*ast.File, fset *token.FileSet) []string {
	return nil
}

// checkFacts compares structural facts about the sources with written expectations;
// a fact that no longer holds is a broken tie.
func checkFacts(repo string, parsed map[string][]*ast.File, fset *token.FileSet) {
}
