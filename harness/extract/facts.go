package main

import (
	"go/ast"
	"go/token"
	"path/filepath"
	"regexp"
	"runtime"
	"strings"
)

// Every registered extension is owned by the properties its file name mentions
// (x_c07.go -> C07, x_c02c18.go -> C02 C18, x_f64p_c18f.go -> C18). While an extension runs,
// broken() tags its reports with the owners, and ./check raises a broken tie only for the
// properties that depend on it (a change that makes C07's lock-discipline fact unextractable
// says nothing about C04).
var ownerRe = regexp.MustCompile(`c[0-9][0-9]`)

func callerOwner() string {
	_, file, _, ok := runtime.Caller(2)
	if !ok {
		return "*"
	}
	ids := ownerRe.FindAllString(strings.TrimSuffix(filepath.Base(file), ".go"), -1)
	if len(ids) == 0 {
		return "*"
	}
	return strings.ToUpper(strings.Join(ids, ","))
}

var currentOwner = "*"

func withOwner(owner string, f func()) {
	saved := currentOwner
	currentOwner = owner
	defer func() { currentOwner = saved }()
	f()
}

// Per-property extractor extensions register themselves from their own file
// (extract/x_<prop>.go) so that several people can add to the extractor without editing
// shared code.

// localsFn returns extra Lean definitions (complete lines such as
// "def interleaveWindowNs : Int := 3000000000") for constants that live inside function
// bodies of the package in dir. Report a shape that can no longer be found with broken().
type localsFn func(files []*ast.File, fset *token.FileSet) []string

type ownedLocals struct {
	owner string
	f     localsFn
}

var localsReg = map[string][]ownedLocals{}

func registerLocals(dir string, f localsFn) {
	localsReg[dir] = append(localsReg[dir], ownedLocals{callerOwner(), f})
}

// factFn checks structural facts about the sources against written expectations;
// a fact that no longer holds is reported with broken().
type factFn func(repo string, parsed map[string][]*ast.File, fset *token.FileSet)

type ownedFact struct {
	owner string
	f     factFn
}

var factReg []ownedFact

func registerFact(f factFn) { factReg = append(factReg, ownedFact{callerOwner(), f}) }

func locals(dir string, files []*ast.File, fset *token.FileSet) []string {
	var out []string
	for _, l := range localsReg[dir] {
		withOwner(l.owner, func() { out = append(out, l.f(files, fset)...) })
	}
	return out
}

func checkFacts(repo string, parsed map[string][]*ast.File, fset *token.FileSet) {
	for _, f := range factReg {
		withOwner(f.owner, func() { f.f(repo, parsed, fset) })
	}
}

// findFunc returns the declaration of function or method name ("Recv.Name" for methods,
// receiver type without the star) in files, or nil.
func findFunc(files []*ast.File, name string) *ast.FuncDecl {
	for _, f := range files {
		for _, d := range f.Decls {
			fd, ok := d.(*ast.FuncDecl)
			if !ok {
				continue
			}
			n := fd.Name.Name
			if fd.Recv != nil && len(fd.Recv.List) == 1 {
				t := fd.Recv.List[0].Type
				if s, ok := t.(*ast.StarExpr); ok {
					t = s.X
				}
				if id, ok := t.(*ast.Ident); ok {
					n = id.Name + "." + n
				}
			}
			if n == name {
				return fd
			}
		}
	}
	return nil
}
