package main

// C07: lock discipline of the server's timestamp store (core/server/server.go).
//
// Emits into Gen/Server.lean
//
//	def fact_tssMu_lock_discipline : Bool := true
//
// iff
//   - handleRequest and updateTXTimestamp each contain, as two consecutive top-level
//     statements of their body, `tssMu.Lock()` and `defer tssMu.Unlock()`, no statement
//     before the Lock mentions `tss` or `tssQ`, and tssMu is mentioned nowhere else in them;
//   - no other function of the package mentions `tss`, `tssQ` or `tssMu`, except the methods
//     of tssQueue (the heap interface, which reach the queue only through their receiver)
//     and the verification hooks (files with the build tag `verif`).
//
// Otherwise the definition is `false` (the pinning theorem in Props/C07 then fails) and the
// tie is reported broken.

import (
	"go/ast"
	"go/token"
	"strings"
)

func init() {
	registerLocals("core/server", func(files []*ast.File, fset *token.FileSet) []string {
		ok := c07LockDiscipline(files, fset)
		if ok {
			return []string{"def fact_tssMu_lock_discipline : Bool := true"}
		}
		return []string{"def fact_tssMu_lock_discipline : Bool := false"}
	})
}

func c07Mentions(n ast.Node, names ...string) bool {
	found := false
	ast.Inspect(n, func(x ast.Node) bool {
		if id, ok := x.(*ast.Ident); ok {
			for _, nm := range names {
				if id.Name == nm {
					found = true
				}
			}
		}
		return !found
	})
	return found
}

// c07IsCall reports whether e is the call `recv.method()` without arguments.
func c07IsCall(e ast.Expr, recv, method string) bool {
	call, ok := e.(*ast.CallExpr)
	if !ok || len(call.Args) != 0 {
		return false
	}
	sel, ok := call.Fun.(*ast.SelectorExpr)
	if !ok || sel.Sel.Name != method {
		return false
	}
	id, ok := sel.X.(*ast.Ident)
	return ok && id.Name == recv
}

func c07VerifFile(f *ast.File) bool {
	for _, cg := range f.Comments {
		if cg.Pos() > f.Package {
			break
		}
		for _, c := range cg.List {
			if strings.HasPrefix(c.Text, "//go:build") && strings.Contains(c.Text, "verif") {
				return true
			}
		}
	}
	return false
}

func c07LockDiscipline(files []*ast.File, fset *token.FileSet) bool {
	good := true
	bad := func(format string, a ...any) {
		good = false
		broken("C07 lock discipline: "+format, a...)
	}
	for _, name := range []string{"handleRequest", "updateTXTimestamp"} {
		fd := findFunc(files, name)
		if fd == nil || fd.Body == nil {
			bad("function core/server.%s not found", name)
			continue
		}
		lockAt := -1
		for i, st := range fd.Body.List {
			if es, ok := st.(*ast.ExprStmt); ok && c07IsCall(es.X, "tssMu", "Lock") {
				lockAt = i
				break
			}
			if c07Mentions(st, "tss", "tssQ", "tssMu") {
				bad("%s: statement %d mentions the store before tssMu.Lock()", name, i)
			}
		}
		if lockAt < 0 {
			bad("%s: no top-level tssMu.Lock() statement", name)
			continue
		}
		if lockAt+1 >= len(fd.Body.List) {
			bad("%s: nothing follows tssMu.Lock()", name)
			continue
		}
		ds, ok := fd.Body.List[lockAt+1].(*ast.DeferStmt)
		if !ok || !c07IsCall(ds.Call, "tssMu", "Unlock") {
			bad("%s: tssMu.Lock() is not immediately followed by defer tssMu.Unlock()", name)
		}
		for i := lockAt + 2; i < len(fd.Body.List); i++ {
			if c07Mentions(fd.Body.List[i], "tssMu") {
				bad("%s: tssMu used again after the Lock/defer Unlock pair (statement %d)", name, i)
			}
		}
	}
	// nobody else touches the store
	for _, f := range files {
		if c07VerifFile(f) {
			continue
		}
		for _, d := range f.Decls {
			switch x := d.(type) {
			case *ast.FuncDecl:
				if x.Recv == nil && (x.Name.Name == "handleRequest" || x.Name.Name == "updateTXTimestamp") {
					continue
				}
				if x.Recv != nil && len(x.Recv.List) == 1 {
					t := x.Recv.List[0].Type
					if s, ok := t.(*ast.StarExpr); ok {
						t = s.X
					}
					if id, ok := t.(*ast.Ident); ok && id.Name == "tssQueue" {
						// heap interface: works on its receiver only
						if x.Body != nil && c07Mentions(x.Body, "tss", "tssQ", "tssMu") {
							bad("method tssQueue.%s mentions the package-level store", x.Name.Name)
						}
						continue
					}
				}
				if x.Body != nil && c07Mentions(x.Body, "tss", "tssQ", "tssMu") {
					bad("function %s (%s) mentions tss/tssQ/tssMu", x.Name.Name, fset.Position(x.Pos()).Filename)
				}
			case *ast.GenDecl:
				// package-level initialisers other than the declaration of the store itself
				if x.Tok != token.VAR {
					continue
				}
				for _, s := range x.Specs {
					vs := s.(*ast.ValueSpec)
					for _, v := range vs.Values {
						if c07Mentions(v, "tss", "tssQ", "tssMu") {
							bad("package-level initialiser mentions tss/tssQ/tssMu (%s)", fset.Position(v.Pos()).Filename)
						}
					}
				}
			}
		}
	}
	return good
}
