package main

import (
	"fmt"
	"go/ast"
	"go/token"
	"go/types"
)

// C14 / C20 (server side of the NTS key exchange): structural facts about
// handleKeyExchangeTLS, handleKeyExchangeQUIC and newNTSKEMsg in core/server, emitted as
// definitions into Gen/Server.lean and pinned by Props/C20Srv.lean (C20Srv_pin_handlers):
//
//   ntskeTLSReaderArg / ntskeQUICReaderArg   the expression whose value is handed to
//       ntske.ReadData as the reader (model: a bufio.Reader made directly on the connection /
//       the accepted stream, so that ReadData itself pulls the bytes from the transport)
//   ntskeTLSConnReads / ntskeQUICStreamReads number of calls in the handler that read from the
//       connection / stream themselves (any call named Read* with the connection as receiver or
//       argument, other than the bufio.NewReader above) — the model has none
//   ntskeTLSReadErrCode / ntskeQUICReadErrCode the error code written when ReadData fails
//   ntskeTLSDefer / ntskeQUICDefer            the deferred close
//   ntskeCookieAttempts                      N of `for range N` in newNTSKEMsg
//
// A shape that can no longer be found is emitted as "?" / -1, which breaks the pin.
func init() {
	registerLocals("core/server", func(files []*ast.File, fset *token.FileSet) []string {
		var out []string
		for _, h := range []struct{ fn, tag, connVar, reads string }{
			{"handleKeyExchangeTLS", "TLS", "conn", "ntskeTLSConnReads"},
			{"handleKeyExchangeQUIC", "QUIC", "stream", "ntskeQUICStreamReads"},
		} {
			readerArg, errCode, deferred := "?", "?", "?"
			reads := -1
			if fd := findFunc(files, h.fn); fd != nil && fd.Body != nil {
				readerArg, errCode, deferred, reads = c20srvHandlerFacts(fd, h.connVar)
			}
			out = append(out,
				fmt.Sprintf("def ntske%sReaderArg : String := %s", h.tag, leanString(readerArg)),
				fmt.Sprintf("def %s : Int := %d", h.reads, reads),
				fmt.Sprintf("def ntske%sReadErrCode : String := %s", h.tag, leanString(errCode)),
				fmt.Sprintf("def ntske%sDefer : String := %s", h.tag, leanString(deferred)),
			)
		}
		attempts := int64(-1)
		if fd := findFunc(files, "newNTSKEMsg"); fd != nil && fd.Body != nil {
			n := 0
			ast.Inspect(fd.Body, func(x ast.Node) bool {
				if rs, ok := x.(*ast.RangeStmt); ok {
					n++
					if bl, ok := rs.X.(*ast.BasicLit); ok && bl.Kind == token.INT && rs.Key == nil && rs.Value == nil {
						var v int64
						if _, err := fmt.Sscan(bl.Value, &v); err == nil {
							attempts = v
						}
					}
				}
				return true
			})
			if n != 1 {
				attempts = -1
			}
		}
		out = append(out, fmt.Sprintf("def ntskeCookieAttempts : Int := %d", attempts))
		return out
	})
}

// c20srvHandlerFacts inspects one handler. connVar is the name of the transport object the
// request is read from (the *tls.Conn parameter, or the accepted quic.Stream).
func c20srvHandlerFacts(fd *ast.FuncDecl, connVar string) (readerArg, errCode, deferred string, reads int) {
	readerArg, errCode, deferred = "?", "?", "?"
	// the deferred close: the only defer statement of the function
	nDefer := 0
	ast.Inspect(fd.Body, func(n ast.Node) bool {
		if d, ok := n.(*ast.DeferStmt); ok {
			nDefer++
			deferred = types.ExprString(d.Call)
		}
		return true
	})
	if nDefer != 1 {
		deferred = "?"
	}
	// the ReadData call and the variable handed to it
	var readerVar string
	nReadData := 0
	stmts := fd.Body.List
	for i, st := range stmts {
		as, ok := st.(*ast.AssignStmt)
		if !ok || len(as.Rhs) != 1 {
			continue
		}
		call, ok := as.Rhs[0].(*ast.CallExpr)
		if !ok || types.ExprString(call.Fun) != "ntske.ReadData" || len(call.Args) != 4 {
			continue
		}
		nReadData++
		if id, ok := call.Args[2].(*ast.Ident); ok {
			readerVar = id.Name
		} else {
			readerArg = types.ExprString(call.Args[2])
		}
		// the statement that follows must be `if err != nil { …; writeNTSKEErrorMsg…(…, CODE); return … }`
		if i+1 < len(stmts) {
			if ifs, ok := stmts[i+1].(*ast.IfStmt); ok && types.ExprString(ifs.Cond) == "err != nil" {
				nWrites := 0
				ast.Inspect(ifs.Body, func(n ast.Node) bool {
					if c, ok := n.(*ast.CallExpr); ok {
						if id, ok := c.Fun.(*ast.Ident); ok && (id.Name == "writeNTSKEErrorMsgTLS" || id.Name == "writeNTSKEErrorMsgQUIC") && len(c.Args) == 4 {
							nWrites++
							errCode = types.ExprString(c.Args[3])
						}
					}
					return true
				})
				if nWrites != 1 {
					errCode = "?"
				}
			}
		}
	}
	if nReadData != 1 {
		return "?", "?", deferred, -1
	}
	// what the reader variable is: exactly one definition `reader := <expr>`
	if readerVar != "" {
		nDef := 0
		ast.Inspect(fd.Body, func(n ast.Node) bool {
			if as, ok := n.(*ast.AssignStmt); ok {
				for j, l := range as.Lhs {
					if id, ok := l.(*ast.Ident); ok && id.Name == readerVar {
						nDef++
						if len(as.Rhs) == len(as.Lhs) {
							readerArg = types.ExprString(as.Rhs[j])
						} else {
							readerArg = "?"
						}
					}
				}
			}
			return true
		})
		if nDef != 1 {
			readerArg = "?"
		}
	}
	// other reads from the transport object
	ast.Inspect(fd.Body, func(n ast.Node) bool {
		c, ok := n.(*ast.CallExpr)
		if !ok {
			return true
		}
		name := ""
		onConn := false
		switch f := c.Fun.(type) {
		case *ast.SelectorExpr:
			name = f.Sel.Name
			if id, ok := f.X.(*ast.Ident); ok && id.Name == connVar {
				onConn = true
			}
		case *ast.Ident:
			name = f.Name
		}
		for _, a := range c.Args {
			if id, ok := a.(*ast.Ident); ok && id.Name == connVar {
				onConn = true
			}
		}
		if onConn && len(name) >= 4 && name[:4] == "Read" {
			reads++
		}
		return true
	})
	return
}
