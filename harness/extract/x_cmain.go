package main

// cmain (properties C01, C03, C20): constants and source shapes of the repository's ROOT
// package (timeservice.go, package main) that Model/MainCfg.lean transcribes. The root package
// is not among the directories extract/main.go parses, so this extension parses timeservice.go
// itself (repository root derived from the position of an already parsed file) and emits its
// definitions into the Gen module of a related package, prefixed `main_`:
//
//	Gen.Sync   (owner C01)      defaults and wiring of syncConfig, guards of clockDrift / dscp,
//	                            TOML keys of the svcConfig fields involved
//	Gen.Client (owner C03,C20)  scionRefClockNumClient, the loop body of newNTPReferenceClockSCION,
//	                            the body of newNTPReferenceClockIP, the tls.Config literals of
//	                            configureIPClientNTS / configureSCIONClientNTS / tlsConfig
//
// One-line change that would make this regular: add {".", "Main", nil} to `pkgs` in main.go.

import (
	"fmt"
	"go/ast"
	"go/constant"
	"go/parser"
	"go/token"
	"math/big"
	"path/filepath"
	"reflect"
	"strings"
)

func cmainSrc(fset *token.FileSet, n ast.Node) string {
	if n == nil || reflect.ValueOf(n).IsNil() {
		return ""
	}
	return strings.Join(strings.Fields(c15src(fset, n)), " ")
}

// cmainParse finds timeservice.go from the position of a parsed file of package dir.
func cmainParse(files []*ast.File, fset *token.FileSet, dir string) (*ast.File, *token.FileSet) {
	if len(files) == 0 {
		broken("package main: no parsed file of %s to locate the repository root from", dir)
		return nil, nil
	}
	name := fset.Position(files[0].Pos()).Filename
	root := filepath.Dir(name)
	for range strings.Split(dir, "/") {
		root = filepath.Dir(root)
	}
	fs := token.NewFileSet()
	f, err := parser.ParseFile(fs, filepath.Join(root, "timeservice.go"), nil, parser.ParseComments)
	if err != nil {
		broken("package main: parse timeservice.go: %v", err)
		return nil, nil
	}
	return f, fs
}

// cmainLit renders the key:value pairs of the first composite literal of type typ in fd.
func cmainLit(fs *token.FileSet, fd *ast.FuncDecl, typ string) string {
	out := ""
	found := false
	ast.Inspect(fd.Body, func(n ast.Node) bool {
		cl, ok := n.(*ast.CompositeLit)
		if !ok || found || cmainSrc(fs, cl.Type) != typ {
			return true
		}
		found = true
		var parts []string
		for _, e := range cl.Elts {
			parts = append(parts, strings.ReplaceAll(cmainSrc(fs, e), ": ", ":"))
		}
		out = strings.Join(parts, " | ")
		return false
	})
	return out
}

func cmainStmts(fs *token.FileSet, l []ast.Stmt) string {
	var parts []string
	for _, s := range l {
		parts = append(parts, cmainSrc(fs, s))
	}
	return strings.Join(parts, " ;; ")
}

func init() {
	registerLocals("core/sync", func(files []*ast.File, fset *token.FileSet) (out []string) {
		withOwner("C01", func() {
			f, fs := cmainParse(files, fset, "core/sync")
			if f == nil {
				return
			}
			fl := []*ast.File{f}
			emitS := func(name, val string) {
				out = append(out, fmt.Sprintf("def main_%s : String := %s", name, leanString(val)))
			}
			// syncConfig: local constants, the composite literal, the default-if-zero statements
			fd := findFunc(fl, "syncConfig")
			if fd == nil {
				broken("package main: func syncConfig not found")
			} else {
				ev := &evaluator{decls: map[string]ast.Expr{}, iotas: map[string]int{}, memo: map[string]constant.Value{}, busy: map[string]bool{}}
				var names []string
				var defaults []string
				for _, st := range fd.Body.List {
					switch x := st.(type) {
					case *ast.DeclStmt:
						if gd, ok := x.Decl.(*ast.GenDecl); ok && gd.Tok == token.CONST {
							for _, sp := range gd.Specs {
								vs := sp.(*ast.ValueSpec)
								for j, n := range vs.Names {
									if j < len(vs.Values) {
										ev.decls[n.Name] = vs.Values[j]
										names = append(names, n.Name)
									}
								}
							}
						}
					case *ast.IfStmt:
						defaults = append(defaults, cmainSrc(fs, x.Cond)+" -> "+cmainStmts(fs, x.Body.List))
					}
				}
				want := map[string]bool{"defaultReferenceClockImpact": false, "defaultPeerClockImpact": false, "defaultPeerClockCutoff": false,
					"defaultSyncTimeout": false, "defaultSyncInterval": false}
				for _, n := range names {
					v := ev.lookup(n)
					if _, ok := want[n]; !ok {
						continue
					}
					switch {
					case v.Kind() == constant.Int:
						out = append(out, fmt.Sprintf("def main_%s : Int := %s", n, v.ExactString()))
						want[n] = true
					case v.Kind() == constant.Float:
						if r, ok := new(big.Rat).SetString(v.ExactString()); ok {
							out = append(out, fmt.Sprintf("def main_%s_num : Int := %s\ndef main_%s_den : Int := %s", n, r.Num().String(), n, r.Denom().String()))
							want[n] = true
						}
					}
				}
				for n, ok := range want {
					if !ok {
						broken("package main: syncConfig: constant %s not found or not evaluable", n)
					}
				}
				emitS("syncConfig_literal", cmainLit(fs, fd, "sync.Config"))
				emitS("syncConfig_defaults", strings.Join(defaults, " | "))
			}
			// svcConfig: TOML keys of the fields syncConfig / clockDrift / dscp read
			var tags []string
			ast.Inspect(f, func(n ast.Node) bool {
				ts, ok := n.(*ast.TypeSpec)
				if !ok || ts.Name.Name != "svcConfig" {
					return true
				}
				if st, ok := ts.Type.(*ast.StructType); ok {
					for _, fld := range st.Fields.List {
						for _, nm := range fld.Names {
							switch nm.Name {
							case "DSCP", "ClockDrift", "ReferenceClockImpact", "PeerClockImpact", "PeerClockCutoff", "SyncTimeout", "SyncInterval":
								tag := ""
								if fld.Tag != nil {
									tag = reflect.StructTag(strings.Trim(fld.Tag.Value, "`")).Get("toml")
								}
								tags = append(tags, nm.Name+":"+cmainSrc(fs, fld.Type)+":"+strings.Split(tag, ",")[0])
							}
						}
					}
				}
				return false
			})
			if len(tags) != 7 {
				broken("package main: svcConfig: expected 7 fields read by syncConfig/clockDrift/dscp, found %d", len(tags))
			}
			emitS("svcConfig_keys", strings.Join(tags, " "))
			for _, fn := range []string{"clockDrift", "dscp"} {
				fd := findFunc(fl, fn)
				if fd == nil {
					broken("package main: func %s not found", fn)
					emitS(fn+"_body", "")
					continue
				}
				var parts []string
				for _, st := range fd.Body.List {
					switch x := st.(type) {
					case *ast.IfStmt:
						parts = append(parts, "if "+cmainSrc(fs, x.Cond)+" fatal")
					case *ast.ReturnStmt:
						parts = append(parts, cmainSrc(fs, x))
					default:
						parts = append(parts, cmainSrc(fs, st))
					}
				}
				emitS(fn+"_body", strings.Join(parts, " ;; "))
			}
		})
		return
	})
	registerLocals("core/client", func(files []*ast.File, fset *token.FileSet) (out []string) {
		withOwner("C03,C20", func() {
			f, fs := cmainParse(files, fset, "core/client")
			if f == nil {
				return
			}
			fl := []*ast.File{f}
			emitS := func(name, val string) {
				out = append(out, fmt.Sprintf("def main_%s : String := %s", name, leanString(val)))
			}
			// scionRefClockNumClient
			ev := &evaluator{decls: map[string]ast.Expr{}, iotas: map[string]int{}, memo: map[string]constant.Value{}, busy: map[string]bool{}}
			for _, d := range f.Decls {
				if gd, ok := d.(*ast.GenDecl); ok && gd.Tok == token.CONST {
					for _, sp := range gd.Specs {
						vs := sp.(*ast.ValueSpec)
						for j, n := range vs.Names {
							if j < len(vs.Values) {
								ev.decls[n.Name] = vs.Values[j]
							}
						}
					}
				}
			}
			if v := ev.lookup("scionRefClockNumClient"); v.Kind() == constant.Int {
				out = append(out, "def main_scionRefClockNumClient : Int := "+v.ExactString())
			} else {
				broken("package main: constant scionRefClockNumClient not found")
			}
			if v := ev.lookup("authModeNTS"); v.Kind() == constant.String {
				emitS("authModeNTS", constant.StringVal(v))
			} else {
				broken("package main: constant authModeNTS not found")
			}
			// ntpReferenceClockSCION.ntpcs is an array of POINTERS of that length
			ntpcs := ""
			ast.Inspect(f, func(n ast.Node) bool {
				ts, ok := n.(*ast.TypeSpec)
				if !ok || ts.Name.Name != "ntpReferenceClockSCION" {
					return true
				}
				if st, ok := ts.Type.(*ast.StructType); ok {
					for _, fld := range st.Fields.List {
						for _, nm := range fld.Names {
							if nm.Name == "ntpcs" {
								ntpcs = cmainSrc(fs, fld.Type)
							}
						}
					}
				}
				return false
			})
			emitS("ntpcs_type", ntpcs)
			// the constructors
			if fd := findFunc(fl, "newNTPReferenceClockSCION"); fd != nil {
				loops, body := 0, ""
				var before []string
				for _, st := range fd.Body.List {
					switch x := st.(type) {
					case *ast.RangeStmt:
						loops++
						body = "for " + cmainSrc(fs, x.Key) + " := range " + cmainSrc(fs, x.X) + " { " + cmainStmts(fs, x.Body.List) + " }"
					case *ast.ForStmt:
						loops++
						body = "for " + cmainSrc(fs, x.Init) + "; " + cmainSrc(fs, x.Cond) + "; " + cmainSrc(fs, x.Post) + " { " + cmainStmts(fs, x.Body.List) + " }"
					default:
						if loops == 0 {
							before = append(before, cmainSrc(fs, st))
						}
					}
				}
				if loops != 1 {
					broken("package main: newNTPReferenceClockSCION: expected exactly one loop over the clients, found %d", loops)
				}
				emitS("newNTPReferenceClockSCION_prologue", strings.Join(before, " ;; "))
				emitS("newNTPReferenceClockSCION_loop", body)
			} else {
				broken("package main: func newNTPReferenceClockSCION not found")
			}
			if fd := findFunc(fl, "newNTPReferenceClockIP"); fd != nil {
				emitS("newNTPReferenceClockIP_body", cmainStmts(fs, fd.Body.List))
			} else {
				broken("package main: func newNTPReferenceClockIP not found")
			}
			for _, fn := range []string{"configureIPClientNTS", "configureSCIONClientNTS", "tlsConfig"} {
				fd := findFunc(fl, fn)
				if fd == nil {
					broken("package main: func %s not found", fn)
					emitS(fn+"_tls", "")
					continue
				}
				typ := "tls.Config"
				lit := cmainLit(fs, fd, typ)
				if lit == "" {
					broken("package main: %s: no tls.Config literal", fn)
				}
				emitS(fn+"_tls", lit)
				if fn != "tlsConfig" {
					// everything the function assigns (in order), besides the literal
					var asg []string
					for _, st := range fd.Body.List {
						if as, ok := st.(*ast.AssignStmt); ok && as.Tok == token.ASSIGN && len(as.Lhs) == 1 {
							rhs := cmainSrc(fs, as.Rhs[0])
							if _, isLit := as.Rhs[0].(*ast.CompositeLit); isLit {
								rhs = "{..}"
							}
							asg = append(asg, cmainSrc(fs, as.Lhs[0])+"="+rhs)
						}
					}
					emitS(fn+"_assigns", strings.Join(asg, " | "))
				}
			}
			if fd := findFunc(fl, "ntskeServerFromRemoteAddr"); fd != nil {
				emitS("ntskeServerFromRemoteAddr_body", cmainStmts(fs, fd.Body.List))
			} else {
				broken("package main: func ntskeServerFromRemoteAddr not found")
			}
		})
		return
	})
}
