package main

// C19: the thresholds and gains of the PLL live inside the body of Pll.Do
// (core/sync/adjustments/pll.go). This extension finds them by their position in the
// mode switch and emits them into Gen/Adjustments.lean; Props/C19.lean pins the model's
// constants to them. A shape that is no longer found is a broken tie.

import (
	"bytes"
	"fmt"
	"go/ast"
	"go/constant"
	"go/parser"
	"go/printer"
	"go/token"
	"math/big"
	"path/filepath"
	"strings"
)

func init() { registerLocals("core/sync/adjustments", c19Locals) }

func c19Locals(files []*ast.File, fset *token.FileSet) []string {
	fd := findFunc(files, "Pll.Do")
	if fd == nil || fd.Body == nil {
		broken("C19: method Pll.Do not found in core/sync/adjustments")
		return nil
	}
	ev := &evaluator{decls: map[string]ast.Expr{}, iotas: map[string]int{}, memo: map[string]constant.Value{}, busy: map[string]bool{}}
	// local constants (pInit, iInit, captureTime, stiffenRate, pLimit)
	ast.Inspect(fd.Body, func(n ast.Node) bool {
		if gd, ok := n.(*ast.GenDecl); ok && gd.Tok == token.CONST {
			for _, s := range gd.Specs {
				vs := s.(*ast.ValueSpec)
				for j, nm := range vs.Names {
					if j < len(vs.Values) {
						ev.decls[nm.Name] = vs.Values[j]
					}
				}
			}
		}
		return true
	})
	var out []string
	emit := func(name string, v constant.Value) {
		if v.Kind() == constant.Float && constant.ToInt(v).Kind() == constant.Int {
			v = constant.ToInt(v)
		}
		switch v.Kind() {
		case constant.Int:
			out = append(out, fmt.Sprintf("def pll_%s : Int := %s", name, v.ExactString()))
		case constant.Float:
			r, ok := new(big.Rat).SetString(v.ExactString())
			if !ok {
				broken("C19: constant %s not representable", name)
				return
			}
			f, _ := r.Float64() // what the compiler stores: the nearest double
			fr := new(big.Rat).SetFloat64(f)
			out = append(out,
				fmt.Sprintf("def pll_%s_num : Int := %s", name, r.Num().String()),
				fmt.Sprintf("def pll_%s_den : Int := %s", name, r.Denom().String()),
				fmt.Sprintf("def pll_%s_f64num : Int := %s", name, fr.Num().String()),
				fmt.Sprintf("def pll_%s_f64den : Int := %s", name, fr.Denom().String()))
		default:
			broken("C19: constant %s of Pll.Do not evaluable", name)
		}
	}
	emitOp := func(name string, op token.Token) {
		out = append(out, fmt.Sprintf("def pll_%s_op : String := %q", name, op.String()))
	}
	for _, n := range []string{"pInit", "iInit", "captureTime", "stiffenRate", "pLimit"} {
		if _, ok := ev.decls[n]; !ok {
			broken("C19: local constant %s of Pll.Do not found", n)
			continue
		}
		emit(n, ev.lookup(n))
	}
	// the mode switch
	var sw *ast.SwitchStmt
	for _, st := range fd.Body.List {
		if s, ok := st.(*ast.SwitchStmt); ok {
			if sel, ok := s.Tag.(*ast.SelectorExpr); ok && sel.Sel.Name == "mode" {
				sw = s
			}
		}
	}
	if sw == nil {
		broken("C19: switch l.mode not found in Pll.Do")
		return out
	}
	cases := map[int64]*ast.CaseClause{}
	hasDefault := false
	for _, st := range sw.Body.List {
		cc := st.(*ast.CaseClause)
		if cc.List == nil {
			hasDefault = true
			continue
		}
		for _, x := range cc.List {
			v := ev.eval(x, 0)
			if i, ok := constant.Int64Val(constant.ToInt(v)); ok && v.Kind() != constant.Unknown {
				cases[i] = cc
			}
		}
	}
	if len(cases) != 4 || cases[0] == nil || cases[1] == nil || cases[2] == nil || cases[3] == nil || !hasDefault {
		broken("C19: Pll.Do mode switch no longer has exactly the cases 0,1,2,3 and a default")
		return out
	}
	out = append(out, "def pll_modeCount : Int := 4")
	// name of a comparison's variable side: "mdt", "weight", "offset.Abs()", "p", "l.a", "dt", "d"
	side := func(x ast.Expr) string {
		switch v := x.(type) {
		case *ast.Ident:
			return v.Name
		case *ast.SelectorExpr:
			if id, ok := v.X.(*ast.Ident); ok {
				return id.Name + "." + v.Sel.Name
			}
		case *ast.CallExpr:
			if s, ok := v.Fun.(*ast.SelectorExpr); ok {
				if id, ok := s.X.(*ast.Ident); ok {
					return id.Name + "." + s.Sel.Name + "()"
				}
			}
		}
		return ""
	}
	type cmp struct {
		lhs string
		op  token.Token
		rhs ast.Expr
	}
	cmps := func(n ast.Node) []cmp {
		var cs []cmp
		ast.Inspect(n, func(n ast.Node) bool {
			if b, ok := n.(*ast.BinaryExpr); ok {
				switch b.Op {
				case token.LSS, token.LEQ, token.GTR, token.GEQ, token.EQL, token.NEQ:
					if s := side(b.X); s != "" {
						cs = append(cs, cmp{s, b.Op, b.Y})
					}
				}
			}
			return true
		})
		return cs
	}
	find := func(cs []cmp, lhs string, k int) *cmp { // k-th comparison with that left side
		for i := range cs {
			if cs[i].lhs == lhs {
				if k == 0 {
					return &cs[i]
				}
				k--
			}
		}
		return nil
	}
	want := func(where string, cs []cmp, lhs string, k int, name string) {
		c := find(cs, lhs, k)
		if c == nil {
			broken("C19: comparison of %s (#%d) not found in %s of Pll.Do", lhs, k, where)
			return
		}
		emitOp(name, c.op)
		emit(name, ev.eval(c.rhs, 0))
	}
	c1 := cmps(cases[1])
	want("case 1", c1, "mdt", 0, "clockCheck1") // mdt < 0
	want("case 1", c1, "mdt", 1, "stepWait")    // mdt > 2*time.Second
	want("case 1", c1, "weight", 0, "stepWeight")
	want("case 1", c1, "offset.Abs()", 0, "stepThreshold")
	c2 := cmps(cases[2])
	want("case 2", c2, "mdt", 0, "clockCheck2")
	want("case 2", c2, "mdt", 1, "pllWait")
	c3 := cmps(cases[3])
	want("case 3", c3, "mdt", 0, "clockCheck3")
	want("case 3", c3, "dt", 0, "clockCheck3dt")
	want("case 3", c3, "weight", 0, "wLow")
	want("case 3", c3, "weight", 1, "wHigh")
	want("case 3", c3, "l.a", 0, "pLimitCmp")
	// the clamp: p > d*C and p < d*C'
	for k, name := range []string{"slewPos", "slewNeg"} {
		c := find(c3, "p", k)
		if c == nil {
			broken("C19: clamp comparison #%d of p not found in Pll.Do", k)
			continue
		}
		m, ok := c.rhs.(*ast.BinaryExpr)
		if !ok || m.Op != token.MUL || side(m.X) != "d" {
			broken("C19: clamp limit #%d is no longer d*<constant>", k)
			continue
		}
		emitOp(name, c.op)
		emit(name, ev.eval(m.Y, 0))
	}
	// the fixed gains: assignments a = <lit>, b = <lit> in order of appearance
	var as, bs []ast.Expr
	ast.Inspect(cases[3], func(n ast.Node) bool {
		if a, ok := n.(*ast.AssignStmt); ok && a.Tok == token.ASSIGN && len(a.Lhs) == 1 && len(a.Rhs) == 1 {
			if id, ok := a.Lhs[0].(*ast.Ident); ok {
				if _, lit := a.Rhs[0].(*ast.BasicLit); lit {
					switch id.Name {
					case "a":
						as = append(as, a.Rhs[0])
					case "b":
						bs = append(bs, a.Rhs[0])
					}
				}
			}
		}
		return true
	})
	if len(as) != 2 || len(bs) != 2 {
		broken("C19: the two fixed gain pairs (a, b) of the tracking mode not found")
	} else {
		emit("aLow", ev.eval(as[0], 0))
		emit("bLow", ev.eval(bs[0], 0))
		emit("aMid", ev.eval(as[1], 0))
		emit("bMid", ev.eval(bs[1], 0))
	}
	// Step only in case 1; Adjust only after the switch under `if d > 0.0`
	calls := func(n ast.Node, name string) int {
		k := 0
		ast.Inspect(n, func(n ast.Node) bool {
			if c, ok := n.(*ast.CallExpr); ok {
				if s, ok := c.Fun.(*ast.SelectorExpr); ok && s.Sel.Name == name {
					if in, ok := s.X.(*ast.SelectorExpr); ok && in.Sel.Name == "clk" {
						k++
					}
				}
			}
			return true
		})
		return k
	}
	if calls(fd.Body, "Step") != 1 || calls(cases[1], "Step") != 1 {
		broken("C19: l.clk.Step is no longer called exactly once, in case 1 of Pll.Do")
	}
	out = append(out, "def pll_stepCallsInCase1 : Int := 1")
	guardFound := false
	for _, st := range fd.Body.List {
		if is, ok := st.(*ast.IfStmt); ok && calls(is.Body, "Adjust") == 1 {
			cs := cmps(is.Cond)
			if len(cs) == 1 && cs[0].lhs == "d" && calls(fd.Body, "Adjust") == 1 {
				emitOp("adjustGuard", cs[0].op)
				emit("adjustGuard", ev.eval(cs[0].rhs, 0))
				guardFound = true
			}
		}
	}
	if !guardFound {
		broken("C19: the guard `if d > 0.0 { l.clk.Adjust(...) }` at the end of Pll.Do not found")
	}
	return out
}

// ---------------------------------------------------------------- the clock object
//
// C19 also rests on driver/clocks/sysclk_linux.go (Model/SysClock.lean): the statement shape of
// SystemClock.Step / Adjust / Epoch / Sleep is re-read on every run and emitted into
// Gen/Adjustments.lean (driver/clocks is not one of the extractor's packages, so this extension
// parses the file itself); Props/C19Clock.lean pins the model's reading of them.

func init() { registerLocals("core/sync/adjustments", c19ClockLocals) }

func c19Norm(fset *token.FileSet, n ast.Node) string {
	var b bytes.Buffer
	printer.Fprint(&b, fset, n)
	return strings.Join(strings.Fields(b.String()), " ")
}

func c19LeanList(name string, xs []string) string {
	var sb strings.Builder
	fmt.Fprintf(&sb, "def %s : List String := [", name)
	for i, x := range xs {
		if i > 0 {
			sb.WriteString(", ")
		}
		sb.WriteString(leanString(x))
	}
	sb.WriteString("]")
	return sb.String()
}

func c19ClockLocals(files []*ast.File, fset *token.FileSet) []string {
	if len(files) == 0 {
		return nil
	}
	// <repo>/core/sync/adjustments/<file>.go -> <repo>
	repo := filepath.Dir(filepath.Dir(filepath.Dir(filepath.Dir(fset.Position(files[0].Pos()).Filename))))
	path := filepath.Join(repo, "driver", "clocks", "sysclk_linux.go")
	f, err := parser.ParseFile(fset, path, nil, 0)
	if err != nil {
		broken("C19: %s: %v", path, err)
		return nil
	}
	var out []string
	stmts := func(fd *ast.FuncDecl) []string {
		var xs []string
		for _, st := range fd.Body.List {
			xs = append(xs, c19Norm(fset, st))
		}
		return xs
	}
	get := func(name string) *ast.FuncDecl {
		fd := findFunc([]*ast.File{f}, "SystemClock."+name)
		if fd == nil || fd.Body == nil {
			broken("C19: method SystemClock.%s not found in driver/clocks/sysclk_linux.go", name)
			return nil
		}
		return fd
	}
	isSel := func(e ast.Expr, field string) bool { // <anything>.<field>
		s, ok := e.(*ast.SelectorExpr)
		return ok && s.Sel.Name == field
	}
	count := func(n ast.Node, pred func(ast.Node) bool) int {
		k := 0
		ast.Inspect(n, func(n ast.Node) bool {
			if n != nil && pred(n) {
				k++
			}
			return true
		})
		return k
	}
	writes := func(field string) func(ast.Node) bool {
		return func(n ast.Node) bool {
			switch s := n.(type) {
			case *ast.IncDecStmt:
				return isSel(s.X, field)
			case *ast.AssignStmt:
				for _, l := range s.Lhs {
					if isSel(l, field) {
						return true
					}
				}
			}
			return false
		}
	}
	isCall := func(st ast.Stmt, fn string) bool {
		es, ok := st.(*ast.ExprStmt)
		if !ok {
			return false
		}
		c, ok := es.X.(*ast.CallExpr)
		if !ok {
			return false
		}
		id, ok := c.Fun.(*ast.Ident)
		return ok && id.Name == fn
	}
	for _, name := range []string{"Epoch", "Step", "Adjust", "Sleep"} {
		if fd := get(name); fd != nil {
			out = append(out, c19LeanList("sysclk_"+strings.ToLower(name)+"_stmts", stmts(fd)))
		}
	}
	if fd := get("Step"); fd != nil {
		// no return statement; exactly one `c.epoch++`, an unconditional top-level statement after
		// the (single, top-level) setOffset call
		incIdx, offIdx := -1, -1
		for i, st := range fd.Body.List {
			if s, ok := st.(*ast.IncDecStmt); ok && s.Tok == token.INC && isSel(s.X, "epoch") {
				incIdx = i
			}
			if isCall(st, "setOffset") {
				offIdx = i
			}
		}
		nRet := count(fd.Body, func(n ast.Node) bool { _, ok := n.(*ast.ReturnStmt); return ok })
		nInc := count(fd.Body, writes("epoch"))
		nOff := count(fd.Body, func(n ast.Node) bool {
			c, ok := n.(*ast.CallExpr)
			if !ok {
				return false
			}
			id, ok := c.Fun.(*ast.Ident)
			return ok && id.Name == "setOffset"
		})
		if nRet != 0 || nInc != 1 || nOff != 1 || incIdx < 0 || offIdx < 0 || offIdx > incIdx {
			broken("C19: SystemClock.Step no longer has the shape `… setOffset(c.log, offset) … c.epoch++` (one unconditional top-level epoch increment after the one top-level setOffset call, no return): returns=%d epoch-writes=%d setOffset-calls=%d", nRet, nInc, nOff)
		}
		out = append(out,
			fmt.Sprintf("def sysclk_step_returns : Int := %d", nRet),
			fmt.Sprintf("def sysclk_step_epochWrites : Int := %d", nInc),
			fmt.Sprintf("def sysclk_step_setOffsetCalls : Int := %d", nOff),
			fmt.Sprintf("def sysclk_step_epochIncTopLevel : Bool := %v", incIdx >= 0),
			fmt.Sprintf("def sysclk_step_setOffsetBeforeEpochInc : Bool := %v", offIdx >= 0 && offIdx < incIdx))
	}
	// which methods write c.epoch / c.adjustment at all
	var epochW, adjW []string
	for _, d := range f.Decls {
		fd, ok := d.(*ast.FuncDecl)
		if !ok || fd.Body == nil {
			continue
		}
		for i := 0; i < count(fd.Body, writes("epoch")); i++ {
			epochW = append(epochW, fd.Name.Name)
		}
		for i := 0; i < count(fd.Body, writes("adjustment")); i++ {
			adjW = append(adjW, fd.Name.Name)
		}
	}
	out = append(out, c19LeanList("sysclk_epochWriters", epochW), c19LeanList("sysclk_adjustmentWriters", adjW))
	if fd := get("Adjust"); fd != nil {
		// the goroutine: its statements, verbatim
		var gs []string
		ast.Inspect(fd.Body, func(n ast.Node) bool {
			if g, ok := n.(*ast.GoStmt); ok {
				if fl, ok := g.Call.Fun.(*ast.FuncLit); ok {
					for _, st := range fl.Body.List {
						gs = append(gs, c19Norm(fset, st))
					}
					var args []string
					for _, a := range g.Call.Args {
						args = append(args, c19Norm(fset, a))
					}
					gs = append(gs, "args: "+strings.Join(args, ", "))
				}
			}
			return true
		})
		if len(gs) == 0 {
			broken("C19: SystemClock.Adjust no longer starts its expiry goroutine with `go func(…) {…}(…)`")
		}
		out = append(out, c19LeanList("sysclk_adjust_goroutine", gs))
	}
	return out
}
