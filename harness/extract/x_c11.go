package main

import (
	"bytes"
	"fmt"
	"go/ast"
	"go/printer"
	"go/token"
	"strings"
)

// C11 / C08Nts: the listeners' NTS branch (runIPServer, runSCIONServer) is not called by the
// harness (it needs sockets); harness/cmd/c10/ntsx.srvReply and Model/Nts.lean serverReply
// transcribe it. To notice when the branch changes, its sequence of calls into net/nts and
// net/ntske (and the bound of the cookie loop) is exported as a constant and pinned by a theorem in
// Props/C11.lean: a different sequence breaks that proof (and only C11 / C08Nts).
func init() {
	registerLocals("core/server", func(files []*ast.File, fset *token.FileSet) []string {
		var out []string
		for _, fn := range []string{"runIPServer", "runSCIONServer"} {
			fd := findFunc(files, fn)
			if fd == nil {
				broken("core/server: function %s not found (NTS branch shape)", fn)
				continue
			}
			recv := map[string]bool{"nts": true, "ntsreq": true, "encryptedCookie": true, "provider": true, "serverCookie": true}
			var seq []string
			ast.Inspect(fd.Body, func(n ast.Node) bool {
				switch x := n.(type) {
				case *ast.CallExpr:
					if se, ok := x.Fun.(*ast.SelectorExpr); ok {
						if id, ok := se.X.(*ast.Ident); ok && recv[id.Name] {
							seq = append(seq, id.Name+"."+se.Sel.Name)
						}
					}
				case *ast.RangeStmt:
					var b bytes.Buffer
					printer.Fprint(&b, fset, x.X)
					if strings.Contains(b.String(), "ntsreq") {
						seq = append(seq, "range("+strings.ReplaceAll(b.String(), " ", "")+")")
					}
				}
				return true
			})
			out = append(out, fmt.Sprintf("def ntsBranch_%s : String := %s", fn, leanString(strings.Join(seq, ";"))))
		}
		return out
	})
}
