package main

import (
	"bytes"
	"fmt"
	"go/ast"
	"go/printer"
	"go/token"
	"strings"
)

// C11 / C08Nts: the listeners' NTS branch (runIPServer, runSCIONServer) is not called by the
// harness (it needs sockets); harness/cmd/c10/ntsx.srvReply and Model/Nts.lean serverReply
// transcribe it. To notice when the branch changes, its sequence of calls into net/nts and
// net/ntske (and the bound of the cookie loop) is exported as a constant and pinned by a theorem in
// Props/C11.lean: a different sequence breaks that proof (and only C11 / C08Nts).
func init() {
	registerLocals("core/server", func(files []*ast.File, fset *token.FileSet) []string {
		var out []string
		for _, fn := range []string{"runIPServer", "runSCIONServer"} {
			fd := findFunc(files, fn)
			if fd == nil {
				broken("core/server: function %s not found (NTS branch shape)", fn)
				continue
			}
			recv := map[string]bool{"nts": true, "ntsreq": true, "encryptedCookie": true, "provider": true, "serverCookie": true}
			var seq []string
			ast.Inspect(fd.Body, func(n ast.Node) bool {
				switch x := n.(type) {
				case *ast.CallExpr:
					if se, ok := x.Fun.(*ast.SelectorExpr); ok {
						if id, ok := se.X.(*ast.Ident); ok && recv[id.Name] {
							seq = append(seq, id.Name+"."+se.Sel.Name)
						}
					}
				case *ast.RangeStmt:
					var b bytes.Buffer
					printer.Fprint(&b, fset, x.X)
					if strings.Contains(b.String(), "ntsreq") {
						seq = append(seq, "range("+strings.ReplaceAll(b.String(), " ", "")+")")
					}
				}
				return true
			})
			out = append(out, fmt.Sprintf("def ntsBranch_%s : String := %s", fn, leanString(strings.Join(seq, ";"))))
		}
		return out
	})
}

// C11, client side: Model/NtsPool.lean recvLoop models the NTS stage of the clients' receive loop
// with a packet value of its own per datagram (nts.DecodePacket appends to the packet it is given,
// so the scope of that variable decides whether cookie fields of a refused datagram can reach
// ProcessResponse with a later one). Exported per client function: where the variable handed to
// nts.DecodePacket is declared relative to the innermost enclosing for statement of the call
// ("loop": inside its body, "function": outside of it, "no-loop": the call is not in a loop).
func init() {
	registerLocals("core/client", func(files []*ast.File, fset *token.FileSet) []string {
		var out []string
		for _, fn := range []struct{ name, tag string }{
			{"IPClient.measureClockOffsetIP", "IP"},
			{"SCIONClient.measureClockOffsetSCION", "SCION"},
		} {
			fd := findFunc(files, fn.name)
			if fd == nil || fd.Body == nil {
				broken("function %s not found (scope of the NTS response packet)", fn.name)
				continue
			}
			// declarations by name
			decl := map[string][]token.Pos{}
			ast.Inspect(fd.Body, func(n ast.Node) bool {
				switch x := n.(type) {
				case *ast.ValueSpec:
					for _, id := range x.Names {
						decl[id.Name] = append(decl[id.Name], id.Pos())
					}
				case *ast.AssignStmt:
					if x.Tok == token.DEFINE {
						for _, l := range x.Lhs {
							if id, ok := l.(*ast.Ident); ok {
								decl[id.Name] = append(decl[id.Name], id.Pos())
							}
						}
					}
				}
				return true
			})
			var scopes []string
			var loops []*ast.BlockStmt
			var walk func(n ast.Node)
			walk = func(n ast.Node) {
				ast.Inspect(n, func(m ast.Node) bool {
					switch x := m.(type) {
					case *ast.ForStmt:
						if x.Init != nil {
							walk(x.Init)
						}
						loops = append(loops, x.Body)
						walk(x.Body)
						loops = loops[:len(loops)-1]
						return false
					case *ast.RangeStmt:
						loops = append(loops, x.Body)
						walk(x.Body)
						loops = loops[:len(loops)-1]
						return false
					case *ast.CallExpr:
						se, ok := x.Fun.(*ast.SelectorExpr)
						if !ok || se.Sel.Name != "DecodePacket" || len(x.Args) < 1 {
							return true
						}
						if id, ok := se.X.(*ast.Ident); !ok || id.Name != "nts" {
							return true
						}
						u, ok := x.Args[0].(*ast.UnaryExpr)
						if !ok || u.Op != token.AND {
							scopes = append(scopes, "other")
							return true
						}
						id, ok := u.X.(*ast.Ident)
						if !ok {
							scopes = append(scopes, "other")
							return true
						}
						if len(loops) == 0 {
							scopes = append(scopes, "no-loop")
							return true
						}
						body := loops[len(loops)-1]
						sc := "function"
						for _, p := range decl[id.Name] {
							if body.Pos() <= p && p < x.Pos() && p <= body.End() {
								sc = "loop"
							}
						}
						scopes = append(scopes, sc)
					}
					return true
				})
			}
			walk(fd.Body)
			if len(scopes) == 0 {
				broken("%s: no call nts.DecodePacket(&pkt, …) found", fn.name)
				continue
			}
			out = append(out, fmt.Sprintf("def ntsRespPacketScope%s : String := %s", fn.tag, leanString(strings.Join(scopes, ";"))))
		}
		return out
	})
}
