package main

import (
	"fmt"
	"go/ast"
	"go/token"
	"strconv"
	"strings"
)

// C01: structural facts of core/sync.Run the model depends on.
//
//	startupMessages   the string arguments of the panic calls that precede the loop, in source order
//	adjDoCallsInLoop  number of adj.Do(...) calls in the loop body (outside nested function literals)
//	sleepCallsInLoop  number of clk.Sleep(...) calls in the loop body, likewise
//	adjDoUnconditional / sleepUnconditional: 1 iff that call is a direct statement of the loop body
func init() {
	registerLocals("core/sync", func(files []*ast.File, fset *token.FileSet) []string {
		fd := findFunc(files, "Run")
		if fd == nil || fd.Body == nil {
			broken("core/sync: func Run not found")
			return nil
		}
		var msgs []string
		var loop *ast.ForStmt
		for _, st := range fd.Body.List {
			if f, ok := st.(*ast.ForStmt); ok {
				loop = f
				break
			}
			ast.Inspect(st, func(n ast.Node) bool {
				if ce, ok := n.(*ast.CallExpr); ok {
					if id, ok := ce.Fun.(*ast.Ident); ok && id.Name == "panic" && len(ce.Args) == 1 {
						if bl, ok := ce.Args[0].(*ast.BasicLit); ok && bl.Kind == token.STRING {
							s, _ := strconv.Unquote(bl.Value)
							msgs = append(msgs, s)
						}
					}
				}
				return true
			})
		}
		if loop == nil || loop.Cond != nil || loop.Init != nil || loop.Post != nil {
			broken("core/sync.Run: the unconditional for loop was not found")
			return nil
		}
		isCall := func(n ast.Node, recv, name string) bool {
			ce, ok := n.(*ast.CallExpr)
			if !ok {
				return false
			}
			se, ok := ce.Fun.(*ast.SelectorExpr)
			if !ok || se.Sel.Name != name {
				return false
			}
			id, ok := se.X.(*ast.Ident)
			return ok && id.Name == recv
		}
		count := func(recv, name string) (total, direct int) {
			ast.Inspect(loop.Body, func(n ast.Node) bool {
				if _, ok := n.(*ast.FuncLit); ok {
					return false
				}
				if isCall(n, recv, name) {
					total++
				}
				return true
			})
			for _, st := range loop.Body.List {
				if es, ok := st.(*ast.ExprStmt); ok && isCall(es.X, recv, name) {
					direct++
				}
			}
			return
		}
		doT, doD := count("adj", "Do")
		slT, slD := count("clk", "Sleep")
		q := make([]string, len(msgs))
		for i, m := range msgs {
			q[i] = leanString(m)
		}
		return []string{
			"def startupMessages : List String := [" + strings.Join(q, ", ") + "]",
			fmt.Sprintf("def adjDoCallsInLoop : Int := %d", doT),
			fmt.Sprintf("def adjDoUnconditional : Int := %d", doD),
			fmt.Sprintf("def sleepCallsInLoop : Int := %d", slT),
			fmt.Sprintf("def sleepUnconditional : Int := %d", slD),
		}
	})
}
