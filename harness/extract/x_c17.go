package main

import (
	"fmt"
	"go/ast"
	"go/constant"
	"go/token"
	"math/big"
	"sort"
	"strings"
)

// C17: the two float constants declared inside (*NtimedFilter).Do, exported as exact
// rationals, and the structural fact that (*NtimedFilter).Reset assigns every state field
// of the struct (everything except the logger fields).

func init() {
	registerLocals("core/client", func(files []*ast.File, fset *token.FileSet) []string {
		fd := findFunc(files, "NtimedFilter.Do")
		if fd == nil || fd.Body == nil {
			broken("core/client: (*NtimedFilter).Do not found")
			return nil
		}
		want := map[string]string{"filterAverage": "ntimedFilterAverage", "filterThreshold": "ntimedFilterThreshold"}
		found := map[string]bool{}
		var out []string
		ast.Inspect(fd.Body, func(n ast.Node) bool {
			gd, ok := n.(*ast.GenDecl)
			if !ok || gd.Tok != token.CONST {
				return true
			}
			for _, sp := range gd.Specs {
				vs := sp.(*ast.ValueSpec)
				for i, name := range vs.Names {
					ln, ok := want[name.Name]
					if !ok || i >= len(vs.Values) {
						continue
					}
					bl, ok := vs.Values[i].(*ast.BasicLit)
					if !ok || (bl.Kind != token.FLOAT && bl.Kind != token.INT) {
						broken("core/client: constant %s in NtimedFilter.Do is not a numeric literal", name.Name)
						continue
					}
					v := constant.MakeFromLiteral(bl.Value, bl.Kind, 0)
					r, ok := new(big.Rat).SetString(v.ExactString())
					if !ok {
						broken("core/client: constant %s in NtimedFilter.Do not evaluable", name.Name)
						continue
					}
					out = append(out, fmt.Sprintf("def %s_num : Int := %s\ndef %s_den : Int := %s", ln, r.Num().String(), ln, r.Denom().String()))
					found[name.Name] = true
				}
			}
			return true
		})
		for k := range want {
			if !found[k] {
				broken("core/client: constant %s not found in NtimedFilter.Do", k)
			}
		}
		sort.Strings(out)
		return out
	})

	registerFact(func(repo string, parsed map[string][]*ast.File, fset *token.FileSet) {
		files := parsed["core/client"]
		if files == nil {
			return
		}
		// state fields of the struct
		var fields []string
		for _, f := range files {
			for _, d := range f.Decls {
				gd, ok := d.(*ast.GenDecl)
				if !ok || gd.Tok != token.TYPE {
					continue
				}
				for _, sp := range gd.Specs {
					ts := sp.(*ast.TypeSpec)
					st, ok := ts.Type.(*ast.StructType)
					if !ok || ts.Name.Name != "NtimedFilter" {
						continue
					}
					for _, fl := range st.Fields.List {
						for _, n := range fl.Names {
							if !strings.HasPrefix(n.Name, "log") {
								fields = append(fields, n.Name)
							}
						}
					}
				}
			}
		}
		fd := findFunc(files, "NtimedFilter.Reset")
		if fd == nil || fd.Body == nil || len(fields) == 0 {
			broken("core/client: NtimedFilter struct or Reset not found")
			return
		}
		assigned := map[string]bool{}
		ast.Inspect(fd.Body, func(n ast.Node) bool {
			as, ok := n.(*ast.AssignStmt)
			if !ok {
				return true
			}
			for _, l := range as.Lhs {
				if se, ok := l.(*ast.SelectorExpr); ok {
					assigned[se.Sel.Name] = true
				}
			}
			return true
		})
		for _, f := range fields {
			if !assigned[f] {
				broken("core/client: (*NtimedFilter).Reset does not assign state field %q (C17 reset_forgets)", f)
			}
		}
		want := []string{"epoch", "alo", "amid", "ahi", "alolo", "ahihi", "navg"}
		sort.Strings(fields)
		sort.Strings(want)
		if strings.Join(fields, ",") != strings.Join(want, ",") {
			broken("core/client: NtimedFilter state fields are %v, the model has %v", fields, want)
		}
	})
}
