package main

// Leaf translator: straight-line integer functions of /repo are translated, on every run,
// from their Go AST into Lean definitions over fixed-width integers (Gen/Leaf.lean), and
// Props/Leaf*.lean proves each generated definition equal to the hand-written model's
// (kernel-checked tie for these leaves, instead of sampling). The accepted Go subset is
// deliberately tiny: parameters and results of integer/bool/error type (error = Bool
// "failed"), structs of integer fields, := / = / op= assignments, if / else, tagless switch,
// return, calls of other translated leaves, integer and comparison operators; and, second
// generation: time.Time values (an Int count of nanoseconds, operations from the hand-written
// prelude Model/GoPrelude.lean: Sub, Unix, Nanosecond, Before, After, UTC, time.Unix),
// panic(...) (the function then returns an Option, none = panic), conversions between
// integer widths, int64 shifts by constants, nested field selection, struct literals of
// translated struct types; and, third generation: slices of integers as lists (len, indexing
// with the bounds check made explicit — an out-of-range index is a panic —, slices.Sort).
// Fourth generation: float64 values over the exact software double of Model/F64.lean
// (+ - * / and comparisons, float64(int), int64(float), Duration.Seconds, constant operands
// folded exactly as the Go compiler does), and calls of leaves of other packages.
// Fifth generation: methods with a pointer receiver that assign to the receiver's fields — the
// receiver is threaded through and returned as the first component of the result —, named and
// multiple results, `var` declarations (zero values), constants declared inside the body,
// math.Sqrt, calls of such methods on the same receiver, and external functions whose value is
// an input of the model (timebase.Epoch(): an extra parameter, one value per call of the leaf).
// Blocks that only log (`if x.log != nil { … }`) are skipped.
// Sixth generation: `switch tag { case c: … default: … }`, `x.f++`, calls on the receiver's
// `clk` field — Epoch() and Now() are extra parameters (one value per call of the leaf), Step and
// Adjust are appended to a list of recorded actions returned with the result —, math.Pow's
// result as a parameter (it is not correctly rounded: an input of the model), math.Ceil,
// time.Duration.Abs, panic(...) inside such methods (Option result), log statements skipped.
// Anything else is reported as a broken tie.

import (
	"fmt"
	"go/ast"
	"go/constant"
	"go/token"
	"math/big"
	"sort"
	"strings"
)

type leafSpec struct {
	dir  string // package directory
	fn   string // "Name" or "Recv.Name"
	lean string // Lean definition name
}

var leaves = []leafSpec{
	{"base/timemath", "Sgn", "timemath_Sgn"},
	{"base/timemath", "Inv", "timemath_Inv"},
	{"base/timemath", "Midpoint", "timemath_Midpoint"},
	{"net/ntp", "Time64.Before", "ntp_Time64_Before"},
	{"net/ntp", "Time64.After", "ntp_Time64_After"},
	{"net/ntp", "Packet.LeapIndicator", "ntp_Packet_LeapIndicator"},
	{"net/ntp", "Packet.Version", "ntp_Packet_Version"},
	{"net/ntp", "Packet.Mode", "ntp_Packet_Mode"},
	{"net/ntp", "ValidateRequest", "ntp_ValidateRequest"},
	{"net/ntp", "ValidateResponseMetadata", "ntp_ValidateResponseMetadata"},
	{"base/unixutil", "TimevalFromNsec", "unixutil_TimevalFromNsec"},
	{"net/csptp", "DurationFromTimeInterval", "csptp_DurationFromTimeInterval"},
	// second generation (time.Time values, panics, width conversions, nested fields)
	{"net/ntp", "ClockOffset", "ntp_ClockOffset"},
	{"net/ntp", "RoundTripDelay", "ntp_RoundTripDelay"},
	{"net/ntp", "ValidateResponseTimestamps", "ntp_ValidateResponseTimestamps"},
	{"net/ntp", "Time64FromTime", "ntp_Time64FromTime"},
	{"net/ntp", "TimeFromTime64", "ntp_TimeFromTime64"},
	{"net/csptp", "C2SDelay", "csptp_C2SDelay"},
	{"net/csptp", "S2CDelay", "csptp_S2CDelay"},
	{"net/csptp", "MeanPathDelay", "csptp_MeanPathDelay"},
	{"net/csptp", "ClockOffset", "csptp_ClockOffset"},
	{"net/ntske", "Key.IsValidAt", "ntske_Key_IsValidAt"},
	// third generation: slices of integers (len, checked indexing, slices.Sort)
	{"base/timemath", "Median", "timemath_Median"},
	{"base/timemath", "FaultTolerantMidpoint", "timemath_FaultTolerantMidpoint"},
	// fourth generation: float64 over the software double Model/F64.lean
	{"base/timemath", "Duration", "timemath_Duration"},
	{"base/unixutil", "ScaledPPMFromFreq", "unixutil_ScaledPPMFromFreq"},
	{"base/unixutil", "FreqFromScaledPPM", "unixutil_FreqFromScaledPPM"},
	{"driver/clocks", "SystemClock.Drift", "clocks_SystemClock_Drift"},
	// fifth generation: methods that update their receiver (the new receiver value is returned
	// with the result), named results, multiple results, values of external functions as parameters
	{"core/client", "combine", "client_combine"},
	{"core/client", "NtimedFilter.Reset", "client_NtimedFilter_Reset"},
	{"core/client", "NtimedFilter.Do", "client_NtimedFilter_Do"},
	// sixth generation: tagged switch, x++ on fields, calls through the receiver's clock
	// (Epoch/Now: parameters; Step/Adjust: recorded actions), math.Pow as a parameter, math.Ceil,
	// Duration.Abs, panics in receiver-updating methods, bare log calls skipped
	{"core/sync/adjustments", "Pll.Do", "adjustments_Pll_Do"},
}

// leaves callable from other packages as pkg.Func (filled while emitting, in table order)
var globalLeaf = map[string][2]string{}

var leanInt = map[string]string{
	"int64": "Int64", "Duration": "Int64", "int": "Int64", "int32": "Int32", "int16": "Int16", "int8": "Int8",
	"uint64": "UInt64", "uint32": "UInt32", "uint16": "UInt16", "uint8": "UInt8", "byte": "UInt8", "bool": "Bool", "error": "Bool",
	"float64": "F64",
}

type leafCtx struct {
	dir     string
	files   []*ast.File
	ev      *evaluator
	structs map[string][][2]string // struct name -> (field, lean type)
	vars    map[string]string      // variable -> lean type
	ret     string                 // lean result type ("" = tuple / unknown)
	err     error
	panics  bool     // the function contains panic(...) or an index expression: it returns Option (none = panic)
	binds   []string // pending bounds-checked index reads of the statement being translated
	nfresh  int
	leafOf  map[string]string // "Recv.Name" / "Name" in this dir -> lean name
	retOf   map[string]string

	effects  bool                // the body calls clk.Step / clk.Adjust: actions are threaded as `acts`
	zeroVars bool                // `var x T` introduces x with its zero value (fifth generation)
	recv     string              // name of a pointer receiver whose fields the body assigns ("" = none)
	externs  []string            // "name : Type" of external values the body reads (extra parameters)
	named    []string            // named results, in order
	extOf    map[string][]string // leaf name -> its extern parameter names
	recvOf   map[string]bool     // leaf name -> returns the updated receiver first

	// seventh generation (leaf7.go)
	gen7       bool
	mode       int               // outcome type of the function being translated
	failCount  int               // failing operations emitted so far
	stuckCount int               // operations emitted so far that need the Out outcome
	ren        map[string]string // Go variable -> Lean name where they differ (shadowing)
	declDepth  map[string]int    // Go variable -> block depth of its declaration
	depth      int               // current block depth
	nshadow    int
	loops      []string // state tuples of the enclosing loops
	inSwitch   int
	threads    []string            // implicit state passed in and returned: "rnd", "cb_<param>"
	outs       []string            // pointer receiver / parameters whose targets the body assigns
	rets       []string            // result types
	rtInner    string              // Lean type of the result inside the outcome wrapper
	callbacks  map[string][]string // func-typed parameter -> its argument types
	infoOf     map[string]*leafInfo
	used       map[string]bool
	sites      map[token.Pos]string // call site -> name of the external value read there
	nsite      map[string]int
	caps       map[string]bool   // slices modelled with a capacity
	fileDeps   map[string]bool   // Gen modules of the leaves called
	aliasOf    map[string]string // local name -> the slice parameter it is another name for
	madeHere   map[string]bool   // byte buffers created by make in this function (capacity = length)

	// eighth generation (leaf8.go)
	logVars      map[string]bool   // parameters of type *slog.Logger (dropped)
	recvName     string            // the receiver's name ("" = a plain function)
	leanSelf     string            // Lean name of the definition being translated
	needPrelude3 bool              // the definition uses Model/GoPrelude3.lean
	opaque       map[string]string // parameters that are opaque foreign objects (leaf8.go: opaqueMethods) -> their type
	sinks        map[string]string // ninth generation (leaf9.go): parameters that are sinks -> their type
}

func (c *leafCtx) fail(format string, a ...any) {
	if c.err == nil {
		c.err = fmt.Errorf(format, a...)
	}
}

func typeName(e ast.Expr) string {
	switch t := e.(type) {
	case *ast.Ident:
		return t.Name
	case *ast.StarExpr:
		return typeName(t.X)
	case *ast.SelectorExpr:
		return t.Sel.Name
	}
	return ""
}

func (c *leafCtx) leanType(e ast.Expr) string {
	if at, ok := e.(*ast.ArrayType); ok && at.Len == nil {
		if et := c.leanType(at.Elt); et == "Int64" {
			return "L_Int64"
		} else if et != "" && !strings.HasPrefix(et, "M:") && !strings.HasPrefix(et, "L_") {
			return "L_" + et
		}
		return ""
	}
	if at, ok := e.(*ast.ArrayType); ok && at.Len != nil { // fixed-size array of integers: a list of that length
		if bl, ok := at.Len.(*ast.BasicLit); ok && bl.Kind == token.INT {
			if et := c.leanType(at.Elt); isIntType(et) {
				return "A" + bl.Value + "_" + et
			}
		}
		return ""
	}
	if mt, ok := e.(*ast.MapType); ok {
		kt, vt := c.leanType(mt.Key), c.leanType(mt.Value)
		if isIntType(kt) && vt != "" && !strings.Contains(vt, ":") {
			return "M:" + kt + ":" + vt
		}
		return ""
	}
	if se, ok := e.(*ast.SelectorExpr); ok {
		if id, ok := se.X.(*ast.Ident); ok && id.Name == "context" && se.Sel.Name == "Context" && c.gen7 {
			return "Ctx"
		}
	}
	if st, ok := e.(*ast.StarExpr); ok { // *T for a struct handled through Go.Ref (leaf8.go)
		if id, ok := st.X.(*ast.Ident); ok {
			if _, isRef := refStructs[c.dir+":"+id.Name]; isRef {
				return "R_" + id.Name
			}
		}
	}
	if st, ok := e.(*ast.StarExpr); ok { // *[]T: the callee may reslice / replace the slice: modelled with its capacity
		if at, isArr := st.X.(*ast.ArrayType); isArr && at.Len == nil {
			if et := c.leanType(at.Elt); et != "" {
				return "C_" + et
			}
			return ""
		}
	}
	if se, ok := e.(*ast.SelectorExpr); ok {
		if id, ok := se.X.(*ast.Ident); ok && id.Name == "time" && se.Sel.Name == "Time" {
			return "GoTime"
		}
	}
	n := typeName(e)
	if l, ok := leanInt[n]; ok {
		return l
	}
	if _, ok := c.structs[n]; ok {
		return "S_" + n
	}
	return ""
}

func isIntType(t string) bool { return strings.HasPrefix(t, "Int") || strings.HasPrefix(t, "UInt") }

func (c *leafCtx) lit(v constant.Value, want string) string {
	if v.Kind() == constant.Float && constant.ToInt(v).Kind() == constant.Int {
		v = constant.ToInt(v)
	}
	if want == "F64" { // a constant operand of a float expression: the exactly folded value, rounded once
		if v.Kind() == constant.Int {
			return "(F64.ofInt " + v.ExactString() + ")"
		}
		if v.Kind() == constant.Float {
			if r, ok := new(big.Rat).SetString(v.ExactString()); ok {
				return "(F64.ofConst (" + r.Num().String() + ") " + r.Denom().String() + ")"
			}
		}
		c.fail("unsupported float constant %s", v.String())
		return "(F64.ofInt 0)"
	}
	if v.Kind() != constant.Int {
		c.fail("non-integer constant %s", v.String())
		return "0"
	}
	if want == "" || !isIntType(want) {
		want = "Int64"
	}
	return fmt.Sprintf("(%s : %s)", v.ExactString(), want)
}

// isValue reports whether e denotes a value built from a variable of the function (as
// opposed to a package-qualified constant such as time.Second).
func (c *leafCtx) isValue(e ast.Expr) bool {
	switch x := e.(type) {
	case *ast.Ident:
		_, ok := c.vars[x.Name]
		return ok
	case *ast.ParenExpr:
		return c.isValue(x.X)
	case *ast.BinaryExpr:
		return c.isValue(x.X) || c.isValue(x.Y)
	case *ast.SelectorExpr:
		return c.isValue(x.X)
	case *ast.IndexExpr:
		return c.isValue(x.X)
	case *ast.StarExpr:
		return c.isValue(x.X)
	case *ast.CallExpr:
		if f, ok := x.Fun.(*ast.SelectorExpr); ok {
			if id, ok := f.X.(*ast.Ident); ok && id.Name == "time" && f.Sel.Name == "Unix" {
				return true
			}
			if id, ok := f.X.(*ast.Ident); ok {
				if _, ok := globalLeaf[id.Name+"."+f.Sel.Name]; ok {
					if _, isVar := c.vars[id.Name]; !isVar {
						return true
					}
				}
			}
			return c.isValue(f.X)
		}
	}
	return false
}

// convType: the Lean type T(x) converts to when fun is a type (an identifier such as int64, or
// time.Duration), "" when it is a function such as timemath.Duration.
func convType(fun ast.Expr) string {
	switch f := fun.(type) {
	case *ast.Ident:
		return leanInt[f.Name]
	case *ast.SelectorExpr:
		if id, ok := f.X.(*ast.Ident); ok && id.Name == "time" && f.Sel.Name == "Duration" {
			return "Int64"
		}
	case *ast.ParenExpr:
		return convType(f.X)
	}
	return ""
}

// powType: math.Pow is a parameter of function type, applied to the translated arguments of each
// call site (eighth generation): the tie theorems see the arguments.
const powType = "F64.F64 → F64.F64 → F64.F64"

// externOfCallee: the parameter of the caller that stands for the callee's external value e
// ("name : Type") read during the call at pos. Function-typed parameters (deterministic library
// functions: same arguments, same value) and the iteration budget are handed on under their own
// name; every other external value is a reading of mutable state outside the function and gets a
// parameter of its own per call site.
func (c *leafCtx) externOfCallee(pos token.Pos, calleeLean, e string) string {
	parts := strings.SplitN(e, " : ", 2)
	n := parts[0]
	if !sharedExtern(n) {
		short := strings.ReplaceAll(calleeLean[strings.Index(calleeLean, "_")+1:], ".", "_")
		n = c.siteName(pos+token.Pos(len(n)), "ext_"+short+"_"+strings.TrimPrefix(n, "ext_"))
	}
	c.addExtern(n, parts[1])
	return n
}

func (c *leafCtx) addExtern(name, typ string) {
	for _, e := range c.externs {
		if e == name+" : "+typ {
			return
		}
	}
	c.externs = append(c.externs, name+" : "+typ)
}

// zeroOf: the zero value of a translated type
func zeroOf(t string) string {
	switch {
	case t == "F64":
		return "(F64.ofInt 0)"
	case t == "Bool":
		return "false"
	case isIntType(t):
		return "(0 : " + t + ")"
	}
	return ""
}

// isLogOnly: `if x.log != nil { x.log.LogAttrs(…) }` — logging has no effect on the model
func isLogOnly(st *ast.IfStmt) bool {
	be, ok := st.Cond.(*ast.BinaryExpr)
	if !ok || be.Op != token.NEQ || st.Else != nil {
		return false
	}
	sel, ok := be.X.(*ast.SelectorExpr)
	if !ok || sel.Sel.Name != "log" {
		return false
	}
	if id, ok := be.Y.(*ast.Ident); !ok || id.Name != "nil" {
		return false
	}
	for _, s := range st.Body.List {
		es, ok := s.(*ast.ExprStmt)
		if !ok {
			return false
		}
		ce, ok := es.X.(*ast.CallExpr)
		if !ok {
			return false
		}
		f, ok := ce.Fun.(*ast.SelectorExpr)
		if !ok || !strings.HasPrefix(f.Sel.Name, "Log") {
			return false
		}
	}
	return true
}

// result: what a return hands back — the updated receiver first when the method assigns to it
func (c *leafCtx) result(e string) string {
	if c.effects {
		if e == "" {
			e = "acts"
		} else {
			e = "(acts, " + e + ")"
		}
	}
	if c.recv != "" {
		if e == "" {
			e = c.recv
		} else {
			e = "(" + c.recv + ", " + e + ")"
		}
	}
	if c.panics {
		return "some (" + e + ")"
	}
	return e
}

// mentionsVar reports whether e refers to a variable of the function being translated.
func (c *leafCtx) mentionsVar(e ast.Expr) bool {
	found := false
	ast.Inspect(e, func(n ast.Node) bool {
		if id, ok := n.(*ast.Ident); ok {
			if _, ok := c.vars[id.Name]; ok {
				found = true
			}
		}
		return !found
	})
	return found
}

// leanTypeName is the Lean spelling of an internal type name.
func leanTypeName(t string) string {
	switch t {
	case "GoTime":
		return "Int"
	case "L_Int64":
		return "(List Int64)"
	case "F64":
		return "F64.F64"
	case "ActList":
		return "(List Go.ClkAction)"
	case "Ctx":
		return "Bool"
	case "Opaque": // element of a slice the function only takes the length of
		return "Unit"
	case "Str":
		return "String"
	}
	if strings.HasPrefix(t, "L_") {
		return "(List " + leanTypeName(strings.TrimPrefix(t, "L_")) + ")"
	}
	if strings.HasPrefix(t, "C_") {
		return "(Go.Slice " + leanTypeName(strings.TrimPrefix(t, "C_")) + ")"
	}
	if strings.HasPrefix(t, "R_") {
		return "(Option (Go.Ref S_" + strings.TrimPrefix(t, "R_") + "))"
	}
	if strings.HasPrefix(t, "F:") {
		return strings.TrimPrefix(t, "F:")
	}
	if strings.HasPrefix(t, "M:") {
		parts := strings.Split(t, ":")
		return "(Go.Map " + leanTypeName(parts[1]) + " " + leanTypeName(parts[2]) + ")"
	}
	if n, et := arrayParts(t); n >= 0 && strings.HasPrefix(t, "A") {
		return "(List " + leanTypeName(et) + ")"
	}
	return t
}

// convert renders the Go conversion of a value of integer type from to integer type to
// (two's complement truncation / sign or zero extension, as in Go), through 64-bit values.
func convert(a, from, to string) (string, bool) {
	if from == to {
		return a, true
	}
	if !isIntType(from) || !isIntType(to) {
		return a, false
	}
	up := map[string]string{"Int64": "", "UInt64": "", "Int32": ".toInt64", "Int16": ".toInt64", "Int8": ".toInt64",
		"UInt32": ".toUInt64", "UInt16": ".toUInt64", "UInt8": ".toUInt64"}
	down := map[string]string{"Int64": "", "UInt64": "", "Int32": ".toInt32", "Int16": ".toInt16", "Int8": ".toInt8",
		"UInt32": ".toUInt32", "UInt16": ".toUInt16", "UInt8": ".toUInt8"}
	signed := func(t string) bool { return strings.HasPrefix(t, "Int") }
	e := "(" + a + ")" + up[from] // now Int64 (signed source) or UInt64 (unsigned source)
	if signed(from) != signed(to) {
		if signed(from) {
			e += ".toUInt64"
		} else {
			e += ".toInt64"
		}
	}
	return "(" + e + down[to] + ")", true
}

// timeMethod translates a method call on a time.Time value (prelude Model/GoPrelude.lean).
func (c *leafCtx) timeMethod(recv, name string, args []ast.Expr) (string, string, bool) {
	switch {
	case name == "Sub" && len(args) == 1:
		a, t := c.expr(args[0], "GoTime")
		if t == "GoTime" {
			return "(Go.Time.sub " + recv + " " + a + ")", "Int64", true
		}
	case name == "Before" && len(args) == 1:
		a, t := c.expr(args[0], "GoTime")
		if t == "GoTime" {
			return "(Go.Time.before " + recv + " " + a + ")", "Bool", true
		}
	case name == "After" && len(args) == 1:
		a, t := c.expr(args[0], "GoTime")
		if t == "GoTime" {
			return "(Go.Time.after " + recv + " " + a + ")", "Bool", true
		}
	case name == "Unix" && len(args) == 0:
		return "(Go.Time.unix " + recv + ")", "Int64", true
	case name == "Nanosecond" && len(args) == 0:
		return "(Go.Time.nanosecond " + recv + ")", "Int64", true
	case name == "UTC" && len(args) == 0:
		return recv, "GoTime", true
	}
	return "", "", false
}

// expr translates e; want is the expected Lean type ("" = unknown); returns code and type.
func (c *leafCtx) expr(e ast.Expr, want string) (string, string) {
	if c.gen7 {
		if s, t, ok := c.expr7(e, want); ok {
			return s, t
		}
	}
	switch x := e.(type) {
	case *ast.ParenExpr:
		return c.expr(x.X, want)
	case *ast.BasicLit:
		v := constant.MakeFromLiteral(x.Value, x.Kind, 0)
		if x.Kind == token.FLOAT && want == "" {
			want = "F64" // an untyped float constant defaults to float64
		}
		return c.lit(v, want), want
	case *ast.Ident:
		if t, ok := c.vars[x.Name]; ok {
			return c.lname(x.Name), t
		}
		switch x.Name {
		case "nil":
			return "false", "Bool"
		case "true", "false":
			return x.Name, "Bool"
		}
		if strings.HasPrefix(x.Name, "err") && want == "Bool" {
			return "true", "Bool" // a package-level error value: "failed"
		}
		v := c.ev.lookup(x.Name)
		if v.Kind() == constant.Unknown {
			c.fail("unknown identifier %s", x.Name)
			return "0", want
		}
		return c.lit(v, want), want
	case *ast.SelectorExpr:
		if c.isValue(x.X) {
			recv, t := c.expr(x.X, "")
			if strings.HasPrefix(t, "S_") {
				for _, f := range c.structs[strings.TrimPrefix(t, "S_")] {
					if f[0] == x.Sel.Name {
						return recv + "." + lf(f[0]), f[1]
					}
				}
			}
			c.fail("unknown field %s", x.Sel.Name)
			return "0", want
		}
		v := c.ev.eval(x, 0)
		if v.Kind() == constant.Unknown {
			c.fail("unsupported selector")
			return "0", want
		}
		return c.lit(v, want), want
	case *ast.UnaryExpr:
		if !c.mentionsVar(x) && (want == "F64" || want == "") { // a signed constant such as -500e-6
			if v := c.ev.eval(x, 0); v.Kind() == constant.Float || (v.Kind() == constant.Int && want == "F64") {
				return c.lit(v, "F64"), "F64"
			}
		}
		a, t := c.expr(x.X, want)
		switch x.Op {
		case token.SUB:
			return "(-" + a + ")", t
		case token.NOT:
			return "(!" + a + ")", "Bool"
		}
		c.fail("unsupported unary operator %s", x.Op)
		return a, t
	case *ast.IndexExpr:
		xs, xt := c.expr(x.X, "")
		if xt != "L_Int64" || !c.panics {
			c.fail("unsupported index expression")
			return "0", want
		}
		is, _ := c.expr(x.Index, "Int64")
		c.nfresh++
		v := fmt.Sprintf("_i%d", c.nfresh)
		c.binds = append(c.binds, "(Go.idx? "+xs+" "+is+").bind fun "+v+" =>")
		return v, "Int64"
	case *ast.CallExpr:
		if id, ok := x.Fun.(*ast.Ident); ok && id.Name == "len" && len(x.Args) == 1 {
			a, t := c.expr(x.Args[0], "")
			if t == "L_Int64" {
				return "(Go.len " + a + ")", "Int64"
			}
			c.fail("len of an unsupported value")
			return "0", want
		}
		// conversion T(x) between integer types, a time.Time operation, or a call of another leaf
		if len(x.Args) == 1 {
			if lt := convType(x.Fun); lt == "F64" { // float64(x)
				if v := c.ev.eval(x.Args[0], 0); v.Kind() != constant.Unknown && !c.isValue(x.Args[0]) {
					return c.lit(v, "F64"), "F64"
				}
				a, t := c.expr(x.Args[0], "Int64")
				switch t {
				case "F64":
					return a, "F64"
				case "Int64":
					return "(F64.ofInt (" + a + ").toInt)", "F64"
				}
				c.fail("unsupported conversion %s -> float64", t)
				return a, "F64"
			}
			if lt := convType(x.Fun); lt != "" && isIntType(lt) {
				if _, pt := c.peek(x.Args[0]); pt == "F64" { // int64(f): truncation as on amd64
					a, _ := c.expr(x.Args[0], "F64")
					if lt != "Int64" {
						c.fail("unsupported conversion float64 -> %s", lt)
					}
					return "(Int64.ofInt (F64.toInt64 " + a + "))", "Int64"
				}
				a, t := c.expr(x.Args[0], lt)
				if t == "" {
					return a, lt
				}
				if r, ok := convert(a, t, lt); ok {
					return r, lt
				}
				c.fail("unsupported conversion %s -> %s", t, lt)
				return a, lt
			}
		}
		if f, ok := x.Fun.(*ast.SelectorExpr); ok {
			if id, ok := f.X.(*ast.Ident); ok && id.Name == "time" && f.Sel.Name == "Unix" && len(x.Args) == 2 {
				a, _ := c.expr(x.Args[0], "Int64")
				b, _ := c.expr(x.Args[1], "Int64")
				return "(Go.unixTime " + a + " " + b + ")", "GoTime"
			}
			if id, ok := f.X.(*ast.Ident); ok && !c.isValue(f.X) {
				if gl, ok := globalLeaf[id.Name+"."+f.Sel.Name]; ok { // leaf of another package
					var args []string
					for _, a := range x.Args {
						s, _ := c.expr(a, "")
						args = append(args, s)
					}
					return "(" + gl[0] + " " + strings.Join(args, " ") + ")", gl[1]
				}
			}
			if c.isValue(f.X) && f.Sel.Name == "Seconds" && len(x.Args) == 0 {
				if recv, t := c.peek(f.X); t == "Int64" { // time.Duration.Seconds()
					recv, _ = c.expr(f.X, "Int64")
					return "(F64.durationSeconds (" + recv + ").toInt)", "F64"
				}
			}
			if c.isValue(f.X) {
				if recv, t := c.peek(f.X); t == "GoTime" {
					recv, _ = c.expr(f.X, "GoTime")
					if r, rt, ok := c.timeMethod(recv, f.Sel.Name, x.Args); ok {
						return r, rt
					}
					c.fail("unsupported time.Time method %s", f.Sel.Name)
					return "0", want
				}
			}
		}
		if f, ok := x.Fun.(*ast.SelectorExpr); ok {
			if id, ok := f.X.(*ast.Ident); ok && !c.isValue(f.X) {
				switch id.Name + "." + f.Sel.Name {
				case "math.Sqrt":
					if len(x.Args) == 1 {
						a, _ := c.expr(x.Args[0], "F64")
						return "(F64.sqrt " + a + ")", "F64"
					}
				case "timebase.Epoch":
					if len(x.Args) == 0 { // a reading of the global clock's epoch: one parameter per call site
						n := c.siteName(x.Pos(), "ext_Epoch")
						c.addExtern(n, "UInt64")
						return n, "UInt64"
					}
				case "math.Ceil":
					if len(x.Args) == 1 {
						a, _ := c.expr(x.Args[0], "F64")
						return "(F64.ceil " + a + ")", "F64"
					}
				case "math.Pow":
					if len(x.Args) == 2 { // not correctly rounded: the function itself is an input, applied to the arguments of this call
						a, _ := c.expr(x.Args[0], "F64")
						b, _ := c.expr(x.Args[1], "F64")
						c.addExtern("ext_Pow", powType)
						return "(ext_Pow " + a + " " + b + ")", "F64"
					}
				}
			}
			// calls on the receiver's clock: l.clk.Epoch(), l.clk.Now()
			if inner, ok := f.X.(*ast.SelectorExpr); ok && inner.Sel.Name == "clk" {
				if id, ok := inner.X.(*ast.Ident); ok && id.Name == c.recv && c.recv != "" && len(x.Args) == 0 {
					switch f.Sel.Name {
					case "Epoch": // each call is a reading of its own (the clock is shared with other goroutines)
						n := c.siteName(x.Pos(), "ext_clkEpoch")
						c.addExtern(n, "UInt64")
						return n, "UInt64"
					case "Now":
						n := c.siteName(x.Pos(), "ext_clkNow")
						c.addExtern(n, "Int")
						return n, "GoTime"
					}
				}
			}
			if c.isValue(f.X) && f.Sel.Name == "Abs" && len(x.Args) == 0 {
				if recv, t := c.peek(f.X); t == "Int64" { // time.Duration.Abs()
					recv, _ = c.expr(f.X, "Int64")
					return "(Go.Duration.abs " + recv + ")", "Int64"
				}
			}
		}
		name := ""
		var args []string
		switch f := x.Fun.(type) {
		case *ast.Ident:
			name = f.Name
		case *ast.SelectorExpr:
			if c.isValue(f.X) {
				if recv, t := c.expr(f.X, ""); strings.HasPrefix(t, "S_") {
					name = strings.TrimPrefix(t, "S_") + "." + f.Sel.Name
					args = append(args, recv)
				}
			}
		}
		ln, ok := c.leafOf[name]
		if !ok {
			c.fail("call of untranslated function")
			return "0", want
		}
		for _, a := range x.Args {
			s, _ := c.expr(a, "")
			args = append(args, s)
		}
		for _, e := range c.extOf[name] {
			args = append(args, c.externOfCallee(x.Pos(), ln, e))
		}
		if c.recvOf[name] {
			c.fail("call of a receiver-updating method inside an expression")
		}
		return "(" + ln + " " + strings.Join(args, " ") + ")", c.retOf[name]
	case *ast.BinaryExpr:
		if want == "F64" && !c.mentionsVar(x) { // constant float expression: folded exactly by the compiler
			if v := c.ev.eval(x, 0); v.Kind() == constant.Int || v.Kind() == constant.Float {
				return c.lit(v, "F64"), "F64"
			}
		}
		switch x.Op {
		case token.LAND, token.LOR:
			a, _ := c.expr(x.X, "Bool")
			nb := len(c.binds)
			b, _ := c.expr(x.Y, "Bool")
			if c.gen7 && len(c.binds) != nb { // hoisting it would evaluate it even when the left operand decides
				c.fail("an operation that may fail under the right operand of && / ||")
			}
			op := "&&"
			if x.Op == token.LOR {
				op = "||"
			}
			return "(" + a + " " + op + " " + b + ")", "Bool"
		}
		// operand type: whichever side has a known type
		_, ta := c.peek(x.X)
		_, tb := c.peek(x.Y)
		t := ta
		if t == "" {
			t = tb
		}
		if t == "" {
			t = want
		}
		a, _ := c.expr(x.X, t)
		b, _ := c.expr(x.Y, t)
		if t == "F64" {
			if fn, ok := map[token.Token]string{token.ADD: "F64.add", token.SUB: "F64.sub", token.MUL: "F64.mul", token.QUO: "F64.div"}[x.Op]; ok {
				return "(" + fn + " " + a + " " + b + ")", "F64"
			}
			if fn, ok := map[token.Token]string{token.EQL: "F64.beq", token.LSS: "F64.lt", token.LEQ: "F64.le", token.GTR: "F64.gt", token.GEQ: "F64.ge"}[x.Op]; ok {
				return "(" + fn + " " + a + " " + b + ")", "Bool"
			}
			if x.Op == token.NEQ {
				return "(!(F64.beq " + a + " " + b + "))", "Bool"
			}
			c.fail("unsupported float operator %s", x.Op)
			return a, t
		}
		switch x.Op {
		case token.ADD, token.SUB, token.MUL, token.QUO, token.REM:
			return "(" + a + " " + x.Op.String() + " " + b + ")", t
		case token.AND:
			return "(" + a + " &&& " + b + ")", t
		case token.OR:
			return "(" + a + " ||| " + b + ")", t
		case token.XOR:
			return "(" + a + " ^^^ " + b + ")", t
		case token.SHL, token.SHR:
			if t == "Int64" { // signed shifts by a constant: arithmetic definitions of the prelude
				if v := c.ev.eval(x.Y, 0); v.Kind() == constant.Int {
					fn := "Go.shl64"
					if x.Op == token.SHR {
						fn = "Go.shr64"
					}
					return "(" + fn + " " + a + " " + v.ExactString() + ")", t
				}
				c.fail("int64 shift by a non-constant")
				return a, t
			}
			if x.Op == token.SHL {
				return "(" + a + " <<< " + b + ")", t
			}
			return "(" + a + " >>> " + b + ")", t
		case token.LSS, token.LEQ, token.GTR, token.GEQ:
			return "(decide (" + a + " " + x.Op.String() + " " + b + "))", "Bool"
		case token.EQL:
			return "(" + a + " == " + b + ")", "Bool"
		case token.NEQ:
			return "(" + a + " != " + b + ")", "Bool"
		}
		c.fail("unsupported binary operator %s", x.Op)
		return a, t
	case *ast.CompositeLit: // a translated struct type: structure instance; a foreign one: tuple in field order
		if fs, ok := c.structs[typeName(x.Type)]; ok && x.Type != nil {
			var parts []string
			for _, el := range x.Elts {
				kv, ok := el.(*ast.KeyValueExpr)
				key, _ := kv.Key.(*ast.Ident)
				if !ok || key == nil {
					c.fail("unsupported composite literal")
					return "0", ""
				}
				ft := ""
				for _, f := range fs {
					if f[0] == key.Name {
						ft = f[1]
					}
				}
				if ft == "" {
					c.fail("unknown field %s in literal", key.Name)
					return "0", ""
				}
				v, vt := c.expr(kv.Value, ft)
				if vt != ft && vt != "" {
					c.fail("field %s: %s value for %s", key.Name, vt, ft)
				}
				parts = append(parts, key.Name+" := "+v)
			}
			return "{ " + strings.Join(parts, ", ") + " : S_" + typeName(x.Type) + " }", "S_" + typeName(x.Type)
		}
		var parts []string
		for _, el := range x.Elts {
			kv, ok := el.(*ast.KeyValueExpr)
			if !ok {
				c.fail("unsupported composite literal")
				return "0", ""
			}
			s, _ := c.expr(kv.Value, "")
			parts = append(parts, s)
		}
		return "(" + strings.Join(parts, ", ") + ")", ""
	}
	c.fail("unsupported expression %T", e)
	return "0", want
}

// peek returns the type an expression would have without recording failures.
func (c *leafCtx) peek(e ast.Expr) (string, string) {
	saved := c.err
	if c.gen7 { // the seventh generation numbers call sites and counts failing operations: a look-ahead leaves no trace
		binds, nfresh, fc, sc, ext := append([]string{}, c.binds...), c.nfresh, c.failCount, c.stuckCount, append([]string{}, c.externs...)
		sites, nsite := map[token.Pos]string{}, copyMap(c.nsite)
		for k, v := range c.sites {
			sites[k] = v
		}
		defer func() {
			c.binds, c.nfresh, c.failCount, c.stuckCount, c.externs, c.sites, c.nsite = binds, nfresh, fc, sc, ext, sites, nsite
		}()
	}
	s, t := c.expr(e, "")
	c.err = saved
	return s, t
}

func assigned(stmts []ast.Stmt, set map[string]bool) {
	for _, s := range stmts {
		if a, ok := s.(*ast.AssignStmt); ok {
			for _, l := range a.Lhs {
				if id, ok := l.(*ast.Ident); ok {
					set[id.Name] = true
				}
				if se, ok := l.(*ast.SelectorExpr); ok {
					if id, ok := se.X.(*ast.Ident); ok {
						set[id.Name] = true
					}
				}
			}
		}
		if es, ok := s.(*ast.ExprStmt); ok { // a method call on a variable may update it (receiver-updating leaves)
			if ce, ok := es.X.(*ast.CallExpr); ok {
				if f, ok := ce.Fun.(*ast.SelectorExpr); ok {
					if id, ok := f.X.(*ast.Ident); ok {
						set[id.Name] = true
					}
					if inner, ok := f.X.(*ast.SelectorExpr); ok && inner.Sel.Name == "clk" {
						set["acts"] = true // l.clk.Step / l.clk.Adjust: a recorded action
					}
				}
			}
		}
		if ids, ok := s.(*ast.IncDecStmt); ok {
			if se, ok := ids.X.(*ast.SelectorExpr); ok {
				if id, ok := se.X.(*ast.Ident); ok {
					set[id.Name] = true
				}
			}
		}
		if sw, ok := s.(*ast.SwitchStmt); ok {
			for _, cc := range sw.Body.List {
				assigned(cc.(*ast.CaseClause).Body, set)
			}
		}
		if i, ok := s.(*ast.IfStmt); ok {
			assigned(i.Body.List, set)
			if b, ok := i.Else.(*ast.BlockStmt); ok {
				assigned(b.List, set)
			}
		}
	}
}

func isPanic(s ast.Stmt) bool {
	if _, fatal := isFatal(s); fatal {
		return true
	}
	if es, ok := s.(*ast.ExprStmt); ok {
		if ce, ok := es.X.(*ast.CallExpr); ok {
			if id, ok := ce.Fun.(*ast.Ident); ok && id.Name == "panic" {
				return true
			}
		}
	}
	return false
}

func hasPanic(n ast.Node) bool {
	found := false
	ast.Inspect(n, func(n ast.Node) bool {
		if s, ok := n.(ast.Stmt); ok && isPanic(s) {
			found = true
		}
		if _, ok := n.(*ast.IndexExpr); ok { // an index out of range is a run-time panic
			found = true
		}
		return !found
	})
	return found
}

// takeBinds returns the pending index reads as a prefix for the statement just translated.
func (c *leafCtx) takeBinds(ind string) string {
	var sb strings.Builder
	for _, b := range c.binds {
		sb.WriteString(b + "\n" + ind)
	}
	c.binds = nil
	return sb.String()
}

func returns(stmts []ast.Stmt) bool {
	if len(stmts) == 0 {
		return false
	}
	if isPanic(stmts[len(stmts)-1]) {
		return true
	}
	switch s := stmts[len(stmts)-1].(type) {
	case *ast.ReturnStmt:
		return true
	case *ast.IfStmt:
		if b, ok := s.Else.(*ast.BlockStmt); ok {
			return returns(s.Body.List) && returns(b.List)
		}
	case *ast.SwitchStmt:
		hasDefault := false
		for _, cc := range s.Body.List {
			cl := cc.(*ast.CaseClause)
			if cl.List == nil {
				hasDefault = true
			}
			if !returns(cl.Body) {
				return false
			}
		}
		return hasDefault
	}
	return false
}

// block translates a statement list into a Lean expression; tail is used when the list
// ends without returning (the value of the enclosing if-without-return: a tuple of vars).
func (c *leafCtx) block(stmts []ast.Stmt, tail string, ind string) string {
	if len(stmts) == 0 {
		if tail == "" {
			c.fail("control reaches end of function without return")
		}
		return tail
	}
	s, rest := stmts[0], stmts[1:]
	switch st := s.(type) {
	case *ast.ReturnStmt:
		if len(st.Results) == 0 && (len(c.named) > 0 || c.recv != "") { // bare return: the named results
			e := strings.Join(c.named, ", ")
			if len(c.named) > 1 {
				e = "(" + e + ")"
			}
			return c.result(e)
		}
		if len(st.Results) != 1 {
			c.fail("unsupported return arity")
			return "0"
		}
		e, _ := c.expr(st.Results[0], c.ret)
		if c.recv != "" {
			return c.takeBinds(ind) + c.result(e)
		}
		if c.panics {
			return c.takeBinds(ind) + "some (" + e + ")"
		}
		return e
	case *ast.AssignStmt:
		if len(st.Lhs) >= 2 && len(st.Rhs) == 1 && (st.Tok == token.ASSIGN || st.Tok == token.DEFINE) { // a, b = f(…)
			if ce, ok := st.Rhs[0].(*ast.CallExpr); ok {
				e, t := c.expr(ce, "")
				parts := strings.Split(strings.TrimPrefix(t, "T:"), ",")
				if strings.HasPrefix(t, "T:") && len(parts) == len(st.Lhs) {
					var names []string
					for i, l := range st.Lhs {
						id, ok := l.(*ast.Ident)
						if !ok {
							c.fail("assignment to non-variable")
							return "0"
						}
						c.vars[id.Name] = parts[i]
						names = append(names, id.Name)
					}
					return c.takeBinds(ind) + "let (" + strings.Join(names, ", ") + ") := " + e + "\n" + ind + c.block(rest, tail, ind)
				}
			}
			c.fail("unsupported assignment shape")
			return "0"
		}
		if len(st.Lhs) != 1 || len(st.Rhs) != 1 {
			c.fail("unsupported assignment shape")
			return "0"
		}
		if se, ok := st.Lhs[0].(*ast.SelectorExpr); ok { // recv.field = e / recv.field op= e
			rid, ok := se.X.(*ast.Ident)
			if !ok || rid.Name != c.recv || c.recv == "" {
				c.fail("assignment to a field of something other than the receiver")
				return "0"
			}
			_, ft := c.expr(se, "")
			var e string
			if st.Tok == token.ASSIGN {
				e, _ = c.expr(st.Rhs[0], ft)
			} else {
				op := map[token.Token]token.Token{token.ADD_ASSIGN: token.ADD, token.SUB_ASSIGN: token.SUB, token.MUL_ASSIGN: token.MUL,
					token.QUO_ASSIGN: token.QUO}[st.Tok]
				if op == token.ILLEGAL {
					c.fail("unsupported assignment operator %s", st.Tok)
					return "0"
				}
				e, _ = c.expr(&ast.BinaryExpr{X: se, Op: op, Y: st.Rhs[0]}, ft)
			}
			return c.takeBinds(ind) + "let " + c.recv + " : " + leanTypeName(c.vars[c.recv]) + " := { " + c.recv + " with " + se.Sel.Name + " := " + e + " }\n" + ind + c.block(rest, tail, ind)
		}
		id, ok := st.Lhs[0].(*ast.Ident)
		if !ok {
			c.fail("assignment to non-variable")
			return "0"
		}
		var e, t string
		switch st.Tok {
		case token.DEFINE, token.ASSIGN:
			e, t = c.expr(st.Rhs[0], c.vars[id.Name])
		default: // op=
			op := map[token.Token]token.Token{token.ADD_ASSIGN: token.ADD, token.SUB_ASSIGN: token.SUB, token.MUL_ASSIGN: token.MUL,
				token.QUO_ASSIGN: token.QUO, token.REM_ASSIGN: token.REM}[st.Tok]
			if op == token.ILLEGAL {
				c.fail("unsupported assignment operator %s", st.Tok)
				return "0"
			}
			e, t = c.expr(&ast.BinaryExpr{X: id, Op: op, Y: st.Rhs[0]}, c.vars[id.Name])
		}
		if t == "" {
			t = "Int64"
		}
		c.vars[id.Name] = t
		return c.takeBinds(ind) + "let " + id.Name + " : " + leanTypeName(t) + " := " + e + "\n" + ind + c.block(rest, tail, ind)
	case *ast.DeclStmt:
		gd, ok := st.Decl.(*ast.GenDecl)
		if !ok {
			return c.block(rest, tail, ind)
		}
		if gd.Tok == token.CONST { // constants declared inside the body: known to the evaluator from here on
			for i, sp := range gd.Specs {
				vs := sp.(*ast.ValueSpec)
				for j, n := range vs.Names {
					if j < len(vs.Values) {
						c.ev.decls[n.Name] = vs.Values[j]
						c.ev.iotas[n.Name] = i
						delete(c.ev.memo, n.Name)
					}
				}
			}
			return c.block(rest, tail, ind)
		}
		if !c.zeroVars { // first generations: variables are introduced at their first assignment
			return c.block(rest, tail, ind)
		}
		var sb strings.Builder
		for _, sp := range gd.Specs {
			vs := sp.(*ast.ValueSpec)
			if len(vs.Values) != 0 || vs.Type == nil {
				c.fail("unsupported var declaration")
				return "0"
			}
			t := c.leanType(vs.Type)
			z := zeroOf(t)
			if z == "" {
				c.fail("var of an unsupported type")
				return "0"
			}
			for _, n := range vs.Names {
				c.vars[n.Name] = t
				sb.WriteString("let " + n.Name + " : " + leanTypeName(t) + " := " + z + "\n" + ind)
			}
		}
		return sb.String() + c.block(rest, tail, ind)
	case *ast.ExprStmt:
		if isPanic(st) && c.panics {
			return "none"
		}
		if ce, ok := st.X.(*ast.CallExpr); ok && c.recv != "" {
			if f, ok := ce.Fun.(*ast.SelectorExpr); ok {
				if inner, ok := f.X.(*ast.SelectorExpr); ok {
					if id, ok := inner.X.(*ast.Ident); ok && id.Name == c.recv {
						if inner.Sel.Name == "log" && strings.HasPrefix(f.Sel.Name, "Log") {
							return c.block(rest, tail, ind) // logging has no effect on the model
						}
						if inner.Sel.Name == "clk" && c.effects {
							var args []string
							want := map[string][]string{"Step": {"Int64"}, "Adjust": {"Int64", "Int64", "F64"}}[f.Sel.Name]
							if want == nil || len(want) != len(ce.Args) {
								c.fail("unsupported call on the clock: %s", f.Sel.Name)
								return "0"
							}
							for i, a := range ce.Args {
								s, _ := c.expr(a, want[i])
								args = append(args, s)
							}
							act := "(Go.ClkAction." + strings.ToLower(f.Sel.Name) + " " + strings.Join(args, " ") + ")"
							return c.takeBinds(ind) + "let acts : List Go.ClkAction := acts ++ [" + act + "]\n" + ind + c.block(rest, tail, ind)
						}
					}
				}
				if id, ok := f.X.(*ast.Ident); ok && id.Name == c.recv {
					name := strings.TrimPrefix(c.vars[c.recv], "S_") + "." + f.Sel.Name
					if ln, ok := c.leafOf[name]; ok && c.recvOf[name] && c.retOf[name] == "" {
						args := []string{c.recv}
						for _, a := range ce.Args {
							s, _ := c.expr(a, "")
							args = append(args, s)
						}
						for _, e := range c.extOf[name] {
							args = append(args, c.externOfCallee(ce.Pos(), ln, e))
						}
						return "let " + c.recv + " : " + leanTypeName(c.vars[c.recv]) + " := (" + ln + " " + strings.Join(args, " ") + ")\n" + ind + c.block(rest, tail, ind)
					}
				}
			}
		}
		if ce, ok := st.X.(*ast.CallExpr); ok && len(ce.Args) == 1 {
			if f, ok := ce.Fun.(*ast.SelectorExpr); ok {
				if pk, ok := f.X.(*ast.Ident); ok && pk.Name == "slices" && f.Sel.Name == "Sort" {
					if id, ok := ce.Args[0].(*ast.Ident); ok && c.vars[id.Name] == "L_Int64" {
						return "let " + id.Name + " : (List Int64) := Go.sortI64 " + id.Name + "\n" + ind + c.block(rest, tail, ind)
					}
				}
			}
		}
		c.fail("unsupported expression statement")
		return "0"
	case *ast.IfStmt:
		if isLogOnly(st) {
			return c.block(rest, tail, ind)
		}
		if st.Init != nil {
			c.fail("if with init statement")
			return "0"
		}
		cond, _ := c.expr(st.Cond, "Bool")
		condBinds := c.takeBinds(ind)
		var elseList []ast.Stmt
		switch e := st.Else.(type) {
		case *ast.BlockStmt:
			elseList = e.List
		case *ast.IfStmt:
			elseList = []ast.Stmt{e}
		}
		if returns(st.Body.List) {
			// if c { …return } [else {…}] ; rest  ==>  if c then … else (else-block ; rest)
			thenE := c.block(st.Body.List, "", ind+"  ")
			elseE := c.block(append(append([]ast.Stmt{}, elseList...), rest...), tail, ind+"  ")
			return condBinds + "if " + cond + " then\n" + ind + "  " + thenE + "\n" + ind + "else\n" + ind + "  " + elseE
		}
		// no return inside: the if only updates variables
		set := map[string]bool{}
		assigned(st.Body.List, set)
		assigned(elseList, set)
		var vs []string
		for v := range set {
			if _, ok := c.vars[v]; ok {
				vs = append(vs, v)
			}
		}
		sort.Strings(vs)
		if len(vs) == 0 {
			c.fail("if without effect")
			return "0"
		}
		tup := vs[0]
		if len(vs) > 1 {
			tup = "(" + strings.Join(vs, ", ") + ")"
		}
		saved := map[string]string{}
		for k, v := range c.vars {
			saved[k] = v
		}
		thenE := c.block(st.Body.List, tup, ind+"    ")
		c.vars = saved
		elseE := tup
		if len(elseList) > 0 {
			elseE = c.block(elseList, tup, ind+"    ")
		}
		return "let " + tup + " :=\n" + ind + "  if " + cond + " then\n" + ind + "    " + thenE + "\n" + ind + "  else\n" + ind + "    " + elseE +
			"\n" + ind + c.block(rest, tail, ind)
	case *ast.IncDecStmt:
		se, ok := st.X.(*ast.SelectorExpr)
		if !ok || c.recv == "" {
			c.fail("unsupported ++/--")
			return "0"
		}
		rid, ok := se.X.(*ast.Ident)
		if !ok || rid.Name != c.recv {
			c.fail("++/-- on a field of something other than the receiver")
			return "0"
		}
		cur, ft := c.expr(se, "")
		op := " + "
		if st.Tok == token.DEC {
			op = " - "
		}
		return "let " + c.recv + " : " + leanTypeName(c.vars[c.recv]) + " := { " + c.recv + " with " + se.Sel.Name + " := " + cur + op + "(1 : " + ft + ") }\n" + ind + c.block(rest, tail, ind)
	case *ast.SwitchStmt:
		if st.Init == nil && st.Tag != nil { // switch tag { case c: … default: … }: the statements after it continue every case
			tag, tt := c.expr(st.Tag, "")
			var out strings.Builder
			var def []ast.Stmt
			hasDef := false
			saved := map[string]string{}
			for k, v := range c.vars {
				saved[k] = v
			}
			restore := func() {
				c.vars = map[string]string{}
				for k, v := range saved {
					c.vars[k] = v
				}
			}
			for _, cc := range st.Body.List {
				cl := cc.(*ast.CaseClause)
				if cl.List == nil {
					def, hasDef = cl.Body, true
					continue
				}
				var conds []string
				for _, e := range cl.List {
					v, _ := c.expr(e, tt)
					conds = append(conds, "("+tag+" == "+v+")")
				}
				restore()
				body := c.block(append(append([]ast.Stmt{}, cl.Body...), rest...), tail, ind+"  ")
				out.WriteString("if " + strings.Join(conds, " || ") + " then\n" + ind + "  " + body + "\n" + ind + "else ")
			}
			restore()
			if hasDef {
				out.WriteString("\n" + ind + "  " + c.block(append(append([]ast.Stmt{}, def...), rest...), tail, ind+"  "))
			} else {
				out.WriteString("\n" + ind + "  " + c.block(rest, tail, ind+"  "))
			}
			return out.String()
		}
		if st.Init != nil || st.Tag != nil {
			c.fail("only tagless switch is supported")
			return "0"
		}
		var out strings.Builder
		var def []ast.Stmt
		hasDef := false
		for _, cc := range st.Body.List {
			cl := cc.(*ast.CaseClause)
			if cl.List == nil {
				def, hasDef = cl.Body, true
				continue
			}
			var conds []string
			for _, e := range cl.List {
				s, _ := c.expr(e, "Bool")
				conds = append(conds, s)
			}
			out.WriteString("if " + strings.Join(conds, " || ") + " then\n" + ind + "  " + c.block(cl.Body, "", ind+"  ") + "\n" + ind + "else ")
		}
		if hasDef {
			out.WriteString("\n" + ind + "  " + c.block(def, "", ind+"  "))
		} else {
			out.WriteString("\n" + ind + "  " + c.block(rest, tail, ind+"  "))
		}
		return out.String()
	}
	c.fail("unsupported statement %T", s)
	return "0"
}

// structFields lists the translatable fields of a struct type; an anonymous struct-typed field
// F of struct T becomes the named struct T_F.
func structFields(c0 *leafCtx, structs map[string][][2]string, name string, st *ast.StructType) [][2]string {
	var fs [][2]string
	for _, fl := range st.Fields.List {
		if _, ptr := fl.Type.(*ast.StarExpr); ptr {
			if rt := c0.leanType(fl.Type); strings.HasPrefix(rt, "R_") { // pointer to an immutable struct: Go.Ref (leaf8.go)
				for _, n := range fl.Names {
					fs = append(fs, [2]string{n.Name, rt})
				}
			}
			continue // other pointers (shared, possibly cyclic state) are outside the subset
		}
		lt := c0.leanType(fl.Type)
		if at, ok := fl.Type.(*ast.ArrayType); ok && at.Len == nil && len(fl.Names) == 1 && capFields[c0.dir+":"+name+"."+fl.Names[0].Name] {
			if et := c0.leanType(at.Elt); et != "" { // a slice modelled with its capacity (leaf7.go)
				lt = "C_" + et
			}
		}
		if inner, ok := fl.Type.(*ast.StructType); ok && len(fl.Names) == 1 {
			sub := name + "_" + fl.Names[0].Name
			if subfs := structFields(c0, structs, sub, inner); len(subfs) > 0 {
				structs[sub] = subfs
				lt = "S_" + sub
			}
		}
		if lt == "" {
			continue // a field outside the subset: leaves that use it fail to translate
		}
		if len(fl.Names) == 0 { // embedded struct of the package: a field named like its type (promoted selectors are refused: unknown field)
			if id, ok := fl.Type.(*ast.Ident); ok && strings.HasPrefix(lt, "S_") {
				fs = append(fs, [2]string{id.Name, lt})
			}
		}
		for _, n := range fl.Names {
			fs = append(fs, [2]string{n.Name, lt})
		}
	}
	return fs
}

// callsClock: the body calls Step or Adjust on the receiver's clk field.
func callsClock(fd *ast.FuncDecl, recv string) bool {
	found := false
	ast.Inspect(fd.Body, func(n ast.Node) bool {
		if ce, ok := n.(*ast.CallExpr); ok {
			if f, ok := ce.Fun.(*ast.SelectorExpr); ok && (f.Sel.Name == "Step" || f.Sel.Name == "Adjust") {
				if inner, ok := f.X.(*ast.SelectorExpr); ok && inner.Sel.Name == "clk" {
					if id, ok := inner.X.(*ast.Ident); ok && id.Name == recv {
						found = true
					}
				}
			}
		}
		return !found
	})
	return found
}

// hasPanicStmt: the body contains an explicit panic(...) statement
func hasPanicStmt(n ast.Node) bool {
	found := false
	ast.Inspect(n, func(n ast.Node) bool {
		if s, ok := n.(ast.Stmt); ok && isPanic(s) {
			found = true
		}
		return !found
	})
	return found
}

// assignsReceiver: the body assigns to a field of the receiver, or calls (as a statement) a
// translated method of the same receiver that does.
func assignsReceiver(fd *ast.FuncDecl, recv string, leafOf map[string]string, recvOf map[string]bool, vars map[string]string) bool {
	found := false
	ast.Inspect(fd.Body, func(n ast.Node) bool {
		switch x := n.(type) {
		case *ast.AssignStmt:
			for _, l := range x.Lhs {
				if se, ok := l.(*ast.SelectorExpr); ok {
					if id, ok := se.X.(*ast.Ident); ok && id.Name == recv {
						found = true
					}
				}
			}
		case *ast.IncDecStmt:
			if se, ok := x.X.(*ast.SelectorExpr); ok {
				if id, ok := se.X.(*ast.Ident); ok && id.Name == recv {
					found = true
				}
			}
		case *ast.ExprStmt:
			if ce, ok := x.X.(*ast.CallExpr); ok {
				if f, ok := ce.Fun.(*ast.SelectorExpr); ok {
					if id, ok := f.X.(*ast.Ident); ok && id.Name == recv {
						if recvOf[strings.TrimPrefix(vars[recv], "S_")+"."+f.Sel.Name] {
							found = true
						}
					}
				}
			}
		}
		return !found
	})
	return found
}

func emitLeaves(repo string, parsed map[string][]*ast.File, fset *token.FileSet, outPath string) {
	var sb strings.Builder
	sb.WriteString("/- GENERATED by harness/extract (leaf translator) from /repo on every run — do not edit.\n")
	sb.WriteString("   Each definition is the Go function of the same name, statement by statement, over\n")
	sb.WriteString("   fixed-width integers (Go's wrap-around and truncating division are Lean's). -/\n")
	sb.WriteString("import ScionTime.Model.GoPrelude\nimport ScionTime.Model.F64\nset_option linter.unusedVariables false\nnamespace ScionTime.Gen.Leaf\nopen ScionTime\n\n")
	byDir := map[string][]leafSpec{}
	var dirs []string
	for _, l := range leaves {
		if _, ok := byDir[l.dir]; !ok {
			dirs = append(dirs, l.dir)
		}
		byDir[l.dir] = append(byDir[l.dir], l)
	}
	for _, dir := range dirs {
		ds := prepareDir(repo, parsed, fset, dir)
		files, ev, structs := ds.files, ds.ev, ds.structs
		used := map[string]bool{}
		leafOf, retOf := map[string]string{}, map[string]string{}
		extOf, recvOf := map[string][]string{}, map[string]bool{}
		var defs []string
		for _, l := range byDir[dir] {
			fd := findFunc(files, l.fn)
			if fd == nil {
				withOwner("leaf:"+l.lean, func() { broken("leaf %s.%s: function not found", dir, l.fn) })
				continue
			}
			c := &leafCtx{dir: dir, files: files, ev: ev, structs: structs, vars: map[string]string{}, leafOf: leafOf, retOf: retOf,
				extOf: extOf, recvOf: recvOf, sites: map[token.Pos]string{}, nsite: map[string]int{}}
			var params []string
			addParam := func(n string, t ast.Expr) {
				lt := c.leanType(t)
				if lt == "" {
					c.fail("unsupported parameter type")
					return
				}
				if strings.HasPrefix(lt, "S_") {
					used[strings.TrimPrefix(lt, "S_")] = true
				}
				c.vars[n] = lt
				params = append(params, "("+n+" : "+leanTypeName(lt)+")")
			}
			if fd.Recv != nil {
				addParam(fd.Recv.List[0].Names[0].Name, fd.Recv.List[0].Type)
			}
			for _, p := range fd.Type.Params.List {
				for _, n := range p.Names {
					addParam(n.Name, p.Type)
				}
			}
			ret := ""
			if fd.Type.Results != nil && len(fd.Type.Results.List) == 1 && len(fd.Type.Results.List[0].Names) <= 1 {
				ret = c.leanType(fd.Type.Results.List[0].Type)
			}
			// fifth generation: receiver updates, named / multiple results, zero-valued vars
			gen5 := false
			if fd.Recv != nil {
				if _, ptr := fd.Recv.List[0].Type.(*ast.StarExpr); ptr && assignsReceiver(fd, fd.Recv.List[0].Names[0].Name, leafOf, recvOf, c.vars) {
					c.recv = fd.Recv.List[0].Names[0].Name
					gen5 = true
				}
			}
			var prologue string
			if fd.Type.Results != nil {
				var rts []string
				for _, r := range fd.Type.Results.List {
					rt := c.leanType(r.Type)
					k := len(r.Names)
					if k == 0 {
						k = 1
					}
					for i := 0; i < k; i++ {
						rts = append(rts, rt)
					}
					for _, n := range r.Names {
						gen5 = true
						c.named = append(c.named, n.Name)
						c.vars[n.Name] = rt
						if z := zeroOf(rt); z != "" {
							prologue += "let " + n.Name + " : " + leanTypeName(rt) + " := " + z + "\n  "
						} else {
							c.fail("named result of an unsupported type")
						}
					}
				}
				if len(rts) > 1 {
					ret = "T:" + strings.Join(rts, ",")
				}
			}
			if c.recv != "" && callsClock(fd, c.recv) {
				c.effects = true
				c.vars["acts"] = "ActList"
				prologue += "let acts : List Go.ClkAction := []\n  "
			}
			c.zeroVars = gen5
			c.ret = ret
			if strings.HasPrefix(ret, "T:") {
				c.ret = ""
			}
			c.panics = hasPanic(fd.Body)
			c.panics = hasPanicStmt(fd.Body) || (hasPanic(fd.Body) && c.recv == "")
			endTail := ""
			if c.recv != "" && fd.Type.Results == nil {
				endTail = c.result("")
			}
			body := prologue + c.block(fd.Body.List, endTail, "  ")
			for _, e := range c.externs {
				params = append(params, "("+e+")")
			}
			if c.err != nil {
				withOwner("leaf:"+l.lean, func() { broken("leaf %s.%s: %v", dir, l.fn, c.err) })
				continue
			}
			sig := "def " + l.lean + " " + strings.Join(params, " ")
			rtName := leanTypeName(ret)
			if strings.HasPrefix(ret, "T:") {
				var ps []string
				for _, t := range strings.Split(strings.TrimPrefix(ret, "T:"), ",") {
					ps = append(ps, leanTypeName(t))
				}
				rtName = "(" + strings.Join(ps, " × ") + ")"
			}
			if c.effects {
				if ret == "" {
					rtName = "(List Go.ClkAction)"
				} else {
					rtName = "((List Go.ClkAction) × " + rtName + ")"
				}
			}
			if c.recv != "" {
				if ret == "" && !c.effects {
					rtName = leanTypeName(c.vars[c.recv])
				} else {
					rtName = "(" + leanTypeName(c.vars[c.recv]) + " × " + rtName + ")"
				}
			}
			if (ret != "" || c.recv != "") && c.panics {
				sig += " : Option " + rtName
			} else if ret != "" || c.recv != "" {
				sig += " : " + rtName
			}
			if c.panics && ret == "" && c.recv == "" {
				c.fail("panic in a function without a single translated result type")
			}
			pos := fset.Position(fd.Pos())
			defs = append(defs, fmt.Sprintf("/-- %s: %s (line %d) -/\n%s :=\n  %s\n", dir, l.fn, pos.Line, sig, body))
			leafOf[l.fn] = l.lean
			retOf[l.fn] = ret
			recvOf[l.fn] = c.recv != ""
			for _, e := range c.externs {
				extOf[l.fn] = append(extOf[l.fn], e)
			}
			li := &leafInfo{lean: l.lean, ret: ret, externs: append([]string{}, c.externs...), nparams: -1, file: "Leaf"}
			if c.panics {
				li.mode = modeOpt
			}
			if c.recv != "" {
				li.outs = []string{"recv"}
			}
			if !c.effects { // recorded clock actions are not handed on to seventh-generation callers
				ds.infoOf[l.fn] = li
			}
			if fd.Recv == nil {
				pkgName := dir[strings.LastIndex(dir, "/")+1:]
				globalLeaf[pkgName+"."+l.fn] = [2]string{l.lean, ret}
				if !c.effects {
					globalInfo[pkgName+"."+l.fn] = li
				}
			}
		}
		var names []string
		for n := range used {
			names = append(names, n)
		}
		// nested structs first
		for changed := true; changed; {
			changed = false
			for _, n := range names {
				for _, f := range structs[n] {
					ft := f[1]
					if strings.HasPrefix(ft, "R_") {
						ft = "S_" + strings.TrimPrefix(ft, "R_")
					}
					if strings.HasPrefix(ft, "S_") && !used[strings.TrimPrefix(ft, "S_")] {
						used[strings.TrimPrefix(ft, "S_")] = true
						names = append(names, strings.TrimPrefix(ft, "S_"))
						changed = true
					}
				}
			}
		}
		sort.Slice(names, func(i, j int) bool { // a struct after the structs it contains
			dep := func(a, b string) bool {
				for _, f := range structs[a] {
					if f[1] == "S_"+b || f[1] == "R_"+b {
						return true
					}
				}
				return false
			}
			if dep(names[j], names[i]) {
				return true
			}
			if dep(names[i], names[j]) {
				return false
			}
			return names[i] < names[j]
		})
		for _, n := range names {
			ds.emitted[n] = true
			ds.structFile[n] = "Leaf"
			fmt.Fprintf(&sb, "structure S_%s where\n", n)
			for _, f := range structs[n] {
				fmt.Fprintf(&sb, "  %s : %s\n", lf(f[0]), leanTypeName(f[1]))
			}
			sb.WriteString("\n")
		}
		for _, d := range defs {
			sb.WriteString(d + "\n")
		}
	}
	sb.WriteString("end ScionTime.Gen.Leaf\n")
	writeIfChanged(outPath, sb.String())
	emitLeaves7(repo, parsed, fset, outPath)
}
