package main

// Leaf translator: straight-line integer functions of /repo are translated, on every run,
// from their Go AST into Lean definitions over fixed-width integers (Gen/Leaf.lean), and
// Props/Leaf*.lean proves each generated definition equal to the hand-written model's
// (kernel-checked tie for these leaves, instead of sampling). The accepted Go subset is
// deliberately tiny: parameters and results of integer/bool/error type (error = Bool
// "failed"), structs of integer fields, := / = / op= assignments, if / else, tagless switch,
// return, calls of other translated leaves, integer and comparison operators. Anything
// else is reported as a broken tie.

import (
	"fmt"
	"go/ast"
	"go/constant"
	"go/token"
	"sort"
	"strings"
)

type leafSpec struct {
	dir  string // package directory
	fn   string // "Name" or "Recv.Name"
	lean string // Lean definition name
}

var leaves = []leafSpec{
	{"base/timemath", "Sgn", "timemath_Sgn"},
	{"base/timemath", "Inv", "timemath_Inv"},
	{"base/timemath", "Midpoint", "timemath_Midpoint"},
	{"net/ntp", "Time64.Before", "ntp_Time64_Before"},
	{"net/ntp", "Time64.After", "ntp_Time64_After"},
	{"net/ntp", "Packet.LeapIndicator", "ntp_Packet_LeapIndicator"},
	{"net/ntp", "Packet.Version", "ntp_Packet_Version"},
	{"net/ntp", "Packet.Mode", "ntp_Packet_Mode"},
	{"net/ntp", "ValidateRequest", "ntp_ValidateRequest"},
	{"net/ntp", "ValidateResponseMetadata", "ntp_ValidateResponseMetadata"},
	{"base/unixutil", "TimevalFromNsec", "unixutil_TimevalFromNsec"},
	{"net/csptp", "DurationFromTimeInterval", "csptp_DurationFromTimeInterval"},
}

var leanInt = map[string]string{
	"int64": "Int64", "Duration": "Int64", "int": "Int64", "int32": "Int32", "int16": "Int16", "int8": "Int8",
	"uint64": "UInt64", "uint32": "UInt32", "uint16": "UInt16", "uint8": "UInt8", "byte": "UInt8", "bool": "Bool", "error": "Bool",
}

type leafCtx struct {
	dir     string
	files   []*ast.File
	ev      *evaluator
	structs map[string][][2]string // struct name -> (field, lean type)
	vars    map[string]string      // variable -> lean type
	ret     string                 // lean result type ("" = tuple / unknown)
	err     error
	leafOf  map[string]string // "Recv.Name" / "Name" in this dir -> lean name
	retOf   map[string]string
}

func (c *leafCtx) fail(format string, a ...any) {
	if c.err == nil {
		c.err = fmt.Errorf(format, a...)
	}
}

func typeName(e ast.Expr) string {
	switch t := e.(type) {
	case *ast.Ident:
		return t.Name
	case *ast.StarExpr:
		return typeName(t.X)
	case *ast.SelectorExpr:
		return t.Sel.Name
	}
	return ""
}

func (c *leafCtx) leanType(e ast.Expr) string {
	n := typeName(e)
	if l, ok := leanInt[n]; ok {
		return l
	}
	if _, ok := c.structs[n]; ok {
		return "S_" + n
	}
	return ""
}

func isIntType(t string) bool { return strings.HasPrefix(t, "Int") || strings.HasPrefix(t, "UInt") }

func (c *leafCtx) lit(v constant.Value, want string) string {
	if v.Kind() == constant.Float && constant.ToInt(v).Kind() == constant.Int {
		v = constant.ToInt(v)
	}
	if v.Kind() != constant.Int {
		c.fail("non-integer constant %s", v.String())
		return "0"
	}
	if want == "" || !isIntType(want) {
		want = "Int64"
	}
	return fmt.Sprintf("(%s : %s)", v.ExactString(), want)
}

// expr translates e; want is the expected Lean type ("" = unknown); returns code and type.
func (c *leafCtx) expr(e ast.Expr, want string) (string, string) {
	switch x := e.(type) {
	case *ast.ParenExpr:
		return c.expr(x.X, want)
	case *ast.BasicLit:
		v := constant.MakeFromLiteral(x.Value, x.Kind, 0)
		return c.lit(v, want), want
	case *ast.Ident:
		if t, ok := c.vars[x.Name]; ok {
			return x.Name, t
		}
		switch x.Name {
		case "nil":
			return "false", "Bool"
		case "true", "false":
			return x.Name, "Bool"
		}
		if strings.HasPrefix(x.Name, "err") && want == "Bool" {
			return "true", "Bool" // a package-level error value: "failed"
		}
		v := c.ev.lookup(x.Name)
		if v.Kind() == constant.Unknown {
			c.fail("unknown identifier %s", x.Name)
			return "0", want
		}
		return c.lit(v, want), want
	case *ast.SelectorExpr:
		if id, ok := x.X.(*ast.Ident); ok {
			if t, ok := c.vars[id.Name]; ok && strings.HasPrefix(t, "S_") {
				for _, f := range c.structs[strings.TrimPrefix(t, "S_")] {
					if f[0] == x.Sel.Name {
						return id.Name + "." + f[0], f[1]
					}
				}
				c.fail("unknown field %s.%s", id.Name, x.Sel.Name)
				return "0", want
			}
		}
		v := c.ev.eval(x, 0)
		if v.Kind() == constant.Unknown {
			c.fail("unsupported selector")
			return "0", want
		}
		return c.lit(v, want), want
	case *ast.UnaryExpr:
		a, t := c.expr(x.X, want)
		switch x.Op {
		case token.SUB:
			return "(-" + a + ")", t
		case token.NOT:
			return "(!" + a + ")", "Bool"
		}
		c.fail("unsupported unary operator %s", x.Op)
		return a, t
	case *ast.CallExpr:
		// conversion T(x) between integer types of the same Lean type, or a call of another leaf
		if len(x.Args) == 1 {
			if lt, ok := leanInt[typeName(x.Fun)]; ok {
				a, t := c.expr(x.Args[0], lt)
				if t == lt || t == "" {
					return a, lt
				}
				c.fail("unsupported conversion %s -> %s", t, lt)
				return a, lt
			}
		}
		name := ""
		var args []string
		switch f := x.Fun.(type) {
		case *ast.Ident:
			name = f.Name
		case *ast.SelectorExpr:
			if id, ok := f.X.(*ast.Ident); ok {
				if t, ok := c.vars[id.Name]; ok && strings.HasPrefix(t, "S_") {
					name = strings.TrimPrefix(t, "S_") + "." + f.Sel.Name
					args = append(args, id.Name)
				}
			}
		}
		ln, ok := c.leafOf[name]
		if !ok {
			c.fail("call of untranslated function")
			return "0", want
		}
		for _, a := range x.Args {
			s, _ := c.expr(a, "")
			args = append(args, s)
		}
		return "(" + ln + " " + strings.Join(args, " ") + ")", c.retOf[name]
	case *ast.BinaryExpr:
		switch x.Op {
		case token.LAND, token.LOR:
			a, _ := c.expr(x.X, "Bool")
			b, _ := c.expr(x.Y, "Bool")
			op := "&&"
			if x.Op == token.LOR {
				op = "||"
			}
			return "(" + a + " " + op + " " + b + ")", "Bool"
		}
		// operand type: whichever side has a known type
		_, ta := c.peek(x.X)
		_, tb := c.peek(x.Y)
		t := ta
		if t == "" {
			t = tb
		}
		if t == "" {
			t = want
		}
		a, _ := c.expr(x.X, t)
		b, _ := c.expr(x.Y, t)
		switch x.Op {
		case token.ADD, token.SUB, token.MUL, token.QUO, token.REM:
			return "(" + a + " " + x.Op.String() + " " + b + ")", t
		case token.AND:
			return "(" + a + " &&& " + b + ")", t
		case token.OR:
			return "(" + a + " ||| " + b + ")", t
		case token.XOR:
			return "(" + a + " ^^^ " + b + ")", t
		case token.SHL:
			return "(" + a + " <<< " + b + ")", t
		case token.SHR:
			return "(" + a + " >>> " + b + ")", t
		case token.LSS, token.LEQ, token.GTR, token.GEQ:
			return "(decide (" + a + " " + x.Op.String() + " " + b + "))", "Bool"
		case token.EQL:
			return "(" + a + " == " + b + ")", "Bool"
		case token.NEQ:
			return "(" + a + " != " + b + ")", "Bool"
		}
		c.fail("unsupported binary operator %s", x.Op)
		return a, t
	case *ast.CompositeLit: // result record of a foreign struct type: a tuple in field order
		var parts []string
		for _, el := range x.Elts {
			kv, ok := el.(*ast.KeyValueExpr)
			if !ok {
				c.fail("unsupported composite literal")
				return "0", ""
			}
			s, _ := c.expr(kv.Value, "")
			parts = append(parts, s)
		}
		return "(" + strings.Join(parts, ", ") + ")", ""
	}
	c.fail("unsupported expression %T", e)
	return "0", want
}

// peek returns the type an expression would have without recording failures.
func (c *leafCtx) peek(e ast.Expr) (string, string) {
	saved := c.err
	s, t := c.expr(e, "")
	c.err = saved
	return s, t
}

func assigned(stmts []ast.Stmt, set map[string]bool) {
	for _, s := range stmts {
		if a, ok := s.(*ast.AssignStmt); ok {
			for _, l := range a.Lhs {
				if id, ok := l.(*ast.Ident); ok {
					set[id.Name] = true
				}
			}
		}
		if i, ok := s.(*ast.IfStmt); ok {
			assigned(i.Body.List, set)
			if b, ok := i.Else.(*ast.BlockStmt); ok {
				assigned(b.List, set)
			}
		}
	}
}

func returns(stmts []ast.Stmt) bool {
	if len(stmts) == 0 {
		return false
	}
	switch s := stmts[len(stmts)-1].(type) {
	case *ast.ReturnStmt:
		return true
	case *ast.IfStmt:
		if b, ok := s.Else.(*ast.BlockStmt); ok {
			return returns(s.Body.List) && returns(b.List)
		}
	case *ast.SwitchStmt:
		hasDefault := false
		for _, cc := range s.Body.List {
			cl := cc.(*ast.CaseClause)
			if cl.List == nil {
				hasDefault = true
			}
			if !returns(cl.Body) {
				return false
			}
		}
		return hasDefault
	}
	return false
}

// block translates a statement list into a Lean expression; tail is used when the list
// ends without returning (the value of the enclosing if-without-return: a tuple of vars).
func (c *leafCtx) block(stmts []ast.Stmt, tail string, ind string) string {
	if len(stmts) == 0 {
		if tail == "" {
			c.fail("control reaches end of function without return")
		}
		return tail
	}
	s, rest := stmts[0], stmts[1:]
	switch st := s.(type) {
	case *ast.ReturnStmt:
		if len(st.Results) != 1 {
			c.fail("unsupported return arity")
			return "0"
		}
		e, _ := c.expr(st.Results[0], c.ret)
		return e
	case *ast.AssignStmt:
		if len(st.Lhs) == 2 && len(st.Rhs) == 2 && st.Tok == token.ASSIGN || len(st.Lhs) != 1 || len(st.Rhs) != 1 {
			c.fail("unsupported assignment shape")
			return "0"
		}
		id, ok := st.Lhs[0].(*ast.Ident)
		if !ok {
			c.fail("assignment to non-variable")
			return "0"
		}
		var e, t string
		switch st.Tok {
		case token.DEFINE, token.ASSIGN:
			e, t = c.expr(st.Rhs[0], c.vars[id.Name])
		default: // op=
			op := map[token.Token]token.Token{token.ADD_ASSIGN: token.ADD, token.SUB_ASSIGN: token.SUB, token.MUL_ASSIGN: token.MUL,
				token.QUO_ASSIGN: token.QUO, token.REM_ASSIGN: token.REM}[st.Tok]
			if op == token.ILLEGAL {
				c.fail("unsupported assignment operator %s", st.Tok)
				return "0"
			}
			e, t = c.expr(&ast.BinaryExpr{X: id, Op: op, Y: st.Rhs[0]}, c.vars[id.Name])
		}
		if t == "" {
			t = "Int64"
		}
		c.vars[id.Name] = t
		return "let " + id.Name + " : " + t + " := " + e + "\n" + ind + c.block(rest, tail, ind)
	case *ast.DeclStmt:
		return c.block(rest, tail, ind) // `var x T` without value: variables are introduced at first assignment
	case *ast.ExprStmt:
		c.fail("unsupported expression statement")
		return "0"
	case *ast.IfStmt:
		if st.Init != nil {
			c.fail("if with init statement")
			return "0"
		}
		cond, _ := c.expr(st.Cond, "Bool")
		var elseList []ast.Stmt
		switch e := st.Else.(type) {
		case *ast.BlockStmt:
			elseList = e.List
		case *ast.IfStmt:
			elseList = []ast.Stmt{e}
		}
		if returns(st.Body.List) {
			// if c { …return } [else {…}] ; rest  ==>  if c then … else (else-block ; rest)
			thenE := c.block(st.Body.List, "", ind+"  ")
			elseE := c.block(append(append([]ast.Stmt{}, elseList...), rest...), tail, ind+"  ")
			return "if " + cond + " then\n" + ind + "  " + thenE + "\n" + ind + "else\n" + ind + "  " + elseE
		}
		// no return inside: the if only updates variables
		set := map[string]bool{}
		assigned(st.Body.List, set)
		assigned(elseList, set)
		var vs []string
		for v := range set {
			if _, ok := c.vars[v]; ok {
				vs = append(vs, v)
			}
		}
		sort.Strings(vs)
		if len(vs) == 0 {
			c.fail("if without effect")
			return "0"
		}
		tup := vs[0]
		if len(vs) > 1 {
			tup = "(" + strings.Join(vs, ", ") + ")"
		}
		saved := map[string]string{}
		for k, v := range c.vars {
			saved[k] = v
		}
		thenE := c.block(st.Body.List, tup, ind+"    ")
		c.vars = saved
		elseE := tup
		if len(elseList) > 0 {
			elseE = c.block(elseList, tup, ind+"    ")
		}
		return "let " + tup + " :=\n" + ind + "  if " + cond + " then\n" + ind + "    " + thenE + "\n" + ind + "  else\n" + ind + "    " + elseE +
			"\n" + ind + c.block(rest, tail, ind)
	case *ast.SwitchStmt:
		if st.Init != nil || st.Tag != nil {
			c.fail("only tagless switch is supported")
			return "0"
		}
		var out strings.Builder
		var def []ast.Stmt
		hasDef := false
		for _, cc := range st.Body.List {
			cl := cc.(*ast.CaseClause)
			if cl.List == nil {
				def, hasDef = cl.Body, true
				continue
			}
			var conds []string
			for _, e := range cl.List {
				s, _ := c.expr(e, "Bool")
				conds = append(conds, s)
			}
			out.WriteString("if " + strings.Join(conds, " || ") + " then\n" + ind + "  " + c.block(cl.Body, "", ind+"  ") + "\n" + ind + "else ")
		}
		if hasDef {
			out.WriteString("\n" + ind + "  " + c.block(def, "", ind+"  "))
		} else {
			out.WriteString("\n" + ind + "  " + c.block(rest, tail, ind+"  "))
		}
		return out.String()
	}
	c.fail("unsupported statement %T", s)
	return "0"
}

func emitLeaves(repo string, parsed map[string][]*ast.File, fset *token.FileSet, outPath string) {
	var sb strings.Builder
	sb.WriteString("/- GENERATED by harness/extract (leaf translator) from /repo on every run — do not edit.\n")
	sb.WriteString("   Each definition is the Go function of the same name, statement by statement, over\n")
	sb.WriteString("   fixed-width integers (Go's wrap-around and truncating division are Lean's). -/\n")
	sb.WriteString("set_option linter.unusedVariables false\nnamespace ScionTime.Gen.Leaf\n\n")
	byDir := map[string][]leafSpec{}
	var dirs []string
	for _, l := range leaves {
		if _, ok := byDir[l.dir]; !ok {
			dirs = append(dirs, l.dir)
		}
		byDir[l.dir] = append(byDir[l.dir], l)
	}
	for _, dir := range dirs {
		files := parsed[dir]
		if files == nil {
			files = parseDir(fset, repo+"/"+dir)
		}
		ev := &evaluator{decls: map[string]ast.Expr{}, iotas: map[string]int{}, memo: map[string]constant.Value{}, busy: map[string]bool{}}
		structs := map[string][][2]string{}
		for _, f := range files {
			for _, d := range f.Decls {
				gd, ok := d.(*ast.GenDecl)
				if !ok {
					continue
				}
				for i, s := range gd.Specs {
					switch sp := s.(type) {
					case *ast.ValueSpec:
						if gd.Tok == token.CONST {
							for j, n := range sp.Names {
								if j < len(sp.Values) {
									ev.decls[n.Name] = sp.Values[j]
									ev.iotas[n.Name] = i
								}
							}
						}
					case *ast.TypeSpec:
						if st, ok := sp.Type.(*ast.StructType); ok {
							structs[sp.Name.Name] = nil
							_ = st
						}
					}
				}
			}
		}
		// struct field types (second pass so that nested structs resolve)
		c0 := &leafCtx{structs: structs}
		for _, f := range files {
			for _, d := range f.Decls {
				gd, ok := d.(*ast.GenDecl)
				if !ok {
					continue
				}
				for _, s := range gd.Specs {
					if sp, ok := s.(*ast.TypeSpec); ok {
						if st, ok := sp.Type.(*ast.StructType); ok {
							var fs [][2]string
							okAll := true
							for _, fl := range st.Fields.List {
								lt := c0.leanType(fl.Type)
								if lt == "" {
									okAll = false
									break
								}
								for _, n := range fl.Names {
									fs = append(fs, [2]string{n.Name, lt})
								}
							}
							if okAll && len(fs) > 0 {
								structs[sp.Name.Name] = fs
							} else {
								delete(structs, sp.Name.Name)
							}
						}
					}
				}
			}
		}
		used := map[string]bool{}
		leafOf, retOf := map[string]string{}, map[string]string{}
		var defs []string
		for _, l := range byDir[dir] {
			fd := findFunc(files, l.fn)
			if fd == nil {
				broken("leaf %s.%s: function not found", dir, l.fn)
				continue
			}
			c := &leafCtx{dir: dir, files: files, ev: ev, structs: structs, vars: map[string]string{}, leafOf: leafOf, retOf: retOf}
			var params []string
			addParam := func(n string, t ast.Expr) {
				lt := c.leanType(t)
				if lt == "" {
					c.fail("unsupported parameter type")
					return
				}
				if strings.HasPrefix(lt, "S_") {
					used[strings.TrimPrefix(lt, "S_")] = true
				}
				c.vars[n] = lt
				params = append(params, "("+n+" : "+lt+")")
			}
			if fd.Recv != nil {
				addParam(fd.Recv.List[0].Names[0].Name, fd.Recv.List[0].Type)
			}
			for _, p := range fd.Type.Params.List {
				for _, n := range p.Names {
					addParam(n.Name, p.Type)
				}
			}
			ret := ""
			if fd.Type.Results != nil && len(fd.Type.Results.List) == 1 {
				ret = c.leanType(fd.Type.Results.List[0].Type)
			}
			c.ret = ret
			body := c.block(fd.Body.List, "", "  ")
			if c.err != nil {
				broken("leaf %s.%s: %v", dir, l.fn, c.err)
				continue
			}
			sig := "def " + l.lean + " " + strings.Join(params, " ")
			if ret != "" {
				sig += " : " + ret
			}
			pos := fset.Position(fd.Pos())
			defs = append(defs, fmt.Sprintf("/-- %s: %s (line %d) -/\n%s :=\n  %s\n", dir, l.fn, pos.Line, sig, body))
			leafOf[l.fn] = l.lean
			retOf[l.fn] = ret
		}
		var names []string
		for n := range used {
			names = append(names, n)
		}
		// nested structs first
		for changed := true; changed; {
			changed = false
			for _, n := range names {
				for _, f := range structs[n] {
					if strings.HasPrefix(f[1], "S_") && !used[strings.TrimPrefix(f[1], "S_")] {
						used[strings.TrimPrefix(f[1], "S_")] = true
						names = append(names, strings.TrimPrefix(f[1], "S_"))
						changed = true
					}
				}
			}
		}
		sort.Slice(names, func(i, j int) bool { // a struct after the structs it contains
			dep := func(a, b string) bool {
				for _, f := range structs[a] {
					if f[1] == "S_"+b {
						return true
					}
				}
				return false
			}
			if dep(names[j], names[i]) {
				return true
			}
			if dep(names[i], names[j]) {
				return false
			}
			return names[i] < names[j]
		})
		for _, n := range names {
			fmt.Fprintf(&sb, "structure S_%s where\n", n)
			for _, f := range structs[n] {
				fmt.Fprintf(&sb, "  %s : %s\n", f[0], f[1])
			}
			sb.WriteString("\n")
		}
		for _, d := range defs {
			sb.WriteString(d + "\n")
		}
	}
	sb.WriteString("end ScionTime.Gen.Leaf\n")
	writeIfChanged(outPath, sb.String())
}
