package main

// Leaf translator, eighth generation (notes/LEAF.md, "Generation 8"): methods of an object that
// makes system calls and starts a goroutine — driver/clocks/sysclk_linux.go. New constructs, all
// hooked into the seventh generation's statement translator:
//
//   * thread `w : Go.World` = allocation counter + the list of recorded actions (system calls with
//     their argument VALUES, wrapper calls, goroutine starts), handed through calls like `rnd`;
//   * `*T` fields / parameters / values for the structs listed in refStructs: `Option (Go.Ref S_T)`
//     (nil = none; identity = allocation number; contents immutable after allocation — checked);
//     `x == nil`, `x != nil`, `x = nil`, `x.f` (nil dereference = panic), `p == q` (identity),
//     `&T{…}` (allocation), the owner back-pointer (`adj.clock` = the receiver — checked);
//   * `unix.Timex{…}` literals, `unix.X` constants (read from the x/sys version go.mod names),
//     `_, err := unix.ClockAdjtime(clk, &tx)` (recorded; `err` = a parameter of its own per call site);
//   * `logbase.Fatal(log, "msg", …)` = outcome panic "fatal: msg"; `*slog.Logger` parameters and
//     arguments dropped, `log.LogAttrs(…)` skipped;
//   * calls of the wrappers listed in actionFuncs (`sleep`): recorded with their arguments;
//   * `go func(params){ body }(args)`: recorded as a start with the identities of its pointer
//     arguments; the body is a leaf of its own (`T.Method#go`), a method of the owner.

import (
	"go/ast"
	"go/token"
	"os"
	"os/exec"
	"regexp"
	"strconv"
	"strings"
)

// refStructs: structs handled through `Go.Ref` pointers, with the field that points back to the
// owner ("" = none)
var refStructs = map[string]string{
	"driver/clocks:adjustment": "clock",
}

// actionFuncs: functions of the package whose calls are recorded instead of translated (their
// bodies are system-call sequences outside the subset); value = constructor of Go.SysAction
var actionFuncs = map[string]string{
	"driver/clocks:sleep": "Go.SysAction.sleep",
}

// foreign struct literals: Lean structure and field types
var foreignStructs = map[string]struct {
	lean   string
	fields map[string]string
}{
	"unix.Timex": {"Go.Timex", map[string]string{"Modes": "UInt32", "Offset": "Int64", "Freq": "Int64", "Maxerror": "Int64", "Esterror": "Int64",
		"Status": "Int32", "Constant": "Int64", "Precision": "Int64", "Tolerance": "Int64", "Time": "T:Int64,Int64", "Tick": "Int64"}},
}

// opaqueMethods: methods of foreign objects passed as parameters (`cs tls.ConnectionState`): the
// object is dropped from the parameter list and each method becomes a FUNCTION-typed parameter
// applied to the translated arguments of every call site (deterministic for the duration of the
// call: the same connection state, the same arguments, the same answer).
var opaqueMethods = map[string]struct {
	args []string
	ret  string
}{
	"tls.ConnectionState.ExportKeyingMaterial": {[]string{"Str", "L_UInt8", "Int64"}, "T:L_UInt8,Bool"},
}

func opaqueType(t ast.Expr) string {
	se, ok := t.(*ast.SelectorExpr)
	if !ok {
		return ""
	}
	id, ok := se.X.(*ast.Ident)
	if !ok {
		return ""
	}
	n := id.Name + "." + se.Sel.Name
	for k := range opaqueMethods {
		if strings.HasPrefix(k, n+".") {
			return n
		}
	}
	return ""
}

var forceOut = map[string]bool{} // leaves translated with the Go.Out outcome whatever they need

func isLoggerType(t ast.Expr) bool {
	st, ok := t.(*ast.StarExpr)
	if !ok {
		return false
	}
	se, ok := st.X.(*ast.SelectorExpr)
	if !ok {
		return false
	}
	id, ok := se.X.(*ast.Ident)
	return ok && id.Name == "slog" && se.Sel.Name == "Logger"
}

// isLoggerArg: an argument that is a logger (dropped from calls): a logger parameter or `x.log`
func (c *leafCtx) isLoggerArg(e ast.Expr) bool {
	switch x := e.(type) {
	case *ast.Ident:
		return c.logVars[x.Name]
	case *ast.SelectorExpr:
		return x.Sel.Name == "log"
	}
	return false
}

func (c *leafCtx) dataArgs(args []ast.Expr) []ast.Expr {
	var r []ast.Expr
	for _, a := range args {
		if !c.isLoggerArg(a) {
			r = append(r, a)
		}
	}
	return r
}

// isFatal: logbase.Fatal(log, "msg", …)
func isFatal(s ast.Stmt) (string, bool) {
	es, ok := s.(*ast.ExprStmt)
	if !ok {
		return "", false
	}
	ce, ok := es.X.(*ast.CallExpr)
	if !ok || !isPkgCall(ce, "logbase", "Fatal") {
		return "", false
	}
	msg := "fatal"
	if len(ce.Args) >= 2 {
		if bl, ok := ce.Args[1].(*ast.BasicLit); ok && bl.Kind == token.STRING {
			if v, err := strconv.Unquote(bl.Value); err == nil {
				msg = "fatal: " + v
			}
		}
	}
	return msg, true
}

// ---- constants of golang.org/x/sys/unix, from the version go.mod requires -----------------------

var unixConsts map[string]string

func loadUnixConsts(repo string) {
	if unixConsts != nil {
		return
	}
	unixConsts = map[string]string{}
	gm, err := os.ReadFile(repo + "/go.mod")
	if err != nil {
		return
	}
	m := regexp.MustCompile(`golang.org/x/sys (v[0-9A-Za-z.\-]+)`).FindSubmatch(gm)
	if m == nil {
		return
	}
	cache := os.Getenv("GOMODCACHE")
	if cache == "" {
		if out, err := exec.Command("go", "env", "GOMODCACHE").Output(); err == nil {
			cache = strings.TrimSpace(string(out))
		}
	}
	if cache == "" {
		home, _ := os.UserHomeDir()
		cache = home + "/go/pkg/mod"
	}
	re := regexp.MustCompile(`(?m)^\s+([A-Z][A-Z0-9_]*)\s+=\s+(0x[0-9a-fA-F]+|[0-9]+)\s*$`)
	for _, f := range []string{"ztypes_linux.go", "zerrors_linux.go"} {
		src, err := os.ReadFile(cache + "/golang.org/x/sys@" + string(m[1]) + "/unix/" + f)
		if err != nil {
			continue
		}
		for _, mm := range re.FindAllSubmatch(src, -1) {
			if v, err := strconv.ParseUint(string(mm[2]), 0, 64); err == nil {
				if _, dup := unixConsts[string(mm[1])]; !dup {
					unixConsts[string(mm[1])] = strconv.FormatUint(v, 10)
				}
			}
		}
	}
}

// ---- analysis -------------------------------------------------------------------------------------

// usesWorld: the function records actions or allocates (directly or through a leaf it calls)
func usesWorld(fd *ast.FuncDecl, c *leafCtx) bool {
	found := false
	ast.Inspect(fd.Body, func(n ast.Node) bool {
		switch x := n.(type) {
		case *ast.GoStmt:
			found = true
		case *ast.CallExpr:
			if isPkgCall(x, "unix", "ClockAdjtime") {
				found = true
			}
			if id, ok := x.Fun.(*ast.Ident); ok {
				if _, ok := actionFuncs[c.dir+":"+id.Name]; ok {
					found = true
				}
			}
			if li, _ := c.calleeInfo(x); li != nil {
				for _, t := range li.threads {
					if t == "w" {
						found = true
					}
				}
			}
		case *ast.UnaryExpr:
			if cl, ok := x.X.(*ast.CompositeLit); ok && x.Op == token.AND {
				if _, ok := refStructs[c.dir+":"+typeName(cl.Type)]; ok {
					found = true
				}
			}
		}
		return !found
	})
	return found
}

// marksWorld: the node (a statement or expression) itself appends to the world
func (c *leafCtx) marksWorld(n ast.Node) bool {
	found := false
	ast.Inspect(n, func(n ast.Node) bool {
		switch x := n.(type) {
		case *ast.FuncLit:
			return false
		case *ast.GoStmt:
			found = true
			return false
		case *ast.CallExpr:
			if isPkgCall(x, "unix", "ClockAdjtime") {
				found = true
			}
			if id, ok := x.Fun.(*ast.Ident); ok {
				if _, ok := actionFuncs[c.dir+":"+id.Name]; ok {
					found = true
				}
			}
		case *ast.UnaryExpr:
			if cl, ok := x.X.(*ast.CompositeLit); ok && x.Op == token.AND {
				if _, ok := refStructs[c.dir+":"+typeName(cl.Type)]; ok {
					found = true
				}
			}
		}
		return !found
	})
	return found
}

// checkRefStruct: the conditions under which `Go.Ref` is faithful for struct T of this package —
// no field of T is assigned anywhere in the package (contents immutable after allocation), and
// every `&T{…}` sets the owner field to the receiver of the enclosing method.
func checkRefStruct(ds *dirState, dir, name string) string {
	owner := refStructs[dir+":"+name]
	var fields []string
	for _, f := range ds.files {
		for _, d := range f.Decls {
			if gd, ok := d.(*ast.GenDecl); ok {
				for _, s := range gd.Specs {
					if ts, ok := s.(*ast.TypeSpec); ok && ts.Name.Name == name {
						if st, ok := ts.Type.(*ast.StructType); ok {
							for _, fl := range st.Fields.List {
								for _, n := range fl.Names {
									fields = append(fields, n.Name)
								}
							}
						}
					}
				}
			}
		}
	}
	if len(fields) == 0 {
		return "struct " + name + " not found"
	}
	isField := map[string]bool{}
	for _, f := range fields {
		isField[f] = true
	}
	problem := ""
	for _, f := range ds.files {
		for _, d := range f.Decls {
			fd, ok := d.(*ast.FuncDecl)
			if !ok || fd.Body == nil {
				continue
			}
			recv := ""
			if fd.Recv != nil && len(fd.Recv.List) == 1 && len(fd.Recv.List[0].Names) == 1 {
				recv = fd.Recv.List[0].Names[0].Name
			}
			ast.Inspect(fd.Body, func(n ast.Node) bool {
				switch x := n.(type) {
				case *ast.AssignStmt:
					for _, l := range x.Lhs {
						if se, ok := l.(*ast.SelectorExpr); ok && isField[se.Sel.Name] {
							// a field of the same name on another struct type would be flagged too: conservative
							if base := baseIdent(se.X); base != nil && base.Name != recv {
								problem = "field " + se.Sel.Name + " assigned after allocation (in " + fd.Name.Name + ")"
							} else if _, isOuter := se.X.(*ast.Ident); !isOuter {
								problem = "field " + se.Sel.Name + " assigned through a path (in " + fd.Name.Name + ")"
							}
						}
					}
				case *ast.IncDecStmt:
					if se, ok := x.X.(*ast.SelectorExpr); ok && isField[se.Sel.Name] {
						if base := baseIdent(se.X); base != nil && base.Name != recv {
							problem = "field " + se.Sel.Name + " modified after allocation (in " + fd.Name.Name + ")"
						}
					}
				case *ast.CompositeLit:
					if typeName(x.Type) == name && x.Type != nil && owner != "" {
						okOwner := false
						for _, el := range x.Elts {
							if kv, ok := el.(*ast.KeyValueExpr); ok {
								if k, ok := kv.Key.(*ast.Ident); ok && k.Name == owner {
									if v, ok := kv.Value.(*ast.Ident); ok && v.Name == recv && recv != "" {
										okOwner = true
									}
								}
							}
						}
						if !okOwner {
							problem = "a literal of " + name + " does not set " + owner + " to the receiver (in " + fd.Name.Name + ")"
						}
					}
				}
				return true
			})
		}
	}
	return problem
}

// goroutineDecl: the body of the one `go func(…){…}(…)` statement of method fn as a method of the
// same receiver with the literal's parameters. Checked: every pointer argument of the go statement
// is a field of the receiver (so the owner back-pointer of the argument is the receiver).
func goroutineDecl(files []*ast.File, fn string) (*ast.FuncDecl, string) {
	fd := findFunc(files, fn)
	if fd == nil || fd.Recv == nil {
		return nil, "method not found"
	}
	var gs *ast.GoStmt
	n := 0
	ast.Inspect(fd.Body, func(x ast.Node) bool {
		if g, ok := x.(*ast.GoStmt); ok {
			gs = g
			n++
		}
		return true
	})
	if n != 1 {
		return nil, "expected exactly one go statement, found " + strconv.Itoa(n)
	}
	fl, ok := gs.Call.Fun.(*ast.FuncLit)
	if !ok {
		return nil, "go statement without a function literal"
	}
	recv := fd.Recv.List[0].Names[0].Name
	for _, a := range gs.Call.Args {
		se, ok := a.(*ast.SelectorExpr)
		if !ok {
			return nil, "argument of the go statement is not a field of the receiver"
		}
		if id, ok := se.X.(*ast.Ident); !ok || id.Name != recv {
			return nil, "argument of the go statement is not a field of the receiver"
		}
	}
	return &ast.FuncDecl{Recv: fd.Recv, Name: ast.NewIdent(fd.Name.Name + "_go"), Type: &ast.FuncType{Func: fl.Pos(), Params: fl.Type.Params}, Body: fl.Body}, ""
}

// ---- expressions ------------------------------------------------------------------------------------

func isNilIdent(e ast.Expr) bool {
	id, ok := e.(*ast.Ident)
	return ok && id.Name == "nil"
}

// refField: type of field f of ref struct T ("" if none); owner = the field is the owner back-pointer
func (c *leafCtx) refField(T, f string) (string, bool) {
	if refStructs[c.dir+":"+T] == f && f != "" {
		return "", true
	}
	for _, fl := range c.structs[T] {
		if fl[0] == f {
			return fl[1], false
		}
	}
	return "", false
}

// expr8: expression forms of the eighth generation; ok = false: not one of them
func (c *leafCtx) expr8(e ast.Expr, want string) (string, string, bool) {
	switch x := e.(type) {
	case *ast.Ident:
		if x.Name == "nil" && strings.HasPrefix(want, "R_") {
			return "none", want, true
		}
	case *ast.BinaryExpr:
		if x.Op == token.EQL || x.Op == token.NEQ {
			l, r := x.X, x.Y
			if isNilIdent(l) {
				l, r = r, l
			}
			_, lt := c.peek(l)
			if strings.HasPrefix(lt, "R_") {
				a, _ := c.expr(l, lt)
				if isNilIdent(r) {
					if x.Op == token.EQL {
						return "(Option.isNone " + a + ")", "Bool", true
					}
					return "(Option.isSome " + a + ")", "Bool", true
				}
				b, rt := c.expr(r, lt)
				if rt != lt {
					c.fail("comparison of a %s pointer with a %s", lt, rt)
				}
				if x.Op == token.EQL {
					return "(Go.Ref.same " + a + " " + b + ")", "Bool", true
				}
				return "(!(Go.Ref.same " + a + " " + b + "))", "Bool", true
			}
		}
	case *ast.SelectorExpr:
		if id, ok := x.X.(*ast.Ident); ok && id.Name == "unix" {
			if _, isVar := c.vars["unix"]; !isVar {
				if v, ok := unixConsts[x.Sel.Name]; ok {
					if !isIntType(want) { // an untyped constant: the context decides (BinaryExpr asks again with the operand type)
						return "(" + v + " : Int64)", "", true
					}
					return "(" + v + " : " + want + ")", want, true
				}
				c.fail("unknown constant unix.%s", x.Sel.Name)
				return "0", want, true
			}
		}
		if _, xt := c.peek(x.X); strings.HasPrefix(xt, "R_") {
			T := strings.TrimPrefix(xt, "R_")
			ft, owner := c.refField(T, x.Sel.Name)
			if ft == "" && !owner {
				c.fail("field %s of %s is outside the subset", x.Sel.Name, T)
				return "0", want, true
			}
			p, _ := c.expr(x.X, xt)
			v := c.fresh("_p")
			c.binds = append(c.binds, c.bindLine("(Go.Ref.deref? "+p+")", v, "opt:nil dereference"))
			if owner { // the back-pointer to the owner: the receiver (checkRefStruct, goroutineDecl)
				if c.recvName == "" {
					c.fail("owner back-pointer outside a method")
					return "0", want, true
				}
				return c.lname(c.recvName), c.vars[c.recvName], true
			}
			return v + "." + lf(x.Sel.Name), ft, true
		}
	case *ast.UnaryExpr:
		if cl, ok := x.X.(*ast.CompositeLit); ok && x.Op == token.AND {
			T := typeName(cl.Type)
			if _, isRef := refStructs[c.dir+":"+T]; isRef && c.hasThread("w") {
				var parts []string
				seen := map[string]bool{}
				for _, el := range cl.Elts {
					kv, ok := el.(*ast.KeyValueExpr)
					if !ok {
						c.fail("unkeyed literal of %s", T)
						return "0", want, true
					}
					k, _ := kv.Key.(*ast.Ident)
					if k == nil {
						c.fail("unsupported literal of %s", T)
						return "0", want, true
					}
					ft, owner := c.refField(T, k.Name)
					if owner {
						continue // checked by checkRefStruct: it is the receiver
					}
					if ft == "" {
						c.fail("field %s of %s is outside the subset", k.Name, T)
						return "0", want, true
					}
					v, vt := c.expr(kv.Value, ft)
					if vt != "" && vt != ft {
						c.fail("field %s: %s value for %s", k.Name, vt, ft)
					}
					parts = append(parts, lf(k.Name)+" := "+v)
					seen[k.Name] = true
				}
				for _, f := range c.structs[T] {
					if !seen[f[0]] {
						z := c.zero(f[1])
						if z == "" {
							c.fail("field %s of %s has no zero value", f[0], T)
						}
						parts = append(parts, lf(f[0])+" := "+z)
					}
				}
				c.useStruct(T)
				v := c.fresh("_r")
				c.binds = append(c.binds, "let (w, "+v+") := Go.World.alloc w ({ "+strings.Join(parts, ", ")+" } : S_"+T+")")
				return v, "R_" + T, true
			}
		}
	case *ast.CompositeLit:
		if at, ok := x.Type.(*ast.ArrayType); ok && at.Len == nil { // []byte{0x00, …}
			if id, ok := at.Elt.(*ast.Ident); ok && (id.Name == "byte" || id.Name == "uint8") {
				var es []string
				for _, el := range x.Elts {
					if _, keyed := el.(*ast.KeyValueExpr); keyed {
						c.fail("keyed byte-slice literal")
						return "0", want, true
					}
					e, _ := c.expr(el, "UInt8")
					es = append(es, e)
				}
				return "([" + strings.Join(es, ", ") + "] : List UInt8)", "L_UInt8", true
			}
		}
		if se, ok := x.Type.(*ast.SelectorExpr); ok {
			if pk, ok := se.X.(*ast.Ident); ok {
				if fs, ok := foreignStructs[pk.Name+"."+se.Sel.Name]; ok {
					var parts []string
					for _, el := range x.Elts {
						kv, ok := el.(*ast.KeyValueExpr)
						k, _ := kv.Key.(*ast.Ident)
						if !ok || k == nil {
							c.fail("unsupported literal of %s", fs.lean)
							return "0", want, true
						}
						ft, ok := fs.fields[k.Name]
						if !ok {
							c.fail("field %s of %s is outside the subset", k.Name, fs.lean)
							return "0", want, true
						}
						v, vt := c.expr(kv.Value, ft)
						if vt != "" && vt != ft {
							c.fail("field %s of %s: %s value for %s", k.Name, fs.lean, vt, ft)
						}
						parts = append(parts, k.Name+" := "+v)
					}
					return "({ " + strings.Join(parts, ", ") + " } : " + fs.lean + ")", "F:" + fs.lean, true
				}
			}
		}
	case *ast.BasicLit:
		if x.Kind == token.STRING && (want == "" || want == "Str") {
			if v, err := strconv.Unquote(x.Value); err == nil {
				return leanString(v), "Str", true
			}
		}
	case *ast.SliceExpr: // b[lo:hi] as a value, on a byte-slice parameter the function does not write
		if x.Low != nil && x.High != nil && x.Max == nil {
			if id, ok := x.X.(*ast.Ident); ok && c.vars[id.Name] == "L_UInt8" && !c.madeHere[id.Name] {
				for _, o := range c.outs {
					if o == id.Name {
						c.fail("sub-slice of a buffer the function writes")
						return "0", want, true
					}
				}
				lo, _ := c.expr(x.Low, "Int64")
				hi, _ := c.expr(x.High, "Int64")
				v := c.fresh("_s")
				c.binds = append(c.binds, c.bindLine("(Go.subslice? "+c.lname(id.Name)+" "+lo+" "+hi+")", v, "opt:slice"))
				c.needPrelude3 = true
				return v, "L_UInt8", true
			}
		}
	case *ast.CallExpr:
		if f, ok := x.Fun.(*ast.SelectorExpr); ok { // a method of an opaque parameter: a function-typed external applied to the arguments
			if id, ok := f.X.(*ast.Ident); ok {
				if ot, ok := c.opaque[id.Name]; ok {
					m, ok := opaqueMethods[ot+"."+f.Sel.Name]
					if !ok || len(m.args) != len(x.Args) {
						c.fail("unsupported method %s of %s", f.Sel.Name, ot)
						return "0", want, true
					}
					var as, ts []string
					for i, a := range x.Args {
						e, t := c.expr(a, m.args[i])
						if t != "" && t != m.args[i] {
							c.fail("argument %d of %s.%s: %s for %s", i, ot, f.Sel.Name, t, m.args[i])
						}
						as = append(as, e)
						ts = append(ts, leanTypeName(m.args[i]))
					}
					name := "ext_" + id.Name + "_" + f.Sel.Name
					c.addExtern(name, strings.Join(ts, " → ")+" → "+tupleTypeName(m.ret))
					return "(" + name + " " + strings.Join(as, " ") + ")", m.ret, true
				}
			}
		}
		if f, ok := x.Fun.(*ast.SelectorExpr); ok && f.Sel.Name == "Uint16" && len(x.Args) == 1 { // binary.BigEndian.Uint16(b[off:])
			if inner, ok := f.X.(*ast.SelectorExpr); ok && inner.Sel.Name == "BigEndian" {
				if pk, ok := inner.X.(*ast.Ident); ok && pk.Name == "binary" {
					se, isSl := x.Args[0].(*ast.SliceExpr)
					if isSl && se.High == nil && se.Max == nil && se.Low != nil {
						if id, ok := se.X.(*ast.Ident); ok && c.vars[id.Name] == "L_UInt8" {
							off, _ := c.expr(se.Low, "Int64")
							v := c.fresh("_u")
							c.binds = append(c.binds, c.bindLine("(Go.beU16At? "+c.lname(id.Name)+" "+off+")", v, "opt:slice"))
							c.needPrelude3 = true
							return v, "UInt16", true
						}
					}
					c.fail("binary.BigEndian.Uint16 on something other than b[off:] of a byte slice")
					return "0", want, true
				}
			}
		}
		if f, ok := x.Fun.(*ast.SelectorExpr); ok && strings.HasPrefix(want, "T:") { // a leaf of the first generations returning a foreign struct (a tuple in field order)
			if id, ok := f.X.(*ast.Ident); ok && !c.isValue(f.X) {
				if gl, ok := globalLeaf[id.Name+"."+f.Sel.Name]; ok && gl[1] == "" {
					var args []string
					for _, a := range x.Args {
						s, _ := c.expr(a, "")
						args = append(args, s)
					}
					return "(" + gl[0] + " " + strings.Join(args, " ") + ")", want, true
				}
			}
		}
		if f, ok := x.Fun.(*ast.SelectorExpr); ok && len(x.Args) == 0 && f.Sel.Name == "Nanoseconds" && c.isValue(f.X) {
			if _, t := c.peek(f.X); t == "Int64" { // time.Duration.Nanoseconds(): the int64 itself
				r, _ := c.expr(f.X, "Int64")
				return r, "Int64", true
			}
		}
	}
	return "", "", false
}

// ---- statements ---------------------------------------------------------------------------------------

func (c *leafCtx) actLine(a string) string {
	return "let w : Go.World := Go.World.act w (" + a + ")"
}

// stmt8: statement forms of the eighth generation; ok = false: not one of them
func (c *leafCtx) stmt8(s ast.Stmt, next func(string) string, ind string) (string, bool) {
	nl := "\n" + ind
	switch st := s.(type) {
	case *ast.ExprStmt:
		if msg, ok := isFatal(st); ok {
			return c.jump(c.panicVal(msg)), true
		}
		ce, ok := st.X.(*ast.CallExpr)
		if !ok {
			return "", false
		}
		if r, ok := c.copyTail8(ce, nil, next, ind); ok {
			return r, true
		}
		if f, ok := ce.Fun.(*ast.SelectorExpr); ok { // log.LogAttrs(…) on a logger parameter
			if id, ok := f.X.(*ast.Ident); ok && c.logVars[id.Name] && strings.HasPrefix(f.Sel.Name, "Log") {
				return next(ind), true
			}
		}
		if id, ok := ce.Fun.(*ast.Ident); ok {
			if ctor, ok := actionFuncs[c.dir+":"+id.Name]; ok {
				if _, isVar := c.vars[id.Name]; !isVar && c.hasThread("w") {
					var as []string
					for _, a := range c.dataArgs(ce.Args) {
						e, t := c.expr(a, "Int64")
						if t != "Int64" && t != "" {
							c.fail("argument of %s of type %s", id.Name, t)
						}
						as = append(as, e)
					}
					return c.takeBinds(ind) + c.actLine(ctor+" "+strings.Join(as, " ")) + nl + next(ind), true
				}
			}
		}
	case *ast.ForStmt:
		if st.Init == nil && st.Post == nil && st.Cond != nil { // for cond { body } = for { if !cond { break }; body }
			guard := &ast.IfStmt{If: st.For, Cond: &ast.UnaryExpr{OpPos: st.For, Op: token.NOT, X: &ast.ParenExpr{X: st.Cond}},
				Body: &ast.BlockStmt{List: []ast.Stmt{&ast.BranchStmt{TokPos: st.For, Tok: token.BREAK}}}}
			loop := &ast.ForStmt{For: st.For, Body: &ast.BlockStmt{Lbrace: st.Body.Lbrace, List: append([]ast.Stmt{guard}, st.Body.List...), Rbrace: st.Body.Rbrace}}
			return c.for7(loop, next, ind), true
		}
	case *ast.GoStmt:
		if !c.hasThread("w") {
			c.fail("go statement in a function without the world thread")
			return "0", true
		}
		if _, ok := st.Call.Fun.(*ast.FuncLit); !ok {
			c.fail("go statement without a function literal")
			return "0", true
		}
		var ids []string
		for _, a := range c.dataArgs(st.Call.Args) {
			e, t := c.expr(a, "")
			if !strings.HasPrefix(t, "R_") {
				c.fail("argument of a go statement that is neither a logger nor a pointer of the subset")
				return "0", true
			}
			ids = append(ids, "Go.Ref.id? "+e)
		}
		return c.takeBinds(ind) + c.actLine("Go.SysAction.spawn "+leanString(c.leanSelf+"_go")+" ["+strings.Join(ids, ", ")+"]") + nl + next(ind), true
	case *ast.AssignStmt:
		if len(st.Lhs) == 1 && len(st.Rhs) == 1 && st.Tok == token.DEFINE {
			if ce, ok := st.Rhs[0].(*ast.CallExpr); ok {
				if id, ok := st.Lhs[0].(*ast.Ident); ok {
					if r, ok := c.copyTail8(ce, id, next, ind); ok {
						return r, true
					}
				}
			}
		}
		if len(st.Lhs) == 2 && len(st.Rhs) == 1 && st.Tok == token.ASSIGN { // x.f, err = call(…): a tuple result, a field path on the left
			if ce, ok := st.Rhs[0].(*ast.CallExpr); ok {
				if _, isPath := st.Lhs[0].(*ast.SelectorExpr); isPath {
					l1, _ := st.Lhs[1].(*ast.Ident)
					e, t := c.expr(ce, "")
					parts := strings.Split(strings.TrimPrefix(t, "T:"), ",")
					if l1 != nil && strings.HasPrefix(t, "T:") && len(parts) == 2 && c.vars[l1.Name] == parts[1] {
						_, ft := c.expr(st.Lhs[0], "")
						if ft != parts[0] {
							c.fail("assignment of a %s to a field of type %s", parts[0], ft)
							return "0", true
						}
						pre := c.takeBinds(ind)
						a, b := c.fresh("_t"), c.fresh("_t")
						name, val, ok := c.assignPath(st.Lhs[0], a)
						if !ok {
							c.fail("unsupported assignment target")
							return "0", true
						}
						base := baseIdent(st.Lhs[0])
						return pre + "let (" + a + ", " + b + ") := " + e + nl + c.letLine(name, c.vars[base.Name], val) + nl +
							c.letLine(c.lname(l1.Name), parts[1], b) + nl + next(ind), true
					}
				}
			}
		}
		if len(st.Lhs) == 2 && len(st.Rhs) == 1 && st.Tok == token.DEFINE {
			ce, ok := st.Rhs[0].(*ast.CallExpr)
			if ok && isPkgCall(ce, "unix", "ClockAdjtime") && len(ce.Args) == 2 && c.hasThread("w") {
				l0, _ := st.Lhs[0].(*ast.Ident)
				l1, _ := st.Lhs[1].(*ast.Ident)
				u, isAddr := ce.Args[1].(*ast.UnaryExpr)
				if l0 == nil || l0.Name != "_" || l1 == nil || !isAddr || u.Op != token.AND {
					c.fail("unsupported shape of the ClockAdjtime call")
					return "0", true
				}
				clk, _ := c.expr(ce.Args[0], "Int32")
				tx, tt := c.expr(u.X, "")
				if tt != "F:Go.Timex" {
					c.fail("ClockAdjtime on something other than a unix.Timex variable")
					return "0", true
				}
				pre := c.takeBinds(ind)
				site := c.siteName(ce.Pos(), "ext_ClockAdjtime_err")
				c.addExtern(site, "Bool")
				errName := c.declare(l1.Name, "Bool")
				return pre + c.actLine("Go.SysAction.clockAdjtime "+clk+" "+tx) + nl + "let " + errName + " : Bool := " + site + nl + next(ind), true
			}
		}
	}
	return "", false
}

// copyTail8: `copy(dst, src[off:])` / `n := copy(dst, src[off:])` where dst is a buffer made in this
// function (whole, from offset 0) and src a byte-slice parameter the function does not write:
// `Go.copyTail? dst src off` = (new dst, number of bytes copied); none = the slice-bounds panic of
// `src[off:]` (off < 0 or off > len(src)).
func (c *leafCtx) copyTail8(ce *ast.CallExpr, nVar *ast.Ident, next func(string) string, ind string) (string, bool) {
	if ce == nil {
		return "", false
	}
	id, ok := ce.Fun.(*ast.Ident)
	if !ok || id.Name != "copy" || len(ce.Args) != 2 {
		return "", false
	}
	dst, ok1 := ce.Args[0].(*ast.Ident)
	se, ok2 := ce.Args[1].(*ast.SliceExpr)
	if !ok1 || !ok2 || se.High != nil || se.Max != nil || se.Low == nil {
		return "", false
	}
	src, ok3 := se.X.(*ast.Ident)
	if !ok3 || !c.madeHere[dst.Name] || c.vars[dst.Name] != "L_UInt8" || c.vars[src.Name] != "L_UInt8" || c.madeHere[src.Name] {
		return "", false
	}
	for _, o := range c.outs {
		if o == src.Name {
			return "", false
		}
	}
	off, _ := c.expr(se.Low, "Int64")
	tmp, cnt := c.fresh("_s"), c.fresh("_n")
	c.binds = append(c.binds, c.bindLine("(Go.copyTail? "+c.lname(dst.Name)+" "+c.lname(src.Name)+" "+off+")", "("+tmp+", "+cnt+")", "opt:slice"))
	c.needPrelude3 = true
	pre := c.takeBinds(ind)
	nl := "\n" + ind
	out := pre + c.letLine(c.lname(dst.Name), "L_UInt8", tmp) + nl
	if nVar != nil && nVar.Name != "_" {
		out += c.letLine(c.declare(nVar.Name, "Int64"), "Int64", cnt) + nl
	}
	return out + next(ind), true
}
