package main

import (
	"fmt"
	"go/ast"
	"go/constant"
	"go/token"
	"go/types"
	"strings"
)

// C13 (DRKey fetch chain): structural facts about net/scion/daemon.go, drkey.go, fetcher.go and
// the two call sites, emitted as definitions and pinned by Props/C13Keys.lean. The SCION daemon
// cannot be run in the sandbox, so what NewDaemonConnector hands to the Fetcher is pinned here:
//
//	daemonConnectorReturns      the return expressions of NewDaemonConnector in source order
//	daemonConnectorSource       how the returned variable is defined (the daemon's own Connect)
//	connectorImpls              types of package net/scion with a DRKeyGetHostASKey method
//	                            (connector wrappers); the model has none
//	fetchHostASKeyBody          statements of scion.FetchHostASKey (nil check, then the daemon call
//	                            with the caller's meta)
//	fetcherLookupKey / fetcherStoreKey / fetcherRefetchCond / fetcherExpiredDef   the cache index on lookup and on
//	                            store, and the complete refetch condition of Fetcher.FetchHostASKey
//	fetcherHostHostUsesCache    whether Fetcher.FetchHostHostKey touches f.haks
//	fetcherMockOffsetsNs        the time offsets of the mock keys' epochs
//
// and in Gen/Server, Gen/Client: the fields of the meta literals at the call sites and the host
// handed to DeriveHostHostKey.
func init() {
	registerLocals("net/scion", func(files []*ast.File, fset *token.FileSet) []string {
		var src []*ast.File
		for _, f := range files {
			if !strings.HasPrefix(baseName(fset, f), "verif_") {
				src = append(src, f)
			}
		}
		var out []string
		// --- NewDaemonConnector
		rets, source := []string{"?"}, "?"
		if fd := findFunc(src, "NewDaemonConnector"); fd != nil && fd.Body != nil {
			rets = nil
			var last ast.Expr
			ast.Inspect(fd.Body, func(n ast.Node) bool {
				if _, ok := n.(*ast.FuncLit); ok {
					return false
				}
				if r, ok := n.(*ast.ReturnStmt); ok {
					if len(r.Results) == 1 {
						rets = append(rets, types.ExprString(r.Results[0]))
						last = r.Results[0]
					} else {
						rets = append(rets, "?")
					}
				}
				return true
			})
			if id, ok := last.(*ast.Ident); ok {
				n := 0
				ast.Inspect(fd.Body, func(x ast.Node) bool {
					if as, ok := x.(*ast.AssignStmt); ok {
						for _, l := range as.Lhs {
							if li, ok := l.(*ast.Ident); ok && li.Name == id.Name {
								n++
								if len(as.Rhs) == 1 {
									source = types.ExprString(as.Rhs[0])
								}
							}
						}
					}
					return true
				})
				if n != 1 {
					source = "?"
				}
			}
		}
		out = append(out, "def daemonConnectorReturns : List String := ["+joinLean(rets)+"]",
			"def daemonConnectorSource : String := "+leanString(source))
		// --- connector implementations declared in the package
		var impls []string
		for _, f := range src {
			for _, d := range f.Decls {
				if fd, ok := d.(*ast.FuncDecl); ok && fd.Recv != nil && strings.HasPrefix(fd.Name.Name, "DRKeyGet") {
					impls = append(impls, types.ExprString(fd.Recv.List[0].Type)+"."+fd.Name.Name)
				}
			}
		}
		out = append(out, "def connectorImpls : List String := ["+joinLean(impls)+"]")
		// --- scion.FetchHostASKey
		body := "?"
		if fd := findFunc(src, "FetchHostASKey"); fd != nil && fd.Body != nil {
			var parts []string
			for _, st := range fd.Body.List {
				switch s := st.(type) {
				case *ast.IfStmt:
					parts = append(parts, "if "+types.ExprString(s.Cond))
				case *ast.ReturnStmt:
					var rs []string
					for _, r := range s.Results {
						rs = append(rs, types.ExprString(r))
					}
					parts = append(parts, "return "+strings.Join(rs, ", "))
				default:
					parts = append(parts, "?")
				}
			}
			body = strings.Join(parts, "; ")
		}
		out = append(out, "def fetchHostASKeyBody : String := "+leanString(body))
		// --- Fetcher.FetchHostASKey
		lookup, store, cond, expired := "?", "?", "?", "?"
		var offs []string
		if fd := findFunc(src, "Fetcher.FetchHostASKey"); fd != nil && fd.Body != nil {
			nLookup, nStore, nIf := 0, 0, 0
			for _, st := range fd.Body.List {
				if ifs, ok := st.(*ast.IfStmt); ok {
					nIf++
					cond = types.ExprString(ifs.Cond)
				}
			}
			if nIf != 1 {
				cond = "?"
			}
			ast.Inspect(fd.Body, func(n ast.Node) bool {
				as, ok := n.(*ast.AssignStmt)
				if !ok {
					return true
				}
				if len(as.Lhs) == 1 && len(as.Rhs) == 1 && types.ExprString(as.Lhs[0]) == "expired" {
					if expired == "?" {
						expired = types.ExprString(as.Rhs[0])
					} else {
						expired = "??"
					}
				}
				for _, l := range as.Lhs {
					if ix, ok := l.(*ast.IndexExpr); ok && types.ExprString(ix.X) == "f.haks" {
						nStore++
						store = types.ExprString(ix.Index)
					}
				}
				for _, r := range as.Rhs {
					if ix, ok := r.(*ast.IndexExpr); ok && types.ExprString(ix.X) == "f.haks" {
						nLookup++
						lookup = types.ExprString(ix.Index)
					}
				}
				return true
			})
			if nLookup != 1 {
				lookup = "?"
			}
			if nStore != 1 {
				store = "?"
			}
		}
		usesCache := false
		ev := &evaluator{decls: map[string]ast.Expr{}, iotas: map[string]int{}, memo: map[string]constant.Value{}, busy: map[string]bool{}}
		for _, name := range []string{"Fetcher.FetchHostASKey", "Fetcher.FetchHostHostKey"} {
			fd := findFunc(src, name)
			if fd == nil || fd.Body == nil {
				offs = append(offs, "0")
				continue
			}
			ast.Inspect(fd.Body, func(n ast.Node) bool {
				if sel, ok := n.(*ast.SelectorExpr); ok && name == "Fetcher.FetchHostHostKey" && types.ExprString(sel) == "f.haks" {
					usesCache = true
				}
				if c, ok := n.(*ast.CallExpr); ok && types.ExprString(c.Fun) == "now.Add" && len(c.Args) == 1 {
					v := ev.eval(c.Args[0], 0)
					if v.Kind() == constant.Float {
						v = constant.ToInt(v)
					}
					if v.Kind() == constant.Int {
						offs = append(offs, v.ExactString())
					} else {
						offs = append(offs, "0")
					}
				}
				return true
			})
		}
		out = append(out,
			"def fetcherLookupKey : String := "+leanString(lookup),
			"def fetcherStoreKey : String := "+leanString(store),
			"def fetcherRefetchCond : String := "+leanString(cond),
			"def fetcherExpiredDef : String := "+leanString(expired),
			fmt.Sprintf("def fetcherHostHostUsesCache : Bool := %v", usesCache),
			"def fetcherMockOffsetsNs : List Int := ["+strings.Join(offs, ", ")+"]")
		return out
	})
	registerLocals("core/server", func(files []*ast.File, fset *token.FileSet) []string {
		meta, derive := "?", "?"
		if fd := findFunc(files, "runSCIONServer"); fd != nil && fd.Body != nil {
			nMeta, nDerive := 0, 0
			ast.Inspect(fd.Body, func(n ast.Node) bool {
				switch v := n.(type) {
				case *ast.CompositeLit:
					if types.ExprString(v.Type) == "drkey.HostASMeta" {
						nMeta++
						meta = litFields(v)
					}
				case *ast.CallExpr:
					if types.ExprString(v.Fun) == "scion.DeriveHostHostKey" && len(v.Args) == 2 {
						nDerive++
						derive = types.ExprString(v.Args[0]) + ", " + types.ExprString(v.Args[1])
					}
				}
				return true
			})
			if nMeta != 1 {
				meta = "?"
			}
			if nDerive != 1 {
				derive = "?"
			}
		}
		return []string{
			"def scionServerHostASMeta : String := " + leanString(meta),
			"def scionServerDeriveArgs : String := " + leanString(derive),
		}
	})
	registerLocals("core/client", func(files []*ast.File, fset *token.FileSet) []string {
		meta := "?"
		n := 0
		for _, f := range files {
			if strings.HasPrefix(baseName(fset, f), "verif_") {
				continue
			}
			ast.Inspect(f, func(x ast.Node) bool {
				if v, ok := x.(*ast.CompositeLit); ok && types.ExprString(v.Type) == "drkey.HostHostMeta" {
					n++
					meta = litFields(v)
				}
				return true
			})
		}
		if n != 1 {
			meta = "?"
		}
		return []string{"def scionClientHostHostMeta : String := " + leanString(meta)}
	})
}

func litFields(v *ast.CompositeLit) string {
	var fs []string
	for _, e := range v.Elts {
		if kvx, ok := e.(*ast.KeyValueExpr); ok {
			fs = append(fs, types.ExprString(kvx.Key)+":"+types.ExprString(kvx.Value))
		} else {
			fs = append(fs, "?")
		}
	}
	return strings.Join(fs, ";")
}

func joinLean(xs []string) string {
	qs := make([]string, len(xs))
	for i, x := range xs {
		qs[i] = leanString(x)
	}
	return strings.Join(qs, ", ")
}
