package main

// Lock discipline of net/scion.Pather (pather.go): every read or write of the guarded fields
// `paths` and `localIA` through a *Pather variable happens while that Pather's `mu` is held.
//
// For every function of the package (hooks behind the build tag included) the statements are
// walked in source order; `x.mu.Lock()` sets "held", `x.mu.Unlock()` clears it, `defer
// x.mu.Unlock()` keeps it held to the end of the function. Every selector `x.paths` / `x.localIA`
// (x of any name; the struct fields are unique to Pather in this package) is recorded as
// `<func>:<field>@<held|FREE>`; a composite literal `Pather{…}` that sets a guarded field is
// recorded as `<func>:<field>@new` (the value is not shared yet). Function literals are walked
// as part of the function they occur in and start FREE (a goroutine does not inherit the lock).
// The fact is exported as Gen.Scion.Pather_lock_discipline and pinned by
// Props/C15Upd.C15Upd_pin_lock_discipline.

import (
	"fmt"
	"go/ast"
	"go/token"
	"sort"
	"strings"
)

func init() {
	registerLocals("net/scion", func(files []*ast.File, fset *token.FileSet) []string {
		guarded := map[string]bool{"paths": true, "localIA": true}
		var recs []string
		isMuCall := func(e ast.Expr, name string) bool {
			c, ok := e.(*ast.CallExpr)
			if !ok {
				return false
			}
			s, ok := c.Fun.(*ast.SelectorExpr)
			if !ok || s.Sel.Name != name {
				return false
			}
			m, ok := s.X.(*ast.SelectorExpr)
			return ok && m.Sel.Name == "mu"
		}
		for _, f := range files {
			// only files that declare or use the Pather type
			for _, d := range f.Decls {
				fd, ok := d.(*ast.FuncDecl)
				if !ok || fd.Body == nil {
					continue
				}
				name := fd.Name.Name
				if fd.Recv != nil && len(fd.Recv.List) == 1 {
					t := fd.Recv.List[0].Type
					if st, ok := t.(*ast.StarExpr); ok {
						t = st.X
					}
					if id, ok := t.(*ast.Ident); ok {
						name = id.Name + "." + name
					}
				}
				usesPather := false
				ast.Inspect(fd, func(n ast.Node) bool {
					if id, ok := n.(*ast.Ident); ok && id.Name == "Pather" {
						usesPather = true
					}
					return true
				})
				if !usesPather {
					continue
				}
				var walk func(n ast.Node, held *bool)
				record := func(field string, held bool) {
					st := "FREE"
					if held {
						st = "held"
					}
					recs = append(recs, fmt.Sprintf("%s:%s@%s", name, field, st))
				}
				walk = func(n ast.Node, held *bool) {
					ast.Inspect(n, func(x ast.Node) bool {
						switch v := x.(type) {
						case *ast.FuncLit:
							h := false
							walk(v.Body, &h)
							return false
						case *ast.DeferStmt:
							if isMuCall(v.Call, "Unlock") {
								return false // held until the function returns
							}
						case *ast.ExprStmt:
							if isMuCall(v.X, "Lock") {
								*held = true
								return false
							}
							if isMuCall(v.X, "Unlock") {
								*held = false
								return false
							}
						case *ast.CompositeLit:
							isP := false
							if id, ok := v.Type.(*ast.Ident); ok && id.Name == "Pather" {
								isP = true
							}
							if isP {
								for _, el := range v.Elts {
									if kv, ok := el.(*ast.KeyValueExpr); ok {
										if id, ok := kv.Key.(*ast.Ident); ok && guarded[id.Name] {
											recs = append(recs, fmt.Sprintf("%s:%s@new", name, id.Name))
										}
										walk(kv.Value, held)
									}
								}
								return false
							}
						case *ast.SelectorExpr:
							if guarded[v.Sel.Name] {
								if _, ok := v.X.(*ast.Ident); ok {
									record(v.Sel.Name, *held)
								}
							}
						}
						return true
					})
				}
				h := false
				walk(fd.Body, &h)
			}
		}
		sort.Strings(recs)
		// collapse repeats
		var out []string
		for i, r := range recs {
			if i == 0 || recs[i-1] != r {
				out = append(out, r)
			}
		}
		if len(out) == 0 {
			broken("net/scion: no access to Pather.paths / Pather.localIA found (pather.go reshaped?)")
		}
		return []string{fmt.Sprintf("def Pather_lock_discipline : String := %s", leanString(strings.Join(out, " ")))}
	})
}
