package main

import (
	"bytes"
	"fmt"
	"go/ast"
	"go/printer"
	"go/token"
	"strings"
)

// C13, byte windows of the SCION listener (Model/ClientFlow.lean srvWindows, Props/C13Win.lean):
// which byte strings runSCIONServer hands to ntp.DecodePacket, nts.DecodePacket, nts.ProcessRequest,
// and as Pld into spao.ComputeAuthCMAC (first: the SCMP branch has none; request MAC, then reply MAC),
// in source order.
func init() {
	registerLocals("core/server", func(files []*ast.File, fset *token.FileSet) []string {
		fd := findFunc(files, "runSCIONServer")
		if fd == nil || fd.Body == nil {
			broken("core/server: function runSCIONServer not found (payload windows)")
			return nil
		}
		show := func(n ast.Node) string {
			var b bytes.Buffer
			printer.Fprint(&b, fset, n)
			return strings.Join(strings.Fields(b.String()), " ")
		}
		var parts []string
		ast.Inspect(fd.Body, func(m ast.Node) bool {
			switch x := m.(type) {
			case *ast.CallExpr:
				if se, ok := x.Fun.(*ast.SelectorExpr); ok {
					if id, ok := se.X.(*ast.Ident); ok {
						switch {
						case id.Name == "ntp" && se.Sel.Name == "DecodePacket" && len(x.Args) == 2:
							parts = append(parts, "ntp="+show(x.Args[1]))
						case id.Name == "nts" && se.Sel.Name == "DecodePacket" && len(x.Args) == 2:
							parts = append(parts, "nts.decode="+show(x.Args[1]))
						case id.Name == "nts" && se.Sel.Name == "ProcessRequest" && len(x.Args) >= 1:
							parts = append(parts, "nts.process="+show(x.Args[0]))
						}
					}
				}
			case *ast.KeyValueExpr:
				if id, ok := x.Key.(*ast.Ident); ok && id.Name == "Pld" {
					parts = append(parts, "spao="+show(x.Value))
				}
			}
			return true
		})
		return []string{fmt.Sprintf("def scionSrvPayloadWindows : String := %s", leanString(strings.Join(parts, " | ")))}
	})
}
