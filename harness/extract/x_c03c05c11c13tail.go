package main

import (
	"bytes"
	"fmt"
	"go/ast"
	"go/parser"
	"go/printer"
	"go/token"
	"path/filepath"
	"strings"
)

// Facts behind Model/ClientTail.lean (pinned in Props/C05Tail.lean), package core/client:
//
//	clientTailOrder{IP,SCION}       source order of the three statements behind ValidateResponseTimestamps:
//	                                the prev update (`c.prev.reference = reference`), `c.Filter.Do(…)`,
//	                                `c.Histogram.RecordValue(…)` — "prev,filter,histogram" in the code
//	clientHistogramArg{IP,SCION}    the argument of RecordValue ("rtd.Microseconds()")
//	clientNtsBeforeOrigin{IP,SCION} nts.ProcessResponse (StoreCookie) is called before the origin check
//	                                (`ntpresp.OriginTime != ntpreq.TransmitTime`)
//	clientRecyclePathsCalls         number of RecyclePaths calls in core/client: with none, a received
//	                                SCION header decodes under strict path decoding (unregistered path
//	                                type = decode error), so spao.ComputeAuthCMAC cannot fail on a decoded
//	                                packet — the listener's F4e was exactly such a call
//	clientScionHeaderSets           the assignments / Set* calls that build the outgoing SCION/UDP header,
//	                                in source order
//
// and about benchmark/client_ip.go, client_scion.go: the histogram both tools configure is
// hdrhistogram.New(1, 50000, 5) (ClientTail.benchmarkHist: limit 262144 µs, measured on the real
// library by harness c03).
func init() {
	registerLocals("core/client", func(files []*ast.File, fset *token.FileSet) []string {
		show := func(n ast.Node) string {
			var b bytes.Buffer
			printer.Fprint(&b, fset, n)
			return strings.Join(strings.Fields(b.String()), " ")
		}
		var out []string
		for _, w := range []struct{ fn, tag string }{
			{"IPClient.measureClockOffsetIP", "IP"},
			{"SCIONClient.measureClockOffsetSCION", "SCION"},
		} {
			fd := findFunc(files, w.fn)
			if fd == nil || fd.Body == nil {
				broken("function %s not found (tail order)", w.fn)
				continue
			}
			type ev struct {
				pos  token.Pos
				name string
			}
			var evs []ev
			histArg := ""
			var process, origin token.Pos
			ast.Inspect(fd.Body, func(m ast.Node) bool {
				switch x := m.(type) {
				case *ast.AssignStmt:
					if len(x.Lhs) == 1 && show(x.Lhs[0]) == "c.prev.reference" {
						evs = append(evs, ev{x.Pos(), "prev"})
					}
				case *ast.CallExpr:
					switch show(x.Fun) {
					case "c.Filter.Do":
						evs = append(evs, ev{x.Pos(), "filter"})
					case "c.Histogram.RecordValue":
						evs = append(evs, ev{x.Pos(), "histogram"})
						if len(x.Args) == 1 {
							histArg = show(x.Args[0])
						}
					case "nts.ProcessResponse":
						process = x.Pos()
					}
				case *ast.BinaryExpr:
					if show(x) == "ntpresp.OriginTime != ntpreq.TransmitTime" {
						origin = x.Pos()
					}
				}
				return true
			})
			for i := 1; i < len(evs); i++ {
				for j := i; j > 0 && evs[j].pos < evs[j-1].pos; j-- {
					evs[j], evs[j-1] = evs[j-1], evs[j]
				}
			}
			var names []string
			for _, e := range evs {
				names = append(names, e.name)
			}
			out = append(out, fmt.Sprintf("def clientTailOrder%s : String := %s", w.tag, leanString(strings.Join(names, ","))))
			out = append(out, fmt.Sprintf("def clientHistogramArg%s : String := %s", w.tag, leanString(histArg)))
			if process == token.NoPos || origin == token.NoPos {
				broken("%s: nts.ProcessResponse call or the origin comparison not found", w.fn)
				continue
			}
			b := "false"
			if process < origin {
				b = "true"
			}
			out = append(out, fmt.Sprintf("def clientNtsBeforeOrigin%s : Bool := %s", w.tag, b))
		}
		n := 0
		for _, f := range files {
			ast.Inspect(f, func(m ast.Node) bool {
				if ce, ok := m.(*ast.CallExpr); ok {
					if se, ok := ce.Fun.(*ast.SelectorExpr); ok && se.Sel.Name == "RecyclePaths" {
						n++
					}
				}
				return true
			})
		}
		out = append(out, fmt.Sprintf("def clientRecyclePathsCalls : Int := %d", n))
		if fd := findFunc(files, "SCIONClient.measureClockOffsetSCION"); fd != nil && fd.Body != nil {
			var sets []string
			ast.Inspect(fd.Body, func(m ast.Node) bool {
				switch x := m.(type) {
				case *ast.AssignStmt:
					if len(x.Lhs) == 1 && len(x.Rhs) == 1 {
						l := show(x.Lhs[0])
						r := show(x.Rhs[0])
						if (strings.HasPrefix(l, "scionLayer.") || strings.HasPrefix(l, "udpLayer.")) && x.Tok == token.ASSIGN {
							sets = append(sets, l+"="+r)
						} else if strings.HasPrefix(r, "scionLayer.Set") || strings.Contains(r, ".SetPath(") {
							sets = append(sets, r)
						}
					}
				}
				return true
			})
			out = append(out, fmt.Sprintf("def clientScionHeaderSets : String := %s", leanString(strings.Join(sets, " | "))))
		}
		return out
	})
	registerFact(func(repo string, parsed map[string][]*ast.File, fset *token.FileSet) {
		for _, name := range []string{"client_ip.go", "client_scion.go"} {
			fs := token.NewFileSet()
			f, err := parser.ParseFile(fs, filepath.Join(repo, "benchmark", name), nil, 0)
			if err != nil {
				broken("benchmark/%s: %v", name, err)
				continue
			}
			var got []string
			ast.Inspect(f, func(m ast.Node) bool {
				if ce, ok := m.(*ast.CallExpr); ok {
					if se, ok := ce.Fun.(*ast.SelectorExpr); ok && se.Sel.Name == "New" {
						if id, ok := se.X.(*ast.Ident); ok && id.Name == "hdrhistogram" {
							var as []string
							for _, a := range ce.Args {
								var b bytes.Buffer
								printer.Fprint(&b, fs, a)
								as = append(as, b.String())
							}
							got = append(got, strings.Join(as, ","))
						}
					}
				}
				return true
			})
			if len(got) != 1 || got[0] != "1,50000,5" {
				broken("benchmark/%s: expected exactly one hdrhistogram.New(1, 50000, 5), found %v (ClientTail.benchmarkHist)", name, got)
			}
		}
	})
}
