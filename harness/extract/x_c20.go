package main

import (
	"fmt"
	"go/ast"
	"go/token"
	"strconv"
	"strings"
)

// C20: the RFC 8915 exporter label, contexts and length are local variables of
// ntske.ExportKeys; which context feeds which key is a structural fact of the two
// ExportKeyingMaterial calls. Also: Fetcher.exchangeKeys assigns f.data exactly once, after
// the checks (F8), and ReadData reads no record body with a bare Read (F7).
func init() {
	registerLocals("net/ntske", func(files []*ast.File, fset *token.FileSet) []string {
		fd := findFunc(files, "ExportKeys")
		if fd == nil || fd.Body == nil {
			broken("net/ntske: func ExportKeys not found")
			return nil
		}
		strs := map[string]string{}
		byteLits := map[string][]string{}
		ints := map[string]string{}
		uses := map[string]string{} // data field -> context variable
		ast.Inspect(fd.Body, func(n ast.Node) bool {
			as, ok := n.(*ast.AssignStmt)
			if !ok {
				return true
			}
			if len(as.Lhs) == 1 && len(as.Rhs) == 1 {
				id, ok := as.Lhs[0].(*ast.Ident)
				if ok {
					switch v := as.Rhs[0].(type) {
					case *ast.BasicLit:
						if v.Kind == token.STRING {
							s, _ := strconv.Unquote(v.Value)
							strs[id.Name] = s
						} else if v.Kind == token.INT {
							ints[id.Name] = v.Value
						}
					case *ast.CompositeLit:
						if at, ok := v.Type.(*ast.ArrayType); ok {
							if el, ok := at.Elt.(*ast.Ident); ok && el.Name == "byte" {
								var bs []string
								for _, e := range v.Elts {
									if bl, ok := e.(*ast.BasicLit); ok && bl.Kind == token.INT {
										x, err := strconv.ParseInt(bl.Value, 0, 64)
										if err == nil {
											bs = append(bs, fmt.Sprint(x))
										}
									}
								}
								if len(bs) == len(v.Elts) {
									byteLits[id.Name] = bs
								}
							}
						}
					}
				}
			}
			if len(as.Lhs) == 2 && len(as.Rhs) == 1 {
				sel, ok1 := as.Lhs[0].(*ast.SelectorExpr)
				call, ok2 := as.Rhs[0].(*ast.CallExpr)
				if ok1 && ok2 {
					if fn, ok := call.Fun.(*ast.SelectorExpr); ok && fn.Sel.Name == "ExportKeyingMaterial" && len(call.Args) == 3 {
						l, _ := call.Args[0].(*ast.Ident)
						c, _ := call.Args[1].(*ast.Ident)
						n, _ := call.Args[2].(*ast.Ident)
						if l != nil && c != nil && n != nil && l.Name == "label" && n.Name == "len" {
							uses[sel.Sel.Name] = c.Name
						}
					}
				}
			}
			return true
		})
		if strs["label"] == "" || byteLits["s2cContext"] == nil || byteLits["c2sContext"] == nil || ints["len"] == "" {
			broken("net/ntske ExportKeys: label / s2cContext / c2sContext / len literals not found")
			return nil
		}
		if uses["S2cKey"] != "s2cContext" || uses["C2sKey"] != "c2sContext" {
			broken("net/ntske ExportKeys: S2cKey/C2sKey are no longer exported with (label, s2cContext/c2sContext, len)")
		}
		return []string{
			"def exportLabel : String := " + leanString(strs["label"]),
			"def exportS2CContext : List Nat := [" + strings.Join(byteLits["s2cContext"], ", ") + "]",
			"def exportC2SContext : List Nat := [" + strings.Join(byteLits["c2sContext"], ", ") + "]",
			"def exportLen : Int := " + ints["len"],
		}
	})
	registerFact(func(repo string, parsed map[string][]*ast.File, fset *token.FileSet) {
		files := parsed["net/ntske"]
		// F8: exchangeKeys writes f.data only by one plain assignment `f.data = data`
		if fd := findFunc(files, "Fetcher.exchangeKeys"); fd == nil || fd.Body == nil {
			broken("net/ntske: Fetcher.exchangeKeys not found")
		} else {
			writes, addr := 0, 0
			ast.Inspect(fd.Body, func(n ast.Node) bool {
				switch v := n.(type) {
				case *ast.AssignStmt:
					for _, l := range v.Lhs {
						if isFData(l) {
							writes++
						}
					}
				case *ast.UnaryExpr:
					if v.Op == token.AND && isFData(v.X) {
						addr++
					}
				}
				return true
			})
			if writes != 1 || addr != 0 {
				broken("net/ntske Fetcher.exchangeKeys: f.data must be assigned exactly once and never passed by address (found %d assignments, %d &f.data)", writes, addr)
			}
		}
		// F7: ReadData calls no reader.Read
		if fd := findFunc(files, "ReadData"); fd == nil || fd.Body == nil {
			broken("net/ntske: ReadData not found")
		} else {
			ast.Inspect(fd.Body, func(n ast.Node) bool {
				if call, ok := n.(*ast.CallExpr); ok {
					if sel, ok := call.Fun.(*ast.SelectorExpr); ok && sel.Sel.Name == "Read" {
						if x, ok := sel.X.(*ast.Ident); ok && x.Name == "reader" {
							broken("net/ntske ReadData: a record body is read with a single reader.Read (segmentation dependent)")
						}
					}
				}
				return true
			})
		}
	})
}

func isFData(e ast.Expr) bool {
	sel, ok := e.(*ast.SelectorExpr)
	if !ok || sel.Sel.Name != "data" {
		return false
	}
	id, ok := sel.X.(*ast.Ident)
	return ok && id.Name == "f"
}
