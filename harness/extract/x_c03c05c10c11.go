package main

import (
	"bytes"
	"fmt"
	"go/ast"
	"go/printer"
	"go/token"
	"strings"
)

// Structural facts about core/client for the control flow around the per-datagram decision
// (Model/ClientFlow.lean), pinned in Props/C05Wrap, C03Tx, C10Win, C11Flow:
//
//	attemptLoopExits{IP,SCION}   every way out of the attempt loops of MeasureClockOffsetIP and of the
//	                             per-path goroutine of MeasureClockOffsetSCION: the guards (innermost
//	                             enclosing if conditions, outermost first) of each break / return / goto
//	                             inside the loop body
//	txFallback{IP,SCION}         where the value assigned to cTxTime1 when ReadTXTimestamp fails comes
//	                             from: "<expression>@before-write|after-write" of the variable's definition
//	scionPayloadWindows          the byte strings handed to ntp.DecodePacket, nts.DecodePacket,
//	                             nts.ProcessResponse and as Pld to spao.ComputeAuthCMAC in the receive loop
//	clientStoreCookieCalls       number of StoreCookie calls in package core/client
//	clientSocketBind{IP,SCION}   the address argument of the ListenPacket call that opens the socket of an
//	                             exchange, e.g. "netip.AddrPortFrom(laddr, 0).String()" (the port is the literal 0)
func init() {
	registerLocals("core/client", func(files []*ast.File, fset *token.FileSet) []string {
		show := func(n ast.Node) string {
			var b bytes.Buffer
			printer.Fprint(&b, fset, n)
			return strings.Join(strings.Fields(b.String()), " ")
		}
		var out []string

		// --- attempt loops
		exits := func(loop *ast.RangeStmt) string {
			var res []string
			var guards []string
			var walk func(n ast.Node)
			walk = func(n ast.Node) {
				ast.Inspect(n, func(m ast.Node) bool {
					switch x := m.(type) {
					case *ast.IfStmt:
						guards = append(guards, show(x.Cond))
						walk(x.Body)
						guards = guards[:len(guards)-1]
						if x.Else != nil {
							guards = append(guards, "!("+show(x.Cond)+")")
							walk(x.Else)
							guards = guards[:len(guards)-1]
						}
						return false
					case *ast.BranchStmt:
						if x.Tok == token.BREAK || x.Tok == token.GOTO {
							res = append(res, x.Tok.String()+" if "+strings.Join(guards, " && "))
						}
					case *ast.ReturnStmt:
						res = append(res, "return if "+strings.Join(guards, " && "))
					case *ast.FuncLit, *ast.ForStmt, *ast.RangeStmt, *ast.SwitchStmt, *ast.SelectStmt:
						if m != n {
							return false // a break in there leaves that statement, not the attempt loop
						}
					}
					return true
				})
			}
			walk(loop.Body)
			return strings.Join(res, " ; ")
		}
		findAttemptLoop := func(body ast.Node, callee string) *ast.RangeStmt {
			// the innermost range loop around the call
			var found *ast.RangeStmt
			ast.Inspect(body, func(m ast.Node) bool {
				if rs, ok := m.(*ast.RangeStmt); ok {
					has := false
					ast.Inspect(rs.Body, func(k ast.Node) bool {
						if ce, ok := k.(*ast.CallExpr); ok {
							if se, ok := ce.Fun.(*ast.SelectorExpr); ok && se.Sel.Name == callee {
								has = true
							}
						}
						return true
					})
					if has && (found == nil || rs.End()-rs.Pos() < found.End()-found.Pos()) {
						found = rs
					}
				}
				return true
			})
			return found
		}
		for _, w := range []struct{ fn, callee, tag string }{
			{"MeasureClockOffsetIP", "measureClockOffsetIP", "IP"},
			{"MeasureClockOffsetSCION", "measureClockOffsetSCION", "SCION"},
		} {
			fd := findFunc(files, w.fn)
			if fd == nil || fd.Body == nil {
				broken("function %s not found (attempt loop)", w.fn)
				continue
			}
			loop := findAttemptLoop(fd.Body, w.callee)
			if loop == nil {
				broken("%s: no range loop around the call of %s (attempt loop)", w.fn, w.callee)
				continue
			}
			out = append(out, fmt.Sprintf("def attemptLoopExits%s : String := %s", w.tag, leanString(exits(loop))))
			out = append(out, fmt.Sprintf("def attemptLoopRange%s : String := %s", w.tag, leanString(show(loop.X))))
		}

		// --- tx timestamp fallback and payload windows
		for _, w := range []struct{ fn, tag string }{
			{"IPClient.measureClockOffsetIP", "IP"},
			{"SCIONClient.measureClockOffsetSCION", "SCION"},
		} {
			fd := findFunc(files, w.fn)
			if fd == nil || fd.Body == nil {
				broken("function %s not found (tx timestamp fallback)", w.fn)
				continue
			}
			var writePos token.Pos
			defs := map[string]ast.Expr{}
			defPos := map[string]token.Pos{}
			fallback := ""
			ast.Inspect(fd.Body, func(m ast.Node) bool {
				switch x := m.(type) {
				case *ast.CallExpr:
					if se, ok := x.Fun.(*ast.SelectorExpr); ok && se.Sel.Name == "WriteToUDPAddrPort" && writePos == token.NoPos {
						writePos = x.Pos()
					}
				case *ast.AssignStmt:
					if len(x.Lhs) == 1 && len(x.Rhs) == 1 {
						if id, ok := x.Lhs[0].(*ast.Ident); ok {
							if x.Tok == token.DEFINE {
								if _, seen := defs[id.Name]; !seen {
									defs[id.Name], defPos[id.Name] = x.Rhs[0], x.Pos()
								}
							}
							if id.Name == "cTxTime1" && x.Tok == token.ASSIGN && fallback == "" {
								fallback = show(x.Rhs[0])
								if rid, ok := x.Rhs[0].(*ast.Ident); ok {
									if d, ok := defs[rid.Name]; ok {
										when := "after-write"
										if writePos != token.NoPos && defPos[rid.Name] < writePos {
											when = "before-write"
										}
										fallback = show(d) + "@" + when
										if dd, ok := d.(*ast.Ident); ok { // one more level: x := y
											if d2, ok := defs[dd.Name]; ok {
												fallback = show(d2) + "@same-as:" + dd.Name
											} else {
												fallback = dd.Name + "@alias"
											}
										}
									}
								} else if writePos != token.NoPos && x.Pos() > writePos {
									fallback += "@after-write"
								}
							}
						}
					}
				}
				return true
			})
			if fallback == "" || writePos == token.NoPos {
				broken("%s: assignment to cTxTime1 / WriteToUDPAddrPort not found (tx timestamp fallback)", w.fn)
				continue
			}
			out = append(out, fmt.Sprintf("def txFallback%s : String := %s", w.tag, leanString(fallback)))
		}
		if fd := findFunc(files, "SCIONClient.measureClockOffsetSCION"); fd != nil && fd.Body != nil {
			var parts []string
			ast.Inspect(fd.Body, func(m ast.Node) bool {
				switch x := m.(type) {
				case *ast.CallExpr:
					if se, ok := x.Fun.(*ast.SelectorExpr); ok {
						if id, ok := se.X.(*ast.Ident); ok {
							switch {
							case id.Name == "ntp" && se.Sel.Name == "DecodePacket" && len(x.Args) == 2:
								parts = append(parts, "ntp="+show(x.Args[1]))
							case id.Name == "nts" && se.Sel.Name == "DecodePacket" && len(x.Args) == 2:
								parts = append(parts, "nts.decode="+show(x.Args[1]))
							case id.Name == "nts" && se.Sel.Name == "ProcessResponse" && len(x.Args) >= 1:
								parts = append(parts, "nts.process="+show(x.Args[0]))
							}
						}
					}
				case *ast.KeyValueExpr:
					if id, ok := x.Key.(*ast.Ident); ok && id.Name == "Pld" {
						parts = append(parts, "spao="+show(x.Value))
					}
				}
				return true
			})
			out = append(out, fmt.Sprintf("def scionPayloadWindows : String := %s", leanString(strings.Join(parts, " | "))))
		} else {
			broken("function SCIONClient.measureClockOffsetSCION not found (payload windows)")
		}
		for _, w := range []struct{ fn, tag string }{
			{"IPClient.measureClockOffsetIP", "IP"},
			{"SCIONClient.measureClockOffsetSCION", "SCION"},
		} {
			fd := findFunc(files, w.fn)
			if fd == nil || fd.Body == nil {
				continue // reported above
			}
			var binds []string
			ast.Inspect(fd.Body, func(m ast.Node) bool {
				if ce, ok := m.(*ast.CallExpr); ok {
					if se, ok := ce.Fun.(*ast.SelectorExpr); ok && se.Sel.Name == "ListenPacket" && len(ce.Args) == 3 {
						binds = append(binds, show(ce.Args[1])+","+show(ce.Args[2]))
					}
				}
				return true
			})
			if len(binds) != 1 {
				broken("%s: expected exactly one ListenPacket call opening the exchange's socket, found %d (the port the socket is bound to)", w.fn, len(binds))
				continue
			}
			out = append(out, fmt.Sprintf("def clientSocketBind%s : String := %s", w.tag, leanString(binds[0])))
		}
		n := 0
		for _, f := range files {
			ast.Inspect(f, func(m ast.Node) bool {
				if ce, ok := m.(*ast.CallExpr); ok {
					if se, ok := ce.Fun.(*ast.SelectorExpr); ok && se.Sel.Name == "StoreCookie" {
						n++
					}
				}
				return true
			})
		}
		out = append(out, fmt.Sprintf("def clientStoreCookieCalls : Int := %d", n))
		return out
	})
}
