package main

// C09: constants that live inside function bodies of core/server — the reply header fields
// handleRequest assigns and the receive buffer size of runIPServer.

import (
	"fmt"
	"go/ast"
	"go/token"
	"sort"
	"strconv"
	"strings"
)

func c09IntLit(x ast.Expr) (int64, bool) {
	neg := false
	if u, ok := x.(*ast.UnaryExpr); ok && u.Op == token.SUB {
		neg = true
		x = u.X
	}
	bl, ok := x.(*ast.BasicLit)
	if !ok || bl.Kind != token.INT {
		return 0, false
	}
	v, err := strconv.ParseInt(bl.Value, 0, 64)
	if err != nil {
		return 0, false
	}
	if neg {
		v = -v
	}
	return v, true
}

func c09IsSel(x ast.Expr, recv, name string) bool {
	s, ok := x.(*ast.SelectorExpr)
	if !ok || s.Sel.Name != name {
		return false
	}
	id, ok := s.X.(*ast.Ident)
	return ok && id.Name == recv
}

func init() {
	registerLocals("core/server", func(files []*ast.File, fset *token.FileSet) []string {
		var out []string
		fd := findFunc(files, "handleRequest")
		if fd == nil || fd.Body == nil {
			broken("C09: core/server handleRequest not found")
			return nil
		}
		var version, mode string
		var stratum, precision *int64
		ast.Inspect(fd.Body, func(n ast.Node) bool {
			switch v := n.(type) {
			case *ast.CallExpr:
				for _, m := range []string{"SetVersion", "SetMode", "SetLeapIndicator"} {
					if c09IsSel(v.Fun, "resp", m) {
						arg := ""
						if len(v.Args) == 1 {
							if s, ok := v.Args[0].(*ast.SelectorExpr); ok {
								if id, ok := s.X.(*ast.Ident); ok && id.Name == "ntp" {
									arg = s.Sel.Name
								}
							}
						}
						switch m {
						case "SetVersion":
							if version != "" || arg == "" {
								broken("C09: handleRequest: unexpected resp.SetVersion shape")
							}
							version = arg
						case "SetMode":
							if mode != "" || arg == "" {
								broken("C09: handleRequest: unexpected resp.SetMode shape")
							}
							mode = arg
						case "SetLeapIndicator":
							broken("C09: handleRequest now sets the leap indicator (model assumes the zero value)")
						}
					}
				}
			case *ast.AssignStmt:
				if len(v.Lhs) == 1 && len(v.Rhs) == 1 {
					if c09IsSel(v.Lhs[0], "resp", "LVM") {
						broken("C09: handleRequest assigns resp.LVM directly")
					}
					if c09IsSel(v.Lhs[0], "resp", "Stratum") {
						if x, ok := c09IntLit(v.Rhs[0]); ok && stratum == nil {
							stratum = &x
						} else {
							broken("C09: handleRequest: unexpected resp.Stratum assignment")
						}
					}
					if c09IsSel(v.Lhs[0], "resp", "Precision") {
						if x, ok := c09IntLit(v.Rhs[0]); ok && precision == nil {
							precision = &x
						} else {
							broken("C09: handleRequest: unexpected resp.Precision assignment")
						}
					}
				}
			}
			return true
		})
		if version == "" || mode == "" || stratum == nil || precision == nil {
			broken("C09: handleRequest: reply header assignments not found")
			return nil
		}
		out = append(out,
			fmt.Sprintf("def replyVersionConst : String := %s", leanString(version)),
			fmt.Sprintf("def replyModeConst : String := %s", leanString(mode)),
			fmt.Sprintf("def replyStratum : Int := %d", *stratum),
			fmt.Sprintf("def replyPrecision : Int := %d", *precision))

		// runIPServer: buf := make([]byte, 2048)
		fd = findFunc(files, "runIPServer")
		if fd == nil || fd.Body == nil {
			broken("C09: core/server runIPServer not found")
			return out
		}
		found := false
		ast.Inspect(fd.Body, func(n ast.Node) bool {
			as, ok := n.(*ast.AssignStmt)
			if !ok || len(as.Lhs) != 1 || len(as.Rhs) != 1 || as.Tok != token.DEFINE {
				return true
			}
			id, ok := as.Lhs[0].(*ast.Ident)
			if !ok || id.Name != "buf" {
				return true
			}
			call, ok := as.Rhs[0].(*ast.CallExpr)
			if !ok || len(call.Args) != 2 {
				return true
			}
			if f, ok := call.Fun.(*ast.Ident); !ok || f.Name != "make" {
				return true
			}
			if x, ok := c09IntLit(call.Args[1]); ok && !found {
				found = true
				out = append(out, fmt.Sprintf("def ipServerBufLen : Int := %d", x))
			}
			return true
		})
		if !found {
			broken("C09: runIPServer: receive buffer size not found")
		}
		// the receive loop restores buf and oob to full capacity as its first two statements
		// (every rejection path leaves the body with `continue`, so a restore anywhere else is
		// skipped after a rejected datagram) — both listeners
		for _, fn := range []struct{ name, def string }{
			{"runIPServer", "ipServerRestoresBufAtLoopTop"},
			{"runSCIONServer", "scionServerRestoresBufAtLoopTop"},
		} {
			if c09RestoresBufAtLoopTop(findFunc(files, fn.name)) {
				out = append(out, fmt.Sprintf("def %s : Bool := true", fn.def))
			} else {
				out = append(out, fmt.Sprintf("def %s : Bool := false", fn.def))
				broken("%s", "C09: "+fn.name+": the receive loop no longer restores buf/oob to full capacity as its first statements (a rejected datagram would leave the buffer shrunk)")
			}
		}
		// per-iteration variables: each of these names is declared (`var X T` or `X := …`) lexically
		// inside the body of the receive loop and nowhere else in the function, so none of them can
		// carry a value from one datagram to the next (`authenticated` left true by the previous
		// datagram would authenticate the next one; nts.DecodePacket appends into the `ntsreq` it is
		// handed, so a hoisted one would carry cookies over).
		for _, fn := range []struct {
			name, def string
			names     []string
		}{
			{"runIPServer", "ipServerDeclaresPerIteration",
				[]string{"authenticated", "ntpreq", "ntsreq", "serverCookie"}},
			{"runSCIONServer", "scionServerDeclaresPerIteration",
				[]string{"authenticated", "ntpreq", "ntsAuthenticated", "ntsreq", "serverCookie"}},
		} {
			got, why := c09DeclaredPerIteration(findFunc(files, fn.name), fn.names)
			out = append(out, fmt.Sprintf("def %s : List String := %s", fn.def, c09LeanList(got)))
			if why != "" {
				broken("%s", "C09: "+fn.name+": "+why)
			}
		}
		// per-datagram request state: the structs the decoders fill (`ntp.DecodePacket(&X, …)`,
		// `nts.DecodePacket(&X, …)`, `nts.ProcessRequest(…, &X)`) and the server cookie assigned
		// from `Decrypt` are declared inside the body of the receive loop, before their use, so
		// that every datagram starts from zero values (nts.DecodePacket appends to pkt.Cookies;
		// a struct that outlives the iteration would carry the cookies of earlier datagrams).
		for _, fn := range []struct{ name, def string }{
			{"runIPServer", "ipServerRequestStateInLoop"},
			{"runSCIONServer", "scionServerRequestStateInLoop"},
		} {
			ok, why := c09RequestStateInLoop(findFunc(files, fn.name))
			if ok {
				out = append(out, fmt.Sprintf("def %s : Bool := true", fn.def))
			} else {
				out = append(out, fmt.Sprintf("def %s : Bool := false", fn.def))
				broken("%s", "C09: "+fn.name+": "+why)
			}
		}
		return out
	})
}

// c09RequestStateInLoop: see the comment at its call.
func c09RequestStateInLoop(fd *ast.FuncDecl) (bool, string) {
	if fd == nil || fd.Body == nil {
		return false, "function not found"
	}
	isPkgCall := func(call *ast.CallExpr, pkg, name string) bool {
		sel, ok := call.Fun.(*ast.SelectorExpr)
		if !ok || sel.Sel.Name != name {
			return false
		}
		id, ok := sel.X.(*ast.Ident)
		return ok && id.Name == pkg
	}
	hasNtsDecode := func(n ast.Node) bool {
		found := false
		ast.Inspect(n, func(m ast.Node) bool {
			if call, ok := m.(*ast.CallExpr); ok && isPkgCall(call, "nts", "DecodePacket") {
				found = true
			}
			return !found
		})
		return found
	}
	// the outermost endless `for` that contains the NTS branch = the receive loop
	var loop *ast.ForStmt
	ast.Inspect(fd.Body, func(n ast.Node) bool {
		if loop != nil {
			return false
		}
		if fs, ok := n.(*ast.ForStmt); ok && fs.Init == nil && fs.Cond == nil && fs.Post == nil && hasNtsDecode(fs.Body) {
			loop = fs
			return false
		}
		return true
	})
	if loop == nil {
		return false, "receive loop with the NTS branch not found"
	}
	type use struct {
		name string
		pos  token.Pos
	}
	var uses []use
	addrOf := func(x ast.Expr) (string, bool) {
		u, ok := x.(*ast.UnaryExpr)
		if !ok || u.Op != token.AND {
			return "", false
		}
		id, ok := u.X.(*ast.Ident)
		if !ok {
			return "", false
		}
		return id.Name, true
	}
	ast.Inspect(loop.Body, func(n ast.Node) bool {
		switch v := n.(type) {
		case *ast.CallExpr:
			for _, f := range []struct {
				pkg, name string
				arg       int
			}{{"ntp", "DecodePacket", 0}, {"nts", "DecodePacket", 0}, {"nts", "ProcessRequest", 2}} {
				if isPkgCall(v, f.pkg, f.name) {
					if len(v.Args) <= f.arg {
						uses = append(uses, use{"?" + f.name, v.Pos()})
					} else if name, ok := addrOf(v.Args[f.arg]); ok {
						uses = append(uses, use{name, v.Pos()})
					} else {
						uses = append(uses, use{"?" + f.name, v.Pos()})
					}
				}
			}
		case *ast.AssignStmt:
			if len(v.Rhs) == 1 && len(v.Lhs) >= 1 && v.Tok == token.ASSIGN {
				if call, ok := v.Rhs[0].(*ast.CallExpr); ok {
					if sel, ok := call.Fun.(*ast.SelectorExpr); ok && sel.Sel.Name == "Decrypt" {
						if id, ok := v.Lhs[0].(*ast.Ident); ok {
							uses = append(uses, use{id.Name, v.Pos()})
						}
					}
				}
			}
		}
		return true
	})
	if len(uses) < 4 {
		return false, fmt.Sprintf("expected the decoders' request structs and the server cookie in the receive loop, found %d uses", len(uses))
	}
	declaredBefore := func(name string, pos token.Pos) bool {
		found := false
		ast.Inspect(loop.Body, func(n ast.Node) bool {
			switch v := n.(type) {
			case *ast.DeclStmt:
				if gd, ok := v.Decl.(*ast.GenDecl); ok && gd.Tok == token.VAR && v.Pos() < pos {
					for _, sp := range gd.Specs {
						if vs, ok := sp.(*ast.ValueSpec); ok {
							for _, id := range vs.Names {
								if id.Name == name && len(vs.Values) == 0 {
									found = true // `var X T`: the zero value, every iteration
								}
							}
						}
					}
				}
			}
			return true
		})
		return found
	}
	for _, u := range uses {
		if u.name[0] == '?' {
			return false, "unexpected argument shape of " + u.name[1:]
		}
		if !declaredBefore(u.name, u.pos) {
			return false, fmt.Sprintf("the request state %q is not declared (zero-valued) inside the receive loop body: it would carry what earlier datagrams left in it (nts.DecodePacket appends to pkt.Cookies)", u.name)
		}
	}
	return true, ""
}

func c09LeanList(xs []string) string {
	q := make([]string, len(xs))
	for i, x := range xs {
		q[i] = leanString(x)
	}
	return "[" + strings.Join(q, ", ") + "]"
}

// c09ReceiveLoop returns the receive loop of a listener function: the single outermost
// `for { … }` without init/condition/post whose body contains the call
// `conn.ReadMsgUDPAddrPort(…)`; nil if there is none or more than one.
func c09ReceiveLoop(fd *ast.FuncDecl) *ast.ForStmt {
	if fd == nil || fd.Body == nil {
		return nil
	}
	hasRead := func(n ast.Node) bool {
		found := false
		ast.Inspect(n, func(m ast.Node) bool {
			if call, ok := m.(*ast.CallExpr); ok && c09IsSel(call.Fun, "conn", "ReadMsgUDPAddrPort") {
				found = true
			}
			return !found
		})
		return found
	}
	var loops []*ast.ForStmt
	ast.Inspect(fd.Body, func(n ast.Node) bool {
		if fs, ok := n.(*ast.ForStmt); ok && fs.Init == nil && fs.Cond == nil && fs.Post == nil && hasRead(fs.Body) {
			loops = append(loops, fs)
			return false // outermost only
		}
		return true
	})
	if len(loops) != 1 {
		return nil
	}
	return loops[0]
}

// c09RestoresBufAtLoopTop: the first three statements of the receive loop body are
// `buf = buf[:cap(buf)]`, `oob = oob[:cap(oob)]` and the assignment from
// `conn.ReadMsgUDPAddrPort(buf, oob)`.
func c09RestoresBufAtLoopTop(fd *ast.FuncDecl) bool {
	loop := c09ReceiveLoop(fd)
	if loop == nil || len(loop.Body.List) < 3 {
		return false
	}
	isRestore := func(st ast.Stmt, name string) bool {
		as, ok := st.(*ast.AssignStmt)
		if !ok || as.Tok != token.ASSIGN || len(as.Lhs) != 1 || len(as.Rhs) != 1 {
			return false
		}
		l, ok := as.Lhs[0].(*ast.Ident)
		if !ok || l.Name != name {
			return false
		}
		sl, ok := as.Rhs[0].(*ast.SliceExpr)
		if !ok || sl.Low != nil || sl.Max != nil || sl.High == nil {
			return false
		}
		x, ok := sl.X.(*ast.Ident)
		if !ok || x.Name != name {
			return false
		}
		call, ok := sl.High.(*ast.CallExpr)
		if !ok || len(call.Args) != 1 {
			return false
		}
		f, ok := call.Fun.(*ast.Ident)
		a, ok2 := call.Args[0].(*ast.Ident)
		return ok && ok2 && f.Name == "cap" && a.Name == name
	}
	if !isRestore(loop.Body.List[0], "buf") || !isRestore(loop.Body.List[1], "oob") {
		return false
	}
	as, ok := loop.Body.List[2].(*ast.AssignStmt)
	if !ok || len(as.Rhs) != 1 {
		return false
	}
	call, ok := as.Rhs[0].(*ast.CallExpr)
	if !ok || !c09IsSel(call.Fun, "conn", "ReadMsgUDPAddrPort") || len(call.Args) != 2 {
		return false
	}
	b, ok := call.Args[0].(*ast.Ident)
	o, ok2 := call.Args[1].(*ast.Ident)
	return ok && ok2 && b.Name == "buf" && o.Name == "oob"
}

// c09DeclaredPerIteration returns, sorted, those of names that are declared per iteration of
// the receive loop of fd: a declaration of the name (`var X T` statement or `X := …`) exists
// lexically inside the loop body (function literals inside the body count as inside), and
// nothing in the function outside the loop declares the name (parameters, named results,
// `var`, `:=`, `range … :=`, parameters of function literals). The second result says what is
// missing ("" if all names qualify).
func c09DeclaredPerIteration(fd *ast.FuncDecl, names []string) ([]string, string) {
	loop := c09ReceiveLoop(fd)
	if loop == nil {
		return nil, "the receive loop (the single outermost `for {…}` containing conn.ReadMsgUDPAddrPort) was not found"
	}
	inLoop := func(p token.Pos) bool { return loop.Body.Lbrace < p && p < loop.Body.Rbrace }
	inside := map[string]bool{}  // var / := inside the loop body
	outside := map[string]bool{} // any binding of the name outside the loop body
	fields := func(fl *ast.FieldList) {
		if fl == nil {
			return
		}
		for _, f := range fl.List {
			for _, id := range f.Names {
				if !inLoop(id.Pos()) {
					outside[id.Name] = true
				}
			}
		}
	}
	fields(fd.Recv)
	fields(fd.Type.Params)
	fields(fd.Type.Results)
	define := func(x ast.Expr, stmtDecl bool) {
		id, ok := x.(*ast.Ident)
		if !ok || id.Name == "_" {
			return
		}
		if inLoop(id.Pos()) {
			if stmtDecl {
				inside[id.Name] = true
			}
		} else {
			outside[id.Name] = true
		}
	}
	ast.Inspect(fd.Body, func(n ast.Node) bool {
		switch v := n.(type) {
		case *ast.DeclStmt:
			if gd, ok := v.Decl.(*ast.GenDecl); ok && gd.Tok == token.VAR {
				for _, sp := range gd.Specs {
					if vs, ok := sp.(*ast.ValueSpec); ok {
						for _, id := range vs.Names {
							define(id, true)
						}
					}
				}
			}
		case *ast.AssignStmt:
			if v.Tok == token.DEFINE {
				for _, l := range v.Lhs {
					define(l, true)
				}
			}
		case *ast.RangeStmt:
			if v.Tok == token.DEFINE {
				if v.Key != nil {
					define(v.Key, false)
				}
				if v.Value != nil {
					define(v.Value, false)
				}
			}
		case *ast.FuncLit:
			fields(v.Type.Params)
			fields(v.Type.Results)
		}
		return true
	})
	var got, missing []string
	for _, name := range names {
		switch {
		case inside[name] && !outside[name]:
			got = append(got, name)
		case outside[name]:
			missing = append(missing, fmt.Sprintf("%q is declared outside the receive loop", name))
		default:
			missing = append(missing, fmt.Sprintf("%q is not declared inside the receive loop body", name))
		}
	}
	sort.Strings(got)
	why := ""
	if len(missing) > 0 {
		why = strings.Join(missing, "; ") + " (a variable that outlives the iteration carries the previous datagram's value into the next)"
	}
	return got, why
}
