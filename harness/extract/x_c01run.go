package main

// C01, start-up chain: how the binary assembles the arguments of sync.Run (timeservice.go), what
// the clock it passes is (clocks.NewSystemClock) and which of the clock's methods Run uses.
// Emitted into Gen.Sync, pinned by Props/C01Cfg.lean (C01Cfg_pin_run_sites, _pin_run_clock):
//
//	main_syncRun_sites       one string per function of timeservice.go that calls sync.Run:
//	                         "<func>: <the call> | <definition of each identifier argument>"
//	clocks_NewSystemClock_body   the statements of clocks.NewSystemClock
//	sync_Run_clkCalls        the distinct calls `clk.<method>(<args>)` in the body of Run, sorted

import (
	"go/ast"
	"go/parser"
	"go/token"
	"path/filepath"
	"sort"
	"strings"
)

func init() {
	registerLocals("core/sync", func(files []*ast.File, fset *token.FileSet) []string {
		var out []string
		quote := func(xs []string) string {
			q := make([]string, len(xs))
			for i, x := range xs {
				q[i] = leanString(x)
			}
			return "[" + strings.Join(q, ", ") + "]"
		}

		// (1) the call sites in timeservice.go
		mf, mfs := cmainParse(files, fset, "core/sync")
		if mf == nil {
			return nil
		}
		var sites []string
		for _, d := range mf.Decls {
			fd, ok := d.(*ast.FuncDecl)
			if !ok || fd.Body == nil {
				continue
			}
			var call *ast.CallExpr
			ast.Inspect(fd.Body, func(n ast.Node) bool {
				if ce, ok := n.(*ast.CallExpr); ok {
					if se, ok := ce.Fun.(*ast.SelectorExpr); ok && se.Sel.Name == "Run" {
						if id, ok := se.X.(*ast.Ident); ok && id.Name == "sync" {
							call = ce
						}
					}
				}
				return true
			})
			if call == nil {
				continue
			}
			parts := []string{fd.Name.Name + ": " + cmainSrc(mfs, call)}
			for _, a := range call.Args {
				id, ok := a.(*ast.Ident)
				if !ok {
					parts = append(parts, "<"+cmainSrc(mfs, a)+">")
					continue
				}
				// every assignment / definition of that identifier in the function, in source order
				ast.Inspect(fd.Body, func(n ast.Node) bool {
					as, ok := n.(*ast.AssignStmt)
					if !ok {
						return true
					}
					for _, l := range as.Lhs {
						if li, ok := l.(*ast.Ident); ok && li.Name == id.Name {
							parts = append(parts, cmainSrc(mfs, as))
							break
						}
					}
					return true
				})
			}
			sites = append(sites, strings.Join(parts, " | "))
		}
		if len(sites) == 0 {
			broken("C01: no call of sync.Run found in timeservice.go")
		}
		out = append(out, "def main_syncRun_sites : List String := "+quote(sites))

		// (2) clocks.NewSystemClock
		name := fset.Position(files[0].Pos()).Filename
		root := filepath.Dir(filepath.Dir(filepath.Dir(name)))
		cfs := token.NewFileSet()
		cf, err := parser.ParseFile(cfs, filepath.Join(root, "driver", "clocks", "sysclk_linux.go"), nil, 0)
		if err != nil {
			broken("C01: parse driver/clocks/sysclk_linux.go: %v", err)
			return out
		}
		nsc := findFunc([]*ast.File{cf}, "NewSystemClock")
		if nsc == nil || nsc.Body == nil {
			broken("C01: clocks.NewSystemClock not found")
			return out
		}
		var body []string
		for _, st := range nsc.Body.List {
			body = append(body, cmainSrc(cfs, st))
		}
		out = append(out, "def clocks_NewSystemClock_body : List String := "+quote(body))

		// (3) what Run does with its clock
		run := findFunc(files, "Run")
		if run == nil || run.Body == nil || run.Type.Params == nil {
			broken("C01: core/sync.Run not found")
			return out
		}
		seen := map[string]bool{}
		ast.Inspect(run.Body, func(n ast.Node) bool {
			ce, ok := n.(*ast.CallExpr)
			if !ok {
				return true
			}
			if se, ok := ce.Fun.(*ast.SelectorExpr); ok {
				if id, ok := se.X.(*ast.Ident); ok && id.Name == "clk" {
					seen[cmainSrc(fset, ce)] = true
				}
			}
			return true
		})
		// clk passed on as a value (to a helper) would escape this list: record such uses too
		ast.Inspect(run.Body, func(n ast.Node) bool {
			ce, ok := n.(*ast.CallExpr)
			if !ok {
				return true
			}
			for _, a := range ce.Args {
				if id, ok := a.(*ast.Ident); ok && id.Name == "clk" {
					seen["passed:"+cmainSrc(fset, ce.Fun)] = true
				}
			}
			return true
		})
		var calls []string
		for k := range seen {
			calls = append(calls, k)
		}
		sort.Strings(calls)
		out = append(out, "def sync_Run_clkCalls : List String := "+quote(calls))
		return out
	})
}
