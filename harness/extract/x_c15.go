package main

// C15: source shapes of base/crypto (rejection threshold, accept test, word sizes, the draw
// of the reservoir loop) and of MeasureClockOffsetSCION's sticky guard, exported as Lean
// strings/ints and pinned by theorems in Props/C15.lean.

import (
	"bytes"
	"fmt"
	"go/ast"
	"go/printer"
	"go/token"
)

func c15src(fset *token.FileSet, n ast.Node) string {
	var b bytes.Buffer
	printer.Fprint(&b, fset, n)
	return b.String()
}

// c15rand extracts from randInt31/randInt63: the initialiser of `t`, the size of `b`, the
// condition that leaves the loop with break, and the returned expression.
func c15rand(files []*ast.File, fset *token.FileSet, name string) []string {
	fd := findFunc(files, name)
	if fd == nil {
		broken("base/crypto: func %s not found", name)
		return nil
	}
	var thr, size, accept, ret string
	ast.Inspect(fd.Body, func(n ast.Node) bool {
		switch x := n.(type) {
		case *ast.AssignStmt:
			if len(x.Lhs) == 1 && len(x.Rhs) == 1 {
				if id, ok := x.Lhs[0].(*ast.Ident); ok && x.Tok == token.DEFINE {
					if id.Name == "t" {
						thr = c15src(fset, x.Rhs[0])
					}
					if call, ok := x.Rhs[0].(*ast.CallExpr); ok && id.Name == "b" && len(call.Args) == 2 {
						size = c15src(fset, call.Args[1])
					}
				}
			}
		case *ast.IfStmt:
			if len(x.Body.List) == 1 {
				if br, ok := x.Body.List[0].(*ast.BranchStmt); ok && br.Tok == token.BREAK {
					accept = c15src(fset, x.Cond)
				}
			}
		case *ast.ReturnStmt:
			if len(x.Results) == 2 {
				if c15src(fset, x.Results[1]) == "nil" && c15src(fset, x.Results[0]) != "0" {
					ret = c15src(fset, x.Results[0])
				}
			}
		}
		return true
	})
	if thr == "" || size == "" || accept == "" || ret == "" {
		broken("base/crypto.%s: shape not recognised (threshold %q, size %q, accept %q, return %q)", name, thr, size, accept, ret)
	}
	return []string{
		fmt.Sprintf("def %s_threshold : String := %s", name, leanString(thr)),
		fmt.Sprintf("def %s_wordBytes : Int := %s", name, size),
		fmt.Sprintf("def %s_accept : String := %s", name, leanString(accept)),
		fmt.Sprintf("def %s_result : String := %s", name, leanString(ret)),
	}
}

func init() {
	registerLocals("base/crypto", func(files []*ast.File, fset *token.FileSet) []string {
		out := append(c15rand(files, fset, "randInt31"), c15rand(files, fset, "randInt63")...)
		// RandIntn: the dispatch condition; Sample: the draw and the condition of the pick
		if fd := findFunc(files, "RandIntn"); fd != nil {
			var conds []string
			for _, st := range fd.Body.List {
				if is, ok := st.(*ast.IfStmt); ok {
					conds = append(conds, c15src(fset, is.Cond))
				}
			}
			out = append(out, fmt.Sprintf("def RandIntn_conds : String := %s", leanString(fmt.Sprint(conds))))
		} else {
			broken("base/crypto: func RandIntn not found")
		}
		if fd := findFunc(files, "Sample"); fd != nil {
			var draw, cond, pick, loops string
			ast.Inspect(fd.Body, func(n ast.Node) bool {
				switch x := n.(type) {
				case *ast.ForStmt:
					loops += "for " + c15src(fset, x.Init) + "; " + c15src(fset, x.Cond) + "; " + c15src(fset, x.Post) + " | "
				case *ast.AssignStmt:
					if len(x.Rhs) == 1 {
						if call, ok := x.Rhs[0].(*ast.CallExpr); ok && c15src(fset, call.Fun) == "RandIntn" {
							draw = c15src(fset, call)
						}
					}
				case *ast.IfStmt:
					if len(x.Body.List) == 1 {
						if es, ok := x.Body.List[0].(*ast.ExprStmt); ok {
							if call, ok := es.X.(*ast.CallExpr); ok && c15src(fset, call.Fun) == "pick" {
								cond, pick = c15src(fset, x.Cond), c15src(fset, call)
							}
						}
					}
				}
				return true
			})
			out = append(out,
				fmt.Sprintf("def Sample_loops : String := %s", leanString(loops)),
				fmt.Sprintf("def Sample_draw : String := %s", leanString(draw)),
				fmt.Sprintf("def Sample_pickCond : String := %s", leanString(cond)),
				fmt.Sprintf("def Sample_pick : String := %s", leanString(pick)))
		} else {
			broken("base/crypto: func Sample not found")
		}
		return out
	})
	registerLocals("core/client", func(files []*ast.File, fset *token.FileSet) []string {
		fd := findFunc(files, "MeasureClockOffsetSCION")
		if fd == nil {
			broken("core/client: func MeasureClockOffsetSCION not found")
			return nil
		}
		// the guard of the sticky search (first `if` inside the first range loop), the call
		// of crypto.Sample, and the call of FaultTolerantMidpoint
		var guard, sample, ftm string
		ast.Inspect(fd.Body, func(n ast.Node) bool {
			switch x := n.(type) {
			case *ast.RangeStmt:
				if guard == "" {
					for _, st := range x.Body.List {
						if is, ok := st.(*ast.IfStmt); ok {
							guard = c15src(fset, is.Cond)
							break
						}
					}
				}
			case *ast.CallExpr:
				switch c15src(fset, x.Fun) {
				case "crypto.Sample":
					if len(x.Args) == 4 {
						sample = c15src(fset, x.Args[1]) + ", " + c15src(fset, x.Args[2])
					}
				case "measurements.FaultTolerantMidpoint":
					ftm = c15src(fset, x)
				}
			}
			return true
		})
		if guard == "" || sample == "" || ftm == "" {
			broken("core/client.MeasureClockOffsetSCION: shape not recognised (guard %q, sample %q, ftm %q)", guard, sample, ftm)
		}
		return []string{
			fmt.Sprintf("def MeasureClockOffsetSCION_stickyGuard : String := %s", leanString(guard)),
			fmt.Sprintf("def MeasureClockOffsetSCION_sampleArgs : String := %s", leanString(sample)),
			fmt.Sprintf("def MeasureClockOffsetSCION_ftm : String := %s", leanString(ftm)),
		}
	})
	// net/scion Pather.Paths: what it returns (a copy of the table's slice — the round consumes
	// its path list in place)
	registerLocals("net/scion", func(files []*ast.File, fset *token.FileSet) []string {
		fd := findFunc(files, "Pather.Paths")
		if fd == nil {
			broken("net/scion: method Pather.Paths not found")
			return []string{"def Pather_Paths_returns : String := \"\""}
		}
		var rets []string
		ast.Inspect(fd.Body, func(n ast.Node) bool {
			if r, ok := n.(*ast.ReturnStmt); ok && len(r.Results) == 1 {
				rets = append(rets, c15src(fset, r.Results[0]))
			}
			return true
		})
		if len(rets) == 0 {
			broken("net/scion.Pather.Paths: no return statement found")
		}
		s := ""
		for i, r := range rets {
			if i > 0 {
				s += " | "
			}
			s += r
		}
		return []string{fmt.Sprintf("def Pather_Paths_returns : String := %s", leanString(s))}
	})
}
