// Package lib is the shared plumbing of the correspondence harness: one seeded PRNG from
// which every random choice is derived, the op/impl line writers, the direct-oracle
// failure log, and the statistics that end up in the evidence file.
package lib

import (
	"bufio"
	"encoding/hex"
	"encoding/json"
	"flag"
	"fmt"
	"os"
	"path/filepath"
	"runtime"
	"sort"
	"strings"
)

// ---------------------------------------------------------------- PRNG (splitmix64)

type Rand struct{ s uint64 }

func NewRand(seed uint64) *Rand { return &Rand{s: seed} }

func (r *Rand) U64() uint64 {
	r.s += 0x9e3779b97f4a7c15
	z := r.s
	z = (z ^ (z >> 30)) * 0xbf58476d1ce4e5b9
	z = (z ^ (z >> 27)) * 0x94d049bb133111eb
	return z ^ (z >> 31)
}
func (r *Rand) I64() int64 { return int64(r.U64()) }

// Intn returns a value in [0, n).
func (r *Rand) Intn(n int) int {
	if n <= 0 {
		return 0
	}
	return int(r.U64() % uint64(n))
}

// Range returns a value in [lo, hi] (inclusive).
func (r *Rand) Range(lo, hi int64) int64 {
	if hi <= lo {
		return lo
	}
	span := uint64(hi-lo) + 1
	if span == 0 {
		return int64(r.U64())
	}
	return lo + int64(r.U64()%span)
}
func (r *Rand) Bool() bool        { return r.U64()&1 == 1 }
func (r *Rand) Chance(p int) bool { return r.Intn(100) < p } // p percent
func (r *Rand) Bytes(n int) []byte {
	b := make([]byte, n)
	for i := range b {
		b[i] = byte(r.U64())
	}
	return b
}
func (r *Rand) Pick64(xs []int64) int64 { return xs[r.Intn(len(xs))] }

// Fork derives an independent stream (so that adding draws in one generator does not
// shift the others).
func (r *Rand) Fork(label string) *Rand {
	h := r.s
	for _, c := range []byte(label) {
		h = (h ^ uint64(c)) * 0x100000001b3
	}
	return NewRand(h ^ 0x5851f42d4c957f2d)
}

// ---------------------------------------------------------------- run context

type Ctx struct {
	Seed     uint64
	Tier     string
	Out      string
	Rand     *Rand
	ops      *bufio.Writer
	impl     *bufio.Writer
	oracle   *bufio.Writer
	files    []*os.File
	N        int
	Counters map[string]int
	Samples  []string
	Fails    int
	NotExec  []string
	exec     Exec
}

// Exec interprets one op line (already split into tokens) against the real code and
// returns the canonical answer. Stateful units keep their state inside the harness
// process between calls, exactly like the model driver does.
type Exec func(toks []string) string

// Main is the entry point of every harness command:
//
//	cxx -seed N -tier quick|thorough -out DIR     generate cases, run them, write ops/impl/oracle/stats
//	cxx -replay FILE                              run the op lines of FILE against the real code, print answers
func Main(exec Exec, gen func(c *Ctx)) {
	replay := flag.String("replay", "", "file of op lines to run against the implementation")
	c := initCtx(replay)
	c.exec = exec
	if *replay != "" {
		f, err := os.Open(*replay)
		if err != nil {
			fmt.Fprintln(os.Stderr, err)
			os.Exit(2)
		}
		defer f.Close()
		sc := bufio.NewScanner(f)
		sc.Buffer(make([]byte, 1<<20), 1<<26)
		w := bufio.NewWriter(os.Stdout)
		defer w.Flush()
		for sc.Scan() {
			line := sc.Text()
			if line == "" || strings.HasPrefix(line, "#") {
				fmt.Fprintln(w, line)
				continue
			}
			fmt.Fprintln(w, Try(func() string { return exec(strings.Fields(line)) }))
		}
		return
	}
	defer c.Close()
	gen(c)
}

// Do runs one op against the real code (through the command's Exec), records the op and
// the answer, and returns the answer for the generator's direct oracle.
func (c *Ctx) Do(op string) string {
	res := Try(func() string { return c.exec(strings.Fields(op)) })
	c.Emit(op, res)
	return res
}

// Dof is Do with formatting.
func (c *Ctx) Dof(format string, a ...any) string { return c.Do(fmt.Sprintf(format, a...)) }

// Ints parses the integers of an answer "ok a b c" (ok=false if it is not an ok answer).
func Ints(ans string) (xs []int64, ok bool) {
	f := strings.Fields(ans)
	if len(f) == 0 || f[0] != "ok" {
		return nil, false
	}
	for _, t := range f[1:] {
		var v int64
		if _, err := fmt.Sscan(t, &v); err != nil {
			return nil, false
		}
		xs = append(xs, v)
	}
	return xs, true
}

func initCtx(replay *string) *Ctx {
	seed := flag.Uint64("seed", 1, "seed")
	tier := flag.String("tier", "quick", "quick|thorough")
	out := flag.String("out", "", "output directory")
	flag.Parse()
	if *replay != "" {
		return &Ctx{Seed: *seed, Tier: *tier, Rand: NewRand(*seed), Counters: map[string]int{}}
	}
	if *out == "" {
		fmt.Fprintln(os.Stderr, "missing -out")
		os.Exit(2)
	}
	if err := os.MkdirAll(*out, 0o755); err != nil {
		panic(err)
	}
	c := &Ctx{Seed: *seed, Tier: *tier, Out: *out, Rand: NewRand(*seed), Counters: map[string]int{}}
	open := func(name string) *bufio.Writer {
		f, err := os.Create(filepath.Join(*out, name))
		if err != nil {
			panic(err)
		}
		c.files = append(c.files, f)
		return bufio.NewWriterSize(f, 1<<20)
	}
	c.ops = open("ops.txt")
	c.impl = open("impl.txt")
	c.oracle = open("oracle.jsonl")
	return c
}

func (c *Ctx) Thorough() bool { return c.Tier == "thorough" }

// Scale picks the case count for the tier.
func (c *Ctx) Scale(quick, thorough int) int {
	if c.Thorough() {
		return thorough
	}
	return quick
}

// Emit records one operation (the line the model driver will read) and the
// implementation's canonical answer to it.
func (c *Ctx) Emit(op, impl string) {
	if strings.ContainsAny(op, "\n\r") || strings.ContainsAny(impl, "\n\r") {
		panic("newline in protocol line")
	}
	c.ops.WriteString(op)
	c.ops.WriteByte('\n')
	c.impl.WriteString(impl)
	c.impl.WriteByte('\n')
	c.N++
	if len(c.Samples) < 6 || (c.N%997 == 0 && len(c.Samples) < 24) {
		c.Samples = append(c.Samples, op+" => "+impl)
	}
}

// Comment writes a marker line that the driver echoes (keeps both streams aligned).
func (c *Ctx) Comment(s string) {
	c.ops.WriteString("# " + s + "\n")
	c.impl.WriteString("# " + s + "\n")
}

func (c *Ctx) Count(key string) { c.Counters[key]++ }

// Fail records a direct-oracle failure: the property predicate, evaluated by the harness
// on the implementation's own output, is false for this input.
// sig identifies the failure class (matched against known_findings.json);
// ops is the minimal op sequence that replays it.
func (c *Ctx) Fail(sig, what string, ops []string, detail map[string]any) {
	c.Fails++
	if c.Fails > 200 {
		return
	}
	rec := map[string]any{"sig": sig, "what": what, "ops": ops, "detail": detail}
	b, _ := json.Marshal(rec)
	c.oracle.Write(b)
	c.oracle.WriteByte('\n')
}

// NotExecuted records a sub-run skipped for sandbox reasons (no violation is fabricated).
func (c *Ctx) NotExecuted(what string) { c.NotExec = append(c.NotExec, what) }

func (c *Ctx) Close() {
	c.ops.Flush()
	c.impl.Flush()
	c.oracle.Flush()
	for _, f := range c.files {
		f.Close()
	}
	keys := make([]string, 0, len(c.Counters))
	for k := range c.Counters {
		keys = append(keys, k)
	}
	sort.Strings(keys)
	st := map[string]any{
		"ops": c.N, "counters": c.Counters, "samples": c.Samples,
		"oracle_failures": c.Fails, "not_executed": c.NotExec, "seed": c.Seed, "tier": c.Tier,
	}
	b, _ := json.MarshalIndent(st, "", " ")
	os.WriteFile(filepath.Join(c.Out, "stats.json"), b, 0o644)
}

// ---------------------------------------------------------------- helpers

// Try runs f and maps a panic to the canonical "panic <class>" answer.
func Try(f func() string) (res string) {
	defer func() {
		if r := recover(); r != nil {
			if s, ok := r.(string); ok && s == "bad-op" {
				res = "bad-op" // the command's own "cannot parse this op" signal
				return
			}
			res = "panic " + PanicClass(r)
		}
	}()
	return f()
}

// PanicClass maps a recovered value to a small enum.
func PanicClass(r any) string {
	var s string
	switch v := r.(type) {
	case runtime.Error:
		s = v.Error()
	case error:
		s = v.Error()
	case string:
		s = v
	default:
		s = fmt.Sprint(v)
	}
	switch {
	case strings.Contains(s, "index out of range"):
		return "index"
	case strings.Contains(s, "slice bounds out of range"):
		return "slice"
	case strings.Contains(s, "nil pointer"):
		return "nil"
	case strings.Contains(s, "integer divide by zero"):
		return "div0"
	}
	s = strings.ReplaceAll(s, " ", "_")
	if len(s) > 60 {
		s = s[:60]
	}
	return "explicit:" + s
}

func Hex(b []byte) string {
	if len(b) == 0 {
		return "-"
	}
	return hex.EncodeToString(b)
}

func IntList(xs []int64) string {
	var sb strings.Builder
	sb.WriteByte('[')
	for i, x := range xs {
		if i > 0 {
			sb.WriteByte(',')
		}
		fmt.Fprintf(&sb, "%d", x)
	}
	sb.WriteByte(']')
	return sb.String()
}

func Bool(b bool) string {
	if b {
		return "true"
	}
	return "false"
}
