/-! Feasibility probe C02: fault-tolerant midpoint stays within the good values.
    Elements are tagged (value, bad?) so that equal values on both sides cause no ambiguity. -/
namespace Ftm

abbrev E := Int × Bool   -- (offset, isBad)

def Sorted (l : List E) : Prop := l.Pairwise (fun a b => a.1 ≤ b.1)

def midZ (x y : Int) : Int := x + (y - x).tdiv 2

/-- value at index i of a sorted list is ≥ every earlier value -/
theorem sorted_le {l : List E} (h : Sorted l) {i j : Nat} (hij : i ≤ j) (hj : j < l.length) :
    (l[i]'(by omega)).1 ≤ (l[j]).1 := by
  rcases Nat.lt_or_eq_of_le hij with hlt | heq
  · exact (List.pairwise_iff_getElem.mp h) i j (by omega) hj hlt
  · subst heq; exact Int.le_refl _

/-- among any `k+1` consecutive positions starting at `s`, if fewer than `k+1` elements of the whole list are bad,
    one of them is good -/
theorem exists_good_in_range (l : List E) (s k : Nat) (hlen : s + k < l.length)
    (hbad : l.countP (fun e => e.2) ≤ k) :
    ∃ i, s ≤ i ∧ i ≤ s + k ∧ ∃ h : i < l.length, (l[i]).2 = false := by
  -- the window
  let w := (l.drop s).take (k+1)
  have hwlen : w.length = k + 1 := by simp [w]; omega
  have hsub : w.Sublist l := (List.take_sublist _ _).trans (List.drop_sublist _ _)
  have hcnt : w.countP (fun e => e.2) ≤ k := Nat.le_trans (hsub.countP_le) hbad
  have : ¬ (w.countP (fun e => e.2) = w.length) := by omega
  rw [List.countP_eq_length] at this
  -- some element of w is not bad
  have : ∃ a ∈ w, ¬ (a.2 = true) := by
    apply Classical.byContradiction
    intro hne
    apply this
    intro a ha
    apply Classical.byContradiction
    intro hna
    exact hne ⟨a, ha, by simpa using hna⟩
  obtain ⟨a, ha, hna⟩ := this
  obtain ⟨n, hn, hget⟩ := List.getElem_of_mem ha
  have hn' : n < k + 1 := by omega
  refine ⟨s + n, by omega, by omega, by omega, ?_⟩
  have : w[n] = l[s + n]'(by omega) := by
    simp [w]
  rw [← this, hget]
  cases h : a.2 <;> simp_all

theorem ftm_between (l : List E) (hs : Sorted l) (hn : 0 < l.length)
    (hbad : l.countP (fun e => e.2) ≤ (l.length - 1) / 3)
    (lo hi : Int)
    (hlo : ∀ e ∈ l, e.2 = false → lo ≤ e.1) (hhi : ∀ e ∈ l, e.2 = false → e.1 ≤ hi) :
    let f := (l.length - 1) / 3
    lo ≤ midZ (l[f]'(by omega)).1 (l[l.length - 1 - f]'(by omega)).1 ∧
    midZ (l[f]'(by omega)).1 (l[l.length - 1 - f]'(by omega)).1 ≤ hi := by
  intro f
  have hf : f = (l.length - 1) / 3 := rfl
  -- a good element at or below index f, and one at or above index n-1-f
  obtain ⟨i, _, hi1, hil, hgi⟩ := exists_good_in_range l 0 f (by omega) hbad
  obtain ⟨j, hj0, _, hjl, hgj⟩ := exists_good_in_range l (l.length - 1 - f) f (by omega) hbad
  -- and: a good one at or above f, a good one at or below n-1-f
  obtain ⟨i', hi'0, _, hi'l, hgi'⟩ := exists_good_in_range l f f (by omega) hbad
  obtain ⟨j', _, hj'1, hj'l, hgj'⟩ := exists_good_in_range l (l.length - 1 - 2 * f) f (by omega) hbad
  have a1 : lo ≤ (l[f]'(by omega)).1 :=
    Int.le_trans (hlo _ (List.getElem_mem hil) hgi) (sorted_le hs (by omega) (by omega))
  have a2 : (l[f]'(by omega)).1 ≤ hi :=
    Int.le_trans (sorted_le hs hi'0 hi'l) (hhi _ (List.getElem_mem hi'l) hgi')
  have b1 : lo ≤ (l[l.length - 1 - f]'(by omega)).1 :=
    Int.le_trans (hlo _ (List.getElem_mem hj'l) hgj') (sorted_le hs (by omega) (by omega))
  have b2 : (l[l.length - 1 - f]'(by omega)).1 ≤ hi :=
    Int.le_trans (sorted_le hs hj0 hjl) (hhi _ (List.getElem_mem hjl) hgj)
  have xy : (l[f]'(by omega)).1 ≤ (l[l.length - 1 - f]'(by omega)).1 := sorted_le hs (by omega) (by omega)
  unfold midZ
  generalize (l[f]'(by omega)).1 = x at *
  generalize (l[l.length - 1 - f]'(by omega)).1 = y at *
  rw [Int.tdiv_eq_ediv_of_nonneg (by omega)]
  omega

#print axioms ftm_between
end Ftm
