/-! Feasibility probe C04: era unfolding, current code vs repaired code. -/
namespace T64
def epoch : Int := -2208988800
def era : Int := 4294967296

def encSec (sec : Int) : Int := (sec - epoch) % era           -- uint32(t.Unix() - epoch)
/-- current code; `tref - epoch ≥ 0` so Go's truncating `/` is floor -/
def decSecCur (s tref : Int) : Int :=
  let sec := epoch + (tref - epoch) / era * era + s
  if sec < tref - era / 2 then sec + era else sec
/-- repaired: also unfold towards the past -/
def decSecFix (s tref : Int) : Int :=
  let sec := epoch + (tref - epoch) / era * era + s
  if sec < tref - era / 2 then sec + era else if sec ≥ tref + era / 2 then sec - era else sec

theorem fix_roundtrip (sec tref : Int) (h0 : 0 ≤ tref)
    (hw : -2147483648 ≤ sec - tref ∧ sec - tref < 2147483648) :
    decSecFix (encSec sec) tref = sec := by
  unfold decSecFix encSec epoch era
  simp only
  split
  · omega
  · split <;> omega

/-- the unchanged code is wrong exactly in the lower part of the window after an era boundary -/
theorem cur_counterexample : decSecCur (encSec 2085978491) 2085978506 ≠ 2085978491 := by decide

theorem cur_partial (sec tref : Int) (h0 : 0 ≤ tref)
    (hw : -2147483648 ≤ sec - tref ∧ sec - tref < 2147483648)
    (hsame : epoch + (tref - epoch) / era * era ≤ sec) :
    decSecCur (encSec sec) tref = sec := by
  unfold decSecCur encSec epoch era at *
  simp only
  split <;> omega
#print axioms fix_roundtrip
end T64
