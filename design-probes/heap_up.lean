/-! Feasibility probe: container/heap `up` over an Array with a key function. -/
namespace Hp
variable {α : Type}

def up (key : α → Nat) (a : Array α) (j : Nat) : Array α :=
  if h : j = 0 then a
  else
    let i := (j - 1) / 2
    if hj : j < a.size then
      have hi : i < a.size := by omega
      if key a[j] < key a[i] then
        up key (a.swap i j hi hj) i
      else a
    else a
termination_by j
decreasing_by omega

/-- total key accessor -/
def kv (key : α → Nat) (a : Array α) (i : Nat) : Nat := if h : i < a.size then key a[i] else 0

def OkAt (key : α → Nat) (a : Array α) (c : Nat) : Prop :=
  0 < c → c < a.size → kv key a ((c-1)/2) ≤ kv key a c

def HeapOrd (key : α → Nat) (a : Array α) : Prop := ∀ c, OkAt key a c

def UpInv (key : α → Nat) (a : Array α) (j : Nat) : Prop :=
  (∀ c, c ≠ j → OkAt key a c) ∧
  (∀ c, 0 < c → c < a.size → (c-1)/2 = j → 0 < j → kv key a ((j-1)/2) ≤ kv key a c)

theorem size_up (key : α → Nat) (a : Array α) (j : Nat) : (up key a j).size = a.size := by
  induction j using Nat.strongRecOn generalizing a with
  | _ j ih =>
    unfold up
    split
    · rfl
    · simp only
      split
      · split
        · rw [ih _ (by omega)]; simp
        · rfl
      · rfl

theorem kv_swap (key : α → Nat) (a : Array α) (i j : Nat) (hi : i < a.size) (hj : j < a.size) (x : Nat) :
    kv key (a.swap i j hi hj) x = if x = i then kv key a j else if x = j then kv key a i else kv key a x := by
  unfold kv
  simp only [Array.size_swap]
  by_cases hx : x < a.size
  · simp only [hx, hi, hj, dite_true]
    rw [Array.getElem_swap]
    by_cases h1 : x = i
    · subst h1; simp
    · by_cases h2 : x = j
      · subst h2; simp [h1]
      · simp [h1, h2]
  · have h1 : x ≠ i := by omega
    have h2 : x ≠ j := by omega
    simp [hx, h1, h2]

theorem up_heap (key : α → Nat) (a : Array α) (j : Nat) (hj : j < a.size)
    (h : UpInv key a j) : HeapOrd key (up key a j) := by
  induction j using Nat.strongRecOn generalizing a with
  | _ j ih =>
    unfold up
    split
    · -- j = 0
      rename_i h0
      intro c
      by_cases hc : c = j
      · subst hc; intro hpos; omega
      · exact h.1 c hc
    · rename_i h0
      simp only [hj, dite_true]
      split
      · -- swap
        rename_i hlt
        have hi : (j-1)/2 < a.size := by omega
        apply ih ((j-1)/2) (by omega) _ (by simp; omega)
        constructor
        · intro c hc hpos hcs
          simp only [Array.size_swap] at hcs
          rw [kv_swap, kv_swap]
          have hkj : kv key a j = key a[j] := by simp [kv, hj]
          have hki : kv key a ((j-1)/2) = key a[(j-1)/2] := by simp [kv, hi]
          by_cases c1 : c = j
          · -- pair (i, j) after swap: new a[i] = old a[j] < old a[i] = new a[j]
            subst c1
            have e1 : c ≠ (c-1)/2 := by omega
            simp [e1]
            omega
          · -- c ≠ j, c ≠ i
            have ok := h.1 c c1 hpos hcs
            by_cases p1 : (c-1)/2 = (j-1)/2
            · -- sibling of j (or j itself excluded): parent is i which got smaller value old a[j]
              simp [p1, hc, c1]
              rw [p1] at ok
              omega
            · by_cases p2 : (c-1)/2 = j
              · -- child of j: parent j now holds old a[i]
                have := h.2 c hpos hcs p2 (by omega)
                simp [p1, p2, hc, c1]
                have hne : j ≠ (j-1)/2 := by omega
                simp [hne]
                exact this
              · simp [p1, p2, hc, c1]
                exact ok
        · intro c hpos hcs hpar hipos
          simp only [Array.size_swap] at hcs
          rw [kv_swap, kv_swap]
          have hkj : kv key a j = key a[j] := by simp [kv, hj]
          have hki : kv key a ((j-1)/2) = key a[(j-1)/2] := by simp [kv, hi]
          -- grandparent g = parent of i
          have gne1 : ((j-1)/2 - 1)/2 ≠ (j-1)/2 := by omega
          have gne2 : ((j-1)/2 - 1)/2 ≠ j := by omega
          simp [gne1, gne2]
          have okI := h.1 ((j-1)/2) (by omega) hipos hi
          by_cases c1 : c = j
          · subst c1
            have : c ≠ (c-1)/2 := by omega
            simp [this]; omega
          · have ci : c ≠ (j-1)/2 := by omega
            simp [c1, ci]
            have ok := h.1 c c1 hpos hcs
            rw [hpar] at ok
            omega
      · -- no swap: pair (i,j) ok
        rename_i hge
        intro c
        by_cases hc : c = j
        · subst hc
          intro hpos hcs
          have hi : (c-1)/2 < a.size := by omega
          simp [kv, hcs, hi]; omega
        · exact h.1 c hc

#print axioms up_heap
end Hp
