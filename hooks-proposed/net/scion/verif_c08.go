//go:build verif

package scion

// Hooks for the verification harness (property C08): the packet connections that
// ListenQUIC / DialQUIC hand to quic-go, without quic-go on top, so that the
// harness can see what ReadFrom does with one crafted SCION datagram.

import (
	"context"
	"net"

	"github.com/scionproto/scion/pkg/snet"

	"example.com/scion-time/net/udp"
)

// VerifC08ListenUDP exposes listenUDP (the packet connection of ListenQUIC).
func VerifC08ListenUDP(ctx context.Context, localAddr udp.UDPAddr) (net.PacketConn, error) {
	return listenUDP(ctx, localAddr)
}

// VerifC08DialUDP exposes dialUDP (the packet connection of DialQUIC).
func VerifC08DialUDP(ctx context.Context, localAddr, remoteAddr udp.UDPAddr, path snet.Path) (net.PacketConn, error) {
	return dialUDP(ctx, localAddr, remoteAddr, path)
}

// VerifC08AddrPath opens the address value the server-side connection returns
// from ReadFrom: remote address, reply path, underlay next hop.
func VerifC08AddrPath(a net.Addr) (udp.UDPAddr, snet.DataplanePath, net.Addr, bool) {
	ap, ok := a.(udpAddrPath)
	if !ok {
		return udp.UDPAddr{}, nil, nil, false
	}
	return ap.addr, ap.path, ap.nextHop, true
}
