//go:build verif

package scion

// Hooks for the C15 correspondence harness (multipath rounds on one Pather). Add-only;
// compiled only with the build tag "verif".

import (
	"log/slog"

	"github.com/scionproto/scion/pkg/addr"
	"github.com/scionproto/scion/pkg/snet"
)

// VerifC15NewPather returns a Pather without a daemon connection or refresh goroutine whose
// path table is the given one (what update() would have stored after a daemon lookup).
func VerifC15NewPather(log *slog.Logger, localIA addr.IA, paths map[addr.IA][]snet.Path) *Pather {
	return &Pather{log: log, localIA: localIA, paths: paths}
}

// VerifC15Held returns the Pather's own slice for dst (not a copy): what it will offer next.
func VerifC15Held(p *Pather, dst addr.IA) []snet.Path {
	p.mu.Lock()
	defer p.mu.Unlock()
	return p.paths[dst]
}
