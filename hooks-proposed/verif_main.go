//go:build verif

package main

// Hook for the verification harness (harness/cmd/cmain; properties C01, C03, C15, C20).
// Add-only; compiled only with the build tag "verif". Without VERIF_MAIN_HARNESS=1 in the
// environment the binary behaves exactly as before.
//
// With VERIF_MAIN_HARNESS=1 the process does not run main(): it reads one op per line from
// stdin, calls the REAL unexported configuration / constructor functions of timeservice.go and
// prints one canonical answer line per op (`ok …`, `err …`, `panic <class>`, `bad-op`), then
// exits at end of input. logbase.Fatal (log + os.Exit(1)) is reported as the answer
// `err fatal:<message>` of the op that was running (the process then exits, the harness
// starts a new one).

import (
	"bufio"
	"context"
	"crypto/tls"
	"fmt"
	"log/slog"
	"math"
	"net"
	"os"
	"runtime"
	"strconv"
	"strings"

	"github.com/scionproto/scion/pkg/snet"

	"example.com/scion-time/core/client"
	"example.com/scion-time/core/measurements"
	"example.com/scion-time/net/ntske"
	"example.com/scion-time/net/udp"
)

func init() {
	if os.Getenv("VERIF_MAIN_HARNESS") != "1" {
		return
	}
	verifMainLoop()
	os.Exit(0)
}

// verifFatalHandler turns the record written by logbase.Fatal into the answer line.
type verifFatalHandler struct{}

func (verifFatalHandler) Enabled(_ context.Context, l slog.Level) bool { return l >= slog.LevelError }
func (verifFatalHandler) Handle(_ context.Context, r slog.Record) error {
	fmt.Fprintln(os.Stdout, "err fatal:"+strings.ReplaceAll(r.Message, " ", "_"))
	return nil
}
func (h verifFatalHandler) WithAttrs([]slog.Attr) slog.Handler { return h }
func (h verifFatalHandler) WithGroup(string) slog.Handler      { return h }

func verifMainLoop() {
	slog.SetDefault(slog.New(verifFatalHandler{}))
	sc := bufio.NewScanner(os.Stdin)
	sc.Buffer(make([]byte, 1<<16), 1<<22)
	for sc.Scan() {
		line := sc.Text()
		if line == "" || strings.HasPrefix(line, "#") {
			fmt.Fprintln(os.Stdout, line)
			continue
		}
		fmt.Fprintln(os.Stdout, verifTry(func() string { return verifExec(strings.Fields(line)) }))
	}
}

func verifTry(f func() string) (res string) {
	defer func() {
		if r := recover(); r != nil {
			if s, ok := r.(string); ok && s == "bad-op" {
				res = "bad-op"
				return
			}
			res = "panic " + verifPanicClass(r)
		}
	}()
	return f()
}

// same classes as the harness library's PanicClass
func verifPanicClass(r any) string {
	var s string
	switch v := r.(type) {
	case runtime.Error:
		s = v.Error()
	case error:
		s = v.Error()
	case string:
		s = v
	default:
		s = fmt.Sprint(v)
	}
	switch {
	case strings.Contains(s, "index out of range"):
		return "index"
	case strings.Contains(s, "slice bounds out of range"):
		return "slice"
	case strings.Contains(s, "nil pointer"):
		return "nil"
	case strings.Contains(s, "integer divide by zero"):
		return "div0"
	}
	s = strings.ReplaceAll(s, " ", "_")
	if len(s) > 60 {
		s = s[:60]
	}
	return "explicit:" + s
}

// ---------------------------------------------------------------- parsing of op tokens

func verifKV(t []string, key string) string {
	for _, x := range t {
		if strings.HasPrefix(x, key+"=") {
			return x[len(key)+1:]
		}
	}
	panic("bad-op")
}

// "-" is the empty string
func verifStr(s string) string {
	if s == "-" {
		return ""
	}
	return s
}

func verifTok(s string) string {
	if s == "" {
		return "-"
	}
	return strings.Map(func(r rune) rune {
		if r <= ' ' || r == 0x7f {
			return '_'
		}
		return r
	}, s)
}

func verifBool(s string) bool {
	switch s {
	case "0":
		return false
	case "1":
		return true
	}
	panic("bad-op")
}

func verifB(b bool) string {
	if b {
		return "1"
	}
	return "0"
}

func verifList(s string) []string {
	if !strings.HasPrefix(s, "[") || !strings.HasSuffix(s, "]") {
		panic("bad-op")
	}
	s = s[1 : len(s)-1]
	if s == "" {
		return nil
	}
	l := strings.Split(s, ",")
	for i := range l {
		l[i] = verifStr(l[i])
	}
	return l
}

func verifU8(s string) uint8 {
	v, err := strconv.ParseUint(s, 10, 8)
	if err != nil {
		panic("bad-op")
	}
	return uint8(v)
}

func verifF64(s string) float64 {
	if len(s) != 16 {
		panic("bad-op")
	}
	v, err := strconv.ParseUint(s, 16, 64)
	if err != nil {
		panic("bad-op")
	}
	return math.Float64frombits(v)
}

func verifF64Hex(f float64) string {
	if f != f {
		return "7ff8000000000001" // every NaN is printed as this one (as the model does)
	}
	return fmt.Sprintf("%016x", math.Float64bits(f))
}

func verifSCIONAddr(s string) udp.UDPAddr {
	a, err := snet.ParseUDPAddr(s)
	if err != nil {
		panic("bad-op")
	}
	return udp.UDPAddrFromSnet(a)
}

func verifIPAddr(s string) *net.UDPAddr {
	a, err := net.ResolveUDPAddr("udp", s)
	if err != nil {
		panic("bad-op")
	}
	return a
}

func verifSCIONAddrStr(a udp.UDPAddr) string {
	if a.Host == nil {
		return "-"
	}
	return verifTok(a.String())
}

func verifIPAddrStr(a *net.UDPAddr) string {
	if a == nil {
		return "-"
	}
	return verifTok(a.String())
}

// ---------------------------------------------------------------- canonical renderings

func verifTLS(c *tls.Config) string {
	alpn := make([]string, len(c.NextProtos))
	for i, p := range c.NextProtos {
		alpn[i] = verifTok(p)
	}
	return fmt.Sprintf("sn=%s alpn=[%s] min=%d max=%d insec=%s", verifTok(c.ServerName), strings.Join(alpn, ","),
		c.MinVersion, c.MaxVersion, verifB(c.InsecureSkipVerify))
}

func verifFetcher(f *ntske.Fetcher, log *slog.Logger) string {
	return fmt.Sprintf("%s port=%s flog=%s quic=%s qd=%s ql=%s qr=%s", verifTLS(&f.TLSConfig), verifTok(f.Port),
		verifB(f.Log != nil && f.Log == log), verifB(f.QUIC.Enabled), verifTok(f.QUIC.DaemonAddr),
		verifSCIONAddrStr(f.QUIC.LocalAddr), verifSCIONAddrStr(f.QUIC.RemoteAddr))
}

func verifFilter(f measurements.Filter) string {
	switch f.(type) {
	case nil:
		return "nil"
	case *client.NtimedFilter:
		return "ntimed"
	}
	return verifTok(fmt.Sprintf("other:%T", f))
}

func verifIPClient(c *client.IPClient, log *slog.Logger) string {
	return fmt.Sprintf("il=%s dscp=%d filt=%s hist=%s log=%s auth=%s %s", verifB(c.InterleavedMode), c.DSCP,
		verifFilter(c.Filter), verifB(c.Histogram != nil), verifB(c.Log != nil && c.Log == log), verifB(c.Auth.Enabled),
		verifFetcher(&c.Auth.NTSKEFetcher, log))
}

func verifSCIONClient(c *client.SCIONClient, log *slog.Logger) string {
	return fmt.Sprintf("il=%s dscp=%d filt=%s hist=%s log=%s auth=%s nts=%s drkey=%s %s", verifB(c.InterleavedMode), c.DSCP,
		verifFilter(c.Filter), verifB(c.Histogram != nil), verifB(c.Log != nil && c.Log == log), verifB(c.Auth.Enabled),
		verifB(c.Auth.NTSEnabled), verifB(c.Auth.DRKeyFetcher != nil), verifFetcher(&c.Auth.NTSKEFetcher, log))
}

// verifIDs numbers objects by first occurrence: pairwise distinct objects give [0,1,2,…].
func verifIDs[T comparable](xs []T) string {
	var seen []T
	ids := make([]string, len(xs))
	for i, x := range xs {
		k := -1
		for j, y := range seen {
			if x == y {
				k = j
				break
			}
		}
		if k < 0 {
			k = len(seen)
			seen = append(seen, x)
		}
		ids[i] = strconv.Itoa(k)
	}
	return "[" + strings.Join(ids, ",") + "]"
}

// ---------------------------------------------------------------- ops

func verifExec(t []string) string {
	log := slog.New(verifFatalHandler{})
	switch t[0] {
	case "main.ntskesrv":
		// main.ntskesrv <remote address string>
		if len(t) != 2 {
			return "bad-op"
		}
		return "ok " + verifTok(ntskeServerFromRemoteAddr(verifStr(t[1])))

	case "main.cfg.ipnts":
		// main.cfg.ipnts ntske=<host:port> insec=<0|1>
		if len(t) != 3 {
			return "bad-op"
		}
		c := &client.IPClient{}
		configureIPClientNTS(c, verifStr(verifKV(t, "ntske")), verifBool(verifKV(t, "insec")), log)
		return "ok " + verifIPClient(c, log)

	case "main.cfg.scionnts":
		// main.cfg.scionnts ntske= insec= daemon= local=<ia,host:port> remote=<ia,host:port>
		if len(t) != 6 {
			return "bad-op"
		}
		c := &client.SCIONClient{}
		configureSCIONClientNTS(c, verifStr(verifKV(t, "ntske")), verifBool(verifKV(t, "insec")),
			verifStr(verifKV(t, "daemon")), verifSCIONAddr(verifKV(t, "local")), verifSCIONAddr(verifKV(t, "remote")), log)
		return "ok " + verifSCIONClient(c, log)

	case "main.refclk.ip":
		// main.refclk.ip dscp= auth=[m,…] ntske= insec= local=<host:port> remote=<host:port>
		if len(t) != 7 {
			return "bad-op"
		}
		la, ra := verifIPAddr(verifKV(t, "local")), verifIPAddr(verifKV(t, "remote"))
		c := newNTPReferenceClockIP(log, la, ra, verifU8(verifKV(t, "dscp")), verifList(verifKV(t, "auth")),
			verifStr(verifKV(t, "ntske")), verifBool(verifKV(t, "insec")))
		return fmt.Sprintf("ok clog=%s local=%s remote=%s same=%s cfg: %s", verifB(c.log == log),
			verifIPAddrStr(c.localAddr), verifIPAddrStr(c.remoteAddr), verifB(c.localAddr == la && c.remoteAddr == ra),
			verifIPClient(c.ntpc, log))

	case "main.refclk.scion":
		// main.refclk.scion dscp= auth=[m,…] ntske= insec= daemon= local=<ia,host:port> remote=<ia,host:port>
		if len(t) != 8 {
			return "bad-op"
		}
		c := newNTPReferenceClockSCION(log, verifStr(verifKV(t, "daemon")), verifSCIONAddr(verifKV(t, "local")),
			verifSCIONAddr(verifKV(t, "remote")), verifU8(verifKV(t, "dscp")), verifList(verifKV(t, "auth")),
			verifStr(verifKV(t, "ntske")), verifBool(verifKV(t, "insec")))
		n := len(c.ntpcs)
		cfgs := make([]string, n)
		filters := make([]measurements.Filter, n)
		tlscs := make([]*tls.Config, n)
		for i, x := range c.ntpcs {
			if x == nil {
				return "err nil-client"
			}
			cfgs[i] = verifSCIONClient(x, log)
			filters[i] = x.Filter
			tlscs[i] = &x.Auth.NTSKEFetcher.TLSConfig
		}
		uniform := true
		for _, s := range cfgs {
			uniform = uniform && s == cfgs[0]
		}
		// own state of a previous exchange: mark client i with i, then read every mark back
		for i, x := range c.ntpcs {
			client.VerifC15SetPrev(x, "verif-ref", strconv.Itoa(i), true)
		}
		marks := make([]string, n)
		for i, x := range c.ntpcs {
			_, marks[i], _ = client.VerifC15Prev(x)
			if !x.InInterleavedMode() || x.InterleavedModePath() != marks[i] {
				return "err prev-not-readable"
			}
		}
		// … and forgetting one client's exchange does not touch the others
		c.ntpcs[0].ResetInterleavedMode()
		stillil := 0
		for _, x := range c.ntpcs[1:] {
			if x.InInterleavedMode() {
				stillil++
			}
		}
		return fmt.Sprintf("ok n=%d ids=%s fids=%s tids=%s prev=[%s] kept=%d uniform=%s clog=%s local=%s remote=%s pather=%s cfg: %s",
			n, verifIDs(c.ntpcs[:]), verifIDs(filters), verifIDs(tlscs), strings.Join(marks, ","), stillil, verifB(uniform),
			verifB(c.log == log), verifSCIONAddrStr(c.localAddr), verifSCIONAddrStr(c.remoteAddr), verifB(c.pather != nil), cfgs[0])

	case "main.tlscfg":
		// main.tlscfg name= cert= key=       (NTS-KE server side, tlsConfig(cfg))
		if len(t) != 4 {
			return "bad-op"
		}
		c := tlsConfig(svcConfig{NTSKEServerName: verifStr(verifKV(t, "name")), NTSKECertFile: verifStr(verifKV(t, "cert")),
			NTSKEKeyFile: verifStr(verifKV(t, "key"))})
		return fmt.Sprintf("ok %s getcert=%s certs=%d", verifTLS(c), verifB(c.GetCertificate != nil), len(c.Certificates))

	case "main.synccfg.bits":
		// main.synccfg.bits ref= peer= cutoff= timeout= interval=     (float64 bit patterns)
		if len(t) != 6 {
			return "bad-op"
		}
		return verifSyncCfg(svcConfig{
			ReferenceClockImpact: verifF64(verifKV(t, "ref")),
			PeerClockImpact:      verifF64(verifKV(t, "peer")),
			PeerClockCutoff:      verifF64(verifKV(t, "cutoff")),
			SyncTimeout:          verifF64(verifKV(t, "timeout")),
			SyncInterval:         verifF64(verifKV(t, "interval")),
		})
	case "main.drift.bits":
		if len(t) != 2 {
			return "bad-op"
		}
		return fmt.Sprintf("ok %d", int64(clockDrift(svcConfig{ClockDrift: verifF64(verifKV(t, "drift"))})))
	case "main.dscp.val":
		if len(t) != 2 {
			return "bad-op"
		}
		return fmt.Sprintf("ok %d", dscp(svcConfig{DSCP: verifU8(verifKV(t, "dscp"))}))

	// the same three through loadConfig (TOML file written by the harness)
	case "main.synccfg.file":
		if len(t) != 2 {
			return "bad-op"
		}
		return verifSyncCfg(loadConfig(verifKV(t, "file")))
	case "main.drift.file":
		if len(t) != 2 {
			return "bad-op"
		}
		return fmt.Sprintf("ok %d", int64(clockDrift(loadConfig(verifKV(t, "file")))))
	case "main.dscp.file":
		if len(t) != 2 {
			return "bad-op"
		}
		return fmt.Sprintf("ok %d", dscp(loadConfig(verifKV(t, "file"))))
	}
	return "bad-op"
}

func verifSyncCfg(cfg svcConfig) string {
	sc := syncConfig(cfg)
	return fmt.Sprintf("ok ref=%s peer=%s cutoff=%d timeout=%d interval=%d", verifF64Hex(sc.ReferenceClockImpact),
		verifF64Hex(sc.PeerClockImpact), int64(sc.PeerClockCutoff), int64(sc.SyncTimeout), int64(sc.SyncInterval))
}
