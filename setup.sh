#!/bin/sh
# setup_cmd: build the framework from files on disk only (offline).
set -e
cd "$(dirname "$0")"
export GOFLAGS=-mod=mod GOPROXY=off
unset GOSUMDB GOTOOLCHAIN || true
mkdir -p .build/bin
(cd harness && cp /repo/go.sum go.sum 2>/dev/null || true)
(cd harness && go build -o ../.build/bin/extract ./extract)
.build/bin/extract -repo /repo -out lean/ScionTime/Gen || true
(cd lean && lake build ScionTime Driver)
# all drivers named in props/*.json
drivers=$(python3 - <<'PY'
import json,glob
s=set()
for p in glob.glob('props/C*.json'):
    for h in json.load(open(p))['harness']: s.add(h['driver'])
print(' '.join(sorted(s)))
PY
)
[ -n "$drivers" ] && (cd lean && lake build $drivers)
# warm the Go build cache for every harness command
for d in harness/cmd/*/; do
  (cd harness && go build -tags verif -o /dev/null ./cmd/$(basename $d)) || true
done
echo setup done
