#!/bin/sh
# MANIFEST.setup_cmd: build the framework from files on disk only (offline).
cd "$(dirname "$0")" && exec ./check --setup
