import Driver.Common
import ScionTime.Model.Collect
open Driver ScionTime.Collect

/-- ops (instants in ns of the bubble's virtual clock):
  col.run <t0> <D> <due>:<ok>:<aware> … [tie=[ids]]
      MeasureClockOffsets entered at t0 with deadline D, one token per reference clock
      (id = position); tie = successes due exactly at max(D,t0) that the collector received
      before it saw the cancellation (scheduler choice observed by the harness).
      -> ok ret=<t> front=[ids] tail=<untouched> last=<t> leak=0|deadlock
  col.entry <len(ms)> <len(refclks)> <busy 0|1>   one call on a client that is idle / busy;
      then (after an accepted call has returned) one more well-formed call
      -> ok <len-panic|refused|accepted> next=<accepted|refused>
  col.guard (e|l)+   enter / leave events on one ReferenceClockClient
      -> ok <accepted|refused|left> …
  The model side runs the transition system `Collect.step` under the schedule that virtual
  time dictates (earliest timer first, equal instants by id); a step that is not enabled in
  the model makes the answer `model-stuck`.
-/
structure Pol where
  tie : List Nat

def lowest (l : List Nat) : Option Nat := l.foldl (fun acc x => match acc with | none => some x | some a => some (min a x)) none

def pick (s : St) (p : Pol) : Option Choice :=
  match s.phase with
  | .loop =>
    if s.i = s.n then some .retFull
    else match lowest (s.sending.map (·.id)) with
      | some id => some (.recv id)
      | none =>
        match lowest ((s.measuring.filter (fun x => decide (x.due ≤ s.now) && p.tie.contains x.id)).map (·.id)) with
        | some id => some (.finish id)
        | none => if s.ctxDone then some .observeCancel else none
  | .done left =>
    if left ≠ 0 then (lowest (s.sending.map (·.id))).map .drain else none

def pickEnv (s : St) (p : Pol) : Option Choice :=
  let _ := p
  match lowest ((s.measuring.filter (fun x => decide (x.due ≤ s.now) && (decide (s.now < s.deadline) || s.ctxDone))).map (·.id)) with
  | some id => some (.finish id)
  | none =>
    match lowest ((s.measuring.filter (fun x => x.aware && s.ctxDone)).map (·.id)) with
    | some id => some (.abort id)
    | none =>
      if ¬ s.ctxDone ∧ s.deadline = s.now then some .cancel
      else match (timers s) with
        | [] => none
        | t :: ts => some (.tick (ts.foldl min t))

def finished (s : St) : Bool :=
  s.measuring.isEmpty && s.sending.isEmpty && (match s.phase with | .done 0 => true | _ => false)

/-- drive the transition system; `none` = the model refused a step of the policy -/
def auto (p : Pol) : Nat → St → Option St
  | 0, s => some s
  | fuel + 1, s =>
    if finished s then some s else
    match (pick s p).orElse (fun _ => pickEnv s p) with
    | none => some s
    | some c => match step s c with
      | some s' => auto p fuel s'
      | none => none

def parseSender (id : Nat) (tok : String) : Option Sender :=
  match tok.splitOn ":" with
  | [d, o, a] =>
    match parseInt? d, parseBool? o, parseBool? a with
    | some d, some o, some a => some { id := id, due := d, ok := o, aware := a }
    | _, _, _ => none
  | _ => none

def parseSenders : Nat → List String → Option (List Sender)
  | _, [] => some []
  | id, t :: rest => do
    let x ← parseSender id t
    let xs ← parseSenders (id + 1) rest
    pure (x :: xs)

/-- the sentinel the harness pre-fills the result slice with (a failed measurement) -/
def sentinel (n : Nat) : List Msg := (List.range n).map (fun k => { id := 1000000 + k, ok := false })

def countTail (ms ms0 : List Msg) (j : Nat) : Nat :=
  ((ms.drop j).zip (ms0.drop j)).filter (fun p => p.1 == p.2) |>.length

def fmtGuard : GuardRes → String
  | .accepted => "accepted" | .refused => "refused" | .left => "left" | .inconsistent => "inconsistent"

def parseEv : String → Option GuardEv
  | "e" => some .enter | "l" => some .leave | _ => none

/-- a leave event is only issued by a caller that was accepted -/
def guardWellFormed (g : Nat) : List GuardEv → Bool
  | [] => true
  | .enter :: rest => guardWellFormed (if g = 0 then 1 else g) rest
  | .leave :: rest => g == 1 && guardWellFormed 0 rest

def stepD (_ : Unit) (toks : List String) : Unit × String :=
  match toks with
  | "col.run" :: t0 :: d :: rest =>
    let tieTok := kv? rest "tie"
    let specs := rest.filter (fun t => !t.startsWith "tie=")
    match parseInt? t0, parseInt? d, parseSenders 0 specs, (match tieTok with | none => some [] | some t => parseIntList? t) with
    | some t0, some d, some senders, some tie =>
      let tie := tie.map Int.toNat
      let tieInstant := max d t0
      let tieOk := tie.all (fun id => senders.any (fun x => x.id == id && x.ok && x.due == tieInstant))
      if 0 ≤ t0 ∧ senders.all (fun x => decide (t0 ≤ x.due)) ∧ tieOk then
        let ms0 := sentinel senders.length
        let s0 := init t0 d senders ms0
        match auto { tie := tie } (8 * senders.length + 16) s0 with
        | none => ((), "model-stuck")
        | some s =>
          let front := (s.ms.take s.j).map (fun m => (m.id : Int))
          let leak := if s.sending.isEmpty && s.measuring.isEmpty then "0" else "deadlock"
          ((), s!"ok ret={s.retAt} front={fmtIntList front} tail={countTail s.ms ms0 s.j} last={s.now} leak={leak}")
      else ((), "bad-op")
    | _, _, _, _ => ((), "bad-op")
  | ["col.entry", a, b, g] =>
    match parseNat? a, parseNat? b, parseNat? g with
    | some a, some b, some g =>
      if g ≤ 1 then
        let r := entry a b g
        let after := (guardStep (if r.2 = .accepted then 0 else r.1) .enter).2  -- next caller, once an accepted call has left
        let f : EntryRes → String := fun x => match x with
          | .lenPanic => "len-panic" | .refused => "refused" | .accepted => "accepted"
        ((), s!"ok {f r.2} next={fmtGuard after}")
      else ((), "bad-op")
    | _, _, _ => ((), "bad-op")
  | "col.guard" :: evs =>
    match evs.mapM parseEv with
    | some evs =>
      if evs ≠ [] ∧ guardWellFormed 0 evs then
        ((), "ok " ++ " ".intercalate ((guardRun 0 evs).2.map fmtGuard))
      else ((), "bad-op")
    | none => ((), "bad-op")
  | _ => ((), "bad-op")

def main : IO Unit := run () stepD
