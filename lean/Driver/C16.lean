import Driver.Common
import ScionTime.Model.Collect
import ScionTime.Model.CollectRounds
open Driver ScionTime.Collect ScionTime.CollectRounds

/-- ops (instants in ns of the bubble's virtual clock):
  col.run <t0> <D> <due>:<ok>:<aware> … [tie=[ids]]
      MeasureClockOffsets entered at t0 with deadline D, one token per reference clock
      (id = position); tie = successes due exactly at max(D,t0) that the collector received
      before it saw the cancellation (scheduler choice observed by the harness).
      -> ok ret=<t> front=[ids] tail=<untouched> last=<t> leak=0|deadlock
  col.entry <len(ms)> <len(refclks)> <busy 0|1>   one call on a client that is idle / busy;
      then (after an accepted call has returned) one more well-formed call
      -> ok <len-panic|refused|accepted> next=<accepted|refused>
  col.guard (e|l)+   enter / leave events on one ReferenceClockClient
      -> ok <accepted|refused|left> …
  col.rounds <t0> <D> <due>:<ok>:<aware> … / <t0> <D> … / …
      several calls of MeasureClockOffsets on ONE client (Model/CollectRounds.lean: the product
      of rounds), round k entered at its t0 (not before the deadline of round k-1), clock ids
      100·k + position; the senders round k leaves behind keep running during the later rounds.
      -> ok ret=<t> front=[ids] tail=<untouched> ; ret=… ; … leak=0|deadlock
  The model side runs the transition system `Collect.step` under the schedule that virtual
  time dictates (earliest timer first, equal instants by id); a step that is not enabled in
  the model makes the answer `model-stuck`.
-/
structure Pol where
  tie : List Nat

def lowest (l : List Nat) : Option Nat := l.foldl (fun acc x => match acc with | none => some x | some a => some (min a x)) none

def pick (s : St) (p : Pol) : Option Choice :=
  match s.phase with
  | .loop =>
    if s.i = s.n then some .retFull
    else match lowest (s.sending.map (·.id)) with
      | some id => some (.recv id)
      | none =>
        match lowest ((s.measuring.filter (fun x => decide (x.due ≤ s.now) && p.tie.contains x.id)).map (·.id)) with
        | some id => some (.finish id)
        | none => if s.ctxDone then some .observeCancel else none
  | .done left =>
    if left ≠ 0 then (lowest (s.sending.map (·.id))).map .drain else none

def pickEnv (s : St) (p : Pol) : Option Choice :=
  let _ := p
  match lowest ((s.measuring.filter (fun x => decide (x.due ≤ s.now) && (decide (s.now < s.deadline) || s.ctxDone))).map (·.id)) with
  | some id => some (.finish id)
  | none =>
    match lowest ((s.measuring.filter (fun x => x.aware && s.ctxDone)).map (·.id)) with
    | some id => some (.abort id)
    | none =>
      if ¬ s.ctxDone ∧ s.deadline = s.now then some .cancel
      else match (timers s) with
        | [] => none
        | t :: ts => some (.tick (ts.foldl min t))

def finished (s : St) : Bool :=
  s.measuring.isEmpty && s.sending.isEmpty && (match s.phase with | .done 0 => true | _ => false)

/-- drive the transition system; `none` = the model refused a step of the policy -/
def auto (p : Pol) : Nat → St → Option St
  | 0, s => some s
  | fuel + 1, s =>
    if finished s then some s else
    match (pick s p).orElse (fun _ => pickEnv s p) with
    | none => some s
    | some c => match step s c with
      | some s' => auto p fuel s'
      | none => none

def parseSender (id : Nat) (tok : String) : Option Sender :=
  match tok.splitOn ":" with
  | [d, o, a] =>
    match parseInt? d, parseBool? o, parseBool? a with
    | some d, some o, some a => some { id := id, due := d, ok := o, aware := a }
    | _, _, _ => none
  | _ => none

def parseSenders : Nat → List String → Option (List Sender)
  | _, [] => some []
  | id, t :: rest => do
    let x ← parseSender id t
    let xs ← parseSenders (id + 1) rest
    pure (x :: xs)

/-- the sentinel the harness pre-fills the result slice with (a failed measurement) -/
def sentinel (n : Nat) : List Msg := (List.range n).map (fun k => { id := 1000000 + k, ok := false })

def countTail (ms ms0 : List Msg) (j : Nat) : Nat :=
  ((ms.drop j).zip (ms0.drop j)).filter (fun p => p.1 == p.2) |>.length

def fmtGuard : GuardRes → String
  | .accepted => "accepted" | .refused => "refused" | .left => "left" | .inconsistent => "inconsistent"

def parseEv : String → Option GuardEv
  | "e" => some .enter | "l" => some .leave | _ => none

/-- a leave event is only issued by a caller that was accepted -/
def guardWellFormed (g : Nat) : List GuardEv → Bool
  | [] => true
  | .enter :: rest => guardWellFormed (if g = 0 then 1 else g) rest
  | .leave :: rest => g == 1 && guardWellFormed 0 rest


/-! ### several rounds on one client: the product system under the schedule virtual time dictates -/

structure Plan where
  t0 : Int
  spec : RoundSpec

/-- environment steps of one round that are not ticks: a measurement call returns, a ctx-aware
    call is cancelled, the round's deadline timer fires -/
def pickEnvNoTick (s : St) : Option Choice :=
  match pickEnv s { tie := [] } with
  | some (.tick _) => none
  | c => c

/-- the first round (oldest first) in which `f` finds a step -/
def firstRound (f : St → Option Choice) : Nat → List Round → Option (Nat × Choice)
  | _, [] => none
  | k, r :: rest => match f r.st with
    | some c => some (k, c)
    | none => firstRound f (k + 1) rest

def minOf : List Int → Option Int
  | [] => none
  | t :: ts => some (ts.foldl min t)

def roundFinished (m : Multi) : Bool := m.rounds.all (fun r => finished r.st)

/-- drive the product; `none` = the model refused a step of the policy -/
def mauto : Nat → List Plan → Multi → Option Multi
  | 0, _, m => some m
  | fuel + 1, plans, m =>
    match firstRound (fun s => pick s { tie := [] }) 0 m.rounds with
    | some (k, c) => (mstep m (.inRound k c)).bind (mauto fuel plans)
    | none =>
      match firstRound pickEnvNoTick 0 m.rounds with
      | some (k, c) => (mstep m (.inRound k c)).bind (mauto fuel plans)
      | none =>
        match plans with
        | p :: rest =>
          if p.t0 = m.now then (mstep m (.start p.spec)).bind (mauto fuel rest)
          else
            match minOf ((mtimers m ++ [p.t0]).filter (fun t => decide (m.now < t))) with
            | some t => (mstep m (.tick t)).bind (mauto fuel plans)
            | none => none
        | [] =>
          if roundFinished m then some m
          else match minOf (mtimers m) with
            | some t => (mstep m (.tick t)).bind (mauto fuel [])
            | none => some m

/-- split the tokens of `col.rounds` at "/" -/
def splitRounds : List String → List (List String)
  | [] => [[]]
  | "/" :: rest => [] :: splitRounds rest
  | t :: rest => match splitRounds rest with
    | g :: gs => (t :: g) :: gs
    | [] => [[t]]

def parsePlan (k : Nat) : List String → Option Plan
  | t0 :: d :: specs => do
    let t0 ← parseInt? t0
    let d ← parseInt? d
    let senders ← parseSenders (100 * k) specs
    if senders.all (fun x => decide (t0 ≤ x.due)) then
      pure { t0 := t0, spec := { deadline := d, senders := senders, ms0 := sentinel senders.length } }
    else none
  | _ => none

def parsePlans : Nat → List (List String) → Option (List Plan)
  | _, [] => some []
  | k, g :: rest => do
    let p ← parsePlan k g
    let ps ← parsePlans (k + 1) rest
    pure (p :: ps)

/-- round k+1 is entered at or after `max deadline t0` of round k (when its collector has returned) -/
def plansOrdered : List Plan → Bool
  | p :: q :: rest => decide (max p.spec.deadline p.t0 ≤ q.t0) && plansOrdered (q :: rest)
  | _ => true

def fmtRound (r : Round) : String :=
  let front := (r.st.ms.take r.st.j).map (fun m => (m.id : Int))
  s!"ret={r.st.retAt} front={fmtIntList front} tail={countTail r.st.ms r.spec.ms0 r.st.j}"

def roundsOp (toks : List String) : String :=
  match parsePlans 0 (splitRounds toks) with
  | some plans =>
    match plans with
    | [] => "bad-op"
    | p0 :: _ =>
      if 0 ≤ p0.t0 ∧ plansOrdered plans then
        let n := plans.foldl (fun acc p => acc + p.spec.senders.length) 0
        match mauto (10 * n + 12 * plans.length + 16) plans (minit 0) with
        | none => "model-stuck"
        | some m =>
          if m.rounds.length ≠ plans.length then "model-stuck" else
          let leak := if m.rounds.all (fun r => r.st.sending.isEmpty && r.st.measuring.isEmpty) then "0" else "deadlock"
          "ok " ++ " ; ".intercalate (m.rounds.map fmtRound) ++ s!" leak={leak}"
      else "bad-op"
  | none => "bad-op"

def stepD (_ : Unit) (toks : List String) : Unit × String :=
  match toks with
  | "col.rounds" :: rest => ((), roundsOp rest)
  | "col.run" :: t0 :: d :: rest =>
    let tieTok := kv? rest "tie"
    let specs := rest.filter (fun t => !t.startsWith "tie=")
    match parseInt? t0, parseInt? d, parseSenders 0 specs, (match tieTok with | none => some [] | some t => parseIntList? t) with
    | some t0, some d, some senders, some tie =>
      let tie := tie.map Int.toNat
      let tieInstant := max d t0
      let tieOk := tie.all (fun id => senders.any (fun x => x.id == id && x.ok && x.due == tieInstant))
      if 0 ≤ t0 ∧ senders.all (fun x => decide (t0 ≤ x.due)) ∧ tieOk then
        let ms0 := sentinel senders.length
        let s0 := init t0 d senders ms0
        match auto { tie := tie } (8 * senders.length + 16) s0 with
        | none => ((), "model-stuck")
        | some s =>
          let front := (s.ms.take s.j).map (fun m => (m.id : Int))
          let leak := if s.sending.isEmpty && s.measuring.isEmpty then "0" else "deadlock"
          ((), s!"ok ret={s.retAt} front={fmtIntList front} tail={countTail s.ms ms0 s.j} last={s.now} leak={leak}")
      else ((), "bad-op")
    | _, _, _, _ => ((), "bad-op")
  | ["col.entry", a, b, g] =>
    match parseNat? a, parseNat? b, parseNat? g with
    | some a, some b, some g =>
      if g ≤ 1 then
        let r := entry a b g
        let after := (guardStep (if r.2 = .accepted then 0 else r.1) .enter).2  -- next caller, once an accepted call has left
        let f : EntryRes → String := fun x => match x with
          | .lenPanic => "len-panic" | .refused => "refused" | .accepted => "accepted"
        ((), s!"ok {f r.2} next={fmtGuard after}")
      else ((), "bad-op")
    | _, _, _ => ((), "bad-op")
  | "col.guard" :: evs =>
    match evs.mapM parseEv with
    | some evs =>
      if evs ≠ [] ∧ guardWellFormed 0 evs then
        ((), "ok " ++ " ".intercalate ((guardRun 0 evs).2.map fmtGuard))
      else ((), "bad-op")
    | none => ((), "bad-op")
  | _ => ((), "bad-op")

def main : IO Unit := run () stepD
