import Driver.Common
import ScionTime.Model.Sync
import Driver.MainSyncOps
import ScionTime.Model.MainCfg
open Driver ScionTime.Sync ScionTime.F64

/-!
ops (see harness/cmd/c01/main.go for the Go side):

  sync.run <refImpact:hex64> <peerImpact:hex64> <cutoff> <timeout> <interval> <drift> <nref> <npeer> <round>*
      -> ok [c1,…,cN]             (argument of adj.Do per round, N = number of round tokens)
       | panic explicit:<msg>     (start-up refusal)
     <round> = <side>/<side> (reference clocks / configured peers); <side> = "-" (no source) or a
     comma-separated list with one action per source:
        o<off>[@<delay>]   answers <off> without error after <delay> ns (default 0)
        c<off>@<delay>     like o, but gives up with an error when the context is done first
        e[@<delay>]        answers with an error
        h                  blocks until the context is done, then answers with an error
     A source is an *in-time success* iff it is o/c with delay < timeout (contract of
     collectMeasurements; delay = timeout is a scheduler race in the real code and is not part
     of the correspondence: bad-op).  The local reference clock is in time iff timeout > 0
     (timeout = 0 with any source configured is the same race: bad-op).
  tm.mid <x> <y>      -> ok <timemath.Midpoint>
  tm.sgn <x>          -> ok <timemath.Sgn>
  dur.abs <x>         -> ok <time.Duration.Abs>
  clk.drift <d> <iv>  -> ok <clocks.NewSystemClock(log, d).Drift(iv)>   (MainCfg.runDrift)
  ftm <[offsets]>     -> ok <offset> <[slice afterwards]> | panic explicit:unexpected_number_of_values
-/

def parseI64? (s : String) : Option Int64 :=
  match parseInt? s with
  | some i => if -9223372036854775808 ≤ i ∧ i ≤ 9223372036854775807 then some (Int64.ofInt i) else none
  | none => none

def fmtI64List (l : List Int64) : String := fmtIntList (l.map Int64.toInt)

/-- one source action → `some (some off)` in-time success, `some none` no contribution,
    `none` unparsable / outside the correspondence -/
def parseAction? (timeout : Int64) (s : String) : Option (Option Int64) :=
  if s = "h" then some none
  else if s = "e" then some none
  else if s.startsWith "e@" then
    match parseI64? (s.drop 2).toString with
    | some d => if d ≥ 0 then some none else none
    | none => none
  else if s.startsWith "o" ∨ s.startsWith "c" then
    let isC := s.startsWith "c"
    let body := (s.drop 1).toString
    match body.splitOn "@" with
    | [o] =>
      if isC then none else
      match parseI64? o with
      | some off => if timeout > 0 then some (some off) else none
      | none => none
    | [o, d] =>
      match parseI64? o, parseI64? d with
      | some off, some d =>
        if d < 0 ∨ d = timeout then none
        else if d < timeout then some (some off) else some none
      | _, _ => none
    | _ => none
  else none

def parseSide? (timeout : Int64) (n : Nat) (s : String) : Option (List Int64) :=
  if s = "-" then (if n = 0 then some [] else none) else
  let parts := s.splitOn ","
  if parts.length ≠ n then none else
  match parts.mapM (parseAction? timeout) with
  | some l => some (l.filterMap id)
  | none => none

def parseRound? (timeout : Int64) (nref npeer : Nat) (s : String) : Option RoundInput :=
  match s.splitOn "/" with
  | [a, b] =>
    match parseSide? timeout nref a, parseSide? timeout npeer b with
    | some r, some p =>
      if timeout = 0 ∧ (nref ≠ 0 ∨ npeer ≠ 0) then none
      else some { ref := r, peer := p, localInTime := decide (timeout > 0) }
    | _, _ => none
  | _ => none

def runOp (toks : List String) : String :=
  match toks with
  | ri :: pi :: cut :: tmo :: ivl :: dr :: nr :: np :: rounds =>
    match parseHex64? ri, parseHex64? pi, parseI64? cut, parseI64? tmo, parseI64? ivl, parseI64? dr,
          parseNat? nr, parseNat? np with
    | some ri, some pi, some cut, some tmo, some ivl, some dr, some nr, some np =>
      let cfg : Cfg := { refImpact := ofBits ri, peerImpact := ofBits pi, cutoff := cut, timeout := tmo,
                         interval := ivl, drift := dr, nRef := nr, nPeer := np }
      if rounds.isEmpty then "bad-op" else
      match rounds.mapM (parseRound? tmo nr np) with
      | none => "bad-op"
      | some h =>
        match ScionTime.Sync.run cfg h with
        | .error e => "panic explicit:" ++ (e.msg.replace " " "_")
        | .ok cs => "ok " ++ fmtI64List cs
    | _, _, _, _, _, _, _, _ => "bad-op"
  | _ => "bad-op"

def step (_ : Unit) (toks : List String) : Unit × String :=
  match toks with
  | "sync.run" :: rest => ((), runOp rest)
  | ["tm.mid", x, y] =>
    match parseI64? x, parseI64? y with
    | some x, some y => ((), s!"ok {(midpoint x y).toInt}")
    | _, _ => ((), "bad-op")
  | ["tm.sgn", x] =>
    match parseI64? x with
    | some x => ((), s!"ok {sgn x}")
    | none => ((), "bad-op")
  | ["dur.abs", x] =>
    match parseI64? x with
    | some x => ((), s!"ok {(absDur x).toInt}")
    | none => ((), "bad-op")
  | ["clk.drift", d, iv] =>
    -- clocks.NewSystemClock(log, d).Drift(iv): the clock timeservice.go hands to Run
    match parseI64? d, parseI64? iv with
    | some d, some iv => ((), s!"ok {ScionTime.MainCfg.runDrift d.toInt iv.toInt}")
    | _, _ => ((), "bad-op")
  | ["ftm", l] =>
    match parseIntList? l with
    | some xs =>
      match xs.mapM (fun i => parseI64? (toString i)) with
      | some ys =>
        match ftmOffsets ys with
        | none => ((), "panic explicit:unexpected_number_of_values")
        | some (s, m) => ((), s!"ok {m.toInt} {fmtI64List s}")
      | none => ((), "bad-op")
    | none => ((), "bad-op")
  | _ =>
    -- main.* : syncConfig / clockDrift / dscp of timeservice.go (harness cmain, part sync)
    match mainSyncStep toks with
    | some a => ((), a)
    | none => ((), "bad-op")

def main : IO Unit := Driver.run () step
