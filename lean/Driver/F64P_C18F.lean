import Driver.F64Ops
import ScionTime.Model.F64P_UnixutilFloat
open Driver ScionTime.F64 ScionTime.F64P_UnixutilFloat

def inInt64 (i : Int) : Bool := -9223372036854775808 ≤ i && i ≤ 9223372036854775807

/-- ops (doubles as 16 hex digits, integers in decimal, int64 range enforced):
  uxf.toppm <freq>            -> ok <int64>          ScaledPPMFromFreq
  uxf.fromppm <int64>         -> ok <freq>           FreqFromScaledPPM
  uxf.rt <int64>              -> ok <int64>          ScaledPPMFromFreq(FreqFromScaledPPM(x))
  uxf.rtf <freq>              -> ok <freq>           FreqFromScaledPPM(ScaledPPMFromFreq(f))
  uxf.drift <drift> <dur>     -> ok <int64>          (&SystemClock{drift}).Drift(dur)
  uxf.driftd <driftns> <dur>  -> ok <int64>          NewSystemClock(_, driftns).Drift(dur)
  f64.*                       -> the shared double ops -/
def step (_ : Unit) (toks : List String) : Unit × String :=
  match toks with
  | ["uxf.toppm", f] =>
    match parseF? f with
    | some x => ((), s!"ok {scaledPPMFromFreq x}")
    | none => ((), "bad-op")
  | ["uxf.fromppm", i] =>
    match parseInt? i with
    | some x => if inInt64 x then ((), s!"ok {fmtF (freqFromScaledPPM x)}") else ((), "bad-op")
    | none => ((), "bad-op")
  | ["uxf.rt", i] =>
    match parseInt? i with
    | some x =>
      if inInt64 x then ((), s!"ok {scaledPPMFromFreq (freqFromScaledPPM x)}") else ((), "bad-op")
    | none => ((), "bad-op")
  | ["uxf.rtf", f] =>
    match parseF? f with
    | some x => ((), s!"ok {fmtF (freqFromScaledPPM (scaledPPMFromFreq x))}")
    | none => ((), "bad-op")
  | ["uxf.drift", c, d] =>
    match parseF? c, parseInt? d with
    | some c, some d => if inInt64 d then ((), s!"ok {drift c d}") else ((), "bad-op")
    | _, _ => ((), "bad-op")
  | ["uxf.driftd", c, d] =>
    match parseInt? c, parseInt? d with
    | some c, some d =>
      if inInt64 c && inInt64 d then ((), s!"ok {driftOfDuration c d}") else ((), "bad-op")
    | _, _ => ((), "bad-op")
  | _ =>
    match f64Step toks with
    | some r => ((), r)
    | none => ((), "bad-op")

def main : IO Unit := run () step
