import Driver.Common
import ScionTime.Model.Sample
import ScionTime.Model.Multipath
import ScionTime.Model.Pather
open Driver ScionTime.Sample ScionTime.Multipath

/-- ops:
  rand.intn <n> <cancelled 0|1> <hexstream>          -> ok <v> <bytes consumed> | err <e> | panic <class>
  rand.sample <k> <n> <cancelled 0|1> <hexstream>     -> ok <k'> [d:s,...] <bytes consumed> | err <e> | panic <class>
  mp.round cs=[<m><r><i><fp>,...] ps=[<fp>,...] s=<hexstream> succ=[<off>|x,...]
        -> ok off=<o> | err <e>   followed by  assign=[pos|-,...] reset=[0|1,...] probes=[n,...] used=<bytes> late=0
        (late=1 on the implementation side: the round returned only because its context expired
         although every participant had been answered — the model's round always finishes)
  fingerprints are tokens; `-` is the empty fingerprint.
  The driver runs the model of the *repaired* code (F11 and F12 repaired).
-/
def f11Fixed : Bool := true
def f12Fixed : Bool := true

def panicClass (msg : String) : String :=
  "explicit:" ++ String.ofList ((msg.toList.map fun c => if c = ' ' then '_' else c).take 60)

def errName : Err → String
  | .exhausted => "exhausted"
  | .cancelled => "cancelled"

def parseList? (s : String) : Option (List String) :=
  if ¬ (s.startsWith "[" ∧ s.endsWith "]") then none else
  let inner := ((s.drop 1).dropEnd 1).toString
  if inner = "" then some [] else some (inner.splitOn ",")

def fpOfTok (t : String) : String := if t = "-" then "" else t

def parseClient? (t : String) : Option Client :=
  match t.toList with
  | m :: r :: i :: fp =>
    let b? (c : Char) : Option Bool := if c = '1' then some true else if c = '0' then some false else none
    match b? m, b? r, b? i with
    | some m, some r, some i =>
      if fp.isEmpty then none else some ⟨m, r, i, fpOfTok (String.ofList fp)⟩
    | _, _, _ => none
  | _ => none

/-- outcome token of a participant: `x` every attempt refused, `<off>` every attempt answered,
    `<off>:<pattern>` attempt k answered iff pattern[k] = '1' (last character repeats). The model's
    input is whether the goroutine's attempt loop (Multipath.attemptLoop) ends without an error. -/
def parseSuccFor? (interleavedMode : Bool) (t : String) : Option (Option Int) :=
  if t = "x" then some none else
  match t.splitOn ":" with
  | [v] => v.toInt?.map some
  | [v, pat] =>
    if pat.isEmpty ∨ pat.toList.any (fun ch => ch ≠ '0' ∧ ch ≠ '1') then none else
    let n := if interleavedMode then 3 else 1
    let outs := (List.range n).map fun k => (pat.toList.getD (min k (pat.length - 1)) '0') == '1'
    v.toInt?.map fun off => if (ScionTime.Multipath.attemptLoop outs).1 then some off else none
  | _ => none

/-- the outcome tokens of a round, read against the clients' configured mode (number of attempts) -/
def parseSuccs? (cs : Option (List ScionTime.Multipath.Client)) (succ : String) : Option (List (Option Int)) :=
  match cs, parseList? succ with
  | some cs, some toks =>
    if toks.length ≠ cs.length then some [] else
    (cs.zip toks).mapM fun (c, t) => parseSuccFor? c.mode t
  | _, _ => none

def fmtOptNats (l : List (Option Nat)) : String :=
  "[" ++ ",".intercalate (l.map fun | some n => toString n | none => "-") ++ "]"

def fmtBools (l : List Bool) : String :=
  "[" ++ ",".intercalate (l.map fun b => if b then "1" else "0") ++ "]"

def fmtPicks (l : List (Nat × Nat)) : String :=
  "[" ++ ",".intercalate (l.map fun (d, s) => s!"{d}:{s}") ++ "]"

def stepPure (toks : List String) : String :=
  match toks with
  | ["rand.intn", n, c, hs] =>
    match parseInt? n, parseBool? c, parseHex? hs with
    | some n, some c, some s =>
      match randIntn n c s with
      | .ok (v, rest) => (s!"ok {v} {s.length - rest.length}")
      | .err e => (s!"err {errName e}")
      | .panic m => (s!"panic {panicClass m}")
    | _, _, _ => ("bad-op")
  | ["rand.sample", k, n, c, hs] =>
    match parseInt? k, parseInt? n, parseBool? c, parseHex? hs with
    | some k, some n, some c, some s =>
      match sample k n c s with
      | .ok (k', picks, rest) => (s!"ok {k'} {fmtPicks picks} {s.length - rest.length}")
      | .err e => (s!"err {errName e}")
      | .panic m => (s!"panic {panicClass m}")
    | _, _, _, _ => ("bad-op")
  | "mp.round" :: rest =>
    match kv? rest "cs", kv? rest "ps", kv? rest "s", kv? rest "succ" with
    | some cs, some ps, some hs, some succ =>
      match (parseList? cs).bind (·.mapM parseClient?), parseList? ps, parseHex? hs,
            parseSuccs? ((parseList? cs).bind (·.mapM parseClient?)) succ with
      | some cs, some ps, some s, some succ =>
        if succ.length ≠ cs.length ∨ rest.length ≠ 4 then ("bad-op") else
        let ps := ps.map fpOfTok
        let out := round ftmLocal f11Fixed f12Fixed cs ps false s succ
        let used : Nat :=
          match assign f11Fixed cs ps false s with
          | (.ok _ r, _) => s.length - r.length
          | (.errNoPath r, _) => s.length - r.length
          | _ => 0
        let tail := s!" assign={fmtOptNats out.assigned} reset={fmtBools out.reset} probes={fmtNatList out.probes} used={used} late=0"
        match out.res with
        | .ok off => (s!"ok off={off}" ++ tail)
        | .errSample e => (s!"err sample:{errName e}" ++ tail)
        | .errNoPath => ("err nopath" ++ tail)
        | .errNoMeasurement => ("err nomeas" ++ tail)
        | .panic m => (s!"panic {panicClass m}")
      | _, _, _, _ => ("bad-op")
    | _, _, _, _ => ("bad-op")
  | _ => ("bad-op")

/-- the answer of one round of the (repaired) model: `out` and the random bytes consumed -/
def fmtRound (out : RoundOut) (used : Nat) : String :=
  let tail := s!" assign={fmtOptNats out.assigned} reset={fmtBools out.reset} probes={fmtNatList out.probes} used={used} late=0"
  match out.res with
  | .ok off => s!"ok off={off}" ++ tail
  | .errSample e => s!"err sample:{errName e}" ++ tail
  | .errNoPath => "err nopath" ++ tail
  | .errNoMeasurement => "err nomeas" ++ tail
  | .panic m => s!"panic {panicClass m}"

/-- State of the driver: the path table of the Pather of the current history (`pa.set`), paths
    identified by their position in that table. Every `pa.round` is
    `refclkRound pathsCopy` (Model/Multipath.lean) on a memory holding just the table.
    `pd.*`: the Pather behind the scripted daemon (Model/Pather.lean): its table and the configured
    destination list; `pd.round` is the same `refclkRound pathsCopy` on what `Paths(a)` offers. -/
structure St where
  pa : Option (List Path) := none
  pd : Option (ScionTime.Pather.Table × List Nat) := none

/-- the model of `update` the driver runs: the repaired code (a repeated destination IA is
    looked up and entered once) -/
def patherDedup : Bool := true

def iaLocal : Nat := 281474976710656 + 0xff0000000111
def iaOfName : String → Option Nat
  | "a" => some (281474976710656 + 0xff0000000112)
  | "b" => some (281474976710656 + 0xff0000000113)
  | "c" => some (2 * 281474976710656 + 0xff0000000211)
  | "w" => some 281474976710656
  | _ => none

def canonNat? (x : String) : Option Nat :=
  match x.toNat? with
  | some j => if toString j = x then some j else none
  | none => none

/-- `a:0.1.2;b:e;c:` -> per destination: error or the list of paths (socket index, fingerprint q<j>) -/
def parseAns? (s : String) : Option (List (Nat × Option (List Path))) :=
  let parts := s.splitOn ";"
  let r := parts.mapM fun part =>
    match part.splitOn ":" with
    | [n, spec] =>
      match iaOfName n with
      | none => none
      | some ia =>
        if n = "w" then none
        else if spec = "e" then some (ia, none)
        else if spec = "" then some (ia, some [])
        else
          match (spec.splitOn ".").mapM canonNat? with
          | some js => if js.all (· < 16) then some (ia, some (js.map fun j => (j, s!"q{j}"))) else none
          | none => none
    | _ => none
  match r with
  | some l =>
    if (l.map (·.1)).eraseDups.length = l.length ∧ ["a", "b", "c"].all (fun n => (iaOfName n).any fun ia => l.any (·.1 == ia))
    then some l else none
  | none => none

def daemonOf (lia : Bool) (l : List (Nat × Option (List Path))) : ScionTime.Pather.Daemon :=
  { localIA := if lia then some iaLocal else none
    paths := fun ia => match l.find? (·.1 == ia) with
                       | some (_, some ps) => some ps
                       | _ => none }

def fmtPd (t : ScionTime.Pather.Table) : String :=
  let lia := if t.localIA = iaLocal then "1" else if t.localIA = 0 then "0" else "other"
  let one (n : String) : String :=
    match (iaOfName n).bind t.pathsOf with
    | none => s!" {n}=-"
    | some ps => s!" {n}=" ++ fmtNatList (ps.map (·.1))
  s!"ok lia={lia}" ++ one "a" ++ one "b" ++ one "c"

def pdUpdate (st : St) (t : ScionTime.Pather.Table) (dsts : List Nat) (lia ans : String) : St × String :=
  match parseBool? lia, parseAns? ans with
  | some lia, some l =>
    match ScionTime.Pather.update patherDedup t (daemonOf lia l) dsts with
    | .panicWildcard => ({ st with pd := none }, "panic " ++ panicClass "unexpected destination IA: wildcard.")
    | .done t' => ({ st with pd := some (t', dsts) }, fmtPd t')
  | _, _ => (st, "bad-op")

/-- one round of the reference clock on `table` (what `Paths` offers): answer and the table afterwards -/
def roundOn (table : List Path) (cs : List Client) (s : Stream) (succ : List (Option Int)) : String × List Path :=
  let (out, m') := refclkRound pathsCopy ftmLocal f11Fixed f12Fixed [table] 0 cs false s succ
  let table' := m'.getD 0 []
  let used : Nat :=
    match assignFrom (stickyLoop f11Fixed cs table) false s with
    | (.ok _ r, _) => s.length - r.length
    | (.errNoPath r, _) => s.length - r.length
    | _ => 0
  (fmtRound out used, table')

def step (st : St) (toks : List String) : St × String :=
  match toks with
  | ["pa.set", ps] =>
    match (kv? [ps] "ps").bind parseList? with
    | some ps =>
      if ps.length > 16 then (st, "bad-op")
      else ({ st with pa := some (offeredPaths (ps.map fpOfTok)) }, s!"ok n={ps.length}")
    | none => (st, "bad-op")
  | "pa.round" :: rest =>
    match kv? rest "cs", kv? rest "s", kv? rest "succ" with
    | some cs, some hs, some succ =>
      match (parseList? cs).bind (·.mapM parseClient?), parseHex? hs, parseSuccs? ((parseList? cs).bind (·.mapM parseClient?)) succ with
      | some cs, some s, some succ =>
        if succ.length ≠ cs.length ∨ rest.length ≠ 3 then (st, "bad-op") else
        match st.pa with
        | none => (st, "err nopather")
        | some table =>
          let (ans, table') := roundOn table cs s succ
          let ix (l : List Path) := fmtNatList (l.map (·.1))
          if ans.startsWith "panic" then ({ st with pa := some table' }, ans)
          else ({ st with pa := some table' }, ans ++ s!" offered={ix table} held={ix table'}")
      | _, _, _ => (st, "bad-op")
    | _, _, _ => (st, "bad-op")
  | "pd.start" :: rest =>
    match kv? rest "via", kv? rest "dst", kv? rest "lia", kv? rest "ans" with
    | some via, some dst, some lia, some ans =>
      if rest.length ≠ 4 ∨ ¬ (via = "start" ∨ via = "hook") then (st, "bad-op") else
      match (parseList? dst).bind (·.mapM iaOfName) with
      | some dsts => pdUpdate { st with pd := none } {} dsts lia ans
      | none => (st, "bad-op")
    | _, _, _, _ => (st, "bad-op")
  | "pd.refresh" :: rest =>
    match kv? rest "lia", kv? rest "ans" with
    | some lia, some ans =>
      if rest.length ≠ 2 then (st, "bad-op") else
      match st.pd with
      | none => (st, "err nopather")
      | some (t, dsts) => pdUpdate st t dsts lia ans
    | _, _ => (st, "bad-op")
  | "pd.round" :: rest =>
    match kv? rest "cs", kv? rest "s", kv? rest "succ" with
    | some cs, some hs, some succ =>
      match (parseList? cs).bind (·.mapM parseClient?), parseHex? hs, parseSuccs? ((parseList? cs).bind (·.mapM parseClient?)) succ with
      | some cs, some s, some succ =>
        if succ.length ≠ cs.length ∨ rest.length ≠ 3 then (st, "bad-op") else
        match st.pd with
        | none => (st, "err nopather")
        | some (t, _) =>
          let table := ((iaOfName "a").bind t.pathsOf).getD []
          let (ans, _) := roundOn table cs s succ
          if ans.startsWith "panic" then (st, ans)
          else (st, ans ++ s!" offered={fmtNatList (table.map (·.1))}")
      | _, _, _ => (st, "bad-op")
    | _, _, _ => (st, "bad-op")
  | _ => (st, stepPure toks)

def main : IO Unit := run ({} : St) step
