import Driver.Common
import ScionTime.Model.Sample
import ScionTime.Model.Multipath
open Driver ScionTime.Sample ScionTime.Multipath

/-- ops:
  rand.intn <n> <cancelled 0|1> <hexstream>          -> ok <v> <bytes consumed> | err <e> | panic <class>
  rand.sample <k> <n> <cancelled 0|1> <hexstream>     -> ok <k'> [d:s,...] <bytes consumed> | err <e> | panic <class>
  mp.round cs=[<m><r><i><fp>,...] ps=[<fp>,...] s=<hexstream> succ=[<off>|x,...]
        -> ok off=<o> | err <e>   followed by  assign=[pos|-,...] reset=[0|1,...] probes=[n,...] used=<bytes> late=0
        (late=1 on the implementation side: the round returned only because its context expired
         although every participant had been answered — the model's round always finishes)
  fingerprints are tokens; `-` is the empty fingerprint.
  The driver runs the model of the *repaired* code (F11 and F12 repaired).
-/
def f11Fixed : Bool := true
def f12Fixed : Bool := true

def panicClass (msg : String) : String :=
  "explicit:" ++ String.ofList ((msg.toList.map fun c => if c = ' ' then '_' else c).take 60)

def errName : Err → String
  | .exhausted => "exhausted"
  | .cancelled => "cancelled"

def parseList? (s : String) : Option (List String) :=
  if ¬ (s.startsWith "[" ∧ s.endsWith "]") then none else
  let inner := ((s.drop 1).dropEnd 1).toString
  if inner = "" then some [] else some (inner.splitOn ",")

def fpOfTok (t : String) : String := if t = "-" then "" else t

def parseClient? (t : String) : Option Client :=
  match t.toList with
  | m :: r :: i :: fp =>
    let b? (c : Char) : Option Bool := if c = '1' then some true else if c = '0' then some false else none
    match b? m, b? r, b? i with
    | some m, some r, some i =>
      if fp.isEmpty then none else some ⟨m, r, i, fpOfTok (String.ofList fp)⟩
    | _, _, _ => none
  | _ => none

/-- outcome token of a participant: `x` every attempt refused, `<off>` every attempt answered,
    `<off>:<pattern>` attempt k answered iff pattern[k] = '1' (last character repeats). The model's
    input is whether the goroutine's attempt loop (Multipath.attemptLoop) ends without an error. -/
def parseSuccFor? (interleavedMode : Bool) (t : String) : Option (Option Int) :=
  if t = "x" then some none else
  match t.splitOn ":" with
  | [v] => v.toInt?.map some
  | [v, pat] =>
    if pat.isEmpty ∨ pat.toList.any (fun ch => ch ≠ '0' ∧ ch ≠ '1') then none else
    let n := if interleavedMode then 3 else 1
    let outs := (List.range n).map fun k => (pat.toList.getD (min k (pat.length - 1)) '0') == '1'
    v.toInt?.map fun off => if (ScionTime.Multipath.attemptLoop outs).1 then some off else none
  | _ => none

/-- the outcome tokens of a round, read against the clients' configured mode (number of attempts) -/
def parseSuccs? (cs : Option (List ScionTime.Multipath.Client)) (succ : String) : Option (List (Option Int)) :=
  match cs, parseList? succ with
  | some cs, some toks =>
    if toks.length ≠ cs.length then some [] else
    (cs.zip toks).mapM fun (c, t) => parseSuccFor? c.mode t
  | _, _ => none

def fmtOptNats (l : List (Option Nat)) : String :=
  "[" ++ ",".intercalate (l.map fun | some n => toString n | none => "-") ++ "]"

def fmtBools (l : List Bool) : String :=
  "[" ++ ",".intercalate (l.map fun b => if b then "1" else "0") ++ "]"

def fmtPicks (l : List (Nat × Nat)) : String :=
  "[" ++ ",".intercalate (l.map fun (d, s) => s!"{d}:{s}") ++ "]"

def stepPure (toks : List String) : String :=
  match toks with
  | ["rand.intn", n, c, hs] =>
    match parseInt? n, parseBool? c, parseHex? hs with
    | some n, some c, some s =>
      match randIntn n c s with
      | .ok (v, rest) => (s!"ok {v} {s.length - rest.length}")
      | .err e => (s!"err {errName e}")
      | .panic m => (s!"panic {panicClass m}")
    | _, _, _ => ("bad-op")
  | ["rand.sample", k, n, c, hs] =>
    match parseInt? k, parseInt? n, parseBool? c, parseHex? hs with
    | some k, some n, some c, some s =>
      match sample k n c s with
      | .ok (k', picks, rest) => (s!"ok {k'} {fmtPicks picks} {s.length - rest.length}")
      | .err e => (s!"err {errName e}")
      | .panic m => (s!"panic {panicClass m}")
    | _, _, _, _ => ("bad-op")
  | "mp.round" :: rest =>
    match kv? rest "cs", kv? rest "ps", kv? rest "s", kv? rest "succ" with
    | some cs, some ps, some hs, some succ =>
      match (parseList? cs).bind (·.mapM parseClient?), parseList? ps, parseHex? hs,
            parseSuccs? ((parseList? cs).bind (·.mapM parseClient?)) succ with
      | some cs, some ps, some s, some succ =>
        if succ.length ≠ cs.length ∨ rest.length ≠ 4 then ("bad-op") else
        let ps := ps.map fpOfTok
        let out := round ftmLocal f11Fixed f12Fixed cs ps false s succ
        let used : Nat :=
          match assign f11Fixed cs ps false s with
          | (.ok _ r, _) => s.length - r.length
          | (.errNoPath r, _) => s.length - r.length
          | _ => 0
        let tail := s!" assign={fmtOptNats out.assigned} reset={fmtBools out.reset} probes={fmtNatList out.probes} used={used} late=0"
        match out.res with
        | .ok off => (s!"ok off={off}" ++ tail)
        | .errSample e => (s!"err sample:{errName e}" ++ tail)
        | .errNoPath => ("err nopath" ++ tail)
        | .errNoMeasurement => ("err nomeas" ++ tail)
        | .panic m => (s!"panic {panicClass m}")
      | _, _, _, _ => ("bad-op")
    | _, _, _, _ => ("bad-op")
  | _ => ("bad-op")

/-- the answer of one round of the (repaired) model: `out` and the random bytes consumed -/
def fmtRound (out : RoundOut) (used : Nat) : String :=
  let tail := s!" assign={fmtOptNats out.assigned} reset={fmtBools out.reset} probes={fmtNatList out.probes} used={used} late=0"
  match out.res with
  | .ok off => s!"ok off={off}" ++ tail
  | .errSample e => s!"err sample:{errName e}" ++ tail
  | .errNoPath => "err nopath" ++ tail
  | .errNoMeasurement => "err nomeas" ++ tail
  | .panic m => s!"panic {panicClass m}"

/-- State of the driver: the path table of the Pather of the current history (`pa.set`), paths
    identified by their position in that table. Every `pa.round` is
    `refclkRound pathsCopy` (Model/Multipath.lean) on a memory holding just the table. -/
abbrev St := Option (List Path)

def step (st : St) (toks : List String) : St × String :=
  match toks with
  | ["pa.set", ps] =>
    match (kv? [ps] "ps").bind parseList? with
    | some ps =>
      if ps.length > 16 then (st, "bad-op")
      else (some (offeredPaths (ps.map fpOfTok)), s!"ok n={ps.length}")
    | none => (st, "bad-op")
  | "pa.round" :: rest =>
    match kv? rest "cs", kv? rest "s", kv? rest "succ" with
    | some cs, some hs, some succ =>
      match (parseList? cs).bind (·.mapM parseClient?), parseHex? hs, parseSuccs? ((parseList? cs).bind (·.mapM parseClient?)) succ with
      | some cs, some s, some succ =>
        if succ.length ≠ cs.length ∨ rest.length ≠ 3 then (st, "bad-op") else
        match st with
        | none => (st, "err nopather")
        | some table =>
          let (out, m') := refclkRound pathsCopy ftmLocal f11Fixed f12Fixed [table] 0 cs false s succ
          let table' := m'.getD 0 []
          let used : Nat :=
            match assignFrom (stickyLoop f11Fixed cs table) false s with
            | (.ok _ r, _) => s.length - r.length
            | (.errNoPath r, _) => s.length - r.length
            | _ => 0
          let ix (l : List Path) := fmtNatList (l.map (·.1))
          let ans := fmtRound out used
          if ans.startsWith "panic" then (some table', ans)
          else (some table', ans ++ s!" offered={ix table} held={ix table'}")
      | _, _, _ => (st, "bad-op")
    | _, _, _ => (st, "bad-op")
  | _ => (st, stepPure toks)

def main : IO Unit := run (none : St) step
