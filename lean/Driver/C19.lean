import Driver.F64Ops
import ScionTime.Model.Pll
open Driver ScionTime.F64 ScionTime.Pll

/-- ops:
  pll.new                                                   -> ok
  pll.do <epoch> <sec> <nsec> <offset> <weight:hex16> pow=<hex16> [rc]
      (rc: the harness's clock moves its epoch on inside Step, as driver/clocks does; Do reads the
       epoch only before any Step, so the model's answer is the same)
      -> ok e=<epoch> m=<mode> t0=<sec>:<ns> t=<sec>:<ns> a=<hex16> b=<hex16> i=<hex16> [step:<d>] [adj:<off>:<dur>:<hex16>]
       | panic explicit:unexpected_clock_behavior | panic explicit:unexpected_PLL_mode
  (f64.* ops are answered as in drv_f64)
-/
def fmtTime (t : Int) : String := s!"{t / 1000000000}:{t % 1000000000}"

def fmtAction : Action → String
  | .step d => s!" step:{d}"
  | .adjust o d f => s!" adj:{o}:{d}:{fmtF f}"

def fmtState (s : State) : String :=
  s!"e={s.epoch} m={s.mode} t0={fmtTime s.t0} t={fmtTime s.t} a={fmtF s.a} b={fmtF s.b} i={fmtF s.i}"

def pllDo (s : State) (e sec ns off w pw : String) : State × String :=
  match parseNat? e, parseInt? sec, parseInt? ns, parseInt? off, parseF? w, (kv? [pw] "pow").bind parseF? with
  | some e, some sec, some ns, some off, some w, some pw =>
    if e < 2 ^ 64 ∧ 0 ≤ ns ∧ ns < 1000000000 ∧ -1099511627776 ≤ sec ∧ sec ≤ 1099511627776
        ∧ minI64 ≤ off ∧ off ≤ maxI64 then
      match ScionTime.Pll.step s e (sec * 1000000000 + ns) off w pw with
      | .ok s' acts => (s', s!"ok {fmtState s'}{String.join (acts.map fmtAction)}")
      | .panic .clock => (s, "panic explicit:unexpected_clock_behavior")
      | .panic .mode => (s, "panic explicit:unexpected_PLL_mode")
    else (s, "bad-op")
  | _, _, _, _, _, _ => (s, "bad-op")

def step (s : State) (toks : List String) : State × String :=
  match toks with
  | ["pll.new"] => (ScionTime.Pll.init, "ok")
  | ["pll.do", e, sec, ns, off, w, pw, "rc"] => pllDo s e sec ns off w pw
  | ["pll.do", e, sec, ns, off, w, pw] => pllDo s e sec ns off w pw
  | _ =>
    match f64Step toks with
    | some r => (s, r)
    | none => (s, "bad-op")

def main : IO Unit := run ScionTime.Pll.init step
