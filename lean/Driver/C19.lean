import Driver.F64Ops
import ScionTime.Model.Pll
import ScionTime.Model.PllClock
open Driver ScionTime.F64 ScionTime.Pll

/-- ops:
  pll.new                                                   -> ok
  pll.do <epoch> <sec> <nsec> <offset> <weight:hex16> pow=<hex16> [rc]
      (rc: the harness's clock moves its epoch on inside Step, as driver/clocks does; Do reads the
       epoch only before any Step, so the model's answer is the same)
      -> ok e=<epoch> m=<mode> t0=<sec>:<ns> t=<sec>:<ns> a=<hex16> b=<hex16> i=<hex16> [step:<d>] [adj:<off>:<dur>:<hex16>]
       | panic explicit:unexpected_clock_behavior | panic explicit:unexpected_PLL_mode
  (f64.* ops are answered as in drv_f64)

  the clock object (Model/SysClock.lean) and the PLL on it (Model/PllClock.lean); harness/cmd/c19clk:
  sc.new <real|sealed>            -> ok          (fresh SystemClock and a fresh PLL on it)
  sc.setepoch <n>                 -> ok          (harness writes the unexported field)
  sc.epoch                        -> ok <epoch>
  sc.step <offset>                -> ok e=<epoch> <acts> | panic explicit:epoch_overflow e=<epoch> <acts>
  sc.adjust <offset> <duration> <freq:hex16>
                                  -> ok e=<epoch> freq:<hex16> spawn:<id> | panic explicit:invalid_duration_value e=<epoch>
  sc.expire <id>…                 -> ok e=<epoch> [s=<whole seconds slept>, single id only] <acts>
                                     (the tails of the expiry goroutines of these adjustments run, in this order)
  sc.sleep <duration>             -> ok e=<epoch> sleep:<d> slept:<d> | panic explicit:invalid_duration_value e=<epoch> sleep:<d>
                                     (sleep: the debug record written first; slept: the wrapper call, seen as elapsed time)
  scpll.do <sec> <nsec> <offset> <weight:hex16> pow=<hex16>
      -> ok <pll state> ce=<clock epoch> <acts> | panic explicit:<msg> <pll state> ce=<clock epoch> <acts>
  <acts>: off:<ns> | freq:<hex16> | sleep:<ns> | slept:<ns> | spawn:<id>
-/
def fmtTime (t : Int) : String := s!"{t / 1000000000}:{t % 1000000000}"

def fmtAction : Action → String
  | .step d => s!" step:{d}"
  | .adjust o d f => s!" adj:{o}:{d}:{fmtF f}"

def fmtState (s : State) : String :=
  s!"e={s.epoch} m={s.mode} t0={fmtTime s.t0} t={fmtTime s.t} a={fmtF s.a} b={fmtF s.b} i={fmtF s.i}"

def pllDo (s : State) (e sec ns off w pw : String) : State × String :=
  match parseNat? e, parseInt? sec, parseInt? ns, parseInt? off, parseF? w, (kv? [pw] "pow").bind parseF? with
  | some e, some sec, some ns, some off, some w, some pw =>
    if e < 2 ^ 64 ∧ 0 ≤ ns ∧ ns < 1000000000 ∧ -1099511627776 ≤ sec ∧ sec ≤ 1099511627776
        ∧ minI64 ≤ off ∧ off ≤ maxI64 then
      match ScionTime.Pll.step s e (sec * 1000000000 + ns) off w pw with
      | .ok s' acts => (s', s!"ok {fmtState s'}{String.join (acts.map fmtAction)}")
      | .panic .clock => (s, "panic explicit:unexpected_clock_behavior")
      | .panic .mode => (s, "panic explicit:unexpected_PLL_mode")
    else (s, "bad-op")
  | _, _, _, _, _, _ => (s, "bad-op")

/-! ### the clock object and the PLL on it -/

open ScionTime in
def fmtClkAction : SysClock.Action → String
  | .setOffset d => s!" off:{d}"
  | .setFrequency f => s!" freq:{fmtF f}"
  | .sleepLog d => s!" sleep:{d}"
  | .sleep d => s!" slept:{d}"
  | .spawn id _ => s!" spawn:{id}"

open ScionTime in
def fmtClkActs (acts : List SysClock.Action) : String := String.join (acts.map fmtClkAction)

open ScionTime in
def fmtClkOutcome : SysClock.Outcome → String
  | .ok c acts => s!"ok e={c.epoch}{fmtClkActs acts}"
  | .panic .epochOverflow c acts => s!"panic explicit:epoch_overflow e={c.epoch}{fmtClkActs acts}"
  | .panic .invalidDuration c acts => s!"panic explicit:invalid_duration_value e={c.epoch}{fmtClkActs acts}"

structure St where
  pll : State                       -- the PLL of the pll.* ops (scripted clock)
  pc : ScionTime.PllClock.State     -- the clock object of the sc.* ops and the PLL on it

def i64? (s : String) : Option Int :=
  match parseInt? s with
  | some v => if minI64 ≤ v ∧ v ≤ maxI64 then some v else none
  | none => none

open ScionTime in
/-- `sc.expire id…`: the goroutine tails in the given order; `none` if one of them does not exist -/
def expireAll (c : SysClock.State) (acts : List SysClock.Action) : List Nat → Option (SysClock.State × List SysClock.Action)
  | [] => some (c, acts)
  | id :: rest =>
    match SysClock.expire c id with
    | some o => expireAll o.state (acts ++ o.acts) rest
    | none => none

open ScionTime in
def scStep (s : St) (toks : List String) : Option (St × String) :=
  let c := s.pc.clk
  let withClk (o : SysClock.Outcome) : St × String := ({ s with pc := { s.pc with clk := o.state } }, fmtClkOutcome o)
  match toks with
  | ["sc.new", m] =>
    if m = "real" ∨ m = "sealed" then some ({ s with pc := PllClock.init }, "ok") else some (s, "bad-op")
  | ["sc.setepoch", n] =>
    match parseNat? n with
    | some n => if n < 2 ^ 64 then some ({ s with pc := { s.pc with clk := { c with epoch := n } } }, "ok") else some (s, "bad-op")
    | none => some (s, "bad-op")
  | ["sc.epoch"] => some (s, s!"ok {SysClock.epoch c}")
  | ["sc.step", off] =>
    match i64? off with
    | some off => some (withClk (SysClock.step c off))
    | none => some (s, "bad-op")
  | ["sc.adjust", off, dur, f] =>
    match i64? off, i64? dur, parseF? f with
    | some off, some dur, some f => some (withClk (SysClock.adjust c off dur f))
    | _, _, _ => some (s, "bad-op")
  | ["sc.sleep", d] =>
    match i64? d with
    | some d => some (withClk (SysClock.sleep c d))
    | none => some (s, "bad-op")
  | "sc.expire" :: ids =>
    match ids.mapM parseNat? with
    | some (id :: rest) =>
      match expireAll c [] (id :: rest) with
      | some (c', acts) =>
        let secs := if rest.isEmpty then
            match c.pending.find? (fun a => a.id = id) with
            | some a => s!" s={a.duration / 1000000000}"
            | none => ""
          else ""
        some ({ s with pc := { s.pc with clk := c' } }, s!"ok e={c'.epoch}{secs}{fmtClkActs acts}")
      | none => some (s, "bad-op")
    | _ => some (s, "bad-op")
  | ["scpll.do", sec, ns, off, w, pw] =>
    match parseInt? sec, parseInt? ns, i64? off, parseF? w, (kv? [pw] "pow").bind parseF? with
    | some sec, some ns, some off, some w, some pw =>
      if 0 ≤ ns ∧ ns < 1000000000 ∧ -1099511627776 ≤ sec ∧ sec ≤ 1099511627776 then
        match PllClock.update s.pc (sec * 1000000000 + ns) off w pw with
        | .ok s' acts => some ({ s with pc := s' }, s!"ok {fmtState s'.pll} ce={s'.clk.epoch}{fmtClkActs acts}")
        | .pllPanic .clock => some (s, s!"panic explicit:unexpected_clock_behavior {fmtState s.pc.pll} ce={c.epoch}")
        | .pllPanic .mode => some (s, s!"panic explicit:unexpected_PLL_mode {fmtState s.pc.pll} ce={c.epoch}")
        | .clockPanic .epochOverflow s' acts =>
          some ({ s with pc := s' }, s!"panic explicit:epoch_overflow {fmtState s'.pll} ce={s'.clk.epoch}{fmtClkActs acts}")
        | .clockPanic .invalidDuration s' acts =>
          some ({ s with pc := s' }, s!"panic explicit:invalid_duration_value {fmtState s'.pll} ce={s'.clk.epoch}{fmtClkActs acts}")
      else some (s, "bad-op")
    | _, _, _, _, _ => some (s, "bad-op")
  | _ => none

def step (s : St) (toks : List String) : St × String :=
  match toks with
  | ["pll.new"] => ({ s with pll := ScionTime.Pll.init }, "ok")
  | ["pll.do", e, sec, ns, off, w, pw, "rc"] => let (p, r) := pllDo s.pll e sec ns off w pw; ({ s with pll := p }, r)
  | ["pll.do", e, sec, ns, off, w, pw] => let (p, r) := pllDo s.pll e sec ns off w pw; ({ s with pll := p }, r)
  | _ =>
    match scStep s toks with
    | some r => r
    | none =>
      match f64Step toks with
      | some r => (s, r)
      | none => (s, "bad-op")

def main : IO Unit := run { pll := ScionTime.Pll.init, pc := ScionTime.PllClock.init : St } step
