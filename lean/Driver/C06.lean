import Driver.Common
import ScionTime.Model.ServerFill
open Driver ScionTime.Time64 ScionTime.Server

/-- ops (times are Int nanoseconds since the Unix epoch; ids are Nat):
  srv.reset                                   -> ok
  srv.mode full|brief                         -> ok
  srv.hr <id> <org.s> <org.f> <rx.s> <rx.f> <tx.s> <tx.f> <rxt> <now>
      -> ok rx=S.F org=S.F tx=S.F ref=S.F rxt=<ns> txt=<ns> ev=<id|-> | <snap>
  srv.utx <id> <rxt> <txt1>                   -> ok txt=<ns> | <snap>
  srv.bulk <n> <idbase> <base> <step> <d>     -> ok n=<n>     (closed-form state; store must be empty)
  srv.bulkcheck <n> <idbase> <base> <step> <d> -> ok equal|differ  (closed form vs replay through handleRequest)
  srv.par <now> <sub> ; <sub> ; …             sub = hr <id> <org.s> <org.f> <rx.s> <rx.f> <tx.s> <tx.f> <rxt> | utx <id> <rxt> <txt1>
      -> ok early=0 | <sub result> | … | n=<len> hn=<heap len> its=<id>:<qval>:<rx>/<tx>,..;..
      (the harness runs the sub-operations concurrently against one stalled critical section; here: in order)
  srv.digest                                  -> ok n=<len> hn=<heap len> d=<hk>.<s1>.<s2>
  snap (full)  : n=<len> h=[k,..] items=<id>:<qidx>:<qval>:<rx>/<tx>,..;..   (items sorted by id)
  snap (brief) : n=<len> hn=<heap len> top=<id|-> it=<item of the op's id|->
-/
structure DS where
  st : State
  brief : Bool

def f64 (t : T64) : String := s!"{t.sec}.{t.frac}"

def fmtItem (k : Nat) (it : Item) : String :=
  s!"{k}:{it.qidx}:{f64 it.qval}:" ++ ",".intercalate (it.buf.map fun e => s!"{f64 e.rx}/{f64 e.tx}")

def snapFull (st : State) : String :=
  let items := st.items.mergeSort (fun a b => a.1 ≤ b.1)
  s!"n={st.items.length} h={fmtNatList st.heap.toList} items=" ++
    ";".intercalate (items.map fun (k, it) => fmtItem k it)

def snapBrief (st : State) (id : Nat) : String :=
  let top := if st.heap.size = 0 then "-" else toString (st.heap.getD 0 0)
  let it := match st.items.find id with
    | some it => fmtItem id it
    | none => "-"
  s!"n={st.items.length} hn={st.heap.size} top={top} it={it}"

def snap (d : DS) (st : State) (id : Nat) : String :=
  if d.brief then snapBrief st id else snapFull st

def okT64 (s f : Int) : Bool := 0 ≤ s && s < 4294967296 && 0 ≤ f && f < 4294967296

/-- closed form of the state after `n` first requests of clients `idbase .. idbase+n-1`
    with receive times `base + i*step` and clock readings `d` later: `fillState` of
    Model/ServerFill (Props/C07 `C07_fill_closed_form`: equal to the replay through
    `handleRequest` up to the order of the association list, which no operation observes —
    `C07_order_unobservable`). -/
def bulkState (n idbase : Nat) (base step d : Int) : State := fillState n idbase base step d

def bulkReplay (n idbase : Nat) (base step d : Int) : State :=
  fillReplay tssCap tssItemCap n idbase base step d

def hashStep (p : Nat) (h v : Nat) : Nat := (h * p + v) % 2147483647

/-- digest of the store, linear time: `hk` = polynomial hash of the heap's key array in
    order; `s1`,`s2` = order-independent sums over all items of a mix of
    (id, qidx, qval, len) and of its square (mod 2^31-1). -/
def digest (st : State) : String :=
  let m := 2147483647
  let hk := st.heap.foldl (fun h k => hashStep 1000003 h k) 0
  let mix (k : Nat) (it : Item) : Nat :=
    hashStep 7919 (hashStep 7919 (hashStep 7919 (hashStep 7919 (hashStep 7919 1 k) it.qidx)
      it.qval.sec.toNat) it.qval.frac.toNat) it.buf.length
  let (s1, s2) := st.items.foldl (fun (acc : Nat × Nat) (p : Nat × Item) =>
    let g := mix p.1 p.2
    ((acc.1 + g) % m, (acc.2 + g * g % m) % m)) (0, 0)
  s!"n={st.items.length} hn={st.heap.size} d={hk}.{s1}.{s2}"

def fmtItemNoIdx (k : Nat) (it : Item) : String :=
  s!"{k}:{f64 it.qval}:" ++ ",".intercalate (it.buf.map fun e => s!"{f64 e.rx}/{f64 e.tx}")

def splitSubs (toks : List String) : List (List String) :=
  toks.foldr (fun t acc => if t = ";" then [] :: acc else
    match acc with
    | [] => [[t]]
    | a :: r => (t :: a) :: r) [[]]

/-- one sub-operation of `srv.par`: new state, its result, its client. -/
def parSub (st : State) (now : Int) : List String → Option (State × String × Nat)
  | ["hr", id, os, of, rs, rf, ts, tf, rxt] =>
    match parseNat? id, parseInt? os, parseInt? of, parseInt? rs, parseInt? rf,
          parseInt? ts, parseInt? tf, parseInt? rxt with
    | some id, some os, some of, some rs, some rf, some ts, some tf, some rxt =>
      if okT64 os of && okT64 rs rf && okT64 ts tf then
        let r := handleRequest tssCap tssItemCap st id ⟨⟨os, of⟩, ⟨rs, rf⟩, ⟨ts, tf⟩⟩ rxt now
        some (r.st, s!"rx={f64 r.reply.rx} org={f64 r.reply.org} tx={f64 r.reply.tx} ref={f64 r.reply.ref} rxt={r.rxt} txt={r.txt}", id)
      else none
    | _, _, _, _, _, _, _, _ => none
  | ["utx", id, rxt, txt1] =>
    match parseNat? id, parseInt? rxt, parseInt? txt1 with
    | some id, some rxt, some txt1 =>
      let r := updateTX st id rxt txt1
      some (r.1, s!"txt={r.2}", id)
    | _, _, _ => none
  | _ => none

def parRun (st : State) (now : Int) : List (List String) → Option (State × List String × List Nat)
  | [] => some (st, [], [])
  | s :: rest =>
    match parSub st now s with
    | none => none
    | some (st1, res, id) =>
      match parRun st1 now rest with
      | none => none
      | some (st2, rs, ids) => some (st2, res :: rs, id :: ids)

def step (d : DS) (toks : List String) : DS × String :=
  match toks with
  | ["srv.reset"] => ({ d with st := init }, "ok")
  | ["srv.mode", "full"] => ({ d with brief := false }, "ok")
  | ["srv.mode", "brief"] => ({ d with brief := true }, "ok")
  | ["srv.digest"] =>
    (d, "ok " ++ digest d.st)
  | ["srv.hr", id, os, of, rs, rf, ts, tf, rxt, now] =>
    match parseNat? id, parseInt? os, parseInt? of, parseInt? rs, parseInt? rf,
          parseInt? ts, parseInt? tf, parseInt? rxt, parseInt? now with
    | some id, some os, some of, some rs, some rf, some ts, some tf, some rxt, some now =>
      if okT64 os of && okT64 rs rf && okT64 ts tf then
        let r := handleRequest tssCap tssItemCap d.st id ⟨⟨os, of⟩, ⟨rs, rf⟩, ⟨ts, tf⟩⟩ rxt now
        let ev := match r.evicted with | some k => toString k | none => "-"
        ({ d with st := r.st },
          s!"ok rx={f64 r.reply.rx} org={f64 r.reply.org} tx={f64 r.reply.tx} ref={f64 r.reply.ref} rxt={r.rxt} txt={r.txt} ev={ev} | {snap d r.st id}")
      else (d, "bad-op")
    | _, _, _, _, _, _, _, _, _ => (d, "bad-op")
  | ["srv.utx", id, rxt, txt1] =>
    match parseNat? id, parseInt? rxt, parseInt? txt1 with
    | some id, some rxt, some txt1 =>
      let r := updateTX d.st id rxt txt1
      ({ d with st := r.1 }, s!"ok txt={r.2} | {snap d r.1 id}")
    | _, _, _ => (d, "bad-op")
  | "srv.par" :: now :: sub0 :: subs =>
    match parseInt? now with
    | some now =>
      match parRun d.st now (splitSubs (sub0 :: subs)) with
      | some (st, rs, ids) =>
        let its := ids.map fun k => match st.items.find k with
          | some it => fmtItemNoIdx k it
          | none => "-"
        ({ d with st := st },
          s!"ok early=0 | {" | ".intercalate rs} | n={st.items.length} hn={st.heap.size} its={";".intercalate its}")
      | none => (d, "bad-op")
    | none => (d, "bad-op")
  | [op, n, idbase, base, stp, dd] =>
    match parseNat? n, parseNat? idbase, parseInt? base, parseInt? stp, parseInt? dd with
    | some n, some idbase, some base, some stp, some dd =>
      if d.st.items.length ≠ 0 ∨ n > tssCap then (d, "bad-op")
      else if op = "srv.bulk" then
        ({ d with st := bulkState n idbase base stp dd }, s!"ok n={n}")
      else if op = "srv.bulkcheck" then
        let a := bulkState n idbase base stp dd
        let b := bulkReplay n idbase base stp dd
        let srt (m : Map) := m.mergeSort (fun x y => x.1 ≤ y.1)
        let eq := srt a.items == srt b.items && a.heap == b.heap
        ({ d with st := a }, if eq then "ok equal" else "ok differ")
      else (d, "bad-op")
    | _, _, _, _, _ => (d, "bad-op")
  | _ => (d, "bad-op")

def main : IO Unit := run (⟨init, false⟩ : DS) step
