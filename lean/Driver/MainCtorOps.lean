import Driver.Common
import ScionTime.Model.MainCfg
/-! Ops of harness/cmd/cmain, part `ctor`: the constructors and NTS/TLS configuration functions
    of /repo/timeservice.go (answered on the implementation side by the hook verif_main.go inside
    the real `timeservice` binary). Used by the drivers of C03 (and through it C20).

  main.ntskesrv <remote address>                                   -> ok <server> | panic …
  main.cfg.ipnts ntske=<host:port> insec=<0|1>                     -> ok <ip client cfg> | err fatal:…
  main.cfg.scionnts ntske= insec= daemon= local= remote=           -> ok <scion client cfg> | err fatal:…
  main.refclk.ip dscp= auth=[m,…] ntske= insec= local= remote=     -> ok clog= local= remote= same= cfg: <ip client cfg>
  main.refclk.scion dscp= auth=[m,…] ntske= insec= daemon= local= remote=
        -> ok n= ids=[…] fids=[…] tids=[…] prev=[…] kept= uniform= clog= local= remote= pather= cfg: <scion client cfg>
  main.tlscfg name= cert= key=                                     -> ok <tls cfg> getcert=1 certs=0 | err fatal:…
  Strings: `-` is the empty string. -/
namespace Driver
open ScionTime.MainCfg

def mStr (s : String) : String := if s = "-" then "" else s
def mTok (s : String) : String := if s = "" then "-" else s
def mB (b : Bool) : String := if b then "1" else "0"

def mBool? (s : String) : Option Bool :=
  if s = "0" then some false else if s = "1" then some true else none

def mU8? (s : String) : Option Nat :=
  match s.toNat? with
  | some n => if n ≤ 255 ∧ ¬ s.startsWith "+" then some n else none
  | none => none

def mList? (s : String) : Option (List String) :=
  if ¬ (s.startsWith "[" ∧ s.endsWith "]") then none else
  let inner := ((s.drop 1).dropEnd 1).toString
  if inner = "" then some [] else some ((inner.splitOn ",").map mStr)

def mPanic (msg : String) : String :=
  "panic explicit:" ++ String.ofList ((msg.toList.map fun c => if c = ' ' then '_' else c).take 60)

def mFatal (msg : String) : String := "err fatal:" ++ msg.replace " " "_"

def fmtTLS (t : TLSCfg) : String :=
  s!"sn={mTok t.serverName} alpn=[{",".intercalate (t.nextProtos.map mTok)}] min={t.minVersion} max={t.maxVersion} insec={mB t.insecureSkipVerify}"

def fmtFetcher (f : Fetcher) : String :=
  s!"{fmtTLS f.tls} port={mTok f.port} flog={mB f.log} quic={mB f.quic} qd={mTok f.quicDaemon} ql={mTok f.quicLocal} qr={mTok f.quicRemote}"

def fmtFilter (f : Option Ref) : String := if f.isSome then "ntimed" else "nil"

def fmtIPClient (c : IPClient) : String :=
  s!"il={mB c.interleavedMode} dscp={c.dscp} filt={fmtFilter c.filter} hist={mB c.histogram} log={mB c.log} auth={mB c.authEnabled} {fmtFetcher c.fetcher}"

def fmtSCIONClient (c : SCIONClient) : String :=
  s!"il={mB c.interleavedMode} dscp={c.dscp} filt={fmtFilter c.filter} hist={mB c.histogram} log={mB c.log} auth={mB c.authEnabled} nts={mB c.ntsEnabled} drkey={mB c.drkeyFetcher} {fmtFetcher c.fetcher}"

def fmtRes {α : Type} (r : Res α) (f : α → String) : String :=
  match r with
  | .ok a => f a
  | .fatal m => mFatal m
  | .panic m => mPanic m

def fmtStrList (l : List String) : String := "[" ++ ",".intercalate l ++ "]"

def mainCtorStep (toks : List String) : Option String :=
  match toks with
  | ["main.ntskesrv", a] => some (fmtRes (ntskeServerFromRemoteAddr (mStr a)) fun s => "ok " ++ mTok s)
  | "main.cfg.ipnts" :: rest =>
    if rest.length ≠ 2 then some "bad-op" else
    match kv? rest "ntske", (kv? rest "insec").bind mBool? with
    | some k, some i => some (fmtRes (configureIPClientNTS {} (mStr k) i) fun c => "ok " ++ fmtIPClient c)
    | _, _ => some "bad-op"
  | "main.cfg.scionnts" :: rest =>
    if rest.length ≠ 5 then some "bad-op" else
    match kv? rest "ntske", (kv? rest "insec").bind mBool?, kv? rest "daemon", kv? rest "local", kv? rest "remote" with
    | some k, some i, some d, some l, some r =>
      some (fmtRes (configureSCIONClientNTS {} (mStr k) i (mStr d) l r) fun c => "ok " ++ fmtSCIONClient c)
    | _, _, _, _, _ => some "bad-op"
  | "main.refclk.ip" :: rest =>
    if rest.length ≠ 6 then some "bad-op" else
    match (kv? rest "dscp").bind mU8?, (kv? rest "auth").bind mList?, kv? rest "ntske",
          (kv? rest "insec").bind mBool?, kv? rest "local", kv? rest "remote" with
    | some d, some a, some k, some i, some l, some r =>
      some (fmtRes (newRefClockIP { localAddr := l, remoteAddr := r, dscp := d, authModes := a, ntskeServer := mStr k, insecure := i })
        fun c => s!"ok clog={mB c.log} local={mTok c.localAddr} remote={mTok c.remoteAddr} same=1 cfg: {fmtIPClient c.ntpc}")
    | _, _, _, _, _, _ => some "bad-op"
  | "main.refclk.scion" :: rest =>
    if rest.length ≠ 7 then some "bad-op" else
    match (kv? rest "dscp").bind mU8?, (kv? rest "auth").bind mList?, kv? rest "ntske",
          (kv? rest "insec").bind mBool?, kv? rest "daemon", kv? rest "local", kv? rest "remote" with
    | some d, some a, some k, some i, some dm, some l, some r =>
      let args : CtorArgs := { daemonAddr := mStr dm, localAddr := l, remoteAddr := r, dscp := d, authModes := a,
                               ntskeServer := mStr k, insecure := i }
      some (fmtRes (newRefClockSCION args {}) fun (h, c) =>
        let o := observe h c
        match o.cfg0 with
        | none => "err nil-client"
        | some c0 =>
          s!"ok n={o.n} ids={fmtNatList o.ids} fids={fmtNatList o.fids} tids={fmtNatList o.ids} prev={fmtStrList o.marks} kept={o.kept} uniform={mB o.uniform} clog={mB c.log} local={mTok c.localAddr} remote={mTok c.remoteAddr} pather={mB c.pather} cfg: {fmtSCIONClient c0}")
    | _, _, _, _, _, _, _ => some "bad-op"
  | "main.tlscfg" :: rest =>
    if rest.length ≠ 3 then some "bad-op" else
    match kv? rest "name", kv? rest "cert", kv? rest "key" with
    | some n, some c, some k =>
      some (fmtRes (tlsConfig (mStr n) (mStr c) (mStr k)) fun t => s!"ok {fmtTLS t} getcert=1 certs=0")
    | _, _, _ => some "bad-op"
  | _ => none

end Driver
