import Driver.Common
import ScionTime.Model.CsptpSrv
import ScionTime.Model.CsptpCliLoop
open Driver ScionTime.Wire ScionTime.Csptp

/-!
ops (harness/cmd/c08csptp):

  srv.dgram p=<319|320> c=<client> b=<hex>
      one datagram to the real listener; the answer is the ONE log record of the loop iteration:
      -> ok <LEVEL> <message_with_underscores> [flags=<n>] [error=<text>] [from=c<client> m=<hex 44> [t=<hex 14>]]
  srv.burst p=<319|320> items=<client>:<hex>,…
      the datagrams sent back to back from different sockets; the records as a sorted multiset
      -> ok <record>|<record>|…
  srv.drain
      -> ok replies=<n>   (datagrams any client socket received since the last drain: the model's outputs)
  cl.req seq=<n>
      -> ok sync=<hex> fu=<hex>   (the request pair of the real client)
  cl.run seq=<n> dl=<ms> ev=<src>/<hex>,…   (src: e = server:319, g = server:320, x y z = elsewhere)
      the real client against a scripted server that sends exactly these datagrams, then silence
      -> ok m0=<hex> m1=<hex> tlv=<hex> trace=<letters> | err <class> trace=<letters>
  cl.eval t0=<ns> t3=<ns> m0=<hex> m1=<hex> tlv=<hex>
      -> ok off=<ns> c2s=<ns> s2c=<ns> mpd=<ns>
  e2e.run seq=<n> dl=<ms>
      the real client against the real listener
      -> <client answer as cl.run> srv=<record>|<record> replies=<n>
-/

namespace C08CsptpDrv
open ScionTime.CsptpSrv

def us (s : String) : String := s.replace " " "_"

def hex14 (t : RequestTLV) : String := toHex (encodeFields tlvHeadLayout (reqToFields t))

/-- the log record of a verdict, as the harness prints it -/
def record (client : String) : Verdict → String
  | .readErr => "ERROR failed_to_read_packet error=?"
  | .readFlags f => s!"ERROR failed_to_read_packet flags={f}"
  | .short => "INFO failed_to_decode_packet_payload:_unexpected_structure"
  | .decodeErr => "INFO failed_to_decode_packet_payload error=unexpected_message_size"
  | .lengthMismatch => "INFO failed_to_validate_packet_payload:_unexpected_message_length"
  | .syncLength => "INFO failed_to_validate_packet_payload:_unexpected_Sync_message_length"
  | .tlvDecode => "INFO failed_to_decode_packet_payload error=unexpected_request_TLV_size"
  | .tlvKind => "INFO failed_to_validate_packet_payload:_unexpected_Follow_Up_message"
  | .tlvLength => "INFO failed_to_validate_packet_payload:_unexpected_Follow_Up_message_length"
  | .unexpectedMessage => "INFO failed_to_validate_packet_payload:_unexpected_message"
  | .requestSync m => s!"DEBUG received_request from={client} m={toHex (messageBytes m)}"
  | .requestFollowUp m t => s!"DEBUG received_request from={client} m={toHex (messageBytes m)} t={hex14 t}"
  | .panic c => s!"PANIC {c}"

structure St where
  sys : Sys
  outs : Nat       -- datagrams sent by the listener since the last drain

def St.start : St := ⟨Sys.start, 0⟩

def sockOf (port : Nat) : Option Nat :=
  if port = eventPortIP then some 0 else if port = generalPortIP then some ipServerNumGoroutine else none

def allBytes (b : List Nat) : Bool := b.all (· < 256)

/-- deliver one datagram; returns the new state and the record -/
def deliver (st : St) (port : Nat) (client : String) (b : List Nat) : Option (St × String) :=
  match sockOf port with
  | none => none
  | some i =>
    let (y, v, eff) := sysStep st.sys i (.dgram b 0 ⟨0, 0⟩ 0)
    match eff.panic with
    | some c => some (⟨y, st.outs + eff.outs.length⟩, s!"PANIC {c}")
    | none => some (⟨y, st.outs + eff.outs.length⟩, record client v)

def insertSorted (x : String) : List String → List String
  | [] => [x]
  | y :: ys => if x ≤ y then x :: y :: ys else y :: insertSorted x ys

def sortStrings (l : List String) : List String := l.foldr insertSorted []

def parseItems (s : String) : Option (List (String × List Nat)) :=
  (s.splitOn ",").mapM fun it =>
    match it.splitOn ":" with
    | [c, h] => match c.toNat?, parseHex? h with
      | some _, some b => some (c, b)
      | _, _ => none
    | _ => none

open ScionTime.CsptpCliLoop in
def parseSrc (s : String) : Option Src :=
  if s = "e" then some .event else if s = "g" then some .general
  else if s = "x" ∨ s = "y" ∨ s = "z" then some .other else none

open ScionTime.CsptpCliLoop in
def parseEvs (s : String) : Option (List Ev) :=
  if s = "-" then some [] else
  (s.splitOn ",").mapM fun it =>
    match it.splitOn "/" with
    | [c, h] => match parseSrc c, parseHex? h with
      | some src, some b => some (.dgram b 0 src 0 true)
      | _, _ => none
    | _ => none

def traceLetter (s : String) : String :=
  open ScionTime.CsptpCliLoop in
  if s = logRead then "r" else if s = logStructure then "s" else if s = logDecode then "d"
  else if s = logUnexpected then "u" else if s = logSource then "o" else "?"

def fmtTrace (t : List String) : String :=
  if t.isEmpty then "-" else String.join (t.map traceLetter)

open ScionTime.CsptpCliLoop in
/-- the client against these datagrams, then silence until the deadline has passed -/
def clientRun (seq : Nat) (evs : List Ev) : String :=
  match run true seq (Loop.start seq) [] (evs ++ [.readErr false]) with
  | .ok st tr =>
    s!"ok m0={toHex (messageBytes st.m0)} m1={toHex (messageBytes st.m1)} tlv={toHex (responseTLVBytes st.tlv)} trace={fmtTrace tr}"
  | .err e tr => s!"err {e} trace={fmtTrace tr}"
  | .pending _ _ => "model-pending"
  | .panic c => s!"panic {c}"

def step (st : St) (toks : List String) : St × String :=
  match toks with
  | ["srv.dgram", p, c, b] =>
    match (kv? [p] "p").bind parseNat?, (kv? [c] "c").bind parseNat?, (kv? [b] "b").bind parseHex? with
    | some p, some c, some b =>
      if !allBytes b ∨ b.length > 70000 then (st, "bad-op") else
      match deliver st p s!"c{c}" b with
      | some (st', r) => (st', "ok " ++ r)
      | none => (st, "bad-op")
    | _, _, _ => (st, "bad-op")
  | ["srv.burst", p, items] =>
    match (kv? [p] "p").bind parseNat?, (kv? [items] "items").bind parseItems with
    | some p, some its =>
      let rec go (st : St) (acc : List String) : List (String × List Nat) → Option (St × List String)
        | [] => some (st, acc)
        | (c, b) :: rest =>
          match deliver st p s!"c{c}" b with
          | some (st', r) => go st' (r :: acc) rest
          | none => none
      match go st [] its with
      | some (st', rs) => (st', "ok " ++ "|".intercalate (sortStrings rs))
      | none => (st, "bad-op")
    | _, _ => (st, "bad-op")
  | ["srv.drain"] => ({ st with outs := 0 }, s!"ok replies={st.outs}")
  | ["cl.req", s] =>
    match (kv? [s] "seq").bind parseNat? with
    | some seq =>
      if seq ≥ 65536 then (st, "bad-op") else
      (st, s!"ok sync={toHex (clientSyncBytes seq)} fu={toHex (clientFollowUpBytes seq)}")
    | none => (st, "bad-op")
  | ["cl.run", s, d, e] =>
    match (kv? [s] "seq").bind parseNat?, (kv? [d] "dl").bind parseNat?, (kv? [e] "ev").bind parseEvs with
    | some seq, some _, some evs => if seq ≥ 65536 then (st, "bad-op") else (st, clientRun seq evs)
    | _, _, _ => (st, "bad-op")
  | ["cl.eval", a, b, c, d, e] =>
    match (kv? [a] "t0").bind parseInt?, (kv? [b] "t3").bind parseInt?, (kv? [c] "m0").bind parseHex?,
          (kv? [d] "m1").bind parseHex?, (kv? [e] "tlv").bind parseHex? with
    | some t0, some t3, some m0, some m1, some tlv =>
      match decodeMessage m0, decodeMessage m1, decodeResponseTLV tlv with
      | .ok m0, .ok m1, .ok tlv =>
        let ev := ScionTime.CsptpClient.evaluate t0 t3 m0 m1 tlv
        (st, s!"ok off={ev.clockOffset.toInt} c2s={ev.c2sDelay.toInt} s2c={ev.s2cDelay.toInt} mpd={ev.meanPathDelay.toInt}")
      | _, _, _ => (st, "bad-op")
    | _, _, _, _, _ => (st, "bad-op")
  | ["e2e.run", s, d] =>
    match (kv? [s] "seq").bind parseNat?, (kv? [d] "dl").bind parseNat? with
    | some seq, some _ =>
      if seq ≥ 65536 then (st, "bad-op") else
      -- the client's two requests reach the listener; whatever the listener sends is what the client reads
      match deliver st eventPortIP "cl" (clientSyncBytes seq) with
      | none => (st, "bad-op")
      | some (st1, r1) =>
        match deliver st1 generalPortIP "cl" (clientFollowUpBytes seq) with
        | none => (st, "bad-op")
        | some (st2, r2) =>
          -- the listener's outputs (none) are the client's events
          let cl := if st2.outs = st.outs then clientRun seq [] else "model-has-outputs"
          ({ st2 with outs := st.outs }, s!"{cl} srv={r1}|{r2} replies={st2.outs - st.outs}")
    | _, _ => (st, "bad-op")
  | _ => (st, "bad-op")

end C08CsptpDrv

def main : IO Unit := run C08CsptpDrv.St.start C08CsptpDrv.step
