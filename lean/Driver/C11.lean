/-
  Driver/C11.lean — drv_c11: the NTS ops shared with drv_c10 (Driver/NtsOps.lean) plus the op of
  the live client exchanges (harness c03 -prop c11):

  cl.exch tr=ip|scion pool=[cookies] c2s=K s2c=K hdr=H48 now=NS dl=MS rand=R48 d=[payloads] seal=… open=…
      -> ok req=<request payload> res=accept|reject pool=[cookies afterwards]

  One whole exchange of the real client (`measureClockOffsetIP` / `measureClockOffsetSCION`) with
  the pool preloaded: `hdr` is the NTP header the client builds, `rand` the bytes it draws from
  `crypto/rand` (32 for the unique identifier, 16 for the nonce), `d` the NTP/NTS payloads the
  peer delivers, in order. `tr`, `now` and `dl` only matter to the harness (transport, scripted
  clock reading, deadline). The op is self-contained (stateless).
-/
import Driver.NtsOps
open Driver ScionTime.Nts

namespace C11Ops

def exch (toks : List String) : Option String := do
  let A ← NtsOps.aead? toks
  let rnd ← NtsOps.rand? toks
  let pool ← (kv? toks "pool") >>= NtsOps.parseHexList?
  let c2s ← (kv? toks "c2s") >>= parseHex?
  let s2c ← (kv? toks "s2c") >>= parseHex?
  let hdr ← (kv? toks "hdr") >>= parseHex?
  let ds ← (kv? toks "d") >>= NtsOps.parseHexList?
  let tr ← kv? toks "tr"
  if tr ≠ "ip" ∧ tr ≠ "scion" then none else
  let st : ScionTime.NtsPool.Client := { pool := pool, c2s := c2s, s2c := s2c, reqId := [] }
  match ScionTime.NtsPool.exchange A st hdr rnd ds with
  | (st', .ok (req, acc)) =>
    some s!"ok req={toHex req} res={if acc then "accept" else "reject"} pool={NtsOps.fmtHexList st'.pool}"
  | (_, .err e) => some ("err " ++ e.name)
  | (_, .panic p) => some ("panic " ++ p.name)
  | (_, .hang) => some "hang"

def step (st : NtsOps.St) (toks : List String) : NtsOps.St × String :=
  match toks with
  | "cl.exch" :: _ => (st, (exch toks).getD "bad-op")
  | _ => NtsOps.step st toks

end C11Ops

def main : IO Unit := Driver.run NtsOps.init C11Ops.step
