/-
  Driver/Common.lean — line-protocol plumbing shared by all model drivers.
  One op per input line (space-separated tokens), one canonical output line per op.
  Core Lean only (the drivers are linked as native executables).
-/
namespace Driver

def splitTokens (line : String) : List String :=
  (line.splitOn " ").filter (fun t => t ≠ "" && t ≠ "\n")

def stripNL (s : String) : String :=
  let s := if s.endsWith "\n" then (s.dropEnd 1).toString else s
  if s.endsWith "\r" then (s.dropEnd 1).toString else s

def parseInt? (s : String) : Option Int := s.toInt?
def parseNat? (s : String) : Option Nat := s.toNat?

def hexVal? (c : Char) : Option Nat :=
  if '0' ≤ c ∧ c ≤ '9' then some (c.toNat - '0'.toNat)
  else if 'a' ≤ c ∧ c ≤ 'f' then some (c.toNat - 'a'.toNat + 10)
  else if 'A' ≤ c ∧ c ≤ 'F' then some (c.toNat - 'A'.toNat + 10)
  else none

/-- lower-case hex string to bytes; "-" is the empty string. -/
def parseHex? (s : String) : Option (List Nat) :=
  if s = "-" then some [] else
  let rec go : List Char → List Nat → Option (List Nat)
    | [], acc => some acc.reverse
    | [_], _ => none
    | a :: b :: rest, acc =>
      match hexVal? a, hexVal? b with
      | some x, some y => go rest ((x * 16 + y) :: acc)
      | _, _ => none
  go s.toList []

def hexDigit (n : Nat) : Char :=
  if n < 10 then Char.ofNat (n + '0'.toNat) else Char.ofNat (n - 10 + 'a'.toNat)

def toHex (bs : List Nat) : String :=
  if bs.isEmpty then "-" else
  String.ofList (bs.flatMap fun b => [hexDigit (b / 16 % 16), hexDigit (b % 16)])

/-- 16 hex digits (big endian) to a 64-bit pattern. -/
def parseHex64? (s : String) : Option Nat :=
  if s.length ≠ 16 then none else
  s.toList.foldlM (fun acc c => (hexVal? c).map (acc * 16 + ·)) 0

def toHex64 (n : Nat) : String :=
  String.ofList ((List.range 16).map fun i => hexDigit (n / 16 ^ (15 - i) % 16))

/-- `[a,b,c]` list of integers; `[]` is empty. -/
def parseIntList? (s : String) : Option (List Int) :=
  if ¬ (s.startsWith "[" ∧ s.endsWith "]") then none else
  let inner := ((s.drop 1).dropEnd 1).toString
  if inner = "" then some [] else
  (inner.splitOn ",").mapM (·.toInt?)

def fmtIntList (l : List Int) : String :=
  "[" ++ ",".intercalate (l.map toString) ++ "]"

def fmtNatList (l : List Nat) : String :=
  "[" ++ ",".intercalate (l.map toString) ++ "]"

def parseBool? (s : String) : Option Bool :=
  if s = "true" ∨ s = "1" then some true
  else if s = "false" ∨ s = "0" then some false else none

/-- key=value lookup among tokens. -/
def kv? (toks : List String) (key : String) : Option String :=
  toks.findSome? fun t =>
    if t.startsWith (key ++ "=") then some (t.drop (key.length + 1)).toString else none

partial def loop {σ : Type} (h : IO.FS.Stream) (out : IO.FS.Stream) (st : σ)
    (step : σ → List String → σ × String) : IO Unit := do
  let line ← h.getLine
  if line.isEmpty then
    out.flush
    return ()
  let line := stripNL line
  if line.isEmpty || line.startsWith "#" then
    out.putStrLn line
    loop h out st step
  else
    let (st', o) := step st (splitTokens line)
    out.putStrLn o
    loop h out st' step

def run {σ : Type} (init : σ) (step : σ → List String → σ × String) : IO Unit := do
  let stdin ← IO.getStdin
  let stdout ← IO.getStdout
  loop stdin stdout init step

end Driver
