import Driver.Common
import Driver.F64Ops
import ScionTime.Model.Filters
open Driver ScionTime.Filters ScionTime.F64

/-! ops (times are int64 nanoseconds since the Unix epoch, `time.Unix(0, ns)`):
  flt.lucky.zero                      -> ok                      (filter := &LuckyPacketFilter{})
  flt.lucky.new <cap> <pick>          -> ok | panic explicit:<msg>
  flt.lucky.do <t0> <t1> <t2> <t3>    -> ok <offset ns> | panic index
  flt.lucky.reset                     -> ok
  flt.lucky.state                     -> ok <cap> <pick> [offsets] [delays]   (window, oldest first)
  flt.epoch <n>                       -> ok                      (fake clock epoch := n)
  flt.ntimed.new                      -> ok                      (filter := NewNtimedFilter(nil))
  flt.ntimed.do <t0> <t1> <t2> <t3>   -> ok <offset ns>   #b<branch>
  flt.ntimed.reset                    -> ok
  flt.ntimed.state                    -> ok <epoch> <alo> <amid> <ahi> <alolo> <ahihi> <navg>  (16 hex digits each)
  ntp.off <t0> <t1> <t2> <t3>         -> ok <ClockOffset> <RoundTripDelay>
  f64.*                               -> as in Driver/F64Ops
-/

structure St where
  lucky : Lucky := Lucky.zero
  ntimed : Ntimed := Ntimed.fresh
  epoch : Nat := 0

def inI64 (i : Int) : Bool := decide (minI64 ≤ i ∧ i ≤ maxI64)

def parseSample? (a b c d : String) : Option Sample :=
  match parseInt? a, parseInt? b, parseInt? c, parseInt? d with
  | some a, some b, some c, some d =>
    if inI64 a && inI64 b && inI64 c && inI64 d then some ⟨a, b, c, d⟩ else none
  | _, _, _, _ => none

def panicMsg (s : String) : String :=
  let s := s.replace " " "_"
  "panic explicit:" ++ (if s.length > 60 then (s.take 60).toString else s)

def step (st : St) (toks : List String) : St × String :=
  match toks with
  | ["flt.lucky.zero"] => ({ st with lucky := Lucky.zero }, "ok")
  | ["flt.lucky.new", c, p] =>
    match parseInt? c, parseInt? p with
    | some c, some p =>
      if inI64 c && inI64 p then
        match luckyNew c p with
        | .ok f => ({ st with lucky := f }, "ok")
        | .error m => (st, panicMsg m)
      else (st, "bad-op")
    | _, _ => (st, "bad-op")
  | ["flt.lucky.do", a, b, c, d] =>
    match parseSample? a b c d with
    | some x =>
      let r := luckyDo st.lucky x
      match r.2 with
      | some v => ({ st with lucky := r.1 }, s!"ok {v.toInt}")
      | none => ({ st with lucky := r.1 }, "panic index")
    | none => (st, "bad-op")
  | ["flt.lucky.reset"] => ({ st with lucky := luckyReset st.lucky }, "ok")
  | ["flt.lucky.state"] =>
    let f := st.lucky
    (st, s!"ok {f.cap} {f.pick} {fmtIntList (f.state.map (·.off.toInt))} {fmtIntList (f.state.map (·.rtd.toInt))}")
  | ["flt.epoch", n] =>
    match parseNat? n with
    | some n => if n < 2 ^ 64 then ({ st with epoch := n }, "ok") else (st, "bad-op")
    | none => (st, "bad-op")
  | ["flt.ntimed.new"] => ({ st with ntimed := Ntimed.fresh }, "ok")
  | ["flt.ntimed.do", a, b, c, d] =>
    match parseSample? a b c d with
    | some x =>
      let r := ntimedDoFull st.epoch st.ntimed x
      ({ st with ntimed := r.state }, s!"ok {r.out} #b{r.branch}")
    | none => (st, "bad-op")
  | ["flt.ntimed.reset"] => ({ st with ntimed := ntimedReset st.epoch st.ntimed }, "ok")
  | ["flt.ntimed.state"] =>
    let f := st.ntimed
    (st, s!"ok {f.epoch} {fmtF f.alo} {fmtF f.amid} {fmtF f.ahi} {fmtF f.alolo} {fmtF f.ahihi} {fmtF f.navg}")
  | ["ntp.off", a, b, c, d] =>
    match parseSample? a b c d with
    | some x => (st, s!"ok {x.meas.off.toInt} {x.meas.rtd.toInt}")
    | none => (st, "bad-op")
  | _ =>
    match f64Step toks with
    | some r => (st, r)
    | none => (st, "bad-op")

def main : IO Unit := run ({} : St) step
