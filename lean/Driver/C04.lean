import Driver.Common
import ScionTime.Model.Time64
open Driver ScionTime.Time64

/-- ops:
  t64.enc <unixsec> <ns>                -> ok <S> <F>
  t64.dec <S> <F> <refsec> <refns>      -> ok <unixsec> <ns>
  cli.fresh <now sec> <now ns> <prev sec> <prev ns> -> ok interleaved|basic <tx S> <tx F>
      (the request the IP client builds at `now` holding the transmit timestamp of `prev`)
  t64.before|t64.after <S> <F> <S'> <F'> -> ok <bool>
-/
def step (_ : Unit) (toks : List String) : Unit × String :=
  match toks with
  | ["t64.enc", s, n] =>
    match parseInt? s, parseInt? n with
    | some s, some n =>
      if 0 ≤ n ∧ n < 1000000000 then
        let x := ofTime (mkTime s n)
        ((), s!"ok {x.sec} {x.frac}")
      else ((), "bad-op")
    | _, _ => ((), "bad-op")
  | ["t64.dec", s, f, rs, rn] =>
    match parseInt? s, parseInt? f, parseInt? rs, parseInt? rn with
    | some s, some f, some rs, some rn =>
      if 0 ≤ s ∧ s < era ∧ 0 ≤ f ∧ f < era ∧ 0 ≤ rn ∧ rn < 1000000000 then
        let t := toTime { sec := s, frac := f } (mkTime rs rn)
        ((), s!"ok {unixSec t} {nanosecond t}")
      else ((), "bad-op")
    | _, _, _, _ => ((), "bad-op")
  | ["cli.fresh", ns, nn, ps, pn] =>
    match parseInt? ns, parseInt? nn, parseInt? ps, parseInt? pn with
    | some ns, some nn, some ps, some pn =>
      if 0 ≤ nn ∧ nn < 1000000000 ∧ 0 ≤ pn ∧ pn < 1000000000 then
        -- measureClockOffsetIP: cTxTime0.Sub(TimeFromTime64(prev.cTxTime, cTxTime0)) <= 3 s
        -- (both within 2^31 s of each other: time.Time.Sub does not saturate)
        let now := mkTime ns nn
        let stored := ofTime (mkTime ps pn)
        if now - toTime stored now ≤ 3 * nsPerSec then ((), s!"ok interleaved {stored.sec} {stored.frac}")
        else let x := ofTime now; ((), s!"ok basic {x.sec} {x.frac}")
      else ((), "bad-op")
    | _, _, _, _ => ((), "bad-op")
  | [op, s, f, s', f'] =>
    match parseInt? s, parseInt? f, parseInt? s', parseInt? f' with
    | some s, some f, some s', some f' =>
      if op = "t64.before" then ((), s!"ok {before ⟨s, f⟩ ⟨s', f'⟩}")
      else if op = "t64.after" then ((), s!"ok {after ⟨s, f⟩ ⟨s', f'⟩}")
      else ((), "bad-op")
    | _, _, _, _ => ((), "bad-op")
  | _ => ((), "bad-op")

def main : IO Unit := run () step
