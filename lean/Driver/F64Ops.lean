import Driver.Common
import ScionTime.Model.F64
/-! Ops on the software double, shared by the drivers that need floats.
    Doubles cross the protocol as 16 hex digits. -/
namespace Driver
open ScionTime.F64

def fmtF (x : F64) : String := toHex64 (toBits x)
def parseF? (s : String) : Option F64 := (parseHex64? s).map ofBits

def f64Step (toks : List String) : Option String :=
  match toks with
  | [op, a, b] =>
    if op = "f64.const" then
      match parseInt? a, parseNat? b with
      | some n, some d => if d = 0 then some "bad-op" else some s!"ok {fmtF (ofConst n d)}"
      | _, _ => some "bad-op"
    else
    match parseF? a, parseF? b with
    | some x, some y =>
      if op = "f64.add" then some s!"ok {fmtF (add x y)}"
      else if op = "f64.sub" then some s!"ok {fmtF (sub x y)}"
      else if op = "f64.mul" then some s!"ok {fmtF (mul x y)}"
      else if op = "f64.div" then some s!"ok {fmtF (div x y)}"
      else if op = "f64.lt" then some s!"ok {lt x y}"
      else if op = "f64.le" then some s!"ok {le x y}"
      else if op = "f64.eq" then some s!"ok {beq x y}"
      else none
    | _, _ => if op.startsWith "f64." then some "bad-op" else none
  | [op, a] =>
    if op = "f64.ofint" then
      match parseInt? a with
      | some i => some s!"ok {fmtF (ofInt i)}"
      | none => some "bad-op"
    else if op = "f64.durs" then
      match parseInt? a with
      | some i => some s!"ok {fmtF (durationSeconds i)}"
      | none => some "bad-op"
    else
    match parseF? a with
    | some x =>
      if op = "f64.sqrt" then some s!"ok {fmtF (sqrt x)}"
      else if op = "f64.ceil" then some s!"ok {fmtF (ceil x)}"
      else if op = "f64.floor" then some s!"ok {fmtF (floor x)}"
      else if op = "f64.neg" then some s!"ok {fmtF (neg x)}"
      else if op = "f64.abs" then some s!"ok {fmtF (abs x)}"
      else if op = "f64.toint" then some s!"ok {toInt64 x}"
      else if op = "f64.todur" then some s!"ok {toDuration x}"
      else if op = "f64.id" then some s!"ok {fmtF x}"
      else none
    | none => if op.startsWith "f64." then some "bad-op" else none
  | _ => none

end Driver
