import Driver.Common
import ScionTime.Model.Timemath
import ScionTime.Model.Measurements
open Driver ScionTime.Timemath ScionTime.Measurements

/-- ops:
  tm.sgn <d>                 -> ok <-1|0|1>
  tm.inv <d>                 -> ok <v>
  tm.mid <x> <y>             -> ok <v>
  tm.median [d,...]          -> ok <v> [slice after the call]   | panic explicit:unexpected_number_of_values
  tm.ftm [d,...]             -> the same
  ms.median [o,t,e,...] post=[o,t,e,...]  -> ok <offset> <timestamp ns> <err 0|1> [post]
  ms.ftm    [o,t,e,...] post=[o,t,e,...]  -> the same
     (o = offset int64, t = timestamp in ns since the Unix epoch (unbounded), e = 1 iff Error != nil;
      post = the slice the implementation left behind; answered `bad-sort` if it is not an
      offset-sorted permutation of the input)
-/
def i64? (s : String) : Option Int64 :=
  match parseInt? s with
  | some v => if -9223372036854775808 ≤ v ∧ v ≤ 9223372036854775807 then some (Int64.ofInt v) else none
  | none => none

def i64List? (s : String) : Option (List Int64) :=
  match parseIntList? s with
  | some l =>
    if l.all (fun v => -9223372036854775808 ≤ v ∧ v ≤ 9223372036854775807) then some (l.map Int64.ofInt) else none
  | none => none

def fmt64List (l : List Int64) : String := fmtIntList (l.map Int64.toInt)

def mList? (s : String) : Option (List M) :=
  let rec go : List Int → List M → Option (List M)
    | [], acc => some acc.reverse
    | o :: t :: e :: rest, acc =>
      if -9223372036854775808 ≤ o ∧ o ≤ 9223372036854775807 ∧ (e = 0 ∨ e = 1) then
        go rest (⟨Int64.ofInt o, t, e = 1⟩ :: acc)
      else none
    | _, _ => none
  match parseIntList? s with
  | some l => go l []
  | none => none

def fmtMList (l : List M) : String :=
  fmtIntList (l.flatMap fun m => [m.offset.toInt, m.ts, if m.err then 1 else 0])

def panicMsg : String := "panic explicit:unexpected_number_of_values"

def fmtCall : Call → String
  | none => panicMsg
  | some (v, post) => s!"ok {v.toInt} {fmt64List post}"

def fmtRes (post : List M) : Res → String
  | .panic => panicMsg
  | .badSort => "bad-sort"
  | .ok m => s!"ok {m.offset.toInt} {m.ts} {if m.err then 1 else 0} {fmtMList post}"

def step (_ : Unit) (toks : List String) : Unit × String :=
  match toks with
  | ["tm.sgn", d] =>
    match i64? d with
    | some d => ((), s!"ok {sgn d}")
    | none => ((), "bad-op")
  | ["tm.inv", d] =>
    match i64? d with
    | some d => ((), s!"ok {(inv d).toInt}")
    | none => ((), "bad-op")
  | ["tm.mid", x, y] =>
    match i64? x, i64? y with
    | some x, some y => ((), s!"ok {(midpoint x y).toInt}")
    | _, _ => ((), "bad-op")
  | ["tm.median", l] =>
    match i64List? l with
    | some l => ((), fmtCall (median l))
    | none => ((), "bad-op")
  | ["tm.ftm", l] =>
    match i64List? l with
    | some l => ((), fmtCall (ftm l))
    | none => ((), "bad-op")
  | [op, l, p] =>
    if ¬ p.startsWith "post=" then ((), "bad-op") else
    match mList? l, mList? (p.drop 5).toString with
    | some ms, some post =>
      if op = "ms.median" then ((), fmtRes post (ScionTime.Measurements.median ms post))
      else if op = "ms.ftm" then ((), fmtRes post (ScionTime.Measurements.ftm ms post))
      else ((), "bad-op")
    | _, _ => ((), "bad-op")
  | _ => ((), "bad-op")

def main : IO Unit := run () step
